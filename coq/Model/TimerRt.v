(* Model/TimerRt.v -- engine "timerrt" (number 37): the scenarios of engine "iostate" evaluated over
   discrete time.  A case is the iostate configuration (plus, at index 7, the horizon H in seconds)
   followed by operations `second, op...` (op as in engine iostate).  Second n of the model is the
   instant n s after the scenario start; the harness starts every scenario half a second out of phase
   with the ntex-io timer wheel, so a timer armed at second n for d seconds is found due by the wheel
   between the operations of second n + d and those of second n + d + 1:
     for n = 0 .. H-1:  operations of second n;  the wheel ticks and fires what is due;  observe.
   observation: one field per second: finished, handlers pending, number of control messages, their
   codes, number of filler bytes (250) and the other bytes received by the peer.  Definitions only. *)
From MV Require Import Base.Prelude Base.Res Model.IoState Model.Timer Model.IoEnv.

Definition due (e : env) : bool :=
  match timer (e_t e) with Some dl => dl <=? now (e_t e) | None => false end.

Definition tick (e : env) : env := fst (t_apply e (timer_step (e_cfg e) (e_t e) Tick)).

(* the wheel's tick: what is due fires (notify_timeout); the wheel has already counted the new second
   when the woken dispatcher runs, so a timer re-armed while handling an expiry is due one wheel
   second later than one armed by an operation of the same second *)
Definition wheel (e : env) : env :=
  if due e then settle (tick (fst (t_apply e (timer_step (e_cfg e) (e_t e) TimerFired))))
  else tick e.

Fixpoint ops_at (n : N) (e : env) (ops : list (list N)) : env :=
  match ops with
  | [] => e
  | (s :: op) :: r => if s =? n then ops_at n (flush_wq (step_op e op)) r else ops_at n e r
  | [] :: r => ops_at n e r
  end.

Definition observe_rt (e : env) : list N :=
  let pending := (match e_resp e with Some _ => 1 | None => 0 end) + N.of_nat (length (e_spawned e)) in
  e_fin e :: pending :: N.of_nat (length (e_log e)) ::
  e_log e ++ [N.of_nat (length (filter (N.eqb 250) (e_written e)))] ++
  filter (fun b => negb (b =? 250)) (e_written e).

Fixpoint seconds (fuel : nat) (n : N) (e : env) (ops : list (list N)) : list (list N) :=
  match fuel with
  | O => []
  | S k =>
    let e1 := wheel (ops_at n e ops) in
    observe_rt e1 :: seconds k (n + 1) e1 ops
  end.

(* ---------------------------------------------------------------- real MQTT endpoints (cfg[8] = kind) *)
(* server kinds 3 / 5: the connect phase is Timer.connect_phase (one CTick at the start of every second
   after the first, CConnect when the CONNECT packet is complete); once connected the dispatcher runs
   the timer machine with keep-alive Timer.ack_keepalive(ka) and the frame-read-rate of the case; the
   MQTT codec consumes the two-byte PINGREQ header at once, so the only partial frame is a lone byte.
   KeepAliveTimeout: v5 writes DISCONNECT 0x8D (141), ReadTimeout: DISCONNECT 0x83 (131); v3 just closes. *)
Record msrv := mkMsrv {
  m_conn : list cevent;        (* connect-phase history *)
  m_cpart : bool;              (* the first bytes of CONNECT have arrived *)
  m_up : bool;                 (* connected *)
  m_closed : bool;
  m_t : tstate;
  m_buf : N;                   (* bytes of an incomplete packet in the read buffer *)
  m_pkts : list N
}.

Definition m_cfg (cfg : list N) : tcfg :=
  mkTcfg (ack_keepalive (nth 0 cfg 0))
         (if nth 4 cfg 0 =? 0 then None else Some (mkRr (nth 4 cfg 0) (nth 5 cfg 0) (nth 6 cfg 0))).

Definition m_close (v5 : bool) (m : msrv) (o : list tout) : msrv :=
  match o with
  | StopKeepAlive :: _ =>
    mkMsrv (m_conn m) (m_cpart m) (m_up m) true (m_t m) (m_buf m) (m_pkts m ++ (if v5 then [224; 141] else []))
  | StopRead :: _ =>
    mkMsrv (m_conn m) (m_cpart m) (m_up m) true (m_t m) (m_buf m) (m_pkts m ++ (if v5 then [224; 131] else []))
  | [] => m
  end.

Definition m_events (c : tcfg) (v5 : bool) (m : msrv) (evs : list tevent) : msrv :=
  match t_run c (m_t m) evs with
  | Ok (t, o) => m_close v5 (mkMsrv (m_conn m) (m_cpart m) (m_up m) (m_closed m) t (m_buf m) (m_pkts m)) o
  | _ => mkMsrv (m_conn m) (m_cpart m) (m_up m) true (m_t m) (m_buf m) [9999; 9999]
  end.

Definition set_buf (m : msrv) (b : N) : msrv :=
  mkMsrv (m_conn m) (m_cpart m) (m_up m) (m_closed m) (m_t m) b (m_pkts m).
Definition add_pkt (m : msrv) (p : N) : msrv :=
  mkMsrv (m_conn m) (m_cpart m) (m_up m) (m_closed m) (m_t m) (m_buf m) (m_pkts m ++ [p]).

Definition srv_op (c : tcfg) (v5 : bool) (m : msrv) (op : N) : msrv :=
  if m_closed m then m
  else if op =? 3 then mkMsrv (m_conn m) (m_cpart m) (m_up m) true (m_t m) (m_buf m) (m_pkts m)
  else if m_up m then
    if op =? 21 then m_events c v5 (add_pkt (set_buf m 0) 208) [Recv true 0; Recv false 0]
    else if op =? 22 then m_events c v5 (set_buf m 1) [Recv false 1]
    else if op =? 23 then
      if m_buf m =? 1 then m_events c v5 (add_pkt (set_buf m 0) 208) [Recv true 0; Recv false 0]
      else m_events c v5 (set_buf m 1) [Recv false 1]
    else if op =? 26 then m_events c v5 (set_buf m 1) [Recv false 1]
    else if op =? 27 then
      (* the fixed header [0x82; 5] is complete: the codec consumes it and waits for 5 more bytes *)
      m_events c v5 (set_buf m 0) [Recv false 0]
    else m
  else
    if (op =? 20) || ((op =? 25) && m_cpart m) then
      (* CONNECT complete: CONNACK; the dispatcher's first poll finds nothing to decode *)
      m_events c v5 (mkMsrv (m_conn m ++ [CConnect]) false true false (m_t m) 0 (m_pkts m ++ [32])) [Recv false 0]
    else if op =? 24 then mkMsrv (m_conn m) true false false (m_t m) 0 (m_pkts m)
    else m.

Fixpoint srv_ops (c : tcfg) (v5 : bool) (n : N) (m : msrv) (ops : list (list N)) : msrv :=
  match ops with
  | [] => m
  | [s; op] :: r => if s =? n then srv_ops c v5 n (srv_op c v5 m op) r else srv_ops c v5 n m r
  | _ :: r => srv_ops c v5 n m r
  end.

Definition srv_due (m : msrv) : bool :=
  match timer (m_t m) with Some dl => dl <=? now (m_t m) | None => false end.

Fixpoint srv_seconds (fuel : nat) (ct : N) (c : tcfg) (v5 : bool) (n : N) (m : msrv) (ops : list (list N))
  : list (list N) :=
  match fuel with
  | O => []
  | S k =>
    (* the connect timeout runs on the ms clock: it is checked at the start of the second *)
    let m0 := if (0 <? n) && negb (m_up m) && negb (m_closed m) then
                let h := m_conn m ++ [CTick] in
                match connect_phase ct 0 h with
                | Some CDropped => mkMsrv h (m_cpart m) false true (m_t m) (m_buf m) (m_pkts m)
                | _ => mkMsrv h (m_cpart m) (m_up m) (m_closed m) (m_t m) (m_buf m) (m_pkts m)
                end
              else m in
    let m1 := srv_ops c v5 n m0 ops in
    (* the wheel *)
    let m2 := if m_up m1 && negb (m_closed m1) && srv_due m1
              then m_events c v5 m1 [TimerFired; Tick; Recv false (m_buf m1)]
              else m_events c v5 m1 [Tick] in
    (b2n (m_closed m2) :: m_pkts m2) :: srv_seconds k ct c v5 (n + 1) m2 ops
  end.

(* client kinds 13 / 15: CONNECT is written at once; after CONNACK the keep-alive loop is Timer.k_step,
   one KTick at the start of every later second; the broker closing is KClose; op 31 = the application sends
   one QoS 1 PUBLISH (first byte 50), op 32 = the broker's PUBACK (no effect on the loop) *)
(* the keep-alive period a client adopts after CONNACK: the Server Keep Alive when CONNACK carries one (MQTT 5,
   [MQTT-3.2.2-21]: the client MUST use it instead of the value it sent), else its own; 0 = no keep-alive loop *)
Definition k_effective (own : N) (server : option N) : N :=
  match server with Some k => k | None => own end.

(* ops 341..343: CONNACK carrying Server Keep Alive 1..3 (MQTT 5; a v3 CONNACK has no such field: plain) *)
Definition srv_ka_of (v5 : bool) (op : N) : option N :=
  if v5 && (341 <=? op) && (op <=? 343) then Some (op - 340) else None.
Definition is_connack (op : N) : bool := (op =? 30) || (op =? 33) || ((341 <=? op) && (op <=? 343)).

Record mcli := mkMcli { c_k : option kstate; c_closed : bool; c_pkts : list N; c_ka : N }.

Fixpoint cli_ops (v5 : bool) (ka n : N) (m : mcli) (ops : list (list N)) : mcli :=
  match ops with
  | [] => m
  | [s; op] :: r =>
    if s =? n then
      let m1 := if c_closed m then m
                else if is_connack op then     (* 33: CONNACK announcing Receive Maximum 1 *)
                  match c_k m with
                  | None => let e := k_effective ka (srv_ka_of v5 op) in mkMcli (Some (k_init e)) false (c_pkts m) e
                  | Some _ => m
                  end
                else if op =? 3 then
                  mkMcli (match c_k m with Some k => Some (fst (k_step (c_ka m) k KClose)) | None => None end) true
                         (c_pkts m) (c_ka m)
                else m in
      cli_ops v5 ka n m1 r
    else cli_ops v5 ka n m r
  | _ :: r => cli_ops v5 ka n m r
  end.

(* op 31 of second n: the application publishes one QoS 1 message, written at once (the window is >= 1).  The
   operations of a second are applied on the second, the keep-alive loop wakes a moment later: the PUBLISH
   precedes a PINGREQ of the same second.  The loop looks neither at the traffic nor at the send credit. *)
Fixpoint cli_pubs (n : N) (m : mcli) (ops : list (list N)) : mcli :=
  match ops with
  | [] => m
  | [s; op] :: r =>
    cli_pubs n (if (s =? n) && (op =? 31) && negb (c_closed m)
                then match c_k m with Some _ => mkMcli (c_k m) false (c_pkts m ++ [50]) (c_ka m) | None => m end
                else m) r
  | _ :: r => cli_pubs n m r
  end.

(* op 3 of second n (the broker closes) is applied on the second as well, before the loop wakes: a PINGREQ due in
   that very second is not written any more *)
Fixpoint cli_closes (n : N) (m : mcli) (ops : list (list N)) : mcli :=
  match ops with
  | [] => m
  | [s; op] :: r =>
    cli_closes n (if (s =? n) && (op =? 3) && negb (c_closed m)
                  then mkMcli (match c_k m with Some k => Some (fst (k_step (c_ka m) k KClose)) | None => None end)
                              true (c_pkts m) (c_ka m)
                  else m) r
  | _ :: r => cli_closes n m r
  end.

Fixpoint cli_seconds (fuel : nat) (v5 : bool) (ka n : N) (m : mcli) (ops : list (list N)) : list (list N) :=
  match fuel with
  | O => []
  | S k =>
    let m := cli_closes n (cli_pubs n m ops) ops in
    let m0 := match c_k m with
              | Some ks => let '(ks1, ping) := k_step (c_ka m) ks KTick in
                           mkMcli (Some ks1) (c_closed m) (c_pkts m ++ (if ping then [192] else [])) (c_ka m)
              | None => m
              end in
    let m1 := cli_ops v5 ka n m0 ops in
    (b2n (c_closed m1) :: c_pkts m1) :: cli_seconds k v5 ka (n + 1) m1 ops
  end.

Definition run_mqttrt (cfg : list N) (ops : list (list N)) : list (list N) :=
  let kind := nth 8 cfg 0 in
  let h := N.to_nat (nth 7 cfg 0) in
  if (kind =? 13) || (kind =? 15) then cli_seconds h (kind =? 15) (nth 0 cfg 0) 0 (mkMcli None false [16] (nth 0 cfg 0)) ops
  else
    let c := m_cfg cfg in
    let o := srv_seconds h (nth 9 cfg 0) c (kind =? 5) 0 (mkMsrv [] false false false (t_init c) 0 []) ops in
    (* a panic of the connection task (m_pkts = [9999; 9999]) is the observation 9999 *)
    if existsb (fun f => match f with _ :: 9999 :: _ => true | _ => false end) o then [[9999]] else o.

Definition run_timerrt (c : list (list N)) : list (list N) :=
  match c with
  | [] => []
  | cfg :: ops =>
    if negb (nth 8 cfg 0 =? 0) then run_mqttrt cfg ops
    else
    let o := seconds (N.to_nat (nth 7 cfg 0)) 0 (settle (env_init cfg)) ops in
    if panicked o then [[9999]] else o
  end.
