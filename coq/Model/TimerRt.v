(* Model/TimerRt.v -- engine "timerrt" (number 37): the scenarios of engine "iostate" evaluated over
   discrete time.  A case is the iostate configuration (plus, at index 7, the horizon H in seconds)
   followed by operations `second, op...` (op as in engine iostate).  Second n of the model is the
   instant n s after the scenario start; the harness starts every scenario half a second out of phase
   with the ntex-io timer wheel, so a timer armed at second n for d seconds is found due by the wheel
   between the operations of second n + d and those of second n + d + 1:
     for n = 0 .. H-1:  operations of second n;  the wheel ticks and fires what is due;  observe.
   observation: one field per second: finished, handlers pending, number of control messages, their
   codes, bytes received by the peer.  Definitions only. *)
From MV Require Import Base.Prelude Base.Res Model.IoState Model.Timer Model.IoEnv.

Definition due (e : env) : bool :=
  match timer (e_t e) with Some dl => dl <=? now (e_t e) | None => false end.

Definition tick (e : env) : env := fst (t_apply e (timer_step (e_cfg e) (e_t e) Tick)).

(* the wheel's tick: what is due fires (notify_timeout); the wheel has already counted the new second
   when the woken dispatcher runs, so a timer re-armed while handling an expiry is due one wheel
   second later than one armed by an operation of the same second *)
Definition wheel (e : env) : env :=
  if due e then settle (tick (fst (t_apply e (timer_step (e_cfg e) (e_t e) TimerFired))))
  else tick e.

Fixpoint ops_at (n : N) (e : env) (ops : list (list N)) : env :=
  match ops with
  | [] => e
  | (s :: op) :: r => if s =? n then ops_at n (step_op e op) r else ops_at n e r
  | [] :: r => ops_at n e r
  end.

Definition observe_rt (e : env) : list N :=
  let pending := (match e_resp e with Some _ => 1 | None => 0 end) + N.of_nat (length (e_spawned e)) in
  e_fin e :: pending :: N.of_nat (length (e_log e)) :: e_log e ++ e_written e.

Fixpoint seconds (fuel : nat) (n : N) (e : env) (ops : list (list N)) : list (list N) :=
  match fuel with
  | O => []
  | S k =>
    let e1 := wheel (ops_at n e ops) in
    observe_rt e1 :: seconds k (n + 1) e1 ops
  end.

Definition run_timerrt (c : list (list N)) : list (list N) :=
  match c with
  | [] => []
  | cfg :: ops =>
    let o := seconds (N.to_nat (nth 7 cfg 0)) 0 (settle (env_init cfg)) ops in
    if panicked o then [[9999]] else o
  end.
