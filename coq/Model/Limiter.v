(* Model/Limiter.v -- the inbound in-flight limiter /repo/src/inflight.rs
     InFlightServiceImpl { count: Counter, service, publish: Cell<bool> }  (ready, call),
     Counter / CounterInner::{inc, dec, available, is_available}, CounterGuard (drop = dec),
     the LocalWaker `task` (register / wake = take-and-wake),
   as it is driven by io.rs (DispatcherInner::poll_service / call_service): the dispatcher owns one
   PipelineBinding; it polls `poll_ready`, and only when that answered Ready(Ok) does it decode the
   next frame and start `call_nowait(frame)`; otherwise it pauses reading and sleeps until its waker
   is woken.  The pieces of ntex-service 4.6 that sit between the two are modelled as far as they
   touch the dispatcher's waker:
     - PipelineBinding keeps the `ready()` future of the service across `poll_ready` calls while it
       is pending ([paused]): a kept future is suspended in `join(count.available(), ..)` and a new
       poll only re-runs `CounterInner::available` (register + counter test), NOT the `publish` test;
     - WaitersRef::run stores the polling task's waker in the waiters slot when the readiness check
       is pending ([pl_waker]) and WaitersRef::notify wakes it when a later readiness check
       (the dispatcher's own, or the `ctx.call(&self.service, ..)` inside `call`) completes.
   The inner service is always ready (as the v3/v5 dispatchers are when their handlers are).
   Definitions only. *)
From MV Require Import Base.Prelude Base.Res.

Definition lenN {A} (l : list A) : N := N.of_nat (length l).

Definition U16MAX : N := 65535.

(* what `SizedRequest for Decoded` (v3/dispatcher.rs) distinguishes *)
Inductive kind :=
| KOther          (* Decoded::Packet(..)                                   is_publish=false is_chunk=false *)
| KPubComplete    (* Decoded::Publish with the whole payload               is_publish=false is_chunk=false *)
| KPubStream      (* Decoded::Publish, payload incomplete (streamed)       is_publish=true  is_chunk=false *)
| KChunk          (* Decoded::PayloadChunk(_, false): more chunks follow   is_publish=false is_chunk=true  *)
| KChunkFinal.    (* Decoded::PayloadChunk(_, true): last chunk            is_publish=false is_chunk=false *)

Definition is_publish (k : kind) : bool := match k with KPubStream => true | _ => false end.
Definition is_chunk (k : kind) : bool := match k with KChunk => true | _ => false end.

(* a running call: its request kind and the size held by its CounterGuard *)
Record call := mkCall { c_kind : kind; c_size : N }.

Record lim := mkLim {
  max_cap : N;               (* u16 *)
  max_size : N;              (* usize *)
  cur_cap : N;               (* Cell<u16> *)
  cur_size : N;              (* Cell<usize> *)
  publish_flag : bool;       (* InFlightServiceImpl.publish *)
  waker_registered : bool;   (* CounterInner.task holds the dispatcher's waker *)
  pl_waker : bool;           (* the waiters slot of the pipeline holds the dispatcher's waker *)
  paused : bool;             (* the binding keeps a pending ready() future = the last poll_ready was Pending *)
  woken : bool;              (* the dispatcher's waker has been woken since its last poll_ready *)
  may_call : bool;           (* reading rule: the last poll_ready answered Ready and no call was made since *)
  running : list call        (* calls whose handler has not finished, oldest first *)
}.

Definition lim_init (mc ms : N) : lim := mkLim mc ms 0 0 false false false false false false [].

Definition set_counts (s : lim) (cap size : N) : lim :=
  mkLim (max_cap s) (max_size s) cap size (publish_flag s) (waker_registered s) (pl_waker s) (paused s)
        (woken s) (may_call s) (running s).
Definition set_flag (s : lim) (b : bool) : lim :=
  mkLim (max_cap s) (max_size s) (cur_cap s) (cur_size s) b (waker_registered s) (pl_waker s) (paused s)
        (woken s) (may_call s) (running s).
Definition set_waker (s : lim) (b : bool) : lim :=
  mkLim (max_cap s) (max_size s) (cur_cap s) (cur_size s) (publish_flag s) b (pl_waker s) (paused s)
        (woken s) (may_call s) (running s).
Definition set_plw (s : lim) (b : bool) : lim :=
  mkLim (max_cap s) (max_size s) (cur_cap s) (cur_size s) (publish_flag s) (waker_registered s) b (paused s)
        (woken s) (may_call s) (running s).
Definition set_paused (s : lim) (b : bool) : lim :=
  mkLim (max_cap s) (max_size s) (cur_cap s) (cur_size s) (publish_flag s) (waker_registered s) (pl_waker s) b
        (woken s) (may_call s) (running s).
Definition set_woken (s : lim) (b : bool) : lim :=
  mkLim (max_cap s) (max_size s) (cur_cap s) (cur_size s) (publish_flag s) (waker_registered s) (pl_waker s)
        (paused s) b (may_call s) (running s).
Definition set_may (s : lim) (b : bool) : lim :=
  mkLim (max_cap s) (max_size s) (cur_cap s) (cur_size s) (publish_flag s) (waker_registered s) (pl_waker s)
        (paused s) (woken s) b (running s).
Definition set_running (s : lim) (l : list call) : lim :=
  mkLim (max_cap s) (max_size s) (cur_cap s) (cur_size s) (publish_flag s) (waker_registered s) (pl_waker s)
        (paused s) (woken s) (may_call s) l.

(* LocalWaker::wake on CounterInner.task: take the waker, wake it *)
Definition task_wake (s : lim) : lim :=
  if waker_registered s then set_woken (set_waker s false) true else s.

(* WaitersRef::notify: take the waker of the waiters slot, wake it *)
Definition notify (s : lim) : lim :=
  if pl_waker s then set_woken (set_plw s false) true else s.

(* Counter::is_available / the test of CounterInner::available *)
Definition is_available (s : lim) : bool :=
  ((max_cap s =? 0) || (cur_cap s <? max_cap s)) && ((max_size s =? 0) || (cur_size s <=? max_size s)).

(* PipelineBinding::poll_ready by the dispatcher task (which therefore has consumed its wake-up).
   The answer is [may_call] of the result. *)
Definition step_ready (s : lim) : lim :=
  let s0 := set_woken s false in
  if paused s0 then
    (* kept future, suspended in join(count.available(), ..): CounterInner::available(cx) *)
    let s1 := set_waker s0 true in
    if is_available s1
    then notify (set_may (set_paused s1 false) true)   (* Ready: WaitersRef::run calls notify *)
    else set_may (set_plw s1 true) false               (* Pending: run stores the waker again *)
  else
    (* new ready() future *)
    if publish_flag s0 || is_available s0
    then notify (set_may s0 true)                      (* ctx.ready(&self.service): inner is ready *)
    else
      (* join(self.count.available(), ctx.ready(..)): available registers the waker, is not available *)
      set_may (set_plw (set_paused (set_waker s0 true) true) true) false.

Definition add_chk (a b bound : N) : res N := if a + b <=? bound then Ok (a + b) else Panic PS_add_overflow.

(* CounterInner::inc *)
Definition inc (s : lim) (size : N) : res lim :=
  let* cap := add_chk (cur_cap s) 1 U16MAX in
  let* sz := add_chk (cur_size s) size U64MAX in
  let s1 := set_counts s cap sz in
  Ok (if (cap =? max_cap s) || (max_size s <=? sz) then task_wake s1 else s1).

(* CounterInner::dec *)
Definition dec (s : lim) (size : N) : res lim :=
  let num := cur_cap s in
  let* cap := sub_chk num 1 in
  let csz := cur_size s in
  let* nsz := sub_chk csz size in
  let s1 := set_counts s cap nsz in
  Ok (if (num =? max_cap s) || ((max_size s <? csz) && (nsz <=? max_size s)) then task_wake s1 else s1).

(* InFlightServiceImpl::call up to the first suspension of the handler (call_nowait + first poll) *)
Definition step_call (s : lim) (k : kind) (size : N) : res lim :=
  let f1 := if publish_flag s && negb (is_chunk k) then false else publish_flag s in
  let f2 := if is_publish k then true else f1 in
  let s1 := set_flag s f2 in
  let gsize := if 0 <? max_size s then size else 0 in
  let* s2 := inc s1 gsize in                               (* self.count.get(size) *)
  let s3 := notify s2 in                                    (* ctx.call(&self.service, req): ReadyCall completes *)
  Ok (set_may (set_running s3 (running s3 ++ [mkCall k gsize])) false).

Fixpoint remove_nth {A} (n : nat) (l : list A) : list A :=
  match l, n with
  | [], _ => []
  | _ :: t, O => t
  | h :: t, S m => h :: remove_nth m t
  end.

(* the handler of the k-th running call finishes: drop(task_guard) *)
Definition step_complete (s : lim) (k : nat) : res lim :=
  match nth_error (running s) k with
  | None => Ok s
  | Some c => dec (set_running s (remove_nth k (running s))) (c_size c)
  end.

Inductive op :=
| Ready
| Call (k : kind) (size : N)
| Complete (k : nat).

Definition step (s : lim) (o : op) : res lim :=
  match o with
  | Ready => Ok (step_ready s)
  | Call k size => step_call s k size
  | Complete k => step_complete s k
  end.

Fixpoint run_from (s : lim) (ops : list op) : res lim :=
  match ops with
  | [] => Ok s
  | o :: r => let* s' := step s o in run_from s' r
  end.
Definition run (mc ms : N) (ops : list op) : res lim := run_from (lim_init mc ms) ops.

(* the reading rule of io.rs: a frame is decoded and handed to the service only right after a
   poll_ready that answered Ready, one frame per answer *)
Fixpoint legal_go (s : lim) (ops : list op) : bool :=
  match ops with
  | [] => true
  | o :: r =>
    (match o with Call _ _ => may_call s | _ => true end) &&
    match step s o with Ok s' => legal_go s' r | _ => true end
  end.
Definition legal (mc ms : N) (ops : list op) : bool := legal_go (lim_init mc ms) ops.

(* what the v3 codec and `SizedRequest for Decoded` guarantee about the order of frames: after a
   streamed PUBLISH come its payload chunks and nothing else until the final one; chunks occur
   only there; a chunk has size() = 0 *)
Definition chunk_kind (k : kind) : bool := match k with KChunk | KChunkFinal => true | _ => false end.
Fixpoint wf_stream_go (streaming : bool) (ops : list op) : bool :=
  match ops with
  | [] => true
  | Call k size :: r =>
    if streaming then chunk_kind k && (size =? 0) && wf_stream_go (is_chunk k) r
    else negb (chunk_kind k) && wf_stream_go (is_publish k) r
  | _ :: r => wf_stream_go streaming r
  end.
Definition wf_stream (ops : list op) : bool := wf_stream_go false ops.

(* size() of the most recent request that is not a payload chunk *)
Fixpoint last_size_go (last : N) (ops : list op) : N :=
  match ops with
  | [] => last
  | Call k size :: r => last_size_go (if chunk_kind k then last else size) r
  | _ :: r => last_size_go last r
  end.
Definition last_size (ops : list op) : N := last_size_go 0 ops.

Definition op_size_ok (o : op) : bool := match o with Call _ size => size <=? U32MAX | _ => true end.

Definition count_kind (p : kind -> bool) (l : list call) : N := lenN (filter (fun c => p (c_kind c)) l).
Definition publish_kind (k : kind) : bool := match k with KPubComplete | KPubStream => true | _ => false end.

(* ---- engine "limiter" (number 35): see harness/src/engines/limiter.rs for the case syntax ---- *)
Definition kind_of (n : N) : kind :=
  match n with
  | 1 => KPubComplete
  | 2 => KPubStream
  | 3 => KChunk
  | 4 => KChunkFinal
  | _ => KOther
  end.

Definition op_of_field (f : list N) : option op :=
  match f with
  | [1] => Some Ready
  | [2; k; size] => Some (Call (kind_of k) (N.min size U32MAX))
  | [3; k] => Some (Complete (N.to_nat k))
  | _ => None
  end.

Definition obs_of (s : lim) : list N := [b2n (may_call s); b2n (woken s); lenN (running s)].

Fixpoint run_fields (s : lim) (c : list (list N)) : res (list (list N)) :=
  match c with
  | [] => Ok []
  | f :: r =>
    let* s' := match op_of_field f with Some o => step s o | None => Ok s end in
    let* rest := run_fields s' r in
    Ok (obs_of s' :: rest)
  end.

Definition run_limiter (c : list (list N)) : list (list N) :=
  match c with
  | [mc; ms] :: r =>
    match run_fields (lim_init (N.min mc U16MAX) ms) r with
    | Ok o => o
    | Err _ => [[9998]]
    | Panic _ => [[9999]]
    end
  | _ => [[9997]]
  end.
