(* Model/Limiter.v -- the inbound in-flight limiter /repo/src/inflight.rs
     InFlightServiceImpl { count: Counter, service, publish: Cell<bool> }  (ready, call),
     Counter / CounterInner::{inc, dec, available, is_available}, CounterGuard (drop = dec),
     the LocalWaker `task` (register / wake = take-and-wake),
   as it is driven by io.rs (DispatcherInner::poll_service / call_service): the dispatcher owns one
   PipelineBinding; it polls `poll_ready`, and only when that answered Ready(Ok) does it decode the
   next frame and start `call_nowait(frame)`; otherwise it pauses reading and sleeps until its waker
   is woken.  The pieces of ntex-service 4.6 that sit between the two are modelled as far as they
   touch the dispatcher's waker:
     - PipelineBinding keeps the `ready()` future of the service across `poll_ready` calls while it
       is pending ([paused]): a kept future is suspended in `join(count.available(), ..)` and a new
       poll only re-runs `CounterInner::available` (register + counter test), NOT the `publish` test;
     - WaitersRef::run stores the polling task's waker in the waiters slot when the readiness check
       is pending ([pl_waker]) and WaitersRef::notify wakes it when a later readiness check
       (the dispatcher's own, or the `ctx.call(&self.service, ..)` inside `call`) completes.
   The inner service is always ready (as the v3/v5 dispatchers are when their handlers are).
   `InFlightServiceImpl::call` is an async fn: the `publish` flag update and `count.get(size)` (inc)
   run when the call future is first POLLED, not when `call_nowait` creates it.  io.rs::call_service
   polls the future at once only when no earlier response is outstanding (`state.response` empty);
   otherwise it `spawn`s it and the first poll happens after Dispatcher::poll has returned.  Hence
   three operations: [Call] (hand-over and first poll together), [Submit] (hand-over only) and
   [Start] (first poll of a handed-over call).
   Outside the model ([Err E_OUTSIDE]): a first poll while the dispatcher's readiness check is
   pending -- that call would park in WaitersRef::run (its pipeline clone has its own waiters index)
   until the readiness check completes; io.rs never hands a frame over in that state.
   Definitions only. *)
From MV Require Import Base.Prelude Base.Res.

Definition lenN {A} (l : list A) : N := N.of_nat (length l).

Definition U16MAX : N := 65535.

(* what `SizedRequest for Decoded` (v3/dispatcher.rs) distinguishes *)
Inductive kind :=
| KOther          (* Decoded::Packet(..)                                   is_publish=false is_chunk=false *)
| KPubComplete    (* Decoded::Publish with the whole payload               is_publish=false is_chunk=false *)
| KPubStream      (* Decoded::Publish, payload incomplete (streamed)       is_publish=true  is_chunk=false *)
| KChunk          (* Decoded::PayloadChunk(_, false): more chunks follow   is_publish=false is_chunk=true  *)
| KChunkFinal.    (* Decoded::PayloadChunk(_, true): last chunk            is_publish=false is_chunk=false *)

Definition is_publish (k : kind) : bool := match k with KPubStream => true | _ => false end.
Definition is_chunk (k : kind) : bool := match k with KChunk => true | _ => false end.

(* a running call: its request kind and the size held by its CounterGuard *)
Record call := mkCall { c_kind : kind; c_size : N }.

Record lim := mkLim {
  max_cap : N;               (* u16 *)
  max_size : N;              (* usize *)
  cur_cap : N;               (* Cell<u16> *)
  cur_size : N;              (* Cell<usize> *)
  publish_flag : bool;       (* InFlightServiceImpl.publish *)
  waker_registered : bool;   (* CounterInner.task holds the dispatcher's waker *)
  pl_waker : bool;           (* the waiters slot of the pipeline holds the dispatcher's waker *)
  paused : bool;             (* the binding keeps a pending ready() future = the last poll_ready was Pending *)
  woken : bool;              (* the dispatcher's waker has been woken since its last poll_ready *)
  may_call : bool;           (* reading rule: the last poll_ready answered Ready and no call was made since *)
  running : list call;       (* calls whose handler has not finished, oldest first *)
  submitted : list (kind * N) (* call futures created by call_nowait and not polled yet (spawned), oldest first *)
}.

Definition lim_init (mc ms : N) : lim := mkLim mc ms 0 0 false false false false false false [] [].

Definition set_counts (s : lim) (cap size : N) : lim :=
  mkLim (max_cap s) (max_size s) cap size (publish_flag s) (waker_registered s) (pl_waker s) (paused s)
        (woken s) (may_call s) (running s) (submitted s).
Definition set_flag (s : lim) (b : bool) : lim :=
  mkLim (max_cap s) (max_size s) (cur_cap s) (cur_size s) b (waker_registered s) (pl_waker s) (paused s)
        (woken s) (may_call s) (running s) (submitted s).
Definition set_waker (s : lim) (b : bool) : lim :=
  mkLim (max_cap s) (max_size s) (cur_cap s) (cur_size s) (publish_flag s) b (pl_waker s) (paused s)
        (woken s) (may_call s) (running s) (submitted s).
Definition set_plw (s : lim) (b : bool) : lim :=
  mkLim (max_cap s) (max_size s) (cur_cap s) (cur_size s) (publish_flag s) (waker_registered s) b (paused s)
        (woken s) (may_call s) (running s) (submitted s).
Definition set_paused (s : lim) (b : bool) : lim :=
  mkLim (max_cap s) (max_size s) (cur_cap s) (cur_size s) (publish_flag s) (waker_registered s) (pl_waker s) b
        (woken s) (may_call s) (running s) (submitted s).
Definition set_woken (s : lim) (b : bool) : lim :=
  mkLim (max_cap s) (max_size s) (cur_cap s) (cur_size s) (publish_flag s) (waker_registered s) (pl_waker s)
        (paused s) b (may_call s) (running s) (submitted s).
Definition set_may (s : lim) (b : bool) : lim :=
  mkLim (max_cap s) (max_size s) (cur_cap s) (cur_size s) (publish_flag s) (waker_registered s) (pl_waker s)
        (paused s) (woken s) b (running s) (submitted s).
Definition set_running (s : lim) (l : list call) : lim :=
  mkLim (max_cap s) (max_size s) (cur_cap s) (cur_size s) (publish_flag s) (waker_registered s) (pl_waker s)
        (paused s) (woken s) (may_call s) l (submitted s).
Definition set_submitted (s : lim) (l : list (kind * N)) : lim :=
  mkLim (max_cap s) (max_size s) (cur_cap s) (cur_size s) (publish_flag s) (waker_registered s) (pl_waker s)
        (paused s) (woken s) (may_call s) (running s) l.

(* LocalWaker::wake on CounterInner.task: take the waker, wake it *)
Definition task_wake (s : lim) : lim :=
  if waker_registered s then set_woken (set_waker s false) true else s.

(* WaitersRef::notify: take the waker of the waiters slot, wake it *)
Definition notify (s : lim) : lim :=
  if pl_waker s then set_woken (set_plw s false) true else s.

(* Counter::is_available / the test of CounterInner::available *)
Definition is_available (s : lim) : bool :=
  ((max_cap s =? 0) || (cur_cap s <? max_cap s)) && ((max_size s =? 0) || (cur_size s <=? max_size s)).

(* PipelineBinding::poll_ready by the dispatcher task (which therefore has consumed its wake-up).
   The answer is [may_call] of the result. *)
Definition step_ready (s : lim) : lim :=
  let s0 := set_woken s false in
  if paused s0 then
    (* kept future, suspended in join(count.available(), ..): CounterInner::available(cx) *)
    let s1 := set_waker s0 true in
    if is_available s1
    then notify (set_may (set_paused s1 false) true)   (* Ready: WaitersRef::run calls notify *)
    else set_may (set_plw s1 true) false               (* Pending: run stores the waker again *)
  else
    (* new ready() future *)
    if publish_flag s0 || is_available s0
    then notify (set_may s0 true)                      (* ctx.ready(&self.service): inner is ready *)
    else
      (* join(self.count.available(), ctx.ready(..)): available registers the waker, is not available *)
      set_may (set_plw (set_paused (set_waker s0 true) true) true) false.

Definition add_chk (a b bound : N) : res N := if a + b <=? bound then Ok (a + b) else Panic PS_add_overflow.

(* CounterInner::inc *)
Definition inc (s : lim) (size : N) : res lim :=
  let* cap := add_chk (cur_cap s) 1 U16MAX in
  let* sz := add_chk (cur_size s) size U64MAX in
  let s1 := set_counts s cap sz in
  Ok (if (cap =? max_cap s) || (max_size s <=? sz) then task_wake s1 else s1).

(* CounterInner::dec *)
Definition dec (s : lim) (size : N) : res lim :=
  let num := cur_cap s in
  let* cap := sub_chk num 1 in
  let csz := cur_size s in
  let* nsz := sub_chk csz size in
  let s1 := set_counts s cap nsz in
  Ok (if (num =? max_cap s) || ((max_size s <? csz) && (nsz <=? max_size s)) then task_wake s1 else s1).

Definition E_OUTSIDE : N := 90.

(* first poll of a call future: InFlightServiceImpl::call up to the first suspension of the handler *)
Definition first_poll (s : lim) (k : kind) (size : N) : res lim :=
  if paused s then Err E_OUTSIDE else
  let f1 := if publish_flag s && negb (is_chunk k) then false else publish_flag s in
  let f2 := if is_publish k then true else f1 in
  let s1 := set_flag s f2 in
  let gsize := if 0 <? max_size s then size else 0 in
  let* s2 := inc s1 gsize in                               (* self.count.get(size) *)
  let s3 := notify s2 in                                    (* ctx.call(&self.service, req): ReadyCall completes *)
  Ok (set_running s3 (running s3 ++ [mkCall k gsize])).

(* call_service with `state.response` empty: call_nowait and the first poll in one go *)
Definition step_call (s : lim) (k : kind) (size : N) : res lim :=
  let* s1 := first_poll s k size in Ok (set_may s1 false).

(* call_service while an earlier response is outstanding: call_nowait, then spawn *)
Definition step_submit (s : lim) (k : kind) (size : N) : lim :=
  set_may (set_submitted s (submitted s ++ [(k, size)])) false.

Fixpoint remove_nth {A} (n : nat) (l : list A) : list A :=
  match l, n with
  | [], _ => []
  | _ :: t, O => t
  | h :: t, S m => h :: remove_nth m t
  end.

(* the handler of the k-th running call finishes: drop(task_guard) *)
Definition step_complete (s : lim) (k : nat) : res lim :=
  match nth_error (running s) k with
  | None => Ok s
  | Some c => dec (set_running s (remove_nth k (running s))) (c_size c)
  end.

(* the j-th spawned call is polled for the first time *)
Definition step_start (s : lim) (j : nat) : res lim :=
  match nth_error (submitted s) j with
  | None => Ok s
  | Some (k, size) => first_poll (set_submitted s (remove_nth j (submitted s))) k size
  end.

Inductive op :=
| Ready
| Call (k : kind) (size : N)
| Complete (k : nat)
| Submit (k : kind) (size : N)
| Start (j : nat).

Definition step (s : lim) (o : op) : res lim :=
  match o with
  | Ready => Ok (step_ready s)
  | Call k size => step_call s k size
  | Complete k => step_complete s k
  | Submit k size => Ok (step_submit s k size)
  | Start j => step_start s j
  end.

Fixpoint run_from (s : lim) (ops : list op) : res lim :=
  match ops with
  | [] => Ok s
  | o :: r => let* s' := step s o in run_from s' r
  end.
Definition run (mc ms : N) (ops : list op) : res lim := run_from (lim_init mc ms) ops.

(* The reading rule of io.rs: a frame is decoded and handed to the service only right after a
   poll_ready that answered Ready, one frame per answer; poll_ready and the hand-over happen inside
   one Dispatcher::poll, so no spawned task runs in between.  This is all that io.rs guaranteed
   before /repo commit d435312. *)
Definition rr_allowed (s : lim) (o : op) : bool :=
  match o with
  | Call _ _ | Submit _ _ => may_call s
  | Start _ => negb (may_call s)
  | _ => true
  end.
Fixpoint reading_rule_go (s : lim) (ops : list op) : bool :=
  match ops with
  | [] => true
  | o :: r => rr_allowed s o && match step s o with Ok s' => reading_rule_go s' r | _ => true end
  end.
Definition reading_rule (mc ms : N) (ops : list op) : bool := reading_rule_go (lim_init mc ms) ops.

(* What the repaired io.rs guarantees in addition (commit d435312: after spawning a call
   Dispatcher::poll wakes itself and returns Pending; the executor queue of ntex-rt is FIFO, so the
   spawned task is polled before the dispatcher runs again): readiness is polled only when every
   spawned call has had its first poll.  With the reading rule: between the hand-over of a spawned
   call and the next poll_ready / hand-over there is always its first poll. *)
Definition op_allowed (s : lim) (o : op) : bool :=
  match o with
  | Ready => match submitted s with [] => true | _ => false end
  | _ => rr_allowed s o
  end.
Fixpoint legal_go (s : lim) (ops : list op) : bool :=
  match ops with
  | [] => true
  | o :: r => op_allowed s o && match step s o with Ok s' => legal_go s' r | _ => true end
  end.
Definition legal (mc ms : N) (ops : list op) : bool := legal_go (lim_init mc ms) ops.

(* every call future is polled at hand-over (no spawned first polls) *)
Definition inline_op (o : op) : bool := match o with Submit _ _ | Start _ => false | _ => true end.
Definition inline (ops : list op) : bool := forallb inline_op ops.

(* what the v3 codec and `SizedRequest for Decoded` guarantee about the order of frames: after a
   streamed PUBLISH come its payload chunks and nothing else until the final one; chunks occur
   only there; a chunk has size() = 0 *)
Definition chunk_kind (k : kind) : bool := match k with KChunk | KChunkFinal => true | _ => false end.
Definition frame_of (o : op) : option (kind * N) :=
  match o with Call k size | Submit k size => Some (k, size) | _ => None end.
Fixpoint wf_stream_go (streaming : bool) (ops : list op) : bool :=
  match ops with
  | [] => true
  | o :: r =>
    match frame_of o with
    | Some (k, size) =>
      if streaming then chunk_kind k && (size =? 0) && wf_stream_go (is_chunk k) r
      else negb (chunk_kind k) && wf_stream_go (is_publish k) r
    | None => wf_stream_go streaming r
    end
  end.
Definition wf_stream (ops : list op) : bool := wf_stream_go false ops.

(* size() of the most recent request that is not a payload chunk *)
Fixpoint last_size_go (last : N) (ops : list op) : N :=
  match ops with
  | [] => last
  | o :: r =>
    match frame_of o with
    | Some (k, size) => last_size_go (if chunk_kind k then last else size) r
    | None => last_size_go last r
    end
  end.
Definition last_size (ops : list op) : N := last_size_go 0 ops.

Definition op_size_ok (o : op) : bool := match frame_of o with Some (_, size) => size <=? U32MAX | None => true end.

Definition count_kind (p : kind -> bool) (l : list call) : N := lenN (filter (fun c => p (c_kind c)) l).
Definition publish_kind (k : kind) : bool := match k with KPubComplete | KPubStream => true | _ => false end.
Definition nonchunk (k : kind) : bool := negb (chunk_kind k).

(* three complete PUBLISH packets that arrive in one read: the first is polled at hand-over, the
   other two are spawned and polled after Dispatcher::poll has returned -- the schedule of io.rs
   before /repo commit d435312 *)
Definition deferred_ops (size : N) : list op :=
  [Ready; Call KPubComplete size; Ready; Submit KPubComplete size; Ready; Submit KPubComplete size;
   Start 0; Start 0].

(* ---- engine "limiter" (number 35): see harness/src/engines/limiter.rs for the case syntax ---- *)
Definition kind_of (n : N) : kind :=
  match n with
  | 1 => KPubComplete
  | 2 => KPubStream
  | 3 => KChunk
  | 4 => KChunkFinal
  | _ => KOther
  end.

Definition op_of_field (f : list N) : option op :=
  match f with
  | [1] => Some Ready
  | [2; k; size] => Some (Call (kind_of k) (N.min size U32MAX))
  | [3; k] => Some (Complete (N.to_nat k))
  | [4; k; size] => Some (Submit (kind_of k) (N.min size U32MAX))
  | [5; j] => Some (Start (N.to_nat j))
  | _ => None
  end.

Definition obs_of (s : lim) : list N := [b2n (may_call s); b2n (woken s); lenN (running s); lenN (submitted s)].

Fixpoint run_fields (s : lim) (c : list (list N)) : res (list (list N)) :=
  match c with
  | [] => Ok []
  | f :: r =>
    let* s' := match op_of_field f with Some o => step s o | None => Ok s end in
    let* rest := run_fields s' r in
    Ok (obs_of s' :: rest)
  end.

Definition run_limiter (c : list (list N)) : list (list N) :=
  match c with
  | [mc; ms] :: r =>
    match run_fields (lim_init (N.min mc U16MAX) ms) r with
    | Ok o => o
    | Err _ => [[9998]]
    | Panic _ => [[9999]]
    end
  | _ => [[9997]]
  end.
