(* Model/RespQueue.v -- the response re-sequencing queue of /repo/src/io.rs:
     DispatcherState::{base, queue, response, response_idx, error},
     DispatcherState::handle_result, DispatcherInner::call_service, and the poll of the
     inline `response` future at the top of Dispatcher::poll.
   Index arithmetic is usize wrapping (mod 2^64) exactly as in the Rust. Definitions only. *)
From MV Require Import Base.Prelude Base.Res.

Definition lenN {A} (l : list A) : N := N.of_nat (length l).

Definition W64 : N := 18446744073709551616.
Definition wadd (a b : N) : N := (a + b) mod W64.
Definition wsub (a b : N) : N := (a + (W64 - b mod W64)) mod W64.

(* what a handler answers: Ok(Some resp) / Ok(None) / Err *)
Inductive hres := HSome (b : N) | HNone | HErr.

Inductive slot := SPending | SReady (r : hres).

Record rq := mkRq {
  base : N;
  queue : list slot;
  response : option N;          (* request id whose future sits in the inline `response` slot *)
  response_idx : N;
  error : bool;                 (* DispatcherState.error is Some(_) *)
  spawned : list (N * N);       (* outstanding spawned calls: (request id, response_idx) *)
  out : list N;                 (* responses written to the io, oldest first *)
  panicked : bool               (* queue[idx] out of bounds *)
}.

Definition rq_init : rq := mkRq 0 [] None 0 false [] [] false.

(* the match on item shared by handle_result and call_service: write / record error / nothing *)
Definition apply_item (s : rq) (r : hres) : rq :=
  match r with
  | HErr => mkRq (base s) (queue s) (response s) (response_idx s) true (spawned s) (out s) (panicked s)
  | HSome b => mkRq (base s) (queue s) (response s) (response_idx s) (error s) (spawned s) (out s ++ [b]) (panicked s)
  | HNone => s
  end.

Definition pop_front (s : rq) : rq :=
  mkRq (wadd (base s) 1) (tl (queue s)) (response s) (response_idx s) (error s) (spawned s) (out s) (panicked s).

(* while let Some(item) = queue.front_mut().and_then(ServiceResult::take) { pop; base += 1; apply } *)
Fixpoint drain (fuel : nat) (s : rq) : rq :=
  match fuel with
  | O => s
  | S k =>
    match queue s with
    | SReady r :: _ => drain k (apply_item (pop_front s) r)
    | _ => s
    end
  end.

Fixpoint set_nth {A} (n : nat) (x : A) (l : list A) : list A :=
  match l, n with
  | [], _ => []
  | _ :: t, O => x :: t
  | h :: t, S k => h :: set_nth k x t
  end.

(* DispatcherState::handle_result(item, response_idx) *)
Definition handle_result (s : rq) (item : hres) (ridx : N) : rq :=
  let idx := wsub ridx (base s) in
  if idx =? 0 then
    let s1 := apply_item (pop_front s) item in
    drain (length (queue s1)) s1
  else
    match item with
    | HErr => apply_item s HErr
    | _ =>
      if idx <? lenN (queue s) then
        mkRq (base s) (set_nth (N.to_nat idx) (SReady item) (queue s)) (response s) (response_idx s)
             (error s) (spawned s) (out s) (panicked s)
      else mkRq (base s) (queue s) (response s) (response_idx s) (error s) (spawned s) (out s) true
    end.

Definition push_back (s : rq) (x : slot) : rq :=
  mkRq (base s) (queue s ++ [x]) (response s) (response_idx s) (error s) (spawned s) (out s) (panicked s).

(* DispatcherInner::call_service for request `id`; `now` = Some r when the handler's future is
   ready at its first poll.  When the call is spawned (an inline call is running) a handler that
   is ready at once completes in the spawned task's first poll, i.e. after the dispatcher's
   current poll: [call_service] returns that deferred completion as (response_idx, result). *)
Definition call_service (s : rq) (id : N) (now : option hres) : rq * option (N * hres) :=
  match response s with
  | Some _ =>
    (* first call is running: spawn with its slot index *)
    let ridx := wadd (base s) (lenN (queue s)) in
    let s1 := push_back s SPending in
    match now with
    | Some r => (s1, Some (ridx, r))
    | None =>
      (mkRq (base s1) (queue s1) (response s1) (response_idx s1) (error s1) (spawned s1 ++ [(id, ridx)]) (out s1)
            (panicked s1), None)
    end
  | None =>
    match now with
    | Some r =>
      match queue s with
      | [] => (apply_item s r, None)
      | _ =>
        let s1 := push_back s (SReady r) in
        (mkRq (base s1) (queue s1) (response s1) (wadd (base s1) (lenN (queue s1))) (error s1) (spawned s1)
              (out s1) (panicked s1), None)
      end
    | None =>
      let ridx := wadd (base s) (lenN (queue s)) in
      let s1 := push_back s SPending in
      (mkRq (base s1) (queue s1) (Some id) ridx (error s1) (spawned s1) (out s1) (panicked s1), None)
    end
  end.

(* one request arriving alone: the deferred completion (if any) runs right after *)
Definition arrive (s : rq) (id : N) (now : option hres) : rq :=
  match call_service s id now with
  | (s1, Some (ridx, r)) => handle_result s1 r ridx
  | (s1, None) => s1
  end.

Fixpoint lookup_spawned (id : N) (l : list (N * N)) : option N :=
  match l with
  | [] => None
  | (i, x) :: r => if i =? id then Some x else lookup_spawned id r
  end.
Fixpoint remove_spawned (id : N) (l : list (N * N)) : list (N * N) :=
  match l with
  | [] => []
  | (i, x) :: r => if i =? id then r else (i, x) :: remove_spawned id r
  end.

(* the deferred handler of request `id` completes with `r` *)
Definition complete (s : rq) (id : N) (r : hres) : rq :=
  match response s with
  | Some i =>
    if i =? id then
      let s1 := mkRq (base s) (queue s) None (response_idx s) (error s) (spawned s) (out s) (panicked s) in
      handle_result s1 r (response_idx s)
    else match lookup_spawned id (spawned s) with
         | Some ridx =>
           handle_result (mkRq (base s) (queue s) (response s) (response_idx s) (error s)
                               (remove_spawned id (spawned s)) (out s) (panicked s)) r ridx
         | None => s
         end
  | None =>
    match lookup_spawned id (spawned s) with
    | Some ridx =>
      handle_result (mkRq (base s) (queue s) (response s) (response_idx s) (error s)
                          (remove_spawned id (spawned s)) (out s) (panicked s)) r ridx
    | None => s
    end
  end.

Inductive op :=
| Arrive (id : N) (now : option hres)
| Done (id : N) (r : hres).

Definition step (s : rq) (o : op) : rq :=
  match o with
  | Arrive id now => arrive s id now
  | Done id r => complete s id r
  end.

Definition run_from (s : rq) (ops : list op) : rq := fold_left step ops s.
Definition run (ops : list op) : rq := run_from rq_init ops.

(* ---- engine "respq" (number 30): see harness/src/engines/respq.rs for the case syntax ---- *)
Definition mode_now (id mode : N) : option hres :=
  if mode =? 0 then None else if mode =? 1 then Some (HSome id) else Some HNone.
Definition res_of (id r : N) : hres := if r =? 0 then HSome id else HNone.

(* several requests arriving in one write: since the dispatcher yields after every spawned call
   (io.rs, "let the spawned call start before the next frame is read") the spawned task of a handler
   that is ready at once runs before the next frame is decoded, so a batch behaves as the same
   arrivals one after the other *)
Fixpoint arrive_pairs (s : rq) (l : list N) (fuel : nat) : rq :=
  match fuel with
  | O => s
  | S k => match l with
           | id :: mode :: r => arrive_pairs (arrive s id (mode_now id mode)) r k
           | _ => s
           end
  end.

Definition step_field (s : rq) (f : list N) : rq :=
  match f with
  | [1; id; mode] => arrive s id (mode_now id mode)
  | [2; id; r] => complete s id (res_of id r)
  | 3 :: l => arrive_pairs s l (length l)
  | _ => s
  end.

Fixpoint run_fields (s : rq) (c : list (list N)) : list (list N) :=
  match c with
  | [] => []
  | f :: r => let s' := step_field s f in
              (if panicked s' then [9999] else out s') :: run_fields s' r
  end.

Definition run_respq (c : list (list N)) : list (list N) := run_fields rq_init c.
