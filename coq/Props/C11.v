(* Props/C11.v -- property C11: inbound packet identifiers stay reserved until their exchange is
   acknowledged.  Statements only; the model is Model/Inbound.v, the proofs Proofs/InboundLogic.v.

   Vocabulary.  [proto_body p s] = what Service<Decoded>::call does with packet [p] in state [s] up to
   its first await (the arm of v3/v5, server/client dispatcher.rs selected by the configuration of [s]):
   the new state and an outcome -- [OHandler ..] = the publish handler is invoked, [OCtl m] / [OCtlP m ..]
   = the protocol service is invoked with message m, [ODone r] = the call is over with result r
   ([RSome t id reason] = write packet type t, [RErr (EProto reason)] = protocol error, [RNone] = nothing).
   [hres_any q2 id res s] = publish_fn after the handler of identifier [id] completed with [res]
   (0 = Ok, >= 128 = the negative ack the v5 application mapped its error to, else plain error);
   [srv_result m res s] / [ctl_result_c m res s] = Inner::control(_pkt) after the protocol service answered
   message m = (kind, packet id) (server / client).  [inuse id s] = id is in the `inflight` set.
   All theorems are for ALL states s (reachable or not) and all packets: layer 1. *)
From MV Require Import Base.Prelude Model.RespQueue Model.Inbound Proofs.InboundLogic.

(* ---- in use until acknowledged *)
(* a QoS 1/2 PUBLISH, SUBSCRIBE, UNSUBSCRIBE that is handed to a handler / the protocol service has its
   identifier in the set afterwards *)
Theorem C11_reserved_until_ack_accept : forall (p : pkt) (s : st) (id : N),
  reserves p = Some id -> delivered (snd (proto_body p s)) = true -> inuse id (fst (proto_body p s)) = true.
Proof. exact accept_reserves. Qed.
Print Assumptions C11_reserved_until_ack_accept.

(* no inbound packet releases an identifier *)
Theorem C11_reserved_until_ack_packets : forall (p : pkt) (s : st) (i : N),
  memN i (inflight (p_ s)) = true -> memN i (inflight (p_ (fst (proto_body p s)))) = true.
Proof. exact body_keeps_inflight. Qed.
Print Assumptions C11_reserved_until_ack_packets.

(* the completion of ANOTHER exchange (handler or protocol service, server or client) does not either *)
Theorem C11_reserved_until_ack_other_handler : forall (q2 id res : N) (s : st) (i : N),
  i <> id -> memN i (inflight (p_ (fst (hres_any q2 id res s)))) = memN i (inflight (p_ s)) /\
             memN i (publishes (p_ (fst (hres_any q2 id res s)))) = memN i (publishes (p_ s)) /\
             memN i (pubrel (p_ (fst (hres_any q2 id res s)))) = memN i (pubrel (p_ s)).
Proof. exact hres_keeps_other. Qed.
Print Assumptions C11_reserved_until_ack_other_handler.

Theorem C11_reserved_until_ack_other_control : forall (kind pid : N) (a : pack) (s : st) (i : N),
  i <> pid -> memN i (inflight (p_ (fst (ctl_result (kind, pid) a s)))) = memN i (inflight (p_ s)) /\
              memN i (publishes (p_ (fst (ctl_result (kind, pid) a s)))) = memN i (publishes (p_ s)) /\
              memN i (pubrel (p_ (fst (ctl_result (kind, pid) a s)))) = memN i (pubrel (p_ s)).
Proof. exact ctl_keeps_other. Qed.
Print Assumptions C11_reserved_until_ack_other_control.

Theorem C11_reserved_until_ack_other_control_client : forall (kind pid res : N) (s : st) (i : N),
  i <> pid -> memN i (inflight (p_ (fst (ctl_result_c (kind, pid) res s)))) = memN i (inflight (p_ s)) /\
              memN i (publishes (p_ (fst (ctl_result_c (kind, pid) res s)))) = memN i (publishes (p_ s)) /\
              memN i (pubrel (p_ (fst (ctl_result_c (kind, pid) res s)))) = memN i (pubrel (p_ s)).
Proof. exact ctlc_keeps_other. Qed.
Print Assumptions C11_reserved_until_ack_other_control_client.

(* QoS 2: a PUBREC with reason < 0x80 keeps the identifier (until PUBCOMP) and makes it await its PUBREL *)
Theorem C11_reserved_until_ack_qos2 : forall (id res : N) (s : st) (r : N),
  snd (hres_any 1 id res s) = RSome 80 id r -> r < 128 ->
  inflight (p_ (fst (hres_any 1 id res s))) = inflight (p_ s) /\
  publishes (p_ (fst (hres_any 1 id res s))) = publishes (p_ s) /\
  memN id (pubrel (p_ (fst (hres_any 1 id res s)))) = true.
Proof. exact hres_pubrec_keeps. Qed.
Print Assumptions C11_reserved_until_ack_qos2.

(* ---- a second packet with an identifier in use is never delivered, and changes nothing *)
Theorem C11_inuse_not_delivered : forall (p : pkt) (s : st) (id : N),
  reserves p = Some id -> inuse id s = true ->
  delivered (snd (proto_body p s)) = false /\ p_ (fst (proto_body p s)) = p_ s.
Proof. exact inuse_not_delivered. Qed.
Print Assumptions C11_inuse_not_delivered.

(* the same from the handler's side: whatever is delivered had a free identifier (C11_global, at the level
   of one call: [body] logs the handler invocation in the same step, see C03_handler_once) *)
Theorem C11_global : forall (p : pkt) (s : st) (id : N),
  reserves p = Some id -> delivered (snd (proto_body p s)) = true -> inuse id s = false.
Proof. exact delivered_was_free. Qed.
Print Assumptions C11_global.

(* MQTT 3.1.1, io open: the protocol violation (the model's EProto 130 = every SpecViolation of v3;
   here PacketId_2_2_1_3_Pub/_Sub/_Unsub), state untouched.  A client refuses SUBSCRIBE/UNSUBSCRIBE with the
   same error whatever the identifier. *)
Theorem C11_inuse_v3_violation : forall (p : pkt) (s : st) (id : N),
  v5 (c_ s) = false -> reserves p = Some id -> inuse id s = true -> stopped (i_ s) = false ->
  proto_body p s = (s, ODone (RErr (EProto 130))).
Proof. exact inuse_v3_violation. Qed.
Print Assumptions C11_inuse_v3_violation.

(* MQTT 5, when the checks that come first pass ([pre_ok5]: topic without wildcard, receive maximum, max
   QoS for a PUBLISH; io open, valid filters, server role for SUBSCRIBE/UNSUBSCRIBE): the immediate
   PUBACK / PUBREC / SUBACK / UNSUBACK with reason 0x91 = 145 (type [dup_ack_type p] = 64/80/144/176) is
   encoded -- [io_encode] appends (type, id, 145) to the wire unless the io is closing -- the call ends
   with Ok(None) and nothing else changes *)
Theorem C11_inuse_v5_answer : forall (p : pkt) (s : st) (id : N),
  v5 (c_ s) = true -> reserves p = Some id -> inuse id s = true -> pre_ok5 p s = true ->
  proto_body p s = (io_encode (dup_ack_type p) id 145 s, ODone RNone).
Proof. exact inuse_v5_answer. Qed.
Print Assumptions C11_inuse_v5_answer.

Theorem C11_inuse_v5_answer_written : forall (t id r : N) (s : st),
  wire (i_ (io_encode t id r s)) = (if closedio s then wire (i_ s) else wire (i_ s) ++ [t; id; r]) /\
  p_ (io_encode t id r s) = p_ s.
Proof. exact io_encode_effect. Qed.
Print Assumptions C11_inuse_v5_answer_written.

(* ---- reusable once acknowledged: the step that yields PUBACK (64), SUBACK (144), UNSUBACK (176),
   PUBCOMP (112) or a PUBREC (80) with reason >= 0x80 for an identifier leaves it in no set *)
Theorem C11_reusable_after_ack_handler : forall (q2 id res : N) (s : st) (t i r : N),
  snd (hres_any q2 id res s) = RSome t i r -> is_final_ack t r = true ->
  i = id /\ free_id id (fst (hres_any q2 id res s)).
Proof. exact hres_final. Qed.
Print Assumptions C11_reusable_after_ack_handler.

Theorem C11_reusable_after_ack_control : forall (kind pid res : N) (s : st) (t i r : N),
  pid <> 0 -> snd (srv_result (kind, pid) res s) = RSome t i r -> is_final_ack t r = true ->
  i = pid /\ free_id pid (fst (srv_result (kind, pid) res s)).
Proof. exact ctl_final. Qed.
Print Assumptions C11_reusable_after_ack_control.

Theorem C11_reusable_after_ack_control_client : forall (kind pid res : N) (s : st) (t i r : N),
  pid <> 0 -> snd (ctl_result_c (kind, pid) res s) = RSome t i r -> is_final_ack t r = true ->
  i = pid /\ free_id pid (fst (ctl_result_c (kind, pid) res s)).
Proof. exact ctlc_final. Qed.
Print Assumptions C11_reusable_after_ack_control_client.

(* ... and a free identifier is accepted: v3 under [pre_ok3], v5 under [pre_ok5] for a PUBLISH without
   topic alias (aliases: C17) while the io is open *)
Theorem C11_accepted_again : forall (p : pkt) (s : st) (id : N),
  wf_pkt p = true -> reserves p = Some id -> inuse id s = false ->
  (if v5 (c_ s) then pre_ok5 p s && no_alias p && negb (stopped (i_ s)) else pre_ok3 p s) = true ->
  delivered (snd (proto_body p s)) = true.
Proof. exact free_accepted. Qed.
Print Assumptions C11_accepted_again.

(* ---- PUBREL for an identifier that does not await release: v5 PUBCOMP 0x92 = 146, v3 server the
   protocol error, v3 client MqttShared::close() (DISCONNECT unless sent, io closed); no state change
   in the first two cases *)
Theorem C11_stray_pubrel_refused : forall (id : N) (s : st),
  memN id (pubrel (p_ s)) = false ->
  proto_body (KPubrel id) s =
    if v5 (c_ s) then (s, ODone (RSome 112 id 146))
    else if is_client s then (close3c s, ODone RNone)
    else (s, ODone (RErr (EProto 130))).
Proof. exact stray_pubrel. Qed.
Print Assumptions C11_stray_pubrel_refused.

Theorem C11_stray_pubrel_v3_client_closes : forall (s : st), closedio (close3c s) = true.
Proof. exact close3c_closed. Qed.
Print Assumptions C11_stray_pubrel_v3_client_closes.

(* ---- PUBREL only for QoS 2 after PUBREC *)
(* the protocol service sees a PublishRelease message only for a PUBREL whose identifier awaits release *)
Theorem C11_pubrel_only_for_qos2_after_pubrec : forall (p : pkt) (s : st) (id : N),
  snd (proto_body p s) = OCtl (1, id) -> p = KPubrel id /\ memN id (pubrel (p_ s)) = true.
Proof. exact pubrel_msg_origin. Qed.
Print Assumptions C11_pubrel_only_for_qos2_after_pubrec.

(* and the only way into that set is the successful PUBREC of a QoS 2 handler (q2 = 1 exactly for QoS 2) *)
Theorem C11_pubrel_set_origin : forall (q2 id res : N) (s : st) (i : N),
  memN i (pubrel (p_ (fst (hres_any q2 id res s)))) = true ->
  memN i (pubrel (p_ s)) = true \/
  (i = id /\ q2 = 1 /\ exists r, snd (hres_any q2 id res s) = RSome 80 id r /\ r < 128).
Proof. exact pubrel_origin_hres. Qed.
Print Assumptions C11_pubrel_set_origin.

Theorem C11_pubrel_set_packets : forall (p : pkt) (s : st), pubrel (p_ (fst (proto_body p s))) = pubrel (p_ s).
Proof. exact body_pubrel. Qed.
Print Assumptions C11_pubrel_set_packets.

Theorem C11_pubrel_set_control : forall (m : cmsg) (a : pack) (s : st) (i : N),
  memN i (pubrel (p_ (fst (ctl_result m a s)))) = true -> memN i (pubrel (p_ s)) = true.
Proof. exact pubrel_origin_ctl. Qed.
Print Assumptions C11_pubrel_set_control.

Theorem C11_pubrel_set_control_client : forall (m : cmsg) (res : N) (s : st) (i : N),
  memN i (pubrel (p_ (fst (ctl_result_c m res s)))) = true -> memN i (pubrel (p_ s)) = true.
Proof. exact pubrel_origin_ctlc. Qed.
Print Assumptions C11_pubrel_set_control_client.

Theorem C11_q2_flag : forall (p : pkt) (s : st) (q2 qos id t plen retain : N),
  snd (proto_body p s) = OHandler q2 qos id t plen retain -> q2 = b2n (qos =? 2).
Proof. exact handler_q2. Qed.
Print Assumptions C11_q2_flag.

(* ---- non-vacuity: v5 server (max QoS 2, receive maximum default, alias maximum 3): PUBLISH QoS 1 id 7 is
   delivered and reserves 7; a SUBSCRIBE with id 7 is then answered SUBACK 0x91; the handler's Ok yields
   PUBACK 7 and frees 7; the SUBSCRIBE is then delivered *)
Example C11_nonvacuous :
  let s0 := init_st true [2; 0; 3; 0; 1] in
  let r1 := proto_body (KPublish 1 7 1 0 0 3) s0 in
  let r2 := proto_body (KSubscribe 7 1) (fst r1) in
  let r3 := hres_any 0 7 0 (fst r2) in
  let r4 := proto_body (KSubscribe 7 1) (fst r3) in
  snd r1 = OHandler 0 1 7 1 3 0 /\ inuse 7 (fst r1) = true /\
  snd r2 = ODone RNone /\ wire (i_ (fst r2)) = [144; 7; 145] /\
  snd r3 = RSome 64 7 0 /\ inuse 7 (fst r3) = false /\
  snd r4 = OCtl (2, 7).
Proof. vm_compute. repeat split; reflexivity. Qed.
