(* Props/C09.v -- property C09: a successful encode appends exactly one frame with a truthful Remaining Length equal to the reported size; with a limit the frame never exceeds it, only diagnostics are dropped, otherwise over-size error; a failed encode appends nothing; no limit value panics.
   Statements only: each theorem is closed by `exact <lemma>`; the statement text is the lemma's type as
   printed by Coq (assembled by tools/mkprops.py from tools/props_spec/C09.json). *)
From MV Require Import Base.Prelude.
From MV Require Import Base.Res.
From MV Require Import Base.VarInt.
From MV Require Import Proofs.VarIntProofs.
From MV Require Import Gen.Consts.
From MV Require Import Spec.SpecConsts.
From MV Require Import Proofs.ConstsProofs.
From MV Require Import Base.Utf8.
From MV Require Import Model.CodecV3.
From MV Require Import Spec.SpecV3.
From MV Require Import Proofs.CodecV3Lib.
From MV Require Import Proofs.CodecV3Enc.
From MV Require Import Proofs.CodecV3Dec.
From MV Require Import Proofs.CodecV3RT.
From MV Require Import Proofs.CodecV3Mal.
From MV Require Import Proofs.CodecV3Stable.
From MV Require Import Proofs.CodecV3Layout.
From MV Require Import Proofs.CodecV3Frag.
From MV Require Import Proofs.CodecV3Sem.
From MV Require Import Proofs.CodecV3FragInd.
From MV Require Import Model.CodecV5.
From MV Require Import Model.Sniff.
From MV Require Import Spec.SpecV5.
From MV Require Import Proofs.CodecV5Fields.
From MV Require Import Proofs.CodecV5Size.
From MV Require Import Proofs.CodecV5Limit.
From MV Require Import Proofs.CodecV5Props.
From MV Require Import Proofs.CodecV5Round.
From MV Require Import Proofs.CodecV5DecBase.
From MV Require Import Proofs.CodecV5Stream.
From MV Require Import Proofs.CodecV5Round2.
From MV Require Import Proofs.CodecV5RT.
From MV Require Import Proofs.CodecV5Order.
From MV Require Import Proofs.CodecV5Layout.
From MV Require Import Proofs.CodecV5Succ.
From MV Require Import Proofs.CodecV5Enough.
From MV Require Import Proofs.CodecV5Total.
From MV Require Import Proofs.SniffProofs.

(* v5: one frame, Remaining Length = number of bytes that follow = encoded_size (two separate code paths in the Rust) *)
Theorem C09_v5_size_agrees :
  (forall (c : ecodec) (p : packet) (w : bytes) (c' : ecodec),
          encodev c (EPacket p) = (w, Ok tt, c') ->
          let q := effective c p in
          let sz := encoded_size (max_size_of c) q in
          exists body : bytes, is_frame (first_byte q) sz w body /\ len body = sz) /\
         (forall (c : ecodec) (p : publish) (buf : option bytes) (w : bytes) (c' : ecodec),
          encodev c (EPublish p buf) = (w, Ok tt, c') ->
          let sz := publish_encoded_size p (max_size_of c) in
          exists body : list N,
            is_frame (publish_first_byte p) sz w (body ++ inline_payload buf) /\
            len body + p_payload_size p = sz).
Proof. exact CodecV5Size.v5_size_agrees. Qed.
Print Assumptions C09_v5_size_agrees.

Theorem C09_v5_size_agrees_packet :
  forall (c : ecodec) (p : packet) (w : bytes) (c' : ecodec),
         encodev c (EPacket p) = (w, Ok tt, c') ->
         let q := effective c p in
         let sz := encoded_size (max_size_of c) q in
         c' = c /\
         sz <= max_size_of c /\ (exists body : bytes, is_frame (first_byte q) sz w body /\ len body = sz).
Proof. exact CodecV5Size.v5_size_agrees_packet. Qed.
Print Assumptions C09_v5_size_agrees_packet.

Theorem C09_v5_size_agrees_publish :
  forall (c : ecodec) (p : publish) (buf : option bytes) (w : bytes) (c' : ecodec),
         encodev c (EPublish p buf) = (w, Ok tt, c') ->
         let sz := publish_encoded_size p (max_size_of c) in
         sz <= max_size_of c /\
         len (inline_payload buf) <= p_payload_size p /\
         ec_encoding_payload c' = nonzero (p_payload_size p - len (inline_payload buf)) /\
         ec_max_out_size c' = ec_max_out_size c /\
         ec_max_out_frame c' = ec_max_out_frame c /\
         ec_no_problem_info c' = ec_no_problem_info c /\
         (exists body : list N,
            is_frame (publish_first_byte p) sz w (body ++ inline_payload buf) /\
            len body + p_payload_size p = sz).
Proof. exact CodecV5Size.v5_size_agrees_publish. Qed.
Print Assumptions C09_v5_size_agrees_publish.

Theorem C09_v5_size_agrees_chunk :
  forall (c : ecodec) (chunk w : bytes) (c' : ecodec),
         encodev c (EPayloadChunk chunk) = (w, Ok tt, c') ->
         exists remaining : N,
           ec_encoding_payload c = Some remaining /\
           w = chunk /\
           len chunk mod TWO32 <= remaining /\
           ec_encoding_payload c' = nonzero (remaining - len chunk mod TWO32).
Proof. exact CodecV5Size.v5_size_agrees_chunk. Qed.
Print Assumptions C09_v5_size_agrees_chunk.

(* v5: with a peer Maximum Packet Size in force the frame never exceeds it *)
Theorem C09_v5_within_limit :
  forall (c0 : ecodec) (m : N),
         m <> 0 ->
         let c := set_max_outbound_size c0 m in
         (forall (p : packet) (w : bytes) (c' : ecodec), encodev c (EPacket p) = (w, Ok tt, c') -> len w <= m) /\
         (forall (p : publish) (buf : option bytes) (w : bytes) (c' : ecodec),
          encodev c (EPublish p buf) = (w, Ok tt, c') ->
          len w + (p_payload_size p - len (inline_payload buf)) <= m).
Proof. exact CodecV5Size.v5_within_limit. Qed.
Print Assumptions C09_v5_within_limit.

(* v5: when shortened, only whole user properties (a prefix) and the reason string are left out; every other field decodes unchanged *)
Theorem C09_v5_only_diagnostics_dropped :
  forall (c : ecodec) (p : packet) (w : bytes) (c' : ecodec),
         diag_packet_ok p = true ->
         encodev c (EPacket p) = (w, Ok tt, c') ->
         exists (body : bytes) (ups' : list uprop) (reason' : option bytes),
           is_frame (first_byte p) (len body) w body /\
           is_prefix ups' (diag_ups p) /\
           (reason' = diag_reason p \/ reason' = None) /\
           decode_packet (first_byte p) body = Ok (with_diag p ups' reason').
Proof. exact CodecV5Round.v5_only_diagnostics_dropped. Qed.
Print Assumptions C09_v5_only_diagnostics_dropped.

(* v5: if that is not enough the encode fails with OverMaxPacketSize *)
Theorem C09_v5_else_oversize :
  forall (c : ecodec) (p : packet),
         ec_encoding_payload c = None ->
         let L := max_size_of c in
         let m := packet_encoded_size (drop_diag (effective c p)) L in
         L < m \/ ec_max_out_frame c <> 0 /\ ec_max_out_frame c < m + var_int_len m + 1 ->
         encodev c (EPacket p) = ([], Err EE_OverMaxPacketSize, c).
Proof. exact CodecV5Limit.v5_else_oversize. Qed.
Print Assumptions C09_v5_else_oversize.

(* v5, the converse for the acknowledgements that carry a list of reason codes after their properties (SUBACK,
   UNSUBACK): leaving out the diagnostics IS enough whenever the packet without them fits -- the size computed for
   the full packet is then within the limit too (the reason codes come off the budget of the diagnostics) ... *)
Theorem C09_v5_list_ack_shortening_enough :
  forall (p : packet) (L : N),
         L <= VI_MAX -> list_ack p = true ->
         packet_encoded_size (drop_diag p) L <= L -> packet_encoded_size p L <= L.
Proof. exact CodecV5Enough.v5_list_ack_shortening_enough. Qed.
Print Assumptions C09_v5_list_ack_shortening_enough.

(* ... so such a packet is never refused for its diagnostics *)
Theorem C09_v5_list_ack_sent :
  forall (c : ecodec) (p : packet),
         ec_encoding_payload c = None -> enc_ok p = true -> list_ack p = true ->
         let q := effective c p in
         packet_encoded_size (drop_diag q) (max_size_of c) <= max_size_of c ->
         check_frame_size c (packet_encoded_size q (max_size_of c)) = Ok tt ->
         exists w, encodev c (EPacket p) = ((w, Ok tt), c).
Proof. exact CodecV5Enough.v5_list_ack_sent. Qed.
Print Assumptions C09_v5_list_ack_sent.

(* the same for EVERY packet kind (PUBACK family, CONNACK, DISCONNECT, AUTH, SUBACK, UNSUBACK; the other kinds
   have no diagnostics to drop): the size computed for the full packet is within the limit whenever the size of
   the packet without Reason String / User Properties is -- "if that is not enough the encode fails" is an iff *)
Theorem C09_v5_shortening_enough :
  forall (p : packet) (L : N),
         L <= VI_MAX -> packet_encoded_size (drop_diag p) L <= L -> packet_encoded_size p L <= L.
Proof. exact CodecV5Enough.v5_shortening_enough. Qed.
Print Assumptions C09_v5_shortening_enough.

Theorem C09_v5_shortened_is_sent :
  forall (c : ecodec) (p : packet),
         ec_encoding_payload c = None -> enc_ok p = true ->
         let q := effective c p in
         packet_encoded_size (drop_diag q) (max_size_of c) <= max_size_of c ->
         check_frame_size c (packet_encoded_size q (max_size_of c)) = Ok tt ->
         exists w, encodev c (EPacket p) = ((w, Ok tt), c).
Proof. exact CodecV5Enough.v5_shortened_is_sent. Qed.
Print Assumptions C09_v5_shortened_is_sent.

(* non-vacuity: UNSUBACK, 4 reason codes, 20-byte reason string, peer maximum 34 (size limit 29): the premises
   hold and the packet goes out without its reason string (the input of seeded/C09g) *)
Example C09_list_ack_nonvacuous :
  let p := UnsubscribeAck (mkUnsubscribeAck 256 [] (Some (repeat 114 20)) [0; 17; 128; 131]) in
  let c := set_max_outbound_size ecodec_new 34 in
  enc_ok p = true /\ list_ack p = true /\ ec_encoding_payload c = None /\
  packet_encoded_size (drop_diag (effective c p)) (max_size_of c) = 7 /\ max_size_of c = 29 /\
  check_frame_size c (packet_encoded_size (effective c p) (max_size_of c)) = Ok tt /\
  encodev c (EPacket p) = (([176; 7; 1; 0; 0; 0; 17; 128; 131], Ok tt), c).
Proof. vm_compute. repeat split; reflexivity. Qed.

(* v5: after a CONNECT that declines problem information acknowledgements carry neither *)
Theorem C09_v5_no_problem_info :
  forall (c : ecodec) (p : packet),
         ec_no_problem_info c = true ->
         effective c p = strip_packet p /\
         no_diag (effective c p) /\ encodev c (EPacket p) = encodev c (EPacket (strip_packet p)).
Proof. exact CodecV5Limit.v5_no_problem_info. Qed.
Print Assumptions C09_v5_no_problem_info.

(* a failed encode appends no bytes *)
Theorem C09_v5_fail_appends_nothing :
  forall (c : ecodec) (it : encoded) (w : bytes) (e : N) (c' : ecodec),
         encodev c it = (w, Err e, c') -> w = [] /\ c' = c.
Proof. exact CodecV5Size.v5_fail_appends_nothing. Qed.
Print Assumptions C09_v5_fail_appends_nothing.

(* v5: no limit value and no packet value makes the encoder panic or overflow *)
Theorem C09_v5_no_limit_panics :
  forall (c : ecodec) (it : encoded), wnp (fst (encodev c it)).
Proof. exact CodecV5Size.v5_no_limit_panics. Qed.
Print Assumptions C09_v5_no_limit_panics.

(* v3: one frame, truthful Remaining Length = get_encoded_size / get_encoded_publish_size *)
Theorem C09_v3_size_agrees :
  forall (max_size : N) (ep : option N) (it : CodecV3.encoded) (dst dst' : bytes) (ep' : option N),
         match it with
         | CodecV3.EPacket _ => True
         | CodecV3.EPublish p _ => CodecV3.p_payload_size p <= U32MAX
         | EChunk _ => False
         end ->
         CodecV3.encodev max_size ep it dst = (dst', ep', Ok tt) ->
         exists (vi : bytes) (body' : list N),
           enc_vi (item_size it) = Some vi /\
           dst' = dst ++ item_first_byte it :: vi ++ body' /\ len body' + owed ep' = item_size it.
Proof. exact CodecV3Enc.v3_size_agrees. Qed.
Print Assumptions C09_v3_size_agrees.

Theorem C09_v3_fail_appends_nothing :
  forall (max_size : N) (ep : option N) (it : CodecV3.encoded) (dst dst' : bytes) 
           (ep' : option N) (e : N),
         CodecV3.encodev max_size ep it dst = (dst', ep', Err e) -> dst' = dst /\ ep' = ep.
Proof. exact CodecV3Enc.v3_fail_appends_nothing. Qed.
Print Assumptions C09_v3_fail_appends_nothing.

Theorem C09_v3_oversize_encode_refused :
  forall (max_size : N) (p : CodecV3.packet) (dst : bytes),
         VI_MAX < get_encoded_size p ->
         CodecV3.encodev max_size None (CodecV3.EPacket p) dst = (dst, None, Err EE_OverMaxPacketSize).
Proof. exact CodecV3Enc.v3_oversize_encode_refused. Qed.
Print Assumptions C09_v3_oversize_encode_refused.

(* v3: the encoder never panics *)
Theorem C09_v3_encode_total :
  forall (max_size : N) (ep : option N) (it : CodecV3.encoded) (dst : bytes),
         match it with
         | CodecV3.EPublish p _ => CodecV3.p_payload_size p <= U32MAX
         | _ => True
         end -> CodecV3Lib.np (snd (CodecV3.encodev max_size ep it dst)).
Proof. exact CodecV3Enc.v3_encode_total. Qed.
Print Assumptions C09_v3_encode_total.

(* var_int_len_from_size inverts len + varint_len(len) for every length a var-int can carry *)
Theorem C09_varlen_inverse : forall n, n <= VI_MAX -> var_int_len_from_size (n + var_int_len n) = Ok n.
Proof. exact varlen_inverse. Qed.
Print Assumptions C09_varlen_inverse.

(* the var-int writer emits exactly var_int_len bytes, all of them bytes *)
Theorem C09_varint_len_truthful : forall n b, enc_vi n = Some b -> len b = var_int_len n /\ bytes_ok b = true.
Proof. intros n b H. split; [exact (enc_vi_len n b H) | exact (enc_vi_bytes_ok n b H)]. Qed.
Print Assumptions C09_varint_len_truthful.

(* outside the var-int range the writer's panic branch is reached; inside it never is *)
Theorem C09_varint_panic_iff : forall n, (write_vi n = Panic PS_varlen_too_big) <-> VI_MAX < n.
Proof.
  intros n. unfold write_vi. split.
  - destruct (enc_vi n) eqn:E; [discriminate|]. intros _.
    destruct (N.le_gt_cases n VI_MAX) as [H|H]; [|exact H].
    destruct (enc_vi_some n H) as [b Hb]. congruence.
  - intros H. rewrite (enc_vi_none n H). reflexivity.
Qed.
Print Assumptions C09_varint_panic_iff.

(* the scalars of the limit arithmetic in the Rust source are the ones the models and theorems use *)
Theorem C09_limit_scalars :
  gen_MAX_PACKET_SIZE = 268435455 /\ gen_PUBACK_HEADER_LEN = 3 /\
  gen_OUT_SIZE_THRESHOLD = 5 /\ gen_OUT_SIZE_REDUCTION = 5.
Proof. repeat split; reflexivity. Qed.
Print Assumptions C09_limit_scalars.

