(* Props/C09.v -- property C09: one frame, truthful length, within the peer's maximum. Statements only.
   (per-packet size/limit theorems are appended below as they are proved) *)
From MV Require Import Base.Prelude Base.Res Base.VarInt Proofs.VarIntProofs.
From MV Require Import Gen.Consts Spec.SpecConsts Proofs.ConstsProofs.

(* var_int_len_from_size inverts len + varint_len(len) for every length a var-int can carry *)
Theorem C09_varlen_inverse : forall n, n <= VI_MAX -> var_int_len_from_size (n + var_int_len n) = Ok n.
Proof. exact varlen_inverse. Qed.
Print Assumptions C09_varlen_inverse.

(* the var-int writer emits exactly var_int_len bytes, all of them bytes *)
Theorem C09_varint_len_truthful : forall n b, enc_vi n = Some b -> len b = var_int_len n /\ bytes_ok b = true.
Proof. intros n b H. split; [exact (enc_vi_len n b H) | exact (enc_vi_bytes_ok n b H)]. Qed.
Print Assumptions C09_varint_len_truthful.

(* outside the var-int range the writer's panic branch is reached; inside it never is *)
Theorem C09_varint_panic_iff : forall n, (write_vi n = Panic PS_varlen_too_big) <-> VI_MAX < n.
Proof.
  intros n. unfold write_vi. split.
  - destruct (enc_vi n) eqn:E; [discriminate|]. intros _.
    destruct (N.le_gt_cases n VI_MAX) as [H|H]; [|exact H].
    destruct (enc_vi_some n H) as [b Hb]. congruence.
  - intros H. rewrite (enc_vi_none n H). reflexivity.
Qed.
Print Assumptions C09_varint_panic_iff.

(* the scalars of the limit arithmetic in the Rust source are the ones the models and theorems use *)
Theorem C09_limit_scalars :
  gen_MAX_PACKET_SIZE = 268435455 /\ gen_PUBACK_HEADER_LEN = 3 /\
  gen_OUT_SIZE_THRESHOLD = 5 /\ gen_OUT_SIZE_REDUCTION = 5.
Proof. repeat split; reflexivity. Qed.
Print Assumptions C09_limit_scalars.
