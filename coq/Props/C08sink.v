(* Props/C08sink.v -- property C08 at the sink level: the sink layer (MqttShared / MqttSink / StreamingPayload, model
   Model/Sink.v) hands the encoder only operation sequences that satisfy the guard under which Props/C08.v proves the
   wire well-formed.  Statements only; proofs in Proofs/SinkWire.v.

   Vocabulary.  [wire (sink_op s o)]: what operation [o] wrote, a list of (tag, value) pairs: tags 1/2 PUBLISH QoS 1/2,
   3 PUBLISH QoS 0, 4 PUBREL, 5 SUBSCRIBE, 6 UNSUBSCRIBE, 7 DISCONNECT, 8 = W_CHUNK payload chunk (value = its byte
   count).  [wtags w]: the tags of a log, [chunk_bytes w]: the payload bytes of its chunk entries.
   [srem s]: MqttShared.streaming_remaining (payload bytes the sink still owes, 0 = none);
   [crem s]: Codec::encoding_payload (what the codec still expects).
   [codec_sync s]: on an open connection the two accounts agree; it holds in every reachable state
   ([C08sink_sync_reachable]) and is preserved by every operation from any state ([C08sink_sync_step]).
   Link to Props/C08.v: [crem] is the [owed] of the codec-level run; (a) says a packet / PUBLISH is encoded only when
   [owed = 0] (the [guard]); (c) says chunks stay within [owed] and the frame is closed exactly when the sink thinks so. *)
From MV Require Import Base.Prelude Model.Sink Proofs.SinkInv Proofs.SinkProofs Proofs.SinkWire.

Theorem C08sink_sync_step : forall (s : sink) (o : op), codec_sync s -> codec_sync (sink_op s o).
Proof. exact sync_step. Qed.
Print Assumptions C08sink_sync_step.

Theorem C08sink_sync_reachable : forall (v : N) (cl : bool) (c : N) (ops : list op),
  codec_sync (run_from (sink_init v cl c) ops).
Proof. exact sync_reachable. Qed.
Print Assumptions C08sink_sync_reachable.

(* (a) while a streamed payload is owed, whatever the operation (a new send of any kind, a release or a drop of a
   QoS 2 receipt, acknowledgements -- even erroneous ones that end the connection --, close, ...), nothing is
   written but at most one payload chunk: no PUBLISH / SUBSCRIBE / UNSUBSCRIBE / PUBREL, and (stronger than asked)
   no DISCONNECT either: a close during a streamed payload skips it *)
Theorem C08sink_no_packet_while_payload_owed : forall (s : sink) (o : op),
  codec_sync s -> srem s <> 0 ->
  forallb (fun t => t =? W_CHUNK) (wtags (wire (sink_op s o))) = true /\ (length (wire (sink_op s o)) <= 2)%nat.
Proof. exact no_packet_while_payload_owed. Qed.
Print Assumptions C08sink_no_packet_while_payload_owed.

(* (b) for ANY state: a send (created, started or polled in this step) that ends with a status other than Ok --
   Disconnected, PacketIdInUse, Encode (payload owed, packet too large), StreamingCancelled, id-counter panic --
   wrote nothing in that step, and left the queue, the id set, the rx map, the waiters and both streaming accounts
   as they were *)
Theorem C08sink_failed_send_writes_nothing : forall (s : sink) (o : op) (t : N) (x' : task) (e : N),
  (o = OPoll t \/ exists k idq size, o = OStart t k idq size \/ o = OCreate t k idq size) ->
  find_task t (tasks (sink_op s o)) = Some x' -> (tst x' = TDone e \/ tst x' = TDeferred e) -> e <> ST_OK ->
  let s' := sink_op s o in
  wire s' = [] /\ inflight s' = inflight s /\ ids s' = ids s /\ rxm s' = rxm s /\ waiters s' = waiters s /\
  srem s' = srem s /\ crem s' = crem s.
Proof. exact failed_send_writes_nothing. Qed.
Print Assumptions C08sink_failed_send_writes_nothing.

(* (c) the payload bytes an operation writes never exceed what is owed; on an open connection the sink's account
   decreases by exactly the bytes written; nothing is written as payload when nothing is owed; the codec's account
   stays equal to the sink's, so the streamed frame is complete exactly when [srem] reaches 0 *)
Theorem C08sink_chunks_within_declared : forall (s : sink) (o : op),
  codec_sync s ->
  let s' := sink_op s o in
  chunk_bytes (wire s') <= srem s /\
  (srem s <> 0 -> io s = 0 -> chunk_bytes (wire s') + srem s' = srem s) /\
  (srem s = 0 -> chunk_bytes (wire s') = 0) /\
  codec_sync s' /\ (io s' = 0 -> (srem s' = 0 <-> crem s' = 0)).
Proof. exact chunks_within_declared. Qed.
Print Assumptions C08sink_chunks_within_declared.

(* non-vacuity: a streamed QoS 1 publish of 5 bytes; while 3 bytes are owed a publish and a subscribe are refused
   (Encode, nothing written), the last chunk completes the frame, then the next publish goes out; an over-long chunk
   instead ends the connection without writing *)
Example C08sink_nonvacuous :
  let ops := [OSetCap 3; OStart 1 7 0 5; OChunk 1 2; OStart 2 1 0 0; OStart 3 3 0 0; OChunk 1 3; OStart 4 1 0 0] in
  map (fun n => let s := run_from (sink_init 5 true 1) (firstn n ops) in (wire s, srem s, crem s))
      [2; 3; 4; 5; 6; 7]%nat =
    [([1; 1], 5, 5); ([8; 2], 3, 3); ([], 3, 3); ([], 3, 3); ([8; 3], 0, 0); ([1; 4], 0, 0)] /\
  map (fun p => status_of (tst (snd p))) (tasks (run_from (sink_init 5 true 1) ops)) = [ST_PENDING; ST_ENCODE; ST_ENCODE; ST_PENDING] /\
  (let s := run_from (sink_init 5 true 1) (firstn 3 ops ++ [OChunk 1 4]) in (wire s, srem s, io s)) = ([], 3, 2).
Proof. vm_compute. repeat split; reflexivity. Qed.
