(* Props/C16.v -- property C16: no sequence of well-formed peer packets can panic or hang an endpoint.
   Statements only; model Model/Inbound.v, proofs Proofs/InboundLogic.v / Proofs/InboundInv.v.

   The model is a total Coq function: no step of it has a Panic outcome except the out-of-bounds index of
   the response queue ([panicked], printed as 9999 by the engines); that flag is NOT covered here (it needs
   the well-formedness of the request history of Props/C04.v for the histories the dispatcher generates:
   not proved).  What is proved is the meaningful half: what happens to every packet. *)
From MV Require Import Base.Prelude Model.RespQueue Model.Inbound Proofs.InboundLogic Proofs.InboundInv.

(* every packet, in every state, every role and version: handed to the application, answered, a protocol
   error (never a service error) that is reported as Stop(Protocol) (stop kind 1) with a reason >= 0x80,
   or one of the listed silent cases:
     - [ignored_kind]: PINGRESP / CONNECT / CONNACK (KOther: `Decoded::Packet(_, _) => Ok(None)`), SUBACK /
       UNSUBACK at a server, AUTH on MQTT 3.1.1 (cannot be decoded there);  undecodable packets never reach
       the service (C16_undecodable_stops)
     - the io is already stopped (`is_closed()`): PUBLISH / SUBSCRIBE / UNSUBSCRIBE / AUTH are dropped
     - v5: the identifier is in use and the immediate 0x91 acknowledgement is the answer (C11)
     - v3 client: a stray PUBREL closes the connection with DISCONNECT (no Stop(Protocol): deviation) *)
Theorem C16_recv_total : forall (p : pkt) (s : st),
  match snd (proto_body p s) with
  | OHandler _ _ _ _ _ _ | OCtl _ | OCtlP _ _ _ _ _ _ => True
  | ODone (RSome _ _ _) => True
  | ODone (RErr e) => exists r, e = EProto r /\ 128 <= r /\ stop_kind e = 1
  | ODone RNone =>
    ignored_kind (is_client s) (v5 (c_ s)) p = true \/ stopped (i_ s) = true \/
    (v5 (c_ s) = true /\ exists id, reserves p = Some id /\ inuse id s = true /\
       fst (proto_body p s) = io_encode (dup_ack_type p) id 145 s) \/
    (v5 (c_ s) = false /\ is_client s = true /\ exists id, p = KPubrel id /\ memN id (pubrel (p_ s)) = false /\
       closedio (fst (proto_body p s)) = true)
  end.
Proof. exact recv_total. Qed.
Print Assumptions C16_recv_total.

(* the table of kinds that are ignored unconditionally *)
Theorem C16_ignored_table : forall (client is5 : bool) (p : pkt),
  ignored_kind client is5 p =
  match p with
  | KOther | KBad _ => true
  | KAck2 => negb client
  | KAuth => negb is5
  | _ => false
  end.
Proof. exact ignored_kind_table. Qed.
Print Assumptions C16_ignored_table.

(* a recorded error (protocol error or handler / service error) makes the dispatcher stop the
   connection with that error at its next poll: Control::Stop is delivered by [do_stop] *)
Theorem C16_error_stops : forall (f : nat) (s : st),
  dst (s_ s) = DProc -> error (q_ s) = true ->
  exists s1, K s1 = K (set_q (mkRq (base (q_ s)) (queue (q_ s)) (response (q_ s)) (response_idx (q_ s)) false
                                  (spawned (q_ s)) (out (q_ s)) (panicked (q_ s))) s) /\
             d_loop (S f) s = d_loop f (do_stop (stop_kind (lasterr (s_ s))) (stop_reason (lasterr (s_ s))) s1).
Proof. exact error_stops. Qed.
Print Assumptions C16_error_stops.

(* a packet that does not decode: Stop(Protocol(Decode)) straight from the dispatcher *)
Theorem C16_undecodable_stops : forall (f : nat) (s : st) (r : N) (rest : list pkt),
  dst (s_ s) = DProc -> error (q_ s) = false -> snd (r1_poll s) = true ->
  rbuf (i_ s) = KBad r :: rest ->
  exists s1, rbuf (i_ s1) = rest /\ d_loop (S f) s = d_loop f (do_stop 1 r s1).
Proof. exact undecodable_stops. Qed.
Print Assumptions C16_undecodable_stops.

(* over ALL operation lists with u16 identifiers (layer 2): the control service is told to stop at most once *)
Theorem C16_at_most_one_stop : forall (is5 : bool) (cf : list N) (ops : list (list N)),
  Forall field_ok ops ->
  let s := init_st is5 cf in
  (exists ws, cumwire (trace ops s) = flat3 ws /\ (ndisc ws <= 1)%nat /\
     (forall x, In x ws -> trip_wf x /\ (is_disc x = true -> snd (fst x) = 0 /\ if is5 then 128 <= snd x else snd x = 0))) /\
  (forall s', In s' (trace ops s) -> stops (l_ s') <= 1) /\
  run_ops ops s = map observe (trace ops s).
Proof. exact server_run. Qed.
Print Assumptions C16_at_most_one_stop.

(* non-vacuity: v5 server, a PUBACK out of the blue is a protocol error; a CONNACK is ignored *)
Example C16_nonvacuous :
  let s0 := init_st true [2; 0; 3; 0; 1] in
  snd (proto_body (KPuback 5) s0) = ODone (RErr (EProto 130)) /\
  snd (proto_body KOther s0) = ODone RNone /\ fst (proto_body KOther s0) = s0 /\
  run_inb5 [[2; 0; 3; 0; 1]; [1; 2; 5]] = [[224; 0; 131; 254; 253; 252; 1; 1; 0]].
Proof. vm_compute. repeat split; reflexivity. Qed.
