(* Props/C16.v -- property C16: no sequence of well-formed peer packets can panic or hang an endpoint.
   Statements only; model Model/Inbound.v, proofs Proofs/InboundLogic.v / Proofs/InboundInv.v.

   The model is a total Coq function: no step of it has a Panic outcome except the out-of-bounds index of
   the response queue ([panicked], printed as 9999 by the engines); that flag is NOT covered here (it needs
   the well-formedness of the request history of Props/C04.v for the histories the dispatcher generates:
   not proved).  What is proved is the meaningful half: what happens to every packet. *)
From MV Require Import Base.Prelude Model.RespQueue Model.Inbound Proofs.InboundLogic Proofs.InboundInv.

(* every packet, in every state, every role and version: handed to the application, answered, a protocol
   error (never a service error) that is reported as Stop(Protocol) (stop kind 1) with a reason >= 0x80,
   or one of the listed silent cases:
     - [ignored_kind]: PINGRESP / CONNECT / CONNACK (KOther: `Decoded::Packet(_, _) => Ok(None)`), SUBACK /
       UNSUBACK at a server, AUTH on MQTT 3.1.1 (cannot be decoded there);  undecodable packets never reach
       the service (C16_undecodable_stops)
     - the io is already stopped (`is_closed()`): PUBLISH / SUBSCRIBE / UNSUBSCRIBE / AUTH are dropped
     - v5: the identifier is in use and the immediate 0x91 acknowledgement is the answer (C11)
     - v3 client: a stray PUBREL closes the connection with DISCONNECT (no Stop(Protocol): deviation) *)
Theorem C16_recv_total : forall (p : pkt) (s : st),
  match snd (proto_body p s) with
  | OHandler _ _ _ _ _ _ | OCtl _ | OCtlP _ _ _ _ _ _ => True
  | ODone (RSome _ _ _) => True
  | ODone (RErr e) => exists r, e = EProto r /\ 128 <= r /\ stop_kind e = 1
  | ODone RNone =>
    ignored_kind (is_client s) (v5 (c_ s)) p = true \/ stopped (i_ s) = true \/
    (v5 (c_ s) = true /\ exists id, reserves p = Some id /\ inuse id s = true /\
       fst (proto_body p s) = io_encode (dup_ack_type p) id 145 s) \/
    (v5 (c_ s) = false /\ is_client s = true /\ exists id, p = KPubrel id /\ memN id (pubrel (p_ s)) = false /\
       closedio (fst (proto_body p s)) = true)
  end.
Proof. exact recv_total. Qed.
Print Assumptions C16_recv_total.

(* the table of kinds that are ignored unconditionally *)
Theorem C16_ignored_table : forall (client is5 : bool) (p : pkt),
  ignored_kind client is5 p =
  match p with
  | KOther | KBad _ => true
  | KAck2 => negb client
  | KAuth => negb is5
  | _ => false
  end.
Proof. exact ignored_kind_table. Qed.
Print Assumptions C16_ignored_table.

(* a recorded error (protocol error or handler / service error) makes the dispatcher stop the
   connection with that error at its next poll: Control::Stop is delivered by [do_stop] *)
Theorem C16_error_stops : forall (f : nat) (s : st),
  dst (s_ s) = DProc -> error (q_ s) = true ->
  exists s1, K s1 = K (set_q (mkRq (base (q_ s)) (queue (q_ s)) (response (q_ s)) (response_idx (q_ s)) false
                                  (spawned (q_ s)) (out (q_ s)) (panicked (q_ s))) s) /\
             d_loop (S f) s = d_loop f (do_stop (stop_kind (lasterr (s_ s))) (stop_reason (lasterr (s_ s))) s1).
Proof. exact error_stops. Qed.
Print Assumptions C16_error_stops.

(* a packet that does not decode: Stop(Protocol(Decode)) straight from the dispatcher *)
Theorem C16_undecodable_stops : forall (f : nat) (s : st) (r : N) (rest : list pkt),
  dst (s_ s) = DProc -> error (q_ s) = false -> snd (r1_poll s) = true ->
  rbuf (i_ s) = KBad r :: rest ->
  exists s1, rbuf (i_ s1) = rest /\ d_loop (S f) s = d_loop f (do_stop 1 r s1).
Proof. exact undecodable_stops. Qed.
Print Assumptions C16_undecodable_stops.

(* over ALL operation lists with u16 identifiers (layer 2): the control service is told to stop at most once *)
Theorem C16_at_most_one_stop : forall (is5 : bool) (cf : list N) (ops : list (list N)),
  Forall field_ok ops ->
  let s := init_st is5 cf in
  (exists ws, cumwire (trace ops s) = flat3 ws /\ (ndisc ws <= 1)%nat /\
     (forall x, In x ws -> trip_wf x /\ (is_disc x = true -> snd (fst x) = 0 /\ if is5 then 128 <= snd x else snd x = 0))) /\
  (forall s', In s' (trace ops s) -> stops (l_ s') <= 1) /\
  run_ops ops s = map observe (trace ops s).
Proof. exact server_run. Qed.
Print Assumptions C16_at_most_one_stop.

(* non-vacuity: v5 server, a PUBACK out of the blue is a protocol error; a CONNACK is ignored *)
Example C16_nonvacuous :
  let s0 := init_st true [2; 0; 3; 0; 1] in
  snd (proto_body (KPuback 5) s0) = ODone (RErr (EProto 130)) /\
  snd (proto_body KOther s0) = ODone RNone /\ fst (proto_body KOther s0) = s0 /\
  run_inb5 [[2; 0; 3; 0; 1]; [1; 2; 5]] = [[224; 0; 131; 254; 253; 252; 1; 1; 0]].
Proof. vm_compute. repeat split; reflexivity. Qed.

(* ================================================================== added: the panic flag (layer 2)
   The one Panic outcome of the model is the out-of-bounds index `queue[idx]` in DispatcherState::handle_result
   ([panicked], printed as 9999).  It is unreachable: over ALL operation lists (well-formed or not: the packet
   identifiers play no role) of fewer than 2^64 operations, from the four initial states.  Invariant
   (Proofs/InboundRun.v): [W q] -- every response index the dispatcher still tracks (`response_idx` of the inline
   call, the indices of the spawned calls) is distinct, < 2^64 and, relative to `base`, points at its own
   SPending slot -- and [J B s] -- W (q_ s) and at most B packets sit in queue slots + read buffer + channel
   (each packet takes at most one slot, so the queue is shorter than 2^64 and the usize wrapping arithmetic is
   exact).  [after ops s]: the state after the operations; [trace ops s]: the states the engines observe. *)
From MV Require Import Proofs.InboundRun.

Theorem C16_no_panic : forall (is5 : bool) (cf : list N) (ops : list (list N)),
  N.of_nat (length ops) < W64 ->
  panicked (q_ (after ops (init_st is5 cf))) = false /\
  panicked (q_ (after ops (init_st_cli is5 cf))) = false /\
  (forall s, In s (trace ops (init_st is5 cf)) -> panicked (q_ s) = false) /\
  (forall s, In s (trace ops (init_st_cli is5 cf)) -> panicked (q_ s) = false) /\
  run_inb is5 (cf :: ops) = run_ops ops (init_st is5 cf) /\
  run_cli is5 (cf :: ops) = run_ops ops (init_st_cli is5 cf).
Proof. exact no_panic. Qed.
Print Assumptions C16_no_panic.

(* the four engines never print the panic observation (a case = configuration :: operations) *)
Theorem C16_engines_never_panic : forall (c : list (list N)),
  N.of_nat (length c) <= W64 ->
  run_inb3 c <> [[9999]] /\ run_inb5 c <> [[9999]] /\ run_cli3 c <> [[9999]] /\ run_cli5 c <> [[9999]].
Proof. exact engines_never_panic. Qed.
Print Assumptions C16_engines_never_panic.

(* the invariant is preserved by a response-queue completion and by DispatcherInner::call_service, for ANY
   request id and result (the dispatcher's bookkeeping of ids is not needed) *)
Theorem C16_queue_invariant_complete : forall (q : rq) (k : N) (r : hres), W q -> W (complete q k r).
Proof. exact complete_W. Qed.
Print Assumptions C16_queue_invariant_complete.
Theorem C16_queue_invariant_call_service : forall (q : rq) (k : N) (now : option hres),
  W q -> N.of_nat (length (queue q)) < W64 -> W (fst (call_service q k now)).
Proof. exact call_service_W. Qed.
Print Assumptions C16_queue_invariant_call_service.

(* non-vacuity: v3 server, a PUBLISH whose handler is pending (inline call, index 0), then SUBSCRIBE and
   PINGREQ spawned behind it (indices 1, 2): three pending slots; the protocol service answers the two, the
   handler completes last: base has advanced by 3, three responses written, no panic *)
Example C16_no_panic_nonvacuous :
  let s0 := init_st false [1; 0; 0; 0; 1] in
  let a := [[1; 1; 1; 1; 1; 0; 0; 0]; [1; 6; 2; 1]; [1; 8]] in
  let q3 := q_ (after a s0) in
  let q6 := q_ (after (a ++ [[3; 1; 2]; [3; 2; 0]; [2; 1; 0]]) s0) in
  queue q3 = [SPending; SPending; SPending] /\ tracked q3 = [0; 1; 2] /\
  queue q6 = [] /\ base q6 = 3 /\ length (out q6) = 3%nat /\ panicked q6 = false.
Proof. vm_compute. repeat split; reflexivity. Qed.
