(* Props/C12v5.v -- property C12, the MQTT 5 half: Receive Maximum.  Statements only; model Model/Inbound.v,
   proofs Proofs/InboundLogic.v (layer 1: all states, all packets).
   [over_quota s]: Receive Maximum is set (non zero) and the number of identifiers in the quota set is
   >= Receive Maximum.  The quota set of a server is `publishes` (tree d435312: only unacknowledged QoS 1/2
   PUBLISHes; SUBSCRIBE / UNSUBSCRIBE identifiers live in `inflight` only); a client counts `inflight`,
   which for a client holds PUBLISH identifiers only (it refuses SUBSCRIBE / UNSUBSCRIBE). *)
From MV Require Import Base.Prelude Model.RespQueue Model.Inbound Proofs.InboundLogic.

(* one more QoS 1/2 PUBLISH than advertised: protocol error with reason 0x93 = 147 (sent as DISCONNECT by
   the stop path, see C15), whatever its identifier, nothing recorded *)
Theorem C12v5_over_quota_disconnects_0x93 : forall (qos id topic alias retain plen : N) (s : st),
  v5 (c_ s) = true -> 0 < qos -> (is_client s = false -> topic <> 4) -> over_quota s = true ->
  proto_body (KPublish qos id topic alias retain plen) s = (s, ODone (RErr (EProto 147))).
Proof. exact over_quota_refused. Qed.
Print Assumptions C12v5_over_quota_disconnects_0x93.

(* within the quota no packet at all is refused with that reason *)
Theorem C12v5_within_quota_never_refused : forall (p : pkt) (s : st),
  over_quota s = false -> snd (proto_body p s) <> ODone (RErr (EProto 147)).
Proof. exact within_quota_not_refused. Qed.
Print Assumptions C12v5_within_quota_never_refused.

(* what the quota counts (server): the set grows by exactly the identifier of an accepted QoS>0 PUBLISH ... *)
Theorem C12v5_quota_counts_publishes : forall (p : pkt) (s : st),
  is_client s = false -> v5 (c_ s) = true ->
  publishes (p_ (fst (proto_body p s))) = publishes (p_ s) \/
  exists qos id topic alias retain plen,
    p = KPublish qos id topic alias retain plen /\ 0 < qos /\ over_quota s = false /\ inuse id s = false /\
    publishes (p_ (fst (proto_body p s))) = publishes (p_ s) ++ [id].
Proof. exact publishes_growth. Qed.
Print Assumptions C12v5_quota_counts_publishes.

(* ... no other packet kind (SUBSCRIBE, UNSUBSCRIBE, ...) touches it ... *)
Theorem C12v5_quota_only_publishes : forall (p : pkt) (s : st),
  match p with KPublish _ _ _ _ _ _ => True | _ => publishes (p_ (fst (proto_body p s))) = publishes (p_ s) end.
Proof. exact body_publishes_only_publish. Qed.
Print Assumptions C12v5_quota_only_publishes.

(* ... and an acknowledgement releases its own identifier only (C11_reusable_after_ack: PUBACK, a negative
   PUBREC, PUBCOMP remove it) *)
Theorem C12v5_quota_release : forall (q2 id res : N) (s : st) (i : N),
  i <> id -> memN i (inflight (p_ (fst (hres_any q2 id res s)))) = memN i (inflight (p_ s)) /\
             memN i (publishes (p_ (fst (hres_any q2 id res s)))) = memN i (publishes (p_ s)) /\
             memN i (pubrel (p_ (fst (hres_any q2 id res s)))) = memN i (pubrel (p_ s)).
Proof. exact hres_keeps_other. Qed.
Print Assumptions C12v5_quota_release.

(* non-vacuity: Receive Maximum 2: two QoS 1 PUBLISHes and a SUBSCRIBE are accepted, the third PUBLISH is
   refused with 0x93; after the first handler's PUBACK a PUBLISH is accepted again *)
Example C12v5_nonvacuous :
  let s0 := init_st true [2; 2; 0; 0; 1] in
  let s1 := fst (proto_body (KPublish 1 1 1 0 0 0) s0) in
  let s2 := fst (proto_body (KPublish 1 2 1 0 0 0) s1) in
  let r3 := proto_body (KSubscribe 3 1) s2 in
  let r4 := proto_body (KPublish 1 4 1 0 0 0) (fst r3) in
  let s5 := fst (hres_any 0 1 0 (fst r4)) in
  over_quota s1 = false /\ over_quota s2 = true /\ snd r3 = OCtl (2, 3) /\
  snd r4 = ODone (RErr (EProto 147)) /\ over_quota s5 = false /\
  delivered (snd (proto_body (KPublish 1 4 1 0 0 0) s5)) = true.
Proof. vm_compute. repeat split; reflexivity. Qed.
