(* Props/C13.v -- property C13: no sender stays blocked while the window is open.
   Statements only; the model is Model/Sink.v, proofs in Proofs/SinkProofs.v, invariant in Proofs/SinkInv.v.

   Vocabulary.  A task is parked in the send window ([TParked c]) or in MqttSink::ready() ([TReadyW c]) on the
   one-shot waiter channel [c].  [nU s]: number of parked tasks whose waiter channel is still open (live, not woken);
   [nW s]: number of parked tasks whose channel has been filled (woken) and that have not been polled since.
   [wake_ok s] is the no-lost-wake-up statement:
       0 < nU s  ->  cap s <= lenN (inflight s) + nW s  \/  wrb s = true
   (if somebody is still parked, every free slot of the window has a woken task on its way to take it, or
   back-pressure is on).
   KNOWN, RECORDED findings of the real code, reproduced by the model, excluded by the executable predicate
   [Known s ops] (some step is one of the following while another task is parked un-woken):
     Q    [known_q]    a woken task is dropped before it is polled again;
     Q2   [known_q2]   a woken ready() future is polled (it completes without sending: the wake-up is consumed);
     Qerr [known_qerr] a woken sender ends with a local error (packet id in use, streaming in progress,
                       stream cancelled, id counter overflow) before writing.
   Each is demonstrated by a witness ([C13_known_*_refuted]): the run ends with a live parked sender although
   nothing is outstanding, back-pressure is off and cap = 1. *)
From MV Require Import Base.Prelude Model.Sink Proofs.SinkInv Proofs.SinkProofs.

(* for every operation list without the known findings, both versions, both roles, any number of tasks,
   every interleaving of sends, acknowledgements, cancelled futures, back-pressure changes, set_cap, closes *)
Theorem C13_wake_inv : forall (v : N) (cl : bool) (c : N) (ops : list op),
  Known (sink_init v cl c) ops = false -> wake_ok (run_from (sink_init v cl c) ops).
Proof. exact wake_inv_init. Qed.
Print Assumptions C13_wake_inv.

Theorem C13_wake_inv_from : forall (ops : list op) (s : sink),
  sink_inv s -> settled s -> wake_ok s -> Known s ops = false -> wake_ok (run_from s ops).
Proof. exact wake_inv. Qed.
Print Assumptions C13_wake_inv_from.

(* quiescence: nobody is woken-and-not-resumed, back-pressure is off and the peer has acknowledged everything;
   then (cap >= 1) nobody is parked, and every future that has been polled at least once completes at its next poll *)
Theorem C13_quiescent_all_done : forall (s : sink) (t : N) (x : task),
  sink_inv s -> wake_ok s -> 1 <= cap s -> quiescent s ->
  find_task t (tasks s) = Some x -> tst x <> TNew ->
  nU s = 0 /\ exists x', find_task t (tasks (poll_task s t)) = Some x' /\ finished (tst x').
Proof. exact quiescent_all_done. Qed.
Print Assumptions C13_quiescent_all_done.

(* a cancelled waiter (its receiver is gone) at the head of the queue never absorbs a wake-up: it is skipped *)
Theorem C13_cancelled_head_skipped : forall (chs : list chan) (n : N) (c : nat) (r : list nat),
  c_rx (ch_get chs c) = false -> n <> 0 -> wake_go chs n (c :: r) = wake_go chs n r.
Proof. exact cancelled_head_skipped. Qed.
Print Assumptions C13_cancelled_head_skipped.

(* a wake-up of n reaches n live parked tasks (m newly woken ones), unless no live parked task is left *)
Theorem C13_wake_reaches_live : forall (ks : list ck) (s : sink) (n : N),
  inv ks s -> nU (wake s n) <= nU s /\ exists m, nW s + m <= nW (wake s n) /\ (0 < nU (wake s n) -> m = n).
Proof. exact wake_reaches_live. Qed.
Print Assumptions C13_wake_reaches_live.

(* when back-pressure lifts: the streamed send that was paused by it is woken (its next poll writes the chunk), the
   window waiters are woken up to the free credit (wake_ok holds whatever happened before) *)
Theorem C13_stream_resumes : forall (s : sink) (t : N) (x : task) (sm : stream) (c : nat) (m : N),
  sink_inv s -> find_task t (tasks s) = Some x -> tstream x = Some sm -> s_alive sm = true ->
  pend sm = SWaitWrb c m -> c_st (cg s c) = COpen ->
  let s' := do_wrb s false in
  cg s' c = mkChan CFilled 0 true /\ wrb s' = false /\ swait s' = None /\ wake_ok s' /\
  forall n, chunk_task s' t n =
    (let '(s1, sm1) := chunk_payload s' sm (s_rx sm) m in set_tasks s1 (put_task t (with_stream x sm1) (tasks s1))).
Proof. exact stream_resumes. Qed.
Print Assumptions C13_stream_resumes.

(* the known findings are real (sink3, cap 1, server role; operations as parsed by [parse_op]):
     Q    1,1,1,0; 1,2,1,0; 1,3,1,0; 4,1,1; 3,2; 2,1; 2,3
     Q2   1,1,1,0; 1,2,5,0; 1,3,1,0; 4,1,1; 2,2; 2,3; 2,1
     Qerr 1,1,1,0; 1,2,7,0,5; 1,3,1,0; 14,2; 4,1,1; 2,1; 2,2; 2,3
   [stranded s]: one live parked sender, nobody woken, nothing in flight, back-pressure off, cap = 1, io open *)
Theorem C13_known_q_refuted :
  Known_by known_q (sink_init 3 false 1) case_q = true /\ Known (sink_init 3 false 1) case_q = true /\
  stranded (run_from (sink_init 3 false 1) case_q).
Proof. exact known_q_refuted. Qed.
Print Assumptions C13_known_q_refuted.

Theorem C13_known_q2_refuted :
  Known_by known_q2 (sink_init 3 false 1) case_q2 = true /\ Known (sink_init 3 false 1) case_q2 = true /\
  stranded (run_from (sink_init 3 false 1) case_q2).
Proof. exact known_q2_refuted. Qed.
Print Assumptions C13_known_q2_refuted.

Theorem C13_known_qerr_refuted :
  Known_by known_qerr (sink_init 3 false 1) case_qerr = true /\ Known (sink_init 3 false 1) case_qerr = true /\
  stranded (run_from (sink_init 3 false 1) case_qerr).
Proof. exact known_qerr_refuted. Qed.
Print Assumptions C13_known_qerr_refuted.

(* non-vacuity: cap 1; three senders and a ready() future queue up behind one publish, one of the parked futures is
   cancelled while still un-woken, back-pressure comes and goes, every ack hands the slot to the next live waiter;
   no known finding occurs, everybody completes, the run ends quiescent *)
Example C13_nonvacuous :
  let ops := [OStart 1 1 0 0; OStart 2 1 0 0; OStart 3 1 0 0; OStart 4 1 0 0; ODrop 3; OWrb true;
              OAcks [(1, 1)]; OPoll 2; OWrb false; OPoll 4; OAcks [(1, 2)]; OPoll 2; OAcks [(1, 3)]; OPoll 2;
              OStart 5 5 0 0; OPoll 1; OPoll 4] in
  let s := run_from (sink_init 3 true 1) ops in
  Known (sink_init 3 true 1) ops = false /\
  map (fun p => status_of (tst (snd p))) (tasks s) = [ST_OK; ST_OK; ST_DROPPED; ST_OK; ST_OK] /\
  nU s = 0 /\ nW s = 0 /\ inflight s = [] /\ wrb s = false /\ io s = 0 /\
  map (fun n => let s1 := run_from (sink_init 3 true 1) (firstn n ops) in (nU s1, nW s1, lenN (inflight s1)))
      [4; 5; 7; 8; 9; 10]%nat = [(3, 0, 1); (2, 0, 1); (1, 1, 0); (2, 0, 0); (1, 1, 0); (1, 0, 1)].
Proof. vm_compute. repeat split; reflexivity. Qed.
