(* Props/C20cli.v -- property C20, client side: the keep-alive period the client's loop runs with is the one
   negotiated in CONNACK.  Statements only; the scenario model is Model/TimerRt.v (engine timerrt, client kinds
   13 / 15), the loop is Timer.k_step, the proofs are in Proofs/TimerRtProofs.v. *)
From MV Require Import Base.Prelude Model.Timer Model.TimerRt Proofs.TimerRtProofs.

(* a Server Keep Alive in CONNACK replaces the client's own value -- whatever that was, 0 (none) included --
   and the loop then writes a PINGREQ exactly every k seconds *)
Theorem C20cli_server_keepalive_cadence : forall (own k : N) (n : nat),
  0 < k ->
  snd (k_run (k_effective own (Some k)) (k_init (k_effective own (Some k))) (repeat KTick n))
  = map (fun i => (N.of_nat i + 1) mod k =? 0) (seq 0 n).
Proof. exact server_keepalive_cadence. Qed.
Print Assumptions C20cli_server_keepalive_cadence.

Theorem C20cli_no_server_value_keeps_own : forall own : N, k_effective own None = own.
Proof. exact effective_own. Qed.
Print Assumptions C20cli_no_server_value_keeps_own.

(* which CONNACK operations of the scenario engine carry the field *)
Theorem C20cli_v3_connack_has_no_keepalive : forall op : N, srv_ka_of false op = None.
Proof. exact srv_ka_v3_none. Qed.
Print Assumptions C20cli_v3_connack_has_no_keepalive.

Theorem C20cli_v5_connack_keepalive : forall k : N, 1 <= k <= 3 -> srv_ka_of true (340 + k) = Some k.
Proof. exact srv_ka_v5. Qed.
Print Assumptions C20cli_v5_connack_keepalive.

(* non-vacuity, on the scenario model itself: a v5 client that asked for no keep-alive and is told 2 s pings at
   seconds 2 and 4 (192 = PINGREQ); the same scenario on v3 (plain CONNACK) never pings *)
Example C20cli_nonvacuous :
  run_mqttrt [0; 0; 0; 0; 0; 0; 0; 5; 15; 0] [[0; 342]]
    = [[0; 16]; [0; 16]; [0; 16; 192]; [0; 16; 192]; [0; 16; 192; 192]] /\
  run_mqttrt [0; 0; 0; 0; 0; 0; 0; 5; 13; 0] [[0; 342]] = [[0; 16]; [0; 16]; [0; 16]; [0; 16]; [0; 16]].
Proof. vm_compute. split; reflexivity. Qed.
