(* Props/C17.v -- property C17: MQTT 5 topic aliases resolve to the right topic.  Statements only; model
   Model/Inbound.v ([body5] / [body5c], the alias table is the [aliases] field of the per-connection
   protocol state [pst]), proofs Proofs/InboundLogic.v (layer 1: all states, all packets) and
   Proofs/InboundInv.v ([two_connections]).
   Topics are indices of the case alphabet (0 = empty topic, 1..3 = "t1".."t3", 4 = a topic with a wildcard);
   [norm_topic t] is the index the handler log shows (0 for anything else than 1..3).
   [delivered_topic o] = the topic of the invocation in outcome o (publish handler, or -- client role
   without a matching route -- the protocol service's Publish message).
   [pub_admitted5 p s] = the checks that come before the alias handling pass (wildcard, receive maximum,
   max QoS, identifier not in use). *)
From MV Require Import Base.Prelude Model.RespQueue Model.Inbound Proofs.InboundLogic Proofs.InboundInv.

(* a PUBLISH carrying only an alias is delivered with the topic bound to it in THIS state *)
Theorem C17_alias_lookup : forall (qos id alias retain plen : N) (s : st) (t' : N),
  v5 (c_ s) = true -> alias <> 0 ->
  delivered_topic (snd (proto_body (KPublish qos id 0 alias retain plen) s)) = Some t' ->
  exists t, assocN alias (aliases (p_ s)) = Some t /\ t' = norm_topic t.
Proof. exact alias_lookup. Qed.
Print Assumptions C17_alias_lookup.

(* ... and it IS delivered when the alias is bound, the other checks pass and the io is open *)
Theorem C17_alias_lookup_delivers : forall (qos id alias retain plen : N) (s : st) (t : N),
  v5 (c_ s) = true -> alias <> 0 -> assocN alias (aliases (p_ s)) = Some t -> t <= 3 ->
  stopped (i_ s) = false ->
  pub_admitted5 (KPublish qos id 0 alias retain plen) s = true ->
  delivered_topic (snd (proto_body (KPublish qos id 0 alias retain plen) s)) = Some t.
Proof. exact alias_lookup_delivers. Qed.
Print Assumptions C17_alias_lookup_delivers.

(* a PUBLISH with topic and alias (re)binds: afterwards the alias maps to the carried topic, every other
   alias is untouched, and the handler sees the carried topic *)
Theorem C17_alias_rebind : forall (qos id topic alias retain plen : N) (s : st) (t' : N),
  v5 (c_ s) = true -> alias <> 0 -> topic <> 0 ->
  delivered_topic (snd (proto_body (KPublish qos id topic alias retain plen) s)) = Some t' ->
  let s' := fst (proto_body (KPublish qos id topic alias retain plen) s) in
  t' = norm_topic topic /\ assocN alias (aliases (p_ s')) = Some topic /\
  forall a, a <> alias -> assocN a (aliases (p_ s')) = assocN a (aliases (p_ s)).
Proof. exact alias_bind. Qed.
Print Assumptions C17_alias_rebind.

(* "most recently bound": nothing but such a PUBLISH changes the table *)
Theorem C17_table_only_changed_by_binding : forall (p : pkt) (s : st),
  match p with
  | KPublish _ _ _ alias _ _ => alias = 0 -> aliases (p_ (fst (proto_body p s))) = aliases (p_ s)
  | _ => aliases (p_ (fst (proto_body p s))) = aliases (p_ s)
  end.
Proof. exact aliases_only_publish. Qed.
Print Assumptions C17_table_only_changed_by_binding.

Theorem C17_table_lookup_does_not_change : forall (qos id alias retain plen : N) (s : st),
  aliases (p_ (fst (proto_body (KPublish qos id 0 alias retain plen) s))) = aliases (p_ s).
Proof. exact aliases_alias_only. Qed.
Print Assumptions C17_table_lookup_does_not_change.

Theorem C17_table_handler : forall (q2 id res : N) (s : st), aliases (p_ (fst (hres_any q2 id res s))) = aliases (p_ s).
Proof. exact aliases_hres. Qed.
Print Assumptions C17_table_handler.
Theorem C17_table_control : forall (m : cmsg) (a : pack) (s : st), aliases (p_ (fst (ctl_result m a s))) = aliases (p_ s).
Proof. exact aliases_ctl. Qed.
Print Assumptions C17_table_control.
Theorem C17_table_control_client : forall (m : cmsg) (res : N) (s : st),
  aliases (p_ (fst (ctl_result_c m res s))) = aliases (p_ s).
Proof. exact aliases_ctlc. Qed.
Print Assumptions C17_table_control_client.

(* never bound: never reaches a handler; once the earlier checks pass the error is the violation with
   reason TopicAliasInvalid 0x94 = 148 *)
Theorem C17_unbound_rejected : forall (qos id alias retain plen : N) (s : st),
  v5 (c_ s) = true -> alias <> 0 -> assocN alias (aliases (p_ s)) = None ->
  let r := proto_body (KPublish qos id 0 alias retain plen) s in
  delivered (snd r) = false /\
  (pub_admitted5 (KPublish qos id 0 alias retain plen) s = true -> snd r = ODone (RErr (EProto 148))).
Proof. exact alias_unbound. Qed.
Print Assumptions C17_unbound_rejected.

(* first use above the maximum ([amax_eff]: the server's configured Topic Alias Maximum; a client enforces
   the literal 16 of v5/client/dispatcher.rs): never reaches a handler, is not recorded; the error is
   SpecViolation::Connack_3_2_2_17 (ProtocolError 0x82 = 130) *)
Theorem C17_over_max_rejected : forall (qos id topic alias retain plen : N) (s : st),
  v5 (c_ s) = true -> topic <> 0 -> assocN alias (aliases (p_ s)) = None -> amax_eff s < alias ->
  let r := proto_body (KPublish qos id topic alias retain plen) s in
  delivered (snd r) = false /\ aliases (p_ (fst r)) = aliases (p_ s) /\
  (pub_admitted5 (KPublish qos id topic alias retain plen) s = true -> snd r = ODone (RErr (EProto 130))).
Proof. exact alias_over_max. Qed.
Print Assumptions C17_over_max_rejected.

(* no leak between connections: the table is a field of the connection's own state, which starts empty;
   any interleaving of the operations of two connections is the two separate runs ([after ops s] = the state
   after the operations ops) *)
Theorem C17_no_leak_between_connections : forall (l : list (bool * list N)) (s1 s2 : st),
  fold_left step2 l (s1, s2) = (after (proj_ops true l) s1, after (proj_ops false l) s2).
Proof. exact two_connections. Qed.
Print Assumptions C17_no_leak_between_connections.

(* routing (the model has the router in the client roles: ClientRouter with the resources t1, t2; the
   server-side topic router of ntex-mqtt is application code above the publish service and is not
   modelled): an alias-only PUBLISH is routed exactly as the PUBLISH that carries the resolved topic *)
Theorem C17_routing_by_resolved_topic : forall (qos id alias retain plen : N) (s : st) (t : N),
  v5 (c_ s) = true -> is_client s = true -> alias <> 0 -> assocN alias (aliases (p_ s)) = Some t -> t <> 0 ->
  proto_body (KPublish qos id 0 alias retain plen) s = proto_body (KPublish qos id t 0 retain plen) s.
Proof. exact routing_by_resolved_topic. Qed.
Print Assumptions C17_routing_by_resolved_topic.

Theorem C17_route_decision : forall (q2 qos id t plen retain : N) (s : st),
  route_pub q2 qos id t plen retain s =
    if route (c_ s) && ((norm_topic t =? 1) || (norm_topic t =? 2))
    then OHandler q2 qos id (norm_topic t) plen retain
    else OCtlP (7, id) qos id (norm_topic t) plen retain.
Proof. exact route_pub_decision. Qed.
Print Assumptions C17_route_decision.

(* non-vacuity: bind alias 2 to t1, use it, rebind it to t3, use it; alias 3 unbound -> 0x94; alias 4 > 3 *)
Example C17_nonvacuous :
  let s0 := init_st true [2; 0; 3; 0; 1] in
  let r1 := proto_body (KPublish 0 0 1 2 0 1) s0 in
  let r2 := proto_body (KPublish 0 0 0 2 0 1) (fst r1) in
  let r3 := proto_body (KPublish 0 0 3 2 0 1) (fst r2) in
  let r4 := proto_body (KPublish 0 0 0 2 0 1) (fst r3) in
  aliases (p_ s0) = [] /\
  delivered_topic (snd r1) = Some 1 /\ delivered_topic (snd r2) = Some 1 /\
  delivered_topic (snd r3) = Some 3 /\ delivered_topic (snd r4) = Some 3 /\
  snd (proto_body (KPublish 0 0 0 3 0 1) (fst r4)) = ODone (RErr (EProto 148)) /\
  snd (proto_body (KPublish 0 0 1 4 0 1) (fst r4)) = ODone (RErr (EProto 130)).
Proof. vm_compute. repeat split; reflexivity. Qed.
