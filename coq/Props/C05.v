(* Props/C05.v -- property C05: the send window.  Statements only; the model is Model/Sink.v, the proofs are in
   Proofs/SinkProofs.v.

   Vocabulary.  [run_from s ops] / [sink_op s o]: the sink state after the operations (one operation = one atomic
   segment of the single-threaded Rust: create a send future with or without its first poll, poll or drop a future,
   acknowledgements processed by the dispatcher, release/drop of a QoS 2 receipt, back-pressure on/off, set_cap,
   close, force_close, chunk operations).  [inflight s] is MqttShared.queues.inflight (every entry is a PUBLISH
   QoS 1/2, SUBSCRIBE or UNSUBSCRIBE that was written and whose final acknowledgement has not been processed),
   [cap s] the send limit, [wrb s] write back-pressure.
   [caps_ok s ops]: every [OSetCap n] in [ops] is executed in a state with [lenN (inflight _) <= n]
   (set_cap may raise the limit at any time, it may not lower it below what is already outstanding).
   The model has no non-awaiting send operation (send_at_least_once_no_block is outside the property).
   [caps_ok] is prefix closed ([C05_caps_ok_prefix]), so the statements below hold in every reachable state. *)
From MV Require Import Base.Prelude Model.Sink Proofs.SinkInv Proofs.SinkProofs.

Theorem C05_caps_ok_prefix : forall (a : list op) (s : sink) (b : list op),
  caps_ok s (a ++ b) = true -> caps_ok s a = true.
Proof. exact caps_ok_prefix. Qed.
Print Assumptions C05_caps_ok_prefix.

(* for every operation list, both versions, both roles: the queue never exceeds the limit *)
Theorem C05_window_inv : forall (v : N) (cl : bool) (c : N) (ops : list op),
  caps_ok (sink_init v cl c) ops = true ->
  lenN (inflight (run_from (sink_init v cl c) ops)) <= cap (run_from (sink_init v cl c) ops).
Proof. exact window_inv_init. Qed.
Print Assumptions C05_window_inv.

(* the same from an arbitrary state (no reachability assumption is needed) *)
Theorem C05_window_preserved : forall (ops : list op) (s : sink),
  lenN (inflight s) <= cap s -> caps_ok s ops = true ->
  lenN (inflight (run_from s ops)) <= cap (run_from s ops).
Proof. exact window_inv. Qed.
Print Assumptions C05_window_preserved.

(* wire level.  [cnt_step] runs the model and counts W = PUBLISH(QoS1/2)/SUBSCRIBE/UNSUBSCRIBE packets written so
   far ([count_pub] of each operation's wire log) and F = acknowledgements processed as final so far ([is_final]:
   a PUBACK/PUBCOMP/SUBACK/UNSUBACK accepted by pkt_ack_inner for the head of the queue; PUBREC is not final).
   [caps_ok_w]: every OSetCap n is executed when W - F <= n.
   Written minus finally acknowledged never exceeds the limit; while the connection is open it is exactly the
   queue length (every queue entry has been written, every written packet is in the queue). *)
Theorem C05_outstanding_on_wire : forall (v : N) (cl : bool) (c : N) (ops : list op),
  caps_ok_w (sink_init v cl c, 0, 0) ops = true ->
  let '(s, W, F) := fold_left cnt_step ops (sink_init v cl c, 0, 0) in
  W <= F + cap s /\ (io s = 0 -> W = F + lenN (inflight s)) /\ lenN (inflight s) <= cap s.
Proof. exact outstanding_on_wire. Qed.
Print Assumptions C05_outstanding_on_wire.

Theorem C05_counted_run_is_run : forall (ops : list op) (s : sink) (W F : N),
  fst (fst (fold_left cnt_step ops (s, W, F))) = run_from s ops.
Proof. exact cnt_run_state. Qed.
Print Assumptions C05_counted_run_is_run.

(* an entry is appended to the queue only by a step that started with room in the window and back-pressure off
   -- for ANY state s and ANY operation, in particular for the creation of a send future without polling it
   ([OCreate]) and for a woken sender's poll -- the only other new entries are the PUBREC re-queues (kind 3,
   awaiting PUBCOMP), which replace the entry they answer: acknowledgements never lengthen the queue *)
Theorem C05_push_only_when_room : forall (s : sink) (o : op) (e : N * option nat * N),
  In e (inflight (sink_op s o)) -> ~ In e (inflight s) ->
  (lenN (inflight s) < cap s /\ wrb s = false /\ inflight (sink_op s o) = inflight s ++ [e]) \/
  (snd e = 3 /\ exists l, o = OAcks l).
Proof. exact push_only_when_room. Qed.
Print Assumptions C05_push_only_when_room.

Theorem C05_acks_never_grow : forall (s : sink) (l : list (N * N)),
  lenN (inflight (sink_op s (OAcks l))) <= lenN (inflight s).
Proof. exact acks_never_grow. Qed.
Print Assumptions C05_acks_never_grow.

(* non-vacuity: cap 1, two senders created before either is polled (the second parks), a third polled start,
   the ack of the first wakes the second, which then writes; the limit is raised and a fourth send goes out at once *)
Example C05_nonvacuous :
  let ops := [OCreate 1 1 0 0; OCreate 2 1 0 0; OStart 3 2 0 0; OPoll 1; OAcks [(1, 1)]; OPoll 2; OSetCap 2; OStart 4 1 0 0] in
  caps_ok (sink_init 3 true 1) ops = true /\ caps_ok_w (sink_init 3 true 1, 0, 0) ops = true /\
  map (fun n => lenN (inflight (run_from (sink_init 3 true 1) (firstn n ops)))) [1; 2; 3; 5; 6; 8]%nat = [1; 1; 1; 0; 1; 2] /\
  (let '(s, W, F) := fold_left cnt_step ops (sink_init 3 true 1, 0, 0) in (W, F, cap s, lenN (waiters s))) = (3, 1, 2, 0).
Proof. vm_compute. repeat split; reflexivity. Qed.
