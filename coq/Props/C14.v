(* Props/C14.v -- property C14: concurrently outstanding exactly-once (QoS 2) sends do not interfere.
   Statements only; the model is Model/Sink.v, proofs in Proofs/SinkProofs.v, invariant in Proofs/SinkInv.v.

   Vocabulary.  A QoS 2 send whose PUBREC has arrived holds a receipt: task state [TReceipt id]
   (PublishReceived { packet_id: Some(id) }).  [release_task s t] is PublishReceived::release() polled once,
   [drop_receipt s t] is Drop for PublishReceived.  [rxm s] is the map id -> receiver of the PUBCOMP channel that
   the PUBREC of [id] created (MqttShared.queues.rx); [rxm_find id (rxm s) = Some c] says that the exchange [id] is
   still open (its PUBCOMP has not been processed).  [sink_inv] holds in every reachable state (C06_reachable).
   Hypothesis made explicit in the statements: the peer sends PUBCOMP(id) only after PUBREL(id) -- if it answers
   PUBREC's re-queued entry early, the model (like the code) accepts it, the rx entry is gone and the later
   release returns UnexpectedRelease without writing ([C14_early_pubcomp_witness]). *)
From MV Require Import Base.Prelude Model.Sink Proofs.SinkInv Proofs.SinkProofs.

(* every release -- explicit or by dropping the handle -- writes exactly one PUBREL carrying its own identifier when
   the io is open and no payload is being streamed, and nothing otherwise; nothing else is ever written by it *)
Theorem C14_release_writes_own_pubrel : forall (s : sink) (t : N) (x : task) (id : N) (c : nat),
  find_task t (tasks s) = Some x -> tst x = TReceipt id -> rxm_find id (rxm s) = Some c ->
  wire (release_task s t) = (if (io s =? 0) && (crem s =? 0) then wire s ++ [W_PUBREL; id] else wire s) /\
  wire (drop_receipt s t) = (if (io s =? 0) && (crem s =? 0) then wire s ++ [W_PUBREL; id] else wire s).
Proof. exact release_writes_own_pubrel. Qed.
Print Assumptions C14_release_writes_own_pubrel.

(* the release awaits the channel stored under ITS OWN identifier, created by the PUBREC of that identifier: the
   sender side of that channel is the queue entry (id, _, Complete) *)
Theorem C14_release_waits_own_pubcomp : forall (s : sink) (t : N) (x : task) (id : N) (c : nat),
  sink_inv s -> io s = 0 -> crem s = 0 -> find_task t (tasks s) = Some x -> tst x = TReceipt id ->
  rxm_find id (rxm s) = Some c ->
  In (id, Some c, 3) (inflight s) /\ c_st (cg s c) = COpen /\
  let s' := release_task s t in
  (exists x', find_task t (tasks s') = Some x' /\ tst x' = TAwaitComp c) /\
  In (id, Some c, 3) (inflight s') /\ rxm_find id (rxm s') = None.
Proof. exact release_waits_own_pubcomp. Qed.
Print Assumptions C14_release_waits_own_pubcomp.

(* releasing or dropping receipt [id] of task [t], in ANY state: every other task, every other entry of the rx map,
   the queue, the id set, the window waiters and every channel but the one stored under [id] are unchanged *)
Theorem C14_no_cross_talk : forall (s : sink) (t : N) (x : task) (id : N),
  find_task t (tasks s) = Some x -> tst x = TReceipt id ->
  untouched s (release_task s t) t id /\ untouched s (drop_receipt s t) t id.
Proof. exact release_no_cross_talk. Qed.
Print Assumptions C14_no_cross_talk.

(* in reachable states that channel belongs to nobody else: all channels of all other tasks and of all other
   outstanding exchanges are exactly as before *)
Theorem C14_no_cross_talk_channels : forall (s : sink) (t : N) (x : task) (id : N) (s' : sink),
  sink_inv s -> find_task t (tasks s) = Some x -> tst x = TReceipt id ->
  s' = release_task s t \/ s' = drop_receipt s t ->
  (forall t' x' c', t' <> t -> find_task t' (tasks s) = Some x' ->
     find_task t' (tasks s') = Some x' /\ (In c' (trx x') -> cg s' c' = cg s c')) /\
  (forall j c', j <> id -> rxm_find j (rxm s) = Some c' -> rxm_find j (rxm s') = Some c' /\ cg s' c' = cg s c').
Proof. exact release_leaves_others. Qed.
Print Assumptions C14_no_cross_talk_channels.

(* each release completes when its own PUBCOMP arrives (conversely, by C06_ack_goes_to_head with
   [awaits x c 3 id], ONLY an acknowledgement of kind PUBCOMP finding (id, c, Complete) at the head completes it) *)
Theorem C14_completes_on_own_pubcomp : forall (s : sink) (t : N) (x : task) (c : nat) (id : N) (rest : list (N * option nat * N)),
  sink_inv s -> io s = 0 -> find_task t (tasks s) = Some x -> tst x = TAwaitComp c ->
  inflight s = (id, Some c, 3) :: rest ->
  let s' := ack_one s 3 id in
  cg s' c = mkChan CFilled 3 true /\ io s' = 0 /\ inflight s' = rest /\ memN id (ids s') = false /\
  exists x', find_task t (tasks (poll_task s' t)) = Some x' /\ tst x' = TDone ST_OK.
Proof. exact completes_on_own_pubcomp. Qed.
Print Assumptions C14_completes_on_own_pubcomp.

(* non-vacuity: three exactly-once sends outstanding at once; receipts obtained in order, released out of order
   (one merely dropped): each writes the PUBREL of its own id, all complete on their own PUBCOMP *)
Example C14_nonvacuous :
  let pre := [OSetCap 3; OStart 1 2 0 0; OStart 2 2 0 0; OStart 3 2 0 0; OAcks [(2, 1); (2, 2); (2, 3)];
              OPoll 1; OPoll 2; OPoll 3] in
  let s := run_from (sink_init 5 true 1) pre in
  map (fun p => tst (snd p)) (tasks s) = [TReceipt 1; TReceipt 2; TReceipt 3] /\
  wire (sink_op s (ORelease 2)) = [W_PUBREL; 2] /\
  wire (sink_op (sink_op s (ORelease 2)) (ODropReceipt 3)) = [W_PUBREL; 3] /\
  let s1 := run_from s [ORelease 2; ODropReceipt 3; ORelease 1; OAcks [(3, 1); (3, 2); (3, 3)]; OPoll 1; OPoll 2] in
  map (fun p => status_of (tst (snd p))) (tasks s1) = [ST_OK; ST_OK; ST_DROPPED] /\ inflight s1 = [] /\ io s1 = 0.
Proof. vm_compute. repeat split; reflexivity. Qed.

(* the hypothesis [rxm_find id (rxm s) = Some c] is needed: a peer that sends PUBCOMP before PUBREL is accepted,
   and the later release finds nothing to release (UnexpectedRelease, no PUBREL) *)
Example C14_early_pubcomp_witness :
  let s := run_from (sink_init 3 true 1) [OStart 1 2 0 0; OAcks [(2, 1)]; OPoll 1; OAcks [(3, 1)]] in
  map (fun p => tst (snd p)) (tasks s) = [TReceipt 1] /\ rxm_find 1 (rxm s) = None /\ io s = 0 /\
  wire (sink_op s (ORelease 1)) = [] /\
  map (fun p => tst (snd p)) (tasks (sink_op s (ORelease 1))) = [TDone ST_UNEXPRELEASE].
Proof. vm_compute. repeat split; reflexivity. Qed.

(* ---------------------------------------------------------------- every reachable receipt has its channel *)
From MV Require Import Proofs.SinkWire.

(* [pubcomp_after_pubrel s ops] (executable): whenever the dispatcher processes a PUBCOMP(id) on an open connection, the
   rx map no longer holds [id] -- release_publish removed the entry when it wrote PUBREL(id), i.e. the peer sends
   PUBCOMP only after our PUBREL.  Under it, in every reachable state every task holding a receipt [TReceipt id] still
   has the PUBCOMP channel registered under its own identifier: the hypothesis [rxm_find id (rxm s) = Some c] of
   C14_release_writes_own_pubrel / C14_release_waits_own_pubcomp holds for every reachable receipt.
   (Invariant behind it, [rcpt_inv]: a task that holds a receipt, or whose QoS 2 send has been answered by PUBREC and
   will get the receipt at its next poll, has the entry, and no two tasks hold the receipt of the same identifier.) *)
Theorem C14_receipt_has_channel : forall (v : N) (cl : bool) (c : N) (ops : list op) (t : N) (x : task) (id : N),
  pubcomp_after_pubrel (sink_init v cl c) ops = true ->
  find_task t (tasks (run_from (sink_init v cl c) ops)) = Some x -> tst x = TReceipt id ->
  exists ch, rxm_find id (rxm (run_from (sink_init v cl c) ops)) = Some ch.
Proof. exact receipt_has_channel. Qed.
Print Assumptions C14_receipt_has_channel.

(* hence, without any hypothesis on the state: releasing or dropping ANY reachable receipt writes exactly the PUBREL
   of its own identifier (open io, no payload being streamed), nothing otherwise *)
Theorem C14_every_receipt_release_writes_pubrel : forall (v : N) (cl : bool) (c : N) (ops : list op) (t : N) (x : task) (id : N),
  pubcomp_after_pubrel (sink_init v cl c) ops = true ->
  let s := run_from (sink_init v cl c) ops in
  find_task t (tasks s) = Some x -> tst x = TReceipt id ->
  wire (release_task s t) = (if (io s =? 0) && (crem s =? 0) then wire s ++ [W_PUBREL; id] else wire s) /\
  wire (drop_receipt s t) = (if (io s =? 0) && (crem s =? 0) then wire s ++ [W_PUBREL; id] else wire s).
Proof. exact every_receipt_release_writes_pubrel. Qed.
Print Assumptions C14_every_receipt_release_writes_pubrel.

(* the predicate holds on the three-exchange run of C14_nonvacuous (PUBCOMPs after the releases) and is exactly what the
   early-PUBCOMP witness violates *)
Example C14_receipt_nonvacuous :
  pubcomp_after_pubrel (sink_init 5 true 1)
    [OSetCap 3; OStart 1 2 0 0; OStart 2 2 0 0; OStart 3 2 0 0; OAcks [(2, 1); (2, 2); (2, 3)]; OPoll 1; OPoll 2; OPoll 3;
     ORelease 2; ODropReceipt 3; ORelease 1; OAcks [(3, 1); (3, 2); (3, 3)]; OPoll 1; OPoll 2] = true /\
  pubcomp_after_pubrel (sink_init 3 true 1) [OStart 1 2 0 0; OAcks [(2, 1)]; OPoll 1; OAcks [(3, 1)]] = false.
Proof. vm_compute. split; reflexivity. Qed.
