(* Props/C04.v -- property C04: responses leave in the order their requests arrived. Statements only. *)
From MV Require Import Base.Prelude Model.RespQueue Spec.SpecResp Proofs.RespQueueProofs.

(* history of a list of model operations (handler errors excluded: "while the connection is healthy") *)
Definition ans_of (r : hres) : answer := match r with HSome b => ASome b | _ => ANone end.
Definition ev_of (o : op) : ev :=
  match o with
  | Arrive id now => EArrive id (option_map ans_of now)
  | Done id r => EDone id (ans_of r)
  end.
Definition no_err (o : op) : bool :=
  match o with
  | Arrive _ (Some HErr) | Done _ HErr => false
  | _ => true
  end.
Definition rq_at (b : N) : rq := mkRq b [] None 0 false [] [] false.

(* [N.of_nat (length ops) < W64]: fewer than 2^64 operations, hence a queue shorter than 2^64 slots --
   the usize index arithmetic of the Rust aliases slots beyond that (not reachable: a VecDeque of 2^64
   entries does not exist).
   For every well-formed history -- any number of requests, any completion order, handlers ready at
   once or later -- and every starting value of the wrapping base counter: what has been written
   is exactly the responses of the longest prefix of requests whose handlers have all completed, in
   arrival order; the queue indexing never goes out of bounds and no error is recorded. *)
Theorem C04_resp_order : forall (b : N) (ops : list op),
  b < W64 -> N.of_nat (length ops) < W64 -> forallb no_err ops = true -> wf_history (map ev_of ops) = true ->
  let s := run_from (rq_at b) ops in
  out s = spec_written (map ev_of ops) /\ panicked s = false /\ error s = false.
Proof. exact resp_order. Qed.
Print Assumptions C04_resp_order.

(* none lost, none duplicated: once every handler has completed, every response has been written *)
Theorem C04_resp_complete : forall (b : N) (ops : list op),
  b < W64 -> N.of_nat (length ops) < W64 -> forallb no_err ops = true -> wf_history (map ev_of ops) = true ->
  all_done (arrivals (map ev_of ops)) (map ev_of ops) = true ->
  out (run_from (rq_at b) ops) =
    flat_map (fun i => match done_in i (map ev_of ops) with Some (ASome x) => [x] | _ => [] end)
             (arrivals (map ev_of ops)).
Proof. exact resp_complete. Qed.
Print Assumptions C04_resp_complete.

(* after a handler error (the connection is no longer healthy) what was written is still a prefix
   of the arrival-ordered responses: nothing is ever written out of order *)
Theorem C04_prefix_after_error : forall (b : N) (ops : list op),
  b < W64 -> N.of_nat (length ops) < W64 -> wf_history (map ev_of ops) = true ->
  exists rest, out (run_from (rq_at b) ops) ++ rest =
    flat_map (fun i => match done_in i (map ev_of ops) with Some (ASome x) => [x] | _ => [] end)
             (arrivals (map ev_of ops)).
Proof. exact prefix_after_error. Qed.
Print Assumptions C04_prefix_after_error.

Example C04_nonvacuous :
  let ops := [Arrive 1 None; Arrive 2 None; Arrive 3 (Some (HSome 3)); Done 2 (HSome 2); Done 1 HNone] in
  forallb no_err ops = true /\ wf_history (map ev_of ops) = true /\
  out (run_from (rq_at (W64 - 1)) ops) = [2; 3].
Proof. vm_compute. repeat split; reflexivity. Qed.
