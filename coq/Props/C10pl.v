(* Props/C10pl.v -- property C10, connection-level clause: the handler that reads the payload of a
   PUBLISH receives exactly the bytes sent, in order, for every fragmentation and every reader pace.
   Statements only; the model is Model/Payload.v (ntex_mqtt::Payload over ntex-util's bstream channel,
   fed the way the dispatchers feed it).

   Vocabulary.  [run m first size ops]: the payload Payload::from_stream(first, size) -- [first] is the
   piece of the payload that came with the PUBLISH header, [size] is max_payload_buffer_size -- and its
   reader in mode [m] after the operations [ops]:
     Feed d      the dispatcher got Decoded::PayloadChunk(d, _) and called feed_data(d)
     FeedEof     .. the chunk was the final one: feed_eof()
     SetError e  drop_payload(e): set_error(e)
     Poll        the handler's task is polled once.  m = MAll: the handler awaits `read_all()`;
                 m = MLoop: it calls `read()` until that answers Ok(None) / Err, one Poll is one poll
                 of the current `read()`
     Take        the handler moves the payload out with Payload::take and goes on with what it took.
   ANY list of operations is a schedule: chunk sizes, the number of chunks, the position of the
   polls (the pace of the reader) and of the eof are arbitrary.
   [rd s]: where the reader is; [Done None] = finished Ok, [Done (Some e)] = finished with Err(e).
   [got s]: what the handler holds -- MAll: [[r]] once read_all returned Ok(r); MLoop: the chunks the
   read() calls returned, oldest first ([held s] = their concatenation).
   [fed_chunks first ops] = the first piece (if not empty) and the argument of every Feed of [ops], in
   order; [fed_bytes first ops] = their concatenation = the bytes sent.
   [eof_fed ops] = a FeedEof occurs in [ops]. *)
From MV Require Import Base.Prelude Base.Res Model.Payload Proofs.PayloadProofs.

(* every schedule runs: no panic (`len - data.len()` in bstream's get_data never underflows), the
   model's fuel for read_all's loop always suffices *)
Theorem C10pl_total : forall (m : mode) (first : bytes) (size : N) (ops : list op),
  exists s, run m first size ops = Ok s.
Proof. exact total. Qed.
Print Assumptions C10pl_total.

(* read_all: when it returns Ok(r), it does so at one definite poll, the eof had been fed before that
   poll, and r is the concatenation of ALL chunks fed before that poll, in order -- none lost, none
   duplicated, wherever the polls fell *)
Theorem C10pl_read_all_exact : forall (first : bytes) (size : N) (ops : list op) (s : st),
  run MAll first size ops = Ok s -> rd s = Done None ->
  exists pre post, ops = pre ++ Poll :: post /\ eof_fed pre = true /\ got s = [fed_bytes first pre].
Proof. exact read_all_exact. Qed.
Print Assumptions C10pl_read_all_exact.

(* the dispatchers give the sender away with the final chunk, so nothing is fed after the eof
   ([feeds_end_at_eof]): then the result is every byte of the whole schedule *)
Theorem C10pl_read_all_exact_dispatcher : forall (first : bytes) (size : N) (ops : list op) (s : st),
  feeds_end_at_eof ops = true -> run MAll first size ops = Ok s -> rd s = Done None ->
  got s = [fed_bytes first ops].
Proof. exact read_all_exact_dispatcher. Qed.
Print Assumptions C10pl_read_all_exact_dispatcher.

(* .. in particular when the last chunk and the eof were fed before the reader's first poll, or
   between any two polls: with the eof in, no error set and read_all unfinished, ONE poll finishes it
   with every byte fed; only a payload into which nothing at all was put answers Err(Consumed) *)
Theorem C10pl_read_all_completes : forall (first : bytes) (size : N) (ops : list op) (s : st),
  run MAll first size ops = Ok s -> eof_fed ops = true -> existsb is_set_error ops = false ->
  running (rd s) = true ->
  exists s', step s Poll = Ok s' /\
             ((rd s' = Done None /\ got s' = [fed_bytes first ops]) \/
              (rd s' = Done (Some E_CONSUMED) /\ fed_chunks first ops = [])).
Proof. exact read_all_completes. Qed.
Print Assumptions C10pl_read_all_completes.

(* read() loop: at every moment the chunks returned so far are a prefix of the chunks fed (same
   chunks, same order, same boundaries); when read() answers Ok(None) the eof had been fed and the
   handler holds every chunk fed before that poll *)
Theorem C10pl_read_loop_exact : forall (first : bytes) (size : N) (ops : list op) (s : st),
  run MLoop first size ops = Ok s ->
  (exists rest, got s ++ rest = fed_chunks first ops) /\
  (rd s = Done None ->
   exists pre post, ops = pre ++ Poll :: post /\ eof_fed pre = true /\ got s = fed_chunks first pre).
Proof. exact read_loop_exact. Qed.
Print Assumptions C10pl_read_loop_exact.

(* the same in bytes *)
Theorem C10pl_read_loop_bytes : forall (first : bytes) (size : N) (ops : list op) (s : st),
  run MLoop first size ops = Ok s ->
  (exists rest, held s ++ rest = fed_bytes first ops) /\
  (rd s = Done None ->
   exists pre post, ops = pre ++ Poll :: post /\ eof_fed pre = true /\ held s = fed_bytes first pre).
Proof. exact read_loop_bytes. Qed.
Print Assumptions C10pl_read_loop_bytes.

(* and it makes progress: while a fed chunk has not been returned, a poll returns exactly the next one *)
Theorem C10pl_read_loop_next : forall (first : bytes) (size : N) (ops : list op) (s : st) (d : bytes)
                                      (rest : list bytes),
  run MLoop first size ops = Ok s -> running (rd s) = true ->
  fed_chunks first ops = got s ++ d :: rest ->
  exists s', step s Poll = Ok s' /\ got s' = got s ++ [d] /\ rd s' = LoopIdle.
Proof. exact read_loop_next. Qed.
Print Assumptions C10pl_read_loop_next.

(* after set_error(e) with the reader unfinished, the reader never finishes Ok: whatever follows it is
   either still unfinished (a read() loop that has not come to the end of the buffered chunks) or
   finished with Err of an error set since; read_all finishes (with that Err) at its next poll *)
Theorem C10pl_error_observed : forall (m : mode) (first : bytes) (size : N) (pre : list op) (e : N)
                                      (post : list op) (s0 s : st),
  run m first size pre = Ok s0 -> running (rd s0) = true ->
  run m first size (pre ++ SetError e :: post) = Ok s ->
  (running (rd s) = true \/ exists e', rd s = Done (Some e') /\ In (SetError e') (SetError e :: post)) /\
  (m = MAll -> existsb is_poll post = true -> running (rd s) = false).
Proof. exact error_observed. Qed.
Print Assumptions C10pl_error_observed.

(* neither reader finishes Ok before feed_eof *)
Theorem C10pl_no_finish_before_eof : forall (m : mode) (first : bytes) (size : N) (ops : list op) (s : st),
  run m first size ops = Ok s -> rd s = Done None -> eof_fed ops = true.
Proof. exact no_finish_before_eof. Qed.
Print Assumptions C10pl_no_finish_before_eof.

(* no lost wake-up: whenever the reader is suspended in a read()/read_all() future and a poll would
   make progress (a chunk, the eof or an error is there), its waker has been woken *)
Theorem C10pl_no_lost_wake : forall (m : mode) (first : bytes) (size : N) (ops : list op) (s : st) (c : chan),
  run m first size ops = Ok s -> chan_of s = Some c -> borrowed (rd s) = true ->
  can_progress c = true -> woken s = true.
Proof. exact no_lost_wake. Qed.
Print Assumptions C10pl_no_lost_wake.

(* a PUBLISH whose payload came whole: Payload::from_bytes(buf).  Whatever the schedule (the sender
   operations do nothing, there is no sender): read_all returns Ok(buf) at its first poll; the read()
   loop gets buf at its first poll and Ok(None) at the second; never an error *)
Theorem C10pl_fixed_exact : forall (m : mode) (buf : bytes) (ops : list op),
  exists s, run_from (init_fixed m buf) ops = Ok s /\ md s = m /\
            match polls ops, m with
            | O, _ => got s = [] /\ rd s = start_of m
            | S O, MLoop => got s = [buf] /\ rd s = LoopIdle
            | _, _ => got s = [buf] /\ rd s = Done None
            end.
Proof. exact fixed_exact. Qed.
Print Assumptions C10pl_fixed_exact.

(* non-vacuity: (1) the last chunk and the eof arrive before read_all's first poll; (2) the reader is
   polled between the chunks, is suspended, woken by the next chunk, and finishes after the eof;
   (3) a read() loop interleaved with feeding; (4) an error after two chunks: the loop still gets the
   buffered chunks, then Err *)
Example C10pl_nonvacuous :
  (exists s, run MAll [1; 2] 8 [Feed [3]; Feed [4; 5]; FeedEof; Poll] = Ok s /\
             rd s = Done None /\ got s = [[1; 2; 3; 4; 5]]) /\
  (exists s, run MAll [1; 2] 8 [Poll; Feed [3]] = Ok s /\ rd s = AllLoop [1; 2] /\ woken s = true) /\
  (exists s, run MAll [1; 2] 8 [Poll; Feed [3]; Poll; Feed [4; 5]; FeedEof; Poll] = Ok s /\
             rd s = Done None /\ got s = [[1; 2; 3; 4; 5]]) /\
  (exists s, run MLoop [] 0 [Poll; Feed [1]; Poll; Feed [2; 3]; Feed [4]; Poll; FeedEof; Poll; Poll] = Ok s /\
             rd s = Done None /\ got s = [[1]; [2; 3]; [4]]) /\
  (exists s, run MLoop [1] 8 [Feed [2]; SetError E_DISCONNECTED; Poll; Poll; Poll] = Ok s /\
             rd s = Done (Some E_DISCONNECTED) /\ got s = [[1]; [2]]).
Proof. repeat split; eexists; vm_compute; repeat split. Qed.
