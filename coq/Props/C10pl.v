(* Props/C10pl.v -- in progress *)
From MV Require Import Base.Prelude Base.Res Model.Payload Proofs.PayloadProofs.
