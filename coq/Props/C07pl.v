(* Props/C07pl.v -- property C07, payload-reader clause: when a connection ends, for whatever reason and at
   whatever moment, the reader of a streamed PUBLISH payload is resolved with an error: it is never told
   "complete" for a truncated payload and it is not left waiting for ever.
   Statements only; the model is Model/PlStop.v (one streamed inbound PUBLISH of a v3 / v5 server connection:
   decoder pieces, Dispatcher::call / ready / shutdown, MqttShared.payload slot and drop_payload,
   ControlService::call(Control::Stop), close / force_close) on top of Model/Payload.v (the payload channel and
   its reader), tied to the real servers by the engines plstop3 / plstop5.

   Vocabulary.  [prun c init ops]: the connection after the operations [ops] under the configuration [c]
   (protocol version, min_chunk_size [minc], max_payload_buffer_size [maxb], announced payload size [decl],
   reader mode [rmode]: MLoop = `read()` until Ok(None) / Err, MAll = `read_all()`):
     OHeader n    the peer writes the PUBLISH header announcing [decl c] payload bytes and the first n of them
     OBytes n     the peer writes n more payload bytes (never more than announced)
     OFail        readiness of the publish service starts failing
     OPeerClose   the peer closes its end       OClose / OForceClose   MqttSink::close / force_close
     OPoll        the reader task is polled once
     ODone        the publish handler completes Ok       OPing   PINGREQ after the whole payload
   ANY list of operations is a schedule.
   [status s]: 0 the reader has not been polled, 1 polled and not finished, 2 finished Ok (read() answered
   Ok(None) / read_all() answered Ok), 3 finished with Err.  [nbytes s]: payload bytes the reader holds.
   [stopped s]: the connection has ended (Control::Stop delivered, io closed).
   [incomplete s]: the decoder was still in the middle of the payload (announced bytes not all handed out).
   [buffered s]: chunks waiting in the payload channel.  [polls_n k] = k times OPoll. *)
From MV Require Import Base.Prelude Base.Res Model.Payload Model.PlStop Proofs.PlStopProofs.

(* every schedule runs: no panic in the payload channel, whatever the order of the operations *)
Theorem C07pl_total : forall (c : cfg) (ops : list pop), exists s, prun c init ops = Ok s.
Proof. exact total. Qed.
Print Assumptions C07pl_total.

(* (a) the reader never finishes Ok with fewer bytes than the PUBLISH announced: whenever read() answers
   Ok(None) / read_all() answers Ok, the reader holds exactly [decl c] bytes -- whenever and however the
   connection ended in between *)
Theorem C07pl_no_truncated_ok : forall (c : cfg) (ops : list pop) (s : ps),
  prun c init ops = Ok s -> status s = 2 -> nbytes s = decl c.
Proof. exact no_truncated_ok. Qed.
Print Assumptions C07pl_no_truncated_ok.

(* (b) once the connection has ended with the payload incomplete, the reader cannot stay pending: polled at
   most (chunks still buffered + 1) more times it has finished with Err *)
Theorem C07pl_reader_fails_after_end : forall (c : cfg) (ops : list pop) (s : ps),
  prun c init ops = Ok s -> stopped s = true -> incomplete s = true ->
  exists k s', (k <= S (buffered s))%nat /\ prun c s (polls_n k) = Ok s' /\ status s' = 3.
Proof. exact reader_fails_after_end. Qed.
Print Assumptions C07pl_reader_fails_after_end.

(* .. and no single poll after the end leaves it pending with nothing to wait for: a poll either finishes the
   reader with Err or hands it one of the buffered chunks (one fewer is left) *)
Theorem C07pl_reader_progress_after_end : forall (c : cfg) (ops : list pop) (s : ps),
  prun c init ops = Ok s -> stopped s = true -> incomplete s = true ->
  exists s', pstep c s OPoll = Ok (s', []) /\ stopped s' = true /\ incomplete s' = true /\
             (status s' = 3 \/ (status s' = 1 /\ S (buffered s') = buffered s)).
Proof. exact reader_progress_after_end. Qed.
Print Assumptions C07pl_reader_progress_after_end.

(* the end always empties the slot (the sender it held has called set_error) and un-parks the dispatcher *)
Theorem C07pl_end_empties_slot : forall (c : cfg) (ops : list pop) (s : ps),
  prun c init ops = Ok s -> stopped s = true -> slot s = false /\ parked s = false.
Proof. exact end_sets_error. Qed.
Print Assumptions C07pl_end_empties_slot.

(* non-vacuity.  v3, min_chunk_size 4, buffer 8, 64 bytes announced, read() loop.
   (1) 12 of 64 bytes arrive (buffer full), readiness fails (Dispatcher::ready parks in pl.ready()), the
       connection is force-closed: ended, incomplete, slot emptied; the reader then gets the two buffered chunks
       (4, 12 bytes) and then Err.
   (2) the same with the peer closing instead: over the in-memory transport the close is not noticed while the
       read task is paused; the reader's second poll drains the buffer, the parked readiness check reports its
       error, Stop(Error) fails the reader: buffered bytes, then Err.
   (3) the engine's observations for (1), as the real v3 server produces them.
   (4) a payload that arrives whole: the reader finishes Ok with all 16 bytes although the connection ended. *)
Example C07pl_nonvacuous :
  let c := mkCfg false 4 8 64 MLoop in
  (exists s, prun c init [OHeader 4; OBytes 8; OFail; OForceClose] = Ok s /\
             stopped s = true /\ incomplete s = true /\ slot s = false /\ stops s = 1 /\ buffered s = 2%nat /\
             exists s1 s2 s3, pstep c s OPoll = Ok (s1, []) /\ status s1 = 1 /\ nbytes s1 = 4 /\
                              pstep c s1 OPoll = Ok (s2, []) /\ status s2 = 1 /\ nbytes s2 = 12 /\
                              pstep c s2 OPoll = Ok (s3, []) /\ status s3 = 3 /\ nbytes s3 = 12) /\
  (exists s, prun c init [OHeader 4; OBytes 8; OFail; OPeerClose; OPoll; OPoll; OPoll] = Ok s /\
             stopped s = true /\ stops s = 1 /\ status s = 3 /\ nbytes s = 12) /\
  run_plstop3 [[4; 8; 64; 0]; [1; 4]; [2; 8]; [3]; [6]; [7]; [7]; [7]] =
    [[0; 0; 0; 1]; [0; 0; 0; 1]; [0; 0; 0; 1]; [0; 0; 1; 0]; [1; 4; 1; 0]; [1; 12; 1; 0]; [3; 12; 1; 0]] /\
  (exists s, prun (mkCfg true 4 8 16 MAll) init [OHeader 4; OBytes 12; OClose; OPoll] = Ok s /\
             stopped s = true /\ status s = 2 /\ nbytes s = 16).
Proof.
  cbv zeta. split; [|split; [|split]].
  - eexists. split; [vm_compute; reflexivity|]. repeat (split; [vm_compute; reflexivity|]).
    eexists. eexists. eexists. repeat (split; [vm_compute; reflexivity|]). vm_compute; reflexivity.
  - eexists. split; [vm_compute; reflexivity|]. repeat split; vm_compute; reflexivity.
  - vm_compute. reflexivity.
  - eexists. split; [vm_compute; reflexivity|]. repeat split; vm_compute; reflexivity.
Qed.
