(* Props/C07stop.v -- property C07 (and C13), the turn of the teardown: once MqttShared::clear_queues() has run
   (Flags::STOPPED; in the model: the io is closing or closed, [stopped]) no send is registered any more -- also while
   a graceful close is still in progress and is_closed() is false, which is the state a sender sees when it was woken
   just before the teardown and resumes in the same turn.  Statements only; model Model/Sink.v, proofs
   Proofs/SinkStop.v.  [proceed] is the part of every send (publish QoS 1/2, streamed publish, subscribe,
   unsubscribe) that follows the window check; [close_then_poll] is operation 18 of the sink engines. *)
From MV Require Import Base.Prelude Model.Sink Proofs.SinkStop.

Theorem C07stop_publish_registration_refused : forall (s : sink) (id ack rem tag : N) (big : bool),
  stopped s = true -> wait_publish_response s id ack rem tag big = (s, inr ST_DISCONNECTED).
Proof. exact wpr_stopped. Qed.
Print Assumptions C07stop_publish_registration_refused.

Theorem C07stop_request_registration_refused : forall (s : sink) (id ack tag : N),
  stopped s = true -> wait_response s id ack tag = (s, inr ST_DISCONNECTED).
Proof. exact wr_stopped. Qed.
Print Assumptions C07stop_request_registration_refused.

(* a send that gets past the window check in a stopped state resolves at once and queues nothing *)
Theorem C07stop_send_resolves_and_queues_nothing : forall (s : sink) (x : task),
  stopped s = true ->
  (exists e, snd (proceed s x) = TDone e) /\ inflight (fst (proceed s x)) = inflight s.
Proof. exact proceed_stopped. Qed.
Print Assumptions C07stop_send_resolves_and_queues_nothing.

(* the window check of a stopped connection parks nobody -- whatever the window and the write back-pressure flag say,
   the send fails at once (wait_readiness() hands out a receiver whose sender is already dropped) *)
Theorem C07stop_window_check_parks_nobody : forall (s : sink) (x : task),
  stopped s = true -> window_then_proceed s x = (s, TDone ST_DISCONNECTED).
Proof. exact window_stopped. Qed.
Print Assumptions C07stop_window_check_parks_nobody.

(* after the turn of the teardown nothing is registered and nobody is parked, whatever task was polled in it *)
Theorem C07stop_teardown_turn_leaves_nothing : forall (s : sink) (t : N),
  inflight (close_then_poll s t) = [] /\ waiters (close_then_poll s t) = [].
Proof. exact close_then_poll_empty. Qed.
Print Assumptions C07stop_teardown_turn_leaves_nothing.

(* the runner of the sink engines (what the correspondence check executes) is the operation semantics the theorems
   of Props/C05, C06, C08sink, C13, C14, C15sink are about: without a spawned task every operation line other than
   18 / 19 runs as [sink_op] of its parsed operation, and 18 is [close_then_poll] *)
Theorem C07stop_engine_runs_sink_op : forall (s : sink) (f : list N),
  hd 0 f <> 18 -> hd 0 f <> 19 -> engine_op None s f = sink_op s (parse_op f).
Proof. exact engine_op_plain. Qed.
Print Assumptions C07stop_engine_runs_sink_op.

Theorem C07stop_engine_op_18 : forall (s : sink) (t : N) (rest : list N),
  engine_op None s (18 :: t :: rest) = close_then_poll s t.
Proof. exact engine_op_close_then_poll. Qed.
Print Assumptions C07stop_engine_op_18.

(* non-vacuity, the history repaired by cda2d93: window 1, PUBLISH 1 in flight, PUBLISH 2 parked; PUBACK(1) wakes
   task 2; the connection is closed and task 2 resumes in the same turn: it ends with Disconnected (status 3), writes
   nothing and is not in the queue (first number of the observation = queue length) *)
(* the history repaired by 391c248: as above with write back-pressure flagged and task 2 owned by the executor
   (operation 19); the acknowledgement of PUBLISH 1 and an acknowledgement nobody asked for arrive in one write: task 2
   is woken, the connection is torn down, task 2 resumes -- and ends with Disconnected (3) instead of parking again *)
Example C07stop_nonvacuous_backpressure :
  map (fun o => firstn 2 o ++ skipn 8 o)
      (run_sink3 [[1; 0]; [1; 1; 1; 0]; [19; 2; 1; 0]; [8; 1]; [5; 1; 1; 1; 60000]])
  = [[1; 0; 1; 1; 255; 1; 1]; [1; 1; 1; 1; 2; 1; 255]; [1; 1; 1; 1; 2; 1; 255]; [0; 0; 1; 1; 2; 3; 255]].
Proof. vm_compute. reflexivity. Qed.

Example C07stop_nonvacuous :
  run_sink3 [[1; 0]; [1; 1; 1; 0]; [1; 2; 1; 0]; [4; 1; 1]; [18; 2]; [2; 2]]
  = [[1; 0; 1; 0; 0; 0; 0; 1; 1; 1; 255; 1; 1]; [1; 1; 1; 0; 0; 0; 0; 1; 1; 1; 2; 1; 255];
     [0; 0; 1; 0; 0; 1; 1; 1; 1; 1; 2; 1; 255]; [0; 0; 1; 0; 0; 1; 0; 0; 1; 1; 2; 3; 255];
     [0; 0; 1; 0; 0; 1; 0; 0; 1; 1; 2; 3; 255]].
Proof. vm_compute. reflexivity. Qed.
