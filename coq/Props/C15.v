(* Props/C15.v -- property C15: MQTT 5 DISCONNECT: at most once, never after the peer's, names the cause.
   Statements only; model Model/Inbound.v, proofs Proofs/InboundLogic.v (layer 1) and Proofs/InboundInv.v
   (layer 2: all operation lists of the full operational model).

   Vocabulary (layer 2).  [trace ops s]: the states whose observations the engines inb5 / cli5 (and inb3 /
   cli3) print, one per operation ([run_ops ops s = map observe (trace ops s)]; the wire log is cleared
   between operations, so the wire of a run is [cumwire (trace ops s)], the concatenation).
   [flat3 ws]: the wire as a list of packets (type, id, reason); [ndisc ws]: how many of them are
   DISCONNECT (type 224).  [field_ok f]: the packet identifier fields of operation f are u16.
   [after a s]: the state after the operations a.  [closedio s]: shutdown of the io has been initiated.
   Not in the model (see Model/Inbound.v): keep-alive, maximum packet size, retain-not-available,
   subscription identifiers -- for those only the numbers are tied (C15_dedicated_codes_table). *)
From Coq Require Import String.
From MV Require Import Gen.Consts Proofs.ConstsProofs.
From MV Require Import Base.Prelude Model.RespQueue Model.Inbound Proofs.InboundLogic Proofs.InboundInv
  Proofs.InboundConsts.

(* ---- at most one DISCONNECT on the wire of a whole run, whatever the peer and the application do
   (server roles; also: every DISCONNECT has packet id field 0 and, on MQTT 5, a reason >= 0x80, and the
   control service is told to stop at most once).
   The same theorem is the inbound-response part of C08 at the model's level of abstraction: everything the
   endpoint writes in response to inbound traffic is a sequence of whole packets ([flat3 ws]), each of a type
   the dispatcher answers with (PUBACK 64, PUBREC 80, PUBCOMP 112, SUBACK 144, UNSUBACK 176, PINGRESP 208,
   DISCONNECT 224) with a u16 identifier and a u8 reason ([trip_wf]); the bytes of such a packet are the codec's
   business (Props/C01.v, C09.v). *)
Theorem C15_at_most_one_disconnect : forall (is5 : bool) (cf : list N) (ops : list (list N)),
  Forall field_ok ops ->
  let s := init_st is5 cf in
  (exists ws, cumwire (trace ops s) = flat3 ws /\ (ndisc ws <= 1)%nat /\
     (forall x, In x ws -> trip_wf x /\ (is_disc x = true -> snd (fst x) = 0 /\ if is5 then 128 <= snd x else snd x = 0))) /\
  (forall s', In s' (trace ops s) -> stops (l_ s') <= 1) /\
  run_ops ops s = map observe (trace ops s).
Proof. exact server_run. Qed.
Print Assumptions C15_at_most_one_disconnect.

Theorem C15_at_most_one_disconnect_client : forall (is5 : bool) (cf : list N) (ops : list (list N)),
  Forall field_ok ops ->
  let s := init_st_cli is5 cf in
  (exists ws, cumwire (trace ops s) = flat3 ws /\ (ndisc ws <= 1)%nat /\
     (forall x, In x ws -> trip_wf x /\ (is_disc x = true -> snd (fst x) = 0 /\ if is5 then 128 <= snd x else snd x = 0))) /\
  (forall s', In s' (trace ops s) -> stops (l_ s') <= 1) /\
  run_ops ops s = map observe (trace ops s).
Proof. exact client_run. Qed.
Print Assumptions C15_at_most_one_disconnect_client.

(* every emission site tests and sets the flag: what one packet can write before any handler runs ... *)
Theorem C15_sites_packets : forall (p : pkt) (s : st),
  exists w, wire (i_ (fst (proto_body p s))) = wire (i_ s) ++ w /\ wdelta s (fst (proto_body p s)) w.
Proof. exact body_wire. Qed.
Print Assumptions C15_sites_packets.

(* ... the Stop path ([do_stop kind reason]: kind 1 Protocol, 2 Error, 3 PeerGone) ... *)
Theorem C15_sites_stop : forall (kind reason : N) (s : st),
  wire (i_ (do_stop kind reason s)) =
    if v5 (c_ s) && negb (kind =? 3) && negb (dsent (p_ s)) && negb (closedio s)
    then wire (i_ s) ++ [224; 0; reason] else wire (i_ s).
Proof. exact do_stop_wire. Qed.
Print Assumptions C15_sites_stop.

Theorem C15_sites_stop_flag : forall (kind reason : N) (s : st),
  dsent (p_ (do_stop kind reason s)) = dsent (p_ s) || (v5 (c_ s) && negb (kind =? 3)).
Proof. exact do_stop_dsent. Qed.
Print Assumptions C15_sites_stop_flag.

(* ... the protocol service's own DISCONNECT (server / client): handed back for writing only if the flag was
   clear; the io has been closed by then *)
Theorem C15_sites_service : forall (m : cmsg) (res : N) (s : st) (i r : N),
  snd (srv_result m res s) = RSome 224 i r ->
  dsent (p_ s) = false /\ dsent (p_ (fst (srv_result m res s))) = true /\ closedio (fst (srv_result m res s)) = true.
Proof. exact srv_disconnect. Qed.
Print Assumptions C15_sites_service.

Theorem C15_sites_service_client : forall (m : cmsg) (res : N) (s : st) (i r : N),
  snd (ctl_result_c m res s) = RSome 224 i r ->
  dsent (p_ s) = false /\ dsent (p_ (fst (ctl_result_c m res s))) = true /\ closedio (fst (ctl_result_c m res s)) = true.
Proof. exact ctlc_disconnect. Qed.
Print Assumptions C15_sites_service_client.

(* ... MqttShared::close() of a v3 client; a publish handler's result is never a DISCONNECT *)
Theorem C15_sites_v3_client_close : forall (s : st),
  wire (i_ (close3c s)) = (if dsent (p_ s) || closedio s then wire (i_ s) else wire (i_ s) ++ [224; 0; 0]) /\
  dsent (p_ (close3c s)) = true /\ closedio (close3c s) = true.
Proof. exact close3c_wire. Qed.
Print Assumptions C15_sites_v3_client_close.

Theorem C15_sites_handler : forall (q2 id res : N) (s : st) (t i r : N),
  snd (hres_any q2 id res s) = RSome t i r -> (t = 64 \/ t = 80) /\ i = id /\ id <> 0.
Proof. exact hres_types. Qed.
Print Assumptions C15_sites_handler.

(* ---- none after the peer's: receiving DISCONNECT (no session-expiry violation) sets the flag and closes ... *)
Theorem C15_none_after_peers_flag : forall (reason : N) (s : st),
  v5 (c_ s) = true ->
  let r := proto_body (KDisconnect reason 0) s in
  snd r = OCtl (4, 0) /\ dsent (p_ (fst r)) = true /\ closedio (fst r) = true /\
  wire (i_ (fst r)) = wire (i_ s) /\ (is_client s = false -> drecv (p_ (fst r)) = true).
Proof. exact peer_disconnect_v5. Qed.
Print Assumptions C15_none_after_peers_flag.

(* ... and from any reachable point where the flag is set no DISCONNECT is written any more (layer 2) *)
Theorem C15_none_after_peers : forall (s : st) (a b : list (list N)),
  Inv s -> wire (i_ s) = [] -> Forall field_ok (a ++ b) -> dsent (p_ (after a s)) = true ->
  trace (a ++ b) s = trace a s ++ trace b (after a s) /\
  exists ws, cumwire (trace b (after a s)) = flat3 ws /\ ndisc ws = 0%nat.
Proof. exact after_flag. Qed.
Print Assumptions C15_none_after_peers.

Theorem C15_reachable_init : forall (is5 : bool) (cf : list N),
  Inv (init_st is5 cf) /\ wire (i_ (init_st is5 cf)) = [] /\
  Inv (init_st_cli is5 cf) /\ wire (i_ (init_st_cli is5 cf)) = [].
Proof. exact init_states. Qed.
Print Assumptions C15_reachable_init.

(* the exception: a DISCONNECT that itself violates the protocol (session expiry on a zero-expiry session)
   leaves the flag alone; the error then takes the Stop path with reason 0x82 (C15_sites_stop) *)
Theorem C15_none_after_peers_except_violation : forall (reason se : N) (s : st),
  v5 (c_ s) = true -> 0 < se -> (is_client s = true \/ zse (c_ s) = true) ->
  let r := proto_body (KDisconnect reason se) s in
  snd r = ODone (RErr (EProto 130)) /\ dsent (p_ (fst r)) = dsent (p_ s) /\ wire (i_ (fst r)) = wire (i_ s).
Proof. exact peer_disconnect_v5_violation. Qed.
Print Assumptions C15_none_after_peers_except_violation.

(* ... and it is an exception for those sessions only: a server whose CONNECT asked for a non-zero session expiry
   ([zse] = false) accepts a DISCONNECT that carries a Session Expiry Interval like any other DISCONNECT of the
   peer -- it writes nothing in answer *)
Theorem C15_peer_disconnect_with_expiry_accepted : forall (reason se : N) (s : st),
  v5 (c_ s) = true -> is_client s = false -> zse (c_ s) = false ->
  let r := proto_body (KDisconnect reason se) s in
  snd r = OCtl (4, 0) /\ dsent (p_ (fst r)) = true /\ wire (i_ (fst r)) = wire (i_ s).
Proof. exact peer_disconnect_v5_expiry_allowed. Qed.
Print Assumptions C15_peer_disconnect_with_expiry_accepted.

(* ---- nothing after its own: once the io is closed nothing at all is written (layer 2) ... *)
Theorem C15_nothing_after_own : forall (s : st) (a b : list (list N)),
  Inv s -> wire (i_ s) = [] -> Forall field_ok (a ++ b) -> closedio (after a s) = true ->
  cumwire (trace b (after a s)) = [].
Proof. exact after_close. Qed.
Print Assumptions C15_nothing_after_own.

(* ... and every site that writes a DISCONNECT closes the io: in the same call (C15_sites_packets: [WDisc]
   carries [closedio s' = true]; C15_sites_service; C15_sites_v3_client_close), or -- the Stop path -- in
   the dispatcher's next transition.  (Between the two the dispatcher does nothing else, but its poll may
   have run out of the model's fuel: that corner is why this is stated per transition.) *)
Theorem C15_nothing_after_own_stop : forall (f : nat) (s : st),
  dst (s_ s) = DShut ShInit -> Inv s -> closedio (d_loop (S f) s) = true.
Proof. exact stop_then_close. Qed.
Print Assumptions C15_nothing_after_own_stop.

Theorem C15_closed_io_writes_nothing : forall (t id r : N) (s : st), closedio s = true -> io_encode t id r s = s.
Proof. exact io_encode_closed. Qed.
Print Assumptions C15_closed_io_writes_nothing.

(* ---- an error never claims normal disconnection: C15_at_most_one_disconnect has it for whole runs (reason
   >= 0x80 on every v5 DISCONNECT); here per decision: the reason of a protocol error ... *)
Theorem C15_error_never_normal : forall (p : pkt) (s : st) (r : N),
  snd (proto_body p s) = ODone (RErr (EProto r)) ->
  (r = 130) \/
  (r = 147 /\ v5 (c_ s) = true /\ over_quota s = true /\
     exists qos id topic alias retain plen, p = KPublish qos id topic alias retain plen /\ 0 < qos) \/
  (r = 155 /\ is_client s = false /\
     exists qos id topic alias retain plen, p = KPublish qos id topic alias retain plen /\ max_qos (c_ s) < qos) \/
  (r = 148 /\ v5 (c_ s) = true /\
     exists qos id alias retain plen, p = KPublish qos id 0 alias retain plen /\ alias <> 0 /\
                                      assocN alias (aliases (p_ s)) = None).
Proof. exact proto_err_table. Qed.
Print Assumptions C15_error_never_normal.

(* ... and of any recorded error (a handler / service error is 0x83) *)
Theorem C15_error_reason : forall (e : errk), err_ok e -> 128 <= stop_reason e < 256.
Proof. exact stop_reason_ok. Qed.
Print Assumptions C15_error_reason.

(* ---- dedicated codes.  The numbers, read from the Rust tables: *)
Theorem C15_dedicated_codes_table :
  proto_reason_code_of "KeepAliveTimeout" = Some 141 (* 0x8D *) /\
  proto_reason_code_of "Decode(MaxSizeExceeded)" = Some 149 (* 0x95 *) /\
  reason_code_of "Pub_3_3_4_7" = Some 147 (* 0x93 *) /\ reason_code_of "Pub_3_3_4_9" = Some 147 /\
  reason_code_of "Connack_3_2_2_11" = Some 155 (* 0x9B *) /\
  reason_code_of "Connack_3_2_2_14" = Some 154 (* 0x9A *) /\
  reason_code_of "Connack_3_2_2_3_12" = Some 161 (* 0xA1 *) /\
  lookup "TopicAliasInvalid" gen_enum_v5_DisconnectReasonCode = Some 148 (* 0x94 *) /\
  lookup "NormalDisconnection" gen_enum_v5_DisconnectReasonCode = Some 0.
Proof. exact dedicated_codes. Qed.
Print Assumptions C15_dedicated_codes_table.

(* the numbers the model uses are those *)
Theorem C15_dedicated_codes_model :
  reason_code_of "Pub_3_3_4_7" = Some 147 /\ reason_code_of "Pub_3_3_4_9" = Some 147 /\
  reason_code_of "Connack_3_2_2_11" = Some 155 /\
  lookup "TopicAliasInvalid" gen_enum_v5_DisconnectReasonCode = Some 148 /\
  reason_code_of "Connack_3_2_2_17" = Some 130 /\ reason_code_of "Pub_3_3_2_2" = Some 130 /\
  reason_code_of "PacketId_2_2_1_3_Pub" = Some 130 /\ reason_code_of "PacketId_2_2_1_3_Sub" = Some 130 /\
  reason_code_of "PacketId_2_2_1_3_Unsub" = Some 130 /\ reason_code_of "Subs_4_7_1" = Some 130 /\
  reason_code_of "Disconnect_3_14_2_22" = Some 130 /\
  proto_reason_code_of "_" = Some 131 /\ stop_reason EServ = 131 /\
  lookup "PacketIdentifierInUse" gen_enum_v5_PublishAckReason = Some 145 /\
  lookup "PacketIdentifierInUse" gen_enum_v5_SubscribeAckReason = Some 145 /\
  lookup "PacketIdentifierInUse" gen_enum_v5_UnsubscribeAckReason = Some 145 /\
  lookup "PacketIdNotFound" gen_enum_v5_PublishAck2Reason = Some 146 /\
  lookup "UnspecifiedError" gen_enum_v5_DisconnectReasonCode = Some 128 /\
  lookup "DISCONNECT" gen_packet_types = Some 224 /\ lookup "PUBACK" gen_packet_types = Some 64 /\
  lookup "PUBREC" gen_packet_types = Some 80 /\ lookup "PUBCOMP" gen_packet_types = Some 112 /\
  lookup "SUBACK" gen_packet_types = Some 144 /\ lookup "UNSUBACK" gen_packet_types = Some 176 /\
  lookup "PINGRESP" gen_packet_types = Some 208.
Proof. exact model_codes. Qed.
Print Assumptions C15_dedicated_codes_model.

(* the causes the model has: receive maximum => 0x93 (C12v5), QoS => 0x9B, unknown alias => 0x94 (C17); the
   error goes to the Stop path unchanged ([stop_reason (EProto r) = r]) and C15_sites_stop writes it *)
Theorem C15_dedicated_codes_qos : forall (qos id topic alias retain plen : N) (s : st),
  v5 (c_ s) = true -> is_client s = false -> 0 < qos -> topic <> 4 -> over_quota s = false ->
  max_qos (c_ s) < qos ->
  proto_body (KPublish qos id topic alias retain plen) s = (s, ODone (RErr (EProto 155))).
Proof. exact qos_not_supported_refused. Qed.
Print Assumptions C15_dedicated_codes_qos.

Theorem C15_dedicated_codes_receive_max : forall (qos id topic alias retain plen : N) (s : st),
  v5 (c_ s) = true -> 0 < qos -> (is_client s = false -> topic <> 4) -> over_quota s = true ->
  proto_body (KPublish qos id topic alias retain plen) s = (s, ODone (RErr (EProto 147))).
Proof. exact over_quota_refused. Qed.
Print Assumptions C15_dedicated_codes_receive_max.

Theorem C15_dedicated_codes_alias : forall (qos id alias retain plen : N) (s : st),
  v5 (c_ s) = true -> alias <> 0 -> assocN alias (aliases (p_ s)) = None ->
  let r := proto_body (KPublish qos id 0 alias retain plen) s in
  delivered (snd r) = false /\
  (pub_admitted5 (KPublish qos id 0 alias retain plen) s = true -> snd r = ODone (RErr (EProto 148))).
Proof. exact alias_unbound. Qed.
Print Assumptions C15_dedicated_codes_alias.

(* ---- deviation A2 (the real crate and the model agree on it): "names the cause" fails when the cause is the
   protocol service's own DISCONNECT.  v5 server with the library's default protocol service, the peer sends
   SUBSCRIBE: the service answers ProtocolMessageAck { packet: Disconnect(UnspecifiedError 0x80), disconnect:
   true }; control_pkt closes the sink before the packet is handed back (C15_sites_service), so it is never
   written: the wire stays empty, the control service sees Stop(PeerGone) (kind 3), the connection is closed *)
Theorem C15_service_disconnect_written_refuted :
  ack5 2 9 = A5Disc 128 /\
  run_inb5 [[2; 0; 3; 0; 0]; [1; 6; 1; 1]] = [[254; 253; 252; 3; 1; 0]].
Proof. exact a2_witness. Qed.
Print Assumptions C15_service_disconnect_written_refuted.

(* non-vacuity: a run with exactly one DISCONNECT: receive maximum 1, two QoS 1 PUBLISHes (handler 1 never
   completes) => DISCONNECT 0x93, Stop(Protocol) once, then the peer's own DISCONNECT changes nothing *)
Example C15_nonvacuous :
  let ops := [[1; 1; 1; 1; 1; 0; 0; 0]; [1; 1; 1; 2; 1; 0; 0; 0]; [1; 9; 0; 0]] in
  Forall field_ok ops /\
  run_inb5 ([2; 1; 0; 0; 1] :: ops) =
    [[254; 1; 1; 1; 1; 0; 0; 253; 252; 0; 0; 1]; [224; 0; 147; 254; 253; 252; 1; 1; 0]; [254; 253; 252; 1; 1; 0]].
Proof. split; [repeat constructor; vm_compute; reflexivity|vm_compute; reflexivity]. Qed.
