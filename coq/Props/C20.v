(* Props/C20.v -- property C20: keep-alive, frame-read-rate and connect timeouts; the keep-alive factor;
   the client's PINGREQ cadence.  Statements only; the model is Model/Timer.v (update_timer,
   handle_timeout, the timer part of poll_service of /repo/src/io.rs over discrete time, one ntex-io
   timer slot; Handshake::ack; the connect timeout; the client keep-alive loop).
   All statements are for ALL event sequences satisfying the stated hypotheses. *)
From MV Require Import Base.Prelude Base.Res Model.Timer Proofs.TimerProofs.
From MV Require Model.Handshake.

(* a connection on which fewer than keep-alive seconds ever pass between complete frames -- whatever
   partial reads, timer expiries, read-rate configuration -- is never ended with KeepAliveTimeout,
   as long as the request service stays ready (see C20_live_refuted_not_ready) *)
Theorem C20_live_never_timed_out : forall (c : tcfg) (evs : list tevent) (s' : tstate) (outs : list tout),
  cfg_ka c <> 0 -> forallb plain_ev evs = true -> gaps_ok (cfg_ka c) 0 evs = true ->
  t_run c (t_init c) evs = Ok (s', outs) -> ~ In StopKeepAlive outs.
Proof. exact live_never_timed_out. Qed.
Print Assumptions C20_live_never_timed_out.

(* with the read-rate rule off (the default) not-ready episodes are harmless as well: no timer ends such
   a connection at all, provided the poll loop goes on after every frame (frame_followed) *)
Theorem C20_live_default_config : forall (c : tcfg) (evs : list tevent) (s' : tstate) (outs : list tout),
  cfg_rr c = None -> cfg_ka c <> 0 -> forallb not_inject evs = true -> frame_followed evs = true ->
  gaps_ok (cfg_ka c) 0 evs = true ->
  t_run c (t_init c) evs = Ok (s', outs) -> outs = [].
Proof. exact live_default_config. Qed.
Print Assumptions C20_live_default_config.

(* refutation of the unrestricted statement (recorded finding "stale-timer-while-not-ready"): with the
   read-rate rule ON, a frame-read timer that expires while the request service is not ready is reported
   by poll_read_pause as KeepAliveTimeout -- here one second after a complete frame, keep-alive 4 *)
Theorem C20_live_refuted_not_ready :
  let c := mkTcfg 4 (Some (mkRr 1 0 0)) in
  let evs := [Recv false 0; Tick; Recv true 1; Recv false 1; Tick; TimerFired; Paused] in
  gaps_ok 4 0 evs = true /\ exists s, t_run c (t_init c) evs = Ok (s, [StopKeepAlive]).
Proof. exact live_refuted_not_ready. Qed.
Print Assumptions C20_live_refuted_not_ready.

(* once the keep-alive timer is armed (deadline dl), seconds passing and polls that decode no frame leave
   it armed with the same deadline -- read-rate rule off: whatever is buffered; read-rate rule on: while
   nothing is buffered (a buffered partial frame is then under the read-rate rule) -- and when the wheel
   finds it due the connection is ended with KeepAliveTimeout *)
Theorem C20_idle_times_out : forall (c : tcfg) (s : tstate) (dl : N) (evs : list tevent),
  (cfg_rr c = None \/ read_remains s = 0) -> armed s dl -> forallb (idle_ev c) evs = true ->
  exists s1, t_run c s evs = Ok (s1, []) /\ timer s1 = Some dl /\ now s1 = now s + ticks evs /\
    (dl <= now s1 -> forall r, exists s2,
       t_run c s1 [TimerFired; Recv false r] = Ok (s2, [StopKeepAlive]) /\ stopped s2 = true /\ timer s2 = None).
Proof. exact idle_times_out. Qed.
Print Assumptions C20_idle_times_out.

(* the first poll of an idle connection arms the keep-alive timer for the negotiated period *)
Theorem C20_idle_armed_at_start : forall (c : tcfg), cfg_ka c <> 0 ->
  exists s, t_run c (t_init c) [Recv false 0] = Ok (s, []) /\ armed s (cfg_ka c).
Proof. exact init_arms. Qed.
Print Assumptions C20_idle_armed_at_start.

(* after a complete frame (KA_TIMEOUT cleared) the next poll that decodes no frame arms the keep-alive
   timer again for the full period (a pending timer due then or a second later is kept): with the
   read-rate rule off whatever is buffered (since a67d067; before it a frame that arrived together with
   the first byte of the next packet left the connection without any timer), with it on when nothing is *)
Theorem C20_frame_rearms_keepalive : forall (c : tcfg) (s : tstate) (r : N),
  cfg_ka c <> 0 -> (cfg_rr c = None \/ r = 0) -> after_frame s ->
  exists s1 dl, timer_step c s (Recv false r) = Ok (s1, []) /\ armed s1 dl /\
                now s + cfg_ka c <= dl <= now s + cfg_ka c + 1.
Proof. exact partial_frame_arms_keepalive. Qed.
Print Assumptions C20_frame_rearms_keepalive.

Theorem C20_frame_clears_keepalive : forall (c : tcfg) (s : tstate) (r : N),
  stopped s = false -> ka_enabled s = true -> dsp_timeout s = false ->
  exists s1, timer_step c s (Recv true r) = Ok (s1, []) /\ after_frame s1 /\ timer s1 = timer s /\ now s1 = now s.
Proof. exact frame_clears. Qed.
Print Assumptions C20_frame_clears_keepalive.

(* keep-alive 0 disables the keep-alive timeout -- if the service never becomes not-ready, or if the
   read-rate rule is off and nobody calls notify_timeout *)
Theorem C20_ka_zero_disables : forall (c : tcfg) (evs : list tevent) (s' : tstate) (outs : list tout),
  cfg_ka c = 0 ->
  (forallb not_paused evs = true \/ (cfg_rr c = None /\ forallb not_inject evs = true)) ->
  t_run c (t_init c) evs = Ok (s', outs) -> ~ In StopKeepAlive outs.
Proof. exact ka_zero_disables. Qed.
Print Assumptions C20_ka_zero_disables.

(* refutation of the unrestricted statement: a frame-read timer that expires while the service is not
   ready is reported as KeepAliveTimeout although keep-alive is disabled *)
Theorem C20_ka_zero_disables_refuted :
  let c := mkTcfg 0 (Some (mkRr 1 0 0)) in
  exists s, t_run c (t_init c) [Recv false 1; Tick; TimerFired; Paused] = Ok (s, [StopKeepAlive]).
Proof. exact ka_zero_disables_refuted. Qed.
Print Assumptions C20_ka_zero_disables_refuted.

(* read-rate rule, timer expiry with READ_TIMEOUT set: at most `rate` new bytes => ReadTimeout
   (`-` on N truncates at 0 = read_remains.saturating_sub(read_remains_prev)) *)
Theorem C20_slow_frame_times_out : forall (c : tcfg) (p : rr_cfg) (s : tstate) (r : N),
  cfg_rr c = Some p -> expired_read s ->
  read_remains s - read_remains_prev s <= rr_rate p ->
  exists s1, timer_step c s (Recv false r) = Ok (s1, [StopRead]) /\ stopped s1 = true /\ timer s1 = None.
Proof. exact slow_frame_times_out. Qed.
Print Assumptions C20_slow_frame_times_out.

(* more than `rate` new bytes: the timer (just expired: timer s = None) is re-armed for another period,
   unless max_timeout is used up *)
Theorem C20_fast_enough_extends : forall (c : tcfg) (p : rr_cfg) (s : tstate) (r : N),
  cfg_rr c = Some p -> expired_read s -> timer s = None ->
  rr_rate p < read_remains s - read_remains_prev s ->
  (rr_max p = 0 \/ next_max p s <> 0) ->
  exists s1, timer_step c s (Recv false r) = Ok (s1, []) /\ stopped s1 = false /\
    timer s1 = (if rr_timeout p =? 0 then None else Some (now s + rr_timeout p)) /\
    read_remains_prev s1 = read_remains s /\ read_remains s1 = r mod U32 /\
    read_max_timeout s1 = next_max p s /\ read_timeout s1 = true.
Proof. exact fast_enough_extends. Qed.
Print Assumptions C20_fast_enough_extends.

Theorem C20_max_timeout_exhausted : forall (c : tcfg) (p : rr_cfg) (s : tstate) (r : N),
  cfg_rr c = Some p -> expired_read s ->
  rr_rate p < read_remains s - read_remains_prev s ->
  rr_max p <> 0 -> next_max p s = 0 ->
  exists s1, timer_step c s (Recv false r) = Ok (s1, [StopRead]) /\ stopped s1 = true /\ timer s1 = None.
Proof. exact max_timeout_exhausted. Qed.
Print Assumptions C20_max_timeout_exhausted.

(* no event sequence from any state makes the timer machine panic (4dba145: saturating_sub).
   Before that commit `read_remains - read_remains_prev` underflowed (debug: panic of the connection
   task, which takes the worker down) (1) when the decoder consumed the packet header between two
   expiries, as both MQTT codecs do (bytes 0x82, later 0x05), (2) when write back-pressure began in the
   poll that extended the read timer; C20_former_underflow_sequences runs those two sequences *)
Theorem C20_no_underflow : forall (c : tcfg) (evs : list tevent) (s : tstate),
  exists r, t_run c s evs = Ok r.
Proof. exact no_underflow. Qed.
Print Assumptions C20_no_underflow.

Theorem C20_former_underflow_sequences :
  let c := mkTcfg 0 (Some (mkRr 1 0 0)) in
  (exists s, t_run c (t_init c) [Recv false 1; Tick; TimerFired; Recv false 1; Recv false 0; Tick; TimerFired;
                                 Recv false 0] = Ok (s, [StopRead])) /\
  (exists s, t_run c (t_init c) [Recv false 3; Tick; TimerFired; Timeout; Tick; TimerFired; Recv false 3]
             = Ok (s, [StopRead])).
Proof. exact former_underflow_sequences. Qed.
Print Assumptions C20_former_underflow_sequences.

(* Handshake::ack: keep-alive * 1.5 (integer: ka + ka/2), saturating at u16::MAX; 0 -> 30 s *)
Theorem C20_keepalive_factor : forall (ka : N),
  ka <= U16MAX -> ack_keepalive ka = if ka =? 0 then 30 else N.min (ka + ka / 2) 65535.
Proof. exact keepalive_factor. Qed.
Print Assumptions C20_keepalive_factor.

(* the same function as Model/Handshake.v's keepalive_of, which engine "hs" compares with the real
   Handshake::ack of both protocol versions *)
Theorem C20_keepalive_factor_is_handshake_model : forall (ka : N),
  ack_keepalive ka = Handshake.keepalive_of ka.
Proof. exact ack_keepalive_is_handshake_model. Qed.
Print Assumptions C20_keepalive_factor_is_handshake_model.

(* connect timeout: ct <> 0 and no CONNECT within ct seconds => dropped; a CONNECT before that, or
   ct = 0, => accepted *)
Theorem C20_connect_timeout : forall (ct w : N) (rest : list cevent),
  ct <> 0 -> w < ct ->
  connect_phase ct w (repeat CTick (N.to_nat (ct - w)) ++ rest) = Some CDropped.
Proof. exact connect_times_out. Qed.
Print Assumptions C20_connect_timeout.

Theorem C20_connect_in_time : forall (ct : N) (n : nat) (w : N),
  (ct = 0 \/ w + N.of_nat n < ct) -> connect_phase ct w (repeat CTick n ++ [CConnect]) = Some CAccepted.
Proof. exact connect_no_early_drop. Qed.
Print Assumptions C20_connect_in_time.

(* client keep-alive loop: while the sink is open a PINGREQ is written exactly every ka seconds *)
Theorem C20_client_ping_cadence : forall (ka : N) (n : nat),
  0 < ka ->
  snd (k_run ka (k_init ka) (repeat KTick n)) = map (fun i => (N.of_nat i + 1) mod ka =? 0) (seq 0 n).
Proof. exact client_ping_cadence. Qed.
Print Assumptions C20_client_ping_cadence.

Theorem C20_client_closed_no_ping : forall (ka : N) (evs : list kevent) (s : kstate),
  k_open s = false -> Forall (fun p => p = false) (snd (k_run ka s evs)).
Proof. exact closed_never_pings. Qed.
Print Assumptions C20_client_closed_no_ping.

(* non-vacuity *)
Example C20_nonvacuous_alive :
  let c := mkTcfg 3 None in
  let evs := [Recv false 0; Tick; Recv true 0; Recv false 0; Tick; Recv false 1; Tick; TimerFired; Recv false 1;
              Recv true 0; Recv false 0; Tick; Tick; TimerFired; Recv false 0] in
  forallb plain_ev evs = true /\ gaps_ok 3 0 evs = true /\
  exists s, t_run c (t_init c) evs = Ok (s, []) /\ timer s = Some 6.
Proof. repeat split. eexists. vm_compute. split; reflexivity. Qed.

Example C20_nonvacuous_idle :
  let c := mkTcfg 2 None in
  exists s, t_run c (t_init c) [Recv false 0; Tick; Tick; TimerFired; Recv false 0] = Ok (s, [StopKeepAlive]).
Proof. eexists. vm_compute. reflexivity. Qed.

Example C20_nonvacuous_read_rate :
  let c := mkTcfg 0 (Some (mkRr 1 2 0)) in
  exists s, t_run c (t_init c) [Recv false 1; Tick; TimerFired; Recv false 1; Recv false 2; Tick; TimerFired;
                                Recv false 2] = Ok (s, [StopRead]).
Proof. eexists. vm_compute. reflexivity. Qed.

Example C20_nonvacuous_factor : ack_keepalive 60 = 90 /\ ack_keepalive 1 = 1 /\ ack_keepalive 65535 = 65535 /\
                                ack_keepalive 43691 = 65535 /\ ack_keepalive 43690 = 65535 /\ ack_keepalive 0 = 30.
Proof. vm_compute. repeat split; reflexivity. Qed.

Example C20_nonvacuous_ping : snd (k_run 3 (k_init 3) (repeat KTick 7)) = [false; false; true; false; false; true; false].
Proof. vm_compute. reflexivity. Qed.
