(* Props/C15sink.v -- property C15, the DISCONNECT written by the sink layer of a busy endpoint (MqttShared::pkt_ack /
   MqttSink::close, model Model/Sink.v).  Statements only.

   [ack_one s k id]: the dispatcher processes one acknowledgement (k = PUBACK / PUBREC / PUBCOMP / SUBACK / UNSUBACK,
   id = its packet identifier) in sink state [s].  [wire _] is what the step wrote, as (tag, second slot) pairs; for a
   DISCONNECT (tag W_DISCONNECT) the second slot is its reason code (MQTT 3.1.1: none, slot 0).
   RC_IMPL = 131 = 0x83 ImplementationSpecificError, RC_NORMAL = 0 = normal disconnection. *)
From MV Require Import Base.Prelude Model.Sink Proofs.SinkInv Proofs.SinkProofs.

(* whatever the acknowledgement -- matching, stale, of the wrong type, with nothing outstanding, with packet id 0 --
   the step writes nothing, or exactly one DISCONNECT whose reason on MQTT 5 is 0x83: an endpoint that ends the
   connection because of an acknowledgement error never claims normal disconnection *)
Theorem C15sink_ack_error_reason : forall (s : sink) (k id : N),
  wire (ack_one s k id) = wire s \/ wire (ack_one s k id) = wire s ++ disc_entry s RC_IMPL.
Proof. exact ack_one_disconnect_reason. Qed.
Print Assumptions C15sink_ack_error_reason.

(* close with a reason writes nothing or exactly one DISCONNECT carrying that reason (MQTT 3.1.1: slot 0) *)
Theorem C15sink_close_writes_at_most_one : forall (s : sink) (r : N),
  wire (do_close s r) = wire s \/ wire (do_close s r) = wire s ++ disc_entry s r.
Proof. exact do_close_wire. Qed.
Print Assumptions C15sink_close_writes_at_most_one.

Example C15sink_nonvacuous :
  (* v5 server sink, one QoS 1 publish outstanding (id 1), the peer acknowledges id 2: DISCONNECT 0x83 *)
  let s := run_from (sink_init 5 false 2) [OStart 1 1 0 0] in
  wire (ack_one (set_wire s []) 1 2) = [W_DISCONNECT; 131] /\ RC_IMPL = 131 /\ RC_NORMAL = 0.
Proof. vm_compute. repeat split; reflexivity. Qed.
