(* Props/C19.v -- property C19: handshake gate, version routing, negotiated limits. Statements only.
   Vocabulary: Model/Handshake.v (pure limit plumbing, first-packet outcomes) and Model/EnginesHs.v
   (the connection model that the correspondence check runs against the real servers, engine 38). *)
From MV Require Import Base.Prelude Base.Res Model.Sniff Model.Handshake Model.EnginesHs Proofs.HandshakeProofs.
From MV Require Model.CodecV3 Model.CodecV5.

(* ------------------------------------------------------------------ the gate *)
(* control, publish and protocol services are created and the dispatcher started only on OAccept
   (service.rs); the only way to OAccept is a CONNECT that the application accepted *)
Theorem C19_gate : forall (version : N) (it : first_item) (a : app_answer),
  dispatcher_runs (first_packet version it a) = true <-> it = FConnect /\ a = AppAccept.
Proof. exact gate. Qed.
Print Assumptions C19_gate.

(* connection model: as long as the application's handshake service has not answered, whatever the
   first bytes are and however they are cut, no publish/protocol handler has run and no byte has been
   written *)
Theorem C19_gate_before_answer : forall (f cuts first : list N),
  let s := feed_cuts f (cfg_of f) (init (nthN f 0)) 0 cuts first in
  h_handlers s = 0 /\ h_protos s = 0 /\ h_out s = [].
Proof. exact gate_before_answer. Qed.
Print Assumptions C19_gate_before_answer.

(* connection model: an application that refuses or fails (answer <> 0) never sees a handler call,
   whatever the peer sends before or after *)
Theorem C19_gate_never_when_not_accepting : forall (f cuts first : list N) (ops : list (list N)),
  nthN f 1 <> 0 ->
  let cfg := cfg_of f in
  let s1 := feed_cuts f cfg (init (nthN f 0)) 0 cuts first in
  let s3 := fst (run_ops f cfg (open_gate f cfg (set_out s1 [])) ops) in
  h_handlers s3 = 0 /\ h_protos s3 = 0.
Proof. exact gate_never_when_not_accepting. Qed.
Print Assumptions C19_gate_never_when_not_accepting.

(* a first packet other than CONNECT: the application is not asked, nothing is written, the server
   future fails with the unexpected-packet violation carrying the packet type *)
Theorem C19_non_connect_first_ends : forall (version : N) (it : first_item) (a : app_answer),
  it <> FConnect ->
  app_called it = false /\
  dispatcher_runs (first_packet version it a) = false /\
  connack_written (first_packet version it a) = None /\
  exists t, first_packet version it a = OError RK_VIOLATION t /\
            end_result (first_packet version it a) = Some (RK_VIOLATION, t) /\
            t = match it with FPacket p => p | _ => PUBLISH_START end.
Proof. exact non_connect_first_ends. Qed.
Print Assumptions C19_non_connect_first_ends.

Theorem C19_refused_gets_connack_then_close : forall (version code : N),
  let o := first_packet version FConnect (AppRefuse code) in
  o = ORefuse code /\ connack_written o = Some code /\ dispatcher_runs o = false /\
  end_result o = Some (RK_DISCONNECTED, 0).
Proof. exact refused_gets_connack_then_close. Qed.
Print Assumptions C19_refused_gets_connack_then_close.

(* connection model, v3: the bytes of the refusing CONNACK, then closed, no handler *)
Theorem C19_refused_v3_bytes : forall (f : list N) (cfg : svc_cfg) (s : hst) (c : CodecV3.connect)
                                      (st3 : CodecV3.dstate),
  nthN f 1 = 1 ->
  let s' := answer3 f cfg s c st3 in
  h_out s' = h_out s ++ [32; 2; 0; CodecV3.reason_to_n (code3 (nthN f 2))] /\
  h_closed s' = true /\ h_rk s' = RK_DISCONNECTED /\ h_handlers s' = h_handlers s /\ h_protos s' = h_protos s.
Proof. exact refused_v3_engine. Qed.
Print Assumptions C19_refused_v3_bytes.

(* an application error: no CONNACK at all *)
Theorem C19_service_error_no_connack : forall (version : N),
  let o := first_packet version FConnect AppError in
  connack_written o = None /\ dispatcher_runs o = false /\
  end_result o = Some (if version =? 3 then RK_SERVICE else RK_HS_SERVICE, 0).
Proof. exact service_error_no_connack. Qed.
Print Assumptions C19_service_error_no_connack.

(* ------------------------------------------------------------------ version routing *)
(* connection model of the combined server (src/server.rs), the handshake service not answering yet:
   for EVERY way of cutting the bytes into pieces
   - version not decidable from all the bytes: every byte is still in the read buffer, nothing else
     has happened;
   - sniffer error (not a CONNECT, unknown protocol name or level): the connection is ended with that
     decode error, no handshake service was called, nothing was written;
   - level 4 / 5: the connection is, from then on, in exactly the state of a plain v3 / v5 server whose
     first read returned the first k pieces at once and that then receives the remaining pieces: the
     version codec consumed nothing and no byte is lost or reordered. *)
Theorem C19_routing : forall (f : list N) (cfg : svc_cfg) (pieces : list bytes),
  match sniff (concat pieces) with
  | Ok None => feed_list f cfg (init 0) pieces = sniffing (concat pieces)
  | Ok (Some ver) =>
    (ver = 4 \/ ver = 5) /\
    exists k, feed_list f cfg (init 0) pieces =
              feed_list f cfg (init (kind_of ver)) (concat (firstn k pieces) :: skipn k pieces)
  | Err e =>
    let s := feed_list f cfg (init 0) pieces in
    h_closed s = true /\ h_rk s = 100 + e /\ h_hs s = 0 /\ h_handlers s = 0 /\ h_protos s = 0 /\ h_out s = []
  | Panic _ => False
  end.
Proof. exact routing. Qed.
Print Assumptions C19_routing.

(* the engine's cut positions are such a fragmentation of the first bytes *)
Theorem C19_cuts_are_pieces : forall (f : list N) (cfg : svc_cfg) (cuts : list N) (s : hst) (pos : N)
                                     (rest : bytes),
  feed_cuts f cfg s pos cuts rest = feed_list f cfg s (cut_pieces pos cuts rest) /\
  concat (cut_pieces pos cuts rest) = rest.
Proof. exact cuts_are_pieces_stmt. Qed.
Print Assumptions C19_cuts_are_pieces.

(* ------------------------------------------------------------------ keep-alive *)
(* "1.5 times the client's value" is computed on u16 in WHOLE seconds: floor(3 * ka / 2), i.e.
   ka + ka / 2, saturating at 65535; the client value 0 (keep-alive off) becomes 30 s, not "off" *)
Theorem C19_keepalive_factor : forall ka : N,
  keepalive_of ka = (if ka =? 0 then 30 else N.min 65535 (3 * ka / 2)) /\
  (0 < ka -> ka <= 43690 -> keepalive_of ka = ka + ka / 2) /\
  (43691 <= ka -> keepalive_of ka = 65535).
Proof. exact keepalive_factor_stmt. Qed.
Print Assumptions C19_keepalive_factor.

(* that value is what Handshake::ack puts into the ack, an override replaces it, and the ack's value
   is the dispatcher's idle timeout *)
Theorem C19_keepalive_in_force :
  (forall c sp, a3_keepalive (hs3_ack c sp) = keepalive_of (CodecV3.c_keep_alive c)) /\
  (forall sh c, a5_keepalive (hs5_ack sh c) = keepalive_of (CodecV5.c_keep_alive c)) /\
  (forall a t, a3_keepalive (ack3_idle_timeout a t) = t) /\
  (forall a t a', ack5_keep_alive a t = Ok a' -> a5_keepalive a' = t /\ t <> 0) /\
  (forall cfg c a, l_keepalive (negotiate_v3 cfg c a) = a3_keepalive a) /\
  (forall cfg c a, l_keepalive (fst (negotiate_v5 cfg c a)) = a5_keepalive a).
Proof. exact keepalive_in_force_stmt. Qed.
Print Assumptions C19_keepalive_in_force.

(* ------------------------------------------------------------------ send window *)
Theorem C19_cap_is_min : forall (cfg : svc_cfg),
  (forall (c : CodecV5.connect) (a : ack5),
     l_cap (fst (negotiate_v5 cfg c a)) =
       let configured := dflt (a5_max_send a) (cfg_max_send cfg) in
       match CodecV5.c_receive_max c with
       | Some peer => N.min configured peer
       | None => configured
       end) /\
  (forall (c : CodecV3.connect) (a : ack3),
     l_cap (negotiate_v3 cfg c a) = dflt (a3_max_send a) (cfg_max_send cfg)) /\
  (* HandshakeAck::max_send: None and Some(0) both mean "the configured value" *)
  (forall (a : ack5) v, a5_max_send (ack5_max_send a v) = match v with Some 0 => None | _ => v end) /\
  (forall (a : ack3) v, a3_max_send (ack3_max_send a v) = match v with Some 0 => None | _ => v end).
Proof. exact cap_is_min_stmt. Qed.
Print Assumptions C19_cap_is_min.

(* ------------------------------------------------------------------ the limits in force *)
(* v3: each limit as a function of configuration and ack; with the ack as Handshake::ack builds it,
   of the configuration and the CONNECT alone *)
Theorem C19_limits_are_negotiated_v3 : forall (cfg : svc_cfg) (c : CodecV3.connect),
  (forall a, negotiate_v3 cfg c a =
     mkLimits (a3_keepalive a) (dflt (a3_max_send a) (cfg_max_send cfg))
              (dflt (a3_max_packet_size a) (cfg_max_size cfg)) 0 0 (cfg_max_qos cfg) 0 (cfg_max_receive cfg)) /\
  (forall sp, negotiate_v3 cfg c (hs3_ack c sp) =
     mkLimits (keepalive_of (CodecV3.c_keep_alive c)) (cfg_max_send cfg) (cfg_max_size cfg) 0 0
              (cfg_max_qos cfg) 0 (cfg_max_receive cfg)).
Proof. exact limits_are_negotiated_v3_stmt. Qed.
Print Assumptions C19_limits_are_negotiated_v3.

(* v5: for EVERY ack (whatever the application changed through `with`), what is enforced is what the
   CONNACK announces; with the ack as Handshake::ack builds it the values are the configured ones
   (receive maximum 0 is announced and enforced as 65535), the send window is the min rule and the
   outbound size limit is the peer's Maximum Packet Size as set_max_outbound_size stores it *)
Theorem C19_limits_are_negotiated_v5 : forall (cfg : svc_cfg) (c : CodecV5.connect),
  (forall a, let '(lim, pkt) := negotiate_v5 cfg c a in
     l_max_qos lim = CodecV5.ca_max_qos pkt /\
     l_topic_alias_max lim = CodecV5.ca_topic_alias_max pkt /\
     l_receive_max lim = CodecV5.ca_receive_max pkt /\
     l_max_in lim = dflt (CodecV5.ca_max_packet_size pkt) 0 /\
     CodecV5.ca_reason_code pkt = CodecV5.ca_reason_code (a5_packet a)) /\
  fst (negotiate_v5 cfg c (hs5_ack (shared5_init cfg) c)) =
    mkLimits (keepalive_of (CodecV5.c_keep_alive c))
             (match CodecV5.c_receive_max c with
              | Some peer => N.min (cfg_max_send cfg) peer
              | None => cfg_max_send cfg
              end)
             (cfg_max_size cfg)
             (CodecV5.ec_max_out_size (outbound5 c)) (CodecV5.ec_max_out_frame (outbound5 c))
             (cfg_max_qos cfg) (cfg_max_topic_alias cfg)
             (if cfg_max_receive cfg =? 0 then 65535 else cfg_max_receive cfg) /\
  (CodecV5.ec_max_out_frame (outbound5 c), CodecV5.ec_max_out_size (outbound5 c)) =
    match CodecV5.c_max_packet_size c with
    | Some size => (size, if 5 <? size then size - 5 else size)
    | None => (0, 0)
    end.
Proof. exact limits_are_negotiated_v5_stmt. Qed.
Print Assumptions C19_limits_are_negotiated_v5.

(* ------------------------------------------------------------------ announced keep-alive (MQTT 5) *)
(* unless the application wrote the property itself: the idle timeout in force is announced exactly
   when it is BELOW the client's keep-alive (the client could not keep the connection alive
   otherwise); the default 1.5x value never needs announcing *)
Theorem C19_imposed_keepalive_announced : forall (cfg : svc_cfg) (c : CodecV5.connect),
  (forall a, CodecV5.ca_server_keepalive_sec (a5_packet a) = None ->
     CodecV5.ca_server_keepalive_sec (snd (negotiate_v5 cfg c a)) =
       if a5_keepalive a <? CodecV5.c_keep_alive c then Some (a5_keepalive a) else None) /\
  (forall a v, CodecV5.ca_server_keepalive_sec (a5_packet a) = Some v ->
     CodecV5.ca_server_keepalive_sec (snd (negotiate_v5 cfg c a)) = Some v) /\
  (CodecV5.c_keep_alive c <= 65535 -> CodecV5.c_keep_alive c <> 0 ->
     CodecV5.ca_server_keepalive_sec (snd (negotiate_v5 cfg c (hs5_ack (shared5_init cfg) c))) = None).
Proof. exact imposed_keepalive_announced_stmt. Qed.
Print Assumptions C19_imposed_keepalive_announced.

(* REFUTED as "every imposed value is announced": client keep-alive 4, application `.keep_alive(4)`:
   the idle timeout in force is 4 s (not 1.5 * 4 = 6) and the CONNACK carries no Server Keep Alive;
   client keep-alive 0 (off): 30 s are in force, unannounced *)
Theorem C19_imposed_keepalive_announced_refuted :
  (exists a', ack5_keep_alive (hs5_ack (shared5_init cfg_default) (connect5_ka 4)) 4 = Ok a' /\
     let '(lim, pkt) := negotiate_v5 cfg_default (connect5_ka 4) a' in
     l_keepalive lim = 4 /\ keepalive_of 4 = 6 /\ CodecV5.ca_server_keepalive_sec pkt = None) /\
  (let '(lim, pkt) := negotiate_v5 cfg_default (connect5_ka 0) (hs5_ack (shared5_init cfg_default) (connect5_ka 0)) in
   l_keepalive lim = 30 /\ CodecV5.ca_server_keepalive_sec pkt = None).
Proof. exact imposed_keepalive_announced_refuted. Qed.
Print Assumptions C19_imposed_keepalive_announced_refuted.

(* ------------------------------------------------------------------ client side *)
Theorem C19_client_apply_v5 : forall cfg c a lim,
  client_apply_v5 cfg c a = Some lim ->
  CodecV5.ca_reason_code a = 0 /\
  l_cap lim = CodecV5.ca_receive_max a /\
  l_keepalive lim = dflt (CodecV5.ca_server_keepalive_sec a) (CodecV5.c_keep_alive c) /\
  l_max_in lim = dflt (CodecV5.c_max_packet_size c) 0 /\
  l_max_out_frame lim = dflt (CodecV5.ca_max_packet_size a) 0 /\
  l_receive_max lim = dflt (CodecV5.c_receive_max c) 65535 /\
  l_topic_alias_max lim = 16.
Proof. exact client_apply_v5_spec. Qed.
Print Assumptions C19_client_apply_v5.

(* REFUTED on the client side: the v5 client's send window is the server's Receive Maximum alone
   (configured max_send = 16 ignored: window 100), and the topic-alias maximum it enforces is the
   constant 16 although it announced 0 in CONNECT *)
Theorem C19_client_limits_refuted :
  let c := CodecV5.mkConnect true 60 0 None None true false None 0 [] None None [99] None None in
  let a := set_limits5 connack_default 2 0 100 None in
  exists lim, client_apply_v5 cfg_default c a = Some lim /\
    l_cap lim = 100 /\ cfg_max_send cfg_default = 16 /\
    l_topic_alias_max lim = 16 /\ CodecV5.c_topic_alias_max c = 0.
Proof. exact client_limits_refuted. Qed.
Print Assumptions C19_client_limits_refuted.

(* ------------------------------------------------------------------ non-vacuity *)
Definition V3_CONNECT : bytes := [16; 13; 0; 4; 77; 81; 84; 84; 4; 2; 0; 60; 0; 1; 99].
Definition V5_CONNECT : bytes := [16; 14; 0; 4; 77; 81; 84; 84; 5; 2; 0; 60; 0; 0; 1; 99].

(* combined server, v5 CONNECT cut after 3 and 7 bytes, accepted: CONNACK with the configured limits,
   window 16; then a QoS 2 PUBLISH against maximum QoS 1: DISCONNECT 0x9B, closed *)
Example C19_nonvacuous_accept :
  run_hs [[0; 0; 0; 16; 1; 16; 32; 0]; [3; 7]; V5_CONNECT; [1]; [2; 52; 6; 0; 1; 116; 0; 1; 0]] =
    [[5; 0; 0; 0; 0; 0]; [5; 60; 1; 1; 99; 0; 0; 0; 14; 0; 0; 0; 0];
     [999; 32; 11; 0; 0; 8; 33; 0; 16; 36; 1; 34; 0; 32]; [0; 0; 0; 0; 0]; [16];
     [224; 2; 155; 0; 999; 0; 0; 1; 1; 0]].
Proof. vm_compute. reflexivity. Qed.

(* refused: CONNACK 5, closed, a PINGREQ sent along is never handled *)
Example C19_nonvacuous_refuse :
  run_hs [[0; 1; 5; 16; 1; 16; 32; 0]; []; V3_CONNECT ++ [192; 0]; [2; 192; 0]] =
    [[3; 0; 0; 0; 0; 0]; [3; 60; 1; 1; 99; 0; 0; 0; 13]; [999; 32; 2; 0; 5]; [0; 0; 1; 5; 0];
     [999; 0; 0; 1; 5; 0]].
Proof. vm_compute. reflexivity. Qed.

(* PINGREQ first: the combined server ends the connection on the version sniffer's error *)
Example C19_nonvacuous_non_connect :
  run_hs [[0; 0; 0; 16; 1; 16; 32; 0]; [1]; [192; 0]] =
    [[0; 0; 0; 1; 108; 0]; []; [999]; [0; 0; 1; 108; 0]].
Proof. vm_compute. reflexivity. Qed.

(* the routing theorem is not vacuous: level 4 and level 5 both occur *)
Example C19_nonvacuous_routing :
  sniff V3_CONNECT = Ok (Some 4) /\ sniff V5_CONNECT = Ok (Some 5) /\
  sniff (firstn 8 V3_CONNECT) = Ok None /\ sniff [192; 0] = Err DE_UnsupportedPacketType.
Proof. vm_compute. repeat split. Qed.
