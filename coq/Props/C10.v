(* Props/C10.v -- property C10: decoding is independent of fragmentation; payload pieces add up, one final piece, min-chunk respected.
   Statements only: each theorem is closed by `exact <lemma>`; the statement text is the lemma's type as
   printed by Coq (assembled by tools/mkprops.py from tools/props_spec/C10.json). *)
From MV Require Import Base.Prelude.
From MV Require Import Base.Res.
From MV Require Import Base.VarInt.
From MV Require Import Base.Utf8.
From MV Require Import Model.CodecV3.
From MV Require Import Spec.SpecV3.
From MV Require Import Proofs.CodecV3Lib.
From MV Require Import Proofs.CodecV3Enc.
From MV Require Import Proofs.CodecV3Dec.
From MV Require Import Proofs.CodecV3RT.
From MV Require Import Proofs.CodecV3Mal.
From MV Require Import Proofs.CodecV3Stable.
From MV Require Import Proofs.CodecV3Layout.
From MV Require Import Proofs.CodecV3Frag.
From MV Require Import Proofs.CodecV3Sem.
From MV Require Import Proofs.CodecV3FragInd.
From MV Require Import Model.CodecV5.
From MV Require Import Model.Sniff.
From MV Require Import Spec.SpecV5.
From MV Require Import Proofs.CodecV5Fields.
From MV Require Import Proofs.CodecV5Size.
From MV Require Import Proofs.CodecV5Limit.
From MV Require Import Proofs.CodecV5Props.
From MV Require Import Proofs.CodecV5Round.
From MV Require Import Proofs.CodecV5DecBase.
From MV Require Import Proofs.CodecV5Stream.
From MV Require Import Proofs.CodecV5Round2.
From MV Require Import Proofs.CodecV5RT.
From MV Require Import Proofs.CodecV5Order.
From MV Require Import Proofs.CodecV5Layout.
From MV Require Import Proofs.CodecV5Succ.
From MV Require Import Proofs.CodecV5Total.
From MV Require Import Proofs.SniffProofs.
From MV Require Import Proofs.CodecV5Frag.

(* the fuel of [feed] always suffices (it is not a bound on the input) *)
Theorem C10_v3_feed_fuel_suffices :
  forall (ms mc : N) (st : CodecV3.dstate) (buf chunk : bytes),
         snd (CodecV3Frag.feed ms mc st buf chunk) <> OutOfFuel /\
         (forall fuel : nat,
          (feed_fuel (buf ++ chunk) <= fuel)%nat ->
          run ms mc fuel st (buf ++ chunk) = CodecV3Frag.feed ms mc st buf chunk).
Proof. exact CodecV3Frag.v3_feed_fuel_suffices. Qed.
Print Assumptions C10_v3_feed_fuel_suffices.

Theorem C10_v3_feed_never_panics :
  forall (ms mc : N) (st : CodecV3.dstate) (buf chunk : bytes) (s : N),
         snd (CodecV3Frag.feed ms mc st buf chunk) <> CodecV3Frag.Crashed s.
Proof. exact CodecV3Frag.v3_feed_never_panics. Qed.
Print Assumptions C10_v3_feed_never_panics.

(* each PUBLISH is announced with its declared size and the pieces add up to exactly that size *)
Theorem C10_v3_pieces_sum :
  forall (ms mc : N) (st : CodecV3.dstate) (buf : bytes) (it : CodecV3.item) 
           (st' : CodecV3.dstate) (buf' : bytes),
         dstate_ok st = true ->
         CodecV3.decode_step ms mc st buf = (Ok (Some it), st', buf') ->
         match it with
         | IPacket _ _ => owed_of st = 0 /\ owed_of st' = 0
         | IPublish p pl _ => owed_of st = 0 /\ len pl + owed_of st' = CodecV3.p_payload_size p
         | IChunk pl _ => 0 < owed_of st /\ len pl + owed_of st' = owed_of st
         end.
Proof. exact CodecV3Frag.v3_pieces_sum. Qed.
Print Assumptions C10_v3_pieces_sum.

(* exactly the last piece is marked final *)
Theorem C10_v3_one_final :
  forall (ms mc : N) (st : CodecV3.dstate) (buf pl : bytes) (eof : bool) (st' : CodecV3.dstate)
           (buf' : bytes),
         dstate_ok st = true ->
         CodecV3.decode_step ms mc st buf = (Ok (Some (IChunk pl eof)), st', buf') ->
         eof = (owed_of st' =? 0) /\ (eof = true <-> st' = CodecV3.FrameHeader).
Proof. exact CodecV3Frag.v3_one_final. Qed.
Print Assumptions C10_v3_one_final.

(* no non-final piece is smaller than min_chunk_size *)
Theorem C10_v3_min_chunk_respected :
  forall (ms mc : N) (st : CodecV3.dstate) (buf pl : bytes) (st' : CodecV3.dstate) (buf' : bytes),
         dstate_ok st = true ->
         CodecV3.decode_step ms mc st buf = (Ok (Some (IChunk pl false)), st', buf') -> mc <> 0 /\ mc <= len pl.
Proof. exact CodecV3Frag.v3_min_chunk_respected. Qed.
Print Assumptions C10_v3_min_chunk_respected.

Theorem C10_v3_pieces_invariant :
  forall (ms mc : N) (chunks : list bytes) (st : CodecV3.dstate) (buf : bytes) 
           (its : list CodecV3.item) (st' : CodecV3.dstate) (buf' : bytes) (o : outcome),
         dstate_ok st = true ->
         feeds ms mc st buf chunks = (its, st', buf', o) ->
         track mc (owed_of st) its = Some (owed_of st') /\ dstate_ok st' = true.
Proof. exact CodecV3Frag.v3_pieces_invariant. Qed.
Print Assumptions C10_v3_pieces_invariant.

(* for every cut of the stream into reads and every (even different) min_chunk setting the packets and the payload bytes delivered-or-buffered are the same as for the whole stream *)
Theorem C10_v3_frag_independent :
  forall (ms mc mc' : N) (chunks : list (list N)) (st : CodecV3.dstate) (buf : list N),
         chunks <> [] ->
         dstate_ok st = true ->
         len (buf ++ concat chunks) <= U32MAX ->
         let chunked := feeds ms mc st buf chunks in
         let at_once := CodecV3Frag.feed ms mc' st buf (concat chunks) in
         closure chunked = closure at_once /\
         outcome_of chunked = outcome_of at_once /\
         (outcome_of chunked = NeedMore -> rest_of chunked = rest_of at_once).
Proof. exact CodecV3FragInd.v3_frag_independent. Qed.
Print Assumptions C10_v3_frag_independent.

Theorem C10_v3_frag_independent_normalised :
  forall (ms mc mc' : N) (chunks : list (list N)) (st : CodecV3.dstate) (buf : list N),
         chunks <> [] ->
         dstate_ok st = true ->
         len (buf ++ concat chunks) <= U32MAX ->
         let chunked := feeds ms mc st buf chunks in
         let at_once := CodecV3Frag.feed ms mc' st buf (concat chunks) in
         outcome_of at_once = NeedMore ->
         owed_of (snd (fst (fst at_once))) = 0 -> normalise (items chunked) = normalise (items at_once).
Proof. exact CodecV3FragInd.v3_frag_independent_normalised. Qed.
Print Assumptions C10_v3_frag_independent_normalised.

(* the naive statement (pieces delivered so far are equal) is false at min_chunk = 0: the payload state holds follow-up chunks back *)
Theorem C10_v3_frag_independent_refuted :
  let chunks := [[48; 13; 0; 1; 116; 1; 2]; [3; 4; 5]] in
         normalise (items (feeds 0 0 CodecV3.FrameHeader [] chunks)) =
         [NPublish
            {|
              CodecV3.p_dup := false;
              CodecV3.p_retain := false;
              CodecV3.p_qos := AtMostOnce;
              CodecV3.p_topic := [116];
              CodecV3.p_packet_id := None;
              CodecV3.p_payload_size := 10
            |} [1; 2] 13] /\
         normalise (items (CodecV3Frag.feed 0 0 CodecV3.FrameHeader [] (concat chunks))) =
         [NPublish
            {|
              CodecV3.p_dup := false;
              CodecV3.p_retain := false;
              CodecV3.p_qos := AtMostOnce;
              CodecV3.p_topic := [116];
              CodecV3.p_packet_id := None;
              CodecV3.p_payload_size := 10
            |} [1; 2; 3; 4; 5] 13].
Proof. exact CodecV3FragInd.v3_frag_independent_refuted. Qed.
Print Assumptions C10_v3_frag_independent_refuted.

(* v5: fragmentation independence for streams of non-PUBLISH packets (the PUBLISH part is covered by the correspondence run) *)
Theorem C10_v5_frag_independent :
  forall (mi mc : N) (npi : bool) (chunks : list bytes),
         feed true mi mc npi FrameHeader [] chunks = feed true mi mc npi FrameHeader [] [concat chunks].
Proof. exact CodecV5Stream.v5_frag_independent. Qed.
Print Assumptions C10_v5_frag_independent.

(* the version sniffer is monotone in the prefix *)
Theorem C10_sniff_prefix_stable :
  forall (b : bytes) (more : list N),
         (forall v : N, sniff b = Ok (Some v) -> sniff (b ++ more) = Ok (Some v)) /\
         (forall e : N, sniff b = Err e -> sniff (b ++ more) = Err e) /\
         (sniff b = Ok None -> (length b < 12)%nat).
Proof. exact SniffProofs.sniff_prefix_stable. Qed.
Print Assumptions C10_sniff_prefix_stable.

(* v5: for every cut of the stream into reads the packets, with the payload pieces of each PUBLISH glued together (and the buffered rest counted), are the same as for the whole stream -- streams WITH publishes *)
Theorem C10_v5_frag_independent_publish :
  forall (mi mc : N) (npi : bool) (chunks : list bytes),
         observe (feed false mi mc npi FrameHeader [] chunks) =
         observe (feed false mi mc npi FrameHeader [] [concat chunks]).
Proof. exact CodecV5Frag.v5_frag_independent_publish. Qed.
Print Assumptions C10_v5_frag_independent_publish.

Theorem C10_v5_frag_independent_publish_from :
  forall (mi mc : N) (npi : bool) (st : dstate) (buf c : bytes) (cs : list bytes),
         dstate_wf st = true ->
         observe (feed false mi mc npi st buf (c :: cs)) =
         observe (feed false mi mc npi st buf [concat (c :: cs)]).
Proof. exact CodecV5Frag.v5_frag_independent_publish_from. Qed.
Print Assumptions C10_v5_frag_independent_publish_from.

(* raw items (unglued pieces) do depend on the fragmentation, by design *)
Theorem C10_v5_frag_independent_publish_raw_refuted :
  exists (mi mc : N) (npi : bool) (chunks : list bytes),
           feed false mi mc npi FrameHeader [] chunks <> feed false mi mc npi FrameHeader [] [concat chunks].
Proof. exact CodecV5Frag.v5_frag_independent_publish_raw_refuted. Qed.
Print Assumptions C10_v5_frag_independent_publish_raw_refuted.

