(* Props/C12.v -- property C12 (v3 part): the inbound in-flight limiter inflight::InFlightServiceImpl as
   driven by io.rs.  Statements only; the model is Model/Limiter.v.

   Vocabulary.  [run mc ms ops]: the limiter InFlightServiceImpl::new(mc, ms, ..) after the operations
   [ops] (Ready = the dispatcher polls readiness, Call = a frame is handed over and its call future
   polled at once, Submit = handed over to a spawned task, Start = first poll of that task,
   Complete k = the k-th running handler finishes).
   [legal mc ms ops]: what the repaired io.rs (commit d435312) guarantees -- a frame is handed over only
   right after a poll that answered Ready, one frame per answer, and readiness is polled again only
   when every spawned call has had its first poll.  [reading_rule] is the same without the last
   clause (the tree before d435312).
   [wf_stream ops]: what the v3 codec and `SizedRequest for Decoded` guarantee -- after a streamed
   PUBLISH (KPubStream) come its payload chunks and nothing else up to the final one, chunks occur
   only there and have size() = 0.
   Every reachable state is the state after a legal sequence ([C12_legal_prefix_closed]), so
   "for all ops, legal ops -> run ops = Ok s -> P s" is "P holds in every reachable state". *)
From MV Require Import Base.Prelude Base.Res Model.Limiter Proofs.LimiterProofs.

Theorem C12_legal_prefix_closed : forall (mc ms : N) (a b : list op) (s1 : lim),
  legal mc ms (a ++ b) = true -> run mc ms a = Ok s1 -> legal mc ms a = true.
Proof. exact legal_prefix. Qed.
Print Assumptions C12_legal_prefix_closed.

(* legal runs stay inside the modelled domain: no first poll of a call ever meets a pending readiness check *)
Theorem C12_in_domain : forall (mc ms : N) (ops : list op) (e : N),
  legal mc ms ops = true -> run mc ms ops <> Err e.
Proof. exact in_domain. Qed.
Print Assumptions C12_in_domain.

(* max_cap <> 0: at every reachable state at most max_cap running calls are not payload chunks, hence at
   most max_cap publish handlers execute at once; payload chunks of the streamed publish bypass the
   limit and are the only excess of the counter: cur_cap = (non-chunk calls) + (chunk calls). *)
Theorem C12_overlap_bounded : forall (mc ms : N) (ops : list op) (s : lim),
  mc <> 0 -> legal mc ms ops = true -> wf_stream ops = true -> run mc ms ops = Ok s ->
  count_kind nonchunk (running s) <= mc /\ count_kind publish_kind (running s) <= mc /\
  cur_cap s = count_kind nonchunk (running s) + count_kind chunk_kind (running s).
Proof. exact overlap_bounded. Qed.
Print Assumptions C12_overlap_bounded.

(* a packet that is not a payload chunk is handed over (polled at once or spawned) only when the
   counter is available: fewer than max_cap calls running and at most max_size bytes in flight *)
Theorem C12_admission : forall (mc ms : N) (pre : list op) (o : op) (k : kind) (size : N) (s0 : lim),
  frame_of o = Some (k, size) ->
  legal mc ms (pre ++ [o]) = true -> wf_stream (pre ++ [o]) = true ->
  chunk_kind k = false -> run mc ms pre = Ok s0 ->
  (mc <> 0 -> cur_cap s0 < mc) /\ (ms <> 0 -> cur_size s0 <= ms).
Proof. exact admission. Qed.
Print Assumptions C12_admission.

(* max_size <> 0: hence the bytes in flight never exceed max_size by more than the last packet *)
Theorem C12_bytes_bounded : forall (mc ms : N) (ops : list op) (s : lim),
  ms <> 0 -> legal mc ms ops = true -> wf_stream ops = true -> run mc ms ops = Ok s ->
  cur_size s <= ms + last_size ops.
Proof. exact bytes_bounded. Qed.
Print Assumptions C12_bytes_bounded.

(* while a payload is streamed (flag set) the next poll answers Ready whatever the counters say; a
   non-final chunk keeps the flag, the final chunk clears it *)
Theorem C12_chunks_bypass : forall (mc ms : N) (ops : list op) (s : lim),
  legal mc ms ops = true -> run mc ms ops = Ok s -> publish_flag s = true ->
  may_call (step_ready s) = true /\
  (forall size s', step s (Call KChunk size) = Ok s' -> publish_flag s' = true) /\
  (forall size s', step s (Call KChunkFinal size) = Ok s' -> publish_flag s' = false).
Proof. exact chunks_bypass. Qed.
Print Assumptions C12_chunks_bypass.

Theorem C12_flag_after_call : forall (s : lim) (k : kind) (size : N) (s' : lim),
  step s (Call k size) = Ok s' -> publish_flag s' = is_publish k || (publish_flag s && is_chunk k).
Proof. exact flag_after_call. Qed.
Print Assumptions C12_flag_after_call.

(* never wedges: in every reachable state in which the dispatcher is paused (its last poll answered
   Pending) and the counter is available again, the dispatcher's waker has been woken *)
Theorem C12_no_lost_wake : forall (mc ms : N) (ops : list op) (s : lim),
  legal mc ms ops = true -> run mc ms ops = Ok s ->
  paused s = true -> is_available s = true -> woken s = true.
Proof. exact no_lost_wake. Qed.
Print Assumptions C12_no_lost_wake.

(* the same over histories: a poll answered Pending, then handlers finish in any order *)
Theorem C12_no_lost_wake_seq : forall (mc ms : N) (pre : list op) (cs : list nat) (s0 s : lim),
  legal mc ms (pre ++ Ready :: map Complete cs) = true ->
  run mc ms pre = Ok s0 -> may_call (step_ready s0) = false ->
  run mc ms (pre ++ Ready :: map Complete cs) = Ok s ->
  is_available s = true -> woken s = true.
Proof. exact no_lost_wake_seq. Qed.
Print Assumptions C12_no_lost_wake_seq.

(* and the woken dispatcher's poll answers Ready in any state whose counter is available: reading resumes *)
Theorem C12_resume : forall (s : lim), is_available s = true -> may_call (step_ready s) = true.
Proof. exact resume. Qed.
Print Assumptions C12_resume.

(* when all handlers have finished the next poll answers Ready (after any operation sequence at all) *)
Theorem C12_progress : forall (mc ms : N) (ops : list op) (s : lim),
  run mc ms ops = Ok s -> running s = [] -> may_call (step_ready s) = true.
Proof. exact progress. Qed.
Print Assumptions C12_progress.

(* no operation sequence at all (legal or not) of at most 65535 operations with u32 sizes panics:
   `num - 1` and `cur_size - size` in dec never underflow; the u16 counter can overflow only with
   65536 calls running at once *)
Theorem C12_no_panic : forall (mc ms : N) (ops : list op) (site : N),
  N.of_nat (length ops) <= U16MAX -> forallb op_size_ok ops = true -> run mc ms ops <> Panic site.
Proof. exact no_panic. Qed.
Print Assumptions C12_no_panic.

(* Why the last clause of [legal] matters (finding, fixed by /repo commit d435312): under the bare
   reading rule -- all that io.rs guaranteed before -- spawned calls are counted only at their first
   poll, so frames that arrive together are all admitted: 3 publish handlers with max_cap = 2,
   24 bytes in flight with max_size = 10 and packets of 8. *)
Theorem C12_overlap_refuted_deferred_pre_fix :
  reading_rule 2 0 (deferred_ops 5) = true /\ wf_stream (deferred_ops 5) = true /\
  legal 2 0 (deferred_ops 5) = false /\
  exists s, run 2 0 (deferred_ops 5) = Ok s /\ count_kind publish_kind (running s) = 3 /\ cur_cap s = 3.
Proof. exact overlap_refuted_deferred. Qed.
Print Assumptions C12_overlap_refuted_deferred_pre_fix.

Theorem C12_bytes_refuted_deferred_pre_fix :
  reading_rule 0 10 (deferred_ops 8) = true /\ wf_stream (deferred_ops 8) = true /\
  legal 0 10 (deferred_ops 8) = false /\
  exists s, run 0 10 (deferred_ops 8) = Ok s /\ cur_size s = 24 /\ last_size (deferred_ops 8) = 8.
Proof. exact bytes_refuted_deferred. Qed.
Print Assumptions C12_bytes_refuted_deferred_pre_fix.

(* non-vacuity: a legal run in codec order with max_cap = 1 in which a payload is streamed past the
   limit (chunks admitted while one publish runs), the dispatcher is then paused, is woken by the
   completion that frees the slot, and its next poll answers Ready; a spawned call is part of it *)
Example C12_nonvacuous :
  let ops := [Ready; Call KPubStream 7; Ready; Call KChunk 0; Ready; Submit KChunkFinal 0; Start 0;
              Ready; Complete 1; Complete 1; Complete 0] in
  legal 1 10 ops = true /\ wf_stream ops = true /\
  exists s, run 1 10 ops = Ok s /\ paused s = true /\ is_available s = true /\ woken s = true /\
            may_call (step_ready s) = true.
Proof. split; [vm_compute; reflexivity|]. split; [vm_compute; reflexivity|]. eexists. vm_compute. repeat split. Qed.
