(* Props/C12.v -- in progress *)
From MV Require Import Base.Prelude Base.Res Model.Limiter Proofs.LimiterProofs.
