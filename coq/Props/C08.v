(* Props/C08.v -- property C08: everything written to the wire is a sequence of complete well-formed packets. Every byte an endpoint writes goes through the codec's encodev; for ANY sequence of encoder operations (succeeding or failing; packets, publishes with full / partial / no inline payload, payload chunks) issued under the sink's guard (no new PUBLISH while a payload is owed) the bytes written are complete frames followed by at most one open frame missing exactly the payload bytes still owed; a failed operation leaves nothing; no packet enters a streamed payload.
   Statements only: each theorem is closed by `exact <lemma>`; the statement text is the lemma's type as
   printed by Coq (assembled by tools/mkprops.py from tools/props_spec/C08.json). *)
From MV Require Import Base.Prelude.
From MV Require Import Base.Res.
From MV Require Import Base.VarInt.
From MV Require Import Base.Utf8.
From MV Require Import Model.CodecV3.
From MV Require Import Proofs.CodecV3Lib.
From MV Require Import Proofs.CodecV3Enc.
From MV Require Import Model.CodecV5.
From MV Require Import Proofs.CodecV5Fields.
From MV Require Import Proofs.CodecV5Size.
From MV Require Import Proofs.Wire.
From MV Require Import Proofs.WireV3.
From MV Require Import Proofs.WireV5.

(* the generic statement: any encoder satisfying the four step laws keeps the wire well-formed under every guarded operation sequence *)
Theorem C08_run_wire :
  forall (S I : Type) (step : S -> I -> S * bytes * bool) (owed : S -> N) (kind : I -> ikind)
           (valid : I -> bool) (inv : S -> Prop),
         (forall (s : S) (i : I), valid i = true -> inv s -> inv (fst (fst (step s i)))) ->
         (forall (s : S) (i : I) (s' : S) (w : bytes),
          valid i = true -> inv s -> step s i = (s', w, false) -> w = [] /\ owed s' = owed s) ->
         (forall (s : S) (i : I) (s' : S) (w : bytes),
          valid i = true ->
          inv s -> kind i = KPacket -> step s i = (s', w, true) -> owed s = 0 /\ owed s' = 0 /\ complete w) ->
         (forall (s : S) (i : I) (s' : S) (w : bytes),
          valid i = true -> inv s -> kind i = KPublish -> step s i = (s', w, true) -> open_frame w (owed s')) ->
         (forall (s : S) (i : I) (s' : S) (w : bytes),
          valid i = true ->
          inv s -> kind i = KChunk -> step s i = (s', w, true) -> len w <= owed s /\ owed s' = owed s - len w) ->
         forall (ops : list I) (s : S) (bs : bytes),
         inv s ->
         well_formed_wire bs (owed s) ->
         guard S I step owed kind valid s ops = true ->
         well_formed_wire (snd (run S I step s bs ops)) (owed (fst (run S I step s bs ops))).
Proof. exact Wire.run_wire. Qed.
Print Assumptions C08_run_wire.

(* v3 codec: the four laws are theorems of the codec model, hence every guarded operation sequence keeps the wire well-formed *)
Theorem C08_v3_wire_is_frames :
  forall (max_size : N) (ops : list CodecV3.encoded),
         guard (option N) CodecV3.encoded (step3 max_size) owed kind3 valid3 None ops = true ->
         well_formed_wire (snd (run (option N) CodecV3.encoded (step3 max_size) None [] ops))
           (owed (fst (run (option N) CodecV3.encoded (step3 max_size) None [] ops))).
Proof. exact WireV3.v3_wire_is_frames. Qed.
Print Assumptions C08_v3_wire_is_frames.

(* v3: whenever no payload is owed the bytes written are exactly a concatenation of complete packets *)
Theorem C08_v3_wire_complete_packets :
  forall (max_size : N) (ops : list CodecV3.encoded),
         guard (option N) CodecV3.encoded (step3 max_size) owed kind3 valid3 None ops = true ->
         fst (run (option N) CodecV3.encoded (step3 max_size) None [] ops) = None ->
         exists fs : list (list N),
           snd (run (option N) CodecV3.encoded (step3 max_size) None [] ops) = concat fs /\ Forall complete fs.
Proof. exact WireV3.v3_wire_complete_packets. Qed.
Print Assumptions C08_v3_wire_complete_packets.

(* a send that returns an error leaves no bytes behind *)
Theorem C08_v3_wire_failed_leaves_nothing :
  forall (max_size : N) (ep : option N) (it : CodecV3.encoded) (ep' : option N) (w : bytes),
         valid3 it = true ->
         owed ep <= U32MAX -> step3 max_size ep it = (ep', w, false) -> w = [] /\ owed ep' = owed ep.
Proof. exact WireV3.v3_wire_failed_leaves_nothing. Qed.
Print Assumptions C08_v3_wire_failed_leaves_nothing.

(* no other packet is interleaved inside a streamed PUBLISH payload; a chunk beyond the declared size is refused; a chunk within it appends exactly its bytes *)
Theorem C08_v3_no_interleave :
  forall (max_size n : N) (dst : bytes),
         (forall p : CodecV3.packet,
          CodecV3.encodev max_size (Some n) (CodecV3.EPacket p) dst = (dst, Some n, Err EE_ExpectPayload)) /\
         (forall chunk : bytes,
          len chunk <= U32MAX ->
          n < len chunk ->
          CodecV3.encodev max_size (Some n) (EChunk chunk) dst = (dst, Some n, Err EE_OverPublishSize)) /\
         (forall chunk : bytes,
          n <= U32MAX ->
          len chunk <= n ->
          CodecV3.encodev max_size (Some n) (EChunk chunk) dst =
          (dst ++ chunk, if n - len chunk =? 0 then None else Some (n - len chunk), Ok tt)).
Proof. exact CodecV3Enc.v3_no_interleave. Qed.
Print Assumptions C08_v3_no_interleave.

(* why the guard is needed: the codec itself does not refuse a second PUBLISH while a payload is owed (MqttShared::check_streaming does) *)
Theorem C08_v3_publish_not_refused_while_payload_expected :
  exists p : CodecV3.publish,
           CodecV3.encodev 0 (Some 5) (CodecV3.EPublish p None) [] = ([48; 4; 0; 1; 97], Some 1, Ok tt) /\
           publish_ok p = true.
Proof. exact CodecV3Enc.v3_publish_not_refused_while_payload_expected. Qed.
Print Assumptions C08_v3_publish_not_refused_while_payload_expected.

(* v5 codec *)
Theorem C08_v5_wire_is_frames :
  forall (c : ecodec) (ops : list encoded),
         ec_encoding_payload c = None ->
         guard ecodec encoded step5 owed5 kind5 valid5 c ops = true ->
         well_formed_wire (snd (run ecodec encoded step5 c [] ops))
           (owed5 (fst (run ecodec encoded step5 c [] ops))).
Proof. exact WireV5.v5_wire_is_frames. Qed.
Print Assumptions C08_v5_wire_is_frames.

Theorem C08_v5_wire_complete_packets :
  forall (c : ecodec) (ops : list encoded),
         ec_encoding_payload c = None ->
         guard ecodec encoded step5 owed5 kind5 valid5 c ops = true ->
         ec_encoding_payload (fst (run ecodec encoded step5 c [] ops)) = None ->
         exists fs : list (list N), snd (run ecodec encoded step5 c [] ops) = concat fs /\ Forall complete fs.
Proof. exact WireV5.v5_wire_complete_packets. Qed.
Print Assumptions C08_v5_wire_complete_packets.

Theorem C08_v5_wire_failed_leaves_nothing :
  forall (c : ecodec) (it : encoded) (c' : ecodec) (w : bytes),
         valid5 it = true -> step5 c it = (c', w, false) -> w = [] /\ owed5 c' = owed5 c.
Proof. exact WireV5.v5_wire_failed_leaves_nothing. Qed.
Print Assumptions C08_v5_wire_failed_leaves_nothing.

(* non-vacuity: a guarded v3 sequence with a streamed publish, a refused packet in the middle and a final packet *)
Example C08_nonvacuous :
  let p := CodecV3.mkPublish false false CodecV3.AtMostOnce [116] None 3 in
  let ops := [CodecV3.EPublish p (Some [1]); CodecV3.EPacket CodecV3.PPingRequest; CodecV3.EChunk [2; 3];
              CodecV3.EPacket CodecV3.PPingRequest] in
  guard (option N) CodecV3.encoded (step3 0) owed kind3 valid3 None ops = true /\
  snd (run (option N) CodecV3.encoded (step3 0) None [] ops) = [48; 6; 0; 1; 116; 1; 2; 3; 192; 0] /\
  fst (run (option N) CodecV3.encoded (step3 0) None [] ops) = None.
Proof. vm_compute. repeat split; reflexivity. Qed.

