(* Props/C12burst.v -- property C12 on whole servers when several frames arrive in one read.  Statements only; the
   model is Model/InboundBurst.v (engines inb3b / inb5b: Model/Inbound.v plus the operation `4 :: f` = the packet of
   operation f is written and nothing runs before the next operation), proofs in Proofs/InboundBurstProofs.v.
   What these say: the burst engines ARE the server model of Model/Inbound.v (to which the theorems of
   Props/C03, C11, C12v5, C15, C16, C17 apply) whenever no write is held, and a held write runs nothing.  That the
   limits hold for bursts is decided by the correspondence on these engines plus scans P19 / P20 / P13. *)
From MV Require Import Base.Prelude Model.RespQueue Model.Inbound Model.InboundBurst Proofs.InboundBurstProofs.

Theorem C12burst_same_model_without_held_writes : forall (is5 : bool) (cf : list N) (ops : list (list N)),
  forallb not_held ops = true -> run_inb_b is5 (cf :: ops) = run_inb is5 (cf :: ops).
Proof. exact run_inb_b_no_hold. Qed.
Print Assumptions C12burst_same_model_without_held_writes.

Theorem C12burst_held_write_runs_nothing : forall (f : list N) (s : st),
  is_hold f = true -> settle_op f s = step_op (tl f) s.
Proof. exact held_write_runs_nothing. Qed.
Print Assumptions C12burst_held_write_runs_nothing.

(* non-vacuity: v3 server, max_receive 2, three QoS 0 publishes in one read: two handlers start, the third starts
   when the first is let through *)
Example C12burst_nonvacuous :
  run_inb3b [[2; 0; 0; 2; 0]; [4; 1; 1; 0; 0; 1; 0; 0; 0]; [4; 1; 1; 0; 0; 2; 0; 0; 0]; [1; 1; 0; 0; 1; 0; 0; 0]; [2; 1; 0]]
  = [[254; 253; 252; 0; 0; 1]; [254; 253; 252; 0; 0; 1];
     [254; 1; 0; 0; 1; 0; 0; 2; 0; 0; 2; 0; 0; 253; 252; 0; 0; 1];
     [254; 3; 0; 0; 1; 0; 0; 253; 252; 0; 0; 1]].
Proof. vm_compute. reflexivity. Qed.
