(* Props/C13ctl.v -- property C13, the control-service clause: the sink's back-pressure flag is driven by the
   dispatcher's notifications in the order in which they are ISSUED, never by the order in which the application's
   control service gets round to them.  Statements only; the model is Model/CtlWrap.v (ControlService of
   /repo/src/v3/default.rs and /repo/src/v5/default.rs over the sink of Model/Sink.v), proofs in
   Proofs/CtlWrapProofs.v.

   Vocabulary.  An operation list is a schedule: [ONotify b] the io's write buffer fills up / drains (the dispatcher
   issues Control::WrBackpressure(b) as its own task unless it is already in that state or the connection is
   closed), [OComplete k] the application's k-th control call returns, [OReady t] / [OSend t] / [OPoll t] tasks using
   the sink, [OAck id] the peer's PUBACK.  [notifications s ops] lists the values of the notifications issued
   along the run, oldest first; [flag s] is Flags::WRB_ENABLED, [is_ready s] is MqttSink::is_ready(). *)
From MV Require Import Base.Prelude Model.CtlWrap Proofs.CtlWrapProofs.
From MV Require Model.Sink.

(* for every schedule, both versions, every window: the flag after the run is the value of the last notification
   issued (off if none was), wherever the completions of the application's calls fall *)
Theorem C13ctl_flag_is_last_issued : forall (v cap : N) (ops : list op),
  flag (run_from (init v cap) ops) = last (notifications (init v cap) ops) false.
Proof. exact flag_is_last_issued. Qed.
Print Assumptions C13ctl_flag_is_last_issued.

Theorem C13ctl_flag_is_last_issued_from : forall (ops : list op) (s : st),
  flag (run_from s ops) = last (notifications s ops) (flag s).
Proof. exact flag_is_last_issued_from. Qed.
Print Assumptions C13ctl_flag_is_last_issued_from.

(* the flag is on exactly while the dispatcher is in its back-pressure state: once the write buffer has drained
   no sender is held back by a stale flag *)
Theorem C13ctl_flag_tracks_dispatcher : forall (v cap : N) (ops : list op),
  flag (run_from (init v cap) ops) = bp (run_from (init v cap) ops).
Proof. exact flag_tracks_dispatcher. Qed.
Print Assumptions C13ctl_flag_tracks_dispatcher.

(* the completion of an application control call changes neither is_ready nor the flag nor anything else of the sink *)
Theorem C13ctl_completion_is_neutral : forall (s : st) (k : N),
  is_ready (step s (OComplete k)) = is_ready s /\ flag (step s (OComplete k)) = flag s /\
  sk (step s (OComplete k)) = sk s.
Proof. exact completion_is_neutral. Qed.
Print Assumptions C13ctl_completion_is_neutral.

(* erasing every completion from a schedule gives the same sink and the same dispatcher state *)
Theorem C13ctl_completions_erasable : forall (v cap : N) (ops : list op),
  sk (run_from (init v cap) ops) = sk (run_from (init v cap) (filter not_completion ops)) /\
  bp (run_from (init v cap) ops) = bp (run_from (init v cap) (filter not_completion ops)).
Proof. exact completions_erasable. Qed.
Print Assumptions C13ctl_completions_erasable.

(* two schedules that differ only in when / in which order the application's calls complete *)
Theorem C13ctl_completion_order_irrelevant : forall (v cap : N) (ops1 ops2 : list op),
  filter not_completion ops1 = filter not_completion ops2 ->
  is_ready (run_from (init v cap) ops1) = is_ready (run_from (init v cap) ops2) /\
  flag (run_from (init v cap) ops1) = flag (run_from (init v cap) ops2) /\
  Sink.tasks (sk (run_from (init v cap) ops1)) = Sink.tasks (sk (run_from (init v cap) ops2)).
Proof. exact completion_order_irrelevant. Qed.
Print Assumptions C13ctl_completion_order_irrelevant.

(* "on" completing after "off" (cap 1): on, a ready() waiter parks, off, the application finishes "off" first and
   "on" last, the waiter is polled: is_ready 1, 2 calls issued, 2 completed, task 1 done Ok *)
Theorem C13ctl_on_completes_after_off :
  run_ctlwrap3 [[1]; [1;1]; [3;1]; [1;0]; [2;2]; [2;1]; [4;1]]
  = [[0;1;0]; [0;1;0;1;1]; [1;2;0;1;1]; [1;2;1;1;1]; [1;2;2;1;1]; [1;2;2;1;2]]
  /\ run_ctlwrap5 [[1]; [1;1]; [3;1]; [1;0]; [2;2]; [2;1]; [4;1]]
  = [[0;1;0]; [0;1;0;1;1]; [1;2;0;1;1]; [1;2;1;1;1]; [1;2;2;1;1]; [1;2;2;1;2]].
Proof. exact on_completes_after_off. Qed.
Print Assumptions C13ctl_on_completes_after_off.
