(* Props/C18.v -- property C18 at full strength: statements only.
   Topic filter validation and matching follow MQTT section 4.7. *)
From MV Require Import Base.Prelude Model.Topic Spec.SpecTopic Proofs.TopicProofs.

(* filter validation accepts exactly the filters section 4.7 allows (all byte strings) *)
Theorem C18_valid_is_spec : forall s, is_valid s = spec_valid_filter s.
Proof. exact valid_is_spec. Qed.
Print Assumptions C18_valid_is_spec.

(* the two validators agree *)
Theorem C18_validators_agree : forall s, is_valid s = true <-> exists F, parse s = inl F.
Proof. exact validators_agree. Qed.
Print Assumptions C18_validators_agree.

(* matching returns exactly the section 4.7 answer *)
Theorem C18_match_is_spec : forall f F t,
  parse f = inl F -> spec_topic_name t = true -> matches_topic F t = spec_matchb f t.
Proof. exact match_is_spec. Qed.
Print Assumptions C18_match_is_spec.

(* parse / display round trip *)
Theorem C18_display_parse : forall s F, parse s = inl F -> display F = s.
Proof. exact display_parse. Qed.
Print Assumptions C18_display_parse.

Theorem C18_parse_display : forall s F, parse s = inl F -> parse (display F) = inl F.
Proof. exact parse_display. Qed.
Print Assumptions C18_parse_display.

(* whenever one filter is reported to cover another, every topic matched by the covered
   filter is matched by the covering one *)
Theorem C18_cover_sound : forall f g F G t,
  parse f = inl F -> parse g = inl G -> matches_filter F G = true ->
  spec_topic_name t = true -> matches_topic G t = true -> matches_topic F t = true.
Proof. exact cover_sound. Qed.
Print Assumptions C18_cover_sound.

(* non-vacuity: the hypotheses are met by concrete non-trivial values *)
Example C18_nonvacuous :
  exists F G, parse [43;47;35] = inl F /\ parse [43;47;97;47;43] = inl G /\
    matches_filter F G = true /\ spec_topic_name [98;47;97;47;99] = true /\
    matches_topic G [98;47;97;47;99] = true.
Proof. eexists; eexists; repeat split; vm_compute; reflexivity. Qed.
