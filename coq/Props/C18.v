(* Props/C18.v -- property C18 at full strength: statements only.
   Topic filter validation and matching follow MQTT section 4.7. *)
From MV Require Import Base.Prelude Model.Topic Spec.SpecTopic Proofs.TopicProofs Proofs.TopicCover.

(* filter validation accepts exactly the filters section 4.7 allows (all byte strings) *)
Theorem C18_valid_is_spec : forall s, is_valid s = spec_valid_filter s.
Proof. exact valid_is_spec. Qed.
Print Assumptions C18_valid_is_spec.

(* the two validators agree *)
Theorem C18_validators_agree : forall s, is_valid s = true <-> exists F, parse s = inl F.
Proof. exact validators_agree. Qed.
Print Assumptions C18_validators_agree.

(* matching returns exactly the section 4.7 answer *)
Theorem C18_match_is_spec : forall f F t,
  parse f = inl F -> spec_topic_name t = true -> matches_topic F t = spec_matchb f t.
Proof. exact match_is_spec. Qed.
Print Assumptions C18_match_is_spec.

(* parse / display round trip *)
Theorem C18_display_parse : forall s F, parse s = inl F -> display F = s.
Proof. exact display_parse. Qed.
Print Assumptions C18_display_parse.

Theorem C18_parse_display : forall s F, parse s = inl F -> parse (display F) = inl F.
Proof. exact parse_display. Qed.
Print Assumptions C18_parse_display.

(* whenever one filter is reported to cover another, every topic matched by the covered
   filter is matched by the covering one *)
Theorem C18_cover_sound : forall f g F G t,
  parse f = inl F -> parse g = inl G -> matches_filter F G = true ->
  spec_topic_name t = true -> matches_topic G t = true -> matches_topic F t = true.
Proof. exact cover_sound. Qed.
Print Assumptions C18_cover_sound.

(* the covering relation is a preorder on filters (any level lists) *)
Theorem C18_cover_refl : forall F, matches_filter F F = true.
Proof. exact cover_refl. Qed.
Print Assumptions C18_cover_refl.

Theorem C18_cover_trans : forall F G H,
  matches_filter F G = true -> matches_filter G H = true -> matches_filter F H = true.
Proof. exact cover_trans. Qed.
Print Assumptions C18_cover_trans.

(* a filter whose first level starts with `$` is covered only by a filter with the very same first
   level: no wildcard in first position covers it (universal form of the defect repaired by ad5dc3e) *)
Theorem C18_cover_system_first : forall F x G,
  matches_filter F (System x :: G) = true -> exists F', F = System x :: F'.
Proof. exact cover_system_first. Qed.
Print Assumptions C18_cover_system_first.

(* `#` covers every filter whose first level is not a `$`-level *)
Theorem C18_cover_hash_all : forall g G,
  (forall x, g <> System x) -> matches_filter [Multi] (g :: G) = true.
Proof. exact cover_hash_all. Qed.
Print Assumptions C18_cover_hash_all.

(* the premises above are met by parsed filters: "$SYS/+" parses to a System-first filter,
   it is covered by itself and by "$SYS/#" but by neither "+/+" nor "#" *)
Example C18_cover_nonvacuous :
  exists F G P Hh, parse [36;83;89;83;47;43] = inl F /\ parse [36;83;89;83;47;35] = inl G /\
    parse [43;47;43] = inl P /\ parse [35] = inl Hh /\
    (exists x r, F = System x :: r) /\
    matches_filter F F = true /\ matches_filter G F = true /\
    matches_filter P F = false /\ matches_filter Hh F = false.
Proof. do 4 eexists; repeat split; try (vm_compute; reflexivity). do 2 eexists; vm_compute; reflexivity. Qed.

(* non-vacuity: the hypotheses are met by concrete non-trivial values *)
Example C18_nonvacuous :
  exists F G, parse [43;47;35] = inl F /\ parse [43;47;97;47;43] = inl G /\
    matches_filter F G = true /\ spec_topic_name [98;47;97;47;99] = true /\
    matches_topic G [98;47;97;47;99] = true.
Proof. eexists; eexists; repeat split; vm_compute; reflexivity. Qed.
