(* Props/C07.v -- property C07: however a connection ends, the control service gets exactly one Stop
   notification with the right reason, handlers are released only after it was handled, and the
   connection task completes.  Statements only; the model is Model/IoState.v (Dispatcher::poll of
   /repo/src/io.rs, one event per iteration of its loop). All statements hold for ALL event sequences
   and for every starting value of the flags (IO_ERR is read by the code but set by no code path). *)
From MV Require Import Base.Prelude Model.IoState Proofs.IoStateProofs.

(* at most one Stop control call in any run; exactly one if the connection task completed -- unless
   the control service's own readiness check failed (see C07_stop_once_refuted) *)
Theorem C07_stop_once : forall (s : st) (evs : list event),
  live (phase s) = true ->
  (count_stops (io_outputs s evs) <= 1)%nat /\
  (existsb is_done (io_outputs s evs) = true -> existsb is_ctl_ready_err evs = false ->
   count_stops (io_outputs s evs) = 1%nat).
Proof. exact stop_once. Qed.
Print Assumptions C07_stop_once.

(* `ready!(inner.control.poll_ready(cx))?` at the top of poll: a readiness error of the control service
   completes the connection task with NO Stop notification, no service shutdown, no io shutdown *)
Theorem C07_stop_once_refuted :
  exists evs, existsb is_done (io_outputs io_init evs) = true /\ count_stops (io_outputs io_init evs) = 0%nat /\
              phase (io_final io_init evs) = Finished.
Proof. exact stop_once_refuted. Qed.
Print Assumptions C07_stop_once_refuted.

(* the reason of the Stop: the event e that ends the live phase decides -- a failed flush is peer-gone;
   otherwise a handler/encoder error stored before e (the LAST one stored) gives its reason (application
   error -> StopError, protocol or encoder error -> StopProtocol); otherwise e itself: decoder error,
   keep-alive/read timeout, readiness protocol error -> StopProtocol; readiness service error ->
   StopError; peer gone -> StopPeerGone *)
Theorem C07_stop_reason : forall (s : st) (evs : list event) (c : ctl),
  live (phase s) = true ->
  In (CallControl c) (io_outputs s evs) -> is_stop_ctl c = true ->
  exists pre e post,
    evs = pre ++ e :: post /\
    count_stops (io_outputs s pre) = 0%nat /\
    live (phase (io_final s pre)) = true /\
    stop_reason (last_err (err s) pre) e = Some c.
Proof. exact stop_reason_gen. Qed.
Print Assumptions C07_stop_reason.

(* "the FIRST terminating event decides" is false of the code: DispatcherState.error is a single cell
   that a later handler error overwrites before poll_service reads it *)
Theorem C07_stop_reason_first_refuted :
  io_outputs io_init [EvHandler HSvcErr; EvHandler HProtoErr; EvRecv RvNone] = [CallControl StopProtocol] /\
  io_outputs io_init [EvRecv RvWrBack; EvHandler HSvcErr; EvFlush false] =
    [CallControl (Wr true); CallControl StopPeerGone].
Proof. exact stop_reason_first_refuted. Qed.
Print Assumptions C07_stop_reason_first_refuted.

(* once stopping, never processing again: no item is dispatched, no second Stop, no back-pressure call *)
Theorem C07_no_return : forall (s : st) (evs : list event),
  live (phase s) = false ->
  live (phase (io_final s evs)) = false /\
  count_stops (io_outputs s evs) = 0%nat /\
  existsb is_dispatch (io_outputs s evs) = false /\
  existsb is_wr (io_outputs s evs) = false.
Proof. exact no_return. Qed.
Print Assumptions C07_no_return.

(* handlers are released (stopping.notify()) only after the Stop control call has completed *)
Theorem C07_notify_after_stop_handled : forall (s : st) (evs : list event),
  live (phase s) = true -> In NotifyStopping (io_outputs s evs) ->
  exists pre ok post,
    evs = pre ++ EvControl ok :: post /\
    phase (io_final s pre) = Stop /\
    count_stops (io_outputs s pre) = 1%nat /\
    ~ In NotifyStopping (io_outputs s (pre ++ [EvControl ok])).
Proof. exact notify_after_stop. Qed.
Print Assumptions C07_notify_after_stop_handled.

(* the task completes only after: Stop issued and completed (its result is what the task returns),
   then the service shutdown completed, then the io shutdown completed (or IO_ERR was set) *)
Theorem C07_done_needs_all : forall (s : st) (evs : list event) (ok : bool),
  live (phase s) = true -> existsb is_ctl_ready_err evs = false -> In (Done ok) (io_outputs s evs) ->
  exists pre mid rest,
    evs = pre ++ EvControl ok :: mid ++ EvSvcShutdown :: rest /\
    phase (io_final s pre) = Stop /\ count_stops (io_outputs s pre) = 1%nat /\
    phase (io_final s (pre ++ EvControl ok :: mid)) = Shutdown /\
    (io_err s = true \/
     exists mid2 post, rest = mid2 ++ EvIoShutdown :: post /\
                       phase (io_final s (pre ++ EvControl ok :: mid ++ EvSvcShutdown :: mid2)) = ShutdownIo).
Proof. exact done_needs_all. Qed.
Print Assumptions C07_done_needs_all.

(* non-vacuity: a full life cycle; a handler error picked up at the next poll_service; back-pressure *)
Example C07_nonvacuous_lifecycle :
  io_run io_init [EvRecv RvItem; EvRecv RvNone; EvRecv RvPeerGone; EvService RErrSvc; EvControl true;
                  EvSvcShutdown; EvRecv RvItem; EvIoShutdown; EvRecv RvItem] =
  (mkSt Finished true false None true,
   [Dispatch; CallControl StopPeerGone; NotifyStopping; Done true]).
Proof. vm_compute. reflexivity. Qed.

Example C07_nonvacuous_handler_error :
  io_outputs io_init [EvRecv RvItem; EvHandler HSvcErr; EvRecv RvItem; EvControl false; EvSvcShutdown; EvIoShutdown] =
  [Dispatch; CallControl StopError; NotifyStopping; Done false].
Proof. vm_compute. reflexivity. Qed.

Example C07_nonvacuous_backpressure :
  io_outputs io_init [EvRecv RvWrBack; EvRecv RvItem; EvFlush true; EvRecv RvItem;
                      EvService (RNotReady PWrBack); EvService (RNotReady PWrBack); EvFlush false] =
  [CallControl (Wr true); CallControl (Wr false); Dispatch; CallControl (Wr true); CallControl (Wr true);
   CallControl StopPeerGone].
Proof. vm_compute. reflexivity. Qed.
