(* Props/C17router.v -- property C17, last sentence: "Routing to resource handlers depends only on the resolved
   topic" -- with the router's own alias cache in the model (Model/RouterCache.v: [resolve] = the alias stage of
   the v5 dispatchers, [rcall] = v5::RouterService::call / the `dispatch` closure of v5/client/connection.rs,
   [recog] = ntex_router::Router::recognize, any function).  Statements only; proofs Proofs/RouterCacheProofs.v. *)
From MV Require Import Base.Prelude Model.RouterCache Proofs.RouterCacheProofs.

(* every history of one connection, every recognizer, every alias maximum, ANY content of the router's cache at
   the start: handler chosen and topic shown to it are those of routing each PUBLISH by its resolved topic with
   no cache at all *)
Theorem C17router_cache_never_decides : forall (recog : N -> option N) (max : N) (ps : list rpub) (c : cache),
  conn_run recog max [] c ps = conn_ref recog max [] ps.
Proof. exact conn_run_ref. Qed.
Print Assumptions C17router_cache_never_decides.

(* the reason: a PUBLISH that reaches the router with a topic is routed by that topic, whatever the cache holds *)
Theorem C17router_topic_wins : forall (recog : N -> option N) (c : cache) (topic alias : N),
  topic <> 0 -> snd (rcall recog c topic alias) = (recog topic, topic).
Proof. exact rcall_topic. Qed.
Print Assumptions C17router_topic_wins.

(* ... and the alias stage in front of it never binds an empty topic and resolves every aliased PUBLISH to a
   non-empty one *)
Theorem C17router_alias_stage_resolves_nonempty : forall (max : N) (tbl : list (N * N)) (p : rpub) (tbl' : list (N * N)) (t : N),
  bound_nonempty tbl -> resolve max tbl p = Some (tbl', t) ->
  bound_nonempty tbl' /\ (t = 0 -> r_topic p = 0 /\ r_alias p = 0).
Proof. exact resolve_inv. Qed.
Print Assumptions C17router_alias_stage_resolves_nonempty.

(* the statement is about the composition: the router used without a dispatcher in front keeps a stale entry
   when an alias is re-bound to a topic no resource matches (recorded as an observation about v5::Router as a
   stand-alone service; not reachable through a connection by the theorem above) *)
Theorem C17router_alone_stale_refuted :
  exists recog ps, router_alone recog [] ps <> conn_ref recog 8 [] ps.
Proof.
  exists recog12, [ {| r_topic := 1; r_alias := 1 |}; {| r_topic := 3; r_alias := 1 |}; {| r_topic := 0; r_alias := 1 |} ].
  rewrite router_alone_stale. vm_compute. intros H. discriminate H.
Qed.
Print Assumptions C17router_alone_stale_refuted.

(* non-vacuity: bind, rebind to an unrouted topic, use; unknown alias ends the run; alias over the maximum too *)
Example C17router_nonvacuous :
  conn_run recog12 8 [] [] [ {| r_topic := 1; r_alias := 1 |}; {| r_topic := 0; r_alias := 1 |};
                             {| r_topic := 2; r_alias := 1 |}; {| r_topic := 0; r_alias := 1 |};
                             {| r_topic := 3; r_alias := 1 |}; {| r_topic := 0; r_alias := 1 |};
                             {| r_topic := 0; r_alias := 2 |}; {| r_topic := 1; r_alias := 0 |} ]
  = [ (Some 0, 1); (Some 0, 1); (Some 1, 2); (Some 1, 2); (None, 3); (None, 3) ] /\
  conn_run recog12 8 [] [] [ {| r_topic := 1; r_alias := 9 |}; {| r_topic := 1; r_alias := 0 |} ] = [].
Proof. vm_compute. split; reflexivity. Qed.
