(* Props/C03.v -- property C03: each inbound PUBLISH is handled once and acknowledged as its QoS demands.
   Statements only; model Model/Inbound.v, proofs Proofs/InboundLogic.v (layer 1: the decisions, all states
   and packets) and Proofs/InboundInv.v (layer 2: all operation lists).

   Decision level.  [proto_body p s]: Service<Decoded>::call up to its first await; outcome [OHandler q2 qos
   id topic plen retain] = the publish handler is invoked with these fields (q2 = 1 for QoS 2); [OCtlP ..] =
   client role, no route matches: the protocol service gets ProtocolMessage::Publish.  [body who k p s]: the
   same, followed by the invocation itself: it logs the handler record [h; qos; id; topic; plen; retain]
   (h = invocation number) and either has the handler's result at once (the completion operation (2,h,res) was
   already given: [gate_val h (hgate ..) = Some res]) or parks the call in state [CHandler h q2 id].
   [hres_any q2 id res s]: publish_fn after the handler completed with res (0 = Ok).
   What layer 2 does NOT give (not proved): the order / exactly-once of acknowledgements ON THE WIRE over whole
   runs (it needs the response-queue history invariant of Props/C04.v for the histories the dispatcher
   generates); the wire-level facts proved for whole runs are in Props/C15.v / C16.v. *)
From MV Require Import Base.Prelude Model.RespQueue Model.Inbound Proofs.InboundLogic Proofs.InboundInv.

(* ---- the handler sees what was sent: QoS, identifier, payload length, retain unchanged; the topic is the
   carried one, or (v5, alias only) the one bound to the alias (C17) *)
Theorem C03_handler_fields : forall (p : pkt) (s : st) (qos' id' t' plen' retain' : N),
  invoked_with (snd (proto_body p s)) = Some (qos', id', t', plen', retain') ->
  exists qos id topic alias retain plen t,
    p = KPublish qos id topic alias retain plen /\ qos' = qos /\ id' = id /\ plen' = plen /\ retain' = retain /\
    resolved_topic p s = Some t /\ t' = norm_topic t.
Proof. exact handler_fields. Qed.
Print Assumptions C03_handler_fields.

(* ---- handled once: the invocation writes exactly one handler record, with a fresh number; the
   acknowledgement is computed in the same poll only if that handler's completion was already given *)
Theorem C03_handler_once : forall (who : task) (k : N) (p : pkt) (s : st) (q2 qos id t plen retain : N),
  snd (proto_body p s) = OHandler q2 qos id t plen retain ->
  let s1 := fst (proto_body p s) in
  let h := nh (l_ s) + 1 in
  let s2 := log_handler h qos id t plen retain s1 in
  hlog (l_ s2) = hlog (l_ s) ++ [h; qos; id; t; plen; retain] /\ nh (l_ s2) = h /\
  body who k p s =
    match gate_val h (hgate (l_ s)) with
    | Some res => (fst (hres_any q2 id res s2), Some (snd (hres_any q2 id res s2)))
    | None => (set_cst k (CHandler h q2 id) s2, None)
    end.
Proof. exact handler_invoked_once. Qed.
Print Assumptions C03_handler_once.

(* ---- no acknowledgement before the handler has completed: a parked call yields nothing, and does
   nothing, until its completion operation has been given; then it yields exactly [hres_any] *)
Theorem C03_no_ack_before_done : forall (who : task) (k : N) (s : st) (c : call) (h q2 id : N),
  find_call k (calls (s_ s)) = Some c -> cst c = CHandler h q2 id -> gate_val h (hgate (l_ s)) = None ->
  poll_call who k s = (s, None).
Proof. exact handler_waits. Qed.
Print Assumptions C03_no_ack_before_done.

Theorem C03_ack_when_done : forall (who : task) (k : N) (s : st) (c : call) (h q2 id res : N),
  find_call k (calls (s_ s)) = Some c -> cst c = CHandler h q2 id -> gate_val h (hgate (l_ s)) = Some res ->
  poll_call who k s = (fst (hres_any q2 id res s), Some (snd (hres_any q2 id res s))).
Proof. exact handler_completes. Qed.
Print Assumptions C03_ack_when_done.

(* ---- the acknowledgement matches the QoS: handler Ok => nothing for QoS 0, PUBACK (64) id for QoS 1,
   PUBREC (80) id for QoS 2, reason 0 ([expected_ack]) *)
Theorem C03_ack_matches_qos : forall (p : pkt) (s : st) (q2 qos id t plen retain : N) (s2 : st),
  wf_pkt p = true -> snd (proto_body p s) = OHandler q2 qos id t plen retain ->
  snd (hres_any q2 id 0 s2) = expected_ack qos id.
Proof. exact ack_matches_qos. Qed.
Print Assumptions C03_ack_matches_qos.

(* PUBCOMP (112) with reason 0 only as the answer to a PUBREL that reached the protocol service, i.e. whose
   identifier awaited release (C11_pubrel_only_for_qos2_after_pubrec); the only other PUBCOMP is the v5
   "not found" (0x92) answer to a stray PUBREL; a publish handler never yields one (C15_sites_handler) *)
Theorem C03_pubcomp_only_for_pubrel : forall (m : cmsg) (res : N) (s : st) (i r : N),
  snd (srv_result m res s) = RSome 112 i r -> fst m = 1 /\ i = snd m /\ r = 0.
Proof. exact pubcomp_origin_srv. Qed.
Print Assumptions C03_pubcomp_only_for_pubrel.

Theorem C03_pubcomp_only_for_pubrel_client : forall (m : cmsg) (res : N) (s : st) (i r : N),
  snd (ctl_result_c m res s) = RSome 112 i r -> fst m = 1 /\ i = snd m /\ r = 0.
Proof. exact pubcomp_origin_cli. Qed.
Print Assumptions C03_pubcomp_only_for_pubrel_client.

Theorem C03_pubcomp_stray : forall (p : pkt) (s : st) (i r : N),
  snd (proto_body p s) = ODone (RSome 112 i r) ->
  v5 (c_ s) = true /\ p = KPubrel i /\ memN i (pubrel (p_ s)) = false /\ r = 146.
Proof. exact pubcomp_origin_body. Qed.
Print Assumptions C03_pubcomp_stray.

(* ---- a failing handler never yields a success acknowledgement: v3 => Err (state untouched); v5 => Err, or
   the negative acknowledgement (reason = the code the application mapped the error to, >= 0x80) -- or, for a
   QoS 0 message at a v5 client, nothing *)
Theorem C03_failure_never_acks_success : forall (q2 id res : N) (s : st),
  res <> 0 ->
  match snd (hres_any q2 id res s) with
  | RSome t i r => v5 (c_ s) = true /\ r = res /\ 128 <= r /\ i = id /\ (t = 64 \/ t = 80)
  | RNone => v5 (c_ s) = true /\ is_client s = true /\ id = 0
  | RErr e => e = EServ /\ fst (hres_any q2 id res s) = s
  end.
Proof. exact failure_never_acks_success. Qed.
Print Assumptions C03_failure_never_acks_success.

(* ... and Err ends the connection: the recorded error makes the dispatcher stop at its next poll (kind 2 =
   Reason::Error; the control service is notified at most once over a whole run: C16_at_most_one_stop) *)
Theorem C03_failure_stops : forall (f : nat) (s : st),
  dst (s_ s) = DProc -> error (q_ s) = true ->
  exists s1, K s1 = K (set_q (mkRq (base (q_ s)) (queue (q_ s)) (response (q_ s)) (response_idx (q_ s)) false
                                  (spawned (q_ s)) (out (q_ s)) (panicked (q_ s))) s) /\
             d_loop (S f) s = d_loop f (do_stop (stop_kind (lasterr (s_ s))) (stop_reason (lasterr (s_ s))) s1).
Proof. exact error_stops. Qed.
Print Assumptions C03_failure_stops.

(* ---- deviation C1/C2 (client roles; the real crate and the model agree on it): "PUBREC for QoS 2" fails
   for a PUBLISH that no route matches.  It goes to the protocol service as ProtocolMessage::Publish, and
   msg.ack() is answered PUBACK whatever the QoS.  Witness (cli3, no router): QoS 2 PUBLISH id 1 -> protocol
   service invocation 1 (kind 7); its msg.ack() -> PUBACK 1 (64,1,0), not PUBREC; the peer's PUBREL 1 is then
   a stray one: DISCONNECT and close. *)
Theorem C03_ack_matches_qos_refuted_client_unrouted :
  run_cli3 [[0; 0]; [1; 1; 2; 1; 1; 0; 0; 0]; [3; 1; 0]; [1; 4; 1]] =
    [[254; 1001; 2; 1; 1; 0; 0; 253; 1; 7; 252; 0; 0; 1];
     [64; 1; 0; 254; 253; 252; 0; 0; 1];
     [224; 0; 0; 254; 253; 252; 3; 1; 0]].
Proof. exact c1_witness. Qed.
Print Assumptions C03_ack_matches_qos_refuted_client_unrouted.

(* the true variant for that path *)
Theorem C03_client_unrouted_ack_is_puback : forall (pid : N) (s : st),
  v5 (c_ s) = false -> pid <> 0 -> snd (ctl_result_c (7, pid) 0 s) = RSome 64 pid 0.
Proof. exact client_unrouted_ack_is_puback. Qed.
Print Assumptions C03_client_unrouted_ack_is_puback.

(* non-vacuity: v3 server with the harness protocol service, QoS 2 PUBLISH id 5: handler 1 invoked, nothing
   written; (2,1,0) -> PUBREC 5; PUBREL 5 -> protocol service invocation 1 (kind 1); its msg.ack() -> PUBCOMP 5 *)
Example C03_nonvacuous :
  run_inb3 [[2; 0; 0; 0; 1]; [1; 1; 2; 5; 2; 0; 1; 9]; [2; 1; 0]; [1; 4; 5]; [3; 1; 0]] =
    [[254; 1; 2; 5; 2; 9; 1; 253; 252; 0; 0; 1];
     [80; 5; 0; 254; 253; 252; 0; 0; 1];
     [254; 253; 1; 1; 252; 0; 0; 1];
     [112; 5; 0; 254; 253; 252; 0; 0; 1]].
Proof. vm_compute. reflexivity. Qed.

(* ================================================================== added: acknowledgements over whole runs (layer 2)
   Server roles (MQTT 3.1.1 and 5), ALL operation lists (no well-formedness needed), every prefix a of the
   run a ++ b: the PUBACKs and PUBRECs written so far -- every wire entry of type 64 or 80 whose reason is not
   0x91 = 145, i.e. everything but the immediate "packet identifier in use" answers (and a handler error the
   application itself mapped to 0x91) -- are at most as many as the distinct publish handler invocations whose
   completion operation (2,h,res) has been given so far ([done_handlers a], characterised below).  So no
   acknowledgement is written for a handler that has not completed, and no handler is acknowledged twice, as a
   count.  [cumwire (trace a s)] is the wire of the run up to the end of a (first conjunct: a prefix of the
   whole run's wire), as packets (type, id, reason) ([flat3 ws]); [cnt ackt ws] counts the acknowledgements.
   Invariant (Proofs/InboundRun.v, [AKg]): (acks written) + (ack codes waiting in ready slots of the response
   queue) + (ack in flight) <= number of handler numbers h with a completion given, h already invoked, and no
   call parked on h; calls parked on handlers have distinct numbers.
   Not proved: the per-identifier form; the client roles (there a PUBLISH that no route matches is acknowledged
   by the protocol service, C03_client_unrouted_ack_is_puback, so the bound would have to count protocol
   service completions too). *)
From MV Require Import Proofs.InboundRun.

Theorem C03_one_ack_per_handler_run : forall (is5 : bool) (cf : list N) (a b : list (list N)),
  let s := init_st is5 cf in
  trace (a ++ b) s = trace a s ++ trace b (after a s) /\
  exists ws, cumwire (trace a s) = flat3 ws /\ (cnt ackt ws <= length (done_handlers a))%nat.
Proof. exact one_ack_per_handler_run. Qed.
Print Assumptions C03_one_ack_per_handler_run.

Theorem C03_done_handlers_spec : forall (ops : list (list N)) (h : N),
  In h (done_handlers ops) <-> exists res, In [2; h; res] ops.
Proof. exact done_handlers_spec. Qed.
Print Assumptions C03_done_handlers_spec.
Theorem C03_done_handlers_distinct : forall (ops : list (list N)), NoDup (done_handlers ops).
Proof. exact done_handlers_nodup. Qed.
Print Assumptions C03_done_handlers_distinct.

(* what is counted *)
Theorem C03_ack_counted : forall (x : N * N * N),
  ackt x = ((fst (fst x) =? 64) || (fst (fst x) =? 80)) && negb (snd x =? 145).
Proof. exact ackt_spec. Qed.
Print Assumptions C03_ack_counted.

(* non-vacuity: v5 server, three QoS 1 PUBLISHes (handlers 1..3 pending); completing handler 2 twice and a
   handler 7 that does not exist writes nothing (responses wait behind handler 1, in order); after handler 1
   completes two PUBACKs are out: 2 acknowledgements <= 3 handler numbers with a completion given *)
Example C03_one_ack_per_handler_nonvacuous :
  let a := [[1; 1; 1; 1; 1; 0; 0; 0]; [1; 1; 1; 2; 1; 0; 0; 0]; [1; 1; 1; 3; 1; 0; 0; 0];
            [2; 2; 0]; [2; 2; 0]; [2; 7; 0]; [2; 1; 0]] in
  done_handlers a = [2; 7; 1] /\
  cumwire (trace a (init_st true [2; 0; 0; 0; 1])) = flat3 [(64, 1, 0); (64, 2, 0)] /\
  cnt ackt [(64, 1, 0); (64, 2, 0)] = 2%nat.
Proof. vm_compute. repeat split; reflexivity. Qed.
