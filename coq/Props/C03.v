(* Props/C03.v -- property C03: each inbound PUBLISH is handled once and acknowledged as its QoS demands.
   Statements only; model Model/Inbound.v, proofs Proofs/InboundLogic.v (layer 1: the decisions, all states
   and packets) and Proofs/InboundInv.v (layer 2: all operation lists).

   Decision level.  [proto_body p s]: Service<Decoded>::call up to its first await; outcome [OHandler q2 qos
   id topic plen retain] = the publish handler is invoked with these fields (q2 = 1 for QoS 2); [OCtlP ..] =
   client role, no route matches: the protocol service gets ProtocolMessage::Publish.  [body who k p s]: the
   same, followed by the invocation itself: it logs the handler record [h; qos; id; topic; plen; retain]
   (h = invocation number) and either has the handler's result at once (the completion operation (2,h,res) was
   already given: [gate_val h (hgate ..) = Some res]) or parks the call in state [CHandler h q2 id].
   [hres_any q2 id res s]: publish_fn after the handler completed with res (0 = Ok).
   What layer 2 does NOT give (not proved): the order / exactly-once of acknowledgements ON THE WIRE over whole
   runs (it needs the response-queue history invariant of Props/C04.v for the histories the dispatcher
   generates); the wire-level facts proved for whole runs are in Props/C15.v / C16.v. *)
From MV Require Import Base.Prelude Model.RespQueue Model.Inbound Proofs.InboundLogic Proofs.InboundInv.

(* ---- the handler sees what was sent: QoS, identifier, payload length, retain unchanged; the topic is the
   carried one, or (v5, alias only) the one bound to the alias (C17) *)
Theorem C03_handler_fields : forall (p : pkt) (s : st) (qos' id' t' plen' retain' : N),
  invoked_with (snd (proto_body p s)) = Some (qos', id', t', plen', retain') ->
  exists qos id topic alias retain plen t,
    p = KPublish qos id topic alias retain plen /\ qos' = qos /\ id' = id /\ plen' = plen /\ retain' = retain /\
    resolved_topic p s = Some t /\ t' = norm_topic t.
Proof. exact handler_fields. Qed.
Print Assumptions C03_handler_fields.

(* ---- handled once: the invocation writes exactly one handler record, with a fresh number; the
   acknowledgement is computed in the same poll only if that handler's completion was already given *)
Theorem C03_handler_once : forall (who : task) (k : N) (p : pkt) (s : st) (q2 qos id t plen retain : N),
  snd (proto_body p s) = OHandler q2 qos id t plen retain ->
  let s1 := fst (proto_body p s) in
  let h := nh (l_ s) + 1 in
  let s2 := log_handler h qos id t plen retain s1 in
  hlog (l_ s2) = hlog (l_ s) ++ [h; qos; id; t; plen; retain] /\ nh (l_ s2) = h /\
  body who k p s =
    match gate_val h (hgate (l_ s)) with
    | Some res => (fst (hres_any q2 id res s2), Some (snd (hres_any q2 id res s2)))
    | None => (set_cst k (CHandler h q2 id) s2, None)
    end.
Proof. exact handler_invoked_once. Qed.
Print Assumptions C03_handler_once.

(* ---- no acknowledgement before the handler has completed: a parked call yields nothing, and does
   nothing, until its completion operation has been given; then it yields exactly [hres_any] *)
Theorem C03_no_ack_before_done : forall (who : task) (k : N) (s : st) (c : call) (h q2 id : N),
  find_call k (calls (s_ s)) = Some c -> cst c = CHandler h q2 id -> gate_val h (hgate (l_ s)) = None ->
  poll_call who k s = (s, None).
Proof. exact handler_waits. Qed.
Print Assumptions C03_no_ack_before_done.

Theorem C03_ack_when_done : forall (who : task) (k : N) (s : st) (c : call) (h q2 id res : N),
  find_call k (calls (s_ s)) = Some c -> cst c = CHandler h q2 id -> gate_val h (hgate (l_ s)) = Some res ->
  poll_call who k s = (fst (hres_any q2 id res s), Some (snd (hres_any q2 id res s))).
Proof. exact handler_completes. Qed.
Print Assumptions C03_ack_when_done.

(* ---- the acknowledgement matches the QoS: handler Ok => nothing for QoS 0, PUBACK (64) id for QoS 1,
   PUBREC (80) id for QoS 2, reason 0 ([expected_ack]) *)
Theorem C03_ack_matches_qos : forall (p : pkt) (s : st) (q2 qos id t plen retain : N) (s2 : st),
  wf_pkt p = true -> snd (proto_body p s) = OHandler q2 qos id t plen retain ->
  snd (hres_any q2 id 0 s2) = expected_ack qos id.
Proof. exact ack_matches_qos. Qed.
Print Assumptions C03_ack_matches_qos.

(* PUBCOMP (112) with reason 0 only as the answer to a PUBREL that reached the protocol service, i.e. whose
   identifier awaited release (C11_pubrel_only_for_qos2_after_pubrec); the only other PUBCOMP is the v5
   "not found" (0x92) answer to a stray PUBREL; a publish handler never yields one (C15_sites_handler) *)
Theorem C03_pubcomp_only_for_pubrel : forall (m : cmsg) (res : N) (s : st) (i r : N),
  snd (srv_result m res s) = RSome 112 i r -> fst m = 1 /\ i = snd m /\ r = 0.
Proof. exact pubcomp_origin_srv. Qed.
Print Assumptions C03_pubcomp_only_for_pubrel.

Theorem C03_pubcomp_only_for_pubrel_client : forall (m : cmsg) (res : N) (s : st) (i r : N),
  snd (ctl_result_c m res s) = RSome 112 i r -> fst m = 1 /\ i = snd m /\ r = 0.
Proof. exact pubcomp_origin_cli. Qed.
Print Assumptions C03_pubcomp_only_for_pubrel_client.

Theorem C03_pubcomp_stray : forall (p : pkt) (s : st) (i r : N),
  snd (proto_body p s) = ODone (RSome 112 i r) ->
  v5 (c_ s) = true /\ p = KPubrel i /\ memN i (pubrel (p_ s)) = false /\ r = 146.
Proof. exact pubcomp_origin_body. Qed.
Print Assumptions C03_pubcomp_stray.

(* ---- a failing handler never yields a success acknowledgement: v3 => Err (state untouched); v5 => Err, or
   the negative acknowledgement (reason = the code the application mapped the error to, >= 0x80) -- or, for a
   QoS 0 message at a v5 client, nothing *)
Theorem C03_failure_never_acks_success : forall (q2 id res : N) (s : st),
  res <> 0 ->
  match snd (hres_any q2 id res s) with
  | RSome t i r => v5 (c_ s) = true /\ r = res /\ 128 <= r /\ i = id /\ (t = 64 \/ t = 80)
  | RNone => v5 (c_ s) = true /\ is_client s = true /\ id = 0
  | RErr e => e = EServ /\ fst (hres_any q2 id res s) = s
  end.
Proof. exact failure_never_acks_success. Qed.
Print Assumptions C03_failure_never_acks_success.

(* ... and Err ends the connection: the recorded error makes the dispatcher stop at its next poll (kind 2 =
   Reason::Error; the control service is notified at most once over a whole run: C16_at_most_one_stop) *)
Theorem C03_failure_stops : forall (f : nat) (s : st),
  dst (s_ s) = DProc -> error (q_ s) = true ->
  exists s1, K s1 = K (set_q (mkRq (base (q_ s)) (queue (q_ s)) (response (q_ s)) (response_idx (q_ s)) false
                                  (spawned (q_ s)) (out (q_ s)) (panicked (q_ s))) s) /\
             d_loop (S f) s = d_loop f (do_stop (stop_kind (lasterr (s_ s))) (stop_reason (lasterr (s_ s))) s1).
Proof. exact error_stops. Qed.
Print Assumptions C03_failure_stops.

(* ---- deviation C1/C2 (client roles; the real crate and the model agree on it): "PUBREC for QoS 2" fails
   for a PUBLISH that no route matches.  It goes to the protocol service as ProtocolMessage::Publish, and
   msg.ack() is answered PUBACK whatever the QoS.  Witness (cli3, no router): QoS 2 PUBLISH id 1 -> protocol
   service invocation 1 (kind 7); its msg.ack() -> PUBACK 1 (64,1,0), not PUBREC; the peer's PUBREL 1 is then
   a stray one: DISCONNECT and close. *)
Theorem C03_ack_matches_qos_refuted_client_unrouted :
  run_cli3 [[0; 0]; [1; 1; 2; 1; 1; 0; 0; 0]; [3; 1; 0]; [1; 4; 1]] =
    [[254; 1001; 2; 1; 1; 0; 0; 253; 1; 7; 252; 0; 0; 1];
     [64; 1; 0; 254; 253; 252; 0; 0; 1];
     [224; 0; 0; 254; 253; 252; 3; 1; 0]].
Proof. exact c1_witness. Qed.
Print Assumptions C03_ack_matches_qos_refuted_client_unrouted.

(* the true variant for that path *)
Theorem C03_client_unrouted_ack_is_puback : forall (pid : N) (s : st),
  v5 (c_ s) = false -> pid <> 0 -> snd (ctl_result_c (7, pid) 0 s) = RSome 64 pid 0.
Proof. exact client_unrouted_ack_is_puback. Qed.
Print Assumptions C03_client_unrouted_ack_is_puback.

(* non-vacuity: v3 server with the harness protocol service, QoS 2 PUBLISH id 5: handler 1 invoked, nothing
   written; (2,1,0) -> PUBREC 5; PUBREL 5 -> protocol service invocation 1 (kind 1); its msg.ack() -> PUBCOMP 5 *)
Example C03_nonvacuous :
  run_inb3 [[2; 0; 0; 0; 1]; [1; 1; 2; 5; 2; 0; 1; 9]; [2; 1; 0]; [1; 4; 5]; [3; 1; 0]] =
    [[254; 1; 2; 5; 2; 9; 1; 253; 252; 0; 0; 1];
     [80; 5; 0; 254; 253; 252; 0; 0; 1];
     [254; 253; 1; 1; 252; 0; 0; 1];
     [112; 5; 0; 254; 253; 252; 0; 0; 1]].
Proof. vm_compute. reflexivity. Qed.
