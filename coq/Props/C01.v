(* Props/C01.v -- property C01: packets survive the wire. Statements only.
   (the per-packet round-trip and layout theorems are appended below as they are proved) *)
From Coq Require Import String.
From MV Require Import Base.Prelude Base.Res Base.VarInt Proofs.VarIntProofs.
From MV Require Import Gen.Consts Spec.SpecConsts Proofs.ConstsProofs Proofs.ModelConsts.

(* all 2^28 variable-byte-integer values round-trip, consuming exactly the bytes produced *)
Theorem C01_varint_roundtrip : forall n b r, enc_vi n = Some b -> dec_vi (b ++ r) = Ok (n, r).
Proof. exact varint_roundtrip. Qed.
Print Assumptions C01_varint_roundtrip.

Theorem C01_varint_domain : forall n, n <= VI_MAX -> exists b, enc_vi n = Some b /\ len b = var_int_len n /\ bytes_ok b = true.
Proof.
  intros n H. destruct (enc_vi_some n H) as [b Hb]. exists b. split; [exact Hb|].
  split; [exact (enc_vi_len n b Hb) | exact (enc_vi_bytes_ok n b Hb)].
Qed.
Print Assumptions C01_varint_domain.

(* the packet-type bytes, property identifiers, reason codes and flag bits that the Rust source
   declares (regenerated from the source text on every run) are those of the OASIS specifications:
   a change made consistently to encoder and decoder is caught here *)
Theorem C01_packet_type_bytes_are_spec : gen_packet_types = spec_packet_types.
Proof. exact packet_type_bytes_are_the_spec_bytes. Qed.
Print Assumptions C01_packet_type_bytes_are_spec.

Theorem C01_property_ids_are_spec : gen_property_types = spec_property_types.
Proof. exact property_ids_are_the_spec_ids. Qed.
Print Assumptions C01_property_ids_are_spec.

Theorem C01_reason_codes_are_spec :
  gen_enum_QoS = spec_enum_QoS /\
  gen_enum_v3_ConnectAckReason = spec_enum_v3_ConnectAckReason /\
  gen_enum_v5_AuthReasonCode = spec_enum_v5_AuthReasonCode /\
  gen_enum_v5_ConnectAckReason = spec_enum_v5_ConnectAckReason /\
  gen_enum_v5_DisconnectReasonCode = spec_enum_v5_DisconnectReasonCode /\
  gen_enum_v5_PublishAck2Reason = spec_enum_v5_PublishAck2Reason /\
  gen_enum_v5_PublishAckReason = spec_enum_v5_PublishAckReason /\
  gen_enum_v5_RetainHandling = spec_enum_v5_RetainHandling /\
  gen_enum_v5_SubscribeAckReason = spec_enum_v5_SubscribeAckReason /\
  gen_enum_v5_UnsubscribeAckReason = spec_enum_v5_UnsubscribeAckReason.
Proof. exact reason_codes_are_the_spec_codes. Qed.
Print Assumptions C01_reason_codes_are_spec.

Theorem C01_flag_bits_are_spec :
  gen_flags_ConnectFlags = spec_flags_ConnectFlags /\ gen_flags_ConnectAckFlags = spec_flags_ConnectAckFlags.
Proof. exact flag_bits_are_the_spec_bits. Qed.
Print Assumptions C01_flag_bits_are_spec.

Theorem C01_scalars_are_spec :
  gen_protocol_name = spec_protocol_name /\ gen_MAX_PACKET_SIZE = spec_MAX_PACKET_SIZE /\
  gen_MQTT_LEVEL_3 = spec_MQTT_LEVEL_3 /\ gen_MQTT_LEVEL_5 = spec_MQTT_LEVEL_5 /\
  gen_WILL_QOS_SHIFT = spec_WILL_QOS_SHIFT /\ gen_PUBACK_HEADER_LEN = spec_PUBACK_HEADER_LEN /\
  gen_OUT_SIZE_THRESHOLD = spec_OUT_SIZE_THRESHOLD /\ gen_OUT_SIZE_REDUCTION = spec_OUT_SIZE_REDUCTION /\
  gen_RECEIVE_MAX_DEFAULT = spec_RECEIVE_MAX_DEFAULT.
Proof. exact scalars_are_the_spec_scalars. Qed.
Print Assumptions C01_scalars_are_spec.

(* the hand-written codec models use exactly the translated constants *)
Definition C01_model_v3_constants := model_v3_constants_are_the_source_constants.
Definition C01_model_v5_constants := model_v5_constants_are_the_source_constants.
