(* Props/C01.v -- property C01: packets survive the wire -- encode/decode round trip in the MQTT byte layout (v3 and v5), an independent spec decoder recovers the same fields, properties in any legal order decode to the same values.
   Statements only: each theorem is closed by `exact <lemma>`; the statement text is the lemma's type as
   printed by Coq (assembled by tools/mkprops.py from tools/props_spec/C01.json). *)
From MV Require Import Base.Prelude.
From MV Require Import Base.Res.
From MV Require Import Base.VarInt.
From MV Require Import Proofs.VarIntProofs.
From MV Require Import Gen.Consts.
From MV Require Import Spec.SpecConsts.
From MV Require Import Proofs.ConstsProofs.
From MV Require Import Proofs.ModelConsts.
From MV Require Import Base.Utf8.
From MV Require Import Model.CodecV3.
From MV Require Import Spec.SpecV3.
From MV Require Import Proofs.CodecV3Lib.
From MV Require Import Proofs.CodecV3Enc.
From MV Require Import Proofs.CodecV3Dec.
From MV Require Import Proofs.CodecV3RT.
From MV Require Import Proofs.CodecV3Mal.
From MV Require Import Proofs.CodecV3Stable.
From MV Require Import Proofs.CodecV3Layout.
From MV Require Import Proofs.CodecV3Frag.
From MV Require Import Proofs.CodecV3Sem.
From MV Require Import Proofs.CodecV3FragInd.
From MV Require Import Model.CodecV5.
From MV Require Import Model.Sniff.
From MV Require Import Spec.SpecV5.
From MV Require Import Proofs.CodecV5Fields.
From MV Require Import Proofs.CodecV5Size.
From MV Require Import Proofs.CodecV5Limit.
From MV Require Import Proofs.CodecV5Props.
From MV Require Import Proofs.CodecV5Round.
From MV Require Import Proofs.CodecV5DecBase.
From MV Require Import Proofs.CodecV5Stream.
From MV Require Import Proofs.CodecV5Round2.
From MV Require Import Proofs.CodecV5RT.
From MV Require Import Proofs.CodecV5Order.
From MV Require Import Proofs.CodecV5Layout.
From MV Require Import Proofs.CodecV5Succ.
From MV Require Import Proofs.CodecV5Total.
From MV Require Import Proofs.SniffProofs.
From Coq Require Import String.

(* v3: every packet value in the encoder's domain (all 13 non-publish kinds, any lists and strings) encodes, and decoding the bytes (followed by anything) returns the same value, consuming exactly the bytes produced *)
Theorem C01_v3_roundtrip_packet :
  forall (mc : N) (p : CodecV3.packet),
         CodecV3.packet_ok p = true ->
         packet_fits p = true ->
         packet_rt_ok p = true ->
         get_encoded_size p <= VI_MAX ->
         exists bs : bytes,
           CodecV3.encodev 0 None (CodecV3.EPacket p) [] = (bs, None, Ok tt) /\
           (forall r : list N,
            CodecV3.decode_step 0 mc CodecV3.FrameHeader (bs ++ r) =
            (Ok (Some (IPacket p (get_encoded_size p))), CodecV3.FrameHeader, r)).
Proof. exact CodecV3RT.v3_roundtrip_packet. Qed.
Print Assumptions C01_v3_roundtrip_packet.

(* v3 PUBLISH with any payload *)
Theorem C01_v3_roundtrip_publish :
  forall (mc : N) (p : CodecV3.publish) (payload : bytes),
         CodecV3.publish_ok p = true ->
         publish_fits p = true ->
         CodecV3.p_payload_size p = len payload ->
         get_encoded_publish_size p <= VI_MAX ->
         exists bs : bytes,
           CodecV3.encodev 0 None (CodecV3.EPublish p (Some payload)) [] = (bs, None, Ok tt) /\
           (forall r : list N,
            mc = 0 \/ len (payload ++ r) <= U32MAX ->
            CodecV3.decode_step 0 mc CodecV3.FrameHeader (bs ++ r) =
            (Ok (Some (IPublish p payload (get_encoded_publish_size p))), CodecV3.FrameHeader, r)).
Proof. exact CodecV3RT.v3_roundtrip_publish. Qed.
Print Assumptions C01_v3_roundtrip_publish.

(* the domain conditions are necessary: values the encoder refuses / the decoder refuses *)
Theorem C01_v3_roundtrip_packet_refuted_long_string :
  exists p : CodecV3.packet,
           CodecV3.packet_ok p = true /\
           get_encoded_size p <= VI_MAX /\
           CodecV3.encodev 0 None (CodecV3.EPacket p) [] = ([], None, Err EE_InvalidLength).
Proof. exact CodecV3RT.v3_roundtrip_packet_refuted_long_string. Qed.
Print Assumptions C01_v3_roundtrip_packet_refuted_long_string.

Theorem C01_v3_roundtrip_packet_refuted_client_id :
  exists (p : CodecV3.packet) (bs : bytes),
           CodecV3.packet_ok p = true /\
           packet_fits p = true /\
           CodecV3.encodev 0 None (CodecV3.EPacket p) [] = (bs, None, Ok tt) /\
           CodecV3.decode_step 0 0 CodecV3.FrameHeader bs =
           (Err DE_InvalidClientId, CodecV3.Frame CONNECT 12, []).
Proof. exact CodecV3RT.v3_roundtrip_packet_refuted_client_id. Qed.
Print Assumptions C01_v3_roundtrip_packet_refuted_client_id.

Theorem C01_v3_roundtrip_publish_refuted :
  (exists p : CodecV3.publish,
            CodecV3.publish_ok p = true /\
            get_encoded_publish_size p <= VI_MAX /\
            CodecV3.encodev 0 None (CodecV3.EPublish p (Some [])) [] = ([], None, Err EE_MalformedPacket)) /\
         (exists p : CodecV3.publish,
            CodecV3.publish_ok p = true /\
            get_encoded_publish_size p <= VI_MAX /\
            CodecV3.encodev 0 None (CodecV3.EPublish p (Some [])) [] = ([], None, Err EE_PacketIdRequired)).
Proof. exact CodecV3RT.v3_roundtrip_publish_refuted. Qed.
Print Assumptions C01_v3_roundtrip_publish_refuted.

(* v3: the bytes are the layout the OASIS specification defines: an independent spec decoder (Spec/SpecV3.v) recovers exactly the same field values *)
Theorem C01_v3_layout_packet :
  forall (p : CodecV3.packet) (bs : bytes),
         CodecV3.packet_ok p = true ->
         CodecV3.encodev 0 None (CodecV3.EPacket p) [] = (bs, None, Ok tt) ->
         spec_decode3 bs = Some (SpecV3.to_spec p, []).
Proof. exact CodecV3Layout.v3_layout_packet. Qed.
Print Assumptions C01_v3_layout_packet.

Theorem C01_v3_layout_publish :
  forall (p : CodecV3.publish) (payload bs : bytes),
         CodecV3.publish_ok p = true ->
         CodecV3.p_payload_size p = len payload ->
         CodecV3.encodev 0 None (CodecV3.EPublish p (Some payload)) [] = (bs, None, Ok tt) ->
         spec_decode3 bs = Some (SpecV3.to_spec_publish p payload, []).
Proof. exact CodecV3Layout.v3_layout_publish. Qed.
Print Assumptions C01_v3_layout_publish.

(* v5: every packet kind (all 15), every optional field and property, every reason code *)
Theorem C01_v5_roundtrip :
  forall (c : ecodec) (mi mc : N) (npi : bool) (p : packet),
         ec_max_out_size c = 0 -> ec_no_problem_info c = false -> packet_ok p -> rt_statement c mi mc npi p.
Proof. exact CodecV5RT.v5_roundtrip. Qed.
Print Assumptions C01_v5_roundtrip.

(* v5 PUBLISH with inline buffer and remaining payload *)
Theorem C01_v5_roundtrip_publish :
  forall (c : ecodec) (p : publish) (buf : option bytes) (w : bytes) (c' : ecodec) 
           (more r : list N) (mi mc : N) (npi : bool),
         publish_ok p = true ->
         encodev c (EPublish p buf) = (w, Ok tt, c') ->
         len (inline_payload buf ++ more) = p_payload_size p ->
         let sz := publish_encoded_size p (max_size_of c) in
         mi = 0 \/ sz <= mi ->
         decode_step mi mc npi FrameHeader (w ++ more ++ r) =
         (Ok (Some (DPublish p (inline_payload buf ++ more) sz)), FrameHeader, npi, r).
Proof. exact CodecV5RT.v5_roundtrip_publish. Qed.
Print Assumptions C01_v5_roundtrip_publish.

(* v5: in-domain packets DO encode (no vacuity) and come back *)
Theorem C01_v5_roundtrip_total :
  forall (c : ecodec) (mi mc : N) (npi : bool) (p : packet) (r : list N),
         ec_max_out_size c = 0 ->
         ec_max_out_frame c = 0 ->
         ec_no_problem_info c = false ->
         ec_encoding_payload c = None ->
         packet_ok p ->
         let sz := packet_encoded_size p MAX_PACKET_SIZE in
         sz <= MAX_PACKET_SIZE ->
         mi = 0 \/ sz <= mi ->
         exists w : bytes,
           encodev c (EPacket p) = (w, Ok tt, c) /\
           decode_step mi mc npi FrameHeader (w ++ r) =
           (Ok (Some (DPacket p sz)), FrameHeader, npi_after p npi, r).
Proof. exact CodecV5Total.v5_roundtrip_total. Qed.
Print Assumptions C01_v5_roundtrip_total.

Theorem C01_v5_encode_succeeds :
  forall (c : ecodec) (p : packet),
         ec_encoding_payload c = None ->
         enc_ok p = true ->
         let q := effective c p in
         let sz := packet_encoded_size q (max_size_of c) in
         sz <= max_size_of c ->
         check_frame_size c sz = Ok tt -> exists w : bytes, encodev c (EPacket p) = (w, Ok tt, c).
Proof. exact CodecV5Succ.v5_encode_succeeds. Qed.
Print Assumptions C01_v5_encode_succeeds.

(* v5: an independent table-driven OASIS decoder (Spec/SpecV5.v) recovers the same field values *)
Theorem C01_v5_layout :
  forall (c : ecodec) (p : packet) (w : bytes) (c' : ecodec) (r : list N),
         ec_no_problem_info c = false ->
         packet_dom p (max_size_of c) ->
         spec_legal (to_spec p) = true ->
         encodev c (EPacket p) = (w, Ok tt, c') -> spec_decode5 (w ++ r) = Some (to_spec p, r).
Proof. exact CodecV5Layout.v5_layout. Qed.
Print Assumptions C01_v5_layout.

Theorem C01_v5_layout_publish :
  forall (c : ecodec) (p : publish) (buf : option bytes) (w : bytes) (c' : ecodec) (more r : list N),
         publish_ok p = true ->
         encodev c (EPublish p buf) = (w, Ok tt, c') ->
         len (inline_payload buf ++ more) = p_payload_size p ->
         spec_legal (to_spec_publish p (inline_payload buf ++ more)) = true ->
         spec_decode5 (w ++ more ++ r) = Some (to_spec_publish p (inline_payload buf ++ more), r).
Proof. exact CodecV5Layout.v5_layout_publish. Qed.
Print Assumptions C01_v5_layout_publish.

(* v5: properties in any legal order decode to the same field values *)
Theorem C01_v5_any_order :
  forall (tbl : ptable) (its1 its2 : pbag),
         items_wf tbl [] its1 = true ->
         same_per_id its1 its2 ->
         props_of tbl (enc_items tbl its1) = Ok its1 /\
         props_of tbl (enc_items tbl its2) = Ok its2 /\
         (forall id : N,
          bag_n id its1 = bag_n id its2 /\
          bag_b id its1 = bag_b id its2 /\
          bag_bool id its1 = bag_bool id its2 /\
          bag_ns id its1 = bag_ns id its2 /\ bag_pairs id its1 = bag_pairs id its2).
Proof. exact CodecV5Order.v5_any_order. Qed.
Print Assumptions C01_v5_any_order.

(* all 2^28 variable-byte-integer values round-trip, consuming exactly the bytes produced *)
Theorem C01_varint_roundtrip : forall n b r, enc_vi n = Some b -> dec_vi (b ++ r) = Ok (n, r).
Proof. exact varint_roundtrip. Qed.
Print Assumptions C01_varint_roundtrip.

Theorem C01_varint_domain : forall n, n <= VI_MAX -> exists b, enc_vi n = Some b /\ len b = var_int_len n /\ bytes_ok b = true.
Proof.
  intros n H. destruct (enc_vi_some n H) as [b Hb]. exists b. split; [exact Hb|].
  split; [exact (enc_vi_len n b Hb) | exact (enc_vi_bytes_ok n b Hb)].
Qed.
Print Assumptions C01_varint_domain.

(* the packet-type bytes, property identifiers, reason codes and flag bits that the Rust source
   declares (regenerated from the source text on every run) are those of the OASIS specifications:
   a change made consistently to encoder and decoder is caught here *)
Theorem C01_packet_type_bytes_are_spec : gen_packet_types = spec_packet_types.
Proof. exact packet_type_bytes_are_the_spec_bytes. Qed.
Print Assumptions C01_packet_type_bytes_are_spec.

Theorem C01_property_ids_are_spec : gen_property_types = spec_property_types.
Proof. exact property_ids_are_the_spec_ids. Qed.
Print Assumptions C01_property_ids_are_spec.

Theorem C01_reason_codes_are_spec :
  gen_enum_QoS = spec_enum_QoS /\
  gen_enum_v3_ConnectAckReason = spec_enum_v3_ConnectAckReason /\
  gen_enum_v5_AuthReasonCode = spec_enum_v5_AuthReasonCode /\
  gen_enum_v5_ConnectAckReason = spec_enum_v5_ConnectAckReason /\
  gen_enum_v5_DisconnectReasonCode = spec_enum_v5_DisconnectReasonCode /\
  gen_enum_v5_PublishAck2Reason = spec_enum_v5_PublishAck2Reason /\
  gen_enum_v5_PublishAckReason = spec_enum_v5_PublishAckReason /\
  gen_enum_v5_RetainHandling = spec_enum_v5_RetainHandling /\
  gen_enum_v5_SubscribeAckReason = spec_enum_v5_SubscribeAckReason /\
  gen_enum_v5_UnsubscribeAckReason = spec_enum_v5_UnsubscribeAckReason.
Proof. exact reason_codes_are_the_spec_codes. Qed.
Print Assumptions C01_reason_codes_are_spec.

Theorem C01_flag_bits_are_spec :
  gen_flags_ConnectFlags = spec_flags_ConnectFlags /\ gen_flags_ConnectAckFlags = spec_flags_ConnectAckFlags.
Proof. exact flag_bits_are_the_spec_bits. Qed.
Print Assumptions C01_flag_bits_are_spec.

Theorem C01_scalars_are_spec :
  gen_protocol_name = spec_protocol_name /\ gen_MAX_PACKET_SIZE = spec_MAX_PACKET_SIZE /\
  gen_MQTT_LEVEL_3 = spec_MQTT_LEVEL_3 /\ gen_MQTT_LEVEL_5 = spec_MQTT_LEVEL_5 /\
  gen_WILL_QOS_SHIFT = spec_WILL_QOS_SHIFT /\ gen_PUBACK_HEADER_LEN = spec_PUBACK_HEADER_LEN /\
  gen_OUT_SIZE_THRESHOLD = spec_OUT_SIZE_THRESHOLD /\ gen_OUT_SIZE_REDUCTION = spec_OUT_SIZE_REDUCTION /\
  gen_RECEIVE_MAX_DEFAULT = spec_RECEIVE_MAX_DEFAULT.
Proof. exact scalars_are_the_spec_scalars. Qed.
Print Assumptions C01_scalars_are_spec.

(* the hand-written codec models use exactly the translated constants *)
Definition C01_model_v3_constants := model_v3_constants_are_the_source_constants.
Definition C01_model_v5_constants := model_v5_constants_are_the_source_constants.

