(* Props/C02.v -- property C02: hostile or malformed bytes can neither crash nor desynchronise the decoder (v3 codec, v5 codec, version sniffer).
   Statements only: each theorem is closed by `exact <lemma>`; the statement text is the lemma's type as
   printed by Coq (assembled by tools/mkprops.py from tools/props_spec/C02.json). *)
From MV Require Import Base.Prelude.
From MV Require Import Base.Res.
From MV Require Import Base.VarInt.
From MV Require Import Base.Utf8.
From MV Require Import Model.CodecV3.
From MV Require Import Spec.SpecV3.
From MV Require Import Proofs.CodecV3Lib.
From MV Require Import Proofs.CodecV3Enc.
From MV Require Import Proofs.CodecV3Dec.
From MV Require Import Proofs.CodecV3RT.
From MV Require Import Proofs.CodecV3Mal.
From MV Require Import Proofs.CodecV3Stable.
From MV Require Import Proofs.CodecV3Layout.
From MV Require Import Proofs.CodecV3Frag.
From MV Require Import Proofs.CodecV3Sem.
From MV Require Import Proofs.CodecV3FragInd.
From MV Require Import Model.CodecV5.
From MV Require Import Model.Sniff.
From MV Require Import Spec.SpecV5.
From MV Require Import Proofs.CodecV5Fields.
From MV Require Import Proofs.CodecV5Size.
From MV Require Import Proofs.CodecV5Limit.
From MV Require Import Proofs.CodecV5Props.
From MV Require Import Proofs.CodecV5Round.
From MV Require Import Proofs.CodecV5DecBase.
From MV Require Import Proofs.CodecV5Stream.
From MV Require Import Proofs.CodecV5Round2.
From MV Require Import Proofs.CodecV5RT.
From MV Require Import Proofs.CodecV5Order.
From MV Require Import Proofs.CodecV5Layout.
From MV Require Import Proofs.CodecV5Succ.
From MV Require Import Proofs.CodecV5Total.
From MV Require Import Proofs.SniffProofs.

(* v3: one call of Codec::decode never panics or overflows, for every configuration, state and buffer *)
Theorem C02_v3_decode_total :
  forall (max_size min_chunk : N) (st : CodecV3.dstate) (buf : bytes),
         CodecV3Lib.np (sres (CodecV3.decode_step max_size min_chunk st buf)).
Proof. exact CodecV3Dec.v3_decode_total. Qed.
Print Assumptions C02_v3_decode_total.

(* v3: what is left in the buffer is a suffix of what was there: bytes are consumed from the front only *)
Theorem C02_v3_step_prefix :
  forall (max_size min_chunk : N) (st : CodecV3.dstate) (buf : bytes),
         exists consumed : list N, buf = consumed ++ sbuf (CodecV3.decode_step max_size min_chunk st buf).
Proof. exact CodecV3Dec.v3_step_prefix. Qed.
Print Assumptions C02_v3_step_prefix.

(* v3: a non-publish frame consumes exactly its Remaining Length *)
Theorem C02_v3_frame_consumes_exactly :
  forall (max_size min_chunk fb rl : N) (buf : bytes),
         let out := CodecV3.decode_step max_size min_chunk (CodecV3.Frame fb rl) buf in
         sres out <> Ok None -> exists body : list N, buf = body ++ sbuf out /\ len body = rl.
Proof. exact CodecV3Dec.v3_frame_consumes_exactly. Qed.
Print Assumptions C02_v3_frame_consumes_exactly.

(* v3: the steps of one frame never consume more than fixed header + Remaining Length *)
Theorem C02_v3_consumes_within :
  forall (ms mc : N) (buf : bytes) (o : option CodecV3.item) (st1 : CodecV3.dstate) 
           (buf1 : bytes) (n : N) (st2 : CodecV3.dstate),
         CodecV3.decode_step ms mc CodecV3.FrameHeader buf = (Ok o, st1, buf1) ->
         frame_steps ms mc st1 n st2 ->
         buf1 = buf /\ st1 = CodecV3.FrameHeader /\ o = None \/
         (exists (fb : N) (h r : list N) (rl : N),
            buf = fb :: h ++ r /\
            dec_vi (h ++ r) = Ok (rl, r) /\
            len buf - len buf1 + n + phi st2 = 1 + len h + rl /\
            (forall (bufe : bytes) (e : N) (ste : CodecV3.dstate) (bufe' : bytes),
             CodecV3.decode_step ms mc st2 bufe = (Err e, ste, bufe') ->
             st2 <> CodecV3.FrameHeader -> len buf - len buf1 + n + (len bufe - len bufe') <= 1 + len h + rl)).
Proof. exact CodecV3Dec.v3_consumes_within. Qed.
Print Assumptions C02_v3_consumes_within.

(* v3: a completely buffered frame is never answered `need more` *)
Theorem C02_v3_no_stall :
  forall (ms mc fb : N) (h : list N) (rl : N) (body rest : list N),
         dec_vi (h ++ body ++ rest) = Ok (rl, body ++ rest) ->
         len body = rl ->
         sres (CodecV3.decode_step ms mc CodecV3.FrameHeader (fb :: h ++ body ++ rest)) <> Ok None.
Proof. exact CodecV3Dec.v3_no_stall. Qed.
Print Assumptions C02_v3_no_stall.

Theorem C02_v3_no_stall_frame :
  forall (ms mc fb rl : N) (buf : bytes),
         rl <= len buf -> sres (CodecV3.decode_step ms mc (CodecV3.Frame fb rl) buf) <> Ok None.
Proof. exact CodecV3Dec.v3_no_stall_frame. Qed.
Print Assumptions C02_v3_no_stall_frame.

Theorem C02_v3_no_stall_publish_header :
  forall (ms mc fb rl : N) (buf : bytes),
         rl <= len buf -> sres (CodecV3.decode_step ms mc (CodecV3.PublishHeader fb rl) buf) <> Ok None.
Proof. exact CodecV3Dec.v3_no_stall_publish_header. Qed.
Print Assumptions C02_v3_no_stall_publish_header.

Theorem C02_v3_no_stall_payload :
  forall (ms mc n : N) (buf : bytes),
         n <= len buf ->
         len buf <= U32MAX ->
         CodecV3.decode_step ms mc (CodecV3.PublishPayload n) buf =
         (Ok (Some (IChunk (firstn (N.to_nat n) buf) true)), CodecV3.FrameHeader, skipn (N.to_nat n) buf).
Proof. exact CodecV3Dec.v3_no_stall_payload. Qed.
Print Assumptions C02_v3_no_stall_payload.

(* the u32 cast of the buffer length: only beyond 4 GiB buffers *)
Theorem C02_v3_no_stall_payload_refuted :
  forall ms n : N,
         0 < n ->
         n <= U32MAX ->
         exists buf : bytes,
           n <= len buf /\
           CodecV3.decode_step ms 0 (CodecV3.PublishPayload n) buf = (Ok None, CodecV3.PublishPayload n, buf).
Proof. exact CodecV3Dec.v3_no_stall_payload_refuted. Qed.
Print Assumptions C02_v3_no_stall_payload_refuted.

(* v3: a frame longer than the inbound maximum is rejected as soon as the fixed header is seen, whatever follows *)
Theorem C02_v3_oversize_rejected_at_header :
  forall (max_size min_chunk fb rl : N) (vi : bytes) (any : list N),
         max_size <> 0 ->
         max_size < rl ->
         enc_vi rl = Some vi ->
         CodecV3.decode_step max_size min_chunk CodecV3.FrameHeader (fb :: vi ++ any) =
         (Err DE_MaxSizeExceeded, CodecV3.FrameHeader, fb :: vi ++ any).
Proof. exact CodecV3Dec.v3_oversize_rejected_at_header. Qed.
Print Assumptions C02_v3_oversize_rejected_at_header.

(* v3 malformations are errors, never items *)
Theorem C02_v3_zero_packet_id :
  (forall (ms mc fb rl : N) (body rest : list N),
          has_packet_id fb = true ->
          len (0 :: 0 :: body) = rl ->
          CodecV3.decode_step ms mc (CodecV3.Frame fb rl) (0 :: 0 :: body ++ rest) =
          (Err DE_MalformedPacket, CodecV3.Frame fb rl, rest)) /\
         (forall (ms mc fb rl : N) (topic : bytes) (rest : list N),
          (fb / 2) mod 4 = 1 \/ (fb / 2) mod 4 = 2 ->
          len topic <= CodecV3.U16MAX ->
          exists (e : N) (buf' : bytes),
            CodecV3.decode_step ms mc (CodecV3.PublishHeader fb rl) (str16 topic ++ 0 :: 0 :: rest) =
            (Err e, CodecV3.PublishHeader fb rl, buf')).
Proof. exact CodecV3Mal.v3_zero_packet_id. Qed.
Print Assumptions C02_v3_zero_packet_id.

Theorem C02_v3_qos3 :
  forall (ms mc fb rl : N) (buf : bytes),
         (fb / 2) mod 4 = 3 ->
         (forall it : CodecV3.item,
          sres (CodecV3.decode_step ms mc (CodecV3.PublishHeader fb rl) buf) <> Ok (Some it)) /\
         (2 <= len buf ->
          exists e : N,
            CodecV3.decode_step ms mc (CodecV3.PublishHeader fb rl) buf =
            (Err e, CodecV3.PublishHeader fb rl, buf)).
Proof. exact CodecV3Mal.v3_qos3. Qed.
Print Assumptions C02_v3_qos3.

Theorem C02_v3_qos3_header :
  forall (ms mc fb : N) (h : list N) (rl a b : N) (rest : list N),
         CodecV3.is_publish fb = true ->
         (fb / 2) mod 4 = 3 ->
         dec_vi (h ++ a :: b :: rest) = Ok (rl, a :: b :: rest) ->
         ms = 0 \/ rl <= ms ->
         exists e : N,
           CodecV3.decode_step ms mc CodecV3.FrameHeader (fb :: h ++ a :: b :: rest) =
           (Err e, CodecV3.PublishHeader fb rl, a :: b :: rest).
Proof. exact CodecV3Mal.v3_qos3_header. Qed.
Print Assumptions C02_v3_qos3_header.

Theorem C02_v3_bad_utf8 :
  (forall (ms mc fb rl : N) (topic : bytes) (rest : list N),
          utf8_valid topic = false ->
          len topic <= CodecV3.U16MAX ->
          (forall it : CodecV3.item,
           sres (CodecV3.decode_step ms mc (CodecV3.PublishHeader fb rl) (str16 topic ++ rest)) <> Ok (Some it)) /\
          (rl <= len (str16 topic ++ rest) ->
           is_err (sres (CodecV3.decode_step ms mc (CodecV3.PublishHeader fb rl) (str16 topic ++ rest))))) /\
         (forall (ms mc flags k1 k2 : N) (cid : bytes) (tail rest : list N) (rl : N),
          utf8_valid cid = false ->
          rl = len (connect_prefix flags k1 k2 ++ str16 cid ++ tail) ->
          exists e : N,
            CodecV3.decode_step ms mc (CodecV3.Frame CONNECT rl)
              ((connect_prefix flags k1 k2 ++ str16 cid ++ tail) ++ rest) =
            (Err e, CodecV3.Frame CONNECT rl, rest)) /\
         (forall (ms mc fb i1 i2 : N) (filter : bytes) (tail rest : list N) (rl : N),
          fb = SUBSCRIBE \/ fb = UNSUBSCRIBE ->
          utf8_valid filter = false ->
          rl = len (i1 :: i2 :: str16 filter ++ tail) ->
          exists e : N,
            CodecV3.decode_step ms mc (CodecV3.Frame fb rl) ((i1 :: i2 :: str16 filter ++ tail) ++ rest) =
            (Err e, CodecV3.Frame fb rl, rest)).
Proof. exact CodecV3Mal.v3_bad_utf8. Qed.
Print Assumptions C02_v3_bad_utf8.

Theorem C02_v3_inner_len_exceeds_rl :
  (forall (ms mc fb rl a b : N) (rest : list N),
          rl < a * 256 + b + 2 ->
          exists e : N,
            CodecV3.decode_step ms mc (CodecV3.PublishHeader fb rl) (a :: b :: rest) =
            (Err e, CodecV3.PublishHeader fb rl, a :: b :: rest)) /\
         (forall (ms mc fb rl a b : N) (rest : list N),
          (fb / 2) mod 4 = 1 \/ (fb / 2) mod 4 = 2 ->
          rl < a * 256 + b + 4 ->
          CodecV3.decode_step ms mc (CodecV3.PublishHeader fb rl) (a :: b :: rest) =
          (Err DE_InvalidLength, CodecV3.PublishHeader fb rl, a :: b :: rest)) /\
         (forall (ms mc fb i1 i2 a b : N) (s : bytes) (rest : list N) (rl : N),
          fb = SUBSCRIBE \/ fb = UNSUBSCRIBE ->
          len s < a * 256 + b ->
          rl = len (i1 :: i2 :: a :: b :: s) ->
          exists e : N,
            CodecV3.decode_step ms mc (CodecV3.Frame fb rl) ((i1 :: i2 :: a :: b :: s) ++ rest) =
            (Err e, CodecV3.Frame fb rl, rest)) /\
         (forall (ms mc flags k1 k2 a b : N) (s : bytes) (rest : list N) (rl : N),
          len s < a * 256 + b ->
          rl = len (connect_prefix flags k1 k2 ++ a :: b :: s) ->
          exists e : N,
            CodecV3.decode_step ms mc (CodecV3.Frame CONNECT rl)
              ((connect_prefix flags k1 k2 ++ a :: b :: s) ++ rest) = (Err e, CodecV3.Frame CONNECT rl, rest)).
Proof. exact CodecV3Mal.v3_inner_len_exceeds_rl. Qed.
Print Assumptions C02_v3_inner_len_exceeds_rl.

(* v3: whatever is accepted is inside the encoder's domain *)
Theorem C02_v3_accepted_packet :
  forall (ms mc : N) (buf : bytes) (p : CodecV3.packet) (rl : N) (st' : CodecV3.dstate) (buf' : bytes),
         bytes_ok buf = true ->
         CodecV3.decode_step ms mc CodecV3.FrameHeader buf = (Ok (Some (IPacket p rl)), st', buf') ->
         CodecV3.packet_ok p = true /\
         packet_fits p = true /\ packet_rt_ok p = true /\ get_encoded_size p <= rl <= VI_MAX.
Proof. exact CodecV3Stable.v3_accepted_packet. Qed.
Print Assumptions C02_v3_accepted_packet.

Theorem C02_v3_accepted_publish :
  forall (ms mc : N) (buf : bytes) (p : CodecV3.publish) (pl : bytes) (rl : N) 
           (st' : CodecV3.dstate) (buf' : bytes),
         bytes_ok buf = true ->
         CodecV3.decode_step ms mc CodecV3.FrameHeader buf = (Ok (Some (IPublish p pl rl)), st', buf') ->
         CodecV3.publish_ok p = true /\
         publish_fits p = true /\
         get_encoded_publish_size p = rl /\ rl <= VI_MAX /\ len pl <= CodecV3.p_payload_size p.
Proof. exact CodecV3Stable.v3_accepted_publish. Qed.
Print Assumptions C02_v3_accepted_publish.

(* v3: re-encoding an accepted packet and decoding again yields the same packet *)
Theorem C02_v3_accepted_is_stable :
  forall (ms mc : N) (buf : bytes) (st' : CodecV3.dstate) (buf' : bytes),
         bytes_ok buf = true ->
         (forall (p : CodecV3.packet) (rl : N),
          CodecV3.decode_step ms mc CodecV3.FrameHeader buf = (Ok (Some (IPacket p rl)), st', buf') ->
          CodecV3.packet_ok p = true /\
          (exists bs : bytes,
             CodecV3.encodev 0 None (CodecV3.EPacket p) [] = (bs, None, Ok tt) /\
             (forall (mc' : N) (r : list N),
              CodecV3.decode_step 0 mc' CodecV3.FrameHeader (bs ++ r) =
              (Ok (Some (IPacket p (get_encoded_size p))), CodecV3.FrameHeader, r)))) /\
         (forall (p : CodecV3.publish) (pl : bytes) (rl : N),
          CodecV3.decode_step ms mc CodecV3.FrameHeader buf = (Ok (Some (IPublish p pl rl)), st', buf') ->
          CodecV3.publish_ok p = true /\
          (forall payload : bytes,
           len payload = CodecV3.p_payload_size p ->
           exists bs : bytes,
             CodecV3.encodev 0 None (CodecV3.EPublish p (Some payload)) [] = (bs, None, Ok tt) /\
             (forall r : list N,
              len (payload ++ r) <= U32MAX ->
              forall mc' : N,
              CodecV3.decode_step 0 mc' CodecV3.FrameHeader (bs ++ r) =
              (Ok (Some (IPublish p payload rl)), CodecV3.FrameHeader, r)))).
Proof. exact CodecV3Stable.v3_accepted_is_stable. Qed.
Print Assumptions C02_v3_accepted_is_stable.

(* v5: one call of Codec::decode never panics, from every well-formed decoder state (dstate_wf is executable and preserved) *)
Theorem C02_v5_decode_total :
  forall (mi mc : N) (npi : bool) (st : dstate) (src : bytes),
         dstate_wf st = true -> nopanic (dr_res (decode_step mi mc npi st src)).
Proof. exact CodecV5Stream.v5_decode_total. Qed.
Print Assumptions C02_v5_decode_total.

Theorem C02_v5_wf_preserved :
  forall (mi mc : N) (npi : bool) (st : dstate) (src : bytes),
         dstate_wf st = true -> dstate_wf (dr_state (decode_step mi mc npi st src)) = true.
Proof. exact CodecV5Stream.v5_wf_preserved. Qed.
Print Assumptions C02_v5_wf_preserved.

(* every state reachable from FrameHeader is well-formed *)
Theorem C02_v5_reachable_wf :
  forall (mi mc : N) (st : dstate), v5_reachable mi mc st -> dstate_wf st = true.
Proof. exact CodecV5Stream.v5_reachable_wf. Qed.
Print Assumptions C02_v5_reachable_wf.

(* the well-formedness side condition is necessary for the model: an ill-formed PublishProperties state (not reachable) would underflow *)
Theorem C02_v5_decode_total_refuted :
  exists (mi mc : N) (npi : bool) (st : dstate) (src : bytes) (p : N),
           dr_res (decode_step mi mc npi st src) = Panic p.
Proof. exact CodecV5Stream.v5_decode_total_refuted. Qed.
Print Assumptions C02_v5_decode_total_refuted.

Theorem C02_v5_step_prefix :
  forall (mi mc : N) (npi : bool) (st : dstate) (src : bytes),
         exists p : list N, src = p ++ dr_src (decode_step mi mc npi st src).
Proof. exact CodecV5Stream.v5_step_prefix. Qed.
Print Assumptions C02_v5_step_prefix.

Theorem C02_v5_no_stall :
  forall (mi mc : N) (npi : bool),
         (forall (fb rl : N) (src : bytes),
          rl <= len src -> dr_res (decode_step mi mc npi (Frame fb rl) src) <> Ok None) /\
         (forall (fb rl : N) (src : bytes),
          rl <= len src -> dr_res (decode_step mi mc npi (PublishHeader fb rl) src) <> Ok None) /\
         (forall (pl fb rl : N) (src : bytes),
          pl <= len src -> dr_res (decode_step mi mc npi (PublishProperties pl fb rl) src) <> Ok None) /\
         (forall (rem : N) (src : bytes),
          rem <= len src -> dr_res (decode_step mi mc npi (PublishPayload rem) src) <> Ok None) /\
         (forall (fb rl : N) (vi rest : bytes),
          enc_vi rl = Some vi ->
          rl <= len rest -> dr_res (decode_step mi mc npi FrameHeader (fb :: vi ++ rest)) <> Ok None).
Proof. exact CodecV5Stream.v5_no_stall. Qed.
Print Assumptions C02_v5_no_stall.

Theorem C02_v5_no_stall_frame :
  forall (mi mc : N) (npi : bool) (fb rl : N) (src : bytes),
         rl <= len src -> dr_res (decode_step mi mc npi (Frame fb rl) src) <> Ok None.
Proof. exact CodecV5Stream.v5_no_stall_frame. Qed.
Print Assumptions C02_v5_no_stall_frame.

Theorem C02_v5_no_stall_publish_header :
  forall (mi mc : N) (npi : bool) (fb rl : N) (src : bytes),
         rl <= len src -> dr_res (decode_step mi mc npi (PublishHeader fb rl) src) <> Ok None.
Proof. exact CodecV5Stream.v5_no_stall_publish_header. Qed.
Print Assumptions C02_v5_no_stall_publish_header.

Theorem C02_v5_no_stall_publish_properties :
  forall (mi mc : N) (npi : bool) (pl fb rl : N) (src : bytes),
         pl <= len src -> dr_res (decode_step mi mc npi (PublishProperties pl fb rl) src) <> Ok None.
Proof. exact CodecV5Stream.v5_no_stall_publish_properties. Qed.
Print Assumptions C02_v5_no_stall_publish_properties.

Theorem C02_v5_no_stall_publish_payload :
  forall (mi mc : N) (npi : bool) (rem : N) (src : bytes),
         rem <= len src -> dr_res (decode_step mi mc npi (PublishPayload rem) src) <> Ok None.
Proof. exact CodecV5Stream.v5_no_stall_publish_payload. Qed.
Print Assumptions C02_v5_no_stall_publish_payload.

(* v5: the PUBLISH header/properties never ask for bytes beyond the announced frame *)
Theorem C02_v5_header_within_frame :
  forall (mi mc : N) (npi : bool) (fb rl : N) (src : bytes),
         rl <= len src ->
         dr_res (decode_step mi mc npi (PublishHeader fb rl) src) <> Ok None /\
         (forall l : N, packet_header_size src fb rl = Ok (Some l) -> l <= rl) /\
         (forall x y : list N,
          packet_header_size (firstn (N.to_nat rl) src ++ x) fb rl =
          packet_header_size (firstn (N.to_nat rl) src ++ y) fb rl).
Proof. exact CodecV5Stream.v5_header_within_frame. Qed.
Print Assumptions C02_v5_header_within_frame.

Theorem C02_v5_oversize_rejected_at_header :
  forall (mi mc : N) (npi : bool) (fb rl : N) (vi : bytes) (rest : list N),
         mi <> 0 ->
         enc_vi rl = Some vi ->
         mi < rl ->
         decode_step mi mc npi FrameHeader (fb :: vi ++ rest) =
         (Err DE_MaxSizeExceeded, FrameHeader, npi, fb :: vi ++ rest).
Proof. exact CodecV5Stream.v5_oversize_rejected_at_header. Qed.
Print Assumptions C02_v5_oversize_rejected_at_header.

Theorem C02_v5_unknown_property :
  forall (f : nat) (tbl : N -> option (pkind * bool)) (acc : pbag) (id : N) (r : list N),
         tbl id = None -> parse_props (S f) tbl acc (id :: r) = Err DE_MalformedPacket.
Proof. exact CodecV5Stream.v5_unknown_property. Qed.
Print Assumptions C02_v5_unknown_property.

Theorem C02_v5_dup_once_only :
  forall (f : nat) (tbl : N -> option (pkind * bool)) (acc : pbag) (id : N) (k : pkind) (r : list N),
         tbl id = Some (k, true) ->
         bag_has id acc = true -> parse_props (S f) tbl acc (id :: r) = Err DE_MalformedPacket.
Proof. exact CodecV5Stream.v5_dup_once_only. Qed.
Print Assumptions C02_v5_dup_once_only.

Theorem C02_v5_unknown_reason_code :
  forall (src : bytes) (id rc : N) (r : list N),
         publish_ack_reason_ok rc = false ->
         dec_nz16 src = Ok (id, rc :: r) -> publish_ack_decode src = Err DE_MalformedPacket.
Proof. exact CodecV5Stream.v5_unknown_reason_code. Qed.
Print Assumptions C02_v5_unknown_reason_code.

Theorem C02_v5_zero_packet_id :
  forall (fb : N) (r : list N),
         In fb pid_packets -> decode_packet fb (0 :: 0 :: r) = Err DE_MalformedPacket.
Proof. exact CodecV5Stream.v5_zero_packet_id. Qed.
Print Assumptions C02_v5_zero_packet_id.

Theorem C02_v5_qos3 :
  forall (src : list N) (fb rl : N),
         flags_qos fb = 3 ->
         2 <= rl -> (2 <= length src)%nat -> packet_header_size src fb rl = Err DE_MalformedPacket.
Proof. exact CodecV5Stream.v5_qos3. Qed.
Print Assumptions C02_v5_qos3.

Theorem C02_v5_bad_utf8 :
  forall s b r : bytes,
         dec_bytes s = Ok (b, r) -> utf8_valid b = false -> dec_string s = Err DE_Utf8Error.
Proof. exact CodecV5Stream.v5_bad_utf8. Qed.
Print Assumptions C02_v5_bad_utf8.

Theorem C02_v5_inner_len_exceeds_rl :
  forall (s : bytes) (n : N) (r : bytes),
         dec_vi s = Ok (n, r) -> len r < n -> take_properties s = Err DE_InvalidLength.
Proof. exact CodecV5Stream.v5_inner_len_exceeds_rl. Qed.
Print Assumptions C02_v5_inner_len_exceeds_rl.

(* version sniffer: never panics *)
Theorem C02_sniff_total :
  forall b : bytes, match sniff b with
                           | Panic _ => False
                           | _ => True
                           end.
Proof. exact SniffProofs.sniff_total. Qed.
Print Assumptions C02_sniff_total.

(* pure: looks at most at the first 12 bytes and consumes nothing *)
Theorem C02_sniff_consumes_nothing :
  forall b : bytes, sniff b = sniff (firstn 12 b).
Proof. exact SniffProofs.sniff_consumes_nothing. Qed.
Print Assumptions C02_sniff_consumes_nothing.

(* a decision (version or error) is stable under more bytes *)
Theorem C02_sniff_prefix_stable :
  forall (b : bytes) (more : list N),
         (forall v : N, sniff b = Ok (Some v) -> sniff (b ++ more) = Ok (Some v)) /\
         (forall e : N, sniff b = Err e -> sniff (b ++ more) = Err e) /\
         (sniff b = Ok None -> (length b < 12)%nat).
Proof. exact SniffProofs.sniff_prefix_stable. Qed.
Print Assumptions C02_sniff_prefix_stable.

(* `need more` only while more bytes could still decide *)
Theorem C02_sniff_none_undecided :
  forall b : bytes, sniff b = Ok None -> exists more : list N, sniff (b ++ more) <> Ok None.
Proof. exact SniffProofs.sniff_none_undecided. Qed.
Print Assumptions C02_sniff_none_undecided.

