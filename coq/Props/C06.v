(* Props/C06.v -- property C06: acknowledgements are matched to sends by packet identifier, in order.
   Statements only; the model is Model/Sink.v, the proofs are in Proofs/SinkProofs.v (invariant: Proofs/SinkInv.v).

   Vocabulary.  [sink_inv s]: the invariant of Proofs/SinkInv.v; it holds in every state reachable from
   [sink_init] by any list of operations ([C06_reachable]) together with [settled s] (io open or closed).
   A task in state [TAwaitAck c id] is an awaiting send whose packet with identifier [id] has been written and
   which awaits the acknowledgement on the one-shot channel [c]; [TAwaitComp c] is a released QoS 2 receipt
   awaiting PUBCOMP; [cg s c] is channel [c]; ack kinds: 1 PUBACK, 2 PUBREC, 3 PUBCOMP, 4 SUBACK, 5 UNSUBACK;
   [exp_kind x] is the kind the send of task [x] must be answered with (QoS 1 / streamed: 1, QoS 2: 2,
   subscribe: 4, unsubscribe: 5); [awaits x c k id]: task [x] awaits an ack of kind [k] on [c].
   [ack_one s k id]: the dispatcher processes one acknowledgement; [OAcks l] a batch of them.
   Facts about [good_peer] one has to know: PUBREC re-queues the entry at the BACK of the queue, so a peer must send
   the PUBCOMP of an exchange after the acknowledgements of everything sent before the PUBREL; a SUBACK/UNSUBACK
   read by a server-role dispatcher is ignored (server-side subscribe never completes). *)
From MV Require Import Base.Prelude Model.Sink Proofs.SinkInv Proofs.SinkProofs.

Theorem C06_reachable : forall (v : N) (cl : bool) (c : N) (ops : list op),
  sink_inv (run_from (sink_init v cl c) ops) /\ settled (run_from (sink_init v cl c) ops).
Proof. exact inv_reachable. Qed.
Print Assumptions C06_reachable.

Theorem C06_step : forall (s : sink) (o : op),
  sink_inv s -> settled s -> sink_inv (sink_op s o) /\ settled (sink_op s o).
Proof. exact inv_sink_op. Qed.
Print Assumptions C06_step.

(* packet identifiers of outstanding sends are pairwise distinct and non-zero, and (while the connection is open) the
   id set is exactly the identifiers in the queue -- for every operation list, in particular across the
   65535 -> 1 wrap of the id counter (OSetIdx presets it) *)
Theorem C06_ids_distinct_nonzero : forall (s : sink), sink_inv s ->
  NoDup (map fst3 (inflight s)) /\ (forall e, In e (inflight s) -> fst3 e <> 0) /\
  (io s = 0 -> forall i, memN i (ids s) = true <-> In i (map fst3 (inflight s))).
Proof. exact ids_inv. Qed.
Print Assumptions C06_ids_distinct_nonzero.

(* an explicit identifier that is still in flight is refused with PacketIdInUse; nothing is queued *)
Theorem C06_explicit_id_in_use_refused : forall (s : sink) (t k idq size : N),
  sink_inv s -> io s = 0 -> find_task t (tasks s) = None ->
  (k = 1 \/ k = 2 \/ k = 3 \/ k = 4 \/ k = 7) -> idq <> 0 -> In idq (map fst3 (inflight s)) ->
  srem s = 0 -> lenN (inflight s) < cap s -> wrb s = false ->
  (exists x, find_task t (tasks (start_task s t k idq size)) = Some x /\ tst x = TDone ST_IDINUSE) /\
  inflight (start_task s t k idq size) = inflight s.
Proof. exact explicit_id_in_use_refused. Qed.
Print Assumptions C06_explicit_id_in_use_refused.

(* the channel an awaiting send (or a released receipt) waits on is completed only while the dispatcher processes
   an acknowledgement (k, id') that finds the entry (id', this channel, k) at the HEAD of the queue, with k the
   kind this send must be answered with and id' its packet identifier; the value delivered is that kind *)
Theorem C06_ack_goes_to_head : forall (s : sink) (o : op) (t : N) (x : task) (c : nat) (k id : N),
  sink_inv s -> settled s -> find_task t (tasks s) = Some x -> awaits x c k id ->
  c_st (cg s c) <> CFilled -> c_st (cg (sink_op s o) c) = CFilled ->
  exists l1 id' l2, o = OAcks (l1 ++ (k, id') :: l2) /\ (forall i, tst x = TAwaitAck c i -> id' = i) /\ id' <> 0 /\
    let s1 := ack_list (set_wire s []) l1 in
    io s1 = 0 /\ (exists rest, inflight s1 = (id', Some c, k) :: rest) /\ c_val (cg (sink_op s o) c) = k.
Proof. exact ack_goes_to_head. Qed.
Print Assumptions C06_ack_goes_to_head.

(* and a send returns Ok / a receipt only by finding its channel completed *)
Theorem C06_ok_only_if_filled : forall (s : sink) (t : N) (x : task) (c : nat) (id : N) (x' : task),
  find_task t (tasks s) = Some x -> tst x = TAwaitAck c id ->
  find_task t (tasks (poll_task s t)) = Some x' -> (tst x' = TDone ST_OK \/ tst x' = TReceipt id) ->
  c_st (cg s c) = CFilled.
Proof. exact ok_only_if_filled. Qed.
Print Assumptions C06_ok_only_if_filled.

(* an acknowledgement that does not answer the oldest outstanding send (packet id 0, nothing outstanding, other id,
   other kind): for ANY state, no task changes (in particular none becomes Ok and none panics), no channel is
   completed, the queues are cleared and the connection is no longer open *)
Theorem C06_mismatch_is_clean : forall (s : sink) (k id : N),
  ack_seen s k = true -> (id =? 0) || negb (head_matches s k id) = true ->
  let s' := ack_one s k id in
  tasks s' = tasks s /\ io s' <> 0 /\ inflight s' = [] /\ waiters s' = [] /\
  forall c, c_st (cg s' c) = CFilled -> c_st (cg s c) = CFilled /\ c_val (cg s' c) = c_val (cg s c).
Proof. exact mismatch_is_clean. Qed.
Print Assumptions C06_mismatch_is_clean.

(* ... and every send still waiting for its acknowledgement sees its channel cancelled (it ends with Disconnected) *)
Theorem C06_mismatch_fails_pending : forall (s : sink) (k id t : N) (x : task) (c : nat) (i : N),
  sink_inv s -> ack_seen s k = true -> (id =? 0) || negb (head_matches s k id) = true ->
  find_task t (tasks s) = Some x -> tst x = TAwaitAck c i -> c_st (cg s c) = COpen ->
  c_st (cg (ack_one s k id) c) = CSenderDropped.
Proof. exact mismatch_fails_pending. Qed.
Print Assumptions C06_mismatch_fails_pending.

(* an identifier may be reused once its exchange has finished *)
Theorem C06_id_reusable_after_finish : forall (s : sink) (k id : N),
  ack_seen s k = true -> id <> 0 -> head_matches s k id = true -> k <> 2 ->
  memN id (ids (ack_one s k id)) = false.
Proof. exact id_reusable_after_finish. Qed.
Print Assumptions C06_id_reusable_after_finish.

(* a peer whose every acknowledgement answers the current head ([good_peer], executable) never makes the
   acknowledgement processing end the connection, whatever sends failed locally before *)
Theorem C06_good_peer_never_closes : forall (pre : list op) (s : sink) (l : list (N * N)) (post : list op),
  sink_inv s -> settled s -> good_peer s (pre ++ OAcks l :: post) = true ->
  io (run_from s (pre ++ [OAcks l])) = io (run_from s pre).
Proof. exact good_peer_never_closes. Qed.
Print Assumptions C06_good_peer_never_closes.

(* and in every reachable state of an open connection a send whose entry has left the queue (it was written and
   acknowledged) has its acknowledgement of the expected kind waiting: its next poll returns Ok (a receipt for QoS 2) *)
Theorem C06_good_peer_all_complete : forall (s : sink) (t : N) (x : task) (c : nat) (id : N),
  sink_inv s -> io s = 0 -> find_task t (tasks s) = Some x -> tst x = TAwaitAck c id ->
  (forall tp, ~ In (id, Some c, tp) (inflight s)) ->
  c_st (cg s c) = CFilled /\ c_val (cg s c) = exp_kind x /\
  exists x', find_task t (tasks (poll_task s t)) = Some x' /\
             tst x' = (if tk x =? 2 then TReceipt id else TDone ST_OK).
Proof. exact acked_send_completes. Qed.
Print Assumptions C06_good_peer_all_complete.

(* a QoS 1 send whose PUBLISH the encoder refuses because it is larger than the maximum outbound packet size
   (task kind 8; `Err(e) => Err(SendPacketError::Encode(e))` in wait_publish_response) reserves nothing: in the
   operation in which the task ends with the Encode error -- it is started, created, or polled (also after having
   been parked behind the send window and woken) -- the in-flight queue, the set of identifiers in use, the receipt
   map, the waiter queue, the streaming waiter, the streaming state of the sink and of the codec are what they were
   before the operation and nothing is written: the identifier is free for the next send *)
Theorem C06_failed_publish_reserves_nothing : forall (s : sink) (o : op) (t : N) (x' : task),
  (o = OPoll t \/ exists k idq size, o = OStart t k idq size \/ o = OCreate t k idq size) ->
  find_task t (tasks (sink_op s o)) = Some x' -> tk x' = 8 ->
  (tst x' = TDone ST_ENCODE \/ tst x' = TDeferred ST_ENCODE) ->
  let s' := sink_op s o in
  inflight s' = inflight s /\ ids s' = ids s /\ rxm s' = rxm s /\ waiters s' = waiters s /\ swait s' = swait s /\
  srem s' = srem s /\ crem s' = crem s /\ wire s' = [].
Proof. exact failed_publish_reserves_nothing. Qed.
Print Assumptions C06_failed_publish_reserves_nothing.

(* non-vacuity: a send with the explicit identifier 7 that cannot be encoded fails with the Encode error and leaves
   nothing behind; the next send with the same identifier is written, acknowledged and completes; with automatic
   identifiers the failed send has consumed one (set_publish_id runs before the encode); a failing sender that was
   parked behind a full window and woken by an acknowledgement fails when it is polled and writes nothing *)
Example C06_failed_publish_nonvacuous :
  let s0 := sink_init 5 false 2 in
  let s1 := run_from s0 [OStart 1 8 7 0] in
  let s2 := run_from s1 [OStart 2 1 7 0] in
  let s3 := run_from s2 [OAcks [(1, 7)]; OPoll 2] in
  let a := run_from (sink_init 3 true 1) [OStart 1 8 0 0; OStart 2 1 0 0] in
  let p1 := run_from (sink_init 3 false 1) [OStart 1 1 0 0; OStart 2 8 0 0; OAcks [(1, 1)]] in
  let p2 := run_from p1 [OPoll 2] in
  map (fun p => status_of (tst (snd p))) (tasks s1) = [ST_ENCODE] /\ inflight s1 = [] /\ ids s1 = [] /\ wire s1 = [] /\
  map (fun p => status_of (tst (snd p))) (tasks s2) = [ST_ENCODE; ST_PENDING] /\ ids s2 = [7] /\ wire s2 = [W_PUB1; 7] /\
  map (fun p => status_of (tst (snd p))) (tasks s3) = [ST_ENCODE; ST_OK] /\ inflight s3 = [] /\ ids s3 = [] /\ io s3 = 0 /\
  map (fun p => status_of (tst (snd p))) (tasks a) = [ST_ENCODE; ST_PENDING] /\ ids a = [2] /\ wire a = [W_PUB1; 2] /\
  map (fun p => status_of (tst (snd p))) (tasks p1) = [ST_PENDING; ST_PENDING] /\ lenN (waiters p1) = 0 /\
  map (fun p => status_of (tst (snd p))) (tasks p2) = [ST_PENDING; ST_ENCODE] /\ inflight p2 = [] /\ ids p2 = [] /\
  wire p2 = [] /\ idx p2 = 2.
Proof. vm_compute. repeat split; reflexivity. Qed.

(* non-vacuity: ids wrap 65535 -> 1, the in-order peer completes everything, an explicit id in use is refused and
   accepted again after its ack; a PUBACK for a QoS 2 send ends the connection *)
Example C06_nonvacuous :
  let ops := [OSetIdx 65534; OSetCap 5; OStart 1 1 0 0; OStart 2 2 0 0; OStart 3 1 65535 0; OStart 4 3 0 0;
              OAcks [(1, 65535); (2, 1)]; OPoll 1; OPoll 2; OAcks [(4, 2)]; OPoll 4; OStart 5 1 65535 0] in
  let s := run_from (sink_init 3 true 1) ops in
  good_peer (sink_init 3 true 1) ops = true /\ io s = 0 /\
  map (fun e => fst3 e) (inflight s) = [1; 65535] /\
  map (fun p => status_of (tst (snd p))) (tasks s) = [ST_OK; ST_OK; ST_IDINUSE; ST_OK; ST_PENDING] /\
  io (run_from (sink_init 3 true 1) (ops ++ [OAcks [(1, 1)]])) = 2.
Proof. vm_compute. repeat split; reflexivity. Qed.
