(* Proofs/CodecV5Round.v -- decode after encode: the acknowledgement family, DISCONNECT, AUTH, CONNACK
   (packets whose diagnostics may be dropped to meet the peer's limit), then the other kinds. *)
From Coq Require Import ZArith ZifyN ZifyBool Lia.
From MV Require Import Base.Prelude Base.Res Base.VarInt Base.Utf8 Model.CodecV5
  Proofs.VarIntProofs Proofs.CodecV5Fields Proofs.CodecV5Size Proofs.CodecV5Limit Proofs.CodecV5Props.
Ltac Zify.zify_post_hook ::= Z.div_mod_to_equations.

Definition is_prefix {A} (a b : list A) : Prop := exists tl, b = a ++ tl.
Lemma is_prefix_refl {A} (a : list A) : is_prefix a a.
Proof. exists []. now rewrite app_nil_r. Qed.
Lemma is_prefix_nil {A} (a : list A) : is_prefix [] a.
Proof. now exists a. Qed.
Lemma is_prefix_cons {A} (x : A) a b : is_prefix a b -> is_prefix (x :: a) (x :: b).
Proof. intros [tl ->]. now exists tl. Qed.

Definition opt_ok {A} (f : A -> bool) (o : option A) : bool := match o with Some x => f x | None => true end.

Lemma uprops_ok_prefix a b : is_prefix a b -> uprops_ok b = true -> uprops_ok a = true.
Proof. intros [tl ->]. unfold uprops_ok. rewrite forallb_app. intros H. now apply andb_true_iff in H as [? _]. Qed.

(* size of all the diagnostics *)
Definition diag_size (ups : uprops) (reason : option bytes) : N := es_uprops ups + eps es_bytes reason.

Lemma esop_full ups reason lim : diag_size ups reason <= lim -> encoded_size_opt_props ups reason lim = diag_size ups reason.
Proof.
  unfold diag_size. revert lim. induction ups as [|p r IH]; intros lim H; cbn [encoded_size_opt_props es_uprops] in *.
  - destruct reason as [s|]; cbn [eps] in *; [|reflexivity].
    replace (1 + es_bytes s <=? lim) with true by lia. lia.
  - replace (lim <? 1 + es_uprop p) with false by lia. rewrite IH by lia. lia.
Qed.

Lemma diag_size_0 ups reason : diag_size ups reason = 0 -> ups = [] /\ reason = None.
Proof.
  unfold diag_size. destruct ups as [|p r]; cbn [es_uprops]; [|lia].
  destruct reason; cbn [eps]; [lia|auto].
Qed.

(* what encode_opt_props wrote: a prefix of the user properties, then the reason string or nothing;
   everything if it fits *)
Lemma eop_items tbl ups reason size bs o1 o2 :
  tbl P_USER = Some (KPair, o1) -> tbl P_REASON_STRING = Some (KStr, o2) ->
  encode_opt_props ups reason size = (bs, Ok tt) ->
  exists ups' reason', is_prefix ups' ups /\ (reason' = reason \/ reason' = None) /\
    bs = enc_items tbl (uitems ups' ++ oitemB P_REASON_STRING reason' ++ []) /\
    (diag_size ups reason <= size -> ups' = ups /\ reason' = reason).
Proof.
  intros Eu Er. revert size bs. induction ups as [|p r IH]; intros size bs H; cbn [encode_opt_props] in H.
  - exists []. destruct reason as [s|].
    + destruct (len s <? size) eqn:Els.
      * exists (Some s). split; [apply is_prefix_nil|]. split; [now left|].
        apply wseq_inv in H as (x & y & E1 & E2 & ->). apply wput_inv in E1. subst x.
        apply w_bytes_inv in E2 as [_ ->]. cbn. unfold enc_item, tkind. cbn [fst snd]. rewrite Er.
        now rewrite app_nil_r.
      * exists None. apply wnop_inv in H. subst. split; [apply is_prefix_nil|]. split; [now right|].
        split; [reflexivity|]. unfold diag_size, es_bytes. cbn [es_uprops eps]. lia.
    + exists None. apply wnop_inv in H. subst. split; [apply is_prefix_nil|]. split; [now left|].
      split; [reflexivity|auto].
  - destruct (size <? _) eqn:Esz.
    + apply wnop_inv in H. subst. exists [], None. split; [apply is_prefix_nil|]. split; [now right|].
      split; [reflexivity|]. unfold diag_size. cbn [es_uprops]. unfold es_uprop. lia.
    + apply wseq_inv in H as (x & y & E1 & E2 & ->). apply wput_inv in E1. subst x.
      apply wseq_inv in E2 as (x & y' & E1 & E2 & ->).
      apply IH in E2 as (ups' & reason' & Hp & Hr & -> & Hfull).
      exists (p :: ups'), reason'. split; [now apply is_prefix_cons|]. split; [assumption|].
      split.
      * unfold w_uprop in E1. apply wseq_inv in E1 as (a & b & Ea & Eb & ->).
        apply w_bytes_inv in Ea as [_ ->]. apply w_bytes_inv in Eb as [_ ->].
        cbn [uitems map app]. rewrite enc_items_cons. change (map upair ups') with (uitems ups').
        rewrite app_assoc. f_equal. unfold enc_item, tkind, upair. cbn [fst snd]. rewrite Eu. reflexivity.
      * intros Hf. destruct Hfull as [-> ->]; [|auto].
        unfold diag_size in *. cbn [es_uprops] in Hf. unfold es_uprop in Hf. lia.
Qed.

(* ------------------------------------------------------------------ ack_props *)
Lemma tbl_ack_user : tbl_ack P_USER = Some (KPair, false). Proof. reflexivity. Qed.
Lemma tbl_ack_reason : tbl_ack P_REASON_STRING = Some (KStr, true). Proof. reflexivity. Qed.

Lemma diag_items_wf tbl seen ups' reason' :
  tbl P_USER = Some (KPair, false) -> tbl P_REASON_STRING = Some (KStr, true) ->
  mem (P_USER :: seen) P_REASON_STRING = false ->
  uprops_ok ups' = true -> opt_ok str_ok reason' = true ->
  items_wf tbl seen (uitems ups' ++ oitemB P_REASON_STRING reason' ++ []) = true.
Proof.
  intros Eu Er Hm Hu Hr. apply wf_uitems; [assumption|assumption|].
  eapply wf_oitemB; [exact Er|now rewrite Hm| |reflexivity].
  intros s E. rewrite E in Hr. exact Hr.
Qed.

Lemma opt_ok_weaken {A} (f : A -> bool) o o' : (o' = o \/ o' = None) -> opt_ok f o = true -> opt_ok f o' = true.
Proof. intros [-> | ->]; auto. Qed.

Lemma ack_props_roundtrip ups reason lim bs :
  lim <= VI_MAX -> uprops_ok ups = true -> opt_ok str_ok reason = true ->
  ack_props_encode ups reason (ack_props_encoded_size ups reason lim) = (bs, Ok tt) ->
  bs <> [] /\
  exists ups' reason', is_prefix ups' ups /\ (reason' = reason \/ reason' = None) /\
    (forall r, ack_props_decode (bs ++ r) = Ok ((ups', reason'), r)) /\
    (4 + diag_size ups reason <= lim -> ups' = ups /\ reason' = reason).
Proof.
  intros Hl Hu Hr H.
  assert (Hne : bs <> []).
  { pose proof (ack_props_len ups reason lim Hl _ H) as Hlen. pose proof (apes_ge1 ups reason lim).
    intros ->. rewrite len_nil in Hlen. lia. }
  split; [exact Hne|].
  assert (Hzero : forall r, ack_props_decode ([0] ++ r) = Ok (([], None), r)).
  { intros r. unfold ack_props_decode, take_properties. cbn [app]. unfold dec_vi. cbn [dec_vi_go].
    replace (0 <? 128) with true by reflexivity. cbn [bind]. replace (len r <? 0 + 0 mod 128 * 1) with false by lia.
    replace (0 + 0 mod 128 * 1) with 0 by reflexivity. unfold split_to. cbn [N.to_nat firstn skipn]. reflexivity. }
  unfold ack_props_encoded_size, ack_props_encode in H.
  destruct (lim <? 4) eqn:E4.
  { cbn in H. injection H as <-. exists [], None. split; [apply is_prefix_nil|]. split; [now right|].
    split; [exact Hzero|lia]. }
  set (l := encoded_size_opt_props ups reason (lim - 4)) in *.
  assert (Hle : l <= lim - 4) by apply esop_le.
  pose proof (var_int_len_pos l) as Hv.
  replace (var_int_len l + l =? 0) with false in H by lia.
  destruct (var_int_len l + l =? 1) eqn:E1.
  { cbn in H. injection H as <-. exists [], None. split; [apply is_prefix_nil|]. split; [now right|].
    split; [exact Hzero|]. intros Hf. assert (l = 0) by lia. unfold l in *. rewrite esop_full in * by lia.
    destruct (diag_size_0 ups reason) as [-> ->]; auto. }
  rewrite varlen_inverse' in H by lia. cbn [wlet] in H.
  apply wseq_inv in H as (vi & blk & Ev & Eb & ->). apply w_vi_inv in Ev.
  pose proof (eop_len ups reason (lim - 4) _ Eb) as Hlen. fold l in Hlen.
  apply (eop_items tbl_ack _ _ _ _ _ _ tbl_ack_user tbl_ack_reason) in Eb as (ups' & reason' & Hp & Hr' & -> & Hfull).
  exists ups', reason'. split; [assumption|]. split; [assumption|].
  split; [|intros Hf; apply Hfull; unfold l; rewrite esop_full by lia; lia]. intros r.
  unfold ack_props_decode. rewrite <- app_assoc. rewrite (take_properties_enc l) by assumption. cbn [bind].
  rewrite props_of_enc.
  2:{ apply diag_items_wf; try reflexivity; [eapply uprops_ok_prefix; eassumption|eapply opt_ok_weaken; eassumption]. }
  cbn [bind]. rewrite bag_pairs_uitems, bag_pairs_oitemB, bag_pairs_nil, app_nil_r.
  rewrite bag_b_uitems, bag_b_oitemB, bag_b_nil. rewrite N.eqb_refl. destruct reason'; reflexivity.
Qed.

(* ------------------------------------------------------------------ decode_packet dispatch *)
Lemma decode_packet_puback s : decode_packet PT_PUBACK s = let* a := publish_ack_decode s in Ok (PublishAck a).
Proof. reflexivity. Qed.
Lemma decode_packet_pubrec s : decode_packet PT_PUBREC s = let* a := publish_ack_decode s in Ok (PublishReceived a).
Proof. reflexivity. Qed.
Lemma decode_packet_pubrel s : decode_packet PT_PUBREL s = let* a := publish_ack2_decode s in Ok (PublishRelease a).
Proof. reflexivity. Qed.
Lemma decode_packet_pubcomp s : decode_packet PT_PUBCOMP s = let* a := publish_ack2_decode s in Ok (PublishComplete a).
Proof. reflexivity. Qed.
Lemma decode_packet_suback s : decode_packet PT_SUBACK s = let* a := subscribe_ack_decode s in Ok (SubscribeAck a).
Proof. reflexivity. Qed.
Lemma decode_packet_unsuback s : decode_packet PT_UNSUBACK s = let* a := unsubscribe_ack_decode s in Ok (UnsubscribeAck a).
Proof. reflexivity. Qed.
Lemma decode_packet_disconnect s : decode_packet PT_DISCONNECT s = let* a := disconnect_decode s in Ok (Disconnect a).
Proof. reflexivity. Qed.
Lemma decode_packet_auth s : decode_packet PT_AUTH s = let* a := auth_decode s in Ok (Auth a).
Proof. reflexivity. Qed.
Lemma decode_packet_connack s : decode_packet PT_CONNACK s = let* a := connect_ack_decode s in Ok (ConnectAck a).
Proof. reflexivity. Qed.
Lemma decode_packet_connect s : decode_packet PT_CONNECT s = let* a := connect_decode s in Ok (Connect a).
Proof. reflexivity. Qed.
Lemma decode_packet_subscribe s : decode_packet PT_SUBSCRIBE s = let* a := subscribe_decode s in Ok (Subscribe a).
Proof. reflexivity. Qed.
Lemma decode_packet_unsubscribe s : decode_packet PT_UNSUBSCRIBE s = let* a := unsubscribe_decode s in Ok (Unsubscribe a).
Proof. reflexivity. Qed.

(* ------------------------------------------------------------------ PUBACK / PUBREC *)
Definition id_ok (n : N) : bool := (0 <? n) && (n <? 65536).

Definition publish_ack_ok (a : publish_ack) : bool :=
  id_ok (pa_packet_id a) && publish_ack_reason_ok (pa_reason_code a) &&
  uprops_ok (pa_properties a) && opt_ok str_ok (pa_reason_string a).
Definition publish_ack2_ok (a : publish_ack2) : bool :=
  id_ok (pa2_packet_id a) && publish_ack2_reason_ok (pa2_reason_code a) &&
  uprops_ok (pa2_properties a) && opt_ok str_ok (pa2_reason_string a).

Lemma publish_ack_roundtrip a lim bs :
  lim <= VI_MAX -> publish_ack_ok a = true ->
  publish_ack_encode a (publish_ack_encoded_size a lim) = (bs, Ok tt) ->
  exists ups' reason', is_prefix ups' (pa_properties a) /\ (reason' = pa_reason_string a \/ reason' = None) /\
    publish_ack_decode bs = Ok (mkPublishAck (pa_packet_id a) (pa_reason_code a) ups' reason') /\
    (11 + diag_size (pa_properties a) (pa_reason_string a) <= lim ->
     ups' = pa_properties a /\ reason' = pa_reason_string a).
Proof.
  intros Hl Hok H. unfold publish_ack_ok, id_ok in Hok.
  apply andb_true_iff in Hok as [Hok Hrs]. apply andb_true_iff in Hok as [Hok Hup].
  apply andb_true_iff in Hok as [Hid Hrc]. apply andb_true_iff in Hid as [Hid1 Hid2].
  unfold publish_ack_encode, publish_ack_encoded_size in H.
  set (S := ack_props_encoded_size _ _ _) in H. rewrite sub_chk_ok in H by lia. cbn [wlet] in H.
  replace (3 + S - 3) with S in H by lia.
  apply wseq_inv in H as (x & y & E1 & E2 & ->). apply wput_inv in E1. subst x.
  apply wseq_inv in E2 as (x & ap & E1 & E2 & ->). apply wput_inv in E1. subst x.
  pose proof (reduce_limit_le lim (3 + 4)).
  apply ack_props_roundtrip in E2 as (Hne & ups' & reason' & Hp & Hr & Hdec & Hfull); [|lia|assumption|assumption].
  exists ups', reason'. split; [assumption|]. split; [assumption|].
  split; [|intros Hf; apply Hfull; unfold reduce_limit; replace (lim <? 3 + 4) with false by lia; lia].
  unfold publish_ack_decode. change ([pa_packet_id a / 256; pa_packet_id a mod 256] ++ [pa_reason_code a] ++ ap)
    with (b_u16 (pa_packet_id a) ++ (pa_reason_code a :: ap)).
  rewrite dec_nz16_b by lia. cbn [bind]. rewrite Hrc. cbn [ensure bind].
  destruct ap as [|a0 ap']; [congruence|]. specialize (Hdec []). rewrite app_nil_r in Hdec. rewrite Hdec.
  reflexivity.
Qed.

Lemma publish_ack2_roundtrip a lim bs :
  lim <= VI_MAX -> publish_ack2_ok a = true ->
  publish_ack2_encode a (publish_ack2_encoded_size a lim) = (bs, Ok tt) ->
  exists ups' reason', is_prefix ups' (pa2_properties a) /\ (reason' = pa2_reason_string a \/ reason' = None) /\
    publish_ack2_decode bs = Ok (mkPublishAck2 (pa2_packet_id a) (pa2_reason_code a) ups' reason') /\
    (11 + diag_size (pa2_properties a) (pa2_reason_string a) <= lim ->
     ups' = pa2_properties a /\ reason' = pa2_reason_string a).
Proof.
  intros Hl Hok H. unfold publish_ack2_ok, id_ok in Hok.
  apply andb_true_iff in Hok as [Hok Hrs]. apply andb_true_iff in Hok as [Hok Hup].
  apply andb_true_iff in Hok as [Hid Hrc]. apply andb_true_iff in Hid as [Hid1 Hid2].
  unfold publish_ack2_encode, publish_ack2_encoded_size in H.
  set (S := ack_props_encoded_size _ _ _) in H. rewrite sub_chk_ok in H by lia. cbn [wlet] in H.
  replace (3 + S - 3) with S in H by lia.
  apply wseq_inv in H as (x & y & E1 & E2 & ->). apply wput_inv in E1. subst x.
  apply wseq_inv in E2 as (x & ap & E1 & E2 & ->). apply wput_inv in E1. subst x.
  pose proof (reduce_limit_le lim (3 + 4)).
  apply ack_props_roundtrip in E2 as (Hne & ups' & reason' & Hp & Hr & Hdec & Hfull); [|lia|assumption|assumption].
  exists ups', reason'. split; [assumption|]. split; [assumption|].
  split; [|intros Hf; apply Hfull; unfold reduce_limit; replace (lim <? 3 + 4) with false by lia; lia].
  unfold publish_ack2_decode. change ([pa2_packet_id a / 256; pa2_packet_id a mod 256] ++ [pa2_reason_code a] ++ ap)
    with (b_u16 (pa2_packet_id a) ++ (pa2_reason_code a :: ap)).
  rewrite dec_nz16_b by lia. cbn [bind]. rewrite Hrc. cbn [ensure bind].
  destruct ap as [|a0 ap']; [congruence|]. specialize (Hdec []). rewrite app_nil_r in Hdec. rewrite Hdec.
  reflexivity.
Qed.

(* ------------------------------------------------------------------ SUBACK / UNSUBACK *)
Lemma status_decode_ok ok l : forallb ok l = true -> status_decode ok l = Ok l.
Proof.
  induction l as [|c r IH]; [reflexivity|]. cbn [forallb status_decode]. intros H.
  apply andb_true_iff in H as [H1 H2]. rewrite H1. cbn [ensure bind]. now rewrite IH.
Qed.

Definition subscribe_ack_ok (a : subscribe_ack) : bool :=
  id_ok (sa_packet_id a) && forallb subscribe_ack_reason_ok (sa_status a) &&
  uprops_ok (sa_properties a) && opt_ok str_ok (sa_reason_string a).
Definition unsubscribe_ack_ok (a : unsubscribe_ack) : bool :=
  id_ok (ua_packet_id a) && forallb unsubscribe_ack_reason_ok (ua_status a) &&
  uprops_ok (ua_properties a) && opt_ok str_ok (ua_reason_string a).

Lemma subscribe_ack_roundtrip a lim bs :
  lim <= VI_MAX -> subscribe_ack_encoded_size a lim <= lim -> subscribe_ack_ok a = true ->
  subscribe_ack_encode a (subscribe_ack_encoded_size a lim) = (bs, Ok tt) ->
  exists ups' reason', is_prefix ups' (sa_properties a) /\ (reason' = sa_reason_string a \/ reason' = None) /\
    subscribe_ack_decode bs = Ok (mkSubscribeAck (sa_packet_id a) ups' reason' (sa_status a)) /\
    (6 + len (sa_status a) + diag_size (sa_properties a) (sa_reason_string a) <= lim ->
     ups' = sa_properties a /\ reason' = sa_reason_string a).
Proof.
  intros Hl Hs Hok H. unfold subscribe_ack_ok, id_ok in Hok.
  apply andb_true_iff in Hok as [Hok Hrs]. apply andb_true_iff in Hok as [Hok Hup].
  apply andb_true_iff in Hok as [Hid Hrc]. apply andb_true_iff in Hid as [Hid1 Hid2].
  unfold subscribe_ack_encode, subscribe_ack_encoded_size in *.
  destruct (U32MAX - 2 <? len (sa_status a)) eqn:E. { unfold USIZE_MAX, U64MAX, VI_MAX in *. lia. }
  set (S := ack_props_encoded_size _ _ _) in *.
  rewrite sub_chk_ok in H by lia. cbn [wlet] in H.
  rewrite mod32_small in H by lia. rewrite sub_chk_ok in H by lia. cbn [wlet] in H.
  replace (2 + S + len (sa_status a) - 2 - len (sa_status a)) with S in H by lia.
  apply wseq_inv in H as (x & y & E1 & E2 & ->). apply wput_inv in E1. subst x.
  apply wseq_inv in E2 as (ap & x & E1 & E2 & ->). apply wput_inv in E2. subst x.
  pose proof (reduce_limit_le lim (2 + len (sa_status a))).
  apply ack_props_roundtrip in E1 as (Hne & ups' & reason' & Hp & Hr & Hdec & Hfull); [|lia|assumption|assumption].
  exists ups', reason'. split; [assumption|]. split; [assumption|].
  split; [|intros Hf; apply Hfull; unfold reduce_limit;
           replace (lim <? 2 + len (sa_status a)) with false by lia; lia].
  unfold subscribe_ack_decode. change [sa_packet_id a / 256; sa_packet_id a mod 256] with (b_u16 (sa_packet_id a)).
  rewrite dec_nz16_b by lia. cbn [bind]. rewrite Hdec. cbn [bind].
  rewrite status_decode_ok by assumption. reflexivity.
Qed.

Lemma unsubscribe_ack_roundtrip a lim bs :
  lim <= VI_MAX -> unsubscribe_ack_encoded_size a lim <= lim -> unsubscribe_ack_ok a = true ->
  unsubscribe_ack_encode a (unsubscribe_ack_encoded_size a lim) = (bs, Ok tt) ->
  exists ups' reason', is_prefix ups' (ua_properties a) /\ (reason' = ua_reason_string a \/ reason' = None) /\
    unsubscribe_ack_decode bs = Ok (mkUnsubscribeAck (ua_packet_id a) ups' reason' (ua_status a)) /\
    (6 + len (ua_status a) + diag_size (ua_properties a) (ua_reason_string a) <= lim ->
     ups' = ua_properties a /\ reason' = ua_reason_string a).
Proof.
  intros Hl Hs Hok H. unfold unsubscribe_ack_ok, id_ok in Hok.
  apply andb_true_iff in Hok as [Hok Hrs]. apply andb_true_iff in Hok as [Hok Hup].
  apply andb_true_iff in Hok as [Hid Hrc]. apply andb_true_iff in Hid as [Hid1 Hid2].
  unfold unsubscribe_ack_encode, unsubscribe_ack_encoded_size in *.
  set (S := ack_props_encoded_size _ _ _) in *.
  rewrite sub_chk_ok in H by lia. cbn [wlet] in H.
  rewrite mod32_small in H by lia. rewrite sub_chk_ok in H by lia. cbn [wlet] in H.
  replace (2 + len (ua_status a) + S - 2 - len (ua_status a)) with S in H by lia.
  apply wseq_inv in H as (x & y & E1 & E2 & ->). apply wput_inv in E1. subst x.
  apply wseq_inv in E2 as (ap & x & E1 & E2 & ->). apply wput_inv in E2. subst x.
  pose proof (reduce_limit_le lim (2 + len (ua_status a))).
  apply ack_props_roundtrip in E1 as (Hne & ups' & reason' & Hp & Hr & Hdec & Hfull); [|lia|assumption|assumption].
  exists ups', reason'. split; [assumption|]. split; [assumption|].
  split; [|intros Hf; apply Hfull; unfold reduce_limit;
           replace (lim <? 2 + len (ua_status a)) with false by lia; lia].
  unfold unsubscribe_ack_decode. change [ua_packet_id a / 256; ua_packet_id a mod 256] with (b_u16 (ua_packet_id a)).
  rewrite dec_nz16_b by lia. cbn [bind]. rewrite Hdec. cbn [bind].
  rewrite status_decode_ok by assumption. reflexivity.
Qed.

(* ------------------------------------------------------------------ structural automation for [wits] *)
Lemma wits_maxqos tbl q once : tbl P_MAX_QOS = Some (KQoS, once) ->
  wits tbl (if q <? 2 then wput [P_MAX_QOS; q] else wnop) (oitemN P_MAX_QOS (if q <? 2 then Some q else None)).
Proof.
  intros Et bs H. destruct (q <? 2); [|now apply wnop_inv in H]. apply wput_inv in H. subst.
  cbn. unfold enc_item, tkind. cbn [fst snd]. rewrite Et. reflexivity.
Qed.

Ltac kind_side := first [left; reflexivity | right; reflexivity].
Ltac wits_struct :=
  lazymatch goal with
  | |- wits _ (wseq _ (fun _ => _)) _ => eapply wits_then; [wits_struct | wits_struct]
  | |- wits _ (w_prop w_u16 _ _) _ => eapply wits_prop_u16; [reflexivity | kind_side]
  | |- wits _ (w_prop w_u32 _ _) _ => eapply wits_prop_u32; [reflexivity | kind_side]
  | |- wits _ (w_prop w_bool _ _) _ => eapply wits_prop_bool; reflexivity
  | |- wits _ (w_prop w_bytes _ _) _ => eapply wits_prop_bytes; [reflexivity | kind_side]
  | |- wits _ (w_prop_default w_u16 _ _ _) _ => eapply wits_propd_u16; [reflexivity | kind_side]
  | |- wits _ (w_prop_default w_u32 _ _ _) _ => eapply wits_propd_u32; [reflexivity | kind_side]
  | |- wits _ (w_prop_default w_bool _ _ _) _ => eapply wits_propd_bool; reflexivity
  | |- wits _ (w_uprops _) _ => eapply wits_uprops; reflexivity
  | |- wits _ (w_sub_ids _) _ => eapply wits_sub_ids; reflexivity
  | |- wits _ (if _ <? 2 then wput [P_MAX_QOS; _] else wnop) _ => eapply wits_maxqos; reflexivity
  | |- wits _ wnop _ => apply wits_nop
  end.

Lemma enc_vi_nonempty n vi : enc_vi n = Some vi -> vi <> [].
Proof.
  intros E ->. apply enc_vi_len in E. pose proof (var_int_len_pos n). rewrite len_nil in E. lia.
Qed.

(* generic shape of DISCONNECT / AUTH / CONNACK (see CodecV5Size.diag_encode) *)
Lemma diag_bytes tbl head fixed h pl1 lim' ups reason fits hb bs :
  tbl P_USER = Some (KPair, false) -> tbl P_REASON_STRING = Some (KStr, true) ->
  head = (hb, Ok tt) -> len hb = h -> wlen fixed pl1 -> wits tbl fixed fits ->
  let D := encoded_size_opt_props ups reason lim' in
  let PL := pl1 + D in
  let size := h + var_int_len PL + PL in
  size <= VI_MAX ->
  diag_encode head fixed h ups reason size = (bs, Ok tt) ->
  exists vi ups' reason' blk,
    enc_vi PL = Some vi /\ is_prefix ups' ups /\ (reason' = reason \/ reason' = None) /\
    bs = hb ++ vi ++ blk /\ len blk = PL /\
    blk = enc_items tbl (fits ++ uitems ups' ++ oitemB P_REASON_STRING reason' ++ []) /\
    (diag_size ups reason <= lim' -> ups' = ups /\ reason' = reason).
Proof.
  intros Eu Er Hhead Hh Hfl Hfi D PL size Hs H. unfold diag_encode in H.
  pose proof (var_int_len_pos PL).
  assert (HPL : PL = pl1 + D) by reflexivity. assert (Hsz : size = h + var_int_len PL + PL) by reflexivity.
  clearbody PL size.
  assert (E1 : sub_chk size h = Ok (var_int_len PL + PL)).
  { rewrite sub_chk_ok by lia. f_equal. lia. }
  rewrite E1 in H. cbn [wlet] in H. rewrite varlen_inverse' in H by lia. cbn [wlet] in H.
  apply wseq_inv in H as (x & y & Ea & Eb & ->).
  apply wseq_inv in Ea as (x1 & x2 & Ea1 & Ea2 & ->). rewrite Hhead in Ea1. injection Ea1 as <-.
  apply wseq_inv in Ea2 as (vi & fx & Ev & Ef & ->). apply w_vi_inv in Ev.
  pose proof (Hfl _ Ef) as Hlf. pose proof (Hfi _ Ef) as Hif.
  pose proof (enc_vi_len _ _ Ev) as Hlv.
  rewrite !len_app, Hh, Hlv, Hlf in Eb. rewrite mod32_small in Eb by lia.
  rewrite sub_chk_ok in Eb by lia. cbn [wlet] in Eb.
  replace (size - (h + (var_int_len PL + pl1))) with D in Eb by lia.
  pose proof (eop_len ups reason lim' _ Eb) as Hly.
  apply (eop_items tbl _ _ _ _ _ _ Eu Er) in Eb as (ups' & reason' & Hp & Hr & Ey & Hfull).
  exists vi, ups', reason', (fx ++ y). split; [assumption|]. split; [assumption|]. split; [assumption|].
  split; [now rewrite <- !app_assoc|]. split; [rewrite len_app; lia|].
  split; [rewrite enc_items_app; now rewrite Hif, Ey|].
  intros Hf. apply Hfull. subst D. rewrite esop_full by assumption. lia.
Qed.

Ltac eval_eqb :=
  repeat match goal with
  | |- context [?a =? ?b] =>
    let v := eval vm_compute in (a =? b) in
    lazymatch v with
    | true => change (a =? b) with true
    | false => change (a =? b) with false
    end
  end; cbv beta iota.

Lemma opt_eta {A} (o : option A) : match o with Some n => Some n | None => None end = o.
Proof. now destruct o. Qed.

(* ------------------------------------------------------------------ DISCONNECT *)
Definition u32_ok (n : N) : bool := n <? 4294967296.
Definition u16_ok (n : N) : bool := n <? 65536.

Definition disconnect_ok (d : disconnect) : bool :=
  disconnect_reason_ok (d_reason_code d) && opt_ok u32_ok (d_session_expiry_interval_secs d) &&
  opt_ok str_ok (d_server_reference d) && uprops_ok (d_user_properties d) && opt_ok str_ok (d_reason_string d).

Lemma disconnect_roundtrip d lim bs :
  disconnect_encoded_size d lim <= VI_MAX -> disconnect_ok d = true ->
  disconnect_encode d (disconnect_encoded_size d lim) = (bs, Ok tt) ->
  exists ups' reason', is_prefix ups' (d_user_properties d) /\ (reason' = d_reason_string d \/ reason' = None) /\
    disconnect_decode bs = Ok (mkDisconnect (d_reason_code d) (d_session_expiry_interval_secs d)
                                 (d_server_reference d) reason' ups') /\
    (diag_size (d_user_properties d) (d_reason_string d) <=
       reduce_limit lim (eps sz4 (d_session_expiry_interval_secs d) + eps es_bytes (d_server_reference d) + 1 + 4) ->
     ups' = d_user_properties d /\ reason' = d_reason_string d).
Proof.
  intros Hs Hok H. unfold disconnect_ok in Hok.
  apply andb_true_iff in Hok as [Hok Hrs]. apply andb_true_iff in Hok as [Hok Hup].
  apply andb_true_iff in Hok as [Hok Hsr]. apply andb_true_iff in Hok as [Hrc Hse].
  rewrite disconnect_is_diag in H. unfold disconnect_encoded_size in *.
  eapply (diag_bytes tbl_disconnect) in H as (vi & ups' & reason' & blk & Ev & Hp & Hr & -> & Hlen & Hblk & Hfull);
    [ | reflexivity | reflexivity | reflexivity | reflexivity | wlen_tac | wits_struct | exact Hs ].
  exists ups', reason'. split; [assumption|]. split; [assumption|]. split; [|exact Hfull].
  unfold disconnect_decode. cbn [app]. rewrite Hrc. cbn [ensure bind].
  pose proof (enc_vi_nonempty _ _ Ev) as Hne. destruct (vi ++ blk) as [|z zs] eqn:Ez.
  { destruct vi; [congruence|discriminate]. }
  rewrite <- Ez. clear Ez. rewrite <- (app_nil_r blk). rewrite (take_properties_enc _ _ _ _ Ev Hlen). cbn [bind].
  rewrite Hblk. rewrite <- !app_assoc. rewrite props_of_enc.
  2:{ eapply wf_oitemN; [reflexivity|reflexivity| |].
      { intros n E. rewrite E in Hse. exact Hse. }
      eapply wf_oitemB; [reflexivity|reflexivity| |].
      { intros n E. rewrite E in Hsr. exact Hsr. }
      apply diag_items_wf; try reflexivity; [eapply uprops_ok_prefix; eassumption|eapply opt_ok_weaken; eassumption]. }
  cbn [bind ensure]. autorewrite with bag. eval_eqb. rewrite !opt_eta, app_nil_r. reflexivity.
Qed.

(* ------------------------------------------------------------------ AUTH *)
Definition auth_ok (a : auth) : bool :=
  auth_reason_ok (a_reason_code a) && opt_ok str_ok (a_auth_method a) && opt_ok bin_ok (a_auth_data a) &&
  uprops_ok (a_user_properties a) && opt_ok str_ok (a_reason_string a).

Lemma auth_roundtrip a lim bs :
  auth_encoded_size a lim <= VI_MAX -> auth_ok a = true ->
  auth_encode a (auth_encoded_size a lim) = (bs, Ok tt) ->
  exists ups' reason', is_prefix ups' (a_user_properties a) /\ (reason' = a_reason_string a \/ reason' = None) /\
    auth_decode bs = Ok (mkAuth (a_reason_code a) (a_auth_method a) (a_auth_data a) reason' ups') /\
    (diag_size (a_user_properties a) (a_reason_string a) <=
       reduce_limit lim (eps es_bytes (a_auth_method a) + eps es_bytes (a_auth_data a) + 1 + 4) ->
     ups' = a_user_properties a /\ reason' = a_reason_string a).
Proof.
  intros Hs Hok H. unfold auth_ok in Hok.
  apply andb_true_iff in Hok as [Hok Hrs]. apply andb_true_iff in Hok as [Hok Hup].
  apply andb_true_iff in Hok as [Hok Had]. apply andb_true_iff in Hok as [Hrc Ham].
  rewrite auth_is_diag in H. unfold auth_encoded_size in *.
  eapply (diag_bytes tbl_auth) in H as (vi & ups' & reason' & blk & Ev & Hp & Hr & -> & Hlen & Hblk & Hfull);
    [ | reflexivity | reflexivity | reflexivity | reflexivity | wlen_tac | wits_struct | exact Hs ].
  exists ups', reason'. split; [assumption|]. split; [assumption|]. split; [|exact Hfull].
  unfold auth_decode. cbn [app]. rewrite Hrc. cbn [ensure bind].
  pose proof (enc_vi_nonempty _ _ Ev) as Hne. destruct (vi ++ blk) as [|z zs] eqn:Ez.
  { destruct vi; [congruence|discriminate]. }
  rewrite <- Ez. clear Ez. rewrite <- (app_nil_r blk). rewrite (take_properties_enc _ _ _ _ Ev Hlen). cbn [bind].
  rewrite Hblk. rewrite <- !app_assoc. rewrite props_of_enc.
  2:{ eapply wf_oitemB; [reflexivity|reflexivity| |].
      { intros n E. rewrite E in Ham. exact Ham. }
      eapply wf_oitemB; [reflexivity|reflexivity| |].
      { intros n E. rewrite E in Had. exact Had. }
      apply diag_items_wf; try reflexivity; [eapply uprops_ok_prefix; eassumption|eapply opt_ok_weaken; eassumption]. }
  cbn [bind ensure]. autorewrite with bag. eval_eqb. rewrite !opt_eta, app_nil_r. reflexivity.
Qed.

(* ------------------------------------------------------------------ CONNACK *)
Definition connect_ack_ok (a : connect_ack) : bool :=
  connect_ack_reason_ok (ca_reason_code a) &&
  opt_ok u32_ok (ca_session_expiry_interval_secs a) &&
  id_ok (ca_receive_max a) &&
  qos_ok (ca_max_qos a) &&
  opt_ok u32_ok (ca_max_packet_size a) &&
  opt_ok str_ok (ca_assigned_client_id a) &&
  u16_ok (ca_topic_alias_max a) &&
  opt_ok u16_ok (ca_server_keepalive_sec a) &&
  opt_ok str_ok (ca_response_info a) &&
  opt_ok str_ok (ca_server_reference a) &&
  opt_ok str_ok (ca_auth_method a) &&
  opt_ok bin_ok (ca_auth_data a) &&
  uprops_ok (ca_user_properties a) && opt_ok str_ok (ca_reason_string a).

Definition connect_ack_with (a : connect_ack) (reason : option bytes) (ups : uprops) : connect_ack :=
  mkConnectAck (ca_session_present a) (ca_reason_code a) (ca_session_expiry_interval_secs a)
    (ca_receive_max a) (ca_max_qos a) (ca_max_packet_size a) (ca_assigned_client_id a)
    (ca_topic_alias_max a) (ca_retain_available a) (ca_wildcard_subscription_available a)
    (ca_subscription_identifiers_available a) (ca_shared_subscription_available a)
    (ca_server_keepalive_sec a) (ca_response_info a) (ca_server_reference a) (ca_auth_method a)
    (ca_auth_data a) reason ups.

Lemma dflt_bool_true (b : bool) :
  dflt (option_map (fun n => n =? 1) (if Bool.eqb b true then None else Some (b2n b))) true = b.
Proof. destruct b; reflexivity. Qed.
Lemma dflt_bool_false (b : bool) :
  dflt (option_map (fun n => n =? 1) (if Bool.eqb b false then None else Some (b2n b))) false = b.
Proof. destruct b; reflexivity. Qed.

Lemma connect_ack_roundtrip a lim bs :
  connect_ack_encoded_size a lim <= VI_MAX -> connect_ack_ok a = true ->
  connect_ack_encode a (connect_ack_encoded_size a lim) = (bs, Ok tt) ->
  exists ups' reason', is_prefix ups' (ca_user_properties a) /\ (reason' = ca_reason_string a \/ reason' = None) /\
    connect_ack_decode bs = Ok (connect_ack_with a reason' ups') /\
    (diag_size (ca_user_properties a) (ca_reason_string a) <= reduce_limit lim (2 + 4 + connect_ack_fixed_len a) ->
     ups' = ca_user_properties a /\ reason' = ca_reason_string a).
Proof.
  intros Hs Hok H. unfold connect_ack_ok in Hok.
  repeat match type of Hok with (_ && _ = true) =>
    let H' := fresh "Hk" in apply andb_true_iff in Hok as [Hok H'] end.
  rewrite connect_ack_is_diag in H. rewrite connect_ack_size_eq in *. cbv zeta in *.
  eapply (diag_bytes tbl_connack) in H as (vi & ups' & reason' & blk & Ev & Hp & Hr & -> & Hlen & Hblk & Hfull);
    [ | reflexivity | reflexivity | reflexivity | reflexivity | apply connect_ack_fixed_wlen
      | unfold connect_ack_fixed; wits_struct | exact Hs ].
  exists ups', reason'. split; [assumption|]. split; [assumption|]. split; [|exact Hfull].
  unfold connect_ack_decode. cbn [app].
  replace (b2n (ca_session_present a) <=? 1) with true by (destruct (ca_session_present a); reflexivity).
  cbn [ensure bind]. rewrite Hok. cbn [ensure bind].
  rewrite <- (app_nil_r blk). rewrite (take_properties_enc _ _ _ _ Ev Hlen). cbn [bind].
  rewrite Hblk. rewrite <- !app_assoc. rewrite props_of_enc.
  2:{ unfold id_ok, u16_ok, u32_ok in *.
      repeat lazymatch goal with
        | |- items_wf _ _ (oitemN _ _ ++ _) = true => eapply wf_oitemN; [reflexivity|reflexivity| |]
        | |- items_wf _ _ (oitemB _ _ ++ oitemB _ _ ++ _) = true => eapply wf_oitemB; [reflexivity|reflexivity| |]
        | |- items_wf _ _ (oitemB _ _ ++ oitemN _ _ ++ _) = true => eapply wf_oitemB; [reflexivity|reflexivity| |]
        | |- items_wf _ _ (oitemB _ _ ++ uitems _ ++ _) = true => eapply wf_oitemB; [reflexivity|reflexivity| |]
        | |- items_wf _ _ (uitems _ ++ _) = true =>
          apply diag_items_wf; try reflexivity;
          [eapply uprops_ok_prefix; eassumption|eapply opt_ok_weaken; eassumption]
        end.
      all: try (intros n E;
                match goal with
                | Hx : opt_ok _ ?o = true |- _ =>
                  match type of E with o = Some _ => rewrite E in Hx; exact Hx end
                end).
      all: cbn [pval_ok]; intros n E.
      all: match type of E with (if ?c then _ else _) = _ => destruct c eqn:E' end; try discriminate;
           injection E as <-; try assumption.
      all: match goal with |- (b2n ?b <=? 1) = true => destruct b; reflexivity end. }
  cbn [bind ensure]. autorewrite with bag. eval_eqb. rewrite ?opt_eta, app_nil_r.
  unfold connect_ack_with. rewrite !dflt_bool_true.
  f_equal. f_equal; try reflexivity.
  - destruct (ca_session_present a); reflexivity.
  - unfold RECEIVE_MAX_DEFAULT. destruct (ca_receive_max a =? 65535) eqn:E; cbn [dflt]; lia.
  - unfold qos_ok, mem in *. cbn [existsb] in *. destruct (ca_max_qos a <? 2) eqn:E; cbn [dflt]; lia.
  - destruct (ca_topic_alias_max a =? 0) eqn:E; cbn [dflt]; lia.
Qed.

(* ================================================================== C09: only diagnostics are dropped *)
Definition diag_ups (p : packet) : uprops :=
  match p with
  | ConnectAck a => ca_user_properties a
  | PublishAck a | PublishReceived a => pa_properties a
  | PublishRelease a | PublishComplete a => pa2_properties a
  | SubscribeAck a => sa_properties a
  | UnsubscribeAck a => ua_properties a
  | Disconnect d => d_user_properties d
  | Auth a => a_user_properties a
  | _ => []
  end.
Definition diag_reason (p : packet) : option bytes :=
  match p with
  | ConnectAck a => ca_reason_string a
  | PublishAck a | PublishReceived a => pa_reason_string a
  | PublishRelease a | PublishComplete a => pa2_reason_string a
  | SubscribeAck a => sa_reason_string a
  | UnsubscribeAck a => ua_reason_string a
  | Disconnect d => d_reason_string d
  | Auth a => a_reason_string a
  | _ => None
  end.
(* p with its diagnostics replaced; every other field is kept *)
Definition with_diag (p : packet) (ups : uprops) (reason : option bytes) : packet :=
  match p with
  | ConnectAck a => ConnectAck (connect_ack_with a reason ups)
  | PublishAck a => PublishAck (mkPublishAck (pa_packet_id a) (pa_reason_code a) ups reason)
  | PublishReceived a => PublishReceived (mkPublishAck (pa_packet_id a) (pa_reason_code a) ups reason)
  | PublishRelease a => PublishRelease (mkPublishAck2 (pa2_packet_id a) (pa2_reason_code a) ups reason)
  | PublishComplete a => PublishComplete (mkPublishAck2 (pa2_packet_id a) (pa2_reason_code a) ups reason)
  | SubscribeAck a => SubscribeAck (mkSubscribeAck (sa_packet_id a) ups reason (sa_status a))
  | UnsubscribeAck a => UnsubscribeAck (mkUnsubscribeAck (ua_packet_id a) ups reason (ua_status a))
  | Disconnect d =>
    Disconnect (mkDisconnect (d_reason_code d) (d_session_expiry_interval_secs d) (d_server_reference d) reason ups)
  | Auth a => Auth (mkAuth (a_reason_code a) (a_auth_method a) (a_auth_data a) reason ups)
  | _ => p
  end.
(* encoding domain of the packets that carry droppable diagnostics *)
Definition diag_packet_ok (p : packet) : bool :=
  match p with
  | ConnectAck a => connect_ack_ok a
  | PublishAck a | PublishReceived a => publish_ack_ok a
  | PublishRelease a | PublishComplete a => publish_ack2_ok a
  | SubscribeAck a => subscribe_ack_ok a
  | UnsubscribeAck a => unsubscribe_ack_ok a
  | Disconnect d => disconnect_ok d
  | Auth a => auth_ok a
  | _ => false
  end.

Lemma with_diag_id p : diag_packet_ok p = true -> with_diag p (diag_ups p) (diag_reason p) = p.
Proof. destruct p; try discriminate; intros _; cbn; try reflexivity; destruct c || destruct a || destruct s || destruct u || destruct d; reflexivity. Qed.

(* all the diagnostics fit under the limit L *)
Definition diag_fits (q : packet) (L : N) : Prop :=
  match q with
  | ConnectAck a =>
    diag_size (ca_user_properties a) (ca_reason_string a) <= reduce_limit L (2 + 4 + connect_ack_fixed_len a)
  | PublishAck a | PublishReceived a => 11 + diag_size (pa_properties a) (pa_reason_string a) <= L
  | PublishRelease a | PublishComplete a => 11 + diag_size (pa2_properties a) (pa2_reason_string a) <= L
  | SubscribeAck a => 6 + len (sa_status a) + diag_size (sa_properties a) (sa_reason_string a) <= L
  | UnsubscribeAck a => 6 + len (ua_status a) + diag_size (ua_properties a) (ua_reason_string a) <= L
  | Disconnect d =>
    diag_size (d_user_properties d) (d_reason_string d) <=
    reduce_limit L (eps sz4 (d_session_expiry_interval_secs d) + eps es_bytes (d_server_reference d) + 1 + 4)
  | Auth a =>
    diag_size (a_user_properties a) (a_reason_string a) <=
    reduce_limit L (eps es_bytes (a_auth_method a) + eps es_bytes (a_auth_data a) + 1 + 4)
  | _ => True
  end.

Lemma diag_core q L body :
  L <= VI_MAX -> packet_encoded_size q L <= L -> diag_packet_ok q = true ->
  body_encode q (packet_encoded_size q L) = (body, Ok tt) ->
  exists ups' reason', is_prefix ups' (diag_ups q) /\ (reason' = diag_reason q \/ reason' = None) /\
    decode_packet (first_byte q) body = Ok (with_diag q ups' reason') /\
    (diag_fits q L -> ups' = diag_ups q /\ reason' = diag_reason q).
Proof.
  intros HL Hs Hok H.
  destruct q; try discriminate; cbn [diag_packet_ok body_encode packet_encoded_size first_byte diag_ups
    diag_reason with_diag diag_fits] in *.
  - apply connect_ack_roundtrip in H as (u' & r' & ? & ? & E & F); [|lia|assumption].
    exists u', r'. rewrite decode_packet_connack, E. auto.
  - apply publish_ack_roundtrip in H as (u' & r' & ? & ? & E & F); [|lia|assumption].
    exists u', r'. rewrite decode_packet_puback, E. auto.
  - apply publish_ack_roundtrip in H as (u' & r' & ? & ? & E & F); [|lia|assumption].
    exists u', r'. rewrite decode_packet_pubrec, E. auto.
  - apply publish_ack2_roundtrip in H as (u' & r' & ? & ? & E & F); [|lia|assumption].
    exists u', r'. rewrite decode_packet_pubrel, E. auto.
  - apply publish_ack2_roundtrip in H as (u' & r' & ? & ? & E & F); [|lia|assumption].
    exists u', r'. rewrite decode_packet_pubcomp, E. auto.
  - apply subscribe_ack_roundtrip in H as (u' & r' & ? & ? & E & F); [|lia|lia|assumption].
    exists u', r'. rewrite decode_packet_suback, E. auto.
  - apply unsubscribe_ack_roundtrip in H as (u' & r' & ? & ? & E & F); [|lia|lia|assumption].
    exists u', r'. rewrite decode_packet_unsuback, E. auto.
  - apply disconnect_roundtrip in H as (u' & r' & ? & ? & E & F); [|lia|assumption].
    exists u', r'. rewrite decode_packet_disconnect, E. auto.
  - apply auth_roundtrip in H as (u' & r' & ? & ? & E & F); [|lia|assumption].
    exists u', r'. rewrite decode_packet_auth, E. auto.
Qed.

Lemma is_prefix_of_nil {A} (u : list A) : is_prefix u [] -> u = [].
Proof. intros [tl E]. destruct u; [reflexivity|discriminate]. Qed.

Lemma strip_diag p :
  diag_packet_ok p = true ->
  diag_packet_ok (strip_packet p) = true /\ first_byte (strip_packet p) = first_byte p /\
  (forall u r, with_diag (strip_packet p) u r = with_diag p u r) /\
  (forall u, is_prefix u (diag_ups (strip_packet p)) -> is_prefix u (diag_ups p)) /\
  (forall r, r = diag_reason (strip_packet p) \/ r = None -> r = diag_reason p \/ r = None).
Proof.
  destruct p; try discriminate; cbn; intros Hok.
  1,8: repeat split; auto.
  all: unfold publish_ack_ok, publish_ack2_ok, subscribe_ack_ok, unsubscribe_ack_ok, auth_ok in *; cbn.
  all: repeat (apply andb_true_iff in Hok as [Hok ?]).
  all: split; [repeat (apply andb_true_iff; split); auto|].
  all: split; [reflexivity|]. all: split; [reflexivity|].
  all: split; [intros u0 Hu; apply is_prefix_of_nil in Hu; subst; apply is_prefix_nil|].
  all: intros r0 [-> | ->]; auto.
Qed.

Lemma encodev_packet_inv c p w c' :
  encodev c (EPacket p) = ((w, Ok tt), c') ->
  let q := effective c p in
  let L := max_size_of c in
  let sz := packet_encoded_size q L in
  c' = c /\ sz <= L /\ check_frame_size c sz = Ok tt /\
  exists body, is_frame (first_byte q) sz w body /\ body_encode q sz = (body, Ok tt) /\ len body = sz.
Proof.
  intros H. apply encodev_ok in H. rewrite encode_item_packet in H.
  destruct (ec_encoding_payload c); [discriminate|]. cbv zeta in *.
  set (q := effective c p) in *. set (L := max_size_of c) in *.
  pose proof (max_size_le c) as HL. fold L in HL.
  destruct (L <? packet_encoded_size q L) eqn:E; [discriminate|].
  injection H as H <-. apply wlet_inv in H as ([] & Hc & H).
  apply packet_encode_ok in H as (body & Hf & Hb & Hlen); [|lia|lia].
  split; [reflexivity|]. split; [lia|]. split; [assumption|]. eauto.
Qed.

(* C09: for the acknowledgement family, DISCONNECT, AUTH and CONNACK the emitted frame decodes to a packet
   equal to p except that the user properties are a PREFIX of p's and the reason string is p's or absent *)
Theorem v5_only_diagnostics_dropped c p w c' :
  diag_packet_ok p = true ->
  encodev c (EPacket p) = ((w, Ok tt), c') ->
  exists body ups' reason',
    is_frame (first_byte p) (len body) w body /\
    is_prefix ups' (diag_ups p) /\ (reason' = diag_reason p \/ reason' = None) /\
    decode_packet (first_byte p) body = Ok (with_diag p ups' reason').
Proof.
  intros Hok H. apply encodev_packet_inv in H. cbv zeta in H.
  destruct H as (_ & Hs & _ & body & Hf & Hb & Hlen).
  pose proof (max_size_le c) as HL.
  unfold effective in *. destruct (ec_no_problem_info c).
  - destruct (strip_diag p Hok) as (Hok' & Hfb & Hwd & Hpre & Hrs).
    apply diag_core in Hb as (u & r & Hp & Hr & Hd & _); [|assumption|assumption|assumption].
    exists body, u, r. rewrite Hlen, <- Hfb. split; [assumption|]. split; [auto|]. split; [auto|].
    now rewrite Hd, Hwd.
  - apply diag_core in Hb as (u & r & Hp & Hr & Hd & _); [|assumption|assumption|assumption].
    exists body, u, r. rewrite Hlen. auto.
Qed.
