(* Proofs/RespQueueProofs.v -- the response queue of Model/RespQueue.v writes responses in arrival
   order (property C04).  The invariant relates the model state after a list of operations to two
   ghost lists: [gw] (requests that have left the queue, with their results) and [gq] (requests
   still in the queue, with their status), in arrival order. *)
From Coq Require Import ZArith ZifyN ZifyBool Lia List.
From MV Require Import Base.Prelude Model.RespQueue Spec.SpecResp.
Import ListNotations.
Open Scope N_scope.

(* identical copies of the local definitions of Props/C04.v (convertible with them) *)
Definition ans_of_p (r : hres) : answer := match r with HSome b => ASome b | _ => ANone end.
Definition ev_of_p (o : op) : ev :=
  match o with
  | Arrive id now => EArrive id (option_map ans_of_p now)
  | Done id r => EDone id (ans_of_p r)
  end.
Definition no_err_p (o : op) : bool :=
  match o with
  | Arrive _ (Some HErr) | Done _ HErr => false
  | _ => true
  end.
Definition rq_at_p (b : N) : rq := mkRq b [] None 0 false [] [] false.

(* ------------------------------------------------------------------ *)
(* wrapping arithmetic *)

Section Arith.
Local Ltac Zify.zify_post_hook ::= Z.div_mod_to_equations.

Lemma wadd_lt a b : wadd a b < W64.
Proof. unfold wadd, W64. lia. Qed.

Lemma wadd_0 b : b < W64 -> wadd b 0 = b.
Proof. unfold wadd, W64. lia. Qed.

Lemma wsub_wadd b n : b < W64 -> n < W64 -> wsub (wadd b n) b = n.
Proof. unfold wsub, wadd, W64. lia. Qed.

Lemma wsub_shift i b n k : wsub i b = n + k -> wsub i (wadd b k) = n.
Proof. unfold wsub, wadd, W64. lia. Qed.

Lemma wadd_wadd b n : wadd (wadd b 1) n = wadd b (1 + n).
Proof. unfold wadd, W64. lia. Qed.
End Arith.

(* ------------------------------------------------------------------ *)
(* lists *)

Lemma nth_error_mid {A} (l1 : list A) a l2 : nth_error (l1 ++ a :: l2) (length l1) = Some a.
Proof. induction l1; cbn; auto. Qed.

Lemma nth_error_mid_other {A} (l1 : list A) a b l2 k :
  k <> length l1 -> nth_error (l1 ++ a :: l2) k = nth_error (l1 ++ b :: l2) k.
Proof.
  revert k; induction l1 as [|x l1 IH]; intros [|k] H; cbn in *; auto; try congruence.
Qed.

Lemma nth_error_skip {A} (p l : list A) j : nth_error (p ++ l) (length p + j) = nth_error l j.
Proof. induction p; cbn; auto. Qed.

Lemma nth_error_snoc {A} (l : list A) x j e :
  nth_error (l ++ [x]) j = Some e -> nth_error l j = Some e \/ (j = length l /\ e = x).
Proof.
  revert j; induction l as [|y l IH]; intros [|j] H; cbn in *.
  - right. split; congruence.
  - destruct j; discriminate.
  - now left.
  - apply IH in H as [H|[-> ->]]; auto.
Qed.

Lemma set_nth_mid {A} (l1 : list A) a b l2 : set_nth (length l1) b (l1 ++ a :: l2) = l1 ++ b :: l2.
Proof. induction l1; cbn; congruence. Qed.

Lemma mem_true_iff x l : mem x l = true <-> In x l.
Proof.
  induction l as [|y l IH]; cbn [mem In]; [split; [discriminate|tauto]|].
  rewrite orb_true_iff, IH, N.eqb_eq. intuition congruence.
Qed.

Lemma mem_filter_ne i id P :
  mem i (filter (fun j => negb (j =? id)) P) = true -> mem i P = true /\ i <> id.
Proof.
  rewrite !mem_true_iff, filter_In, negb_true_iff, N.eqb_neq. tauto.
Qed.

(* ------------------------------------------------------------------ *)
(* the specification, one event at a time *)

Fixpoint arr_after (A : list N) (h : list ev) : list N :=
  match h with
  | [] => A
  | EArrive i _ :: r => arr_after (i :: A) r
  | EDone _ _ :: r => arr_after A r
  end.

Fixpoint pend_after (P : list N) (h : list ev) : list N :=
  match h with
  | [] => P
  | EArrive i now :: r => pend_after (match now with None => i :: P | Some _ => P end) r
  | EDone i _ :: r => pend_after (filter (fun j => negb (j =? i)) P) r
  end.

Lemma wf_go_app A P h1 h2 :
  wf_go A P (h1 ++ h2) = wf_go A P h1 && wf_go (arr_after A h1) (pend_after P h1) h2.
Proof.
  revert A P; induction h1 as [|[i now|i a] h1 IH]; intros A P; cbn [app wf_go arr_after pend_after].
  - reflexivity.
  - rewrite IH, andb_assoc. reflexivity.
  - rewrite IH, andb_assoc. reflexivity.
Qed.

Lemma arr_after_snoc A h e :
  arr_after A (h ++ [e]) = match e with EArrive i _ => i :: arr_after A h | EDone _ _ => arr_after A h end.
Proof.
  revert A; induction h as [|[i now|i a] h IH]; intros A; cbn [app arr_after]; auto.
Qed.

Lemma pend_after_snoc P h e :
  pend_after P (h ++ [e]) =
  match e with
  | EArrive i None => i :: pend_after P h
  | EArrive i (Some _) => pend_after P h
  | EDone i _ => filter (fun j => negb (j =? i)) (pend_after P h)
  end.
Proof.
  revert P; induction h as [|[i now|i a] h IH]; intros P; cbn [app pend_after]; auto;
  try (destruct e as [i [a|]|i a]; reflexivity).
Qed.

Lemma arrivals_app h1 h2 : arrivals (h1 ++ h2) = arrivals h1 ++ arrivals h2.
Proof. induction h1 as [|[i now|i a] h1 IH]; cbn [app arrivals]; auto. now rewrite IH. Qed.

Lemma arr_after_In A h i : In i (arrivals h) -> In i (arr_after A h).
Proof.
  induction h as [|e h IH] using rev_ind; [intros []|].
  rewrite arrivals_app, arr_after_snoc, in_app_iff.
  destruct e as [j now|j a]; cbn [arrivals In]; intuition.
Qed.

Lemma done_in_app i h1 h2 :
  done_in i (h1 ++ h2) = match done_in i h1 with Some a => Some a | None => done_in i h2 end.
Proof.
  induction h1 as [|[j [a|]|j a] h1 IH]; cbn [app done_in]; auto; destruct (j =? i); auto.
Qed.

Definition ev_id (e : ev) : N := match e with EArrive i _ => i | EDone i _ => i end.

Lemma done_in_snoc_other i h e : ev_id e <> i -> done_in i (h ++ [e]) = done_in i h.
Proof.
  intros H. rewrite done_in_app. destruct (done_in i h); auto.
  destruct e as [j [a|]|j a]; cbn [done_in ev_id] in *; auto;
    (destruct (j =? i) eqn:E; [apply N.eqb_eq in E; contradiction|reflexivity]).
Qed.

Lemma done_in_snoc_arrive i h a :
  done_in i h = None -> done_in i (h ++ [EArrive i a]) = a.
Proof.
  intros H. rewrite done_in_app, H. cbn [done_in]. destruct a; auto. now rewrite N.eqb_refl.
Qed.

Lemma done_in_snoc_done i h a :
  done_in i h = None -> done_in i (h ++ [EDone i a]) = Some a.
Proof.
  intros H. rewrite done_in_app, H. cbn [done_in]. now rewrite N.eqb_refl.
Qed.

Definition resp_of (h : list ev) (i : N) : list N :=
  match done_in i h with Some (ASome x) => [x] | _ => [] end.

Lemma written_all_done ids h :
  all_done ids h = true -> written_prefix ids h = flat_map (resp_of h) ids.
Proof.
  induction ids as [|i ids IH]; cbn [all_done written_prefix flat_map]; auto.
  unfold resp_of at 1. destruct (done_in i h) as [[x|]|]; intros H; try discriminate;
    rewrite (IH H); reflexivity.
Qed.

(* ------------------------------------------------------------------ *)
(* ghost state *)

Inductive qst := QWait (idx : N) | QReady (r : hres) | QStuck.

Definition slot_of (p : N * qst) : slot := match snd p with QReady r => SReady r | _ => SPending end.
Definition outp (p : N * hres) : list N := match snd p with HSome b => [b] | _ => [] end.
Definition is_herr (r : hres) : bool := match r with HErr => true | _ => false end.
Definition st_done (st : qst) : option answer :=
  match st with QWait _ => None | QReady r => Some (ans_of_p r) | QStuck => Some ANone end.
Definition st_ok (st : qst) : Prop :=
  match st with QStuck => False | QReady HErr => False | _ => True end.
Definition head_ok (gq : list (N * qst)) : Prop :=
  match gq with (_, QReady _) :: _ => False | _ => True end.
Definition mkready (p : N * hres) : N * qst := (fst p, QReady (snd p)).

Fixpoint gsplit (gq : list (N * qst)) : list (N * hres) * list (N * qst) :=
  match gq with
  | (id, QReady r) :: t => let (a, b) := gsplit t in ((id, r) :: a, b)
  | _ => ([], gq)
  end.

Lemma gsplit_spec gq : gq = map mkready (fst (gsplit gq)) ++ snd (gsplit gq) /\ head_ok (snd (gsplit gq)).
Proof.
  induction gq as [|[id [x|r|]] t IH]; cbn [gsplit fst snd map app head_ok]; auto.
  destruct (gsplit t) as [a b]. cbn [fst snd map app mkready] in *. destruct IH as [IH1 IH2].
  split; auto. now rewrite <- IH1.
Qed.

Ltac rq := cbn [base queue response response_idx error spawned out panicked].

Lemma ai_base s r : base (apply_item s r) = base s. Proof. destruct r; reflexivity. Qed.
Lemma ai_queue s r : queue (apply_item s r) = queue s. Proof. destruct r; reflexivity. Qed.
Lemma ai_response s r : response (apply_item s r) = response s. Proof. destruct r; reflexivity. Qed.
Lemma ai_ridx s r : response_idx (apply_item s r) = response_idx s. Proof. destruct r; reflexivity. Qed.
Lemma ai_spawned s r : spawned (apply_item s r) = spawned s. Proof. destruct r; reflexivity. Qed.
Lemma ai_panicked s r : panicked (apply_item s r) = panicked s. Proof. destruct r; reflexivity. Qed.
Lemma ai_out s r id : out (apply_item s r) = out s ++ outp (id, r).
Proof. destruct r; cbn [apply_item out outp snd]; auto using app_nil_r. Qed.
Lemma ai_error s r : error (apply_item s r) = is_herr r || error s.
Proof. destruct r; reflexivity. Qed.

Lemma drain_spec gq : forall fuel s,
  queue s = map slot_of gq -> (length gq <= fuel)%nat -> base s < W64 ->
  let a := fst (gsplit gq) in
  let s' := drain fuel s in
  queue s' = map slot_of (snd (gsplit gq)) /\
  base s' = wadd (base s) (N.of_nat (length a)) /\
  response s' = response s /\ response_idx s' = response_idx s /\ spawned s' = spawned s /\
  panicked s' = panicked s /\
  out s' = out s ++ flat_map outp a /\
  error s' = existsb (fun p => is_herr (snd p)) a || error s.
Proof.
  induction gq as [|[id st] t IH]; intros fuel s Hq Hl Hb.
  - cbn [gsplit fst snd length map flat_map existsb orb]. cbn [map] in Hq.
    assert (E : drain fuel s = s) by (destruct fuel; cbn [drain]; [|rewrite Hq]; reflexivity).
    cbn zeta. rewrite E, Hq, app_nil_r, wadd_0 by assumption. repeat split; reflexivity.
  - destruct st as [x|r|].
    + cbn [gsplit fst snd length flat_map existsb orb].
      assert (E : drain fuel s = s)
        by (destruct fuel; cbn [drain]; [|rewrite Hq]; reflexivity).
      cbn zeta. rewrite E, app_nil_r, wadd_0 by assumption. repeat split; auto.
    + destruct fuel as [|k]; [cbn in Hl; lia|].
      cbn [drain]. rewrite Hq. cbn [map slot_of snd].
      specialize (IH k (apply_item (pop_front s) r)).
      rewrite ai_queue, ai_base, ai_response, ai_ridx, ai_spawned, ai_panicked, ai_error,
        (ai_out _ _ id) in IH.
      cbn [pop_front base queue response response_idx error spawned out panicked] in IH.
      rewrite Hq in IH. cbn [map tl] in IH.
      destruct IH as (I1 & I2 & I3 & I4 & I5 & I6 & I7 & I8);
        [reflexivity | cbn in Hl; lia | apply wadd_lt |].
      cbn [gsplit]. destruct (gsplit t) as [a b]. cbn [fst snd length flat_map existsb] in *.
      cbn zeta. rewrite I1, I2, I3, I4, I5, I6, I7, I8, wadd_wadd.
      repeat split; auto.
      * f_equal. lia.
      * now rewrite <- app_assoc.
      * now rewrite orb_assoc, (orb_comm (is_herr r)).
    + cbn [gsplit fst snd length flat_map existsb orb].
      assert (E : drain fuel s = s)
        by (destruct fuel; cbn [drain]; [|rewrite Hq]; reflexivity).
      cbn zeta. rewrite E, app_nil_r, wadd_0 by assumption. repeat split; auto.
Qed.

(* ------------------------------------------------------------------ *)
(* the invariant *)

Definition hist (ops : list op) : list ev := map ev_of_p ops.

Definition pos_ok (s : rq) (gq : list (N * qst)) : Prop :=
  forall j id idx, nth_error gq j = Some (id, QWait idx) -> wsub idx (base s) = N.of_nat j.

Record Inv (ops : list op) (s : rq) (gw : list (N * hres)) (gq : list (N * qst)) : Prop := mkInv {
  i_base : base s < W64;
  i_queue : queue s = map slot_of gq;
  i_head : head_ok gq;
  i_pos : pos_ok s gq;
  i_pan : panicked s = false;
  i_inl : forall i, response s = Some i -> In (i, QWait (response_idx s)) gq;
  i_sp : forall i x, In (i, x) (spawned s) -> In (i, QWait x) gq;
  i_nd : NoDup (map fst (spawned s));
  i_ni : forall i, response s = Some i -> ~ In i (map fst (spawned s));
  i_arr : arrivals (hist ops) = map fst gw ++ map fst gq;
  i_ndA : NoDup (arrivals (hist ops));
  i_w : forall i x, In (i, x) gw -> done_in i (hist ops) = Some (ans_of_p x);
  i_q : forall i st, In (i, st) gq -> done_in i (hist ops) = st_done st;
  i_d : forall i, done_in i (hist ops) <> None -> In i (arrivals (hist ops));
  i_pend : forall i, mem i (pend_after [] (hist ops)) = true ->
                     response s = Some i \/ In i (map fst (spawned s));
  i_len : (length gq <= length ops)%nat;
  i_out : out s = flat_map outp gw;
  i_ok : forallb no_err_p ops = true -> error s = false /\ Forall (fun p => st_ok (snd p)) gq
}.

Lemma in_mid {A} (x a : A) l1 l2 : In x (l1 ++ l2) -> In x (l1 ++ a :: l2).
Proof. rewrite !in_app_iff. cbn [In]. tauto. Qed.

Lemma map_fst_mkready a : map fst (map mkready a) = map fst a.
Proof. rewrite map_map. apply map_ext. reflexivity. Qed.

Lemma not_wait_mkready i x a : ~ In (i, QWait x) (map mkready a).
Proof. intros H. apply in_map_iff in H as (p & E & _). discriminate. Qed.

(* a completion with result [r] reaches [handle_result] for the request [id] sitting in the queue
   at position [length l1], whose call is no longer tracked by [response]/[spawned] *)
Lemma mid ops s gw l1 id idx l2 r :
  let gq := l1 ++ (id, QWait idx) :: l2 in
  let h := hist ops in
  base s < W64 -> queue s = map slot_of gq -> head_ok gq -> pos_ok s gq -> panicked s = false ->
  N.of_nat (length gq) < W64 ->
  (forall i, response s = Some i -> In (i, QWait (response_idx s)) (l1 ++ l2)) ->
  (forall i x, In (i, x) (spawned s) -> In (i, QWait x) (l1 ++ l2)) ->
  NoDup (map fst (spawned s)) ->
  (forall i, response s = Some i -> ~ In i (map fst (spawned s))) ->
  arrivals h = map fst gw ++ map fst gq -> NoDup (arrivals h) ->
  (forall i x, In (i, x) gw -> done_in i h = Some (ans_of_p x)) ->
  (forall i st, In (i, st) (l1 ++ l2) -> done_in i h = st_done st) ->
  done_in id h = Some (ans_of_p r) ->
  (forall i, done_in i h <> None -> In i (arrivals h)) ->
  (forall i, mem i (pend_after [] h) = true -> response s = Some i \/ In i (map fst (spawned s))) ->
  (length gq <= length ops)%nat ->
  out s = flat_map outp gw ->
  (forallb no_err_p ops = true ->
   r <> HErr /\ error s = false /\ Forall (fun p => st_ok (snd p)) (l1 ++ l2)) ->
  exists gw' gq', Inv ops (handle_result s r idx) gw' gq'.
Proof.
  intros gq h Hb Hq Hh Hpos Hpan Hlen Hinl Hsp Hnd Hni Harr HndA Hw Hqs Hdone Hd Hpend Hl Hout Hok.
  assert (Hj : wsub idx (base s) = N.of_nat (length l1)).
  { apply Hpos with id. apply nth_error_mid. }
  unfold handle_result. rewrite Hj.
  destruct l1 as [|y l1].
  - (* the head of the queue: pop it and drain the ready slots behind it *)
    cbn [length N.of_nat app] in *. rewrite N.eqb_refl.
    set (s1 := apply_item (pop_front s) r).
    destruct (gsplit_spec l2) as [Hsplit Hhb].
    assert (Hq1 : queue s1 = map slot_of l2).
    { unfold s1. rewrite ai_queue. cbn [pop_front queue]. rewrite Hq. reflexivity. }
    assert (Hb1 : base s1 < W64).
    { unfold s1. rewrite ai_base. cbn [pop_front base]. apply wadd_lt. }
    destruct (drain_spec l2 (length (queue s1)) s1 Hq1) as (D1 & D2 & D3 & D4 & D5 & D6 & D7 & D8);
      [rewrite Hq1, map_length; lia | assumption |].
    set (a := fst (gsplit l2)) in *. set (b := snd (gsplit l2)) in *.
    set (s' := drain (length (queue s1)) s1) in *.
    unfold s1 in D2, D3, D4, D5, D6, D7, D8.
    rewrite ai_base in D2. rewrite ai_response in D3. rewrite ai_ridx in D4. rewrite ai_spawned in D5.
    rewrite ai_panicked in D6. rewrite (ai_out _ _ id) in D7. rewrite ai_error in D8.
    cbn [pop_front base queue response response_idx error spawned out panicked] in D2, D3, D4, D5, D6, D7, D8.
    assert (Hinb : forall p, In p b -> In p l2).
    { intros p Hp. rewrite Hsplit. apply in_or_app. now right. }
    assert (Hina : forall i x, In (i, x) a -> In (i, QReady x) l2).
    { intros i x Hp. rewrite Hsplit. apply in_or_app. left.
      apply in_map_iff. exists (i, x). split; auto. }
    assert (Hwb : forall i x, In (i, QWait x) l2 -> In (i, QWait x) b).
    { intros i x Hp. rewrite Hsplit in Hp. apply in_app_or in Hp as [Hp|Hp]; auto.
      now apply not_wait_mkready in Hp. }
    exists (gw ++ (id, r) :: a), b. constructor.
    + rewrite D2. apply wadd_lt.
    + exact D1.
    + exact Hhb.
    + intros j i x Hn. rewrite D2. apply wsub_shift, wsub_shift.
      rewrite (Hpos (S (length (map mkready a) + j)) i x).
      * rewrite map_length. lia.
      * unfold gq. cbn [nth_error]. rewrite Hsplit. apply eq_trans with (2 := Hn).
        apply nth_error_skip.
    + now rewrite D6.
    + rewrite D3, D4. intros i Hi. apply Hwb. now apply Hinl.
    + rewrite D5. intros i x Hi. apply Hwb. now apply Hsp.
    + now rewrite D5.
    + rewrite D3, D5. exact Hni.
    + fold h. rewrite Harr. unfold gq. rewrite Hsplit at 1.
      cbn [map]. rewrite !map_app, map_fst_mkready. cbn [map fst app]. rewrite <- !app_assoc. reflexivity.
    + exact HndA.
    + intros i x Hi. apply in_app_or in Hi as [Hi|[Hi|Hi]].
      * now apply Hw.
      * injection Hi as <- <-. exact Hdone.
      * apply Hina, Hqs in Hi. exact Hi.
    + intros i st Hi. apply Hqs. now apply Hinb.
    + exact Hd.
    + rewrite D3, D5. exact Hpend.
    + apply Nat.le_trans with (2 := Hl). unfold gq. cbn [length].
      rewrite Hsplit at 1. rewrite app_length. lia.
    + rewrite D7, Hout, flat_map_app. cbn [flat_map]. now rewrite <- app_assoc.
    + intros Hne. destruct (Hok Hne) as (Hr & He & Hf). rewrite D8, He.
      rewrite Forall_forall in Hf. split.
      * replace (is_herr r) with false by (destruct r; auto; congruence).
        rewrite !orb_false_r. apply not_true_is_false. intros Hex.
        apply existsb_exists in Hex as ([i x] & Hi & Hx). cbn [snd] in Hx.
        apply Hina, Hf in Hi. cbn [snd st_ok] in Hi. destruct x; auto; discriminate.
      * apply Forall_forall. intros p Hp. apply Hf. now apply Hinb.
  - (* a slot behind the head *)
    set (L1 := y :: l1) in *.
    assert (Hj0 : (N.of_nat (length L1) =? 0) = false).
    { apply N.eqb_neq. unfold L1. cbn [length]. lia. }
    rewrite Hj0.
    set (st' := match r with HErr => QStuck | _ => QReady r end).
    set (gq' := L1 ++ (id, st') :: l2).
    assert (Hst' : forall x, st' <> QWait x) by (intros x; unfold st'; destruct r; discriminate).
    assert (Hslot : map slot_of gq' = set_nth (length L1) (slot_of (id, st')) (queue s)).
    { rewrite Hq. unfold gq, gq'. rewrite !map_app. cbn [map].
      rewrite <- (map_length slot_of L1). now rewrite set_nth_mid. }
    assert (Hlt : (N.of_nat (length L1) <? lenN (queue s)) = true).
    { apply N.ltb_lt. unfold lenN. rewrite Hq, map_length. unfold gq. rewrite app_length.
      cbn [length]. lia. }
    set (s' := match r with
               | HErr => apply_item s HErr
               | _ => if N.of_nat (length L1) <? lenN (queue s) then _ else _
               end).
    assert (HS : base s' = base s /\ queue s' = map slot_of gq' /\ response s' = response s /\
                 response_idx s' = response_idx s /\ spawned s' = spawned s /\ out s' = out s /\
                 panicked s' = false /\ error s' = is_herr r || error s).
    { unfold s'. rewrite Hlt, Nat2N.id, Hslot. unfold st'.
      destruct r; cbn [apply_item base queue response response_idx error spawned out panicked
                        slot_of snd is_herr orb]; repeat split; auto.
      rewrite Hq. unfold gq. rewrite !map_app. cbn [map].
      rewrite <- (map_length slot_of L1), set_nth_mid. reflexivity. }
    destruct HS as (S1 & S2 & S3 & S4 & S5 & S6 & S7 & S8).
    exists gw, gq'. constructor.
    + now rewrite S1.
    + exact S2.
    + unfold gq'. unfold L1. destruct y as [? [?|?|]]; exact Hh.
    + intros k i x Hn. rewrite S1. apply (Hpos k i x).
      destruct (Nat.eq_dec k (length L1)) as [->|Hk].
      * unfold gq' in Hn. rewrite nth_error_mid in Hn. injection Hn as _ Hn. now apply Hst' in Hn.
      * unfold gq. rewrite <- Hn. now apply nth_error_mid_other.
    + exact S7.
    + rewrite S3, S4. intros i Hi. apply in_mid. now apply Hinl.
    + rewrite S5. intros i x Hi. apply in_mid. now apply Hsp.
    + now rewrite S5.
    + rewrite S3, S5. exact Hni.
    + fold h. rewrite Harr. unfold gq, gq'. rewrite !map_app. reflexivity.
    + exact HndA.
    + exact Hw.
    + intros i st Hi. apply in_elt_inv in Hi as [Hi|Hi].
      * injection Hi as E1 E2. rewrite E1, E2. fold h. rewrite Hdone. unfold st'. destruct r; reflexivity.
      * now apply Hqs.
    + exact Hd.
    + rewrite S3, S5. exact Hpend.
    + apply Nat.le_trans with (2 := Hl). unfold gq, gq'. rewrite !app_length. reflexivity.
    + now rewrite S6.
    + intros Hne. destruct (Hok Hne) as (Hr & He & Hf). rewrite S8, He.
      split; [destruct r; auto; congruence|].
      rewrite Forall_forall in *. intros p Hp. apply in_elt_inv in Hp as [Hp|Hp]; auto.
      rewrite Hp. unfold st'. destruct r; cbn; auto.
Qed.

(* ------------------------------------------------------------------ *)
(* a request arrives *)

Lemma NoDup_snoc {A} (l : list A) x : NoDup l -> ~ In x l -> NoDup (l ++ [x]).
Proof.
  induction l as [|y l IH]; intros H1 H2; cbn [app].
  - constructor; [intros []|constructor].
  - inversion H1 as [|? ? H3 H4]; subst. constructor.
    + rewrite in_app_iff. cbn [In]. intros [H|[H|[]]]; [auto|]. apply H2. now left.
    + apply IH; auto. intros H; apply H2; now right.
Qed.

Lemma pos_ok_push s s' gq id st :
  pos_ok s gq -> base s' = base s -> base s < W64 -> N.of_nat (length gq) < W64 ->
  (forall x, st = QWait x -> x = wadd (base s) (N.of_nat (length gq))) ->
  pos_ok s' (gq ++ [(id, st)]).
Proof.
  intros Hp Hb Hlt Hl Hst j i x Hn. rewrite Hb.
  apply nth_error_snoc in Hn as [Hn|[-> Hn]]; [now apply Hp in Hn|].
  injection Hn as _ Hn. symmetry in Hn. apply Hst in Hn. subst x. now apply wsub_wadd.
Qed.

Lemma head_ok_push gq id st :
  head_ok gq -> (gq = [] -> forall r, st <> QReady r) -> head_ok (gq ++ [(id, st)]).
Proof.
  destruct gq as [|[i [x|r|]] t]; cbn [app head_ok]; auto.
  intros _ H. specialize (H eq_refl). destruct st; auto. now apply (H r).
Qed.

Lemma arrive_facts ops s gw gq o id now' :
  Inv ops s gw gq -> ev_of_p o = EArrive id now' -> ~ In id (arrivals (hist ops)) ->
  let h' := hist (ops ++ [o]) in
  arrivals h' = arrivals (hist ops) ++ [id] /\
  NoDup (arrivals h') /\
  done_in id h' = now' /\
  (forall i x, In (i, x) gw -> done_in i h' = Some (ans_of_p x)) /\
  (forall i st, In (i, st) gq -> done_in i h' = st_done st) /\
  (forall i, done_in i h' <> None -> In i (arrivals h')) /\
  pend_after [] h' = match now' with None => id :: pend_after [] (hist ops) | Some _ => pend_after [] (hist ops) end /\
  forallb no_err_p (ops ++ [o]) = forallb no_err_p ops && no_err_p o /\
  ~ In id (map fst (spawned s)) /\
  (forall st, ~ In (id, st) gq).
Proof.
  intros [Ib Iq Ih Ipos Ipan Iinl Isp Ind Ini Iarr IndA Iw Iqs Id Ipend Ilen Iout Iok] Ho Hfresh h'.
  assert (Hh' : h' = hist ops ++ [EArrive id now']).
  { unfold h', hist. rewrite map_app. cbn [map]. now rewrite Ho. }
  assert (Hd0 : done_in id (hist ops) = None).
  { destruct (done_in id (hist ops)) eqn:E; auto. exfalso. apply Hfresh, Id. congruence. }
  assert (Harr' : arrivals h' = arrivals (hist ops) ++ [id]).
  { rewrite Hh', arrivals_app. reflexivity. }
  assert (Hoth : forall i, i <> id -> done_in i h' = done_in i (hist ops)).
  { intros i Hi. rewrite Hh'. apply done_in_snoc_other. cbn [ev_id]. congruence. }
  assert (Hgq : forall st, ~ In (id, st) gq).
  { intros st Hin. apply Hfresh. rewrite Iarr. apply in_or_app. right.
    apply in_map_iff. exists (id, st); auto. }
  assert (Hgw : forall x, ~ In (id, x) gw).
  { intros x Hin. apply Hfresh. rewrite Iarr. apply in_or_app. left.
    apply in_map_iff. exists (id, x); auto. }
  repeat split.
  - exact Harr'.
  - rewrite Harr'. now apply NoDup_snoc.
  - rewrite Hh'. now apply done_in_snoc_arrive.
  - intros i x Hi. rewrite Hoth; [now apply Iw|]. intros ->. now apply Hgw in Hi.
  - intros i st Hi. rewrite Hoth; [now apply Iqs|]. intros ->. now apply Hgq in Hi.
  - intros i Hi. rewrite Harr'. apply in_or_app.
    destruct (N.eq_dec i id) as [->|Hne]; [right; now left|left].
    apply Id. now rewrite <- Hoth.
  - rewrite Hh', pend_after_snoc. destruct now'; reflexivity.
  - rewrite forallb_app. cbn [forallb]. now rewrite andb_true_r.
  - intros Hin. apply in_map_iff in Hin as ([i x] & E & Hin). cbn [fst] in E. subst i.
    apply Isp in Hin. now apply Hgq in Hin.
  - exact Hgq.
Qed.

(* the new request takes a slot at the back of the queue *)
Lemma push_inv ops s gw gq o id now' st s' :
  Inv ops s gw gq -> ev_of_p o = EArrive id now' ->
  N.of_nat (length (ops ++ [o])) < W64 -> ~ In id (arrivals (hist ops)) ->
  now' = st_done st ->
  (forall x, st = QWait x -> x = wadd (base s) (N.of_nat (length gq))) ->
  (gq = [] -> forall r, st <> QReady r) ->
  (no_err_p o = true -> st_ok st) ->
  base s' = base s -> queue s' = queue s ++ [slot_of (id, st)] -> out s' = out s ->
  error s' = error s -> panicked s' = panicked s ->
  (forall i, response s' = Some i -> In (i, QWait (response_idx s')) (gq ++ [(id, st)])) ->
  (forall i x, In (i, x) (spawned s') -> In (i, QWait x) (gq ++ [(id, st)])) ->
  NoDup (map fst (spawned s')) ->
  (forall i, response s' = Some i -> ~ In i (map fst (spawned s'))) ->
  (forall i, mem i (pend_after [] (hist (ops ++ [o]))) = true ->
             response s' = Some i \/ In i (map fst (spawned s'))) ->
  Inv (ops ++ [o]) s' gw (gq ++ [(id, st)]).
Proof.
  intros I Ho Hlen Hfresh Hnow Hst Hhd Hsok Eb Eq Eo Ee Ep Hinl Hsp Hnd Hni Hpend.
  destruct (arrive_facts _ _ _ _ _ _ _ I Ho Hfresh) as (F1 & F2 & F3 & F4 & F5 & F6 & F7 & F8 & F9 & F10).
  destruct I as [Ib Iq Ih Ipos Ipan Iinl Isp Ind Ini Iarr IndA Iw Iqs Id Ipend Ilen Iout Iok].
  rewrite app_length in Hlen. cbn [length] in Hlen.
  constructor; auto.
  - now rewrite Eb.
  - rewrite Eq, Iq, map_app. reflexivity.
  - now apply head_ok_push.
  - apply pos_ok_push with s; auto. lia.
  - now rewrite Ep.
  - rewrite F1, Iarr, map_app, app_assoc. reflexivity.
  - intros i st0 Hi. apply in_app_or in Hi as [Hi|[Hi|[]]]; [now apply F5|].
    injection Hi as <- <-. now rewrite F3.
  - rewrite !app_length. cbn [length]. lia.
  - now rewrite Eo.
  - rewrite F8, Ee. intros Hne. apply andb_true_iff in Hne as [Hne1 Hne2].
    destruct (Iok Hne1) as [He Hf]. split; auto.
    apply Forall_app. split; auto.
Qed.

Lemma step_arrive ops s gw gq id now :
  Inv ops s gw gq -> N.of_nat (length (ops ++ [Arrive id now])) < W64 ->
  ~ In id (arrivals (hist ops)) ->
  exists gw' gq', Inv (ops ++ [Arrive id now]) (arrive s id now) gw' gq'.
Proof.
  intros I Hlen Hfresh.
  assert (Ho : ev_of_p (Arrive id now) = EArrive id (option_map ans_of_p now)) by reflexivity.
  destruct (arrive_facts _ _ _ _ _ _ _ I Ho Hfresh) as (F1 & F2 & F3 & F4 & F5 & F6 & F7 & F8 & F9 & F10).
  pose proof I as [Ib Iq Ih Ipos Ipan Iinl Isp Ind Ini Iarr IndA Iw Iqs Id Ipend Ilen Iout Iok].
  assert (Hlq : lenN (queue s) = N.of_nat (length gq)).
  { unfold lenN. now rewrite Iq, map_length. }
  assert (Hlen' : N.of_nat (length gq) + 1 < W64).
  { rewrite app_length in Hlen. cbn [length] in Hlen. lia. }
  unfold arrive, call_service.
  destruct (response s) as [i0|] eqn:Hr.
  - destruct now as [r|].
    + (* spawned, ready at its first poll: the spawned task completes right away *)
      set (ridx := wadd (base s) (lenN (queue s))).
      apply (mid _ (push_back s SPending) gw gq id ridx [] r); cbn [push_back base queue response
        response_idx error spawned out panicked]; rewrite ?app_nil_r; auto.
      * rewrite Iq, map_app. reflexivity.
      * apply head_ok_push; auto. intros _ r0. discriminate.
      * apply pos_ok_push with s; auto; [lia|]. intros x E. injection E as <-. unfold ridx. now rewrite Hlq.
      * rewrite app_length. cbn [length]. lia.
      * rewrite Hr. intros i E. injection E as <-. now apply Iinl.
      * rewrite Hr. exact Ini.
      * rewrite F1, Iarr, map_app, app_assoc. reflexivity.
      * rewrite F7, Hr. exact Ipend.
      * rewrite !app_length. cbn [length]. lia.
      * rewrite F8. intros Hne. apply andb_true_iff in Hne as [Hne1 Hne2].
        destruct (Iok Hne1) as [He Hf]. repeat split; auto. intros ->. discriminate.
    + (* spawned, pending *)
      exists gw, (gq ++ [(id, QWait (wadd (base s) (lenN (queue s))))]).
      apply (push_inv _ s gw gq _ id _ (QWait (wadd (base s) (lenN (queue s)))) _ I Ho Hlen Hfresh);
        cbn [push_back base queue response response_idx error spawned out panicked slot_of snd]; auto.
      * intros x E. injection E as <-. now rewrite Hlq.
      * intros _ r0. discriminate.
      * cbn [st_ok]. auto.
      * rewrite Hr. intros i E. injection E as <-. apply in_or_app. left. now apply Iinl.
      * intros i x Hi. apply in_or_app. apply in_app_or in Hi as [Hi|[Hi|[]]]; [left; now apply Isp|].
        right. left. now injection Hi as <- <-.
      * rewrite map_app. cbn [map fst]. now apply NoDup_snoc.
      * rewrite Hr. intros i E Hi. injection E as <-. rewrite map_app in Hi.
        apply in_app_or in Hi as [Hi|[Hi|[]]]; [now apply (Ini i0)|].
        cbn [fst] in Hi. subst i0. exact (F10 _ (Iinl _ eq_refl)).
      * rewrite F7. cbn [option_map mem]. intros i Hi. apply orb_true_iff in Hi as [Hi|Hi].
        -- apply N.eqb_eq in Hi. subst i. right. rewrite map_app. apply in_or_app. right. now left.
        -- apply Ipend in Hi as [Hi|Hi]; [left; congruence|].
           right. rewrite map_app. apply in_or_app. now left.
  - destruct now as [r|].
    + rewrite Iq. destruct gq as [|q0 gq0]; cbn [map].
      * (* nothing queued: written at once *)
        exists (gw ++ [(id, r)]), []. constructor; auto.
        -- now rewrite ai_base.
        -- now rewrite ai_queue.
        -- intros [|j] i x E; discriminate.
        -- now rewrite ai_panicked.
        -- rewrite ai_response, Hr. discriminate.
        -- rewrite ai_spawned. exact Isp.
        -- now rewrite ai_spawned.
        -- rewrite ai_response, Hr. discriminate.
        -- rewrite F1, Iarr, map_app. cbn [map fst]. now rewrite !app_nil_r.
        -- intros i x Hi. apply in_app_or in Hi as [Hi|[Hi|[]]]; [now apply F4|].
           injection Hi as <- <-. now rewrite F3.
        -- rewrite ai_response, ai_spawned, F7, Hr. exact Ipend.
        -- cbn [length]. lia.
        -- rewrite (ai_out _ _ id), Iout, flat_map_app. cbn [flat_map]. now rewrite app_nil_r.
        -- rewrite F8, ai_error. intros Hne. apply andb_true_iff in Hne as [Hne1 Hne2].
           destruct (Iok Hne1) as [He Hf]. split; auto. rewrite He. destruct r; auto; discriminate.
      * (* something queued, no call inline: the result waits in a ready slot *)
        exists gw, ((q0 :: gq0) ++ [(id, QReady r)]).
        apply (push_inv _ s gw (q0 :: gq0) _ id _ (QReady r) _ I Ho Hlen Hfresh);
          cbn [push_back base queue response response_idx error spawned out panicked slot_of snd]; auto.
        -- discriminate.
        -- discriminate.
        -- cbn [st_ok no_err_p]. destruct r; auto; discriminate.
        -- rewrite Hr. discriminate.
        -- intros i x Hi. apply in_or_app. left. now apply Isp.
        -- rewrite Hr. discriminate.
        -- rewrite F7, Hr. exact Ipend.
    + (* no call inline: this one becomes the inline call *)
      exists gw, (gq ++ [(id, QWait (wadd (base s) (lenN (queue s))))]).
      apply (push_inv _ s gw gq _ id _ (QWait (wadd (base s) (lenN (queue s)))) _ I Ho Hlen Hfresh);
        cbn [push_back base queue response response_idx error spawned out panicked slot_of snd]; auto.
      * intros x E. injection E as <-. now rewrite Hlq.
      * intros _ r0. discriminate.
      * cbn [st_ok]. auto.
      * intros i E. injection E as <-. apply in_or_app. right. now left.
      * intros i x Hi. apply in_or_app. left. now apply Isp.
      * intros i E. injection E as <-. exact F9.
      * rewrite F7. cbn [option_map mem]. intros i Hi. apply orb_true_iff in Hi as [Hi|Hi].
        -- apply N.eqb_eq in Hi. subst i. now left.
        -- apply Ipend in Hi as [Hi|Hi]; [congruence|now right].
Qed.

(* ------------------------------------------------------------------ *)
(* a deferred handler completes *)

Lemma NoDup_app_r {A} (l1 l2 : list A) : NoDup (l1 ++ l2) -> NoDup l2.
Proof. induction l1 as [|x l1 IH]; cbn [app]; auto. intros H. inversion H; auto. Qed.

Lemma lookup_In id l :
  In id (map fst l) -> exists x, lookup_spawned id l = Some x /\ In (id, x) l.
Proof.
  induction l as [|[i x] l IH]; cbn [map fst In lookup_spawned]; [intros []|].
  destruct (N.eqb_spec i id) as [->|Hne].
  - intros _. exists x. auto.
  - intros [H|H]; [contradiction|]. destruct (IH H) as (y & H1 & H2). exists y. auto.
Qed.

Lemma remove_In id l p : In p (remove_spawned id l) -> In p l.
Proof.
  induction l as [|[i x] l IH]; cbn [remove_spawned In]; auto.
  destruct (i =? id); cbn [In]; intuition.
Qed.

Lemma remove_ne id l i x : NoDup (map fst l) -> In (i, x) (remove_spawned id l) -> i <> id.
Proof.
  induction l as [|[j y] l IH]; cbn [remove_spawned map fst In]; [intros _ []|].
  intros Hnd. inversion Hnd as [|? ? H1 H2]; subst.
  destruct (N.eqb_spec j id) as [->|Hne].
  - intros Hi ->. apply H1. apply in_map_iff. exists (id, x). auto.
  - intros [Hi|Hi]; [congruence|auto].
Qed.

Lemma remove_keep id l i : In i (map fst l) -> i <> id -> In i (map fst (remove_spawned id l)).
Proof.
  induction l as [|[j y] l IH]; cbn [remove_spawned map fst In]; auto.
  intros [->|Hi] Hne.
  - destruct (N.eqb_spec i id); [contradiction|now left].
  - destruct (j =? id); auto. right. auto.
Qed.

Lemma remove_sub id l i : In i (map fst (remove_spawned id l)) -> In i (map fst l).
Proof.
  intros H. apply in_map_iff in H as (p & <- & H). apply in_map. now apply remove_In in H.
Qed.

Lemma remove_NoDup id l : NoDup (map fst l) -> NoDup (map fst (remove_spawned id l)).
Proof.
  induction l as [|[j y] l IH]; cbn [remove_spawned map fst]; auto.
  intros Hnd. inversion Hnd as [|? ? H1 H2]; subst.
  destruct (j =? id); auto. cbn [map fst]. constructor; auto.
  intros H. apply H1. now apply remove_sub in H.
Qed.

(* what a well-formed completion of [id] changes in the history *)
Lemma done_facts ops s gw gq id r x l1 l2 :
  Inv ops s gw gq -> gq = l1 ++ (id, QWait x) :: l2 ->
  let o := Done id r in
  let h' := hist (ops ++ [o]) in
  arrivals h' = arrivals (hist ops) /\
  done_in id h' = Some (ans_of_p r) /\
  (forall i y, In (i, y) gw -> done_in i h' = Some (ans_of_p y)) /\
  (forall i st, In (i, st) (l1 ++ l2) -> done_in i h' = st_done st) /\
  (forall i, done_in i h' <> None -> In i (arrivals h')) /\
  pend_after [] h' = filter (fun j => negb (j =? id)) (pend_after [] (hist ops)) /\
  forallb no_err_p (ops ++ [o]) = forallb no_err_p ops && no_err_p o /\
  (forall i st, In (i, st) gq -> i <> id -> In (i, st) (l1 ++ l2)) /\
  (forall i st, In (i, st) (l1 ++ l2) -> In (i, st) gq).
Proof.
  intros [Ib Iq Ih Ipos Ipan Iinl Isp Ind Ini Iarr IndA Iw Iqs Id Ipend Ilen Iout Iok] Hg o h'.
  assert (Hh' : h' = hist ops ++ [EDone id (ans_of_p r)]).
  { unfold h', hist. rewrite map_app. reflexivity. }
  assert (Hin : In (id, QWait x) gq) by (rewrite Hg; apply in_elt).
  assert (Hd0 : done_in id (hist ops) = None) by (apply (Iqs _ _ Hin)).
  assert (Harr' : arrivals h' = arrivals (hist ops)).
  { rewrite Hh', arrivals_app. cbn [arrivals]. apply app_nil_r. }
  assert (Hoth : forall i, i <> id -> done_in i h' = done_in i (hist ops)).
  { intros i Hi. rewrite Hh'. apply done_in_snoc_other. cbn [ev_id]. congruence. }
  assert (Hothers : forall i st, In (i, st) (l1 ++ l2) -> i <> id).
  { intros i st Hi ->. rewrite Iarr, Hg in IndA. apply NoDup_app_r in IndA.
    rewrite map_app in IndA. cbn [map fst] in IndA. apply NoDup_remove_2 in IndA.
    apply IndA. rewrite <- map_app. apply in_map_iff. exists (id, st). auto. }
  assert (Hback : forall i st, In (i, st) (l1 ++ l2) -> In (i, st) gq).
  { intros i st Hi. rewrite Hg. now apply in_mid. }
  repeat split.
  - exact Harr'.
  - rewrite Hh'. now apply done_in_snoc_done.
  - intros i y Hi. rewrite Hoth; [now apply Iw|]. intros ->. apply Iw in Hi. congruence.
  - intros i st Hi. rewrite Hoth; [|now apply Hothers in Hi]. now apply Iqs, Hback.
  - intros i Hi. rewrite Harr'. destruct (N.eq_dec i id) as [->|Hne].
    + rewrite Iarr. apply in_or_app. right. apply in_map_iff. exists (id, QWait x). auto.
    + apply Id. now rewrite <- Hoth.
  - rewrite Hh', pend_after_snoc. reflexivity.
  - rewrite forallb_app. cbn [forallb]. now rewrite andb_true_r.
  - intros i st Hi Hne. rewrite Hg in Hi. apply in_elt_inv in Hi as [Hi|Hi]; auto.
    injection Hi as Hi _. congruence.
  - exact Hback.
Qed.

Lemma step_done ops s gw gq id r :
  Inv ops s gw gq -> N.of_nat (length (ops ++ [Done id r])) < W64 ->
  mem id (pend_after [] (hist ops)) = true ->
  exists gw' gq', Inv (ops ++ [Done id r]) (complete s id r) gw' gq'.
Proof.
  intros I Hlen Hp.
  pose proof I as [Ib Iq Ih Ipos Ipan Iinl Isp Ind Ini Iarr IndA Iw Iqs Id Ipend Ilen Iout Iok].
  rewrite app_length in Hlen. cbn [length] in Hlen.
  assert (Hlen' : N.of_nat (length gq) < W64) by lia.
  assert (Hsp : response s <> Some id -> In id (map fst (spawned s)) ->
    exists gw' gq', Inv (ops ++ [Done id r])
      match lookup_spawned id (spawned s) with
      | Some ridx =>
        handle_result (mkRq (base s) (queue s) (response s) (response_idx s) (error s)
                            (remove_spawned id (spawned s)) (out s) (panicked s)) r ridx
      | None => s
      end gw' gq').
  { intros Hr Hin. destruct (lookup_In _ _ Hin) as (x & -> & Hx).
    destruct (in_split _ _ (Isp _ _ Hx)) as (l1 & l2 & Hg).
    destruct (done_facts _ _ _ _ _ r _ _ _ I Hg) as (F1 & F2 & F3 & F4 & F5 & F6 & F7 & F8 & F9).
    subst gq.
    apply (mid _ _ gw l1 id x l2 r); cbn [base queue response response_idx error spawned out panicked]; auto.
    - intros i Hi. apply F8; [now apply Iinl|congruence].
    - intros i y Hi. pose proof (remove_ne _ _ _ _ Ind Hi). apply remove_In in Hi. apply F8; auto.
    - now apply remove_NoDup.
    - intros i Hi Hi'. apply remove_sub in Hi'. now apply (Ini i).
    - now rewrite F1.
    - now rewrite F1.
    - rewrite F6. intros i Hi. apply mem_filter_ne in Hi as [Hi Hne].
      apply Ipend in Hi as [Hi|Hi]; auto. right. now apply remove_keep.
    - rewrite (app_length ops). cbn [length]. lia.
    - rewrite F7. intros Hne. apply andb_true_iff in Hne as [Hne1 Hne2].
      destruct (Iok Hne1) as [He Hf]. repeat split; auto.
      + intros ->. discriminate.
      + rewrite Forall_forall in *. intros [i st] Hi. apply Hf. now apply F9. }
  unfold complete.
  destruct (response s) as [i0|] eqn:Hr.
  - destruct (N.eqb_spec i0 id) as [->|Hne].
    + (* the inline call *)
      destruct (in_split _ _ (Iinl _ eq_refl)) as (l1 & l2 & Hg).
      destruct (done_facts _ _ _ _ _ r _ _ _ I Hg) as (F1 & F2 & F3 & F4 & F5 & F6 & F7 & F8 & F9).
      subst gq.
      apply (mid _ _ gw l1 id (response_idx s) l2 r);
        cbn [base queue response response_idx error spawned out panicked]; auto.
      * discriminate.
      * intros i y Hi. apply F8; [now apply Isp|]. intros ->. apply (Ini id eq_refl).
        apply in_map_iff. exists (id, y). auto.
      * discriminate.
      * now rewrite F1.
      * now rewrite F1.
      * rewrite F6. intros i Hi. apply mem_filter_ne in Hi as [Hi Hne].
        apply Ipend in Hi as [Hi|Hi]; auto. congruence.
      * rewrite (app_length ops). cbn [length]. lia.
      * rewrite F7. intros Hne. apply andb_true_iff in Hne as [Hne1 Hne2].
        destruct (Iok Hne1) as [He Hf]. repeat split; auto.
        -- intros ->. discriminate.
        -- rewrite Forall_forall in *. intros [i st] Hi. apply Hf. now apply F9.
    + apply Hsp; [congruence|]. apply Ipend in Hp as [Hp|Hp]; [congruence|auto].
  - apply Hsp; [congruence|]. apply Ipend in Hp as [Hp|Hp]; [congruence|auto].
Qed.

(* ------------------------------------------------------------------ *)
(* every run *)

Lemma inv_init b : b < W64 -> Inv [] (rq_at_p b) [] [].
Proof.
  intros Hb. constructor; cbn [rq_at_p base queue response response_idx error spawned out panicked
    hist map arrivals done_in pend_after mem flat_map length]; auto; try discriminate; try constructor.
  - intros [|j] i x E; discriminate.
  - intros i x [].
  - intros i st [].
  - intros i E. congruence.
Qed.

Lemma inv_run b ops :
  b < W64 -> N.of_nat (length ops) < W64 -> wf_history (hist ops) = true ->
  exists gw gq, Inv ops (run_from (rq_at_p b) ops) gw gq.
Proof.
  intros Hb. induction ops as [|o ops IH] using rev_ind; intros Hlen Hwf.
  - exists [], []. now apply inv_init.
  - unfold hist, wf_history in Hwf. rewrite map_app, wf_go_app in Hwf.
    apply andb_true_iff in Hwf as [Hwf1 Hwf2].
    destruct IH as (gw & gq & I);
      [rewrite app_length in Hlen; cbn [length] in Hlen; lia | exact Hwf1 |].
    unfold run_from. rewrite fold_left_app. cbn [fold_left]. fold (run_from (rq_at_p b) ops).
    fold (hist ops) in Hwf2.
    destruct o as [id now|id r]; cbn [step map ev_of_p wf_go] in *.
    + apply andb_true_iff in Hwf2 as [Hwf2 _]. apply negb_true_iff in Hwf2.
      apply step_arrive with gw gq; auto.
      intros Hin. apply arr_after_In with (A := []) in Hin. apply mem_true_iff in Hin. congruence.
    + apply andb_true_iff in Hwf2 as [Hwf2 _].
      apply step_done with gw gq; auto.
Qed.

Lemma wp_app gw rest h :
  (forall i x, In (i, x) gw -> done_in i h = Some (ans_of_p x)) ->
  written_prefix (map fst gw ++ rest) h = flat_map outp gw ++ written_prefix rest h.
Proof.
  induction gw as [|[i x] gw IH]; intros H; cbn [map fst app written_prefix flat_map]; auto.
  rewrite (H i x) by now left. rewrite IH by (intros; apply H; now right).
  destruct x; reflexivity.
Qed.

Lemma fm_resp gw h :
  (forall i x, In (i, x) gw -> done_in i h = Some (ans_of_p x)) ->
  flat_map (resp_of h) (map fst gw) = flat_map outp gw.
Proof.
  induction gw as [|[i x] gw IH]; intros H; cbn [map fst flat_map]; auto.
  rewrite IH by (intros; apply H; now right). unfold resp_of at 1.
  rewrite (H i x) by now left. destruct x; reflexivity.
Qed.

(* ------------------------------------------------------------------ *)
(* the three results used by Props/C04.v *)

Theorem resp_order : forall (b : N) (ops : list op),
  b < W64 -> N.of_nat (length ops) < W64 -> forallb no_err_p ops = true ->
  wf_history (map ev_of_p ops) = true ->
  let s := run_from (rq_at_p b) ops in
  out s = spec_written (map ev_of_p ops) /\ panicked s = false /\ error s = false.
Proof.
  intros b ops Hb Hlen Hne Hwf s.
  destruct (inv_run b ops Hb Hlen Hwf) as (gw & gq & I). fold s in I.
  destruct I as [Ib Iq Ih Ipos Ipan Iinl Isp Ind Ini Iarr IndA Iw Iqs Id Ipend Ilen Iout Iok].
  destruct (Iok Hne) as [He Hf]. repeat split; auto.
  unfold spec_written. fold (hist ops). rewrite Iarr, wp_app by exact Iw. rewrite Iout.
  enough (written_prefix (map fst gq) (hist ops) = []) as -> by now rewrite app_nil_r.
  destruct gq as [|[i st] t]; auto. cbn [map fst written_prefix].
  rewrite (Iqs i st) by now left.
  destruct st as [x|r|]; cbn [st_done]; auto.
  - contradiction Ih.
  - inversion Hf as [|? ? Hs _]. contradiction Hs.
Qed.

Theorem resp_complete : forall (b : N) (ops : list op),
  b < W64 -> N.of_nat (length ops) < W64 -> forallb no_err_p ops = true ->
  wf_history (map ev_of_p ops) = true ->
  all_done (arrivals (map ev_of_p ops)) (map ev_of_p ops) = true ->
  out (run_from (rq_at_p b) ops) =
    flat_map (fun i => match done_in i (map ev_of_p ops) with Some (ASome x) => [x] | _ => [] end)
             (arrivals (map ev_of_p ops)).
Proof.
  intros b ops Hb Hlen Hne Hwf Had.
  destruct (resp_order b ops Hb Hlen Hne Hwf) as [H _]. rewrite H.
  exact (written_all_done _ _ Had).
Qed.

Theorem prefix_after_error : forall (b : N) (ops : list op),
  b < W64 -> N.of_nat (length ops) < W64 -> wf_history (map ev_of_p ops) = true ->
  exists rest, out (run_from (rq_at_p b) ops) ++ rest =
    flat_map (fun i => match done_in i (map ev_of_p ops) with Some (ASome x) => [x] | _ => [] end)
             (arrivals (map ev_of_p ops)).
Proof.
  intros b ops Hb Hlen Hwf.
  destruct (inv_run b ops Hb Hlen Hwf) as (gw & gq & I).
  destruct I as [Ib Iq Ih Ipos Ipan Iinl Isp Ind Ini Iarr IndA Iw Iqs Id Ipend Ilen Iout Iok].
  exists (flat_map (resp_of (hist ops)) (map fst gq)).
  change (out (run_from (rq_at_p b) ops) ++ flat_map (resp_of (hist ops)) (map fst gq) =
          flat_map (resp_of (hist ops)) (arrivals (hist ops))).
  rewrite Iarr, flat_map_app, Iout, fm_resp; auto.
Qed.

Print Assumptions resp_order.
Print Assumptions resp_complete.
Print Assumptions prefix_after_error.
