(* Proofs/SinkWire.v -- what the sink layer (Model/Sink.v) hands to the encoder: the guard of property C08 (no packet
   while a streamed payload is owed, chunks within the declared size, a failed send writes nothing) holds for every
   operation; and the receipt invariant of property C14. *)
From Coq Require Import Lia List NArith Bool Arith.
From MV Require Import Base.Prelude Model.Sink Proofs.SinkInv Proofs.SinkProofs.
Import ListNotations.
Open Scope N_scope.

(* ================================================================ C08 at the sink level *)
Definition is_publ (tag : N) : bool := (tag =? W_PUB1) || (tag =? W_PUB2) || (tag =? W_PUB0).
Definition is_ctl (tag : N) : bool :=
  (tag =? W_PUBREL) || (tag =? W_SUBSCRIBE) || (tag =? W_UNSUBSCRIBE) || (tag =? W_DISCONNECT).

(* the wire log and the two streaming counters (sink: srem, codec: crem) are untouched *)
Definition quiet (s s' : sink) : Prop := wire s' = wire s /\ srem s' = srem s /\ crem s' = crem s.

(* what one operation does to the encoder: nothing; one control packet (the codec owes no payload); one PUBLISH
   (the sink owes no payload) that may open a streamed payload of [rem] bytes; one payload chunk of [n] bytes
   (within what both the sink and the codec still owe).  A closed / closing io swallows the write. *)
Definition wsum (s s' : sink) : Prop :=
  quiet s s' \/
  (exists tag v, is_ctl tag = true /\ io s = 0 /\ crem s = 0 /\ wire s' = wire s ++ [tag; v] /\
                 srem s' = srem s /\ crem s' = crem s) \/
  (exists tag v rem, is_publ tag = true /\ srem s = 0 /\ srem s' = rem /\
     ((io s = 0 /\ wire s' = wire s ++ [tag; v] /\ crem s' = rem) \/ (io s <> 0 /\ wire s' = wire s /\ crem s' = crem s))) \/
  (exists n, srem s <> 0 /\ n <= srem s /\ srem s' = srem s - n /\
     ((io s = 0 /\ crem s <> 0 /\ n <= crem s /\ crem s' = crem s - n /\
       wire s' = wire s ++ (if n =? 0 then [] else [W_CHUNK; n])) \/
      (io s <> 0 /\ wire s' = wire s /\ crem s' = crem s))) \/
  (* the PUBACK answering an inbound PUBLISH (operation 17): only when the sink owes no payload *)
  (exists v, io s = 0 /\ srem s = 0 /\ wire s' = wire s ++ [W_IN_PUBACK; v] /\ srem s' = srem s /\ crem s' = crem s).

Lemma quiet_refl s : quiet s s. Proof. repeat split. Qed.
Lemma quiet_trans a b c : quiet a b -> quiet b c -> quiet a c.
Proof. unfold quiet. intros (A1 & A2 & A3) (B1 & B2 & B3). repeat split; congruence. Qed.
Lemma wsum_quiet s s' : quiet s s' -> wsum s s'. Proof. now left. Qed.

Lemma wsum_post s s1 s' : wsum s s1 -> quiet s1 s' -> wsum s s'.
Proof.
  intros W (Q1 & Q2 & Q3). unfold wsum, quiet in *. rewrite Q1, Q2, Q3. exact W.
Qed.
Lemma wsum_pre s s0 s' : quiet s s0 -> io s0 = io s -> wsum s0 s' -> wsum s s'.
Proof.
  intros (Q1 & Q2 & Q3) QI W. unfold wsum, quiet in *. rewrite Q1, Q2, Q3, QI in W. exact W.
Qed.

Ltac qt := unfold quiet; sk; repeat split; reflexivity.

Lemma quiet_drop_sig s x : quiet s (drop_sig s x).
Proof. destruct (drop_sig_nc s x). repeat split; assumption. Qed.
Lemma quiet_send_opt s tx v : quiet s (send_opt s tx v).
Proof. destruct (send_opt_nc s tx v). repeat split; assumption. Qed.
Lemma io_drop_sig s x : io (drop_sig s x) = io s. Proof. apply (drop_sig_nc s x). Qed.

(* ---------------------------------------------------------------- sending *)
Lemma next_id_quiet s s1 id : next_id s = Some (s1, id) -> quiet s s1 /\ io s1 = io s.
Proof. intros H. apply next_id_spec in H as (_ & i & ->). split; [qt|reflexivity]. Qed.

Lemma wpr_wsum s id ack rem tag big : is_publ tag = true ->
  wsum s (fst (wait_publish_response s id ack rem tag big)).
Proof.
  intros T. unfold wait_publish_response, enc_publish_chk, enc_publish, new_chan, add_wire.
  destruct (stopped s); [apply wsum_quiet, quiet_refl|].
  destruct (N.eqb_spec (srem s) 0) as [S|S]; cbn [negb]; [|apply wsum_quiet, quiet_refl].
  destruct (memN id (ids s)); [apply wsum_quiet, quiet_refl|].
  destruct (N.eqb_spec (io s) 0) as [I|I].
  - destruct big; cbn [andb fst]; [apply wsum_quiet, quiet_refl|]. sk.
    right. right. left. exists tag, id, rem. repeat split; auto.
  - rewrite andb_false_r. cbn [fst]. sk. right. right. left. exists tag, id, rem. repeat split; auto.
Qed.

Lemma wr_wsum s id ack tag : is_ctl tag = true -> wsum s (fst (wait_response s id ack tag)).
Proof.
  intros T. unfold wait_response, enc_packet, new_chan, add_wire.
  destruct (stopped s); [apply wsum_quiet, quiet_refl|].
  destruct (negb (srem s =? 0)); [apply wsum_quiet, quiet_refl|].
  destruct (memN id (ids s)); [apply wsum_quiet, quiet_refl|].
  destruct (N.eqb_spec (io s) 0) as [I|I].
  - destruct (N.eqb_spec (crem s) 0) as [C|C]; cbn [negb fst]; [|apply wsum_quiet, quiet_refl]. sk.
    right. left. exists tag, id. repeat split; auto.
  - cbn [fst]. sk. apply wsum_quiet. qt.
Qed.

Lemma pubtag_publ k : is_publ (pubtag_of k) = true.
Proof. unfold pubtag_of. destruct (k =? 2); reflexivity. Qed.

Lemma inner_publish_wsum s x : wsum s (fst (inner_publish s x)).
Proof.
  unfold inner_publish.
  destruct (if tid x =? 0 then next_id s else Some (s, tid x)) as [[s1 id]|] eqn:E; [|cbn [fst]; apply wsum_quiet, quiet_drop_sig].
  assert (Q : quiet s s1 /\ io s1 = io s).
  { destruct (tid x =? 0); [now apply next_id_quiet in E|]. injection E as <- <-. split; [apply quiet_refl|reflexivity]. }
  destruct Q as [Q QI]. apply (wsum_pre s s1); auto.
  destruct (_ && _); [cbn [fst]; apply wsum_quiet, quiet_refl|].
  pose proof (wpr_wsum s1 id (acktype_of (tk x)) (if tk x =? 7 then tsize x else 0) (pubtag_of (tk x)) (tk x =? 8) (pubtag_publ _)) as W.
  destruct (wait_publish_response _ _ _ _ _ _) as [s2 r]. cbn [fst] in W.
  assert (W3 : wsum s1 (if tk x =? 7 then send_opt s2 (sig_of x) 0 else s2)).
  { destruct (tk x =? 7); auto. eapply wsum_post; [exact W|apply quiet_send_opt]. }
  destruct r; exact W3.
Qed.

Lemma inner_subscribe_wsum s x : wsum s (fst (inner_subscribe s x)).
Proof.
  unfold inner_subscribe.
  destruct (if tid x =? 0 then next_id s else Some (s, tid x)) as [[s1 id]|] eqn:E; [|cbn [fst]; apply wsum_quiet, quiet_refl].
  assert (Q : quiet s s1 /\ io s1 = io s).
  { destruct (tid x =? 0); [now apply next_id_quiet in E|]. injection E as <- <-. split; [apply quiet_refl|reflexivity]. }
  destruct Q as [Q QI]. apply (wsum_pre s s1); auto.
  assert (T : is_ctl (if tk x =? 3 then W_SUBSCRIBE else W_UNSUBSCRIBE) = true) by (destruct (tk x =? 3); reflexivity).
  pose proof (wr_wsum s1 id (if tk x =? 3 then 4 else 5) _ T) as W.
  destruct (wait_response _ _ _ _) as [s2 r]. cbn [fst] in W. destruct r; exact W.
Qed.

Lemma proceed_wsum s x : wsum s (fst (proceed s x)).
Proof. unfold proceed. destruct (_ || _); [apply inner_subscribe_wsum|apply inner_publish_wsum]. Qed.

Lemma wtp_wsum s x : wsum s (fst (window_then_proceed s x)).
Proof.
  unfold window_then_proceed, wait_readiness, new_chan.
  destruct (stopped s); [cbn [fst]; apply wsum_quiet, quiet_refl|].
  destruct (_ || _); [cbn [fst]; apply wsum_quiet; qt|apply proceed_wsum].
Qed.

(* the common tail of start / create / first poll / resumed poll *)
Definition send_tail (s0 : sink) (x : task) : sink * tstate :=
  if is_closed s0 then (drop_sig s0 x, TDone ST_DISCONNECTED)
  else let '(s1, st) := window_then_proceed s0 x in
       (match st with TDone _ => drop_sig s1 x | _ => s1 end, st).

Lemma send_tail_wsum s x : wsum s (fst (send_tail s x)).
Proof.
  unfold send_tail. destruct (is_closed s); [cbn [fst]; apply wsum_quiet, quiet_drop_sig|].
  pose proof (wtp_wsum s x) as W. destruct (window_then_proceed s x) as [s1 st]. cbn [fst] in *.
  destruct st; auto. eapply wsum_post; [exact W|apply quiet_drop_sig].
Qed.

Lemma send_tail_start s0 x :
  (if is_closed s0 then (drop_sig s0 x, TDone ST_DISCONNECTED)
   else let '(s1, st) := window_then_proceed s0 x in
        (match st with TParked _ => s1 | TDone _ => drop_sig s1 x | _ => s1 end, st)) = send_tail s0 x.
Proof.
  reflexivity.
Qed.

(* ---------------------------------------------------------------- the operations *)
Lemma quiet_clear s : quiet s (clear_queues s).
Proof. rewrite clear_queues_eq. qt. Qed.

Lemma enc_packet_wsum s tag id : is_ctl tag = true -> wsum s (fst (enc_packet s tag id)).
Proof.
  intros T. unfold enc_packet, add_wire. destruct (N.eqb_spec (io s) 0) as [I|I]; [|apply wsum_quiet, quiet_refl].
  destruct (N.eqb_spec (crem s) 0) as [C|C]; cbn [negb fst]; [|apply wsum_quiet, quiet_refl].
  right. left. exists tag, id. sk. repeat split; auto.
Qed.

Definition wctl (s s' : sink) : Prop :=
  exists tag v, is_ctl tag = true /\ io s = 0 /\ crem s = 0 /\ wire s' = wire s ++ [tag; v] /\
                srem s' = srem s /\ crem s' = crem s.

Lemma enc_packet_w2 s tag id : is_ctl tag = true -> quiet s (fst (enc_packet s tag id)) \/ wctl s (fst (enc_packet s tag id)).
Proof.
  intros T. unfold enc_packet, add_wire. destruct (N.eqb_spec (io s) 0) as [I|I]; [|left; apply quiet_refl].
  destruct (N.eqb_spec (crem s) 0) as [C|C]; cbn [negb fst]; [|left; apply quiet_refl].
  right. exists tag, id. sk. repeat split; auto.
Qed.

Lemma w2_post s s1 s' : quiet s s1 \/ wctl s s1 -> quiet s1 s' -> quiet s s' \/ wctl s s'.
Proof.
  intros [Q|W] (Q1 & Q2 & Q3); [left; eapply quiet_trans; eauto; repeat split; auto|right].
  unfold wctl in *. rewrite Q1, Q2, Q3. exact W.
Qed.

Lemma close_w2 s r : quiet s (do_close s r) \/ wctl s (do_close s r).
Proof.
  unfold do_close, disconnect_sent, io_close, is_closed.
  assert (E : forall r0, quiet s (fst (enc_packet (set_disc s true) W_DISCONNECT r0)) \/
                         wctl s (fst (enc_packet (set_disc s true) W_DISCONNECT r0))).
  { intros r0. destruct (enc_packet_w2 (set_disc s true) W_DISCONNECT r0 eq_refl) as [Q|Q]; [left|right]; exact Q. }
  assert (IC : forall s1, quiet s1 (if io s1 =? 0 then set_io s1 1 else s1)) by (intros s1; destruct (io s1 =? 0); qt).
  destruct (ver s =? 3).
  - eapply w2_post; [|apply quiet_clear]. eapply w2_post; [|apply IC].
    destruct (client s); [|left; apply quiet_refl]. destruct (disc s); [left; qt|].
    sk. destruct (negb (srem s =? 0)); [left; qt|apply E].
  - eapply w2_post; [|apply quiet_clear]. destruct (io s =? 2); [left; apply quiet_refl|].
    eapply w2_post; [|apply IC]. destruct (disc s); [left; qt|apply E].
Qed.

Lemma close_wsum s r : wsum s (do_close s r).
Proof. destruct (close_w2 s r) as [Q|Q]; [now left|right; left; exact Q]. Qed.

Lemma quiet_force_close s : quiet s (do_force_close s).
Proof. unfold do_force_close, io_terminate. rewrite clear_queues_eq. qt. Qed.

Lemma start_wsum s t k idq size : wsum s (start_task s t k idq size).
Proof.
  unfold start_task. destruct (find_task t (tasks s)); [apply wsum_quiet, quiet_refl|].
  destruct (_ || _); [apply wsum_quiet, quiet_refl|].
  destruct (k =? 6).
  { destruct (is_closed s); [apply wsum_quiet; qt|]. unfold encode_publish0, enc_publish, add_wire.
    destruct (N.eqb_spec (srem s) 0) as [S|S]; cbn [negb]; [|apply wsum_quiet; qt].
    right. right. left. exists W_PUB0, 0, 0. split; [reflexivity|]. split; auto.
    destruct (N.eqb_spec (io s) 0) as [I|I]; sk; repeat split; auto. }
  destruct (k =? 5).
  { destruct (is_closed s); [apply wsum_quiet; qt|]. unfold wait_readiness, new_chan. destruct (_ || _); apply wsum_quiet; qt. }
  set (p := if k =? 7 then _ else _).
  assert (P : quiet s (fst p) /\ io (fst p) = io s) by (unfold p, new_chan; destruct (k =? 7); split; try reflexivity; qt).
  destruct p as [s0 x]. cbn [fst] in P. destruct P as [P PI]. rewrite send_tail_start.
  pose proof (send_tail_wsum s0 x) as W. destruct (send_tail s0 x) as [s1 st]. cbn [fst] in W.
  apply (wsum_pre s s0); auto.
Qed.

Lemma create_wsum s t k idq size : wsum s (create_task s t k idq size).
Proof.
  unfold create_task. destruct (find_task t (tasks s)) eqn:F; [apply wsum_quiet, quiet_refl|].
  destruct (_ || _); [apply wsum_quiet, quiet_refl|].
  destruct (k =? 6); [apply start_wsum|].
  destruct (k =? 5).
  { destruct (is_closed s); [apply wsum_quiet; qt|]. unfold wait_readiness, new_chan. destruct (_ || _); apply wsum_quiet; qt. }
  destruct (_ || _); [apply wsum_quiet; qt|].
  set (p := if k =? 7 then _ else _).
  assert (P : quiet s (fst p) /\ io (fst p) = io s) by (unfold p, new_chan; destruct (k =? 7); split; try reflexivity; qt).
  destruct p as [s0 x]. cbn [fst] in P. destruct P as [P PI]. rewrite send_tail_start.
  pose proof (send_tail_wsum s0 x) as W. destruct (send_tail s0 x) as [s1 st]. cbn [fst] in W.
  apply (wsum_pre s s0); auto.
Qed.

Lemma poll_wsum s t : wsum s (poll_task s t).
Proof.
  unfold poll_task. destruct (find_task t (tasks s)) as [x|]; [|apply wsum_quiet, quiet_refl].
  assert (G : forall r : sink * tstate, wsum s (fst r) ->
     wsum s (let '(s1, st) := r in set_tasks s1 (put_task t (with_tst x st) (tasks s1)))).
  { intros [s1 st] W. cbn [fst] in W. eapply wsum_post; [exact W|qt]. }
  apply G. pose proof (send_tail_wsum s x) as ST. unfold send_tail in ST.
  destruct (tst x) as [c|c id|id|c|c|e| | |e]; try (cbn [fst]; apply wsum_quiet, quiet_refl).
  - destruct (poll s c); [apply wsum_quiet, quiet_refl|exact ST|cbn [fst]; apply wsum_quiet, quiet_drop_sig].
  - destruct (poll s c); cbn [fst]; apply wsum_quiet, quiet_refl.
  - destruct (poll s c); cbn [fst]; apply wsum_quiet, quiet_refl.
  - destruct (poll s c); cbn [fst]; apply wsum_quiet, quiet_refl.
  - exact ST.
Qed.

Lemma quiet_drop s t : quiet s (drop_task s t).
Proof.
  unfold drop_task. destruct (find_task t (tasks s)) as [x|]; [|apply quiet_refl].
  destruct (tst x); try apply quiet_refl; cbv zeta; try qt.
  eapply quiet_trans; [|eapply quiet_trans; [apply (quiet_drop_sig (drop_rx s c) x)|qt]]. qt.
Qed.

Lemma release_wsum s t : wsum s (release_task s t).
Proof.
  unfold release_task. destruct (find_task t (tasks s)) as [x|]; [|apply wsum_quiet, quiet_refl].
  destruct (tst x); try apply wsum_quiet, quiet_refl. unfold release_publish.
  destruct (rxm_find _ _) as [c|]; [|apply wsum_quiet; qt].
  pose proof (enc_packet_wsum (set_rxm s (rxm_del id (rxm s))) W_PUBREL id eq_refl) as W.
  destruct (enc_packet _ _ _) as [s2 ok]. cbn [fst] in W.
  apply (wsum_pre s (set_rxm s (rxm_del id (rxm s)))); [qt|reflexivity|].
  destruct ok; [destruct (poll s2 c)|]; (eapply wsum_post; [exact W|qt]).
Qed.

Lemma drop_receipt_wsum s t : wsum s (drop_receipt s t).
Proof.
  unfold drop_receipt. destruct (find_task t (tasks s)) as [x|]; [|apply wsum_quiet, quiet_refl].
  destruct (tst x); try apply wsum_quiet, quiet_refl. unfold release_publish.
  destruct (rxm_find _ _) as [c|]; [|apply wsum_quiet; qt].
  pose proof (enc_packet_wsum (set_rxm s (rxm_del id (rxm s))) W_PUBREL id eq_refl) as W.
  destruct (enc_packet _ _ _) as [s2 ok]. cbn [fst] in W.
  apply (wsum_pre s (set_rxm s (rxm_del id (rxm s)))); [qt|reflexivity|].
  eapply wsum_post; [exact W|qt].
Qed.

Lemma quiet_wrb s on : quiet s (do_wrb s on).
Proof.
  unfold do_wrb. destruct on; [qt|].
  set (s2 := match swait (set_wrb s false) with Some c => set_swait (fst (send (set_wrb s false) c 0)) None | None => set_wrb s false end).
  assert (Q : quiet s s2) by (unfold s2; destruct (swait _); [rewrite send_eq|]; qt).
  destruct (_ <? _); auto. eapply quiet_trans; [exact Q|]. rewrite wake_eq. qt.
Qed.

Lemma epp_wsum s n : wsum s (fst (fst (encode_publish_payload s n))).
Proof.
  unfold encode_publish_payload. destruct (N.eqb_spec (srem s) 0) as [S|S]; [apply wsum_quiet, quiet_refl|].
  destruct (N.ltb_spec (srem s) n) as [L|L]; [cbn [fst]; apply wsum_quiet, quiet_force_close|].
  unfold enc_chunk, add_wire. destruct (N.eqb_spec (io s) 0) as [I|I].
  - destruct (N.eqb_spec (crem s) 0) as [C|C]; [apply wsum_quiet, quiet_refl|].
    destruct (N.ltb_spec (crem s) n) as [L2|L2]; [apply wsum_quiet, quiet_refl|]. cbn [fst].
    right. right. right. left. exists n. split; auto. split; auto. destruct (n =? 0); sk; split; auto; left; repeat split; auto.
    now rewrite app_nil_r.
  - cbn [fst]. right. right. right. left. exists n. sk. repeat split; auto.
Qed.

Lemma chunk_payload_wsum s sm srx n : wsum s (fst (chunk_payload s sm srx n)).
Proof. unfold chunk_payload. pose proof (epp_wsum s n) as E. destruct (encode_publish_payload s n) as [[s1 st] more]. exact E. Qed.
Lemma chunk_inprocess_wsum s sm srx inp n : wsum s (fst (chunk_inprocess s sm srx inp n)).
Proof.
  unfold chunk_inprocess. destruct inp; [|apply wsum_quiet, quiet_refl]. destruct (is_closed s); [apply wsum_quiet, quiet_refl|].
  destruct (wrb s); [|apply chunk_payload_wsum]. unfold new_chan. sk. cbn [fst]. rewrite drop_tx_opt_eq. apply wsum_quiet. qt.
Qed.
Lemma chunk_signal_wsum s sm n : wsum s (fst (chunk_signal s sm n)).
Proof. unfold chunk_signal. destruct (poll _ _); try apply wsum_quiet, quiet_refl. apply chunk_inprocess_wsum. Qed.
Lemma chunk_wsum s t n : wsum s (chunk_task s t n).
Proof.
  unfold chunk_task. destruct (find_task t (tasks s)) as [x|]; [|apply wsum_quiet, quiet_refl].
  destruct (tstream x) as [sm|]; [|apply wsum_quiet, quiet_refl]. destruct (negb _); [apply wsum_quiet, quiet_refl|].
  assert (G : forall r : sink * stream, wsum s (fst r) ->
     wsum s (let '(s1, sm1) := r in set_tasks s1 (put_task t (with_stream x sm1) (tasks s1)))).
  { intros [s1 sm1] W. cbn [fst] in W. eapply wsum_post; [exact W|qt]. }
  apply G. destruct (pend sm) as [|m|c m].
  - destruct (s_rx sm); [apply chunk_signal_wsum|apply chunk_inprocess_wsum].
  - apply chunk_signal_wsum.
  - destruct (poll s c); try apply wsum_quiet, quiet_refl. apply chunk_payload_wsum.
Qed.

Lemma quiet_drop_pending s sm : quiet s (fst (drop_pending s sm)).
Proof. unfold drop_pending. destruct (pend sm); cbn [fst]; qt. Qed.
Lemma quiet_drop_chunk s t : quiet s (drop_chunk s t).
Proof.
  unfold drop_chunk. destruct (find_task t (tasks s)) as [x|]; [|apply quiet_refl].
  destruct (tstream x) as [sm|]; [|apply quiet_refl]. destruct (negb _); [apply quiet_refl|].
  pose proof (quiet_drop_pending s sm) as E.
  destruct (pend sm); [apply quiet_refl| |]; destruct (drop_pending s sm) as [s1 sm1]; cbn [fst] in E;
    (eapply quiet_trans; [exact E|qt]).
Qed.
Lemma quiet_drop_stream s t : quiet s (drop_stream s t).
Proof.
  unfold drop_stream. destruct (find_task t (tasks s)) as [x|]; [|apply quiet_refl].
  destruct (tstream x) as [sm|]; [|apply quiet_refl]. destruct (negb _); [apply quiet_refl|].
  pose proof (quiet_drop_pending s sm) as E. destruct (drop_pending s sm) as [s1 sm1]. cbn [fst] in E.
  set (s2 := if s_rx sm1 then drop_rx s1 (sg sm1) else s1).
  assert (E2 : quiet s s2) by (unfold s2; destruct (s_rx sm1); [eapply quiet_trans; [exact E|qt]|exact E]).
  destruct (_ && _).
  - eapply quiet_trans; [exact E2|]. eapply quiet_trans; [apply quiet_force_close|qt].
  - eapply quiet_trans; [exact E2|qt].
Qed.

Lemma quiet_pkt_ack_inner s k id : quiet s (fst (pkt_ack_inner s k id)) /\ io (fst (pkt_ack_inner s k id)) = io s.
Proof.
  split; [|apply pkt_ack_inner_io]. unfold pkt_ack_inner. destruct (inflight s) as [|[[i tx] tp] rest]; [apply quiet_refl|].
  assert (D : forall s0, quiet s0 (drop_tx_opt s0 tx)) by (intros s0; rewrite drop_tx_opt_eq; qt).
  destruct (negb (i =? id)); [cbn [fst]; eapply quiet_trans; [|apply D]; qt|].
  destruct (negb (k =? tp)); [cbn [fst]; eapply quiet_trans; [|apply D]; qt|].
  destruct (k =? 2).
  { unfold new_chan, rxm_insert. cbn [fst snd]. sk. cbn [fst snd].
    pose proof (quiet_send_opt (set_inflight s rest) tx k) as (Q1 & Q2 & Q3).
    destruct (rxm_find _ _); unfold drop_rx, quiet; sk; rewrite Q1, Q2, Q3; repeat split. }
  destruct (k =? 3).
  { cbn [fst]. rewrite wake_eq. unfold quiet. sk.
    destruct (quiet_send_opt (match rxm_find id (rxm s) with Some c => set_rxm (drop_rx (set_ids (set_inflight s rest) (removeN id (ids s))) c) (rxm_del id (rxm s)) | None => set_ids (set_inflight s rest) (removeN id (ids s)) end) tx k) as (Q1 & Q2 & Q3).
    sk in Q1. sk in Q2. sk in Q3. rewrite Q1, Q2, Q3. destruct (rxm_find _ _); unfold drop_rx; repeat split. }
  cbn [fst]. rewrite wake_eq. unfold quiet. sk.
  destruct (quiet_send_opt (set_ids (set_inflight s rest) (removeN id (ids s))) tx k) as (Q1 & Q2 & Q3).
  rewrite Q1, Q2, Q3. repeat split.
Qed.

Lemma close_io s r : io (do_close s r) <> 0.
Proof. destruct (close_facts s r) as (_ & _ & _ & _ & Z). exact Z. Qed.

Lemma ack_one_w2 s k id :
  quiet s (ack_one s k id) \/ (wctl s (ack_one s k id) /\ io (ack_one s k id) <> 0).
Proof.
  unfold ack_one. destruct (negb _); [left; apply quiet_refl|]. destruct (_ || _); [left; apply quiet_refl|].
  destruct (id =? 0); [destruct (close_w2 s RC_IMPL); [now left|right; split; auto using close_io]|].
  destruct (_ && _); [left; apply quiet_refl|].
  unfold pkt_ack. destruct (quiet_pkt_ack_inner s k id) as [Q QI].
  destruct (pkt_ack_inner s k id) as [s1 ok]. cbn [fst] in *.
  destruct ok; [now left|]. destruct (close_w2 s1 RC_IMPL) as [C|C].
  - left. eapply quiet_trans; eauto.
  - right. split; [|apply close_io]. destruct Q as (Q1 & Q2 & Q3). unfold wctl in *. now rewrite Q1, Q2, Q3, QI in C.
Qed.

Lemma ack_list_wsum l : forall s, wsum s (ack_list s l).
Proof.
  induction l as [|[k id] r IH]; intros s; cbn [ack_list]; [apply wsum_quiet, quiet_refl|].
  destruct (ack_one_w2 s k id) as [Q|[W Z]].
  - destruct (N.eq_dec (io (ack_one s k id)) (io s)) as [E|E].
    + apply (wsum_pre s (ack_one s k id)); auto.
    + assert (Z : io (ack_one s k id) <> 0) by (destruct (ack_one_iom s k id) as [M|[[M _]|M]]; congruence).
      destruct (ack_list_closed r _ Z) as [-> _]. now left.
  - destruct (ack_list_closed r _ Z) as [-> _]. right. left. exact W.
Qed.

Lemma step_wsum s o : wsum s (sink_step s o).
Proof.
  destruct o; cbn [sink_step].
  - apply start_wsum. - apply poll_wsum. - apply wsum_quiet, quiet_drop. - apply ack_list_wsum.
  - apply release_wsum. - apply drop_receipt_wsum. - apply wsum_quiet, quiet_wrb.
  - apply wsum_quiet. unfold do_set_cap. rewrite wake_eq. qt.
  - apply close_wsum. - apply wsum_quiet, quiet_force_close. - apply wsum_quiet. qt.
  - apply chunk_wsum. - apply wsum_quiet, quiet_drop_stream. - apply wsum_quiet, quiet_drop_chunk.
  - apply wsum_quiet, quiet_refl. - apply create_wsum.
  - destruct (in_publish_fields s id) as (_&_&_&_&_&_&_&_&_&_&SR&_&_&CR&_). unfold in_publish in *.
    destruct (N.eqb_spec (io s) 0) as [I|I]; cbn [andb]; [|apply wsum_quiet, quiet_refl].
    destruct (N.eqb_spec (srem s) 0) as [S|S]; cbn [andb]; [|apply wsum_quiet, quiet_refl].
    destruct (negb (id =? 0) && negb (client s)); [|apply wsum_quiet, quiet_refl].
    right. right. right. right. exists id. unfold add_wire. sk. repeat split; auto.
Qed.

Lemma op_wsum s o : wsum (set_wire s []) (sink_op s o).
Proof.
  unfold sink_op. eapply wsum_post; [apply step_wsum|]. unfold settle. destruct (_ =? 1); qt.
Qed.

(* ---------------------------------------------------------------- the three results *)
(* the sink's account of the payload still owed agrees with the codec's while the connection is open *)
Definition codec_sync (s : sink) : Prop := io s = 0 -> crem s = srem s.

(* tags of a wire log (a list of tag, value pairs); payload bytes of its chunk entries *)
Fixpoint wtags (w : list N) : list N := match w with t :: _ :: r => t :: wtags r | _ => [] end.
Fixpoint chunk_bytes (w : list N) : N :=
  match w with t :: v :: r => (if t =? W_CHUNK then v else 0) + chunk_bytes r | _ => 0 end.

Lemma op_io0 s o : io (sink_op s o) = 0 -> io s = 0.
Proof.
  unfold sink_op. intros H. apply (proj1 (settle_io0 _)) in H. destruct (step_iom (set_wire s []) o) as [M|[[_ M]|M]].
  - rewrite H in M. symmetry. exact M.
  - exact M.
  - rewrite H in M. discriminate.
Qed.

Theorem sync_step s o : codec_sync s -> codec_sync (sink_op s o).
Proof.
  intros SY Z. pose proof (op_io0 s o Z) as Z0. specialize (SY Z0).
  destruct (op_wsum s o) as [(Q1 & Q2 & Q3)|[(tag & v & _ & _ & _ & _ & Q2 & Q3)|[(tag & v & rem & _ & S0 & S1 & [(I & _ & C)|(I & _ & _)])|[(n & S0 & L & S1 & [(I & C0 & L2 & C & _)|(I & _ & _)])|(v & _ & _ & _ & Q2 & Q3)]]]].
  - sk in Q2. sk in Q3. congruence.
  - sk in Q2. sk in Q3. congruence.
  - congruence.
  - sk in I. contradiction.
  - sk in S1. sk in C. rewrite S1, C, SY. reflexivity.
  - sk in I. contradiction.
  - sk in Q2. sk in Q3. congruence.
Qed.

Theorem sync_run ops : forall s, codec_sync s -> codec_sync (run_from s ops).
Proof. induction ops as [|o r IH]; intros s SY; cbn [run_from fold_left]; auto. apply IH. now apply sync_step. Qed.

Theorem sync_reachable v cl c ops : codec_sync (run_from (sink_init v cl c) ops).
Proof. apply sync_run. intros _. reflexivity. Qed.

(* (a) while a streamed payload is owed, an operation writes nothing but (at most one) payload chunk *)
Theorem no_packet_while_payload_owed s o :
  codec_sync s -> srem s <> 0 ->
  forallb (fun t => t =? W_CHUNK) (wtags (wire (sink_op s o))) = true /\ (length (wire (sink_op s o)) <= 2)%nat.
Proof.
  intros SY S.
  destruct (op_wsum s o) as [(Q1 & _)|[(tag & v & _ & I & C & _)|[(tag & v & rem & _ & S0 & _)|[(n & S0 & L & S1 & [(I & C0 & L2 & C & E)|(I & E & _)])|(v & _ & S0 & _)]]]].
  - sk in Q1. rewrite Q1. split; [reflexivity|cbn; lia].
  - exfalso. sk in I. sk in C. specialize (SY I). congruence.
  - sk in S0. contradiction.
  - sk in E. rewrite E. destruct (n =? 0); cbn; split; auto.
  - sk in E. rewrite E. split; [reflexivity|cbn; lia].
  - sk in S0. contradiction.
Qed.

(* (c) the chunk bytes written never exceed what is owed; on an open connection the sink's account decreases by exactly
   what was written; the codec's account stays equal to it, so the frame is complete exactly when nothing is owed *)
Theorem chunks_within_declared s o :
  codec_sync s ->
  let s' := sink_op s o in
  chunk_bytes (wire s') <= srem s /\
  (srem s <> 0 -> io s = 0 -> chunk_bytes (wire s') + srem s' = srem s) /\
  (srem s = 0 -> chunk_bytes (wire s') = 0) /\
  codec_sync s' /\ (io s' = 0 -> (srem s' = 0 <-> crem s' = 0)).
Proof.
  intros SY. cbv zeta. pose proof (sync_step s o SY) as SY'.
  assert (SC : io (sink_op s o) = 0 -> srem (sink_op s o) = 0 <-> crem (sink_op s o) = 0).
  { intros Z. rewrite (SY' Z). tauto. }
  destruct (op_wsum s o) as [(Q1 & Q2 & Q3)|[(tag & v & T & I & C & E & Q2 & Q3)|[(tag & v & rem & T & S0 & S1 & [(I & E & C)|(I & E & C)])|[(n & S0 & L & S1 & [(I & C0 & L2 & C & E)|(I & E & C)])|(v & I & S0 & E & Q2 & Q3)]]]].
  - sk in Q1. sk in Q2. rewrite Q1, Q2. cbn [chunk_bytes]. repeat split; auto; try lia.
  - sk in E. sk in Q2. rewrite E, Q2. assert (T8 : (tag =? W_CHUNK) = false).
    { unfold is_ctl in T. destruct (N.eqb_spec tag W_CHUNK) as [->|]; [discriminate|reflexivity]. }
    cbn [app chunk_bytes]. rewrite T8. repeat split; auto; try lia.
  - sk in E. sk in S0. rewrite E. assert (T8 : (tag =? W_CHUNK) = false).
    { unfold is_publ in T. destruct (N.eqb_spec tag W_CHUNK) as [->|]; [discriminate|reflexivity]. }
    cbn [app chunk_bytes]. rewrite T8. repeat split; auto; try lia; try (intros; contradiction).
  - sk in E. sk in S0. rewrite E. cbn [chunk_bytes]. repeat split; auto; try lia; try (intros; contradiction).
  - sk in E. sk in S0. sk in S1. sk in L. rewrite E, S1.
    destruct (N.eqb_spec n 0) as [->|N0]; cbn [app chunk_bytes]; rewrite ?N.eqb_refl; repeat split; auto; try lia.
  - sk in E. sk in I. rewrite E. cbn [chunk_bytes]. repeat split; auto; try lia; try (intros; contradiction).
  - sk in E. sk in S0. sk in Q2. rewrite E, Q2. cbn [app chunk_bytes]. replace (W_IN_PUBACK =? W_CHUNK) with false by reflexivity.
    repeat split; auto; try lia; try (intros; contradiction).
Qed.

(* (b) a send that ends locally with anything but Ok -- Disconnected, PacketIdInUse, Encode (streaming in progress,
   packet too large), StreamingCancelled, the id-counter panic -- wrote nothing and registered nothing in its step *)
Lemma start6_books s t idq size x' e :
  find_task t (tasks (start_task s t 6 idq size)) = Some x' -> ended (tst x') e -> e <> ST_OK ->
  books s (start_task s t 6 idq size).
Proof.
  unfold start_task. destruct (find_task t (tasks s)); [intros; apply books_refl|].
  cbn [N.eqb Pos.eqb orb N.ltb N.compare Pos.compare Pos.compare_cont].
  replace ((6 =? 0) || (8 <? 6)) with false by reflexivity. replace (6 =? 6) with true by reflexivity.
  destruct (is_closed s); [intros; apply books_tasks, books_refl|]. unfold encode_publish0.
  destruct (negb (srem s =? 0)); [intros; apply books_tasks, books_refl|].
  sk. rewrite find_put_same. intros H [E|E] N; injection H as <-; cbn [tst] in E; [injection E as <-; contradiction|discriminate].
Qed.

Lemma start_failed_books s t k idq size x' e :
  find_task t (tasks (start_task s t k idq size)) = Some x' -> ended (tst x') e -> e <> ST_OK ->
  books s (start_task s t k idq size).
Proof.
  destruct (N.eq_dec k 6) as [->|K6]; [apply start6_books|].
  destruct (find_task t (tasks s)) as [x|] eqn:F.
  { intros _ _ _. unfold start_task. rewrite F. apply books_refl. }
  pose proof (start_task_spec s t k idq size F) as R.
  remember (start_task s t k idq size) as S eqn:ES. clear ES.
  destruct R as [|s1 e0 K P|e0 K|s1 K Hio W P|s0 x s1 st K E0 EX R]; intros H E NE.
  - apply books_refl.
  - contradiction.
  - apply books_tasks, books_refl.
  - exfalso. sk in H. rewrite find_put_same in H. injection H as <-. destruct E as [E|E]; discriminate.
  - sk in H. rewrite find_put_same in H. injection H as <-. rewrite nsp_tst in E.
    apply books_tasks. assert (B : books s0 s1) by (eapply send_res_ended; eauto).
    subst s0. destruct (k =? 7); exact B.
Qed.

Lemma create_failed_books s t k idq size x' e :
  find_task t (tasks (create_task s t k idq size)) = Some x' -> ended (tst x') e -> e <> ST_OK ->
  books s (create_task s t k idq size).
Proof.
  destruct (find_task t (tasks s)) as [x|] eqn:F.
  { intros _ _ _. unfold create_task. rewrite F. apply books_refl. }
  pose proof (create_task_spec s t k idq size F) as R.
  remember (create_task s t k idq size) as S eqn:ES. clear ES.
  destruct R as [|K|e0 K|s1 K Hio W P|K|s0 x s1 st K E0 EX R]; intros H E NE.
  - apply books_refl.
  - eapply start_failed_books; eauto.
  - apply books_tasks, books_refl.
  - exfalso. sk in H. rewrite find_put_same in H. injection H as <-. destruct E as [E|E]; discriminate.
  - apply books_tasks, books_refl.
  - sk in H. rewrite find_put_same in H. injection H as <-. rewrite nsp_tst in E.
    apply books_tasks. assert (B : books s0 s1) by (eapply send_res_ended; eauto).
    subst s0. destruct (k =? 7); exact B.
Qed.

Theorem failed_send_writes_nothing (s : sink) (o : op) (t : N) (x' : task) (e : N) :
  (o = OPoll t \/ exists k idq size, o = OStart t k idq size \/ o = OCreate t k idq size) ->
  find_task t (tasks (sink_op s o)) = Some x' -> (tst x' = TDone e \/ tst x' = TDeferred e) -> e <> ST_OK ->
  let s' := sink_op s o in
  wire s' = [] /\ inflight s' = inflight s /\ ids s' = ids s /\ rxm s' = rxm s /\ waiters s' = waiters s /\
  srem s' = srem s /\ crem s' = crem s.
Proof.
  intros O H E NE. cbv zeta.
  assert (TS : forall a, tasks (settle a) = tasks a) by (intros a; unfold settle; destruct (io a =? 1); reflexivity).
  unfold sink_op in *. rewrite TS in H.
  assert (B : books (set_wire s []) (settle (sink_step (set_wire s []) o))).
  { apply settle_books. destruct O as [->|(k & idq & size & [->| ->])]; cbn [sink_step] in *.
    - eapply poll_ended_books; eauto.
    - eapply start_failed_books; eauto.
    - eapply create_failed_books; eauto. }
  unfold books in B. sk in B. destruct B as (B1&B2&B3&B4&B5&B6&B7&B8). repeat split; assumption.
Qed.


(* ================================================================ C14: every receipt has its PUBCOMP channel *)
(* the identifier whose receipt a task holds: it has the receipt, or its QoS 2 send has been answered by PUBREC
   (the acknowledgement channel is filled) and the next poll hands the receipt out *)
Definition hold (s : sink) (x : task) : option N :=
  match tst x with
  | TReceipt id => Some id
  | TAwaitAck c id => if (tk x =? 2) && match c_st (cg s c) with CFilled => true | _ => false end then Some id else None
  | _ => None
  end.

Definition rcpt_inv (s : sink) : Prop :=
  (forall t x id, find_task t (tasks s) = Some x -> hold s x = Some id -> rxm_find id (rxm s) <> None) /\
  (forall t1 x1 t2 x2 id, find_task t1 (tasks s) = Some x1 -> find_task t2 (tasks s) = Some x2 ->
                          hold s x1 = Some id -> hold s x2 = Some id -> t1 = t2).

(* how the entry of a task may look after an operation, relative to the state before *)
Definition own_shape (s s' : sink) (t : N) (x' : task) : Prop :=
  (exists x, find_task t (tasks s) = Some x /\ tst x' = tst x /\ tk x' = tk x) \/
  match tst x' with
  | TReceipt id => exists x c v, find_task t (tasks s) = Some x /\ tst x = TAwaitAck c id /\ tk x = 2 /\ poll s c = PVal v
  | TAwaitAck c id => exists i tp, In (i, Some c, tp) (inflight s')
  | _ => True
  end.
Definition tshape (s s' : sink) : Prop := forall t x', find_task t (tasks s') = Some x' -> own_shape s s' t x'.

Lemma tshape_same s s' : tasks s' = tasks s -> tshape s s'.
Proof. intros E t x' F. left. exists x'. rewrite E in F. auto. Qed.

Lemma tshape_put s s1 t x' :
  tasks s1 = tasks s -> own_shape s (set_tasks s1 (put_task t x' (tasks s1))) t x' ->
  tshape s (set_tasks s1 (put_task t x' (tasks s1))).
Proof.
  intros E O t2 x2 F. sk in F. destruct (N.eq_dec t2 t) as [->|N].
  - rewrite find_put_same in F. injection F as <-. exact O.
  - rewrite find_put_other, E in F by auto. left. exists x2. auto.
Qed.

Lemma own_other s s' t x' : match tst x' with TReceipt _ | TAwaitAck _ _ => False | _ => True end -> own_shape s s' t x'.
Proof. intros H. right. destruct (tst x'); auto; contradiction. Qed.

Lemma send_res_shape s x s1 st x' t l :
  send_res s x s1 st -> (tst x' = st \/ tst x' = defer st) -> inflight (set_tasks s1 l) = inflight s1 ->
  forall s0, own_shape s0 (set_tasks s1 l) t x'.
Proof.
  intros R TX _ s0. right.
  assert (D : forall e, match defer (TDone e) with TReceipt _ | TAwaitAck _ _ => False | _ => True end).
  { intros e. cbn [defer]. destruct (e =? ST_PANIC); exact Logic.I. }
  destruct R as [s1 e N | s1 Hio CW P | s1 id Hio L W P].
  - destruct TX as [-> | ->]; [exact Logic.I|]. specialize (D e). destruct (defer (TDone e)); auto; contradiction.
  - destruct TX as [-> | ->]; exact Logic.I.
  - assert (E : tst x' = TAwaitAck (length (chans s)) id) by (destruct TX as [-> | ->]; reflexivity).
    rewrite E. destruct P as (_&_&_&P4&_). sk. rewrite P4. eexists _, _. apply in_or_app. right. now left.
Qed.

Lemma start_shape s t k idq size : tshape s (start_task s t k idq size).
Proof.
  destruct (find_task t (tasks s)) eqn:F; [unfold start_task; rewrite F; now apply tshape_same|].
  destruct (start_task_spec s t k idq size F) as [ | s1 e K P | e K | s1 K Hio CW P | s0 x s1 st K E0 EX R].
  - now apply tshape_same.
  - apply tshape_put; [apply P|now apply own_other].
  - apply tshape_put; [reflexivity|now apply own_other].
  - apply tshape_put; [unfold parked in P; subst; reflexivity|now apply own_other].
  - apply tshape_put; [rewrite (send_res_tasks _ _ _ _ R); subst s0; destruct (k =? 7); reflexivity|].
    eapply send_res_shape; eauto.
Qed.

Lemma create_shape s t k idq size : tshape s (create_task s t k idq size).
Proof.
  destruct (find_task t (tasks s)) eqn:F; [unfold create_task; rewrite F; now apply tshape_same|].
  destruct (create_task_spec s t k idq size F) as [ | K | e K | s1 K Hio CW P | K | s0 x s1 st K E0 EX R].
  - now apply tshape_same.
  - apply start_shape.
  - apply tshape_put; [reflexivity|now apply own_other].
  - apply tshape_put; [unfold parked in P; subst; reflexivity|now apply own_other].
  - apply tshape_put; [reflexivity|now apply own_other].
  - apply tshape_put; [rewrite (send_res_tasks _ _ _ _ R); subst s0; destruct (k =? 7); reflexivity|].
    eapply send_res_shape; eauto.
Qed.

Lemma poll_shape s t : tshape s (poll_task s t).
Proof.
  destruct (find_task t (tasks s)) as [x|] eqn:F; [|unfold poll_task; rewrite F; now apply tshape_same].
  destruct (poll_task_spec s t x F) as (s1 & st & R & ->).
  assert (T1 : tasks s1 = tasks s).
  { destruct R as [ | | | | | | | c s1 E1 P1 P2 N | c v s1 st E1 P1 Hio R | s1 E1 Hio N | s1 st E1 Hio R | ]; try reflexivity;
      try (eapply send_res_tasks; eauto; fail); destruct N as (_&_&_&_&_&_&_&_&_&_&_&_&_&N&_); exact N. }
  apply tshape_put; auto.
  destruct R as [ | c id E1 P1 | c id v E1 P1 | c E1 P1 | c v E1 P1 | c E1 P1 | c v E1 P1 | c s1 E1 P1 P2 N | c v s1 st E1 P1 Hio R
                | s1 E1 Hio N | s1 st E1 Hio R | e E1]; try (now apply own_other).
  - left. exists x. auto.
  - destruct (N.eqb_spec (tk x) 2) as [K|K]; [|now apply own_other]. right. cbn [with_tst tst]. exists x, c, v. auto.
  - eapply send_res_shape; eauto.
  - eapply send_res_shape; eauto.
Qed.

Lemma drop_shape s t : tshape s (drop_task s t).
Proof.
  unfold drop_task. destruct (find_task t (tasks s)) as [x|] eqn:F; [|now apply tshape_same].
  destruct (tst x); try (now apply tshape_same); cbv zeta; apply tshape_put; try (now apply own_other); try reflexivity.
  apply (nc_tasks _ _ (drop_sig_nc (drop_rx s c) x)).
Qed.

Lemma release_shape s t : tshape s (release_task s t).
Proof.
  unfold release_task. destruct (find_task t (tasks s)) as [x|] eqn:F; [|now apply tshape_same].
  destruct (tst x) eqn:E; try (now apply tshape_same). unfold release_publish. destruct (rxm_find _ _) as [c|].
  - destruct (enc_packet _ _ _) as [s2 ok] eqn:EP. destruct (enc_packet_core _ _ _ _ _ EP) as (_&_&_&_&_&_&_&E8). sk in E8.
    destruct ok; [destruct (poll s2 c)|]; apply tshape_put; auto; now apply own_other.
  - apply tshape_put; auto. now apply own_other.
Qed.
Lemma drop_receipt_shape s t : tshape s (drop_receipt s t).
Proof.
  unfold drop_receipt. destruct (find_task t (tasks s)) as [x|] eqn:F; [|now apply tshape_same].
  destruct (tst x) eqn:E; try (now apply tshape_same). unfold release_publish. destruct (rxm_find _ _) as [c|].
  - destruct (enc_packet _ _ _) as [s2 ok] eqn:EP. destruct (enc_packet_core _ _ _ _ _ EP) as (_&_&_&_&_&_&_&E8). sk in E8.
    apply tshape_put; auto; now apply own_other.
  - apply tshape_put; auto. now apply own_other.
Qed.

Lemma stream_shape s s1 t x sm1 : find_task t (tasks s) = Some x -> tasks s1 = tasks s ->
  tshape s (set_tasks s1 (put_task t (with_stream x sm1) (tasks s1))).
Proof. intros F E. apply tshape_put; auto. left. exists x. auto. Qed.

Lemma chunk_shape s t n : tshape s (chunk_task s t n).
Proof.
  unfold chunk_task. destruct (find_task t (tasks s)) as [x|] eqn:F; [|now apply tshape_same].
  destruct (tstream x) as [sm|]; [|now apply tshape_same]. destruct (negb _); [now apply tshape_same|].
  assert (G : forall r : sink * stream, tasks (fst r) = tasks s ->
     tshape s (let '(s1, sm1) := r in set_tasks s1 (put_task t (with_stream x sm1) (tasks s1)))).
  { intros [s1 sm1] H. cbn [fst] in H. now apply stream_shape. }
  apply G. destruct (pend sm) as [|m|c0 m].
  - destruct (s_rx sm); [apply chunk_signal_tasks|apply chunk_inprocess_tasks].
  - apply chunk_signal_tasks.
  - destruct (poll s c0); auto. apply chunk_payload_tasks.
Qed.
Lemma drop_chunk_shape s t : tshape s (drop_chunk s t).
Proof.
  unfold drop_chunk. destruct (find_task t (tasks s)) as [x|] eqn:F; [|now apply tshape_same].
  destruct (tstream x) as [sm|]; [|now apply tshape_same]. destruct (negb _); [now apply tshape_same|].
  pose proof (drop_pending_tasks s sm) as E.
  destruct (pend sm); [now apply tshape_same| |]; destruct (drop_pending s sm) as [s1 sm1]; cbn [fst] in E; now apply stream_shape.
Qed.
Lemma drop_stream_shape s t : tshape s (drop_stream s t).
Proof.
  unfold drop_stream. destruct (find_task t (tasks s)) as [x|] eqn:F; [|now apply tshape_same].
  destruct (tstream x) as [sm|]; [|now apply tshape_same]. destruct (negb _); [now apply tshape_same|].
  pose proof (drop_pending_tasks s sm) as E. destruct (drop_pending s sm) as [s1 sm1]. cbn [fst] in E.
  set (s2 := if s_rx sm1 then drop_rx s1 (sg sm1) else s1).
  assert (E2 : tasks s2 = tasks s) by (unfold s2; destruct (s_rx sm1); exact E).
  destruct (_ && _); apply stream_shape; auto.
  unfold do_force_close. rewrite clear_queues_eq. exact E2.
Qed.

Lemma step_shape s o : (forall l, o <> OAcks l) -> tshape s (sink_step s o).
Proof.
  intros NA. destruct o; cbn [sink_step].
  - apply start_shape. - apply poll_shape. - apply drop_shape. - exfalso; eapply NA; eauto.
  - apply release_shape. - apply drop_receipt_shape.
  - apply tshape_same. destruct (wrb_same s on) as (_&_&_&_). unfold do_wrb. destruct on; auto.
    set (s2 := match swait _ with Some c => _ | None => _ end).
    assert (E : tasks s2 = tasks s) by (unfold s2; destruct (swait _); [rewrite send_eq|]; reflexivity).
    destruct (_ <? _); auto. rewrite wake_eq. exact E.
  - apply tshape_same. unfold do_set_cap. rewrite wake_eq. reflexivity.
  - apply tshape_same. destruct (do_close_spec s RC_NORMAL) as (s2 & -> & C). rewrite clear_queues_eq. apply C.
  - apply tshape_same. unfold do_force_close. rewrite clear_queues_eq. reflexivity.
  - now apply tshape_same.
  - apply chunk_shape. - apply drop_stream_shape. - apply drop_chunk_shape.
  - now apply tshape_same. - apply create_shape.
  - apply tshape_same, in_publish_tasks.
Qed.

Ltac dinv' I := pose proof I as [i_len0 i_sorted0 i_ws0 i_wsnd0 i_swait0 i_inf0 i_infnd0 i_txnd0 i_ids0 i_rxm0 i_rxmk0 i_rxmc0
                                 i_closed0 i_task0 i_uniq0 i_wtask0].

Lemma hold_same_tst s x x' : tst x' = tst x -> tk x' = tk x -> hold s x' = hold s x.
Proof. unfold hold. intros -> ->. reflexivity. Qed.

Lemma hold_mono ks s s' t x id :
  inv ks s -> find_task t (tasks s) = Some x ->
  (forall c, ackch ks c -> (c < length (chans s))%nat -> nf s s' c) ->
  hold s' x = Some id -> hold s x = Some id.
Proof.
  intros I F NF H. assert (Hin : In (t, x) (tasks s)) by (apply find_task_In; auto; apply I).
  destruct (i_task _ _ I t x Hin) as [SO _]. unfold hold, st_ok in *.
  destruct (tst x) as [c|c i|i|c|c|e| | |e]; auto.
  destruct (tk x =? 2); cbn [andb] in *; auto.
  destruct (c_st (cg s' c)) eqn:E; try discriminate.
  destruct SO as (K & _). assert (A : ackch ks c) by (left; exact K).
  assert (L : (c < length (chans s))%nat) by (rewrite <- (i_len _ _ I); eapply kof_range; eauto).
  destruct (nf_filled s s' c (NF c A L) E) as [-> _]. exact H.
Qed.

(* holders after the step were holders (of the same identifier) before *)
Lemma holders_mono ks s s' :
  inv ks s -> sink_inv s' -> tshape s s' ->
  (forall c, ackch ks c -> (c < length (chans s))%nat -> nf s s' c) ->
  forall t x' id, find_task t (tasks s') = Some x' -> hold s' x' = Some id ->
                  exists x, find_task t (tasks s) = Some x /\ hold s x = Some id.
Proof.
  intros I [ks' I'] TS NF t x' id F H. destruct (TS t x' F) as [(x & Fx & E1 & E2)|O].
  - exists x. split; auto. rewrite (hold_same_tst s' x x' E1 E2) in H. eapply hold_mono; eauto.
  - unfold hold in H. destruct (tst x') as [c|c i|i|c|c|e| | |e] eqn:E; try discriminate.
    + exfalso. destruct O as (i0 & tp & Hi). destruct (i_inf _ _ I' _ _ _ Hi) as (_ & _ & c' & Ec & _ & Op).
      injection Ec as <-. rewrite Op in H. rewrite andb_false_r in H. discriminate.
    + injection H as <-. destruct O as (x & c & v & Fx & Ex & K & P). exists x. split; auto.
      unfold hold. rewrite Ex, K. apply poll_val_filled in P. now rewrite P.
Qed.

Lemma rcpt_mono ks s s' :
  inv ks s -> sink_inv s' -> rcpt_inv s -> tshape s s' ->
  (forall c, ackch ks c -> (c < length (chans s))%nat -> nf s s' c) ->
  (forall id, rxm_find id (rxm s) <> None -> rxm_find id (rxm s') <> None) -> rcpt_inv s'.
Proof.
  intros I SI' [R1 R2] TS NF RX. pose proof (holders_mono ks s s' I SI' TS NF) as HM. split.
  - intros t x' id F H. destruct (HM t x' id F H) as (x & Fx & Hx). apply RX. eapply R1; eauto.
  - intros t1 x1 t2 x2 id F1 F2 H1 H2. destruct (HM _ _ _ F1 H1) as (y1 & G1 & K1). destruct (HM _ _ _ F2 H2) as (y2 & G2 & K2).
    eapply R2; eauto.
Qed.

(* releasing / dropping the receipt: the holder gives its entry up *)
Lemma release_not_holder s t x id s' :
  find_task t (tasks s) = Some x -> tst x = TReceipt id -> s' = release_task s t \/ s' = drop_receipt s t ->
  forall x', find_task t (tasks s') = Some x' -> hold s' x' = None.
Proof.
  intros F E S' x'. 
  assert (G : forall s1 st, match st with TReceipt _ | TAwaitAck _ _ => False | _ => True end ->
     find_task t (tasks (set_tasks s1 (put_task t (with_tst x st) (tasks s1)))) = Some x' -> forall s2, hold s2 x' = None).
  { intros s1 st NS H s2. sk in H. rewrite find_put_same in H. injection H as <-. unfold hold. cbn [with_tst tst].
    destruct st; auto; contradiction. }
  destruct S' as [-> | ->]; unfold release_task, drop_receipt, release_publish; rewrite F, E.
  - destruct (rxm_find _ _) as [c|]; [|intros H; eapply G; eauto; exact Logic.I].
    destruct (enc_packet _ _ _) as [s2 ok]. destruct ok; [destruct (poll s2 c)|]; intros H; eapply G; eauto; exact Logic.I.
  - destruct (rxm_find _ _) as [c|]; [|intros H; eapply G; eauto; exact Logic.I].
    destruct (enc_packet _ _ _) as [s2 ok]. intros H; eapply G; eauto; exact Logic.I.
Qed.

Lemma rcpt_release ks s t s' :
  inv ks s -> sink_inv s' -> rcpt_inv s -> s' = release_task s t \/ s' = drop_receipt s t -> rcpt_inv s'.
Proof.
  intros I SI' R S'.
  assert (TS : tshape s s') by (destruct S' as [-> | ->]; [apply release_shape|apply drop_receipt_shape]).
  assert (NF : forall c, ackch ks c -> (c < length (chans s))%nat -> nf s s' c).
  { intros c _ _. destruct S' as [-> | ->]; [apply nf_release|apply nf_drop_receipt]. }
  destruct (find_task t (tasks s)) as [x|] eqn:F.
  2:{ assert (s' = s) as -> by (destruct S' as [-> | ->]; unfold release_task, drop_receipt; now rewrite F). exact R. }
  destruct (tst x) as [c|c i|id|c|c|e| | |e] eqn:E;
    try (assert (s' = s) as -> by (destruct S' as [-> | ->]; unfold release_task, drop_receipt; now rewrite F, E); exact R).
  destruct (release_no_cross_talk s t x id F E) as [U1 U2].
  assert (U : untouched s s' t id) by (destruct S' as [-> | ->]; auto). destruct U as (_ & UR & _).
  pose proof (holders_mono ks s s' I SI' TS NF) as HM. destruct R as [R1 R2]. split.
  - intros t2 x' i F2 H. destruct (HM t2 x' i F2 H) as (y & Fy & Hy).
    destruct (N.eq_dec i id) as [->|N]; [|rewrite UR by auto; eapply R1; eauto].
    exfalso. assert (t2 = t).
    { eapply R2; eauto. unfold hold. now rewrite E. }
    subst t2. rewrite (release_not_holder s t x id s' F E S' x' F2) in H. discriminate.
  - intros t1 x1 t2 x2 i F1 F2 H1 H2. destruct (HM _ _ _ F1 H1) as (y1 & G1 & K1). destruct (HM _ _ _ F2 H2) as (y2 & G2 & K2).
    eapply R2; eauto.
Qed.

Lemma close_rxm s r : rxm (do_close s r) = rxm s.
Proof. destruct (do_close_spec s r) as (s2 & -> & C). rewrite clear_queues_eq. sk. apply C. Qed.

Lemma ack_one_rxm s k id :
  rxm (ack_one s k id) = rxm s \/
  (k = 2 /\ exists c', rxm (ack_one s k id) = rxm_del id (rxm s) ++ [(id, c')]) \/
  (k = 3 /\ io s = 0 /\ rxm (ack_one s k id) = rxm_del id (rxm s)).
Proof.
  unfold ack_one. destruct (N.eqb_spec (io s) 0) as [Hio|Hio]; cbn [negb]; auto.
  destruct (_ || _); auto. destruct (id =? 0); [left; apply close_rxm|]. destruct (_ && _); auto.
  unfold pkt_ack, pkt_ack_inner. destruct (inflight s) as [|[[i tx] tp] rest]; [left; apply close_rxm|].
  assert (D : forall s0, rxm (drop_tx_opt s0 tx) = rxm s0) by (intros s0; rewrite drop_tx_opt_eq; reflexivity).
  pose proof (fun s0 v => nc_rxm _ _ (send_opt_nc s0 tx v)) as SN.
  destruct (N.eqb_spec i id) as [->|]; cbn [negb]; [|left; rewrite close_rxm, D; reflexivity].
  destruct (negb (k =? tp)); [left; rewrite close_rxm, D; reflexivity|].
  destruct (N.eqb_spec k 2) as [->|K2].
  { right. left. split; auto. unfold new_chan, rxm_insert. cbn [fst snd]. sk. cbn [fst snd]. rewrite SN. sk.
    destruct (rxm_find id (rxm s)); unfold drop_rx; sk; rewrite ?SN; sk; eauto. }
  destruct (N.eqb_spec k 3) as [->|K3].
  { rewrite wake_eq. sk. rewrite SN. destruct (rxm_find id (rxm s)); unfold drop_rx; sk; auto. }
  left. rewrite wake_eq. sk. rewrite SN. reflexivity.
Qed.

Lemma rxm_find_snoc id l j c : rxm_find j (l ++ [(id, c)]) = match rxm_find j l with Some x => Some x | None => if id =? j then Some c else None end.
Proof. induction l as [|[i c0] r IH]; cbn [app rxm_find]; auto. destruct (i =? j); auto. Qed.

(* the peer sends PUBCOMP(id) only after our PUBREL(id): when it is processed, the rx map no longer holds [id]
   (release_publish removed it when it wrote the PUBREL) *)
Definition comp_ok (s : sink) (k id : N) : bool :=
  negb (k =? 3) || negb (io s =? 0) || match rxm_find id (rxm s) with None => true | Some _ => false end.
Fixpoint comp_ok_acks (s : sink) (l : list (N * N)) : bool :=
  match l with [] => true | (k, id) :: r => comp_ok s k id && comp_ok_acks (ack_one s k id) r end.
Definition comp_ok_step (s : sink) (o : op) : bool :=
  match o with OAcks l => comp_ok_acks (set_wire s []) l | _ => true end.
Fixpoint pubcomp_after_pubrel (s : sink) (ops : list op) : bool :=
  match ops with [] => true | o :: r => comp_ok_step s o && pubcomp_after_pubrel (sink_op s o) r end.

Lemma ack_pubrec_rxm s i c rest :
  io s = 0 -> i <> 0 -> inflight s = (i, Some c, 2) :: rest -> rxm_find i (rxm (ack_one s 2 i)) <> None.
Proof.
  intros Hio Hi HI. unfold ack_one, pkt_ack, pkt_ack_inner. rewrite Hio, HI.
  replace (negb (0 =? 0)) with false by reflexivity. replace ((2 =? 0) || (5 <? 2)) with false by reflexivity.
  destruct (N.eqb_spec i 0); [contradiction|]. replace (((2 =? 4) || (2 =? 5)) && negb (client s)) with false by reflexivity.
  rewrite N.eqb_refl. cbn [negb]. replace (negb (2 =? 2)) with false by reflexivity. replace (2 =? 2) with true by reflexivity.
  unfold new_chan, rxm_insert. cbn [fst snd]. sk. cbn [fst snd].
  destruct (rxm_find i (rxm _)); unfold drop_rx; sk; rewrite rxm_find_snoc, N.eqb_refl;
    match goal with |- context [rxm_find i ?l] => destruct (rxm_find i l) end; discriminate.
Qed.

Lemma rcpt_ack_one ks s k id : inv ks s -> rcpt_inv s -> comp_ok s k id = true -> rcpt_inv (ack_one s k id).
Proof.
  intros I [R1 R2] CK. set (s' := ack_one s k id). pose proof (ack_one_tasks s k id) as T. fold s' in T.
  (* the rx entries of the identifiers held before survive *)
  assert (RX : forall i, rxm_find i (rxm s) <> None -> rxm_find i (rxm s') <> None).
  { intros i H. destruct (ack_one_rxm s k id) as [E|[(K & c' & E)|(K & Hio & E)]]; fold s' in E; rewrite E; auto.
    - rewrite rxm_find_snoc. destruct (N.eq_dec i id) as [->|N].
      + rewrite rxm_find_del_same, N.eqb_refl. discriminate.
      + rewrite rxm_find_del_other by auto. destruct (rxm_find i (rxm s)); [discriminate|contradiction].
    - unfold comp_ok in CK. subst k. rewrite Hio in CK. cbn [N.eqb negb orb] in CK.
      replace (negb (3 =? 3)) with false in CK by reflexivity. replace (negb (0 =? 0)) with false in CK by reflexivity. cbn [orb] in CK.
      destruct (rxm_find id (rxm s)) eqn:RF; [discriminate|]. rewrite rxm_del_notin; auto. now apply rxm_find_None. }
  (* a task that holds a receipt after the step and did not before has just been answered by the PUBREC of its id *)
  assert (NEW : forall t x i, find_task t (tasks s) = Some x -> hold s' x = Some i -> hold s x = None ->
     exists c rest, tst x = TAwaitAck c i /\ k = 2 /\ id = i /\ io s = 0 /\ inflight s = (i, Some c, 2) :: rest).
  { intros t x i F H' H. assert (Hin : In (t, x) (tasks s)) by (apply find_task_In; auto; apply I).
    destruct (i_task _ _ I t x Hin) as [SO _]. unfold hold, st_ok in *.
    destruct (tst x) as [c|c j|j|c|c|e| | |e]; try discriminate.
    destruct (N.eqb_spec (tk x) 2) as [K|K]; cbn [andb] in *; [|discriminate].
    destruct (c_st (cg s' c)) eqn:F'; try discriminate. injection H' as <-.
    destruct (c_st (cg s c)) eqn:F0; try discriminate.
    - destruct SO as (KA' & _ & S3 & _).
      destruct (ack_one_fill ks s k id c I (or_introl KA')) as (Hio & _ & _ & rest & HI); [congruence|exact F'|].
      destruct (S3 id k) as [<- EK]; [rewrite HI; now left|]. exists c, rest.
      assert (k = 2) as -> by (rewrite EK; unfold exp_kind, acktype_of; rewrite K; reflexivity). auto.
    - destruct SO as (KA' & _ & S3 & _).
      destruct (ack_one_fill ks s k id c I (or_introl KA')) as (Hio & _ & _ & rest & HI); [congruence|exact F'|].
      destruct (S3 id k) as [<- EK]; [rewrite HI; now left|]. exists c, rest.
      assert (k = 2) as -> by (rewrite EK; unfold exp_kind, acktype_of; rewrite K; reflexivity). auto. }
  assert (OLDNEW : forall x i, hold s' x = Some i -> hold s x = Some i \/ hold s x = None).
  { intros x i H. unfold hold in *. destruct (tst x) as [c|c j|j|c|c|e| | |e]; auto.
    destruct ((tk x =? 2) && match c_st (cg s' c) with CFilled => true | _ => false end); [|discriminate].
    injection H as <-. destruct ((tk x =? 2) && _); auto. }
  split.
  - intros t x i F H. rewrite T in F. destruct (OLDNEW x i H) as [O|O]; [apply RX; eapply R1; eauto|].
    destruct (NEW t x i F H O) as (c & rest & E & -> & -> & Hio & HI).
    destruct (i_inf _ _ I i (Some c) 2) as (Hi & _); [rewrite HI; now left|].
    exact (ack_pubrec_rxm s i c rest Hio Hi HI).
  - intros t1 x1 t2 x2 i F1 F2 H1 H2. rewrite T in F1, F2.
    assert (CLASH : forall t x c rest, find_task t (tasks s) = Some x -> hold s x = Some i ->
              io s = 0 -> inflight s = (i, Some c, 2) :: rest -> False).
    { intros t x c rest F H Hio HI. pose proof (R1 t x i F H) as RF.
      destruct (rxm_find i (rxm s)) as [c0|] eqn:Q; [|contradiction]. apply rxm_find_In in Q.
      destruct (i_rxm _ _ I i c0 Q) as (_ & _ & _ & R4 & _). specialize (R4 Hio). rewrite HI in R4.
      destruct R4 as [Z|R4]; [discriminate|]. pose proof (i_infnd _ _ I) as ND. rewrite HI in ND. cbn [map fst3 fst] in ND.
      inversion ND as [|? ? N1 _]; subst. apply N1. apply in_map_iff. exists (i, Some c0, 3). auto. }
    destruct (OLDNEW x1 i H1) as [O1|O1], (OLDNEW x2 i H2) as [O2|O2].
    + eapply R2; eauto.
    + exfalso. destruct (NEW t2 x2 i F2 H2 O2) as (c & rest & E & _ & _ & Hio & HI). exact (CLASH t1 x1 c rest F1 O1 Hio HI).
    + exfalso. destruct (NEW t1 x1 i F1 H1 O1) as (c & rest & E & _ & _ & Hio & HI). exact (CLASH t2 x2 c rest F2 O2 Hio HI).
    + destruct (NEW t1 x1 i F1 H1 O1) as (c1 & rest1 & E1 & _ & _ & Hio & HI1).
      destruct (NEW t2 x2 i F2 H2 O2) as (c2 & rest2 & E2 & _ & _ & _ & HI2).
      rewrite HI1 in HI2. injection HI2 as <- _.
      assert (In1 : In (t1, x1) (tasks s)) by (apply find_task_In; auto; apply I).
      assert (In2 : In (t2, x2) (tasks s)) by (apply find_task_In; auto; apply I).
      apply (i_uniq _ _ I t1 x1 t2 x2 c1 In1 In2); unfold trx; [rewrite E1|rewrite E2]; now left.
Qed.

Lemma rcpt_ack_list l : forall s, sink_inv s -> rcpt_inv s -> comp_ok_acks s l = true -> rcpt_inv (ack_list s l).
Proof.
  induction l as [|[k id] r IH]; intros s SI R CK; cbn [ack_list comp_ok_acks] in *; auto.
  apply andb_true_iff in CK as [C1 C2]. apply IH; auto using inv_ack_one.
  destruct SI as [ks I]. now apply rcpt_ack_one with ks.
Qed.

Lemma send_res_rxm s x s1 st : send_res s x s1 st -> rxm s1 = rxm s.
Proof.
  intros [s1' e N | s1' Hio CW P | s1' id Hio L W P].
  - apply N. - unfold parked in P. subst. reflexivity. - apply P.
Qed.

Lemma start_rxm s t k idq size : rxm (start_task s t k idq size) = rxm s.
Proof.
  destruct (find_task t (tasks s)) eqn:F; [unfold start_task; now rewrite F|].
  destruct (start_task_spec s t k idq size F) as [ | s1 e K P | e K | s1 K Hio CW P | s0 x s1 st K E0 EX R]; sk; auto.
  - apply P.
  - unfold parked in P. subst. reflexivity.
  - rewrite (send_res_rxm _ _ _ _ R). subst s0. destruct (k =? 7); reflexivity.
Qed.
Lemma create_rxm s t k idq size : rxm (create_task s t k idq size) = rxm s.
Proof.
  destruct (find_task t (tasks s)) eqn:F; [unfold create_task; now rewrite F|].
  destruct (create_task_spec s t k idq size F) as [ | K | e K | s1 K Hio CW P | K | s0 x s1 st K E0 EX R]; sk; auto.
  - apply start_rxm.
  - unfold parked in P. subst. reflexivity.
  - rewrite (send_res_rxm _ _ _ _ R). subst s0. destruct (k =? 7); reflexivity.
Qed.
Lemma poll_rxm s t : rxm (poll_task s t) = rxm s.
Proof.
  destruct (find_task t (tasks s)) as [x|] eqn:F; [|unfold poll_task; now rewrite F].
  destruct (poll_task_spec s t x F) as (s1 & st & R & ->). sk.
  destruct R as [ | | | | | | | c s1 E1 P1 P2 N | c v s1 st E1 P1 Hio R | s1 E1 Hio N | s1 st E1 Hio R | ]; try reflexivity;
    try (eapply send_res_rxm; eauto; fail); destruct N as (_&_&_&_&_&_&N&_); exact N.
Qed.
Lemma drop_rxm s t : rxm (drop_task s t) = rxm s.
Proof.
  unfold drop_task. destruct (find_task t (tasks s)) as [x|]; auto.
  destruct (tst x); auto; cbv zeta; sk; auto. apply (nc_rxm _ _ (drop_sig_nc (drop_rx s c) x)).
Qed.
Lemma chunk_rxm s t n : rxm (chunk_task s t n) = rxm s.
Proof.
  unfold chunk_task. destruct (find_task t (tasks s)) as [x|]; auto.
  destruct (tstream x) as [sm|]; auto. destruct (negb _); auto.
  assert (EP : forall s0 m, rxm (fst (fst (encode_publish_payload s0 m))) = rxm s0).
  { intros s0 m. destruct (epp_cases s0 m) as [-> | C]; [unfold do_force_close; rewrite clear_queues_eq; reflexivity|apply C]. }
  assert (CP : forall s0 sm0 srx m, rxm (fst (chunk_payload s0 sm0 srx m)) = rxm s0).
  { intros s0 sm0 srx m. unfold chunk_payload. pose proof (EP s0 m) as E. destruct (encode_publish_payload s0 m) as [[s1 st] more]. exact E. }
  assert (CI : forall s0 sm0 srx inp m, rxm (fst (chunk_inprocess s0 sm0 srx inp m)) = rxm s0).
  { intros s0 sm0 srx inp m. unfold chunk_inprocess. destruct inp; auto. destruct (is_closed s0); auto. destruct (wrb s0); [|apply CP].
    unfold new_chan. sk. cbn [fst]. rewrite drop_tx_opt_eq. reflexivity. }
  assert (CS : forall s0 sm0 m, rxm (fst (chunk_signal s0 sm0 m)) = rxm s0).
  { intros s0 sm0 m. unfold chunk_signal. destruct (poll _ _); auto. }
  assert (G : forall r : sink * stream, rxm (fst r) = rxm s ->
     rxm (let '(s1, sm1) := r in set_tasks s1 (put_task t (with_stream x sm1) (tasks s1))) = rxm s).
  { intros [s1 sm1] H. exact H. }
  apply G. destruct (pend sm) as [|m|c0 m]; auto. - destruct (s_rx sm); auto. - destruct (poll s c0); auto.
Qed.
Lemma drop_pending_rxm s sm : rxm (fst (drop_pending s sm)) = rxm s.
Proof. unfold drop_pending. destruct (pend sm); reflexivity. Qed.
Lemma drop_chunk_rxm s t : rxm (drop_chunk s t) = rxm s.
Proof.
  unfold drop_chunk. destruct (find_task t (tasks s)) as [x|]; auto.
  destruct (tstream x) as [sm|]; auto. destruct (negb _); auto.
  pose proof (drop_pending_rxm s sm) as E. destruct (pend sm); auto; destruct (drop_pending s sm); exact E.
Qed.
Lemma drop_stream_rxm s t : rxm (drop_stream s t) = rxm s.
Proof.
  unfold drop_stream. destruct (find_task t (tasks s)) as [x|]; auto.
  destruct (tstream x) as [sm|]; auto. destruct (negb _); auto.
  pose proof (drop_pending_rxm s sm) as E. destruct (drop_pending s sm) as [s1 sm1]. cbn [fst] in E.
  destruct (_ && _); sk; [unfold do_force_close; rewrite clear_queues_eq; sk|]; destruct (s_rx sm1); exact E.
Qed.

Lemma step_rxm s o :
  (forall l, o <> OAcks l) -> (forall t, o <> ORelease t) -> (forall t, o <> ODropReceipt t) -> rxm (sink_step s o) = rxm s.
Proof.
  intros A B C. destruct o; cbn [sink_step]; auto.
  - apply start_rxm. - apply poll_rxm. - apply drop_rxm. - exfalso; eapply A; eauto. - exfalso; eapply B; eauto.
  - exfalso; eapply C; eauto.
  - unfold do_wrb. destruct on; auto.
    set (s2 := match swait _ with Some c => _ | None => _ end).
    assert (E : rxm s2 = rxm s) by (unfold s2; destruct (swait _); [rewrite send_eq|]; reflexivity).
    destruct (_ <? _); auto. rewrite wake_eq. exact E.
  - unfold do_set_cap. rewrite wake_eq. reflexivity.
  - apply close_rxm. - unfold do_force_close. rewrite clear_queues_eq. reflexivity.
  - apply chunk_rxm. - apply drop_stream_rxm. - apply drop_chunk_rxm. - apply create_rxm.
  - apply (in_publish_fields s id).
Qed.

Lemma rcpt_step s o : sink_inv s -> settled s -> rcpt_inv s -> comp_ok_step s o = true -> rcpt_inv (sink_op s o).
Proof.
  intros SI ST R CK. unfold sink_op. set (s0 := set_wire s []).
  assert (SI0 : sink_inv s0) by (destruct SI as [ks I]; exists ks; apply inv_core with s; auto).
  assert (R0 : rcpt_inv s0) by exact R.
  pose proof (inv_step s0 o SI0 ST) as SI1.
  assert (R1 : rcpt_inv (sink_step s0 o)).
  { destruct SI0 as [ks I0].
    assert (GEN : (forall l, o <> OAcks l) -> (forall t, o <> ORelease t) -> (forall t, o <> ODropReceipt t) ->
                  rcpt_inv (sink_step s0 o)).
    { intros NA NR ND. apply rcpt_mono with ks s0; auto.
      - now apply step_shape.
      - intros c A L. now apply step_nf with ks.
      - intros id. now rewrite step_rxm. }
    destruct o as [t k i z|t|t|l|t|t|on|n| | |n|t n|t|t| |t k i z|ip]; try (apply GEN; discriminate); cbn [sink_step comp_ok_step] in *.
    - apply rcpt_ack_list; auto. now exists ks.
    - apply rcpt_release with ks s0 t; auto.
    - apply rcpt_release with ks s0 t; auto. }
  (* settle changes only the io state *)
  destruct R1 as [A B]. unfold settle. destruct (io _ =? 1); split; auto.
Qed.

Theorem rcpt_run ops : forall s, sink_inv s -> settled s -> rcpt_inv s -> pubcomp_after_pubrel s ops = true ->
  rcpt_inv (run_from s ops).
Proof.
  induction ops as [|o r IH]; intros s SI ST R CK; cbn [run_from fold_left pubcomp_after_pubrel] in *; auto.
  apply andb_true_iff in CK as [C1 C2]. destruct (inv_sink_op s o SI ST) as [SI1 ST1].
  apply IH; auto. now apply rcpt_step.
Qed.

(* under the discipline "PUBCOMP(id) only after our PUBREL(id)", every receipt in every reachable state still has its
   PUBCOMP channel registered under its own identifier *)
Theorem receipt_has_channel v cl c ops t x id :
  pubcomp_after_pubrel (sink_init v cl c) ops = true ->
  find_task t (tasks (run_from (sink_init v cl c) ops)) = Some x -> tst x = TReceipt id ->
  exists ch, rxm_find id (rxm (run_from (sink_init v cl c) ops)) = Some ch.
Proof.
  intros CK F E.
  assert (R : rcpt_inv (run_from (sink_init v cl c) ops)).
  { apply rcpt_run; auto; [exists []; apply inv_init|now left|]. split; cbn; intros; discriminate. }
  destruct R as [R1 _]. specialize (R1 t x id F). unfold hold in R1. rewrite E in R1. specialize (R1 eq_refl).
  destruct (rxm_find id _) as [ch|]; [eauto|contradiction].
Qed.
Print Assumptions receipt_has_channel.

Theorem every_receipt_release_writes_pubrel v cl c ops t x id :
  pubcomp_after_pubrel (sink_init v cl c) ops = true ->
  let s := run_from (sink_init v cl c) ops in
  find_task t (tasks s) = Some x -> tst x = TReceipt id ->
  wire (release_task s t) = (if (io s =? 0) && (crem s =? 0) then wire s ++ [W_PUBREL; id] else wire s) /\
  wire (drop_receipt s t) = (if (io s =? 0) && (crem s =? 0) then wire s ++ [W_PUBREL; id] else wire s).
Proof.
  intros CK s F E. destruct (receipt_has_channel v cl c ops t x id CK F E) as (ch & R).
  exact (release_writes_own_pubrel s t x id ch F E R).
Qed.
