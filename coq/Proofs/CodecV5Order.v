(* Proofs/CodecV5Order.v -- the order of the properties in a block does not matter, except among the
   repeatable ones (user properties, subscription identifiers), whose relative order is kept. *)
From Coq Require Import ZArith ZifyN ZifyBool Lia.
From MV Require Import Base.Prelude Base.Res Base.VarInt Base.Utf8 Model.CodecV5
  Proofs.VarIntProofs Proofs.CodecV5Fields Proofs.CodecV5Props.
Ltac Zify.zify_post_hook ::= Z.div_mod_to_equations.

(* the entries carrying identifier [id], in wire order *)
Definition proj (id : N) (its : pbag) : pbag := filter (fun e => fst e =? id) its.

Lemma bag_n_proj id its : bag_n id its = bag_n id (proj id its).
Proof.
  induction its as [|[i v] r IH]; [reflexivity|]. cbn [proj filter fst].
  destruct (i =? id) eqn:E.
  - destruct v; cbn [bag_n]; rewrite ?E; try exact IH; reflexivity.
  - destruct v; cbn [bag_n]; rewrite ?E; exact IH.
Qed.
Lemma bag_b_proj id its : bag_b id its = bag_b id (proj id its).
Proof.
  induction its as [|[i v] r IH]; [reflexivity|]. cbn [proj filter fst].
  destruct (i =? id) eqn:E.
  - destruct v; cbn [bag_b]; rewrite ?E; try exact IH; reflexivity.
  - destruct v; cbn [bag_b]; rewrite ?E; exact IH.
Qed.
Lemma bag_ns_proj id its : bag_ns id its = bag_ns id (proj id its).
Proof.
  induction its as [|[i v] r IH]; [reflexivity|]. cbn [proj filter fst].
  destruct (i =? id) eqn:E.
  - destruct v; cbn [bag_ns]; rewrite ?E; try exact IH. now rewrite IH.
  - destruct v; cbn [bag_ns]; rewrite ?E; exact IH.
Qed.
Lemma bag_pairs_proj id its : bag_pairs id its = bag_pairs id (proj id its).
Proof.
  induction its as [|[i v] r IH]; [reflexivity|]. cbn [proj filter fst].
  destruct (i =? id) eqn:E.
  - destruct v; cbn [bag_pairs]; rewrite ?E; try exact IH. now rewrite IH.
  - destruct v; cbn [bag_pairs]; rewrite ?E; exact IH.
Qed.
Lemma bag_bool_proj id its : bag_bool id its = bag_bool id (proj id its).
Proof. unfold bag_bool. now rewrite <- bag_n_proj. Qed.

(* characterisation of the parser's acceptance condition *)
Definition item_valid (tbl : ptable) (e : N * pval) : Prop :=
  exists k once, tbl (fst e) = Some (k, once) /\ pval_ok k (snd e) = true.

Definition once_ok (tbl : ptable) (seen : list N) (its : pbag) : Prop :=
  forall id k, tbl id = Some (k, true) -> (length (proj id its) + (if mem seen id then 1 else 0) <= 1)%nat.

Lemma mem_cons_eq id seen : mem (id :: seen) id = true.
Proof. unfold mem. cbn [existsb]. now rewrite N.eqb_refl. Qed.
Lemma mem_cons_ne i id seen : (i =? id) = false -> mem (i :: seen) id = mem seen id.
Proof. intros E. unfold mem. cbn [existsb]. rewrite N.eqb_sym, E. reflexivity. Qed.

Lemma items_wf_iff tbl its : forall seen,
  items_wf tbl seen its = true <-> (Forall (item_valid tbl) its /\ once_ok tbl seen its).
Proof.
  induction its as [|[i v] r IH]; intros seen.
  - cbn [items_wf]. split; [|reflexivity]. intros _. split; [constructor|].
    intros id k _. cbn. destruct (mem seen id); lia.
  - cbn [items_wf]. split.
    + destruct (tbl i) as [[k once]|] eqn:Et; [|discriminate]. intros H.
      apply andb_true_iff in H as [H H3]. apply andb_true_iff in H as [H1 H2].
      apply IH in H3 as [Hv Ho]. split.
      * constructor; [|exact Hv]. exists k, once. cbn [fst snd]. auto.
      * intros id k' Et'. specialize (Ho id k' Et'). cbn [proj filter fst].
        destruct (i =? id) eqn:E.
        -- apply N.eqb_eq in E. subst id. rewrite mem_cons_eq in Ho. rewrite Et in Et'. injection Et' as Ek Eo. subst k' once.
           cbn [andb] in H1. apply negb_true_iff in H1. rewrite H1. cbn [length]. fold (proj i r). lia.
        -- rewrite (mem_cons_ne _ _ _ E) in Ho. exact Ho.
    + intros [Hv Ho]. inversion Hv as [|e l (k & once & Et & Hp) Hv']; subst. cbn [fst snd] in *.
      rewrite Et, Hp. assert (H1 : negb (once && mem seen i) = true).
      { destruct once; [|reflexivity]. specialize (Ho i k Et). cbn [proj filter fst] in Ho.
        rewrite N.eqb_refl in Ho. cbn [length] in Ho. destruct (mem seen i); [lia|reflexivity]. }
      rewrite H1. cbn [andb]. apply IH. split; [exact Hv'|].
      intros id k' Et'. specialize (Ho id k' Et'). cbn [proj filter fst] in Ho.
      destruct (i =? id) eqn:E.
      * apply N.eqb_eq in E. subst id. rewrite mem_cons_eq. cbn [length] in Ho. fold (proj i r) in Ho.
        destruct (mem seen i); lia.
      * rewrite (mem_cons_ne _ _ _ E). exact Ho.
Qed.

Lemma in_proj e its : In e its -> In e (proj (fst e) its).
Proof. intros H. apply filter_In. split; [exact H|apply N.eqb_refl]. Qed.

Definition same_per_id (its1 its2 : pbag) : Prop := forall id, proj id its1 = proj id its2.

Lemma wf_transport tbl its1 its2 :
  same_per_id its1 its2 -> items_wf tbl [] its1 = true -> items_wf tbl [] its2 = true.
Proof.
  intros Hs H. apply items_wf_iff in H as [Hv Ho]. apply items_wf_iff. split.
  - apply Forall_forall. intros e He. apply in_proj in He. rewrite <- Hs in He.
    apply filter_In in He as [He _]. rewrite Forall_forall in Hv. now apply Hv.
  - intros id k Et. rewrite <- Hs. exact (Ho id k Et).
Qed.

(* C01: decoding a property block is invariant under any rearrangement of the properties that keeps,
   for every identifier, the entries with that identifier in the same relative order (so once-only
   properties may move freely; user properties / subscription ids keep their order).  All the
   per-packet decoders of the model assemble their result from the bag through these getters only. *)
Theorem v5_any_order tbl its1 its2 :
  items_wf tbl [] its1 = true -> same_per_id its1 its2 ->
  props_of tbl (enc_items tbl its1) = Ok its1 /\
  props_of tbl (enc_items tbl its2) = Ok its2 /\
  forall id, bag_n id its1 = bag_n id its2 /\ bag_b id its1 = bag_b id its2 /\
             bag_bool id its1 = bag_bool id its2 /\ bag_ns id its1 = bag_ns id its2 /\
             bag_pairs id its1 = bag_pairs id its2.
Proof.
  intros Hwf Hs. split; [now apply props_of_enc|]. split; [apply props_of_enc; eapply wf_transport; eauto|].
  intros id. rewrite (bag_n_proj id its1), (bag_b_proj id its1), (bag_bool_proj id its1), (bag_ns_proj id its1),
    (bag_pairs_proj id its1), (bag_n_proj id its2), (bag_b_proj id its2), (bag_bool_proj id its2),
    (bag_ns_proj id its2), (bag_pairs_proj id its2). rewrite (Hs id). repeat split.
Qed.

(* instance: the PUBLISH property block *)
Corollary v5_any_order_publish its1 its2 vi1 vi2 r :
  items_wf tbl_publish [] its1 = true -> same_per_id its1 its2 ->
  enc_vi (len (enc_items tbl_publish its1)) = Some vi1 ->
  enc_vi (len (enc_items tbl_publish its2)) = Some vi2 ->
  exists pp, parse_publish_properties (vi1 ++ enc_items tbl_publish its1 ++ r) = Ok (pp, r) /\
             parse_publish_properties (vi2 ++ enc_items tbl_publish its2 ++ r) = Ok (pp, r).
Proof.
  intros Hwf Hs E1 E2. destruct (v5_any_order _ _ _ Hwf Hs) as (P1 & P2 & G).
  unfold parse_publish_properties.
  rewrite (take_properties_enc _ _ _ _ E1 eq_refl), (take_properties_enc _ _ _ _ E2 eq_refl). cbn [bind].
  rewrite P1, P2. cbn [bind]. eexists. split; [reflexivity|].
  destruct (G P_TOPIC_ALIAS) as (-> & _). destruct (G P_CORR_DATA) as (_ & -> & _).
  destruct (G P_MSG_EXPIRY_INT) as (-> & _). destruct (G P_CONTENT_TYPE) as (_ & -> & _).
  destruct (G P_USER) as (_ & _ & _ & _ & ->). destruct (G P_UTF8_PAYLOAD) as (_ & _ & -> & _).
  destruct (G P_RESP_TOPIC) as (_ & -> & _). destruct (G P_SUB_ID) as (_ & _ & _ & -> & _). reflexivity.
Qed.

(* a concrete rearrangement: swapping two adjacent entries with different identifiers *)
Lemma same_per_id_swap a b pre post : (fst a =? fst b) = false ->
  same_per_id (pre ++ a :: b :: post) (pre ++ b :: a :: post).
Proof.
  intros E id. unfold proj. rewrite !filter_app. f_equal. cbn [filter].
  destruct (fst a =? id) eqn:Ea, (fst b =? id) eqn:Eb; try reflexivity.
  apply N.eqb_eq in Ea, Eb. rewrite <- Eb in Ea. apply N.eqb_neq in E. contradiction.
Qed.
