(* Proofs/WireV5.v -- C08 for the v5 codec model: instance of Proofs/Wire.v. *)
From Coq Require Import ZArith ZifyN ZifyBool Lia.
From MV Require Import Base.Prelude Base.Res Base.VarInt Model.CodecV5 Proofs.CodecV5Fields Proofs.CodecV5Size Proofs.Wire.

Definition step5 (c : ecodec) (it : encoded) : ecodec * bytes * bool :=
  match encodev c it with
  | ((w, Ok _), c') => (c', w, true)
  | ((w, _), c') => (c', w, false)
  end.
Definition owed5 (c : ecodec) : N := match ec_encoding_payload c with Some n => n | None => 0 end.
Definition kind5 (it : encoded) : ikind :=
  match it with EPacket _ => KPacket | EPublish _ _ => KPublish | EPayloadChunk _ => KChunk end.
(* a chunk is shorter than 4 GiB (its length is cast to u32) *)
Definition valid5 (it : encoded) : bool :=
  match it with EPayloadChunk c => len c <? TWO32 | _ => true end.
Definition inv5 (c : ecodec) : Prop := True.

Lemma step5_cases c it :
  (exists w c', encodev c it = ((w, Ok tt), c') /\ step5 c it = (c', w, true)) \/
  (exists w c' e, encodev c it = ((w, Err e), c') /\ step5 c it = (c', w, false)) \/
  (exists w c' s, encodev c it = ((w, Panic s), c') /\ step5 c it = (c', w, false)).
Proof.
  unfold step5. destruct (encodev c it) as [[w [[]|e|s]] c']; eauto 10.
Qed.

Lemma nonzero_owed n c :
  ec_encoding_payload c = nonzero n -> owed5 c = n.
Proof. unfold owed5, nonzero. intros ->. destruct (n =? 0) eqn:E; lia. Qed.

Lemma Hfail5 : forall s i s' w, valid5 i = true -> inv5 s -> step5 s i = (s', w, false) ->
  w = [] /\ owed5 s' = owed5 s.
Proof.
  intros s i s' w _ _ H.
  destruct (step5_cases s i) as [(w0 & c0 & _ & E)|[(w0 & c0 & e & E1 & E)|(w0 & c0 & p & E1 & E)]];
    rewrite E in H; inversion H; subst.
  - apply v5_fail_appends_nothing in E1 as [-> ->]. auto.
  - pose proof (v5_no_limit_panics s i) as T. rewrite E1 in T. cbn in T. contradiction.
Qed.

Lemma packet_ok_nothing_owed c p w c' :
  encodev c (EPacket p) = ((w, Ok tt), c') -> ec_encoding_payload c = None.
Proof.
  intros H. apply encodev_ok in H. rewrite encode_item_packet in H.
  destruct (ec_encoding_payload c); [discriminate|reflexivity].
Qed.

Lemma Hpkt5 : forall s i s' w, valid5 i = true -> inv5 s -> kind5 i = KPacket -> step5 s i = (s', w, true) ->
  owed5 s = 0 /\ owed5 s' = 0 /\ complete w.
Proof.
  intros s i s' w _ _ K H. destruct i as [p| |]; try discriminate.
  destruct (step5_cases s (EPacket p)) as [(w0 & c0 & E1 & E)|[(w0 & c0 & e & _ & E)|(w0 & c0 & q & _ & E)]];
    rewrite E in H; inversion H; subst.
  pose proof (packet_ok_nothing_owed _ _ _ _ E1) as Hn.
  apply v5_size_agrees_packet in E1. cbv zeta in E1. destruct E1 as (-> & _ & body & (vi & Hvi & ->) & Hl).
  unfold owed5. rewrite Hn. repeat split; auto.
  exists (first_byte (effective s p)), (encoded_size (max_size_of s) (effective s p)), vi, body.
  repeat split; auto.
Qed.

Lemma Hpub5 : forall s i s' w, valid5 i = true -> inv5 s -> kind5 i = KPublish -> step5 s i = (s', w, true) ->
  open_frame w (owed5 s').
Proof.
  intros s i s' w _ _ K H. destruct i as [|p buf|]; try discriminate.
  destruct (step5_cases s (EPublish p buf)) as [(w0 & c0 & E1 & E)|[(w0 & c0 & e & _ & E)|(w0 & c0 & q & _ & E)]];
    rewrite E in H; inversion H; subst.
  apply v5_size_agrees_publish in E1. cbv zeta in E1.
  destruct E1 as (_ & Hle & Hep & _ & _ & _ & body & (vi & Hvi & ->) & Hl).
  rewrite (nonzero_owed _ _ Hep).
  eexists _, _, vi, (body ++ inline_payload buf). split; [exact Hvi|]. split; [reflexivity|].
  rewrite len_app. lia.
Qed.

Lemma Hchunk5 : forall s i s' w, valid5 i = true -> inv5 s -> kind5 i = KChunk -> step5 s i = (s', w, true) ->
  len w <= owed5 s /\ owed5 s' = owed5 s - len w.
Proof.
  intros s i s' w Hv _ K H. destruct i as [| |c]; try discriminate. cbn [valid5] in Hv.
  destruct (step5_cases s (EPayloadChunk c)) as [(w0 & c0 & E1 & E)|[(w0 & c0 & e & _ & E)|(w0 & c0 & q & _ & E)]];
    rewrite E in H; inversion H; subst.
  apply v5_size_agrees_chunk in E1 as (rem & Hr & -> & Hle & Hep).
  rewrite N.mod_small in Hle, Hep by lia.
  rewrite (nonzero_owed _ _ Hep). unfold owed5. rewrite Hr. lia.
Qed.

Lemma Hinv5 : forall s i, valid5 i = true -> inv5 s -> inv5 (fst (fst (step5 s i))).
Proof. intros; exact I. Qed.

(* C08, v5 *)
Theorem v5_wire_is_frames : forall c ops,
  ec_encoding_payload c = None ->
  guard ecodec encoded step5 owed5 kind5 valid5 c ops = true ->
  well_formed_wire (snd (run ecodec encoded step5 c [] ops))
                   (owed5 (fst (run ecodec encoded step5 c [] ops))).
Proof.
  intros c ops Hc Hg.
  apply (run_wire ecodec encoded step5 owed5 kind5 valid5 inv5 Hinv5 Hfail5 Hpkt5 Hpub5 Hchunk5);
    [exact I| |exact Hg]. unfold owed5. rewrite Hc. apply wf_nil.
Qed.

Theorem v5_wire_complete_packets : forall c ops,
  ec_encoding_payload c = None ->
  guard ecodec encoded step5 owed5 kind5 valid5 c ops = true ->
  ec_encoding_payload (fst (run ecodec encoded step5 c [] ops)) = None ->
  exists fs, snd (run ecodec encoded step5 c [] ops) = concat fs /\ Forall complete fs.
Proof.
  intros c ops Hc Hg Hend. apply wf_zero_frames.
  pose proof (v5_wire_is_frames c ops Hc Hg) as H. unfold owed5 in H at 1. rewrite Hend in H. exact H.
Qed.

Theorem v5_wire_failed_leaves_nothing : forall c it c' w,
  valid5 it = true -> step5 c it = (c', w, false) -> w = [] /\ owed5 c' = owed5 c.
Proof. intros. eapply Hfail5; eauto. exact I. Qed.
