(* Proofs/RouterCacheProofs.v -- the router's alias cache never decides anything behind a dispatcher. *)
From MV Require Import Base.Prelude Model.RouterCache.

Definition bound_nonempty (tbl : list (N * N)) : Prop := forall a t, rc_assoc a tbl = Some t -> t <> 0.

Lemma bound_nonempty_nil : bound_nonempty [].
Proof. intros a t H. discriminate. Qed.

Lemma bound_nonempty_put a t tbl : t <> 0 -> bound_nonempty tbl -> bound_nonempty (rc_put a t tbl).
Proof.
  intros Ht Hb a' t' H. unfold rc_put in H. cbn [rc_assoc] in H.
  destruct (a =? a') eqn:E; [injection H as <-; exact Ht | eapply Hb; eauto].
Qed.

(* the alias stage keeps "every bound topic is non-empty" and hands on a non-empty topic whenever the PUBLISH
   carried a topic or an alias *)
Lemma resolve_inv max tbl p tbl' t :
  bound_nonempty tbl -> resolve max tbl p = Some (tbl', t) ->
  bound_nonempty tbl' /\ (t = 0 -> r_topic p = 0 /\ r_alias p = 0).
Proof.
  intros Hb H. unfold resolve in H.
  destruct (r_alias p =? 0) eqn:Ea.
  { injection H as <- <-. split; [exact Hb|]. intros E; split; [exact E|]. now apply N.eqb_eq. }
  destruct (r_topic p =? 0) eqn:Et.
  { destruct (rc_assoc (r_alias p) tbl) as [t0|] eqn:El; [|discriminate].
    injection H as <- <-. split; [exact Hb|]. intros E. exfalso. eapply Hb; eauto. }
  apply N.eqb_neq in Et.
  assert (Hput : bound_nonempty (rc_put (r_alias p) (r_topic p) tbl)) by (apply bound_nonempty_put; assumption).
  destruct (rc_assoc (r_alias p) tbl) as [t0|] eqn:El.
  { injection H as <- <-. split; [exact Hput|]. intros E; contradiction. }
  destruct (max <? r_alias p); [discriminate|].
  injection H as <- <-. split; [exact Hput|]. intros E; contradiction.
Qed.

Section Router.
  Variable recog : N -> option N.

  (* a PUBLISH with a topic is routed by that topic whatever the cache holds *)
  Lemma rcall_topic c topic alias : topic <> 0 -> snd (rcall recog c topic alias) = (recog topic, topic).
  Proof.
    intros Ht. unfold rcall. apply N.eqb_neq in Ht. rewrite Ht. cbn [negb].
    destruct (recog topic); reflexivity.
  Qed.

  Lemma rcall_plain c t alias : (t = 0 -> alias = 0) -> snd (rcall recog c t alias) = route_plain recog t.
  Proof.
    intros H. unfold route_plain. destruct (t =? 0) eqn:E.
    - apply N.eqb_eq in E. rewrite (H E). subst t. reflexivity.
    - apply N.eqb_neq in E. apply rcall_topic. exact E.
  Qed.

  Lemma conn_run_ref_gen max ps : forall tbl c, bound_nonempty tbl ->
    conn_run recog max tbl c ps = conn_ref recog max tbl ps.
  Proof.
    induction ps as [|p ps IH]; intros tbl c Hb; [reflexivity|].
    cbn [conn_run conn_ref].
    destruct (resolve max tbl p) as [[tbl' t]|] eqn:R; [|reflexivity].
    destruct (resolve_inv _ _ _ _ _ Hb R) as [Hb' Ht].
    pose proof (rcall_plain c t (r_alias p) (fun E => proj2 (Ht E))) as Hc.
    destruct (rcall recog c t (r_alias p)) as [c' out]. cbn [snd] in Hc. subst out.
    f_equal. apply IH. exact Hb'.
  Qed.

  (* every history of one connection, any initial cache: the routed handler and the topic it sees are those of
     the cache-free reference *)
  Lemma conn_run_ref max ps c : conn_run recog max [] c ps = conn_ref recog max [] ps.
  Proof. apply conn_run_ref_gen. exact bound_nonempty_nil. Qed.
End Router.

(* the router on its own is NOT cache-free: bind alias 1 to a routed topic, rebind it to a topic no resource
   matches (the cache is not updated), use the alias: the PUBLISH reaches the old handler with the old topic *)
Definition recog12 (t : N) : option N := if t =? 1 then Some 0 else if t =? 2 then Some 1 else None.

Lemma router_alone_stale :
  router_alone recog12 [] [ {| r_topic := 1; r_alias := 1 |}; {| r_topic := 3; r_alias := 1 |};
                            {| r_topic := 0; r_alias := 1 |} ]
  = [ (Some 0, 1); (None, 3); (Some 0, 1) ].
Proof. vm_compute. reflexivity. Qed.

Lemma conn_same_history :
  conn_run recog12 8 [] [] [ {| r_topic := 1; r_alias := 1 |}; {| r_topic := 3; r_alias := 1 |};
                             {| r_topic := 0; r_alias := 1 |} ]
  = [ (Some 0, 1); (None, 3); (None, 3) ].
Proof. vm_compute. reflexivity. Qed.
