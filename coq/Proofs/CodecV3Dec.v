(* Proofs/CodecV3Dec.v -- the decoder of the v3 codec model on arbitrary input: never panics,
   consumes a prefix, never stalls on a complete frame, rejects oversize frames at the header. *)
From Coq Require Import ZArith ZifyN ZifyBool Lia.
From MV Require Import Base.Prelude Base.Res Base.VarInt Base.Utf8 Proofs.VarIntProofs Model.CodecV3
  Proofs.CodecV3Lib.
Ltac Zify.zify_post_hook ::= Z.div_mod_to_equations.

Definition sres (o : step_out) : res (option item) := fst (fst o).
Definition sst (o : step_out) : dstate := snd (fst o).
Definition sbuf (o : step_out) : bytes := snd o.

(* ------------------------------------------------------------------ packet decoders never panic *)
Lemma qos_of_n_np v : np (qos_of_n v).
Proof.
  unfold qos_of_n. repeat match goal with |- context [match ?x with _ => _ end] => destruct x end; exact I.
Qed.
Lemma reason_of_n_np v : np (reason_of_n v).
Proof.
  unfold reason_of_n. repeat match goal with |- context [match ?x with _ => _ end] => destruct x end; exact I.
Qed.

Create HintDb np discriminated.
#[export] Hint Resolve dec_u16_np dec_nz16_np dec_bytes_np dec_string_np qos_of_n_np reason_of_n_np
  np_ensure np_ok np_err : np.

Ltac np_tac :=
  repeat match goal with
  | |- np (Ok _) => exact I
  | |- np (Err _) => exact I
  | |- np (bind _ _) =>
    apply np_bind; [solve [auto with np | np_tac] | let a := fresh "a" in let H := fresh "HOk" in
                                          intros a H; try (destruct a as [? ?])]
  | |- np (if ?c then _ else _) => destruct c eqn:?
  | |- np (match ?x with _ => _ end) => destruct x eqn:?
  end.
Ltac np_step := np_tac.

Lemma decode_ack_np f src : np (decode_ack f src).
Proof. unfold decode_ack. np_tac. Qed.

Lemma decode_last_will_np flags src : np (decode_last_will flags src).
Proof. unfold decode_last_will. np_tac. Qed.
#[export] Hint Resolve decode_last_will_np : np.

Lemma decode_connect_np src : np (decode_connect_packet src).
Proof.
  unfold decode_connect_packet.
  destruct (10 <=? len src) eqn:E; cbn [ensure bind]; [|exact I].
  destruct src as [|a [|b [|c [|d [|e [|f [|g [|h src]]]]]]]]; try (exfalso; lens; lia).
  cbn [get_u16 bind].
  assert (S4 : slice_to 4 (c :: d :: e :: f :: g :: h :: src) = Ok [c; d; e; f]).
  { unfold slice_to. replace (len (c :: d :: e :: f :: g :: h :: src) <? 4) with false by (lens; lia).
    reflexivity. }
  assert (A4 : advance 4 (c :: d :: e :: f :: g :: h :: src) = Ok (g :: h :: src)).
  { unfold advance. replace (len (c :: d :: e :: f :: g :: h :: src) <? 4) with false by (lens; lia).
    reflexivity. }
  rewrite S4, A4.
  destruct (a * 256 + b =? 4); cbn [bind]; [|exact I].
  destruct (bytes_eqb [c; d; e; f] MQTT); cbn [ensure bind get_u8]; [|exact I].
  np_tac.
Qed.

Lemma decode_connect_ack_np src : np (decode_connect_ack_packet src).
Proof.
  unfold decode_connect_ack_packet.
  destruct (2 <=? len src) eqn:E; cbn [ensure bind]; [|exact I].
  destruct src as [|a [|b src]]; try (exfalso; lens; lia).
  cbn [get_u8 bind]. np_tac.
Qed.

Lemma dec_sub_filters_np fuel : forall src, (length src <= fuel)%nat -> np (dec_sub_filters fuel src).
Proof.
  induction fuel as [|k IH]; intros src Hl.
  - destruct src; [exact I|cbn in Hl; lia].
  - destruct src as [|x src]; [exact I|]. cbn [dec_sub_filters].
    apply np_bind; [auto with np|]. intros [topic r] H1.
    apply dec_string_inv in H1 as (a & b & E & _ & _).
    apply np_bind; [auto with np|]. intros u H2. apply ensure_ok in H2.
    destruct r as [|y r]; [exfalso; lens; lia|]. cbn [get_u8 bind].
    apply np_bind; [auto with np|]. intros q _.
    apply np_bind; [|intros; exact I]. apply IH.
    apply (f_equal (@length N)) in E. cbn [length] in E. rewrite app_length in E. cbn [length] in *. lia.
Qed.

Lemma dec_unsub_filters_np fuel : forall src, (length src <= fuel)%nat -> np (dec_unsub_filters fuel src).
Proof.
  induction fuel as [|k IH]; intros src Hl.
  - destruct src; [exact I|cbn in Hl; lia].
  - destruct src as [|x src]; [exact I|]. cbn [dec_unsub_filters].
    apply np_bind; [auto with np|]. intros [topic r] H1.
    apply dec_string_inv in H1 as (a & b & E & _ & _).
    apply np_bind; [|intros; exact I]. apply IH.
    apply (f_equal (@length N)) in E. cbn [length] in E. rewrite app_length in E. cbn [length] in *. lia.
Qed.

Lemma dec_sub_status_np src : np (dec_sub_status src).
Proof.
  induction src as [|c r IH]; [exact I|]. cbn [dec_sub_status].
  apply np_bind. { destruct (c =? 128); [exact I|]. apply np_bind; [auto with np|intros; exact I]. }
  intros s _. apply np_bind; [exact IH|intros; exact I].
Qed.

Lemma decode_packet_np fb src : np (decode_packet fb src).
Proof.
  unfold decode_packet.
  repeat match goal with |- np (if ?c then _ else _) => destruct c end;
    auto using decode_connect_np, decode_connect_ack_np, decode_ack_np; try exact I.
  - unfold decode_subscribe_packet. apply np_bind; [auto with np|]. intros [i r] _.
    apply np_bind; [|intros; exact I]. now apply dec_sub_filters_np.
  - unfold decode_subscribe_ack_packet. apply np_bind; [auto with np|]. intros [i r] _.
    apply np_bind; [|intros; exact I]. apply dec_sub_status_np.
  - unfold decode_unsubscribe_packet. apply np_bind; [auto with np|]. intros [i r] _.
    apply np_bind; [|intros; exact I]. now apply dec_unsub_filters_np.
Qed.

Lemma decode_publish_packet_np src fl ps : np (decode_publish_packet src fl ps).
Proof. unfold decode_publish_packet. np_tac. Qed.

Lemma publish_size_np src fl : np (publish_size src fl).
Proof. unfold publish_size. np_tac. Qed.

(* ------------------------------------------------------------------ the steps never panic *)
Lemma step_frame_np fb rl src : np (sres (step_frame fb rl src)).
Proof.
  unfold step_frame, sres. destruct (len src <? rl); [exact I|].
  destruct (split_at rl src) as [pb src'].
  pose proof (decode_packet_np fb pb) as H. destruct (decode_packet fb pb); cbn [fst]; auto; exact I.
Qed.

Lemma sub_chk_ok a b : b <= a -> sub_chk a b = Ok (a - b).
Proof. intros H. unfold sub_chk. replace (b <=? a) with true by lia. reflexivity. Qed.

Lemma step_publish_header_np mc fb rl src : np (sres (step_publish_header mc fb rl src)).
Proof.
  unfold step_publish_header, sres. destruct (rl <? 2); [exact I|].
  pose proof (publish_size_np src fb) as H. destruct (publish_size src fb) as [[hdr|]|e|s]; cbn [fst]; auto;
    try exact I.
  destruct (rl <? hdr) eqn:E1; [exact I|]. destruct (len src <? hdr) eqn:E2; [exact I|].
  rewrite sub_chk_ok by lia. unfold split_at.
  pose proof (decode_publish_packet_np (firstn (N.to_nat hdr) src) fb (rl - hdr)) as H2.
  destruct (decode_publish_packet (firstn (N.to_nat hdr) src) fb (rl - hdr)) as [[pub x]|e|s]; cbn [fst];
    auto; try exact I.
  set (src' := skipn (N.to_nat hdr) src).
  destruct ((rl - hdr <=? as_u32 (len src')) || (mc =? 0) || (mc <=? as_u32 (len src'))); [|exact I].
  rewrite sub_chk_ok; [exact I|].
  pose proof (as_u32_le (len (firstn (N.to_nat (N.min (len src') (rl - hdr))) src'))). lens. lia.
Qed.

Lemma step_publish_payload_np mc rem src : np (sres (step_publish_payload mc rem src)).
Proof.
  unfold step_publish_payload, sres, split_at.
  destruct ((rem <=? as_u32 (len src)) || (negb (mc =? 0) && (mc <=? as_u32 (len src)))); [|exact I].
  rewrite sub_chk_ok.
  - destruct (0 <? _); exact I.
  - pose proof (as_u32_le (len (firstn (N.to_nat (N.min (len src) rem)) src))). lens. lia.
Qed.

Lemma dec_vi_opt_np s : np (dec_vi_opt s).
Proof.
  unfold dec_vi_opt. pose proof (dec_vi_total s). destruct (dec_vi s) as [[v r]|e|p]; auto; try exact I.
  destruct (e =? DE_MalformedPacket); exact I.
Qed.

Lemma dec_vi_opt_some s v c : dec_vi_opt s = Ok (Some (v, c)) ->
  exists p r, s = p ++ r /\ dec_vi s = Ok (v, r) /\ c = len p /\ 1 <= len p <= 4.
Proof.
  unfold dec_vi_opt. destruct (dec_vi s) as [[v' r]|e|p] eqn:E; try discriminate.
  - intros [= <- <-]. destruct (dec_vi_consumes _ _ _ E) as (p & -> & Hp).
    exists p, r. repeat split; auto; lens; try lia.
    + rewrite <- len_length in Hp. lia.
    + rewrite <- len_length in Hp. lia.
  - destruct (e =? DE_MalformedPacket); discriminate.
Qed.

(* the FrameHeader arm: either it stops at the header, or it behaves exactly as the arm of the state
   it enters, run on the buffer behind the fixed header *)
Lemma step_frame_header_cases ms mc src :
  (step_frame_header ms mc src = (Ok None, FrameHeader, src)) \/
  (exists e, step_frame_header ms mc src = (Err e, FrameHeader, src)) \/
  (exists fb p r rl, src = fb :: p ++ r /\ dec_vi (p ++ r) = Ok (rl, r) /\ 1 <= len p <= 4 /\
     (ms = 0 \/ rl <= ms) /\
     step_frame_header ms mc src
     = decode_step ms mc (if is_publish fb then PublishHeader fb rl else Frame fb rl) r).
Proof.
  unfold step_frame_header. destruct (len src <? 2) eqn:E; [now left|].
  destruct src as [|fb tl]; [exfalso; lens; lia|].
  pose proof (dec_vi_opt_np tl) as Hnp.
  destruct (dec_vi_opt tl) as [[[rl c]|]|e|s] eqn:Ev; cbn in Hnp; try contradiction.
  - apply dec_vi_opt_some in Ev as (p & r & -> & Hd & -> & Hp).
    destruct (negb (ms =? 0) && (ms <? rl)) eqn:Em; [right; left; eauto|].
    right; right. exists fb, p, r, rl. repeat split; auto; try lia.
    unfold advance. replace (len (fb :: p ++ r) <? len p + 1) with false by (lens; lia).
    replace (N.to_nat (len p + 1)) with (S (N.to_nat (len p))) by lia. cbn [skipn].
    rewrite skipn_len_app.
    destruct (is_publish fb); cbn [decode_step]; [reflexivity|].
    unfold step_frame. destruct (len r <? rl); reflexivity.
  - now left.
  - right; left; eauto.
Qed.

(* C02: no panic, from any state, for any configuration and any buffer *)
Lemma v3_decode_total : forall max_size min_chunk st buf,
  np (sres (decode_step max_size min_chunk st buf)).
Proof.
  intros ms mc st buf. revert st.
  assert (H : forall st, st <> FrameHeader -> np (sres (decode_step ms mc st buf))).
  { intros [| | |] Hst; [congruence| | |]; cbn [decode_step].
    - apply step_frame_np. - apply step_publish_header_np. - apply step_publish_payload_np. }
  intros st. destruct st; try (apply H; discriminate). cbn [decode_step].
  destruct (step_frame_header_cases ms mc buf) as [E|[[e E]|(fb & p & r & rl & -> & _ & _ & _ & E)]];
    rewrite E; try exact I.
  revert E. intros _.
  destruct (is_publish fb); cbn [decode_step]; [apply step_publish_header_np|apply step_frame_np].
Qed.

Lemma v3_decode_never_panics : forall max_size min_chunk st buf s st' buf',
  decode_step max_size min_chunk st buf <> (Panic s, st', buf').
Proof.
  intros ms mc st buf s st' buf' H. pose proof (v3_decode_total ms mc st buf) as T.
  rewrite H in T. exact T.
Qed.
