(* Proofs/CodecV3Dec.v -- the decoder of the v3 codec model on arbitrary input: never panics,
   consumes a prefix, never stalls on a complete frame, rejects oversize frames at the header. *)
From Coq Require Import ZArith ZifyN ZifyBool Lia.
From MV Require Import Base.Prelude Base.Res Base.VarInt Base.Utf8 Proofs.VarIntProofs Model.CodecV3
  Proofs.CodecV3Lib.
Ltac Zify.zify_post_hook ::= Z.div_mod_to_equations.
Set Warnings "-unused-intro-pattern".

Definition sres (o : step_out) : res (option item) := fst (fst o).
Definition sst (o : step_out) : dstate := snd (fst o).
Definition sbuf (o : step_out) : bytes := snd o.

(* ------------------------------------------------------------------ packet decoders never panic *)
Lemma qos_of_n_np v : np (qos_of_n v).
Proof.
  unfold qos_of_n. repeat match goal with |- context [match ?x with _ => _ end] => destruct x end; exact I.
Qed.
Lemma reason_of_n_np v : np (reason_of_n v).
Proof.
  unfold reason_of_n. repeat match goal with |- context [match ?x with _ => _ end] => destruct x end; exact I.
Qed.

Create HintDb np discriminated.
#[export] Hint Resolve dec_u16_np dec_nz16_np dec_bytes_np dec_string_np qos_of_n_np reason_of_n_np
  np_ensure np_ok np_err : np.

Ltac np_tac :=
  repeat match goal with
  | |- np (Ok _) => exact I
  | |- np (Err _) => exact I
  | |- np (bind _ _) =>
    apply np_bind; [solve [auto with np | np_tac] | let a := fresh "a" in let H := fresh "HOk" in
                                          intros a H; try (destruct a as [? ?])]
  | |- np (if ?c then _ else _) => destruct c eqn:?
  | |- np (match ?x with _ => _ end) => destruct x eqn:?
  end.
Ltac np_step := np_tac.

Lemma decode_ack_np f src : np (decode_ack f src).
Proof. unfold decode_ack. np_tac. Qed.

Lemma decode_last_will_np flags src : np (decode_last_will flags src).
Proof. unfold decode_last_will. np_tac. Qed.
#[export] Hint Resolve decode_last_will_np : np.

Lemma decode_connect_np src : np (decode_connect_packet src).
Proof.
  unfold decode_connect_packet.
  destruct (10 <=? len src) eqn:E; cbn [ensure bind]; [|exact I].
  destruct src as [|a [|b [|c [|d [|e [|f [|g [|h src]]]]]]]]; try (exfalso; lens; lia).
  cbn [get_u16 bind].
  assert (S4 : slice_to 4 (c :: d :: e :: f :: g :: h :: src) = Ok [c; d; e; f]).
  { unfold slice_to. replace (len (c :: d :: e :: f :: g :: h :: src) <? 4) with false by (lens; lia).
    reflexivity. }
  assert (A4 : advance 4 (c :: d :: e :: f :: g :: h :: src) = Ok (g :: h :: src)).
  { unfold advance. replace (len (c :: d :: e :: f :: g :: h :: src) <? 4) with false by (lens; lia).
    reflexivity. }
  rewrite S4, A4.
  destruct (a * 256 + b =? 4); cbn [bind]; [|exact I].
  destruct (bytes_eqb [c; d; e; f] MQTT); cbn [ensure bind get_u8]; [|exact I].
  np_tac.
Qed.

Lemma decode_connect_ack_np src : np (decode_connect_ack_packet src).
Proof.
  unfold decode_connect_ack_packet.
  destruct (2 <=? len src) eqn:E; cbn [ensure bind]; [|exact I].
  destruct src as [|a [|b src]]; try (exfalso; lens; lia).
  cbn [get_u8 bind]. np_tac.
Qed.

Lemma dec_sub_filters_np fuel : forall src, (length src <= fuel)%nat -> np (dec_sub_filters fuel src).
Proof.
  induction fuel as [|k IH]; intros src Hl.
  - destruct src; [exact I|cbn in Hl; lia].
  - destruct src as [|x src]; [exact I|]. cbn [dec_sub_filters].
    apply np_bind; [auto with np|]. intros [topic r] H1.
    apply dec_string_inv in H1 as (a & b & E & _ & _).
    apply np_bind; [auto with np|]. intros u H2. apply ensure_ok in H2.
    destruct r as [|y r]; [exfalso; lens; lia|]. cbn [get_u8 bind].
    apply np_bind; [auto with np|]. intros q _.
    apply np_bind; [|intros; exact I]. apply IH.
    apply (f_equal (@length N)) in E. cbn [length] in E. rewrite app_length in E. cbn [length] in *. lia.
Qed.

Lemma dec_unsub_filters_np fuel : forall src, (length src <= fuel)%nat -> np (dec_unsub_filters fuel src).
Proof.
  induction fuel as [|k IH]; intros src Hl.
  - destruct src; [exact I|cbn in Hl; lia].
  - destruct src as [|x src]; [exact I|]. cbn [dec_unsub_filters].
    apply np_bind; [auto with np|]. intros [topic r] H1.
    apply dec_string_inv in H1 as (a & b & E & _ & _).
    apply np_bind; [|intros; exact I]. apply IH.
    apply (f_equal (@length N)) in E. cbn [length] in E. rewrite app_length in E. cbn [length] in *. lia.
Qed.

Lemma dec_sub_status_np src : np (dec_sub_status src).
Proof.
  induction src as [|c r IH]; [exact I|]. cbn [dec_sub_status].
  apply np_bind. { destruct (c =? 128); [exact I|]. apply np_bind; [auto with np|intros; exact I]. }
  intros s _. apply np_bind; [exact IH|intros; exact I].
Qed.

Lemma decode_packet_np fb src : np (decode_packet fb src).
Proof.
  unfold decode_packet.
  repeat match goal with |- np (if ?c then _ else _) => destruct c end;
    auto using decode_connect_np, decode_connect_ack_np, decode_ack_np; try exact I.
  - unfold decode_subscribe_packet. apply np_bind; [auto with np|]. intros [i r] _.
    apply np_bind; [|intros; exact I]. now apply dec_sub_filters_np.
  - unfold decode_subscribe_ack_packet. apply np_bind; [auto with np|]. intros [i r] _.
    apply np_bind; [|intros; exact I]. apply dec_sub_status_np.
  - unfold decode_unsubscribe_packet. apply np_bind; [auto with np|]. intros [i r] _.
    apply np_bind; [|intros; exact I]. now apply dec_unsub_filters_np.
Qed.

Lemma decode_publish_packet_np src fl ps : np (decode_publish_packet src fl ps).
Proof. unfold decode_publish_packet. np_tac. Qed.

Lemma publish_size_np src fl : np (publish_size src fl).
Proof. unfold publish_size. np_tac. Qed.

(* ------------------------------------------------------------------ the steps never panic *)
Lemma step_frame_np fb rl src : np (sres (step_frame fb rl src)).
Proof.
  unfold step_frame, sres. destruct (len src <? rl); [exact I|].
  destruct (split_at rl src) as [pb src'].
  pose proof (decode_packet_np fb pb) as H. destruct (decode_packet fb pb); cbn [fst]; auto; exact I.
Qed.

Lemma step_publish_header_np mc fb rl src : np (sres (step_publish_header mc fb rl src)).
Proof.
  unfold step_publish_header, sres. destruct (rl <? 2); [exact I|].
  pose proof (publish_size_np src fb) as H. destruct (publish_size src fb) as [[hdr|]|e|s]; cbn [fst]; auto;
    try exact I.
  destruct (rl <? hdr) eqn:E1; [exact I|]. destruct (len src <? hdr) eqn:E2; [exact I|].
  rewrite sub_chk_ok by lia. unfold split_at.
  pose proof (decode_publish_packet_np (firstn (N.to_nat hdr) src) fb (rl - hdr)) as H2.
  destruct (decode_publish_packet (firstn (N.to_nat hdr) src) fb (rl - hdr)) as [[pub x]|e|s]; cbn [fst];
    auto; try exact I.
  set (src' := skipn (N.to_nat hdr) src).
  destruct ((rl - hdr <=? as_u32 (len src')) || (mc =? 0) || (mc <=? as_u32 (len src'))); [|exact I].
  rewrite sub_chk_ok; [exact I|].
  pose proof (as_u32_le (len (firstn (N.to_nat (N.min (len src') (rl - hdr))) src'))). lens. lia.
Qed.

Lemma step_publish_payload_np mc rem src : np (sres (step_publish_payload mc rem src)).
Proof.
  unfold step_publish_payload, sres, split_at.
  destruct ((rem <=? as_u32 (len src)) || (negb (mc =? 0) && (mc <=? as_u32 (len src)))); [|exact I].
  rewrite sub_chk_ok.
  - destruct (0 <? _); exact I.
  - pose proof (as_u32_le (len (firstn (N.to_nat (N.min (len src) rem)) src))). lens. lia.
Qed.

Lemma dec_vi_opt_np s : np (dec_vi_opt s).
Proof.
  unfold dec_vi_opt. pose proof (dec_vi_total s). destruct (dec_vi s) as [[v r]|e|p]; auto; try exact I.
  destruct (e =? DE_MalformedPacket); exact I.
Qed.

Lemma dec_vi_opt_some s v c : dec_vi_opt s = Ok (Some (v, c)) ->
  exists p r, s = p ++ r /\ dec_vi s = Ok (v, r) /\ c = len p /\ 1 <= len p <= 4.
Proof.
  unfold dec_vi_opt. destruct (dec_vi s) as [[v' r]|e|p] eqn:E; try discriminate.
  - intros [= <- <-]. destruct (dec_vi_consumes _ _ _ E) as (p & -> & Hp).
    exists p, r. repeat split; auto; lens; try lia.
    + rewrite <- len_length in Hp. lia.
    + rewrite <- len_length in Hp. lia.
  - destruct (e =? DE_MalformedPacket); discriminate.
Qed.

(* the FrameHeader arm: either it stops at the header, or it behaves exactly as the arm of the state
   it enters, run on the buffer behind the fixed header *)
Lemma step_frame_header_cases ms mc src :
  (step_frame_header ms mc src = (Ok None, FrameHeader, src)) \/
  (exists e, step_frame_header ms mc src = (Err e, FrameHeader, src)) \/
  (exists fb p r rl, src = fb :: p ++ r /\ dec_vi (p ++ r) = Ok (rl, r) /\ 1 <= len p <= 4 /\
     (ms = 0 \/ rl <= ms) /\
     step_frame_header ms mc src
     = decode_step ms mc (if is_publish fb then PublishHeader fb rl else Frame fb rl) r).
Proof.
  unfold step_frame_header. destruct (len src <? 2) eqn:E; [now left|].
  destruct src as [|fb tl]; [exfalso; lens; lia|].
  pose proof (dec_vi_opt_np tl) as Hnp.
  destruct (dec_vi_opt tl) as [[[rl c]|]|e|s] eqn:Ev; cbn in Hnp; try contradiction.
  - apply dec_vi_opt_some in Ev as (p & r & -> & Hd & -> & Hp).
    destruct (negb (ms =? 0) && (ms <? rl)) eqn:Em; [right; left; eauto|].
    right; right. exists fb, p, r, rl. repeat split; auto; try lia.
    unfold advance. replace (len (fb :: p ++ r) <? len p + 1) with false by (lens; lia).
    replace (N.to_nat (len p + 1)) with (S (N.to_nat (len p))) by lia. cbn [skipn].
    rewrite skipn_len_app.
    destruct (is_publish fb); cbn [decode_step]; [reflexivity|].
    unfold step_frame. destruct (len r <? rl); reflexivity.
  - now left.
  - right; left; eauto.
Qed.

(* C02: no panic, from any state, for any configuration and any buffer *)
Lemma v3_decode_total : forall max_size min_chunk st buf,
  np (sres (decode_step max_size min_chunk st buf)).
Proof.
  intros ms mc st buf. revert st.
  assert (H : forall st, st <> FrameHeader -> np (sres (decode_step ms mc st buf))).
  { intros [| | |] Hst; [congruence| | |]; cbn [decode_step].
    - apply step_frame_np. - apply step_publish_header_np. - apply step_publish_payload_np. }
  intros st. destruct st; try (apply H; discriminate). cbn [decode_step].
  destruct (step_frame_header_cases ms mc buf) as [E|[[e E]|(fb & p & r & rl & -> & _ & _ & _ & E)]];
    rewrite E; try exact I.
  revert E. intros _.
  destruct (is_publish fb); cbn [decode_step]; [apply step_publish_header_np|apply step_frame_np].
Qed.

Lemma v3_decode_never_panics : forall max_size min_chunk st buf s st' buf',
  decode_step max_size min_chunk st buf <> (Panic s, st', buf').
Proof.
  intros ms mc st buf s st' buf' H. pose proof (v3_decode_total ms mc st buf) as T.
  rewrite H in T. exact T.
Qed.

(* ------------------------------------------------------------------ C02: oversize frames die at the header *)
Lemma v3_oversize_rejected_general : forall max_size min_chunk fb tl rl r,
  max_size <> 0 -> max_size < rl -> dec_vi tl = Ok (rl, r) ->
  decode_step max_size min_chunk FrameHeader (fb :: tl) = (Err DE_MaxSizeExceeded, FrameHeader, fb :: tl).
Proof.
  intros ms mc fb tl rl r Hz Hlt Hd. cbn [decode_step]. unfold step_frame_header.
  destruct tl as [|t tl]; [discriminate|].
  replace (len (fb :: t :: tl) <? 2) with false by (lens; lia).
  unfold dec_vi_opt. rewrite Hd.
  replace (negb (ms =? 0) && (ms <? rl)) with true by lia. reflexivity.
Qed.

Lemma v3_oversize_rejected_at_header : forall max_size min_chunk fb rl vi any,
  max_size <> 0 -> max_size < rl -> enc_vi rl = Some vi ->
  decode_step max_size min_chunk FrameHeader (fb :: vi ++ any)
  = (Err DE_MaxSizeExceeded, FrameHeader, fb :: vi ++ any).
Proof.
  intros ms mc fb rl vi any Hz Hlt Hv.
  eapply v3_oversize_rejected_general; eauto using varint_roundtrip.
Qed.

(* ------------------------------------------------------------------ state invariant, budget of a frame *)
Definition dstate_ok (st : dstate) : bool :=
  match st with
  | FrameHeader => true
  | Frame _ rl | PublishHeader _ rl => rl <=? VI_MAX
  | PublishPayload n => (0 <? n) && (n <=? VI_MAX)
  end.

(* bytes of the current frame the decoder may still consume *)
Definition phi (st : dstate) : N :=
  match st with
  | FrameHeader => 0
  | Frame _ rl | PublishHeader _ rl => rl
  | PublishPayload n => n
  end.

Definition budget_post (st : dstate) (c : bytes) (out : step_out) : Prop :=
  match sres out with
  | Ok None => c = [] /\ sst out = st
  | Ok (Some _) => len c + phi (sst out) = phi st
  | Err _ => len c <= phi st /\ sst out = st
  | Panic _ => False
  end.

Lemma step_frame_budget fb rl src : rl <= VI_MAX ->
  let out := step_frame fb rl src in
  exists c, src = c ++ sbuf out /\ dstate_ok (sst out) = true /\ budget_post (Frame fb rl) c out.
Proof.
  intros Hrl. cbn zeta. unfold step_frame, budget_post.
  destruct (len src <? rl) eqn:E.
  { exists []. cbn [sbuf sst sres fst snd dstate_ok app]. repeat split; auto. lia. }
  unfold split_at. pose proof (decode_packet_np fb (firstn (N.to_nat rl) src)) as Hnp.
  exists (firstn (N.to_nat rl) src).
  destruct (decode_packet fb (firstn (N.to_nat rl) src)); cbn [sbuf sst sres fst snd dstate_ok phi];
    (split; [symmetry; apply firstn_skipn|]); lens; repeat split; auto; try lia.
Qed.

Lemma step_publish_payload_budget mc rem src : 0 < rem -> rem <= VI_MAX ->
  let out := step_publish_payload mc rem src in
  exists c, src = c ++ sbuf out /\ dstate_ok (sst out) = true /\ budget_post (PublishPayload rem) c out.
Proof.
  intros H0 Hrl. cbn zeta. unfold step_publish_payload, budget_post, split_at.
  destruct ((rem <=? as_u32 (len src)) || (negb (mc =? 0) && (mc <=? as_u32 (len src)))).
  2:{ exists []. cbn [sbuf sst sres fst snd dstate_ok app]. repeat split; auto. unfold VI_MAX in *. lia. }
  set (k := N.min (len src) rem).
  assert (Hk : as_u32 (len (firstn (N.to_nat k) src)) = k).
  { lens. rewrite as_u32_small; unfold U32MAX, VI_MAX in *; lia. }
  rewrite Hk. rewrite sub_chk_ok by lia.
  exists (firstn (N.to_nat k) src).
  destruct (0 <? rem - k) eqn:Ez; cbn [sbuf sst sres fst snd dstate_ok phi];
    (split; [symmetry; apply firstn_skipn|]); lens; unfold VI_MAX in *; split; try lia.
Qed.

Lemma qos_of_n_inv v q : qos_of_n v = Ok q -> v = qos_to_n q.
Proof.
  unfold qos_of_n. destruct v as [|[[|[]|]|[|[]|]|]]; intros [= <-]; reflexivity.
Qed.

Lemma publish_size_some src fl h : publish_size src fl = Ok (Some h) ->
  exists a b r q, src = a :: b :: r /\ qos_of_n ((fl / 2) mod 4) = Ok q /\
     h = a * 256 + b + 2 + (if is_qos12 q then 2 else 0).
Proof.
  unfold publish_size. destruct src as [|a [|b r]]; try discriminate.
  destruct (qos_of_n ((fl / 2) mod 4)) as [q| |] eqn:E; cbn [bind]; try discriminate.
  intros [= <-]. exists a, b, r, q. repeat split; auto. destruct q; cbn [is_qos12]; lia.
Qed.

Lemma step_publish_header_budget mc fb rl src : rl <= VI_MAX ->
  let out := step_publish_header mc fb rl src in
  exists c, src = c ++ sbuf out /\ dstate_ok (sst out) = true /\ budget_post (PublishHeader fb rl) c out.
Proof.
  intros Hrl. cbn zeta. unfold step_publish_header, budget_post.
  assert (Stay : forall r : res (option item),
    match r with Ok None => True | Err _ => True | _ => False end ->
    exists c, src = c ++ sbuf (r, PublishHeader fb rl, src) /\
      dstate_ok (sst (r, PublishHeader fb rl, src)) = true /\
      match sres (r, PublishHeader fb rl, src) with
      | Ok None => c = [] /\ sst (r, PublishHeader fb rl, src) = PublishHeader fb rl
      | Ok (Some _) => len c + phi (sst (r, PublishHeader fb rl, src)) = phi (PublishHeader fb rl)
      | Err _ => len c <= phi (PublishHeader fb rl) /\ sst (r, PublishHeader fb rl, src) = PublishHeader fb rl
      | Panic _ => False
      end).
  { intros r Hr. exists []. cbn [sbuf sst sres fst snd dstate_ok app phi].
    split; [reflexivity|]. split; [lia|]. destruct r as [[|]| |]; try contradiction; lens; split; auto; lia. }
  destruct (rl <? 2) eqn:E0; [apply Stay; exact I|].
  pose proof (publish_size_np src fb) as Hnp.
  destruct (publish_size src fb) as [[hdr|]|e|s] eqn:Eps; try contradiction; try (apply Stay; exact I).
  destruct (rl <? hdr) eqn:E1; [apply Stay; exact I|].
  destruct (len src <? hdr) eqn:E2; [apply Stay; exact I|].
  rewrite sub_chk_ok by lia. unfold split_at.
  set (hd := firstn (N.to_nat hdr) src). set (src' := skipn (N.to_nat hdr) src).
  assert (Es : src = hd ++ src') by (symmetry; apply firstn_skipn).
  assert (Lh : len hd = hdr) by (unfold hd; lens; lia).
  pose proof (decode_publish_packet_np hd fb (rl - hdr)) as Hnp2.
  destruct (decode_publish_packet hd fb (rl - hdr)) as [[pub x]|e|s]; try contradiction.
  2:{ exists hd. cbn [sbuf sst sres fst snd dstate_ok phi]. repeat split; auto; lia. }
  destruct ((rl - hdr <=? as_u32 (len src')) || (mc =? 0) || (mc <=? as_u32 (len src'))) eqn:Ec.
  - set (k := N.min (len src') (rl - hdr)).
    assert (Hk : as_u32 (len (firstn (N.to_nat k) src')) = k).
    { lens. rewrite as_u32_small; unfold U32MAX, VI_MAX in *; lia. }
    rewrite Hk. rewrite sub_chk_ok by lia.
    exists (hd ++ firstn (N.to_nat k) src').
    destruct (0 <? rl - hdr - k) eqn:Ez; cbn [sbuf sst sres fst snd dstate_ok phi];
      (split; [rewrite <- app_assoc, firstn_skipn; exact Es|]); lens; unfold VI_MAX in *; split; lia.
  - exists hd. cbn [sbuf sst sres fst snd dstate_ok phi]. split; [exact Es|].
    assert (as_u32 (len src') < rl - hdr) by lia. unfold VI_MAX in *. split; lia.
Qed.

Lemma step_budget ms mc st buf : st <> FrameHeader -> dstate_ok st = true ->
  let out := decode_step ms mc st buf in
  exists c, buf = c ++ sbuf out /\ dstate_ok (sst out) = true /\ budget_post st c out.
Proof.
  intros Hst Hok. destruct st as [|fb rl|fb rl|n]; [congruence| | |]; cbn [decode_step dstate_ok] in *.
  - apply step_frame_budget. lia.
  - apply step_publish_header_budget. lia.
  - apply step_publish_payload_budget; lia.
Qed.

(* what a FrameHeader step does: stops in front of an incomplete / bad fixed header without consuming,
   or consumes the fixed header [fb :: h] announcing [rl] and then at most [rl] more *)
Lemma step_budget_header ms mc buf :
  let out := decode_step ms mc FrameHeader buf in
  (out = (Ok None, FrameHeader, buf)) \/
  (exists e, out = (Err e, FrameHeader, buf)) \/
  (exists fb h r rl st c, buf = fb :: h ++ r /\ dec_vi (h ++ r) = Ok (rl, r) /\ 1 <= len h <= 4 /\
     (ms = 0 \/ rl <= ms) /\ rl <= VI_MAX /\
     st = (if is_publish fb then PublishHeader fb rl else Frame fb rl) /\
     out = decode_step ms mc st r /\
     r = c ++ sbuf out /\ dstate_ok (sst out) = true /\ budget_post st c out).
Proof.
  cbn zeta. cbn [decode_step].
  destruct (step_frame_header_cases ms mc buf) as [E|[[e E]|(fb & p & r & rl & -> & Hd & Hp & Hm & E)]].
  - now left.
  - right; left; eauto.
  - right; right. pose proof (dec_vi_bound _ _ _ Hd) as Hb.
    set (st := if is_publish fb then PublishHeader fb rl else Frame fb rl) in *.
    assert (Hst : st <> FrameHeader) by (unfold st; destruct (is_publish fb); discriminate).
    assert (Hok : dstate_ok st = true) by (unfold st; destruct (is_publish fb); cbn [dstate_ok]; lia).
    destruct (step_budget ms mc st r Hst Hok) as (c & Hc & Hd' & Hbp).
    exists fb, p, r, rl, st, c. rewrite E. repeat split; auto; lia.
Qed.

(* C02: the invariant of decoder states is kept by every step *)
Lemma v3_dstate_ok_preserved : forall max_size min_chunk st buf,
  dstate_ok st = true -> dstate_ok (sst (decode_step max_size min_chunk st buf)) = true.
Proof.
  intros ms mc st buf Hok. destruct st as [|fb rl|fb rl|n].
  - destruct (step_budget_header ms mc buf) as [E|[[e E]|(fb & h & r & rl & st & c & _ & _ & _ & _ & _ & _ & E & _ & H & _)]].
    + rewrite E. reflexivity.
    + rewrite E. reflexivity.
    + exact H.
  - destruct (step_budget ms mc (Frame fb rl) buf ltac:(discriminate) Hok) as (c & _ & H & _). exact H.
  - destruct (step_budget ms mc (PublishHeader fb rl) buf ltac:(discriminate) Hok) as (c & _ & H & _). exact H.
  - destruct (step_budget ms mc (PublishPayload n) buf ltac:(discriminate) Hok) as (c & _ & H & _). exact H.
Qed.

(* C02: a step consumes a prefix of its buffer -- the buffer it leaves is a suffix of the one it got.
   (No invariant needed.) *)
Lemma v3_step_prefix : forall max_size min_chunk st buf,
  exists consumed, buf = consumed ++ sbuf (decode_step max_size min_chunk st buf).
Proof.
  intros ms mc st buf.
  assert (H : forall st buf, st <> FrameHeader -> exists c, buf = c ++ sbuf (decode_step ms mc st buf)).
  { clear. intros [|fb rl|fb rl|n] src Hst; [congruence| | |]; cbn [decode_step].
    - unfold step_frame. destruct (len src <? rl); [now exists []|]. unfold split_at.
      exists (firstn (N.to_nat rl) src).
      destruct (decode_packet fb _); cbn [sbuf snd]; symmetry; apply firstn_skipn.
    - unfold step_publish_header.
      repeat match goal with
      | |- exists c, _ = c ++ sbuf (_, _, src) => now exists []
      | |- context [if ?c then _ else _] => destruct c
      | |- context [match publish_size ?a ?b with _ => _ end] => destruct (publish_size a b) as [[?|]| |]
      | |- context [match sub_chk ?a ?b with _ => _ end] => destruct (sub_chk a b)
      end.
      all: unfold split_at.
      all: try (exists (firstn (N.to_nat n) src); cbn [sbuf snd]; symmetry; apply firstn_skipn).
      all: destruct (decode_publish_packet _ _ _) as [[pub x]| |];
        try (exists (firstn (N.to_nat n) src); cbn [sbuf snd]; symmetry; apply firstn_skipn).
      all: repeat match goal with
      | |- context [if ?c then _ else _] => destruct c
      | |- context [match sub_chk ?a ?b with _ => _ end] => destruct (sub_chk a b)
      end.
      all: try (exists (firstn (N.to_nat n) src); cbn [sbuf snd]; symmetry; apply firstn_skipn).
      all: eexists (firstn (N.to_nat n) src ++ firstn _ (skipn (N.to_nat n) src)); cbn [sbuf snd];
        rewrite <- app_assoc, !firstn_skipn; reflexivity.
    - unfold step_publish_payload, split_at.
      destruct (_ || _); [|now exists []].
      eexists (firstn _ src).
      destruct (sub_chk _ _); [destruct (0 <? _)| |]; cbn [sbuf snd]; symmetry; apply firstn_skipn. }
  destruct st; try (apply H; discriminate). cbn [decode_step].
  destruct (step_frame_header_cases ms mc buf) as [E|[[e E]|(fb & p & r & rl & -> & _ & _ & _ & E)]];
    rewrite E; try (now exists []).
  destruct (H (if is_publish fb then PublishHeader fb rl else Frame fb rl) r) as [c Hc].
  { destruct (is_publish fb); discriminate. }
  exists (fb :: p ++ c). cbn [app]. rewrite <- app_assoc. now rewrite <- Hc.
Qed.

(* from [Frame fb rl]: as soon as an item or an error comes out, exactly rl bytes are gone *)
Lemma v3_frame_consumes_exactly : forall max_size min_chunk fb rl buf,
  let out := decode_step max_size min_chunk (Frame fb rl) buf in
  sres out <> Ok None ->
  exists body, buf = body ++ sbuf out /\ len body = rl.
Proof.
  intros ms mc fb rl src. cbn zeta. cbn [decode_step]. unfold step_frame.
  destruct (len src <? rl) eqn:E; [cbn; congruence|]. intros _. unfold split_at.
  exists (firstn (N.to_nat rl) src).
  destruct (decode_packet fb _); cbn [sbuf snd]; (split; [symmetry; apply firstn_skipn|lens; lia]).
Qed.

(* C02: the steps of one frame never consume more than its remaining length.  A run of decode calls
   inside a frame; between two calls the transport may have changed the buffer arbitrarily. *)
Inductive frame_steps (ms mc : N) : dstate -> N -> dstate -> Prop :=
| fs_nil st : frame_steps ms mc st 0 st
| fs_cons st buf o st' buf' n st'' :
    st <> FrameHeader ->
    decode_step ms mc st buf = (Ok o, st', buf') ->
    frame_steps ms mc st' n st'' ->
    frame_steps ms mc st (len buf - len buf' + n) st''.

Lemma frame_steps_budget ms mc st n st' :
  frame_steps ms mc st n st' -> dstate_ok st = true -> dstate_ok st' = true /\ n + phi st' = phi st.
Proof.
  induction 1 as [st|st buf o st' buf' n st'' Hst Hs Hr IH]; intros Hok; [split; [auto|lia]|].
  destruct (step_budget ms mc st buf Hst Hok) as (c & Hc & Hd & Hb).
  unfold budget_post in Hb. rewrite Hs in *. cbn [sres sst sbuf fst snd] in *.
  destruct (IH Hd) as [Hok'' Hn]. split; [exact Hok''|].
  rewrite Hc at 1. lens. destruct o as [it|].
  - lia.
  - destruct Hb as [-> ->]. lens. lia.
Qed.

(* the whole frame: fixed header [fb :: h] announcing [rl], then steps until the decoder is back at
   FrameHeader (or anywhere inside the frame): consumed so far + still allowed = |h| + 1 + rl;
   a step that ends in an error consumed at most what was still allowed *)
Lemma v3_consumes_within : forall ms mc buf o st1 buf1 n st2,
  decode_step ms mc FrameHeader buf = (Ok o, st1, buf1) ->
  frame_steps ms mc st1 n st2 ->
  (buf1 = buf /\ st1 = FrameHeader /\ o = None) \/
  exists fb h r rl, buf = fb :: h ++ r /\ dec_vi (h ++ r) = Ok (rl, r) /\
    (len buf - len buf1) + n + phi st2 = 1 + len h + rl /\
    forall bufe e ste bufe', decode_step ms mc st2 bufe = (Err e, ste, bufe') -> st2 <> FrameHeader ->
      (len buf - len buf1) + n + (len bufe - len bufe') <= 1 + len h + rl.
Proof.
  intros ms mc buf o st1 buf1 n st2 Hs Hr.
  destruct (step_budget_header ms mc buf) as
    [E|[[e E]|(fb & h & r & rl & st & c & -> & Hd & Hh & _ & Hrl & Hst & E & Hc & Hok & Hb)]];
    cbn zeta in *.
  - rewrite E in Hs. injection Hs as <- <- <-. left. auto.
  - rewrite E in Hs. discriminate.
  - right. exists fb, h, r, rl. split; [reflexivity|]. split; [exact Hd|].
    rewrite Hs in *. unfold budget_post in Hb. cbn [sres sst sbuf fst snd] in *.
    destruct (frame_steps_budget _ _ _ _ _ Hr Hok) as [Hok2 Hn].
    assert (Hst0 : phi st = rl) by (subst st; destruct (is_publish fb); reflexivity).
    assert (Hcons : len (fb :: h ++ r) - len buf1 + phi st1 = 1 + len h + rl).
    { rewrite Hc. lens. destruct o as [it|]; [lia|]. destruct Hb as [-> ->]. lens. lia. }
    split; [lia|].
    intros bufe e ste bufe' He Hne.
    destruct (step_budget ms mc st2 bufe Hne Hok2) as (ce & Hce & _ & Hbe).
    unfold budget_post in Hbe. rewrite He in *. cbn [sres sst sbuf fst snd] in *.
    destruct Hbe as [Hbe _]. rewrite Hce at 1. lens. lia.
Qed.

(* ------------------------------------------------------------------ complete frames *)
Lemma step_frame_header_complete ms mc fb h r rl : dec_vi (h ++ r) = Ok (rl, r) ->
  step_frame_header ms mc (fb :: h ++ r)
  = if negb (ms =? 0) && (ms <? rl) then (Err DE_MaxSizeExceeded, FrameHeader, fb :: h ++ r)
    else decode_step ms mc (if is_publish fb then PublishHeader fb rl else Frame fb rl) r.
Proof.
  intros Hd. unfold step_frame_header.
  destruct (dec_vi_consumes _ _ _ Hd) as (p & Hp & Hl).
  apply app_inv_tail in Hp. subst p.
  assert (Hl' : 1 <= len h <= 4) by (rewrite <- len_length in Hl; lia).
  replace (len (fb :: h ++ r) <? 2) with false by (lens; lia).
  unfold dec_vi_opt. rewrite Hd.
  destruct (negb (ms =? 0) && (ms <? rl)); [reflexivity|].
  unfold advance. replace (len (fb :: h ++ r) <? len (h ++ r) - len r + 1) with false by (lens; lia).
  replace (N.to_nat (len (h ++ r) - len r + 1)) with (S (N.to_nat (len h))) by (lens; lia).
  cbn [skipn]. rewrite skipn_len_app.
  destruct (is_publish fb); cbn [decode_step]; [reflexivity|].
  unfold step_frame. destruct (len r <? rl); reflexivity.
Qed.

Lemma step_frame_complete ms mc fb rl body rest : len body = rl ->
  decode_step ms mc (Frame fb rl) (body ++ rest)
  = match decode_packet fb body with
    | Ok p => (Ok (Some (IPacket p rl)), FrameHeader, rest)
    | Err e => (Err e, Frame fb rl, rest)
    | Panic s => (Panic s, Frame fb rl, rest)
    end.
Proof.
  intros <-. cbn [decode_step]. unfold step_frame.
  replace (len (body ++ rest) <? len body) with false by (lens; lia).
  rewrite split_at_app. reflexivity.
Qed.

(* ------------------------------------------------------------------ C02: no stall on a complete frame *)
Lemma v3_no_stall_frame : forall ms mc fb rl buf,
  rl <= len buf -> sres (decode_step ms mc (Frame fb rl) buf) <> Ok None.
Proof.
  intros ms mc fb rl src H. cbn [decode_step]. unfold step_frame.
  replace (len src <? rl) with false by lia. destruct (split_at rl src).
  destruct (decode_packet fb b); cbn; discriminate.
Qed.

Lemma v3_no_stall_publish_header : forall ms mc fb rl buf,
  rl <= len buf -> sres (decode_step ms mc (PublishHeader fb rl) buf) <> Ok None.
Proof.
  intros ms mc fb rl src H. cbn [decode_step]. unfold step_publish_header.
  destruct (rl <? 2) eqn:E0; [cbn; discriminate|].
  destruct src as [|a [|b r]]; try (exfalso; lens; lia).
  unfold publish_size. destruct (qos_of_n ((fb / 2) mod 4)) as [q| |]; cbn [bind]; try (cbn; discriminate).
  match goal with |- context [sub_chk rl ?h] => set (hdr := h) end.
  destruct (rl <? hdr) eqn:E1; [cbn; discriminate|].
  replace (len (a :: b :: r) <? hdr) with false by lia.
  rewrite sub_chk_ok by lia. destruct (split_at hdr (a :: b :: r)) as [hd src'].
  destruct (decode_publish_packet hd fb (rl - hdr)) as [[pub x]| |]; try (cbn; discriminate).
  destruct (_ || _); [|cbn; discriminate].
  destruct (split_at _ src') as [pl src'']. destruct (sub_chk _ _); cbn; discriminate.
Qed.

Lemma v3_no_stall_payload : forall ms mc n buf,
  n <= len buf -> len buf <= U32MAX ->
  decode_step ms mc (PublishPayload n) buf
  = (Ok (Some (IChunk (firstn (N.to_nat n) buf) true)), FrameHeader, skipn (N.to_nat n) buf).
Proof.
  intros ms mc n src H Hu. cbn [decode_step]. unfold step_publish_payload.
  rewrite as_u32_small by exact Hu. replace (n <=? len src) with true by lia. cbn [orb].
  replace (N.min (len src) n) with n by lia. unfold split_at.
  rewrite as_u32_small by (lens; lia). rewrite sub_chk_ok by (lens; lia).
  replace (0 <? n - len (firstn (N.to_nat n) src)) with false by (lens; lia). reflexivity.
Qed.

(* the buffer holds the complete frame: the step from FrameHeader does not ask for more data *)
Lemma v3_no_stall : forall ms mc fb h rl body rest,
  dec_vi (h ++ body ++ rest) = Ok (rl, body ++ rest) -> len body = rl ->
  sres (decode_step ms mc FrameHeader (fb :: h ++ body ++ rest)) <> Ok None.
Proof.
  intros ms mc fb h rl body rest Hd Hl. cbn [decode_step].
  rewrite (step_frame_header_complete ms mc fb h (body ++ rest) rl Hd).
  destruct (negb (ms =? 0) && (ms <? rl)); [cbn; discriminate|].
  destruct (is_publish fb).
  - apply v3_no_stall_publish_header. lens. lia.
  - apply v3_no_stall_frame. lens. lia.
Qed.

(* the 32-bit truncation of the buffer length makes the payload state stall on a buffer of exactly
   2^32 bytes even though the whole payload is there *)
Lemma v3_no_stall_payload_refuted : forall ms n, 0 < n -> n <= U32MAX ->
  exists buf, n <= len buf /\
    decode_step ms 0 (PublishPayload n) buf = (Ok None, PublishPayload n, buf).
Proof.
  intros ms n H0 Hn. exists (repeat 0 (N.to_nat U32MOD)).
  assert (L : len (repeat 0 (N.to_nat U32MOD)) = U32MOD) by (rewrite len_repeat; apply N2Nat.id).
  split. { rewrite L. unfold U32MAX, U32MOD in *. lia. }
  cbn [decode_step]. unfold step_publish_payload. rewrite L.
  replace (as_u32 U32MOD) with 0 by reflexivity.
  replace (n <=? 0) with false by lia. reflexivity.
Qed.
