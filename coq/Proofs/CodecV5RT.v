(* Proofs/CodecV5RT.v -- C01 for the MQTT 5 codec model: encode, then one decode_step of the stream decoder
   on the bytes followed by anything, gives the packet back and consumes exactly the frame. *)
From Coq Require Import ZArith ZifyN ZifyBool Lia.
From MV Require Import Base.Prelude Base.Res Base.VarInt Base.Utf8 Model.CodecV5
  Proofs.VarIntProofs Proofs.CodecV5Fields Proofs.CodecV5Size Proofs.CodecV5Limit Proofs.CodecV5Props
  Proofs.CodecV5Round Proofs.CodecV5Round2 Proofs.CodecV5DecBase Proofs.CodecV5Stream.
Ltac Zify.zify_post_hook ::= Z.div_mod_to_equations.

Definition npi_after (p : packet) (npi : bool) : bool :=
  match p with Connect c => negb (c_request_problem_info c) | _ => npi end.

(* a complete non-PUBLISH frame in front of the buffer is decoded in one step *)
Lemma frame_decode_step mi mc npi fb sz w body r p :
  is_frame fb sz w body -> len body = sz -> is_publish fb = false ->
  (mi = 0 \/ sz <= mi) ->
  decode_packet fb body = Ok p ->
  decode_step mi mc npi FrameHeader (w ++ r) = (Ok (Some (DPacket p sz)), FrameHeader, npi_after p npi, r).
Proof.
  intros (vi & Ev & ->) Hl Hp Hm Hd. cbn [decode_step].
  change ((fb :: vi ++ body) ++ r) with (fb :: (vi ++ body) ++ r). rewrite <- app_assoc.
  rewrite (step_frame_header_enc _ _ _ _ _ _ _ Ev).
  replace (negb (mi =? 0) && (mi <? sz)) with false by lia. rewrite Hp.
  rewrite step_frame_eq. rewrite len_app. replace (len body + len r <? sz) with false by lia.
  rewrite <- Hl. rewrite firstn_len_app, skipn_len_app. rewrite Hd. reflexivity.
Qed.

Lemma first_byte_not_publish p : is_publish (first_byte p) = false.
Proof. destruct p; reflexivity. Qed.

(* ------------------------------------------------------------------ kinds with droppable diagnostics *)
Theorem v5_roundtrip_diag_kinds c p w c' mi mc npi r :
  ec_no_problem_info c = false -> diag_packet_ok p = true -> diag_fits p (max_size_of c) ->
  encodev c (EPacket p) = ((w, Ok tt), c') ->
  let sz := packet_encoded_size p (max_size_of c) in
  (mi = 0 \/ sz <= mi) ->
  decode_step mi mc npi FrameHeader (w ++ r) = (Ok (Some (DPacket p sz)), FrameHeader, npi, r).
Proof.
  intros Hn Hok Hfit H sz Hm. apply encodev_packet_inv in H. cbv zeta in H.
  unfold effective in H. rewrite Hn in H. destruct H as (_ & Hs & _ & body & Hf & Hb & Hlen).
  pose proof (max_size_le c) as HL.
  apply diag_core in Hb as (u & rs & _ & _ & Hd & Hfull); [|assumption|assumption|assumption].
  destruct (Hfull Hfit) as [-> ->]. rewrite with_diag_id in Hd by assumption.
  rewrite (frame_decode_step mi mc npi _ _ _ _ r p Hf Hlen (first_byte_not_publish p) Hm Hd).
  destruct p; try discriminate; reflexivity.
Qed.

(* no limit configured: max_out = 0 *)
Lemma max_size_nolimit c : ec_max_out_size c = 0 -> max_size_of c = MAX_PACKET_SIZE.
Proof. intros H. unfold max_size_of. now rewrite H. Qed.

Section NoLimit.
  Variables (c : ecodec) (mi mc : N) (npi : bool).
  Hypothesis Hmax : ec_max_out_size c = 0.
  Hypothesis Hnpi : ec_no_problem_info c = false.

  Definition rt_statement (p : packet) : Prop :=
    forall w c' r, encodev c (EPacket p) = ((w, Ok tt), c') ->
      let sz := packet_encoded_size p MAX_PACKET_SIZE in
      (mi = 0 \/ sz <= mi) ->
      decode_step mi mc npi FrameHeader (w ++ r) = (Ok (Some (DPacket p sz)), FrameHeader, npi_after p npi, r).

  Lemma rt_diag p : diag_packet_ok p = true -> diag_fits p MAX_PACKET_SIZE -> rt_statement p.
  Proof.
    intros Hok Hfit w c' r H sz Hm. subst sz. rewrite <- (max_size_nolimit c Hmax) in *.
    rewrite (v5_roundtrip_diag_kinds c p w c' mi mc npi r Hnpi Hok Hfit H Hm).
    destruct p; try discriminate; reflexivity.
  Qed.

  Theorem v5_roundtrip_publish_ack a :
    publish_ack_ok a = true -> 11 + diag_size (pa_properties a) (pa_reason_string a) <= MAX_PACKET_SIZE ->
    rt_statement (PublishAck a) /\ rt_statement (PublishReceived a).
  Proof. intros; split; apply rt_diag; assumption. Qed.
  Theorem v5_roundtrip_publish_ack2 a :
    publish_ack2_ok a = true -> 11 + diag_size (pa2_properties a) (pa2_reason_string a) <= MAX_PACKET_SIZE ->
    rt_statement (PublishRelease a) /\ rt_statement (PublishComplete a).
  Proof. intros; split; apply rt_diag; assumption. Qed.
  Theorem v5_roundtrip_disconnect d :
    disconnect_ok d = true -> diag_fits (Disconnect d) MAX_PACKET_SIZE -> rt_statement (Disconnect d).
  Proof. intros; apply rt_diag; assumption. Qed.
  Theorem v5_roundtrip_auth a :
    auth_ok a = true -> diag_fits (Auth a) MAX_PACKET_SIZE -> rt_statement (Auth a).
  Proof. intros; apply rt_diag; assumption. Qed.
  Theorem v5_roundtrip_subscribe_ack a :
    subscribe_ack_ok a = true ->
    6 + len (sa_status a) + diag_size (sa_properties a) (sa_reason_string a) <= MAX_PACKET_SIZE ->
    rt_statement (SubscribeAck a).
  Proof. intros; apply rt_diag; assumption. Qed.
  Theorem v5_roundtrip_unsubscribe_ack a :
    unsubscribe_ack_ok a = true ->
    6 + len (ua_status a) + diag_size (ua_properties a) (ua_reason_string a) <= MAX_PACKET_SIZE ->
    rt_statement (UnsubscribeAck a).
  Proof. intros; apply rt_diag; assumption. Qed.
  Theorem v5_roundtrip_connect_ack a :
    connect_ack_ok a = true -> diag_fits (ConnectAck a) MAX_PACKET_SIZE -> rt_statement (ConnectAck a).
  Proof. intros; apply rt_diag; assumption. Qed.

  Theorem v5_roundtrip_ping : rt_statement PingRequest /\ rt_statement PingResponse.
  Proof.
    split; intros w c' r H sz Hm; subst sz; apply encodev_packet_inv in H; cbv zeta in H;
      unfold effective in H; rewrite Hnpi in H; destruct H as (_ & Hs & _ & body & Hf & Hb & Hlen);
      rewrite (max_size_nolimit c Hmax) in *;
      eapply frame_decode_step; eauto.
  Qed.
End NoLimit.

(* ------------------------------------------------------------------ SUBSCRIBE / UNSUBSCRIBE *)
Theorem v5_roundtrip_subscribe_gen c s w c' mi mc npi r :
  ec_no_problem_info c = false -> subscribe_ok s = true ->
  encodev c (EPacket (Subscribe s)) = ((w, Ok tt), c') ->
  let sz := subscribe_encoded_size s (max_size_of c) in
  (mi = 0 \/ sz <= mi) ->
  decode_step mi mc npi FrameHeader (w ++ r) = (Ok (Some (DPacket (Subscribe s) sz)), FrameHeader, npi, r).
Proof.
  intros Hn Hok H sz Hm. apply encodev_packet_inv in H. cbv zeta in H.
  unfold effective in H. rewrite Hn in H. destruct H as (_ & Hs & _ & body & Hf & Hb & Hlen).
  pose proof (max_size_le c) as HL. cbn [body_encode packet_encoded_size first_byte] in *.
  apply (subscribe_roundtrip s (max_size_of c)) in Hb; [|lia|assumption].
  eapply (frame_decode_step mi mc npi _ _ _ _ r (Subscribe s) Hf Hlen); [reflexivity|exact Hm|].
  rewrite decode_packet_subscribe, Hb. reflexivity.
Qed.

Theorem v5_roundtrip_unsubscribe_gen c u w c' mi mc npi r :
  ec_no_problem_info c = false -> unsubscribe_ok u = true ->
  encodev c (EPacket (Unsubscribe u)) = ((w, Ok tt), c') ->
  let sz := unsubscribe_encoded_size u (max_size_of c) in
  (mi = 0 \/ sz <= mi) ->
  decode_step mi mc npi FrameHeader (w ++ r) = (Ok (Some (DPacket (Unsubscribe u) sz)), FrameHeader, npi, r).
Proof.
  intros Hn Hok H sz Hm. apply encodev_packet_inv in H. cbv zeta in H.
  unfold effective in H. rewrite Hn in H. destruct H as (_ & Hs & _ & body & Hf & Hb & Hlen).
  pose proof (max_size_le c) as HL. cbn [body_encode packet_encoded_size first_byte] in *.
  apply (unsubscribe_roundtrip u (max_size_of c)) in Hb; [|lia|assumption].
  eapply (frame_decode_step mi mc npi _ _ _ _ r (Unsubscribe u) Hf Hlen); [reflexivity|exact Hm|].
  rewrite decode_packet_unsubscribe, Hb. reflexivity.
Qed.

(* ------------------------------------------------------------------ PUBLISH: the frame head written by
   Encoded::Publish (with or without an inline part of the payload), followed by the rest of the payload *)
Theorem v5_roundtrip_publish c p buf w c' more r mi mc npi :
  publish_ok p = true ->
  encodev c (EPublish p buf) = ((w, Ok tt), c') ->
  len (inline_payload buf ++ more) = p_payload_size p ->
  let sz := publish_encoded_size p (max_size_of c) in
  (mi = 0 \/ sz <= mi) ->
  decode_step mi mc npi FrameHeader (w ++ more ++ r) =
    (Ok (Some (DPublish p (inline_payload buf ++ more) sz)), FrameHeader, npi, r).
Proof.
  intros Hok H Hpl sz Hm. apply encodev_publish_inv in H. cbv zeta in H. fold sz in H.
  destruct H as (Hs & _ & _ & _ & _ & _ & body & (vi & Ev & ->) & Hlen & Hb).
  pose proof (max_size_le c) as HL.
  assert (Hq : p_qos p <= 2).
  { unfold publish_ok in Hok. apply andb_true_iff in Hok as [Hok _]. apply andb_true_iff in Hok as [Hok _].
    apply andb_true_iff in Hok as [_ Hq]. now apply mem3. }
  set (payload := inline_payload buf ++ more) in *.
  assert (Esrc : (publish_first_byte p :: vi ++ body ++ inline_payload buf) ++ more ++ r =
                 publish_first_byte p :: vi ++ (body ++ payload ++ r)).
  { unfold payload. cbn [app]. now rewrite <- !app_assoc. }
  rewrite Esrc. cbn [decode_step]. rewrite (step_frame_header_enc _ _ _ _ _ _ _ Ev).
  replace (negb (mi =? 0) && (mi <? sz)) with false by lia.
  rewrite is_publish_first_byte by assumption.
  rewrite step_publish_header_eq.
  rewrite (publish_header_size p (max_size_of c) body (payload ++ r) sz); [|fold sz; lia|assumption|exact Hb|lia].
  rewrite step_publish_properties_eq. cbv zeta.
  rewrite len_app. replace (len body + len (payload ++ r) <? len body) with false by lia.
  replace (len body <=? sz) with true by lia.
  rewrite firstn_len_app, skipn_len_app.
  replace (sz - len body) with (p_payload_size p) by lia.
  rewrite (publish_roundtrip p (max_size_of c) body); [|fold sz; lia|assumption|exact Hb].
  rewrite len_app. replace ((p_payload_size p <=? len payload + len r) || (mc =? 0) || (mc <=? len payload + len r))
    with true by lia.
  replace (N.min (len payload + len r) (p_payload_size p)) with (len payload) by lia.
  rewrite firstn_len_app, skipn_len_app.
  replace (0 <? p_payload_size p - len payload) with false by lia. reflexivity.
Qed.

Section NoLimit2.
  Variables (c : ecodec) (mi mc : N) (npi : bool).
  Hypothesis Hmax : ec_max_out_size c = 0.
  Hypothesis Hnpi : ec_no_problem_info c = false.

  Theorem v5_roundtrip_subscribe s : subscribe_ok s = true -> rt_statement c mi mc npi (Subscribe s).
  Proof.
    intros Hok w c' r H sz Hm. subst sz. rewrite <- (max_size_nolimit c Hmax) in *.
    now apply (v5_roundtrip_subscribe_gen c s w c').
  Qed.
  Theorem v5_roundtrip_unsubscribe u : unsubscribe_ok u = true -> rt_statement c mi mc npi (Unsubscribe u).
  Proof.
    intros Hok w c' r H sz Hm. subst sz. rewrite <- (max_size_nolimit c Hmax) in *.
    now apply (v5_roundtrip_unsubscribe_gen c u w c').
  Qed.
End NoLimit2.

(* ------------------------------------------------------------------ CONNECT *)
Theorem v5_roundtrip_connect_gen c k w c' mi mc npi r :
  connect_ok k = true ->
  encodev c (EPacket (Connect k)) = ((w, Ok tt), c') ->
  let sz := connect_encoded_size k (max_size_of c) in
  (mi = 0 \/ sz <= mi) ->
  decode_step mi mc npi FrameHeader (w ++ r) =
    (Ok (Some (DPacket (Connect k) sz)), FrameHeader, negb (c_request_problem_info k), r).
Proof.
  intros Hok H sz Hm. apply encodev_packet_inv in H. cbv zeta in H.
  assert (He : effective c (Connect k) = Connect k) by (unfold effective; destruct (ec_no_problem_info c); reflexivity).
  rewrite He in H. destruct H as (_ & Hs & _ & body & Hf & Hb & Hlen).
  pose proof (max_size_le c) as HL. cbn [body_encode packet_encoded_size first_byte] in *.
  apply (connect_roundtrip k (max_size_of c)) in Hb; [|lia|assumption].
  eapply (frame_decode_step mi mc npi _ _ _ _ r (Connect k) Hf Hlen); [reflexivity|exact Hm|].
  rewrite decode_packet_connect, Hb. reflexivity.
Qed.

Theorem v5_roundtrip_connect c mi mc npi k :
  ec_max_out_size c = 0 -> connect_ok k = true -> rt_statement c mi mc npi (Connect k).
Proof.
  intros Hmax Hok w c' r H sz Hm. subst sz. rewrite <- (max_size_nolimit c Hmax) in *.
  now apply (v5_roundtrip_connect_gen c k w c').
Qed.

(* every packet kind, no limit configured *)
Definition packet_ok (p : packet) : Prop :=
  match p with
  | Connect k => connect_ok k = true
  | Subscribe s => subscribe_ok s = true
  | Unsubscribe u => unsubscribe_ok u = true
  | PingRequest | PingResponse => True
  | _ => diag_packet_ok p = true /\ diag_fits p MAX_PACKET_SIZE
  end.

Theorem v5_roundtrip c mi mc npi p :
  ec_max_out_size c = 0 -> ec_no_problem_info c = false -> packet_ok p -> rt_statement c mi mc npi p.
Proof.
  intros Hmax Hnpi Hok. destruct p; cbn [packet_ok] in Hok;
    try (apply rt_diag; tauto).
  - now apply v5_roundtrip_connect.
  - now apply v5_roundtrip_subscribe.
  - now apply v5_roundtrip_unsubscribe.
  - now apply v5_roundtrip_ping.
  - now apply v5_roundtrip_ping.
Qed.
