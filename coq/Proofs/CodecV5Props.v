(* Proofs/CodecV5Props.v -- property blocks: the table-driven parser against an "items" view
   (list of (identifier, value) in wire order), field round trips, bag getters. *)
From Coq Require Import ZArith ZifyN ZifyBool Lia.
From MV Require Import Base.Prelude Base.Res Base.VarInt Base.Utf8 Model.CodecV5
  Proofs.VarIntProofs Proofs.CodecV5Fields.
Ltac Zify.zify_post_hook ::= Z.div_mod_to_equations.

(* ------------------------------------------------------------------ wire forms *)
Definition b_u16 (n : N) : bytes := [n / 256; n mod 256].
Definition b_u32 (n : N) : bytes := [n / 16777216; (n / 65536) mod 256; (n / 256) mod 256; n mod 256].
Definition b_str (b : bytes) : bytes := len b / 256 :: len b mod 256 :: b.
Definition b_vi (n : N) : bytes := match enc_vi n with Some b => b | None => [] end.

Lemma len_b_str b : len (b_str b) = 2 + len b.
Proof. unfold b_str. rewrite !len_cons. lia. Qed.

Lemma dec_u16_b n r : n < 65536 -> dec_u16 (b_u16 n ++ r) = Ok (n, r).
Proof. intros. cbn. f_equal. f_equal. lia. Qed.
Lemma dec_nz16_b n r : 0 < n < 65536 -> dec_nz16 (b_u16 n ++ r) = Ok (n, r).
Proof. intros. unfold dec_nz16. rewrite dec_u16_b by lia. cbn. replace (n =? 0) with false by lia. reflexivity. Qed.
Lemma dec_u32_b n r : n < 4294967296 -> dec_u32 (b_u32 n ++ r) = Ok (n, r).
Proof. intros. cbn. f_equal. f_equal. lia. Qed.
Lemma dec_nz32_b n r : 0 < n < 4294967296 -> dec_nz32 (b_u32 n ++ r) = Ok (n, r).
Proof. intros. unfold dec_nz32. rewrite dec_u32_b by lia. cbn. replace (n =? 0) with false by lia. reflexivity. Qed.
Lemma dec_bytes_b b r : len b <= 65535 -> dec_bytes (b_str b ++ r) = Ok (b, r).
Proof.
  intros. unfold dec_bytes, b_str. cbn [app dec_u16 bind].
  replace (len b / 256 * 256 + len b mod 256) with (len b) by lia.
  rewrite len_app. replace (len b + len r <? len b) with false by lia.
  now rewrite split_to_app.
Qed.
Lemma dec_string_b b r : len b <= 65535 -> utf8_valid b = true -> dec_string (b_str b ++ r) = Ok (b, r).
Proof. intros H U. unfold dec_string. rewrite dec_bytes_b by assumption. cbn. now rewrite U. Qed.
Lemma dec_vi_b n r : n <= VI_MAX -> dec_vi (b_vi n ++ r) = Ok (n, r).
Proof. intros H. unfold b_vi. destruct (enc_vi_some n H) as [b E]. rewrite E. now apply varint_roundtrip. Qed.
Lemma len_b_vi n : n <= VI_MAX -> len (b_vi n) = var_int_len n.
Proof. intros H. unfold b_vi. destruct (enc_vi_some n H) as [b E]. rewrite E. now apply enc_vi_len. Qed.
Lemma enc_vi_b_vi n b : enc_vi n = Some b -> b_vi n = b.
Proof. unfold b_vi. now intros ->. Qed.

Definition str_ok (b : bytes) : bool := (len b <=? 65535) && utf8_valid b.
Definition bin_ok (b : bytes) : bool := len b <=? 65535.

(* ------------------------------------------------------------------ property values *)
Definition enc_pval (k : pkind) (v : pval) : bytes :=
  match k, v with
  | (KBool | KQoS), VN n => [n]
  | (KU16 | KNZ16), VN n => b_u16 n
  | (KU32 | KNZ32), VN n => b_u32 n
  | (KBytes | KStr), VB b => b_str b
  | KVarNZ, VN n => b_vi n
  | KPair, VP a b => b_str a ++ b_str b
  | _, _ => []
  end.

Definition pval_ok (k : pkind) (v : pval) : bool :=
  match k, v with
  | KBool, VN n => n <=? 1
  | KQoS, VN n => qos_ok n
  | KU16, VN n => n <? 65536
  | KNZ16, VN n => (0 <? n) && (n <? 65536)
  | KU32, VN n => n <? 4294967296
  | KNZ32, VN n => (0 <? n) && (n <? 4294967296)
  | KBytes, VB b => bin_ok b
  | KStr, VB b => str_ok b
  | KVarNZ, VN n => (0 <? n) && (n <=? VI_MAX)
  | KPair, VP a b => str_ok a && str_ok b
  | _, _ => false
  end.

Lemma dec_pval_enc k v r : pval_ok k v = true -> dec_pval k (enc_pval k v ++ r) = Ok (v, r).
Proof.
  destruct k, v; cbn [pval_ok enc_pval dec_pval]; try discriminate; intros H.
  - cbn. replace (n <=? 1) with true by lia. cbn.
    assert (n = 0 \/ n = 1) as [-> | ->] by lia; reflexivity.
  - rewrite dec_u16_b by lia. reflexivity.
  - rewrite dec_u32_b by lia. reflexivity.
  - rewrite dec_nz16_b by lia. reflexivity.
  - rewrite dec_nz32_b by lia. reflexivity.
  - unfold bin_ok in H. rewrite dec_bytes_b by lia. reflexivity.
  - unfold str_ok in H. apply andb_true_iff in H as [H1 H2]. rewrite dec_string_b by (assumption || lia). reflexivity.
  - cbn [app]. now rewrite H.
  - rewrite dec_vi_b by lia. cbn. replace (n =? 0) with false by lia. reflexivity.
  - apply andb_true_iff in H as [H1 H2]. unfold str_ok in *.
    apply andb_true_iff in H1 as [? ?]. apply andb_true_iff in H2 as [? ?].
    unfold dec_uprop. rewrite <- app_assoc. rewrite dec_string_b by (assumption || lia). cbn [bind].
    rewrite dec_string_b by (assumption || lia). reflexivity.
Qed.

(* ------------------------------------------------------------------ items *)
Definition tkind (tbl : ptable) (id : N) : pkind :=
  match tbl id with Some (k, _) => k | None => KBool end.

Definition enc_item (tbl : ptable) (e : N * pval) : bytes := fst e :: enc_pval (tkind tbl (fst e)) (snd e).
Definition enc_items (tbl : ptable) (its : pbag) : bytes := flat_map (enc_item tbl) its.

Lemma enc_items_app tbl a b : enc_items tbl (a ++ b) = enc_items tbl a ++ enc_items tbl b.
Proof. apply flat_map_app. Qed.
Lemma enc_items_nil tbl : enc_items tbl [] = [].
Proof. reflexivity. Qed.
Lemma enc_items_cons tbl e r : enc_items tbl (e :: r) = enc_item tbl e ++ enc_items tbl r.
Proof. reflexivity. Qed.

(* [seen]: identifiers met so far (any superset) *)
Fixpoint items_wf (tbl : ptable) (seen : list N) (its : pbag) : bool :=
  match its with
  | [] => true
  | (id, v) :: r =>
    match tbl id with
    | Some (k, once) => negb (once && mem seen id) && pval_ok k v && items_wf tbl (id :: seen) r
    | None => false
    end
  end.

Lemma mem_incl a b id : incl a b -> mem a id = true -> mem b id = true.
Proof.
  unfold mem. intros Hi H. apply existsb_exists in H as (x & Hx & E). apply existsb_exists. exists x. auto.
Qed.

Lemma items_wf_mono tbl its : forall seen seen', incl seen seen' ->
  items_wf tbl seen' its = true -> items_wf tbl seen its = true.
Proof.
  induction its as [|[id v] r IH]; intros seen seen' Hi; cbn [items_wf]; [auto|].
  destruct (tbl id) as [[k once]|]; [|auto]. intros H.
  apply andb_true_iff in H as [H H3]. apply andb_true_iff in H as [H1 H2].
  rewrite H2. rewrite (IH (id :: seen) (id :: seen')); [|intros x [<-|Hx]; [now left|right; now apply Hi]|assumption].
  rewrite andb_true_r. destruct once; [|reflexivity]. cbn [andb] in *.
  destruct (mem seen id) eqn:E; [|reflexivity]. rewrite (mem_incl _ _ _ Hi E) in H1. discriminate.
Qed.

Lemma bag_has_mem id acc : bag_has id acc = mem (map fst acc) id.
Proof.
  unfold bag_has, mem. induction acc as [|e r IH]; [reflexivity|]. cbn [existsb map]. rewrite IH.
  now rewrite N.eqb_sym.
Qed.

Lemma parse_props_enc tbl its : forall fuel acc,
  items_wf tbl (map fst acc) its = true ->
  (length (enc_items tbl its) <= fuel)%nat ->
  parse_props fuel tbl acc (enc_items tbl its) = Ok (rev acc ++ its).
Proof.
  induction its as [|[id v] r IH]; intros fuel acc Hwf Hf.
  - cbn. destruct fuel; now rewrite app_nil_r.
  - rewrite enc_items_cons in *. unfold enc_item in *. cbn [fst snd] in *. cbn [items_wf] in Hwf.
    unfold tkind in *. destruct (tbl id) as [[k once]|] eqn:Et; [|discriminate].
    apply andb_true_iff in Hwf as [H H3]. apply andb_true_iff in H as [H1 H2].
    cbn [app] in *. destruct fuel as [|f]; [cbn [length] in Hf; lia|].
    cbn [parse_props]. rewrite Et. rewrite bag_has_mem. rewrite H1. cbn [ensure bind].
    rewrite dec_pval_enc by assumption. cbn [bind].
    rewrite (IH f ((id, v) :: acc)); [|exact H3|cbn [length] in Hf; rewrite app_length in Hf; lia].
    cbn [rev]. now rewrite <- app_assoc.
Qed.

Lemma props_of_enc tbl its : items_wf tbl [] its = true -> props_of tbl (enc_items tbl its) = Ok its.
Proof. intros H. unfold props_of. now rewrite (parse_props_enc tbl its _ []). Qed.

(* take_properties on an encoded block *)
Lemma take_properties_enc n vi blk r :
  enc_vi n = Some vi -> len blk = n -> take_properties (vi ++ blk ++ r) = Ok (blk, r).
Proof.
  intros E L. unfold take_properties. rewrite (varint_roundtrip _ _ _ E). cbn [bind].
  rewrite len_app. replace (len blk + len r <? n) with false by lia. now rewrite split_to_app.
Qed.

(* ------------------------------------------------------------------ typed optional items *)
Definition oitem (id : N) (o : option pval) : pbag := match o with Some v => [(id, v)] | None => [] end.
Definition oitemN (id : N) (o : option N) : pbag := oitem id (option_map VN o).
Definition oitemB (id : N) (o : option bytes) : pbag := oitem id (option_map VB o).
Definition upair (p : uprop) : N * pval := (P_USER, VP (fst p) (snd p)).
Definition uitems (l : uprops) : pbag := map upair l.
Definition sitems (l : list N) : pbag := map (fun i => (P_SUB_ID, VN i)) l.

(* a successful writer wrote the encoding of these items *)
Definition wits (tbl : ptable) (w : wr) (its : pbag) : Prop :=
  forall bs, w = (bs, Ok tt) -> bs = enc_items tbl its.

Lemma wits_then tbl a b i1 i2 : wits tbl a i1 -> wits tbl b i2 -> wits tbl (a >>> b) (i1 ++ i2).
Proof.
  intros Ha Hb bs H. apply wseq_inv in H as (x & y & E1 & E2 & ->).
  rewrite enc_items_app. now rewrite (Ha _ E1), (Hb _ E2).
Qed.
Lemma wits_nop tbl : wits tbl wnop [].
Proof. intros bs [= <-]. reflexivity. Qed.
Lemma wits_eq tbl w i1 i2 : wits tbl w i1 -> i1 = i2 -> wits tbl w i2.
Proof. now intros H <-. Qed.

Lemma wits_prop_u16 tbl o pt once k : tbl pt = Some (k, once) -> (k = KU16 \/ k = KNZ16) ->
  wits tbl (w_prop w_u16 o pt) (oitemN pt o).
Proof.
  intros Et Hk bs H. destruct o as [n|]; cbn [w_prop] in H; [|now apply wnop_inv in H].
  cbn in H. injection H as <-. cbn. unfold enc_item, tkind. cbn [fst snd]. rewrite Et.
  destruct Hk as [-> | ->]; reflexivity.
Qed.
Lemma wits_prop_u32 tbl o pt once k : tbl pt = Some (k, once) -> (k = KU32 \/ k = KNZ32) ->
  wits tbl (w_prop w_u32 o pt) (oitemN pt o).
Proof.
  intros Et Hk bs H. destruct o as [n|]; cbn [w_prop] in H; [|now apply wnop_inv in H].
  cbn in H. injection H as <-. cbn. unfold enc_item, tkind. cbn [fst snd]. rewrite Et.
  destruct Hk as [-> | ->]; reflexivity.
Qed.
Lemma wits_prop_bool tbl o pt once : tbl pt = Some (KBool, once) ->
  wits tbl (w_prop w_bool o pt) (oitemN pt (option_map b2n o)).
Proof.
  intros Et bs H. destruct o as [n|]; cbn [w_prop] in H; [|now apply wnop_inv in H].
  cbn in H. injection H as <-. cbn. unfold enc_item, tkind. cbn [fst snd]. rewrite Et. reflexivity.
Qed.
Lemma wits_prop_bytes tbl o pt once k : tbl pt = Some (k, once) -> (k = KBytes \/ k = KStr) ->
  wits tbl (w_prop w_bytes o pt) (oitemB pt o).
Proof.
  intros Et Hk bs H. destruct o as [b|]; cbn [w_prop] in H; [|now apply wnop_inv in H].
  apply wseq_inv in H as (x & y & E1 & E2 & ->). apply wput_inv in E1. subst x.
  apply w_bytes_inv in E2 as [_ ->]. cbn. unfold enc_item, tkind. cbn [fst snd]. rewrite Et.
  rewrite app_nil_r. destruct Hk as [-> | ->]; reflexivity.
Qed.
Lemma wits_propd_u16 tbl d v pt once k : tbl pt = Some (k, once) -> (k = KU16 \/ k = KNZ16) ->
  wits tbl (w_prop_default w_u16 d v pt) (oitemN pt (if d then None else Some v)).
Proof.
  intros Et Hk bs H. unfold w_prop_default in H. destruct d; [now apply wnop_inv in H|].
  cbn in H. injection H as <-. cbn. unfold enc_item, tkind. cbn [fst snd]. rewrite Et.
  destruct Hk as [-> | ->]; reflexivity.
Qed.
Lemma wits_propd_u32 tbl d v pt once k : tbl pt = Some (k, once) -> (k = KU32 \/ k = KNZ32) ->
  wits tbl (w_prop_default w_u32 d v pt) (oitemN pt (if d then None else Some v)).
Proof.
  intros Et Hk bs H. unfold w_prop_default in H. destruct d; [now apply wnop_inv in H|].
  cbn in H. injection H as <-. cbn. unfold enc_item, tkind. cbn [fst snd]. rewrite Et.
  destruct Hk as [-> | ->]; reflexivity.
Qed.
Lemma wits_propd_bool tbl d v pt once : tbl pt = Some (KBool, once) ->
  wits tbl (w_prop_default w_bool d v pt) (oitemN pt (if d then None else Some (b2n v))).
Proof.
  intros Et bs H. unfold w_prop_default in H. destruct d; [now apply wnop_inv in H|].
  cbn in H. injection H as <-. cbn. unfold enc_item, tkind. cbn [fst snd]. rewrite Et. reflexivity.
Qed.
Lemma wits_uprops tbl l once : tbl P_USER = Some (KPair, once) -> wits tbl (w_uprops l) (uitems l).
Proof.
  intros Et. induction l as [|p r IH]; cbn [w_uprops uitems map]; [apply wits_nop|].
  intros bs H. apply wseq_inv in H as (x & y & E1 & E2 & ->). apply wput_inv in E1. subst x.
  apply wseq_inv in E2 as (x & y' & E1 & E2 & ->). apply IH in E2. subst y'.
  unfold w_uprop in E1. apply wseq_inv in E1 as (a & b & Ea & Eb & ->).
  apply w_bytes_inv in Ea as [_ ->]. apply w_bytes_inv in Eb as [_ ->].
  rewrite enc_items_cons. change (map upair r) with (uitems r). rewrite app_assoc. f_equal.
  unfold enc_item, tkind, upair. cbn [fst snd]. rewrite Et. reflexivity.
Qed.
Lemma wits_sub_id tbl id once : tbl P_SUB_ID = Some (KVarNZ, once) -> wits tbl (w_sub_id id) [(P_SUB_ID, VN id)].
Proof.
  intros Et bs H. unfold w_sub_id in H. destruct (MAX_PACKET_SIZE <? id); [discriminate|].
  apply wseq_inv in H as (x & y & E1 & E2 & ->). apply wput_inv in E1. subst x. apply w_vi_inv in E2.
  cbn. unfold enc_item, tkind. cbn [fst snd]. rewrite Et. cbn [enc_pval]. rewrite (enc_vi_b_vi _ _ E2).
  now rewrite app_nil_r.
Qed.
Lemma wits_sub_ids tbl l once : tbl P_SUB_ID = Some (KVarNZ, once) -> wits tbl (w_sub_ids l) (sitems l).
Proof.
  intros Et. induction l as [|p r IH]; cbn [w_sub_ids sitems map]; [apply wits_nop|].
  change ((P_SUB_ID, VN p) :: map (fun i => (P_SUB_ID, VN i)) r) with ([(P_SUB_ID, VN p)] ++ sitems r).
  apply wits_then; [eapply wits_sub_id; eassumption|exact IH].
Qed.

(* ------------------------------------------------------------------ bag getters over blocks *)
Lemma bag_n_oitemN id id' o rest :
  bag_n id (oitemN id' o ++ rest) =
  if id' =? id then match o with Some n => Some n | None => bag_n id rest end else bag_n id rest.
Proof. destruct o; cbn; destruct (id' =? id); reflexivity. Qed.
Lemma bag_n_oitemB id id' o rest : bag_n id (oitemB id' o ++ rest) = bag_n id rest.
Proof. destruct o; reflexivity. Qed.
Lemma bag_n_uitems id l rest : bag_n id (uitems l ++ rest) = bag_n id rest.
Proof. induction l; [reflexivity|]. cbn. exact IHl. Qed.
Lemma bag_n_sitems id l rest : (P_SUB_ID =? id) = false -> bag_n id (sitems l ++ rest) = bag_n id rest.
Proof. intros E. induction l; [reflexivity|]. cbn. rewrite E. exact IHl. Qed.
Lemma bag_n_nil id : bag_n id [] = None.
Proof. reflexivity. Qed.

Lemma bag_b_oitemB id id' o rest :
  bag_b id (oitemB id' o ++ rest) =
  if id' =? id then match o with Some n => Some n | None => bag_b id rest end else bag_b id rest.
Proof. destruct o; cbn; destruct (id' =? id); reflexivity. Qed.
Lemma bag_b_oitemN id id' o rest : bag_b id (oitemN id' o ++ rest) = bag_b id rest.
Proof. destruct o; reflexivity. Qed.
Lemma bag_b_uitems id l rest : bag_b id (uitems l ++ rest) = bag_b id rest.
Proof. induction l; [reflexivity|]. cbn. exact IHl. Qed.
Lemma bag_b_sitems id l rest : bag_b id (sitems l ++ rest) = bag_b id rest.
Proof. induction l; [reflexivity|]. cbn. exact IHl. Qed.
Lemma bag_b_nil id : bag_b id [] = None.
Proof. reflexivity. Qed.

Lemma bag_pairs_oitemN id id' o rest : bag_pairs id (oitemN id' o ++ rest) = bag_pairs id rest.
Proof. destruct o; reflexivity. Qed.
Lemma bag_pairs_oitemB id id' o rest : bag_pairs id (oitemB id' o ++ rest) = bag_pairs id rest.
Proof. destruct o; reflexivity. Qed.
Lemma bag_pairs_uitems l rest : bag_pairs P_USER (uitems l ++ rest) = l ++ bag_pairs P_USER rest.
Proof.
  induction l as [|[a b] l IH]; [reflexivity|]. cbn [uitems map app]. unfold upair at 1.
  cbn [fst snd bag_pairs]. rewrite N.eqb_refl. change (map upair l) with (uitems l). now rewrite IH.
Qed.
Lemma bag_pairs_sitems id l rest : bag_pairs id (sitems l ++ rest) = bag_pairs id rest.
Proof. induction l; [reflexivity|]. cbn. exact IHl. Qed.
Lemma bag_pairs_nil id : bag_pairs id [] = [].
Proof. reflexivity. Qed.

Lemma bag_ns_oitemN id id' o rest :
  bag_ns id (oitemN id' o ++ rest) =
  if id' =? id then match o with Some n => n :: bag_ns id rest | None => bag_ns id rest end else bag_ns id rest.
Proof. destruct o; cbn; destruct (id' =? id); reflexivity. Qed.
Lemma bag_ns_oitemB id id' o rest : bag_ns id (oitemB id' o ++ rest) = bag_ns id rest.
Proof. destruct o; reflexivity. Qed.
Lemma bag_ns_uitems id l rest : bag_ns id (uitems l ++ rest) = bag_ns id rest.
Proof. induction l; [reflexivity|]. cbn. exact IHl. Qed.
Lemma bag_ns_sitems l rest : bag_ns P_SUB_ID (sitems l ++ rest) = l ++ bag_ns P_SUB_ID rest.
Proof.
  induction l as [|a l IH]; [reflexivity|]. cbn [sitems map app bag_ns]. rewrite N.eqb_refl.
  change (map (fun i => (P_SUB_ID, VN i)) l) with (sitems l). now rewrite IH.
Qed.
Lemma bag_ns_nil id : bag_ns id [] = [].
Proof. reflexivity. Qed.

Lemma bag_bool_eq id b : bag_bool id b = option_map (fun n => n =? 1) (bag_n id b).
Proof. unfold bag_bool. destruct (bag_n id b); reflexivity. Qed.

(* ------------------------------------------------------------------ well-formedness of blocks *)
Lemma wf_nil tbl seen : items_wf tbl seen [] = true.
Proof. reflexivity. Qed.

Lemma wf_oitem tbl seen id o rest k once :
  tbl id = Some (k, once) -> (once && mem seen id) = false ->
  (forall v, o = Some v -> pval_ok k v = true) ->
  items_wf tbl (id :: seen) rest = true ->
  items_wf tbl seen (oitem id o ++ rest) = true.
Proof.
  intros Et Hm Hv Hr. destruct o as [v|]; cbn [oitem app].
  - cbn [items_wf]. rewrite Et, Hm, (Hv v eq_refl), Hr. reflexivity.
  - eapply items_wf_mono; [|exact Hr]. apply incl_tl, incl_refl.
Qed.

Lemma wf_oitemN tbl seen id o rest k once :
  tbl id = Some (k, once) -> (once && mem seen id) = false ->
  (forall n, o = Some n -> pval_ok k (VN n) = true) ->
  items_wf tbl (id :: seen) rest = true ->
  items_wf tbl seen (oitemN id o ++ rest) = true.
Proof.
  intros Et Hm Hv Hr. unfold oitemN. eapply wf_oitem; eauto.
  intros v E. destruct o; [|discriminate]. injection E as <-. auto.
Qed.
Lemma wf_oitemB tbl seen id o rest k once :
  tbl id = Some (k, once) -> (once && mem seen id) = false ->
  (forall n, o = Some n -> pval_ok k (VB n) = true) ->
  items_wf tbl (id :: seen) rest = true ->
  items_wf tbl seen (oitemB id o ++ rest) = true.
Proof.
  intros Et Hm Hv Hr. unfold oitemB. eapply wf_oitem; eauto.
  intros v E. destruct o; [|discriminate]. injection E as <-. auto.
Qed.

Definition uprop_ok (p : uprop) : bool := str_ok (fst p) && str_ok (snd p).
Definition uprops_ok (l : uprops) : bool := forallb uprop_ok l.

Lemma wf_uitems tbl seen l rest :
  tbl P_USER = Some (KPair, false) -> uprops_ok l = true ->
  items_wf tbl (P_USER :: seen) rest = true ->
  items_wf tbl seen (uitems l ++ rest) = true.
Proof.
  intros Et Hl Hr. revert seen Hr. induction l as [|p l IH]; intros seen Hr; cbn [uitems map app].
  - eapply items_wf_mono; [|exact Hr]. apply incl_tl, incl_refl.
  - cbn [uprops_ok forallb] in Hl. apply andb_true_iff in Hl as [Hp Hl].
    unfold upair at 1. cbn [items_wf]. rewrite Et. cbn [andb negb pval_ok]. unfold uprop_ok in Hp. rewrite Hp.
    cbn [andb]. apply (IH Hl). eapply items_wf_mono; [|exact Hr].
    intros x [<-|Hx]; [now left|exact Hx].
Qed.

Lemma wf_sitems tbl seen l rest :
  tbl P_SUB_ID = Some (KVarNZ, false) -> forallb (fun n => (0 <? n) && (n <=? VI_MAX)) l = true ->
  items_wf tbl (P_SUB_ID :: seen) rest = true ->
  items_wf tbl seen (sitems l ++ rest) = true.
Proof.
  intros Et Hl Hr. revert seen Hr. induction l as [|p l IH]; intros seen Hr; cbn [sitems map app].
  - eapply items_wf_mono; [|exact Hr]. apply incl_tl, incl_refl.
  - cbn [forallb] in Hl. apply andb_true_iff in Hl as [Hp Hl].
    cbn [items_wf]. rewrite Et. cbn [andb negb pval_ok]. rewrite Hp.
    cbn [andb]. apply (IH Hl). eapply items_wf_mono; [|exact Hr].
    intros x [<-|Hx]; [now left|exact Hx].
Qed.

(* non-duplicating forms for rewriting *)
Lemma bag_n_oitemN_eq id o rest :
  bag_n id (oitemN id o ++ rest) = match o with Some n => Some n | None => bag_n id rest end.
Proof. rewrite bag_n_oitemN, N.eqb_refl. reflexivity. Qed.
Lemma bag_n_oitemN_ne id id' o rest : (id' =? id) = false -> bag_n id (oitemN id' o ++ rest) = bag_n id rest.
Proof. intros E. rewrite bag_n_oitemN, E. reflexivity. Qed.
Lemma bag_b_oitemB_eq id o rest :
  bag_b id (oitemB id o ++ rest) = match o with Some n => Some n | None => bag_b id rest end.
Proof. rewrite bag_b_oitemB, N.eqb_refl. reflexivity. Qed.
Lemma bag_b_oitemB_ne id id' o rest : (id' =? id) = false -> bag_b id (oitemB id' o ++ rest) = bag_b id rest.
Proof. intros E. rewrite bag_b_oitemB, E. reflexivity. Qed.
Lemma bag_ns_oitemN_eq id o rest :
  bag_ns id (oitemN id o ++ rest) = match o with Some n => n :: bag_ns id rest | None => bag_ns id rest end.
Proof. rewrite bag_ns_oitemN, N.eqb_refl. reflexivity. Qed.
Lemma bag_ns_oitemN_ne id id' o rest : (id' =? id) = false -> bag_ns id (oitemN id' o ++ rest) = bag_ns id rest.
Proof. intros E. rewrite bag_ns_oitemN, E. reflexivity. Qed.
Lemma bag_n_sitems_ne id l rest : (P_SUB_ID =? id) = false -> bag_n id (sitems l ++ rest) = bag_n id rest.
Proof. apply bag_n_sitems. Qed.

#[export] Hint Rewrite bag_n_oitemN_eq bag_n_oitemB bag_n_uitems bag_n_nil
  bag_b_oitemB_eq bag_b_oitemN bag_b_uitems bag_b_sitems bag_b_nil
  bag_pairs_oitemN bag_pairs_oitemB bag_pairs_uitems bag_pairs_sitems bag_pairs_nil
  bag_ns_oitemN_eq bag_ns_oitemB bag_ns_uitems bag_ns_sitems bag_ns_nil bag_bool_eq : bag.
#[export] Hint Rewrite bag_n_oitemN_ne bag_b_oitemB_ne bag_ns_oitemN_ne bag_n_sitems_ne using reflexivity : bag.
