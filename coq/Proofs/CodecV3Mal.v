(* Proofs/CodecV3Mal.v -- C02 for the v3 codec model: malformed frames are errors, never items. *)
From Coq Require Import ZArith ZifyN ZifyBool Lia.
From MV Require Import Base.Prelude Base.Res Base.VarInt Base.Utf8 Proofs.VarIntProofs Model.CodecV3
  Proofs.CodecV3Lib Proofs.CodecV3Enc Proofs.CodecV3Dec.
Ltac Zify.zify_post_hook ::= Z.div_mod_to_equations.
Set Warnings "-unused-intro-pattern".

Definition is_err {A} (r : res A) : Prop := exists e, r = Err e.

Lemma is_err_bind {A B} (r : res A) (f : A -> res B) : is_err r -> is_err (bind r f).
Proof. intros [e ->]. now exists e. Qed.
Lemma is_err_err {A} e : is_err (@Err A e).
Proof. now exists e. Qed.
Lemma is_err_ensure_bind {B} c e (f : unit -> res B) : (c = true -> is_err (f tt)) -> is_err (bind (ensure c e) f).
Proof. destruct c; cbn; intros H; [now apply H|apply is_err_err]. Qed.

(* a step that is neither a panic, nor a request for more data, nor an item, is an error *)
Lemma step_err_of_complete (out : step_out) :
  np (sres out) -> sres out <> Ok None -> (forall it, sres out <> Ok (Some it)) -> is_err (sres out).
Proof.
  destruct out as [[[[i|]|e|s] st] b]; cbn; intros H1 H2 H3; try contradiction; try congruence.
  now exists e.
Qed.

Lemma firstn_app_ge n (a b : bytes) : len a <= n ->
  firstn (N.to_nat n) (a ++ b) = a ++ firstn (N.to_nat (n - len a)) b.
Proof.
  intros H. rewrite firstn_app. rewrite firstn_all2 by (rewrite <- len_length; lia).
  f_equal. f_equal. rewrite <- len_length. lia.
Qed.

(* ------------------------------------------------------------------ packet identifier 0 *)
Definition has_packet_id (fb : N) : bool :=
  existsb (N.eqb fb) [PUBACK; PUBREC; PUBREL; PUBCOMP; SUBSCRIBE; SUBACK; UNSUBSCRIBE; UNSUBACK].

Lemma decode_packet_zero_id fb rest : has_packet_id fb = true ->
  decode_packet fb (0 :: 0 :: rest) = Err DE_MalformedPacket.
Proof.
  unfold has_packet_id. cbn [existsb]. intros H.
  repeat (apply orb_true_iff in H as [H|H]); try discriminate; apply N.eqb_eq in H; subst fb.
  - change (decode_packet PUBACK ?x) with (decode_ack PPublishAck x). unfold decode_ack.
    now rewrite dec_nz16_zero.
  - change (decode_packet PUBREC ?x) with (decode_ack PPublishReceived x). unfold decode_ack.
    now rewrite dec_nz16_zero.
  - change (decode_packet PUBREL ?x) with (decode_ack PPublishRelease x). unfold decode_ack.
    now rewrite dec_nz16_zero.
  - change (decode_packet PUBCOMP ?x) with (decode_ack PPublishComplete x). unfold decode_ack.
    now rewrite dec_nz16_zero.
  - change (decode_packet SUBSCRIBE ?x) with (decode_subscribe_packet x). unfold decode_subscribe_packet.
    now rewrite dec_nz16_zero.
  - change (decode_packet SUBACK ?x) with (decode_subscribe_ack_packet x). unfold decode_subscribe_ack_packet.
    now rewrite dec_nz16_zero.
  - change (decode_packet UNSUBSCRIBE ?x) with (decode_unsubscribe_packet x). unfold decode_unsubscribe_packet.
    now rewrite dec_nz16_zero.
  - change (decode_packet UNSUBACK ?x) with (decode_ack PUnsubscribeAck x). unfold decode_ack.
    now rewrite dec_nz16_zero.
Qed.

Lemma v3_zero_packet_id_frame : forall ms mc fb rl body rest,
  has_packet_id fb = true -> len (0 :: 0 :: body) = rl ->
  decode_step ms mc (Frame fb rl) (0 :: 0 :: body ++ rest) = (Err DE_MalformedPacket, Frame fb rl, rest).
Proof.
  intros ms mc fb rl body rest Hid Hl.
  change (0 :: 0 :: body ++ rest) with ((0 :: 0 :: body) ++ rest).
  rewrite (step_frame_complete ms mc fb rl _ rest Hl). now rewrite decode_packet_zero_id.
Qed.

Lemma str16_cons s y : str16 s ++ y = (len s / 256) :: (len s mod 256) :: s ++ y.
Proof. reflexivity. Qed.

(* PUBLISH with QoS 1 or 2 whose packet identifier field is 0 *)
Lemma v3_zero_packet_id_publish : forall ms mc fb rl topic rest,
  (fb / 2) mod 4 = 1 \/ (fb / 2) mod 4 = 2 -> len topic <= U16MAX ->
  exists e buf',
    decode_step ms mc (PublishHeader fb rl) (str16 topic ++ 0 :: 0 :: rest) = (Err e, PublishHeader fb rl, buf').
Proof.
  intros ms mc fb rl topic rest Hq Hl. cbn [decode_step]. unfold step_publish_header.
  destruct (rl <? 2); [eauto|].
  rewrite str16_cons. unfold publish_size. rewrite <- str16_cons.
  assert (Q : exists q, qos_of_n ((fb / 2) mod 4) = Ok q /\ is_qos12 q = true).
  { destruct Hq as [-> | ->]; [exists AtLeastOnce|exists ExactlyOnce]; split; reflexivity. }
  destruct Q as (q & Hqq & Hq12). rewrite Hqq. cbn [bind].
  set (hdr := match q with AtMostOnce => _ | _ => _ end).
  assert (Hh : hdr = len (str16 topic ++ [0; 0])).
  { unfold hdr. lens. unfold U16MAX in *. destruct q; try discriminate; lia. }
  destruct (rl <? hdr) eqn:E1; [eauto|].
  replace (len (str16 topic ++ 0 :: 0 :: rest) <? hdr) with false by (rewrite Hh; lens; lia).
  rewrite sub_chk_ok by lia.
  change (str16 topic ++ 0 :: 0 :: rest) with (str16 topic ++ [0; 0] ++ rest). rewrite app_assoc.
  rewrite Hh, split_at_app.
  unfold decode_publish_packet.
  destruct (utf8_valid topic) eqn:Eu.
  - rewrite (dec_string_str16 _ _ Eu). cbn [bind].
    rewrite Hqq. cbn [bind]. destruct q; try discriminate; rewrite dec_nz16_zero; cbn [bind]; eauto.
  - rewrite (dec_string_bad_utf8 _ _ Eu). cbn [bind]. eauto.
Qed.

Lemma v3_zero_packet_id :
  (forall ms mc fb rl body rest, has_packet_id fb = true -> len (0 :: 0 :: body) = rl ->
     decode_step ms mc (Frame fb rl) (0 :: 0 :: body ++ rest) = (Err DE_MalformedPacket, Frame fb rl, rest)) /\
  (forall ms mc fb rl topic rest, (fb / 2) mod 4 = 1 \/ (fb / 2) mod 4 = 2 -> len topic <= U16MAX ->
     exists e buf',
       decode_step ms mc (PublishHeader fb rl) (str16 topic ++ 0 :: 0 :: rest)
       = (Err e, PublishHeader fb rl, buf')).
Proof. split; [exact v3_zero_packet_id_frame|exact v3_zero_packet_id_publish]. Qed.

(* ------------------------------------------------------------------ QoS 3 *)
Lemma v3_qos3 : forall ms mc fb rl buf, (fb / 2) mod 4 = 3 ->
  (forall it, sres (decode_step ms mc (PublishHeader fb rl) buf) <> Ok (Some it)) /\
  (2 <= len buf -> exists e, decode_step ms mc (PublishHeader fb rl) buf = (Err e, PublishHeader fb rl, buf)).
Proof.
  intros ms mc fb rl buf Hq. cbn [decode_step]. unfold step_publish_header, publish_size. rewrite Hq.
  change (qos_of_n 3) with (@Err qos DE_MalformedPacket).
  split.
  - intros it. destruct (rl <? 2); [cbn; discriminate|]. destruct buf as [|a [|b r]]; cbn; discriminate.
  - intros Hl. destruct (rl <? 2); [eauto|]. destruct buf as [|a [|b r]]; try (exfalso; revert Hl; lens; lia).
    cbn [bind]. eauto.
Qed.

(* the same seen from the fixed header: first byte 0x36/0x37/0x3E/0x3F *)
Lemma v3_qos3_header : forall ms mc fb h rl a b rest,
  is_publish fb = true -> (fb / 2) mod 4 = 3 -> dec_vi (h ++ a :: b :: rest) = Ok (rl, a :: b :: rest) ->
  ms = 0 \/ rl <= ms ->
  exists e, decode_step ms mc FrameHeader (fb :: h ++ a :: b :: rest) = (Err e, PublishHeader fb rl, a :: b :: rest).
Proof.
  intros ms mc fb h rl a b rest Hp Hq Hd Hms. cbn [decode_step].
  rewrite (step_frame_header_complete ms mc fb h _ rl Hd).
  replace (negb (ms =? 0) && (ms <? rl)) with false by lia. rewrite Hp.
  destruct (v3_qos3 ms mc fb rl (a :: b :: rest) Hq) as [_ H]. apply H. lens. lia.
Qed.

(* ------------------------------------------------------------------ invalid UTF-8 *)
Lemma v3_bad_utf8_publish : forall ms mc fb rl topic rest,
  utf8_valid topic = false -> len topic <= U16MAX ->
  (forall it, sres (decode_step ms mc (PublishHeader fb rl) (str16 topic ++ rest)) <> Ok (Some it)) /\
  (rl <= len (str16 topic ++ rest) ->
   is_err (sres (decode_step ms mc (PublishHeader fb rl) (str16 topic ++ rest)))).
Proof.
  intros ms mc fb rl topic rest Hu Hl.
  assert (A : forall it, sres (decode_step ms mc (PublishHeader fb rl) (str16 topic ++ rest)) <> Ok (Some it)).
  { intros it. cbn [decode_step]. unfold step_publish_header.
    destruct (rl <? 2); [cbn; discriminate|].
    rewrite str16_cons. unfold publish_size. rewrite <- str16_cons.
    destruct (qos_of_n ((fb / 2) mod 4)) as [q| |]; cbn [bind]; try (cbn; discriminate).
    set (hdr := match q with AtMostOnce => _ | _ => _ end).
    assert (Hh : len (str16 topic) <= hdr) by (unfold hdr; lens; unfold U16MAX in *; destruct q; lia).
    destruct (rl <? hdr) eqn:E1; [cbn; discriminate|].
    destruct (len (str16 topic ++ rest) <? hdr) eqn:E2; [cbn; discriminate|].
    rewrite sub_chk_ok by lia. unfold split_at. rewrite firstn_app_ge by exact Hh.
    unfold decode_publish_packet. rewrite (dec_string_bad_utf8 _ _ Hu). cbn. discriminate. }
  split; [exact A|]. intros Hc. apply step_err_of_complete; auto.
  - apply v3_decode_total.
  - now apply v3_no_stall_publish_header.
Qed.

Definition connect_prefix (flags k1 k2 : N) : bytes := [0; 4; 77; 81; 84; 84; 4; flags; k1; k2].

Lemma decode_connect_bad_cid flags k1 k2 s :
  is_err (dec_string s) ->
  is_err (decode_connect_packet (connect_prefix flags k1 k2 ++ s)).
Proof.
  intros Hs. unfold connect_prefix. cbn [app]. unfold decode_connect_packet.
  apply is_err_ensure_bind; intros _. cbn [get_u16 bind].
  replace (0 * 256 + 4 =? 4) with true by reflexivity.
  unfold slice_to, advance.
  match goal with |- context [if ?l <? 4 then Panic _ else Ok (firstn _ _)] =>
    replace (l <? 4) with false by (lens; lia) end.
  change (N.to_nat 4) with 4%nat. cbn [firstn skipn bind].
  change (bytes_eqb [77; 81; 84; 84] MQTT) with true. cbn [ensure bind get_u8].
  change (4 =? MQTT_LEVEL_3) with true. cbn [ensure bind].
  apply is_err_ensure_bind; intros _.
  rewrite dec_u16_cons. cbn [bind]. apply is_err_bind. apply Hs.
Qed.

Lemma v3_bad_utf8_connect : forall ms mc flags k1 k2 cid tail rest rl,
  utf8_valid cid = false ->
  rl = len (connect_prefix flags k1 k2 ++ str16 cid ++ tail) ->
  exists e, decode_step ms mc (Frame CONNECT rl) ((connect_prefix flags k1 k2 ++ str16 cid ++ tail) ++ rest)
            = (Err e, Frame CONNECT rl, rest).
Proof.
  intros ms mc flags k1 k2 cid tail rest rl Hu ->.
  rewrite (step_frame_complete ms mc CONNECT _ _ rest eq_refl).
  change (decode_packet CONNECT ?x) with (decode_connect_packet x).
  destruct (decode_connect_bad_cid flags k1 k2 (str16 cid ++ tail)) as [e ->]; [|eauto].
  rewrite (dec_string_bad_utf8 _ _ Hu). apply is_err_err.
Qed.

Lemma decode_subscribe_bad_first i1 i2 s :
  s <> [] -> is_err (dec_string s) -> is_err (decode_subscribe_packet (i1 :: i2 :: s)).
Proof.
  intros Hne Hs. unfold decode_subscribe_packet, dec_nz16. rewrite dec_u16_cons. cbn [bind].
  destruct (i1 * 256 + i2 =? 0); [apply is_err_err|]. cbn [bind]. apply is_err_bind.
  destruct s as [|x s]; [congruence|]. cbn [length dec_sub_filters]. now apply is_err_bind.
Qed.
Lemma decode_unsubscribe_bad_first i1 i2 s :
  s <> [] -> is_err (dec_string s) -> is_err (decode_unsubscribe_packet (i1 :: i2 :: s)).
Proof.
  intros Hne Hs. unfold decode_unsubscribe_packet, dec_nz16. rewrite dec_u16_cons. cbn [bind].
  destruct (i1 * 256 + i2 =? 0); [apply is_err_err|]. cbn [bind]. apply is_err_bind.
  destruct s as [|x s]; [congruence|]. cbn [length dec_unsub_filters]. now apply is_err_bind.
Qed.

Lemma v3_bad_utf8_subscribe : forall ms mc fb i1 i2 filter tail rest rl,
  fb = SUBSCRIBE \/ fb = UNSUBSCRIBE -> utf8_valid filter = false ->
  rl = len (i1 :: i2 :: str16 filter ++ tail) ->
  exists e, decode_step ms mc (Frame fb rl) ((i1 :: i2 :: str16 filter ++ tail) ++ rest)
            = (Err e, Frame fb rl, rest).
Proof.
  intros ms mc fb i1 i2 f tail rest rl Hfb Hu ->.
  rewrite (step_frame_complete ms mc fb _ _ rest eq_refl).
  assert (Hne : str16 f ++ tail <> []) by (rewrite str16_cons; discriminate).
  assert (Hs : is_err (dec_string (str16 f ++ tail))).
  { rewrite (dec_string_bad_utf8 _ _ Hu). apply is_err_err. }
  destruct Hfb as [-> | ->].
  - change (decode_packet SUBSCRIBE ?x) with (decode_subscribe_packet x).
    destruct (decode_subscribe_bad_first i1 i2 _ Hne Hs) as [e ->]. eauto.
  - change (decode_packet UNSUBSCRIBE ?x) with (decode_unsubscribe_packet x).
    destruct (decode_unsubscribe_bad_first i1 i2 _ Hne Hs) as [e ->]. eauto.
Qed.

Lemma v3_bad_utf8 :
  (forall ms mc fb rl topic rest, utf8_valid topic = false -> len topic <= U16MAX ->
     (forall it, sres (decode_step ms mc (PublishHeader fb rl) (str16 topic ++ rest)) <> Ok (Some it)) /\
     (rl <= len (str16 topic ++ rest) ->
      is_err (sres (decode_step ms mc (PublishHeader fb rl) (str16 topic ++ rest))))) /\
  (forall ms mc flags k1 k2 cid tail rest rl, utf8_valid cid = false ->
     rl = len (connect_prefix flags k1 k2 ++ str16 cid ++ tail) ->
     exists e, decode_step ms mc (Frame CONNECT rl) ((connect_prefix flags k1 k2 ++ str16 cid ++ tail) ++ rest)
               = (Err e, Frame CONNECT rl, rest)) /\
  (forall ms mc fb i1 i2 filter tail rest rl,
     fb = SUBSCRIBE \/ fb = UNSUBSCRIBE -> utf8_valid filter = false ->
     rl = len (i1 :: i2 :: str16 filter ++ tail) ->
     exists e, decode_step ms mc (Frame fb rl) ((i1 :: i2 :: str16 filter ++ tail) ++ rest)
               = (Err e, Frame fb rl, rest)).
Proof.
  split; [exact v3_bad_utf8_publish|]. split; [exact v3_bad_utf8_connect|exact v3_bad_utf8_subscribe].
Qed.

(* ------------------------------------------------------------------ inner lengths beyond the frame *)
(* PUBLISH whose topic length field (plus packet id) does not fit into the remaining length: the
   case that used to underflow in the crate *)
Lemma v3_publish_header_exceeds_rl : forall ms mc fb rl a b rest,
  rl < a * 256 + b + 2 ->
  exists e, decode_step ms mc (PublishHeader fb rl) (a :: b :: rest) = (Err e, PublishHeader fb rl, a :: b :: rest).
Proof.
  intros ms mc fb rl a b rest H. cbn [decode_step]. unfold step_publish_header, publish_size.
  destruct (rl <? 2); [eauto|].
  destruct (qos_of_n ((fb / 2) mod 4)) as [q| |] eqn:Eq; cbn [bind]; eauto.
  - set (hdr := match q with AtMostOnce => _ | _ => _ end).
    replace (rl <? hdr) with true by (unfold hdr; destruct q; lia). eauto.
  - pose proof (qos_of_n_np ((fb / 2) mod 4)) as Hn. rewrite Eq in Hn. contradiction.
Qed.

Lemma v3_publish_pid_exceeds_rl : forall ms mc fb rl a b rest,
  (fb / 2) mod 4 = 1 \/ (fb / 2) mod 4 = 2 -> rl < a * 256 + b + 4 ->
  decode_step ms mc (PublishHeader fb rl) (a :: b :: rest)
  = (Err DE_InvalidLength, PublishHeader fb rl, a :: b :: rest).
Proof.
  intros ms mc fb rl a b rest Hq H. cbn [decode_step]. unfold step_publish_header, publish_size.
  destruct (rl <? 2); [reflexivity|].
  destruct Hq as [-> | ->]; cbn [bind qos_of_n];
    match goal with |- context [rl <? ?h] => replace (rl <? h) with true by lia end; reflexivity.
Qed.

(* a length-prefixed field announcing more bytes than the frame has left *)
Lemma v3_string_exceeds_frame_subscribe : forall ms mc fb i1 i2 a b s rest rl,
  fb = SUBSCRIBE \/ fb = UNSUBSCRIBE -> len s < a * 256 + b ->
  rl = len (i1 :: i2 :: a :: b :: s) ->
  exists e, decode_step ms mc (Frame fb rl) ((i1 :: i2 :: a :: b :: s) ++ rest) = (Err e, Frame fb rl, rest).
Proof.
  intros ms mc fb i1 i2 a b s rest rl Hfb Hl ->.
  rewrite (step_frame_complete ms mc fb _ _ rest eq_refl).
  assert (Hs : is_err (dec_string (a :: b :: s))).
  { rewrite dec_string_too_long by exact Hl. apply is_err_err. }
  destruct Hfb as [-> | ->].
  - change (decode_packet SUBSCRIBE ?x) with (decode_subscribe_packet x).
    destruct (decode_subscribe_bad_first i1 i2 (a :: b :: s) ltac:(discriminate) Hs) as [e ->]. eauto.
  - change (decode_packet UNSUBSCRIBE ?x) with (decode_unsubscribe_packet x).
    destruct (decode_unsubscribe_bad_first i1 i2 (a :: b :: s) ltac:(discriminate) Hs) as [e ->]. eauto.
Qed.

Lemma v3_string_exceeds_frame_connect : forall ms mc flags k1 k2 a b s rest rl,
  len s < a * 256 + b ->
  rl = len (connect_prefix flags k1 k2 ++ a :: b :: s) ->
  exists e, decode_step ms mc (Frame CONNECT rl) ((connect_prefix flags k1 k2 ++ a :: b :: s) ++ rest)
            = (Err e, Frame CONNECT rl, rest).
Proof.
  intros ms mc flags k1 k2 a b s rest rl Hl ->.
  rewrite (step_frame_complete ms mc CONNECT _ _ rest eq_refl).
  change (decode_packet CONNECT ?x) with (decode_connect_packet x).
  destruct (decode_connect_bad_cid flags k1 k2 (a :: b :: s)) as [e ->]; [|eauto].
  rewrite dec_string_too_long by exact Hl. apply is_err_err.
Qed.

Lemma v3_inner_len_exceeds_rl :
  (forall ms mc fb rl a b rest, rl < a * 256 + b + 2 ->
     exists e, decode_step ms mc (PublishHeader fb rl) (a :: b :: rest)
               = (Err e, PublishHeader fb rl, a :: b :: rest)) /\
  (forall ms mc fb rl a b rest, (fb / 2) mod 4 = 1 \/ (fb / 2) mod 4 = 2 -> rl < a * 256 + b + 4 ->
     decode_step ms mc (PublishHeader fb rl) (a :: b :: rest)
     = (Err DE_InvalidLength, PublishHeader fb rl, a :: b :: rest)) /\
  (forall ms mc fb i1 i2 a b s rest rl, fb = SUBSCRIBE \/ fb = UNSUBSCRIBE -> len s < a * 256 + b ->
     rl = len (i1 :: i2 :: a :: b :: s) ->
     exists e, decode_step ms mc (Frame fb rl) ((i1 :: i2 :: a :: b :: s) ++ rest) = (Err e, Frame fb rl, rest)) /\
  (forall ms mc flags k1 k2 a b s rest rl, len s < a * 256 + b ->
     rl = len (connect_prefix flags k1 k2 ++ a :: b :: s) ->
     exists e, decode_step ms mc (Frame CONNECT rl) ((connect_prefix flags k1 k2 ++ a :: b :: s) ++ rest)
               = (Err e, Frame CONNECT rl, rest)).
Proof.
  split; [exact v3_publish_header_exceeds_rl|]. split; [exact v3_publish_pid_exceeds_rl|].
  split; [exact v3_string_exceeds_frame_subscribe|exact v3_string_exceeds_frame_connect].
Qed.
