(* Proofs/CtlWrapProofs.v -- the control-service wrapper (Model/CtlWrap.v): the sink's back-pressure flag follows
   the notifications in the order in which the dispatcher ISSUES them; the completions of the application's
   control calls are irrelevant.  Uses the step summaries of Proofs/SinkProofs.v for the sink operations. *)
From Coq Require Import Lia List NArith Bool.
From MV Require Import Base.Prelude.
From MV Require Model.Sink Proofs.SinkInv Proofs.SinkProofs.
From MV Require Import Model.CtlWrap.
Import ListNotations.
Open Scope N_scope.

(* ---------------------------------------------------------------- the flag under the sink operations used here *)
Lemma sink_op_unfold s o : Sink.sink_op s o = Sink.settle (Sink.sink_step (Sink.set_wire s []) o).
Proof. reflexivity. Qed.

Lemma settle_wrb s : Sink.wrb (Sink.settle s) = Sink.wrb s.
Proof. destruct (SinkProofs.settle_same s) as (_ & _ & _ & H). exact H. Qed.

Lemma wrb_start s t k i z : Sink.wrb (Sink.sink_op s (Sink.OStart t k i z)) = Sink.wrb s.
Proof.
  rewrite sink_op_unfold, settle_wrb. cbn [Sink.sink_step].
  destruct (SinkProofs.start_eff (Sink.set_wire s []) t k i z) as (_ & H & _). exact H.
Qed.

Lemma wrb_poll s t : Sink.wrb (Sink.sink_op s (Sink.OPoll t)) = Sink.wrb s.
Proof.
  rewrite sink_op_unfold, settle_wrb. cbn [Sink.sink_step].
  destruct (SinkProofs.poll_eff (Sink.set_wire s []) t) as (_ & H & _). exact H.
Qed.

Lemma wrb_acks s l : Sink.wrb (Sink.sink_op s (Sink.OAcks l)) = Sink.wrb s.
Proof.
  rewrite sink_op_unfold, settle_wrb. cbn [Sink.sink_step].
  destruct (SinkProofs.ack_list_eff l (Sink.set_wire s [])) as (_ & H & _). exact H.
Qed.

(* enable_wr_backpressure / disable_wr_backpressure *)
Lemma do_wrb_flag s b : Sink.wrb (Sink.do_wrb s b) = b.
Proof.
  unfold Sink.do_wrb. destruct b; [reflexivity|].
  set (s1 := Sink.set_wrb s false).
  set (s2 := match Sink.swait s1 with
             | Some c => Sink.set_swait (fst (Sink.send s1 c 0)) None
             | None => s1
             end).
  assert (E : Sink.wrb s2 = false).
  { unfold s2. destruct (Sink.swait s1); [rewrite SinkInv.send_eq|]; reflexivity. }
  destruct (_ <? _); [rewrite SinkInv.wake_eq|]; exact E.
Qed.

Lemma wrb_set s b : Sink.wrb (Sink.sink_op s (Sink.OWrb b)) = b.
Proof. rewrite sink_op_unfold, settle_wrb. cbn [Sink.sink_step]. apply do_wrb_flag. Qed.

(* ---------------------------------------------------------------- one operation *)
Lemma complete_same s k : sk (complete s k) = sk s /\ bp (complete s k) = bp s /\ issued (complete s k) = issued s.
Proof. unfold complete. destruct (_ && _); auto. Qed.

Lemma step_flag s o : flag (step s o) = match issues s o with Some b => b | None => flag s end.
Proof.
  unfold flag. destruct o as [b|k|t|t|t|id|]; cbn [step issues].
  - destruct (is_open s && negb (Bool.eqb b (bp s))); [|reflexivity].
    unfold notify. cbn [sk]. apply wrb_set.
  - destruct (complete_same s k) as (-> & _). reflexivity.
  - apply wrb_start.
  - apply wrb_poll.
  - apply wrb_start.
  - destruct (bp s); [reflexivity|]. apply wrb_acks.
  - reflexivity.
Qed.

Lemma step_bp s o : bp (step s o) = match issues s o with Some b => b | None => bp s end.
Proof.
  destruct o as [b|k|t|t|t|id|]; cbn [step issues]; try reflexivity.
  - destruct (is_open s && negb (Bool.eqb b (bp s))); reflexivity.
  - destruct (complete_same s k) as (_ & -> & _). reflexivity.
  - destruct (bp s) eqn:E; [exact E|]. cbn [on_sink bp]. exact E.
Qed.

Lemma last_nonempty {A} (l : list A) : forall a d d', last (a :: l) d = last (a :: l) d'.
Proof.
  induction l as [|x l IH]; intros a d d'; [reflexivity|].
  change (last (x :: l) d = last (x :: l) d'). apply IH.
Qed.

Lemma last_cons {A} (b : A) l d : last (b :: l) d = last l b.
Proof. destruct l as [|a l]; [reflexivity|]. change (last (a :: l) d = last (a :: l) b). apply last_nonempty. Qed.

(* ---------------------------------------------------------------- the flag is the last notification issued *)
Theorem flag_is_last_issued_from ops : forall s,
  flag (run_from s ops) = last (notifications s ops) (flag s).
Proof.
  induction ops as [|o r IH]; intros s; [reflexivity|].
  change (run_from s (o :: r)) with (run_from (step s o) r).
  rewrite IH, step_flag. cbn [notifications]. destruct (issues s o) as [b|]; [|reflexivity].
  symmetry. apply last_cons.
Qed.

Theorem flag_is_last_issued (v cap : N) (ops : list op) :
  flag (run_from (init v cap) ops) = last (notifications (init v cap) ops) false.
Proof. apply (flag_is_last_issued_from ops (init v cap)). Qed.

(* the flag is the dispatcher's own state: on exactly while the dispatcher is in its back-pressure state *)
Theorem flag_tracks_dispatcher_from ops : forall s, flag s = bp s -> flag (run_from s ops) = bp (run_from s ops).
Proof.
  induction ops as [|o r IH]; intros s H; [exact H|].
  change (run_from s (o :: r)) with (run_from (step s o) r). apply IH.
  rewrite step_flag, step_bp. destruct (issues s o); auto.
Qed.

Theorem flag_tracks_dispatcher (v cap : N) (ops : list op) :
  flag (run_from (init v cap) ops) = bp (run_from (init v cap) ops).
Proof. apply flag_tracks_dispatcher_from. reflexivity. Qed.

(* ---------------------------------------------------------------- completions are neutral *)
Theorem completion_is_neutral s k :
  is_ready (step s (OComplete k)) = is_ready s /\ flag (step s (OComplete k)) = flag s /\
  sk (step s (OComplete k)) = sk s.
Proof.
  cbn [step]. unfold is_ready, flag. destruct (complete_same s k) as (-> & _). auto.
Qed.

(* two states that agree on the connection (sink + dispatcher state), whatever the application has completed *)
Definition sim (s s' : st) : Prop := sk s = sk s' /\ bp s = bp s'.

Lemma sim_refl s : sim s s. Proof. split; reflexivity. Qed.

Lemma sim_complete s s' k : sim s s' -> sim (step s (OComplete k)) s'.
Proof. intros [A B]. cbn [step]. destruct (complete_same s k) as (E1 & E2 & _). split; congruence. Qed.

Definition not_completion (o : op) : bool := match o with OComplete _ => false | _ => true end.

Lemma sim_step s s' o : not_completion o = true -> sim s s' -> sim (step s o) (step s' o).
Proof.
  intros N [A B]. destruct o as [b|k|t|t|t|id|]; try discriminate; cbn [step issues]; unfold is_open, on_sink, notify.
  - rewrite A, B. destruct ((Sink.io (sk s') =? 0) && negb (Bool.eqb b (bp s'))); split; cbn [sk bp]; congruence.
  - split; cbn [sk bp]; congruence.
  - split; cbn [sk bp]; congruence.
  - split; cbn [sk bp]; congruence.
  - rewrite B. destruct (bp s') eqn:E; split; cbn [sk bp]; congruence.
  - split; assumption.
Qed.

Lemma erase_completions_sim ops : forall s s', sim s s' ->
  sim (run_from s ops) (run_from s' (filter not_completion ops)).
Proof.
  induction ops as [|o r IH]; intros s s' H; [exact H|].
  change (run_from s (o :: r)) with (run_from (step s o) r). cbn [filter].
  destruct (not_completion o) eqn:N.
  - change (run_from s' (o :: filter not_completion r)) with (run_from (step s' o) (filter not_completion r)).
    apply IH. now apply sim_step.
  - destruct o; try discriminate. apply IH. now apply sim_complete.
Qed.

Lemma sim_obs s s' : sim s s' -> is_ready s = is_ready s' /\ flag s = flag s' /\ Sink.tasks (sk s) = Sink.tasks (sk s').
Proof. intros [A B]. unfold is_ready, flag. rewrite A. auto. Qed.

(* the connection after a run does not depend on which application calls have completed, nor when, nor in which
   order: erasing every completion from the operation list gives the same sink and the same dispatcher state *)
Theorem completions_erasable (v cap : N) (ops : list op) :
  sk (run_from (init v cap) ops) = sk (run_from (init v cap) (filter not_completion ops)) /\
  bp (run_from (init v cap) ops) = bp (run_from (init v cap) (filter not_completion ops)).
Proof. apply erase_completions_sim, sim_refl. Qed.

(* two schedules that differ only in the completions of the application's control calls: same readiness, same flag,
   same tasks in the same states *)
Theorem completion_order_irrelevant (v cap : N) (ops1 ops2 : list op) :
  filter not_completion ops1 = filter not_completion ops2 ->
  is_ready (run_from (init v cap) ops1) = is_ready (run_from (init v cap) ops2) /\
  flag (run_from (init v cap) ops1) = flag (run_from (init v cap) ops2) /\
  Sink.tasks (sk (run_from (init v cap) ops1)) = Sink.tasks (sk (run_from (init v cap) ops2)).
Proof.
  intros E. apply sim_obs.
  destruct (completions_erasable v cap ops1) as [A1 B1]. destruct (completions_erasable v cap ops2) as [A2 B2].
  split; congruence.
Qed.

(* ---------------------------------------------------------------- "on" completing after "off" *)
(* cap 1: back-pressure on, a ready() waiter parks, back-pressure off (the waiter is woken although the
   application is still busy with "on"), the application finishes "off" first and "on" last, the waiter is polled:
   is_ready = 1, 2 calls issued, 2 completed, task 1 done Ok *)
Example on_completes_after_off :
  run_ctlwrap3 [[1]; [1;1]; [3;1]; [1;0]; [2;2]; [2;1]; [4;1]]
  = [[0;1;0]; [0;1;0;1;1]; [1;2;0;1;1]; [1;2;1;1;1]; [1;2;2;1;1]; [1;2;2;1;2]]
  /\ run_ctlwrap5 [[1]; [1;1]; [3;1]; [1;0]; [2;2]; [2;1]; [4;1]]
  = [[0;1;0]; [0;1;0;1;1]; [1;2;0;1;1]; [1;2;1;1;1]; [1;2;2;1;1]; [1;2;2;1;2]].
Proof. split; vm_compute; reflexivity. Qed.
