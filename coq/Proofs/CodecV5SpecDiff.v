(* Proofs/CodecV5SpecDiff.v -- where the crate's MQTT 5 decoder (model) and the standard (Spec/SpecV5.v)
   disagree: concrete frames, checked by computation.  Each [lenient_*] frame is ACCEPTED by the model of
   the crate's decoder and REJECTED by the standard; [strict_*] is the other way round. *)
From MV Require Import Base.Prelude Base.Res Base.VarInt Base.Utf8 Model.CodecV5 Spec.SpecV5.

Definition model_accepts (s : bytes) : bool :=
  match decode_step 0 0 false FrameHeader s with
  | (Ok (Some _), _, _, []) => true
  | _ => false
  end.
Definition spec_accepts (s : bytes) : bool :=
  match spec_decode5 s with Some (_, []) => true | _ => false end.

(* [MQTT-1.5.4-2] U+0000 inside a UTF-8 string (PUBLISH topic "a\0") *)
Example lenient_nul_in_string :
  let f := [48; 5; 0; 2; 97; 0; 0] in model_accepts f = true /\ spec_accepts f = false.
Proof. vm_compute. split; reflexivity. Qed.

(* [MQTT-1.5.5-1] Remaining Length 0 encoded on two bytes (PINGREQ) *)
Example lenient_non_minimal_varint :
  let f := [192; 128; 0] in model_accepts f = true /\ spec_accepts f = false.
Proof. vm_compute. split; reflexivity. Qed.

(* 3.2.2.3.4 Maximum QoS = 2 in CONNACK *)
Example lenient_connack_max_qos_2 :
  let f := [32; 5; 0; 0; 2; 36; 2] in model_accepts f = true /\ spec_accepts f = false.
Proof. vm_compute. split; reflexivity. Qed.

(* 3.2.2.3.6 Maximum Packet Size = 0 in CONNACK *)
Example lenient_connack_max_packet_size_0 :
  let f := [32; 8; 0; 0; 5; 39; 0; 0; 0; 0] in model_accepts f = true /\ spec_accepts f = false.
Proof. vm_compute. split; reflexivity. Qed.

(* [MQTT-3.8.3-2] SUBSCRIBE without any topic filter; [MQTT-3.10.3-2] UNSUBSCRIBE likewise *)
Example lenient_subscribe_no_filter :
  let f := [130; 3; 0; 1; 0] in model_accepts f = true /\ spec_accepts f = false.
Proof. vm_compute. split; reflexivity. Qed.
Example lenient_unsubscribe_no_filter :
  let f := [162; 3; 0; 1; 0] in model_accepts f = true /\ spec_accepts f = false.
Proof. vm_compute. split; reflexivity. Qed.

(* [MQTT-3.8.3-5] reserved bits 6,7 of the subscription options *)
Example lenient_subscription_options_reserved :
  let f := [130; 7; 0; 1; 0; 0; 1; 97; 64] in model_accepts f = true /\ spec_accepts f = false.
Proof. vm_compute. split; reflexivity. Qed.

(* [MQTT-3.1.2-11/13] Will QoS / Will Retain set without the Will Flag; bytes after the last CONNECT field *)
Example lenient_connect_will_bits_without_will :
  let f := [16; 13; 0; 4; 77; 81; 84; 84; 5; 40; 0; 0; 0; 0; 0] in
  model_accepts f = true /\ spec_accepts f = false.
Proof. vm_compute. split; reflexivity. Qed.
Example lenient_connect_trailing_bytes :
  let f := [16; 15; 0; 4; 77; 81; 84; 84; 5; 0; 0; 0; 0; 0; 0; 9; 9] in
  model_accepts f = true /\ spec_accepts f = false.
Proof. vm_compute. split; reflexivity. Qed.

(* the other direction: Message Expiry Interval = 0 is legal in the standard (3.3.2.3.3), the crate uses
   NonZeroU32 and answers MalformedPacket *)
Example strict_message_expiry_zero :
  let f := [48; 9; 0; 1; 97; 5; 2; 0; 0; 0; 0] in model_accepts f = false /\ spec_accepts f = true.
Proof. vm_compute. split; reflexivity. Qed.
