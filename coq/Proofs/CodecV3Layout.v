(* Proofs/CodecV3Layout.v -- C01: the bytes the v3 encoder writes are the MQTT 3.1.1 layout: the
   independent decoder of Spec/SpecV3.v recovers the same field values and consumes everything. *)
From Coq Require Import ZArith ZifyN ZifyBool Lia.
From MV Require Import Base.Prelude Base.Res Base.VarInt Base.Utf8 Proofs.VarIntProofs Model.CodecV3
  Spec.SpecV3 Proofs.CodecV3Lib Proofs.CodecV3Enc Proofs.CodecV3Dec Proofs.CodecV3RT.
Ltac Zify.zify_post_hook ::= Z.div_mod_to_equations.

(* ------------------------------------------------------------------ bits as arithmetic *)
Lemma testbit7 b : N.testbit b 7 = ((b / 128) mod 2 =? 1).
Proof.
  pose proof (N.testbit_spec' b 7) as H. change (2 ^ 7) with 128 in H.
  destruct (N.testbit b 7); cbn [N.b2n] in H; lia.
Qed.
Lemma land127 b : N.land b 127 = b mod 128.
Proof. change 127 with (N.ones 7). rewrite N.land_ones. reflexivity. Qed.

(* ------------------------------------------------------------------ 2.2.3 on the encoder's var-int *)
Lemma spec_remlen_enc n vi r : enc_vi n = Some vi -> spec_remlen (vi ++ r) = Some (n, r).
Proof.
  unfold enc_vi, VI_MAX, spec_remlen.
  destruct (n <=? 127) eqn:E1.
  { intros [= <-]. cbn [app spec_remlen_go]. rewrite testbit7, land127.
    replace ((n / 128) mod 2 =? 1) with false by lia. f_equal. f_equal. lia. }
  destruct (n <=? 16383) eqn:E2.
  { intros [= <-]. cbn [app spec_remlen_go obind]. rewrite !testbit7, !land127.
    replace (((n mod 128 + 128) / 128) mod 2 =? 1) with true by lia.
    replace ((n / 128 / 128) mod 2 =? 1) with false by lia. cbn [obind]. f_equal. f_equal. lia. }
  destruct (n <=? 2097151) eqn:E3.
  { intros [= <-]. cbn [app spec_remlen_go obind]. rewrite !testbit7, !land127.
    replace (((n mod 128 + 128) / 128) mod 2 =? 1) with true by lia.
    replace ((((n / 128) mod 128 + 128) / 128) mod 2 =? 1) with true by lia.
    replace ((n / 16384 / 128) mod 2 =? 1) with false by lia. cbn [obind]. f_equal. f_equal. lia. }
  destruct (n <=? 268435455) eqn:E4; [|discriminate].
  intros [= <-]. cbn [app spec_remlen_go obind]. rewrite !testbit7, !land127.
  replace (((n mod 128 + 128) / 128) mod 2 =? 1) with true by lia.
  replace ((((n / 128) mod 128 + 128) / 128) mod 2 =? 1) with true by lia.
  replace ((((n / 16384) mod 128 + 128) / 128) mod 2 =? 1) with true by lia.
  replace ((n / 2097152 / 128) mod 2 =? 1) with false by lia. cbn [obind]. f_equal. f_equal. lia.
Qed.

(* ------------------------------------------------------------------ field parsers on the encoder's fields *)
Lemma take_u16_u16be v r : take_u16 (u16be v ++ r) = Some (v, r).
Proof. unfold take_u16, u16be. cbn [app]. f_equal. f_equal. lia. Qed.

Lemma take_n_app a r : take_n (len a) (a ++ r) = Some (a, r).
Proof.
  unfold take_n. replace (len (a ++ r) <? len a) with false by (lens; lia).
  now rewrite firstn_len_app, skipn_len_app.
Qed.

Lemma take_bin_str16 s r : take_bin (str16 s ++ r) = Some (s, r).
Proof. unfold take_bin, str16. rewrite <- app_assoc, take_u16_u16be. cbn [obind]. apply take_n_app. Qed.

Lemma take_str_str16 s r : utf8_valid s = true -> take_str (str16 s ++ r) = Some (s, r).
Proof. intros H. unfold take_str. rewrite take_bin_str16. cbn [obind]. now rewrite H. Qed.

Lemma take_pid_u16be i r : nz16_ok i = true -> take_pid (u16be i ++ r) = Some (i, r).
Proof.
  unfold nz16_ok. intros H. unfold take_pid. rewrite take_u16_u16be. cbn [obind].
  replace (i =? 0) with false by lia. reflexivity.
Qed.

Lemma str_ok_utf8 s : str_ok s = true -> utf8_valid s = true.
Proof. unfold str_ok. intros H. now apply andb_true_iff in H. Qed.

(* ------------------------------------------------------------------ flag bytes, bit by bit *)
Lemma connect_flags_bits c :
  N.testbit (connect_flags c) 0 = false /\
  N.testbit (connect_flags c) 1 = c_clean_session c /\
  N.testbit (connect_flags c) 2 = is_some (c_last_will c) /\
  (if N.testbit (connect_flags c) 3 then 1 else 0) + (if N.testbit (connect_flags c) 4 then 2 else 0)
  = match c_last_will c with Some w => qos_number (lw_qos w) | None => 0 end /\
  N.testbit (connect_flags c) 5 = match c_last_will c with Some w => lw_retain w | None => false end /\
  N.testbit (connect_flags c) 6 = is_some (c_password c) /\
  N.testbit (connect_flags c) 7 = is_some (c_username c).
Proof.
  destruct c as [cs ka [[q rt t m]|] cid [u|] [p|]]; destruct cs; try destruct q; try destruct rt;
    vm_compute; repeat split; reflexivity.
Qed.

Lemma pub_first_byte_bits p :
  (255 <? pub_first_byte p) = false /\
  N.shiftr (pub_first_byte p) 4 = 3 /\
  let fl := N.land (pub_first_byte p) 15 in
  N.testbit fl 3 = p_dup p /\
  (if N.testbit fl 1 then 1 else 0) + (if N.testbit fl 2 then 2 else 0) = qos_number (p_qos p) /\
  N.testbit fl 0 = p_retain p.
Proof. destruct p as [d r q t i ps]; destruct d, r, q; vm_compute; repeat split; reflexivity. Qed.

(* ------------------------------------------------------------------ variable header + payload per kind *)
Lemma spec_sub_list_enc fs : forall fuel, (length (sub_bytes fs) <= fuel)%nat ->
  forallb (fun f => str_ok (fst f)) fs = true ->
  spec_sub_list fuel (sub_bytes fs) = Some (map (fun f => (fst f, qos_number (snd f))) fs).
Proof.
  induction fs as [|[f q] r IH]; intros fuel Hl Hok; [destruct fuel; reflexivity|].
  cbn [forallb fst] in Hok. apply andb_true_iff in Hok as [H1 H2]. apply str_ok_utf8 in H1.
  cbn [sub_bytes] in *.
  assert (E : str16 f ++ [qos_to_n q] ++ sub_bytes r
              = (len f / 256) :: (len f mod 256) :: f ++ [qos_to_n q] ++ sub_bytes r) by reflexivity.
  destruct fuel as [|k].
  { rewrite E in Hl. cbn [length] in Hl. lia. }
  rewrite E at 1. cbn [spec_sub_list]. rewrite <- E.
  rewrite (take_str_str16 f _ H1). cbn [obind app].
  replace (2 <? qos_to_n q) with false by (destruct q; reflexivity).
  rewrite IH; [|rewrite E in Hl; cbn [length] in Hl; rewrite app_length in Hl; cbn [length app] in Hl; lia|exact H2].
  cbn [obind map fst snd]. destruct q; reflexivity.
Qed.

Lemma spec_unsub_list_enc fs : forall fuel, (length (unsub_bytes fs) <= fuel)%nat ->
  forallb str_ok fs = true -> spec_unsub_list fuel (unsub_bytes fs) = Some fs.
Proof.
  induction fs as [|f r IH]; intros fuel Hl Hok; [destruct fuel; reflexivity|].
  cbn [forallb] in Hok. apply andb_true_iff in Hok as [H1 H2]. apply str_ok_utf8 in H1.
  cbn [unsub_bytes] in *.
  assert (E : str16 f ++ unsub_bytes r = (len f / 256) :: (len f mod 256) :: f ++ unsub_bytes r) by reflexivity.
  destruct fuel as [|k].
  { rewrite E in Hl. cbn [length] in Hl. lia. }
  rewrite E at 1. cbn [spec_unsub_list]. rewrite <- E.
  rewrite (take_str_str16 f _ H1). cbn [obind].
  rewrite IH; [reflexivity| |exact H2]. rewrite E in Hl. cbn [length] in Hl. rewrite app_length in Hl. lia.
Qed.

Lemma spec_connect_enc c : connect_ok c = true ->
  spec_connect_body (connect_body c) = Some (SConnect (to_spec_connect c)).
Proof.
  unfold connect_ok. intros Hok.
  apply andb_true_iff in Hok as [Hok H5]. apply andb_true_iff in Hok as [Hok H4].
  apply andb_true_iff in Hok as [Hok H3]. apply andb_true_iff in Hok as [H1 H2].
  apply str_ok_utf8 in H3.
  destruct (connect_flags_bits c) as (B0 & B1 & B2 & B34 & B5 & B6 & B7).
  unfold connect_body, spec_connect_body.
  rewrite <- (app_nil_r (opt16 (c_password c))).
  rewrite (take_str_str16 MQTT _ eq_refl). cbn [obind].
  change (bytes_eqb MQTT [77; 81; 84; 84]) with true. cbn [negb app].
  change (MQTT_LEVEL_3 =? 4) with true. cbn [negb].
  rewrite B0, B1, B2, B34, B5, B6, B7.
  replace (match c_last_will c with Some w => qos_number (lw_qos w) | None => 0 end =? 3) with false
    by (destruct (c_last_will c) as [[[] ? ? ?]|]; reflexivity).
  replace (negb (is_some (c_last_will c))
           && (negb (match c_last_will c with Some w => qos_number (lw_qos w) | None => 0 end =? 0)
               || match c_last_will c with Some w => lw_retain w | None => false end)) with false
    by (destruct (c_last_will c); reflexivity).
  rewrite take_u16_u16be. cbn [obind]. rewrite (take_str_str16 _ _ H3). cbn [obind].
  unfold to_spec_connect. clear B0 B1 B2 B34 B5 B6 B7.
  destruct c as [cs ka [w|] cid [u|] [p|]]; cbn [is_some will_bytes opt16 opt_ok option_map c_clean_session
    c_keep_alive c_last_will c_client_id c_username c_password app] in *;
    rewrite <- ?app_assoc;
    try (unfold last_will_ok in H2; apply andb_true_iff in H2 as [H2 _]; apply str_ok_utf8 in H2);
    try apply str_ok_utf8 in H4;
    repeat (cbn [obind]; first [rewrite take_str_str16 by assumption | rewrite take_bin_str16]);
    cbn [obind]; reflexivity.
Qed.

Lemma suback_codes st : map sub_rc_byte st = map suback_code st.
Proof. apply map_ext. intros [[]|]; reflexivity. Qed.
Lemma suback_codes_ok st : forallb suback_code_ok (map suback_code st) = true.
Proof. induction st as [|[[]|] r IH]; cbn [map forallb]; auto. Qed.

Lemma spec_ack_enc k i : nz16_ok i = true -> spec_ack_body k (u16be i) = Some (k i).
Proof.
  intros H. unfold spec_ack_body. rewrite <- (app_nil_r (u16be i)), (take_pid_u16be _ _ H). reflexivity.
Qed.

Lemma spec_body_enc p : packet_ok p = true ->
  let b0 := packet_type_of p in
  (255 <? b0) = false /\ spec_body (N.shiftr b0 4) (N.land b0 15) (body p) = Some (to_spec p).
Proof.
  intros Hok. cbn zeta. split; [destruct p; reflexivity|].
  destruct p; cbn [packet_ok packet_type_of body to_spec] in *.
  - change (spec_body _ _ ?x) with (spec_connect_body x). now apply spec_connect_enc.
  - destruct a as [[] []]; reflexivity.
  - change (spec_body _ _ ?x) with (spec_ack_body SPuback x). now apply spec_ack_enc.
  - change (spec_body _ _ ?x) with (spec_ack_body SPubrec x). now apply spec_ack_enc.
  - change (spec_body _ _ ?x) with (spec_ack_body SPubrel x). now apply spec_ack_enc.
  - change (spec_body _ _ ?x) with (spec_ack_body SPubcomp x). now apply spec_ack_enc.
  - change (spec_body _ _ ?x) with (spec_subscribe_body x).
    apply andb_true_iff in Hok as [H1 H2]. unfold spec_subscribe_body.
    rewrite (take_pid_u16be _ _ H1). cbn [obind]. rewrite spec_sub_list_enc; auto.
  - change (spec_body _ _ ?x) with (spec_suback_body x). unfold spec_suback_body.
    rewrite (take_pid_u16be _ _ Hok). cbn [obind]. rewrite suback_codes, suback_codes_ok. reflexivity.
  - change (spec_body _ _ ?x) with (spec_unsubscribe_body x).
    apply andb_true_iff in Hok as [H1 H2]. unfold spec_unsubscribe_body.
    rewrite (take_pid_u16be _ _ H1). cbn [obind]. rewrite spec_unsub_list_enc; auto.
  - change (spec_body _ _ ?x) with (spec_ack_body SUnsuback x). now apply spec_ack_enc.
  - reflexivity.
  - reflexivity.
  - reflexivity.
Qed.

(* ------------------------------------------------------------------ C01: layout *)
Lemma v3_layout_packet_rest : forall max_size ep p bs ep' r,
  packet_ok p = true ->
  encodev max_size ep (EPacket p) [] = (bs, ep', Ok tt) ->
  spec_decode3 (bs ++ r) = Some (to_spec p, r).
Proof.
  intros ms ep p bs ep' r Hok He.
  apply v3_size_agrees_packet in He as (vi & Hvi & -> & Hl & _).
  destruct (spec_body_enc p Hok) as [H255 Hb]. cbn [app].
  unfold spec_decode3. rewrite H255. rewrite <- app_assoc, (spec_remlen_enc _ vi _ Hvi). cbn [obind].
  rewrite <- Hl, take_n_app. cbn [obind]. rewrite Hb. reflexivity.
Qed.

Lemma v3_layout_packet : forall p bs,
  packet_ok p = true ->
  encodev 0 None (EPacket p) [] = (bs, None, Ok tt) ->
  spec_decode3 bs = Some (to_spec p, []).
Proof.
  intros p bs Hok He. rewrite <- (app_nil_r bs). eapply v3_layout_packet_rest; eauto.
Qed.

Lemma spec_publish_enc p payload : publish_ok p = true -> pid_matches_qos p = true ->
  spec_publish_body (N.land (pub_first_byte p) 15) (pub_head p ++ payload) = Some (to_spec_publish p payload).
Proof.
  unfold publish_ok, pid_matches_qos. intros Hok Hq.
  apply andb_true_iff in Hok as [Hok _]. apply andb_true_iff in Hok as [H1 H2]. apply str_ok_utf8 in H1.
  apply eqb_prop in Hq.
  destruct (pub_first_byte_bits p) as (_ & _ & B3 & B12 & B0). cbn zeta in *.
  unfold spec_publish_body, pub_head, to_spec_publish. rewrite B3, B12, B0.
  replace (qos_number (p_qos p) =? 3) with false by (destruct (p_qos p); reflexivity).
  rewrite <- app_assoc, (take_str_str16 _ _ H1). cbn [obind].
  destruct (p_qos p), (p_packet_id p) as [i|]; cbn [is_qos12] in Hq; try discriminate; cbn [opt_ok] in H2;
    cbn [qos_number];
    try (change (1 =? 0) with false; change (2 =? 0) with false; cbv iota;
         rewrite (take_pid_u16be _ _ H2)); reflexivity.
Qed.

Lemma v3_layout_publish_rest : forall max_size ep p payload bs ep' r,
  publish_ok p = true ->
  encodev max_size ep (EPublish p (Some payload)) [] = (bs, ep', Ok tt) ->
  ep' = None ->
  spec_decode3 (bs ++ r) = Some (to_spec_publish p payload, r).
Proof.
  intros ms ep p payload bs ep' r Hok He ->.
  pose proof Hok as Hok'. unfold publish_ok in Hok'. apply andb_true_iff in Hok' as [_ Hps].
  apply v3_size_agrees_publish in He as (vi & Hvi & -> & Hl & Hl2 & Hf & _); [|lia].
  cbn [owed] in *. unfold publish_fits in Hf. apply andb_true_iff in Hf as [_ Hq].
  destruct (pub_first_byte_bits p) as (H255 & Hty & _). cbn [app].
  unfold spec_decode3. rewrite H255, Hty. rewrite <- app_assoc, (spec_remlen_enc _ vi _ Hvi). cbn [obind].
  replace (get_encoded_publish_size p) with (len (pub_head p ++ payload)) by lia.
  rewrite take_n_app. cbn [obind].
  change (spec_body 3 ?f ?x) with (spec_publish_body f x).
  rewrite (spec_publish_enc p payload Hok Hq). reflexivity.
Qed.

(* PUBLISH carrying its whole payload inline (payload_size = length of the payload) *)
Lemma v3_layout_publish : forall p payload bs,
  publish_ok p = true -> p_payload_size p = len payload ->
  encodev 0 None (EPublish p (Some payload)) [] = (bs, None, Ok tt) ->
  spec_decode3 bs = Some (to_spec_publish p payload, []).
Proof.
  intros p payload bs Hok Hp He. rewrite <- (app_nil_r bs). eapply v3_layout_publish_rest; eauto.
Qed.

(* ------------------------------------------------------------------ values the codec writes although the
   specification forbids them (the codec polices the layout, not these rules) *)
Definition encodes_nonconformant (p : packet) : Prop :=
  packet_ok p = true /\
  exists bs sp, encodev 0 None (EPacket p) [] = (bs, None, Ok tt) /\
                spec_decode3 bs = Some (sp, []) /\ spec_conformant sp = false.

(* SUBSCRIBE / UNSUBSCRIBE without any topic filter [MQTT-3.8.3-3] [MQTT-3.10.3-2] *)
Lemma v3_writes_empty_subscribe : encodes_nonconformant (PSubscribe 1 []) /\ encodes_nonconformant (PUnsubscribe 1 []).
Proof. split; (split; [reflexivity|]); do 2 eexists; repeat split; vm_compute; reflexivity. Qed.

(* CONNECT with a password but no user name [MQTT-3.1.2-22] *)
Lemma v3_writes_password_without_username :
  encodes_nonconformant (PConnect (mkConnect true 0 None [97] None (Some [112]))).
Proof. split; [reflexivity|]. do 2 eexists; repeat split; vm_compute; reflexivity. Qed.

(* CONNACK with session present = 1 and a refusal code [MQTT-3.2.2-4], or the reserved code 6 *)
Lemma v3_writes_bad_connack :
  encodes_nonconformant (PConnectAck (mkConnectAck NotAuthorized true)) /\
  encodes_nonconformant (PConnectAck (mkConnectAck Reserved false)).
Proof. split; (split; [reflexivity|]); do 2 eexists; repeat split; vm_compute; reflexivity. Qed.

(* and the decoder accepts them back (v3_roundtrip_packet), e.g. the empty SUBSCRIBE *)
Lemma v3_accepts_empty_subscribe :
  decode_step 0 0 FrameHeader [130; 2; 0; 1] = (Ok (Some (IPacket (PSubscribe 1 []) 2)), FrameHeader, []).
Proof. vm_compute. reflexivity. Qed.
