(* Proofs/CodecV3Sem.v -- C10, part 2: a chunking-free big-step reading of the decoder ([sem]): what a
   byte stream means as a sequence of events, independent of min_chunk and of how bytes arrive. *)
From Coq Require Import ZArith ZifyN ZifyBool Lia.
From MV Require Import Base.Prelude Base.Res Base.VarInt Base.Utf8 Proofs.VarIntProofs Model.CodecV3
  Proofs.CodecV3Lib Proofs.CodecV3Dec Proofs.CodecV3Stable Proofs.CodecV3Frag.
Ltac Zify.zify_post_hook ::= Z.div_mod_to_equations.
Set Warnings "-unused-intro-pattern".

(* ------------------------------------------------------------------ events: items with payload bytes flattened *)
Inductive ev := EvPacket (p : packet) (rl : N) | EvPublish (p : publish) (rl : N) | EvByte (b : N).

Definition events_of (it : item) : list ev :=
  match it with
  | IPacket p rl => [EvPacket p rl]
  | IPublish p pl rl => EvPublish p rl :: map EvByte pl
  | IChunk pl _ => map EvByte pl
  end.
Definition events (its : list item) : list ev := flat_map events_of its.

Lemma events_app a b : events (a ++ b) = events a ++ events b.
Proof. unfold events. apply flat_map_app. Qed.

(* payload bytes sitting in the buffer of a decoder that is in the middle of a payload *)
Definition pending (st : dstate) (buf : bytes) : list ev :=
  match st with PublishPayload n => map EvByte (firstn (N.to_nat n) buf) | _ => [] end.

(* the same decoder after handing those bytes over *)
Definition flush (st : dstate) (buf : bytes) : dstate * bytes :=
  match st with
  | PublishPayload n => if len buf <? n then (PublishPayload (n - len buf), []) else (st, buf)
  | _ => (st, buf)
  end.

(* ------------------------------------------------------------------ list splitting under append *)
Lemma firstn_app_le n (a b : bytes) : n <= len a -> firstn (N.to_nat n) (a ++ b) = firstn (N.to_nat n) a.
Proof.
  intros H. rewrite firstn_app. replace (N.to_nat n - length a)%nat with 0%nat by (rewrite <- len_length; lia).
  cbn [firstn]. apply app_nil_r.
Qed.
Lemma skipn_app_le n (a b : bytes) : n <= len a -> skipn (N.to_nat n) (a ++ b) = skipn (N.to_nat n) a ++ b.
Proof.
  intros H. rewrite skipn_app. replace (N.to_nat n - length a)%nat with 0%nat by (rewrite <- len_length; lia).
  reflexivity.
Qed.
Lemma firstn_app_ge' n (a b : bytes) : len a <= n ->
  firstn (N.to_nat n) (a ++ b) = a ++ firstn (N.to_nat (n - len a)) b.
Proof.
  intros H. rewrite firstn_app. rewrite firstn_all2 by (rewrite <- len_length; lia).
  f_equal. f_equal. rewrite <- len_length. lia.
Qed.
Lemma skipn_app_ge n (a b : bytes) : len a <= n ->
  skipn (N.to_nat n) (a ++ b) = skipn (N.to_nat (n - len a)) b.
Proof.
  intros H. rewrite skipn_app. rewrite skipn_all2 by (rewrite <- len_length; lia).
  cbn [app]. f_equal. rewrite <- len_length. lia.
Qed.

(* ------------------------------------------------------------------ the fixed header as a function *)
Inductive fixed := FNeed | FErr (e : N) | FOk (st : dstate) (r : bytes).

Definition parse_fixed (ms : N) (src : bytes) : fixed :=
  match src with
  | fb :: (_ :: _) as tl =>
    match dec_vi tl with
    | Ok (rl, r) =>
      if negb (ms =? 0) && (ms <? rl) then FErr DE_MaxSizeExceeded
      else FOk (if is_publish fb then PublishHeader fb rl else Frame fb rl) r
    | Err e => if e =? DE_MalformedPacket then FNeed else FErr e
    | Panic _ => FNeed
    end
  | _ => FNeed
  end.

Lemma step_frame_header_fixed ms mc src :
  step_frame_header ms mc src
  = match parse_fixed ms src with
    | FNeed => (Ok None, FrameHeader, src)
    | FErr e => (Err e, FrameHeader, src)
    | FOk st r => decode_step ms mc st r
    end.
Proof.
  destruct src as [|fb [|t tl]]; try reflexivity.
  unfold step_frame_header, parse_fixed.
  replace (len (fb :: t :: tl) <? 2) with false by (lens; lia).
  unfold dec_vi_opt. pose proof (dec_vi_total (t :: tl)) as T.
  destruct (dec_vi (t :: tl)) as [[rl r]|e|s] eqn:Ed; try contradiction.
  - destruct (negb (ms =? 0) && (ms <? rl)); [reflexivity|].
    destruct (dec_vi_consumes _ _ _ Ed) as (p & Hp & Hl). rewrite Hp.
    assert (Hl' : 1 <= len p <= 4) by (rewrite <- len_length in Hl; lia).
    unfold advance. replace (len (fb :: p ++ r) <? len (p ++ r) - len r + 1) with false by (lens; lia).
    replace (N.to_nat (len (p ++ r) - len r + 1)) with (S (N.to_nat (len p))) by (lens; lia).
    cbn [skipn]. rewrite skipn_len_app.
    destruct (is_publish fb); cbn [decode_step]; [reflexivity|].
    unfold step_frame. destruct (len r <? rl); reflexivity.
  - destruct (e =? DE_MalformedPacket); reflexivity.
Qed.

Lemma parse_fixed_ok_inv ms src st r : parse_fixed ms src = FOk st r ->
  st <> FrameHeader /\ dstate_ok st = true /\ len r <= len src.
Proof.
  destruct src as [|fb [|t tl]]; try discriminate. unfold parse_fixed.
  destruct (dec_vi (t :: tl)) as [[rl r']|e|s] eqn:Ed; try discriminate.
  - destruct (_ && _); [discriminate|]. intros [= <- <-].
    pose proof (dec_vi_bound _ _ _ Ed). destruct (dec_vi_consumes _ _ _ Ed) as (p & Hp & _).
    apply (f_equal len) in Hp. revert Hp. lens. intros Hp.
    destruct (is_publish fb); cbn [dstate_ok]; repeat split; try discriminate; lia.
  - destruct (_ =? _); discriminate.
Qed.

Lemma parse_fixed_ok_app ms src st r x : parse_fixed ms src = FOk st r -> parse_fixed ms (src ++ x) = FOk st (r ++ x).
Proof.
  destruct src as [|fb [|t tl]]; try discriminate. cbn [app]. unfold parse_fixed.
  destruct (dec_vi (t :: tl)) as [[rl r']|e|s] eqn:Ed; try discriminate.
  - change (t :: tl ++ x) with ((t :: tl) ++ x). rewrite (dec_vi_app _ _ _ x Ed).
    destruct (_ && _); [discriminate|]. now intros [= <- <-].
  - destruct (_ =? _); discriminate.
Qed.

Lemma parse_fixed_err_app ms src e x : parse_fixed ms src = FErr e -> parse_fixed ms (src ++ x) = FErr e.
Proof.
  destruct src as [|fb [|t tl]]; try discriminate. cbn [app]. unfold parse_fixed.
  change (t :: tl ++ x) with ((t :: tl) ++ x).
  destruct (dec_vi (t :: tl)) as [[rl r']|e'|s] eqn:Ed; try discriminate.
  - rewrite (dec_vi_app _ _ _ x Ed). destruct (_ && _); [auto|discriminate].
  - destruct (e' =? DE_MalformedPacket) eqn:Ee; [discriminate|]. intros [= <-].
    rewrite (dec_vi_err_app _ _ x Ed) by lia. now rewrite Ee.
Qed.

(* ------------------------------------------------------------------ the PUBLISH variable header as a function *)
Inductive pubhdr := PNeed | PErr (e : N) (rest : bytes) | POk (pub : publish) (rest : bytes).

Definition parse_pub (fb rl : N) (src : bytes) : pubhdr :=
  if rl <? 2 then PErr DE_InvalidLength src
  else
    match publish_size src fb with
    | Err e => PErr e src
    | Panic _ => PNeed
    | Ok None => PNeed
    | Ok (Some hdr) =>
      if rl <? hdr then PErr DE_InvalidLength src
      else if len src <? hdr then PNeed
      else
        match decode_publish_packet (firstn (N.to_nat hdr) src) fb (rl - hdr) with
        | Ok (pub, _) => POk pub (skipn (N.to_nat hdr) src)
        | Err e => PErr e (skipn (N.to_nat hdr) src)
        | Panic _ => PNeed
        end
    end.

(* what the PublishHeader arm does with the payload once the header is parsed *)
Definition deliver (mc : N) (fb rl : N) (pub : publish) (src : bytes) : step_out :=
  let payload_len := p_payload_size pub in
  let l := as_u32 (len src) in
  if (payload_len <=? l) || (mc =? 0) || (mc <=? l) then
    let (payload, src') := split_at (N.min (len src) payload_len) src in
    match sub_chk payload_len (as_u32 (len payload)) with
    | Err e => (Err e, PublishHeader fb rl, src')
    | Panic s => (Panic s, PublishHeader fb rl, src')
    | Ok remaining =>
      (Ok (Some (IPublish pub payload rl)),
       (if 0 <? remaining then PublishPayload remaining else FrameHeader), src')
    end
  else (Ok (Some (IPublish pub [] rl)), PublishPayload payload_len, src).

Lemma step_publish_header_parse mc fb rl src :
  step_publish_header mc fb rl src
  = match parse_pub fb rl src with
    | PNeed => (Ok None, PublishHeader fb rl, src)
    | PErr e r => (Err e, PublishHeader fb rl, r)
    | POk pub r => deliver mc fb rl pub r
    end.
Proof.
  unfold step_publish_header, parse_pub. destruct (rl <? 2); [reflexivity|].
  pose proof (publish_size_np src fb) as Hnp.
  destruct (publish_size src fb) as [[hdr|]|e|s]; try contradiction; try reflexivity.
  destruct (rl <? hdr) eqn:E1; [reflexivity|]. destruct (len src <? hdr) eqn:E2; [reflexivity|].
  rewrite sub_chk_ok by lia. unfold split_at at 1.
  pose proof (decode_publish_packet_np (firstn (N.to_nat hdr) src) fb (rl - hdr)) as Hnp2.
  destruct (decode_publish_packet _ fb (rl - hdr)) as [[pub x]|e|s] eqn:Ed; try contradiction; try reflexivity.
  apply decode_publish_packet_size in Ed. unfold deliver. rewrite Ed. reflexivity.
Qed.

Lemma parse_pub_ok_inv fb rl src pub r : rl <= VI_MAX -> parse_pub fb rl src = POk pub r ->
  p_payload_size pub <= VI_MAX /\ len r <= len src.
Proof.
  intros Hrl. unfold parse_pub. destruct (rl <? 2); [discriminate|].
  destruct (publish_size src fb) as [[hdr|]|e|s]; try discriminate.
  destruct (rl <? hdr) eqn:E1; [discriminate|]. destruct (len src <? hdr) eqn:E2; [discriminate|].
  destruct (decode_publish_packet _ fb (rl - hdr)) as [[pub' x]|e|s] eqn:Ed; try discriminate.
  intros [= <- <-]. apply decode_publish_packet_size in Ed. rewrite Ed. lens. lia.
Qed.

Lemma publish_size_app src fb x r : publish_size src fb = r -> r <> Ok None -> publish_size (src ++ x) fb = r.
Proof.
  unfold publish_size. destruct src as [|a [|b tl]]; cbn [app]; intros <- H; try congruence.
Qed.

Lemma parse_pub_ok_app fb rl src pub r x :
  parse_pub fb rl src = POk pub r -> parse_pub fb rl (src ++ x) = POk pub (r ++ x).
Proof.
  unfold parse_pub. destruct (rl <? 2); [discriminate|].
  destruct (publish_size src fb) as [[hdr|]|e|s] eqn:Ep; try discriminate.
  rewrite (publish_size_app _ _ x _ Ep) by discriminate.
  destruct (rl <? hdr) eqn:E1; [discriminate|]. destruct (len src <? hdr) eqn:E2; [discriminate|].
  replace (len (src ++ x) <? hdr) with false by (lens; lia).
  rewrite firstn_app_le, skipn_app_le by lia.
  destruct (decode_publish_packet _ fb (rl - hdr)) as [[pub' y]|e|s]; try discriminate.
  now intros [= <- <-].
Qed.

Lemma parse_pub_err_app fb rl src e r x :
  parse_pub fb rl src = PErr e r -> parse_pub fb rl (src ++ x) = PErr e (r ++ x).
Proof.
  unfold parse_pub. destruct (rl <? 2); [now intros [= <- <-]|].
  destruct (publish_size src fb) as [[hdr|]|e'|s] eqn:Ep; try discriminate.
  - rewrite (publish_size_app _ _ x _ Ep) by discriminate.
    destruct (rl <? hdr) eqn:E1; [now intros [= <- <-]|]. destruct (len src <? hdr) eqn:E2; [discriminate|].
    replace (len (src ++ x) <? hdr) with false by (lens; lia).
    rewrite firstn_app_le, skipn_app_le by lia.
    destruct (decode_publish_packet _ fb (rl - hdr)) as [[pub' y]|e''|s]; try discriminate.
    now intros [= <- <-].
  - rewrite (publish_size_app _ _ x _ Ep) by discriminate. now intros [= <- <-].
Qed.

(* ------------------------------------------------------------------ big-step meaning of (state, bytes) *)
Inductive sem (ms : N) : dstate -> bytes -> list ev -> dstate -> bytes -> outcome -> Prop :=
| sem_fh_need src :
    parse_fixed ms src = FNeed -> sem ms FrameHeader src [] FrameHeader src NeedMore
| sem_fh_err src e :
    parse_fixed ms src = FErr e -> sem ms FrameHeader src [] FrameHeader src (Failed e)
| sem_fh_ok src st r E st' b' o :
    parse_fixed ms src = FOk st r -> sem ms st r E st' b' o -> sem ms FrameHeader src E st' b' o
| sem_fr_need fb rl src :
    len src < rl -> sem ms (Frame fb rl) src [] (Frame fb rl) src NeedMore
| sem_fr_err fb rl src e :
    rl <= len src -> decode_packet fb (firstn (N.to_nat rl) src) = Err e ->
    sem ms (Frame fb rl) src [] (Frame fb rl) (skipn (N.to_nat rl) src) (Failed e)
| sem_fr_ok fb rl src p E st' b' o :
    rl <= len src -> decode_packet fb (firstn (N.to_nat rl) src) = Ok p ->
    sem ms FrameHeader (skipn (N.to_nat rl) src) E st' b' o ->
    sem ms (Frame fb rl) src (EvPacket p rl :: E) st' b' o
| sem_ph_need fb rl src :
    parse_pub fb rl src = PNeed -> sem ms (PublishHeader fb rl) src [] (PublishHeader fb rl) src NeedMore
| sem_ph_err fb rl src e r :
    parse_pub fb rl src = PErr e r -> sem ms (PublishHeader fb rl) src [] (PublishHeader fb rl) r (Failed e)
| sem_ph_ok fb rl src pub r E st' b' o :
    parse_pub fb rl src = POk pub r -> sem ms (PublishPayload (p_payload_size pub)) r E st' b' o ->
    sem ms (PublishHeader fb rl) src (EvPublish pub rl :: E) st' b' o
| sem_pp_need n src :
    len src < n -> sem ms (PublishPayload n) src (map EvByte src) (PublishPayload (n - len src)) [] NeedMore
| sem_pp_done n src E st' b' o :
    n <= len src -> sem ms FrameHeader (skipn (N.to_nat n) src) E st' b' o ->
    sem ms (PublishPayload n) src (map EvByte (firstn (N.to_nat n) src) ++ E) st' b' o.

(* the meaning is a function of (state, bytes) *)
Ltac sem_eqs :=
  repeat match goal with
  | A : parse_fixed ?m ?s = _, B : parse_fixed ?m ?s = _ |- _ => rewrite A in B; inversion B; subst; clear B
  | A : parse_pub ?f ?r ?s = _, B : parse_pub ?f ?r ?s = _ |- _ => rewrite A in B; inversion B; subst; clear B
  | A : decode_packet ?f ?s = _, B : decode_packet ?f ?s = _ |- _ => rewrite A in B; inversion B; subst; clear B
  end.

Lemma sem_det ms st b E1 s1 b1 o1 : sem ms st b E1 s1 b1 o1 ->
  forall E2 s2 b2 o2, sem ms st b E2 s2 b2 o2 -> E1 = E2 /\ s1 = s2 /\ b1 = b2 /\ o1 = o2.
Proof.
  induction 1; intros E2 s2 b2 o2 H2; inversion H2; subst; sem_eqs; try lia; auto;
    match goal with IH : forall _ _ _ _, sem _ ?s ?b _ _ _ _ -> _, X : sem _ ?s ?b _ _ _ _ |- _ =>
      destruct (IH _ _ _ _ X) as (-> & -> & -> & ->) end; auto.
Qed.

Lemma sem_pp_nil ms m E st' b' o : 0 < m -> sem ms (PublishPayload m) [] E st' b' o ->
  E = [] /\ st' = PublishPayload m /\ b' = [] /\ o = NeedMore.
Proof.
  intros Hm H. inversion H; subst.
  - rewrite len_nil, N.sub_0_r. auto.
  - rewrite len_nil in *. lia.
Qed.

(* more bytes behind a stream that ended in "need more": the meanings compose *)
Lemma sem_app_need ms st b E st1 b1 o1 : sem ms st b E st1 b1 o1 -> o1 = NeedMore ->
  forall x E2 st2 b2 o, sem ms st1 (b1 ++ x) E2 st2 b2 o -> sem ms st (b ++ x) (E ++ E2) st2 b2 o.
Proof.
  induction 1; intros Ho x E2 st2 b2 o2 H2; try discriminate; cbn [app].
  - exact H2.
  - eapply sem_fh_ok; [apply parse_fixed_ok_app; eassumption|]. now apply IHsem.
  - exact H2.
  - eapply sem_fr_ok.
    + lens. lia.
    + rewrite firstn_app_le by lia. eassumption.
    + rewrite skipn_app_le by lia. now apply IHsem.
  - exact H2.
  - eapply sem_ph_ok; [apply parse_pub_ok_app; eassumption|]. now apply IHsem.
  - (* in the middle of a payload *)
    cbn [app] in H2. inversion H2; subst.
    + rewrite <- map_app. replace (n - len src - len x) with (n - len (src ++ x)) by (lens; lia).
      apply sem_pp_need. lens. lia.
    + rewrite app_assoc, <- map_app.
      replace (src ++ firstn (N.to_nat (n - len src)) x) with (firstn (N.to_nat n) (src ++ x))
        by (apply firstn_app_ge'; lia).
      apply sem_pp_done; [lens; lia|]. rewrite skipn_app_ge by lia. assumption.
  - rewrite <- app_assoc. rewrite <- (firstn_app_le n src x) by lia. apply sem_pp_done; [lens; lia|].
    rewrite skipn_app_le by lia. now apply IHsem.
Qed.

(* a stream that failed stays failed, with the same events, whatever follows *)
Lemma sem_app_fail ms st b E st1 b1 o1 : sem ms st b E st1 b1 o1 -> forall e, o1 = Failed e ->
  forall x, sem ms st (b ++ x) E st1 (b1 ++ x) (Failed e).
Proof.
  induction 1; intros e0 Ho x; try discriminate.
  - injection Ho as <-. apply sem_fh_err. now apply parse_fixed_err_app.
  - eapply sem_fh_ok; [apply parse_fixed_ok_app; eassumption|]. now apply IHsem.
  - injection Ho as <-. rewrite <- skipn_app_le by lia. apply sem_fr_err; [lens; lia|].
    rewrite firstn_app_le by lia. assumption.
  - eapply sem_fr_ok; [lens; lia|rewrite firstn_app_le by lia; eassumption|].
    rewrite skipn_app_le by lia. now apply IHsem.
  - injection Ho as <-. apply sem_ph_err. now apply parse_pub_err_app.
  - eapply sem_ph_ok; [apply parse_pub_ok_app; eassumption|]. now apply IHsem.
  - rewrite <- (firstn_app_le n src x) by lia. apply sem_pp_done; [lens; lia|].
    rewrite skipn_app_le by lia. now apply IHsem.
Qed.

(* bytes of a half-received payload can be handed over early *)
Lemma sem_unflush ms n b x E st' b' o : len b < n -> sem ms (PublishPayload n) (b ++ x) E st' b' o ->
  exists E', E = map EvByte b ++ E' /\ sem ms (PublishPayload (n - len b)) x E' st' b' o.
Proof.
  intros Hb H. inversion H as [| | | | | | | | |n0 src0 Hlt|n0 src0 E0 st0 b0 o0 Hle Hs]; subst.
  - exists (map EvByte x). rewrite map_app. split; [reflexivity|].
    replace (n - len (b ++ x)) with (n - len b - len x) by (lens; lia).
    apply sem_pp_need. revert Hlt. lens. lia.
  - exists (map EvByte (firstn (N.to_nat (n - len b)) x) ++ E0).
    rewrite firstn_app_ge' by lia. rewrite map_app, <- app_assoc. split; [reflexivity|].
    apply sem_pp_done; [revert Hle; lens; lia|]. rewrite skipn_app_ge in Hs by lia. exact Hs.
Qed.
