(* Proofs/InboundInv.v -- layer 2 of the inbound properties: invariants of the full operational model
   of Model/Inbound.v (scheduler, wakers, BufferService, response queue included) over ALL operation
   lists.
     [K s]      the part of the state the plumbing never touches (frames [K (f s) = K s], by a peeling tactic)
     [Inv s]    typing invariant: u16 packet identifiers everywhere (peer packets, call table, response
                queue codes), a DISCONNECT code waits in the response queue only when the io is closed,
                recorded errors carry a reason >= 0x80
     [E s s']   evolution preorder: DISCONNECT flag / close flags monotone, the wire only grows, nothing
                is written once the io is closed, at most one DISCONNECT (guarded by the flag), every
                DISCONNECT has reason >= 0x80 on v5, the Stop notification happens at most once and only
                on leaving DProc
     [Step s s' = Inv s' /\ E s s'] is proved for every function of the model up to [run_all] and
     [step_op]; [run_props] / [reach_props] state the consequences for the traces the engines print. *)
From Coq Require Import ZArith ZifyN ZifyBool Lia List NArith Bool.
From MV Require Import Base.Prelude Model.RespQueue Model.Inbound Proofs.InboundLogic.
Import ListNotations.
Open Scope N_scope.

(* ================================================================== frames
   [K s]: the part of the state the scheduler / buffer / waker plumbing never changes. *)
Record core := mkCore {
  k_c : cfg; k_p : pst; k_l : lst; k_q : rq; k_wire : list N; k_closing : bool; k_stopped : bool;
  k_chan : list pkt; k_rbuf : list pkt; k_dst : dstate; k_stopping : bool; k_lasterr : errk; k_qerrs : list errk }.

Definition K (s : st) : core :=
  mkCore (c_ s) (p_ s) (l_ s) (q_ s) (wire (i_ s)) (closing (i_ s)) (stopped (i_ s)) (chan (i_ s)) (rbuf (i_ s))
         (dst (s_ s)) (stopping (s_ s)) (lasterr (s_ s)) (qerrs (s_ s)).

Definition ks_inv (g : sst -> sst) : Prop :=
  forall x, dst (g x) = dst x /\ stopping (g x) = stopping x /\ lasterr (g x) = lasterr x /\ qerrs (g x) = qerrs x.
Definition ki_inv (g : ist -> ist) : Prop :=
  forall x, wire (g x) = wire x /\ closing (g x) = closing x /\ stopped (g x) = stopped x /\
            chan (g x) = chan x /\ rbuf (g x) = rbuf x.

Lemma K_up_b g s : K (up_b g s) = K s. Proof. reflexivity. Qed.
Lemma K_up_s g s : ks_inv g -> K (up_s g s) = K s.
Proof. intros H. destruct (H (s_ s)) as (H1 & H2 & H3 & H4). unfold K. cbn [up_s c_ p_ l_ q_ i_ s_]. now rewrite H1, H2, H3, H4. Qed.
Lemma K_up_i g s : ki_inv g -> K (up_i g s) = K s.
Proof. intros H. destruct (H (i_ s)) as (H1 & H2 & H3 & H4 & H5). unfold K. cbn [up_i c_ p_ l_ q_ i_ s_]. now rewrite H1, H2, H3, H4, H5. Qed.

Ltac ksolve := intro; repeat split; reflexivity.

Ltac kpeel :=
  repeat first [ progress cbn [fst snd] | rewrite K_up_b | rewrite K_up_s by ksolve | rewrite K_up_i by ksolve
               | progress autorewrite with kdb ].
(* a pair-returning sub-call destructed by [dm]:  E : f .. = (s1, r)  *)
Ltac kpair :=
  match goal with E : ?f = (?s1, _) |- context [K ?s1] =>
    let H := fresh in assert (H : K s1 = K (fst f)) by (rewrite E; reflexivity); rewrite H; clear H
  end.
Ltac kauto := intros; repeat dm; repeat (kpeel; try kpair); try reflexivity.

Lemma K_wake t s : K (wake t s) = K s.
Proof. unfold wake. kauto. Qed.
#[export] Hint Rewrite K_wake : kdb.
Lemma K_wake_opt t s : K (wake_opt t s) = K s.
Proof. unfold wake_opt. kauto. Qed.
#[export] Hint Rewrite K_wake_opt : kdb.
Lemma K_wake_all l s : K (wake_all l s) = K s.
Proof. revert s; induction l; intros; cbn [wake_all]; [reflexivity|]. rewrite IHl. kauto. Qed.
#[export] Hint Rewrite K_wake_all : kdb.
Lemma K_wake_disp s : K (wake_disp s) = K s.
Proof. unfold wake_disp. kauto. Qed.
#[export] Hint Rewrite K_wake_disp : kdb.
Lemma K_wake_cnt s : K (wake_cnt s) = K s.
Proof. unfold wake_cnt. kauto. Qed.
#[export] Hint Rewrite K_wake_cnt : kdb.
Lemma K_wake_lim s : K (wake_lim s) = K s.
Proof. unfold wake_lim. kauto. Qed.
#[export] Hint Rewrite K_wake_lim : kdb.
Lemma K_ip_notify s : K (ip_notify s) = K s.
Proof. unfold ip_notify. kauto. Qed.
#[export] Hint Rewrite K_ip_notify : kdb.
Lemma K_ip_push k t s : K (ip_push k t s) = K s.
Proof. unfold ip_push. kauto. Qed.
#[export] Hint Rewrite K_ip_push : kdb.
Lemma K_sp_notify s : K (sp_notify s) = K s.
Proof. unfold sp_notify. kauto. Qed.
#[export] Hint Rewrite K_sp_notify : kdb.
Lemma K_sp_push t s : K (sp_push t s) = K s.
Proof. unfold sp_push. kauto. Qed.
#[export] Hint Rewrite K_sp_push : kdb.
Lemma K_set_cst k v s : K (set_cst k v s) = K s.
Proof. unfold set_cst. kauto. Qed.
#[export] Hint Rewrite K_set_cst : kdb.
Lemma K_reg_guard o t s : K (reg_guard o t s) = K s.
Proof. unfold reg_guard. kauto. Qed.
#[export] Hint Rewrite K_reg_guard : kdb.
Lemma K_wake_guard o s : K (wake_guard o s) = K s.
Proof. unfold wake_guard. kauto. Qed.
#[export] Hint Rewrite K_wake_guard : kdb.
Lemma K_bs_ready0 who w s : K (fst (bs_ready0 who w s)) = K s.
Proof. unfold bs_ready0. kauto. Qed.
#[export] Hint Rewrite K_bs_ready0 : kdb.
Lemma K_bs_ready who w s : K (fst (bs_ready who w s)) = K s.
Proof. unfold bs_ready. kauto. Qed.
#[export] Hint Rewrite K_bs_ready : kdb.
Lemma K_lim_inc s : K (lim_inc s) = K s.
Proof. unfold lim_inc. kauto. Qed.
#[export] Hint Rewrite K_lim_inc : kdb.
Lemma K_lim_dec s : K (lim_dec s) = K s.
Proof. unfold lim_dec. kauto. Qed.
#[export] Hint Rewrite K_lim_dec : kdb.
Lemma K_release_guards k g s : K (release_guards k g s) = K s.
Proof. unfold release_guards. kauto. Qed.
#[export] Hint Rewrite K_release_guards : kdb.
Lemma K_retire_call k s : K (retire_call k s) = K s.
Proof. unfold retire_call. kauto. Qed.
#[export] Hint Rewrite K_retire_call : kdb.
Lemma K_cancel_call k s : K (cancel_call k s) = K s.
Proof. unfold cancel_call. kauto. Qed.
#[export] Hint Rewrite K_cancel_call : kdb.
Lemma K_r1_poll_srv s : K (fst (r1_poll_srv s)) = K s.
Proof. unfold r1_poll_srv. kauto. Qed.
#[export] Hint Rewrite K_r1_poll_srv : kdb.
Lemma K_r1_poll_cli s : K (fst (r1_poll_cli s)) = K s.
Proof. unfold r1_poll_cli. kauto. Qed.
#[export] Hint Rewrite K_r1_poll_cli : kdb.
Lemma K_r1_poll s : K (fst (r1_poll s)) = K s.
Proof. unfold r1_poll. kauto. Qed.
#[export] Hint Rewrite K_r1_poll : kdb.
Lemma K_wake_keys l s : K (wake_keys l s) = K s.
Proof. revert s; induction l; intros; cbn [wake_keys]; [reflexivity|]. rewrite IHl. kauto. Qed.
#[export] Hint Rewrite K_wake_keys : kdb.
Lemma K_wake_spawned l s : K (wake_spawned l s) = K s.
Proof. unfold wake_spawned. kauto. Qed.
#[export] Hint Rewrite K_wake_spawned : kdb.
Lemma K_free_key k s : K (free_key k s) = K s.
Proof. unfold free_key. kauto. Qed.
#[export] Hint Rewrite K_free_key : kdb.
Lemma K_tw_poll s : K (tw_poll s) = K s.
Proof. unfold tw_poll. kauto. Qed.
#[export] Hint Rewrite K_tw_poll : kdb.
Lemma K_wake_waiting_h h l s : K (wake_waiting_h h l s) = K s.
Proof. induction l; cbn [wake_waiting_h]; [reflexivity|]. kauto; auto. Qed.
#[export] Hint Rewrite K_wake_waiting_h : kdb.
Lemma K_wake_waiting_p h l s : K (wake_waiting_p h l s) = K s.
Proof. induction l; cbn [wake_waiting_p]; [reflexivity|]. kauto; auto. Qed.
#[export] Hint Rewrite K_wake_waiting_p : kdb.
(* ---- the calls table: [CL s] is untouched by most of the plumbing *)
Definition CL (s : st) : list call := calls (s_ s).
Definition cs_inv (g : sst -> sst) : Prop := forall x, calls (g x) = calls x.
Lemma CL_up_b g s : CL (up_b g s) = CL s. Proof. reflexivity. Qed.
Lemma CL_up_i g s : CL (up_i g s) = CL s. Proof. reflexivity. Qed.
Lemma CL_up_p g s : CL (up_p g s) = CL s. Proof. reflexivity. Qed.
Lemma CL_up_l g s : CL (up_l g s) = CL s. Proof. reflexivity. Qed.
Lemma CL_set_q q s : CL (set_q q s) = CL s. Proof. reflexivity. Qed.
Lemma CL_up_s g s : cs_inv g -> CL (up_s g s) = CL s.
Proof. intros H. unfold CL. cbn [up_s s_]. apply H. Qed.
Ltac csolve := intro; reflexivity.
Ltac cpeel :=
  repeat first [ progress cbn [fst snd] | rewrite CL_up_b | rewrite CL_up_i | rewrite CL_up_p | rewrite CL_up_l
               | rewrite CL_set_q | rewrite CL_up_s by csolve | progress autorewrite with cdb ].
Ltac cpair :=
  match goal with E : ?f = (?s1, _) |- context [CL ?s1] =>
    let H := fresh in assert (H : CL s1 = CL (fst f)) by (rewrite E; reflexivity); rewrite H; clear H
  end.
Ltac cauto := intros; repeat dm; repeat (cpeel; try cpair); try reflexivity.

Lemma CL_wake t s : CL (wake t s) = CL s. Proof. unfold wake. cauto. Qed.
#[export] Hint Rewrite CL_wake : cdb.
Lemma CL_wake_opt t s : CL (wake_opt t s) = CL s. Proof. unfold wake_opt. cauto. Qed.
#[export] Hint Rewrite CL_wake_opt : cdb.
Lemma CL_wake_all l s : CL (wake_all l s) = CL s.
Proof. revert s; induction l; intros; cbn [wake_all]; [reflexivity|]. rewrite IHl. cauto. Qed.
#[export] Hint Rewrite CL_wake_all : cdb.
Lemma CL_wake_disp s : CL (wake_disp s) = CL s. Proof. unfold wake_disp. cauto. Qed.
#[export] Hint Rewrite CL_wake_disp : cdb.
Lemma CL_wake_cnt s : CL (wake_cnt s) = CL s. Proof. unfold wake_cnt. cauto. Qed.
#[export] Hint Rewrite CL_wake_cnt : cdb.
Lemma CL_wake_lim s : CL (wake_lim s) = CL s. Proof. unfold wake_lim. cauto. Qed.
#[export] Hint Rewrite CL_wake_lim : cdb.
Lemma CL_ip_notify s : CL (ip_notify s) = CL s. Proof. unfold ip_notify. cauto. Qed.
#[export] Hint Rewrite CL_ip_notify : cdb.
Lemma CL_ip_push k t s : CL (ip_push k t s) = CL s. Proof. unfold ip_push. cauto. Qed.
#[export] Hint Rewrite CL_ip_push : cdb.
Lemma CL_sp_notify s : CL (sp_notify s) = CL s. Proof. unfold sp_notify. cauto. Qed.
#[export] Hint Rewrite CL_sp_notify : cdb.
Lemma CL_sp_push t s : CL (sp_push t s) = CL s. Proof. unfold sp_push. cauto. Qed.
#[export] Hint Rewrite CL_sp_push : cdb.
Lemma CL_reg_guard o t s : CL (reg_guard o t s) = CL s. Proof. unfold reg_guard. cauto. Qed.
#[export] Hint Rewrite CL_reg_guard : cdb.
Lemma CL_wake_guard o s : CL (wake_guard o s) = CL s. Proof. unfold wake_guard. cauto. Qed.
#[export] Hint Rewrite CL_wake_guard : cdb.
Lemma CL_lim_inc s : CL (lim_inc s) = CL s. Proof. unfold lim_inc. cauto. Qed.
#[export] Hint Rewrite CL_lim_inc : cdb.
Lemma CL_lim_dec s : CL (lim_dec s) = CL s. Proof. unfold lim_dec. cauto. Qed.
#[export] Hint Rewrite CL_lim_dec : cdb.
Lemma CL_release_guards k g s : CL (release_guards k g s) = CL s. Proof. unfold release_guards. cauto. Qed.
#[export] Hint Rewrite CL_release_guards : cdb.
Lemma CL_wake_keys l s : CL (wake_keys l s) = CL s.
Proof. revert s; induction l; intros; cbn [wake_keys]; [reflexivity|]. rewrite IHl. cauto. Qed.
#[export] Hint Rewrite CL_wake_keys : cdb.
Lemma CL_wake_spawned l s : CL (wake_spawned l s) = CL s. Proof. unfold wake_spawned. cauto. Qed.
#[export] Hint Rewrite CL_wake_spawned : cdb.
Lemma CL_free_key k s : CL (free_key k s) = CL s. Proof. unfold free_key. cauto. Qed.
#[export] Hint Rewrite CL_free_key : cdb.
Lemma CL_tw_poll s : CL (tw_poll s) = CL s. Proof. unfold tw_poll. cauto. Qed.
#[export] Hint Rewrite CL_tw_poll : cdb.
Lemma CL_wake_waiting_h h l s : CL (wake_waiting_h h l s) = CL s.
Proof. induction l; cbn [wake_waiting_h]; [reflexivity|]. cauto; auto. Qed.
#[export] Hint Rewrite CL_wake_waiting_h : cdb.
Lemma CL_wake_waiting_p h l s : CL (wake_waiting_p h l s) = CL s.
Proof. induction l; cbn [wake_waiting_p]; [reflexivity|]. cauto; auto. Qed.
#[export] Hint Rewrite CL_wake_waiting_p : cdb.
Lemma CL_io_encode t id r s : CL (io_encode t id r s) = CL s. Proof. unfold io_encode. cauto. Qed.
#[export] Hint Rewrite CL_io_encode : cdb.
Lemma CL_io_close s : CL (io_close s) = CL s. Proof. unfold io_close. cauto. Qed.
#[export] Hint Rewrite CL_io_close : cdb.
Lemma CL_emit l s : CL (emit l s) = CL s.
Proof. revert s; induction l; intros; cbn [emit wire_fields]; [reflexivity|]. rewrite IHl. cauto. Qed.
#[export] Hint Rewrite CL_emit : cdb.
Lemma CL_tio_poll s : CL (tio_poll s) = CL s. Proof. unfold tio_poll. cauto. Qed.
#[export] Hint Rewrite CL_tio_poll : cdb.
Lemma CL_close3c s : CL (close3c s) = CL s. Proof. unfold close3c, test_set_dsent. cauto. Qed.
#[export] Hint Rewrite CL_close3c : cdb.
Lemma CL_body p s : CL (fst (proto_body p s)) = CL s.
Proof. destruct p; bodies; cauto. Qed.
#[export] Hint Rewrite CL_body : cdb.
Lemma CL_hres q2 id res s : CL (fst (hres_any q2 id res s)) = CL s.
Proof. results. cauto. Qed.
#[export] Hint Rewrite CL_hres : cdb.
Lemma CL_ctl m a s : CL (fst (ctl_result m a s)) = CL s.
Proof. destruct m. results. cauto. Qed.
#[export] Hint Rewrite CL_ctl : cdb.
Lemma CL_ctlc m res s : CL (fst (ctl_result_c m res s)) = CL s.
Proof. destruct m. results. cauto. Qed.
#[export] Hint Rewrite CL_ctlc : cdb.

(* ================================================================== typing invariant (u16 identifiers) *)
Definition pkt_ok (p : pkt) : Prop :=
  match p with
  | KPublish _ id _ _ _ _ | KPubrel id | KSubscribe id _ | KUnsubscribe id _ => id < 65536
  | KBad r => 128 <= r < 256
  | _ => True
  end.
Definition cst_ok (c : cstate) : Prop :=
  match c with
  | CInit p | CGate p _ | CLimWait p => pkt_ok p
  | CHandler _ _ id => id < 65536
  | CCtlA m _ _ | CBuf m | CRel m | CWaitCnt m _ | CProto _ m _ => snd m < 65536
  end.
Definition CK (s : st) : Prop := Forall (fun c => cst_ok (cst c)) (CL s).

Lemma find_call_ok k l c : Forall (fun c => cst_ok (cst c)) l -> find_call k l = Some c -> cst_ok (cst c).
Proof.
  induction l as [|x l IH]; cbn [find_call]; [discriminate|]. intros H. inversion H; subst.
  destruct (cid x =? k); [intros E; now injection E as <-|auto].
Qed.
Lemma upd_call_ok k f l :
  Forall (fun c => cst_ok (cst c)) l -> (forall c, cst_ok (cst c) -> cst_ok (cst (f c))) ->
  Forall (fun c => cst_ok (cst c)) (upd_call k f l).
Proof.
  intros H Hf. induction l as [|x l IH]; cbn [upd_call]; auto. inversion H; subst.
  destruct (cid x =? k); constructor; auto.
Qed.
Lemma del_call_ok k l :
  Forall (fun c => cst_ok (cst c)) l -> Forall (fun c => cst_ok (cst c)) (del_call k l).
Proof.
  intros H. induction l as [|x l IH]; cbn [del_call]; auto. inversion H; subst.
  destruct (cid x =? k); auto.
Qed.

Lemma CK_eq s s' : CL s' = CL s -> CK s -> CK s'.
Proof. unfold CK. now intros ->. Qed.
Lemma CK_set_cst k v s : cst_ok v -> CK s -> CK (set_cst k v s).
Proof. intros Hv H. unfold CK, CL, set_cst. cbn [up_s s_ s_calls calls]. apply upd_call_ok; auto. Qed.
Lemma CK_find k s c : CK s -> find_call k (calls (s_ s)) = Some c -> cst_ok (cst c).
Proof. apply find_call_ok. Qed.
Lemma CK_upd_flag k b s :
  CK s -> CK (up_s (fun x => s_calls (upd_call k (fun c => mkCall (cid c) (cst c) b (chost c) (ckey c)) (calls x)) x) s).
Proof. intros H. unfold CK, CL. cbn [up_s s_ s_calls calls]. apply upd_call_ok; auto. Qed.
Lemma CK_del k s : CK s -> CK (up_s (fun x => s_calls (del_call k (calls x)) x) s).
Proof. intros H. unfold CK, CL. cbn [up_s s_ s_calls calls]. now apply del_call_ok. Qed.

(* CK through the plumbing that rewrites call states *)
Ltac fold_CK := match goal with |- Forall _ (CL ?s) => change (CK s) end.
Ltac ckstep cont :=
  first [ assumption
        | apply CK_set_cst; [cont|]
        | apply CK_upd_flag | apply CK_del
        | (unfold CK; progress cpeel; fold_CK) ].
Ltac cksolve := repeat ckstep ltac:(cstsolve)
with cstsolve :=
  cbn [cst_ok snd fst];
  first [ assumption | lia
        | match goal with Hf : find_call _ (calls (s_ ?S2)) = Some ?c, Hc : cst ?c = _ |- _ =>
            let HS := fresh in assert (HS : CK S2) by cksolve;
            apply (find_call_ok _ _ _ HS) in Hf; rewrite Hc in Hf; exact Hf end ].

Lemma CK_bs_ready0 who w s : CK s -> CK (fst (bs_ready0 who w s)).
Proof. intros H. unfold bs_ready0. repeat dm; cbn [fst]; cksolve. Qed.
Lemma CK_bs_ready who w s : CK s -> CK (fst (bs_ready who w s)).
Proof.
  intros H. pose proof (CK_bs_ready0 who w s H). unfold bs_ready. repeat dm; cbn [fst] in *; cksolve.
Qed.
Lemma CK_retire_call k s : CK s -> CK (retire_call k s).
Proof. intros H. unfold retire_call. repeat dm; cksolve. Qed.
Lemma CK_cancel_call k s : CK s -> CK (cancel_call k s).
Proof. intros H. unfold cancel_call. repeat dm; cksolve. Qed.
Ltac ckpair :=
  repeat match goal with E : ?f = (?s1, _) |- _ =>
    lazymatch goal with H : CK s1 |- _ => fail | _ => try fail end;
    let H := fresh in
    assert (H : CK s1) by (change s1 with (fst (s1, tt)); first
      [ replace s1 with (fst f) by (rewrite E; reflexivity);
        first [ apply CK_bs_ready | apply CK_bs_ready0 ]; cksolve ])
  end.

Lemma CK_r1_poll_srv s : CK s -> CK (fst (r1_poll_srv s)).
Proof. intros H. unfold r1_poll_srv. repeat (dm; try ckpair); cbn [fst]; cksolve. Qed.
Lemma CK_r1_poll_cli s : CK s -> CK (fst (r1_poll_cli s)).
Proof. intros H. unfold r1_poll_cli. repeat dm; cbn [fst]; cksolve. Qed.
Lemma CK_r1_poll s : CK s -> CK (fst (r1_poll s)).
Proof. intros H. unfold r1_poll. dm; [now apply CK_r1_poll_cli|now apply CK_r1_poll_srv]. Qed.
Lemma CK_shut_flush s : CK s -> CK (fst (shut_flush s)).
Proof. intros H. unfold shut_flush. repeat dm; cbn [fst]; cksolve. Qed.
Lemma CK_shut_done s : CK s -> CK (shut_done s).
Proof. intros H. unfold shut_done. cksolve. Qed.
(* ================================================================== evolution relation *)
Definition flat3 (ws : list (N * N * N)) : list N := flat_map (fun x => [fst (fst x); snd (fst x); snd x]) ws.
Definition is_disc (x : N * N * N) : bool := fst (fst x) =? 224.
Definition ndisc (ws : list (N * N * N)) : nat := length (filter is_disc ws).

Definition kclosed (a : core) : bool := k_closing a || k_stopped a.

(* a written packet: one of the types this endpoint answers with, u16 identifier, u8 reason *)
Definition trip_wf (x : N * N * N) : Prop :=
  In (fst (fst x)) [64; 80; 112; 144; 176; 208; 224] /\ snd (fst x) < 65536 /\ snd x < 256.

Record Ek (a b : core) : Prop := mkEk {
  e_c : k_c b = k_c a;
  e_dsent : dsent (k_p a) = true -> dsent (k_p b) = true;
  e_closing : k_closing a = true -> k_closing b = true;
  e_stopped : k_stopped a = true -> k_stopped b = true;
  e_wire : exists ws, k_wire b = k_wire a ++ flat3 ws /\
             (kclosed a = true -> ws = []) /\
             (ndisc ws + (if dsent (k_p a) then 1 else 0) <= 1)%nat /\
             (ndisc ws = 1%nat -> dsent (k_p b) = true) /\
             (forall x, In x ws -> trip_wf x /\ (is_disc x = true ->
                snd (fst x) = 0 /\ if v5 (k_c a) then 128 <= snd x else snd x = 0));
  e_dst : k_dst a <> DProc -> k_dst b <> DProc /\ stops (k_l b) = stops (k_l a);
  e_stops : k_dst a = DProc ->
            stops (k_l b) = stops (k_l a) \/ (stops (k_l b) = stops (k_l a) + 1 /\ k_dst b <> DProc)
}.

Definition E (s s' : st) : Prop := Ek (K s) (K s').

Lemma flat3_app a b : flat3 (a ++ b) = flat3 a ++ flat3 b.
Proof. unfold flat3. apply flat_map_app. Qed.
Lemma ndisc_app a b : ndisc (a ++ b) = (ndisc a + ndisc b)%nat.
Proof. unfold ndisc. now rewrite filter_app, app_length. Qed.

Lemma dstate_eq_dec_proc (d : dstate) : {d = DProc} + {d <> DProc}.
Proof. destruct d; [left; reflexivity|right; discriminate..]. Qed.

Lemma Ek_refl a : Ek a a.
Proof.
  constructor; auto.
  - exists []. cbn. rewrite app_nil_r. repeat split; auto; try (destruct (dsent (k_p a)); lia); try discriminate;
      try contradiction.
Qed.

Lemma Ek_trans a b c : Ek a b -> Ek b c -> Ek a c.
Proof.
  intros [A1 A2 A3 A4 (w1 & A5 & A6 & A7 & A8 & A9) A10 A11] [B1 B2 B3 B4 (w2 & B5 & B6 & B7 & B8 & B9) B10 B11].
  constructor.
  - congruence.
  - auto.
  - auto.
  - auto.
  - exists (w1 ++ w2). rewrite flat3_app, ndisc_app, app_assoc, <- A5, <- B5. split; auto.
    assert (Hcl : kclosed a = true -> kclosed b = true).
    { unfold kclosed. intros H. apply orb_true_iff in H as [H|H]; [rewrite (A3 H)|rewrite (A4 H)]; auto using orb_true_r. }
    split; [|split; [|split]].
    + intros H. rewrite (A6 H), (B6 (Hcl H)). reflexivity.
    + destruct (dsent (k_p a)) eqn:Da.
      * rewrite (A2 eq_refl) in B7. clear - A7 B7. lia.
      * destruct (ndisc w1) as [|[|n]] eqn:N1.
        -- clear - B7. destruct (dsent (k_p b)); lia.
        -- rewrite (A8 eq_refl) in B7. clear - B7. lia.
        -- clear - A7. lia.
    + intros H. destruct (ndisc w2) as [|n] eqn:N2; auto.
      * apply B2, A8. clear - H. lia.
      * apply B8. clear - B7 H. destruct (dsent (k_p b)); lia.
    + intros x Hx. apply in_app_or in Hx as [Hx|Hx]; auto. rewrite <- A1. auto.
  - intros H. destruct (A10 H) as [H1 H2]. destruct (B10 H1) as [H3 H4]. split; congruence.
  - intros H. destruct (A11 H) as [H1|[H1 H2]].
    + destruct (dstate_eq_dec_proc (k_dst b)) as [Hb|Hb].
      * destruct (B11 Hb) as [H3|[H3 H4]]; [left; congruence|right; split; congruence].
      * destruct (B10 Hb) as [H3 H4]. destruct (dstate_eq_dec_proc (k_dst c)); [contradiction|]. left. congruence.
    + destruct (B10 H2) as [H3 H4]. right. split; congruence.
Qed.

(* ================================================================== the response queue only moves codes *)
Definition rcodes (l : list slot) : list N :=
  flat_map (fun x => match x with SReady (HSome c) => [c] | _ => [] end) l.
Definition ritem (r : hres) : list N := match r with HSome c => [c] | _ => [] end.

Definition rq_flow (q q' : rq) (extra : list N) : Prop :=
  (exists new, out q' = out q ++ new /\ incl new (rcodes (queue q) ++ extra)) /\
  incl (rcodes (queue q')) (rcodes (queue q) ++ extra).

Lemma rq_flow_refl q extra : rq_flow q q extra.
Proof. split; [exists []; rewrite app_nil_r; split; auto; intros x []|]. apply incl_appl, incl_refl. Qed.

Lemma rq_flow_trans q1 q2 q3 e1 e2 : rq_flow q1 q2 e1 -> incl e1 e2 -> rq_flow q2 q3 e2 -> rq_flow q1 q3 e2.
Proof.
  intros [(n1 & A1 & A2) A3] He [(n2 & B1 & B2) B3].
  assert (I : incl (rcodes (queue q2) ++ e2) (rcodes (queue q1) ++ e2)).
  { apply incl_app; [|apply incl_appr, incl_refl].
    eapply incl_tran; [exact A3|]. apply incl_app; [apply incl_appl, incl_refl|apply incl_appr; auto]. }
  split.
  - exists (n1 ++ n2). rewrite B1, A1, app_assoc. split; auto.
    apply incl_app.
    + eapply incl_tran; [exact A2|]. apply incl_app; [apply incl_appl, incl_refl|apply incl_appr; auto].
    + eapply incl_tran; [exact B2|exact I].
  - eapply incl_tran; [exact B3|exact I].
Qed.

Lemma rq_flow_same_lists q q' extra :
  out q' = out q -> queue q' = queue q -> rq_flow q q' extra.
Proof. intros H1 H2. split; rewrite ?H1, ?H2; [exists []; rewrite app_nil_r; split; auto; intros x []|apply incl_appl, incl_refl]. Qed.

Lemma rcodes_tl l : incl (rcodes (tl l)) (rcodes l).
Proof. destruct l as [|x l]; cbn [tl rcodes flat_map]; [apply incl_refl|apply incl_appr, incl_refl]. Qed.

Lemma apply_item_flow q r : rq_flow q (apply_item q r) (ritem r).
Proof.
  destruct r; cbn [apply_item ritem]; try apply rq_flow_refl; try (apply rq_flow_same_lists; reflexivity).
  split; cbn [out queue]; [|apply incl_appl, incl_refl].
  exists [b]. split; auto. apply incl_appr, incl_refl.
Qed.

Lemma pop_front_flow q : rq_flow q (pop_front q) [].
Proof.
  split; cbn [pop_front out queue].
  - exists []. rewrite app_nil_r. split; auto. intros x [].
  - rewrite app_nil_r. apply rcodes_tl.
Qed.

Lemma drain_flow fuel : forall q, rq_flow q (drain fuel q) [].
Proof.
  induction fuel as [|f IH]; intros q; cbn [drain]; [apply rq_flow_refl|].
  destruct (queue q) as [|[|r] t] eqn:Eq; try apply rq_flow_refl.
  eapply rq_flow_trans; [|apply incl_refl|apply IH].
  (* pop then apply: the item r was the head of the queue *)
  destruct (pop_front_flow q) as [(n1 & A1 & A2) A3].
  destruct (apply_item_flow (pop_front q) r) as [(n2 & B1 & B2) B3].
  assert (Hr : incl (ritem r) (rcodes (queue q))).
  { rewrite Eq. destruct r as [b| |]; cbn [ritem rcodes flat_map]; [|intros y []..].
    intros y [<-|[]]. now left. }
  assert (Hq : incl (rcodes (queue (pop_front q))) (rcodes (queue q))).
  { cbn [pop_front queue]. apply rcodes_tl. }
  split.
  - exists n2. rewrite B1. cbn [pop_front out]. split; auto.
    eapply incl_tran; [exact B2|]. rewrite app_nil_r. apply incl_app; auto.
  - eapply incl_tran; [exact B3|]. rewrite app_nil_r. apply incl_app; auto.
Qed.

Lemma rcodes_set_nth n r l : incl (rcodes (set_nth n (SReady r) l)) (rcodes l ++ ritem r).
Proof.
  intros y. rewrite in_app_iff. revert n; induction l as [|x l IH]; intros n; cbn [set_nth].
  - destruct n; cbn; intros [].
  - destruct n as [|n]; cbn [set_nth rcodes flat_map]; rewrite !in_app_iff.
    + intros [H|H]; [|tauto]. right. destruct r; cbn [ritem]; auto.
    + intros [H|H]; [tauto|]. apply IH in H. tauto.
Qed.

Lemma handle_result_flow q r ridx : rq_flow q (handle_result q r ridx) (ritem r).
Proof.
  unfold handle_result. destruct (wsub ridx (base q) =? 0).
  - eapply rq_flow_trans; [|apply incl_refl|].
    + eapply rq_flow_trans; [apply pop_front_flow|intros x []|apply apply_item_flow].
    + eapply rq_flow_trans; [apply drain_flow|intros x []|apply rq_flow_refl].
  - destruct r.
    + destruct (_ <? _).
      * split; cbn [out queue]; [exists []; rewrite app_nil_r; split; auto; intros x []|apply rcodes_set_nth].
      * split; cbn [out queue]; [exists []; rewrite app_nil_r; split; auto; intros x []|apply incl_appl, incl_refl].
    + destruct (_ <? _).
      * split; cbn [out queue]; [exists []; rewrite app_nil_r; split; auto; intros x []|apply rcodes_set_nth].
      * split; cbn [out queue]; [exists []; rewrite app_nil_r; split; auto; intros x []|apply incl_appl, incl_refl].
    + apply (apply_item_flow q HErr).
Qed.

Lemma complete_flow q k r : rq_flow q (complete q k r) (ritem r).
Proof.
  unfold complete.
  repeat dm; try apply rq_flow_refl;
    (eapply rq_flow_trans; [|apply incl_refl|apply handle_result_flow]);
    apply rq_flow_same_lists; reflexivity.
Qed.

Lemma rcodes_app a b : rcodes (a ++ b) = rcodes a ++ rcodes b.
Proof. unfold rcodes. apply flat_map_app. Qed.

Lemma push_back_flow q x : rq_flow q (push_back q x) (match x with SReady r => ritem r | _ => [] end).
Proof.
  split; cbn [push_back out queue].
  - exists []. rewrite app_nil_r. split; auto. intros y [].
  - rewrite rcodes_app. apply incl_app; [apply incl_appl, incl_refl|apply incl_appr].
    cbn [rcodes flat_map]. rewrite app_nil_r. destruct x as [|[b| |]]; cbn [ritem]; apply incl_refl.
Qed.

Lemma call_service_flow q k now :
  rq_flow q (fst (call_service q k now)) (match now with Some r => ritem r | None => [] end) /\
  match snd (call_service q k now) with Some (_, r) => now = Some r | None => True end.
Proof.
  unfold call_service. destruct (response q); destruct now as [r|]; cbn [fst snd]; try (split; [|exact I || reflexivity]).
  - eapply rq_flow_trans; [apply (push_back_flow q SPending)|intros y []|apply rq_flow_refl].
  - eapply rq_flow_trans; [apply (push_back_flow q SPending)|apply incl_refl|].
    apply rq_flow_same_lists; reflexivity.
  - destruct (queue q) eqn:Eq; cbn [fst snd]; (split; [|exact I]); [apply apply_item_flow|].
    eapply rq_flow_trans; [apply (push_back_flow q (SReady r))|apply incl_refl|].
    apply rq_flow_same_lists; reflexivity.
  - eapply rq_flow_trans; [apply (push_back_flow q SPending)|apply incl_refl|].
    apply rq_flow_same_lists; reflexivity.
Qed.

Lemma drop_n_app {A} (a b : list A) : drop_n (length a) (a ++ b) = b.
Proof. induction a; cbn [length drop_n app]; auto. Qed.
(* ================================================================== the state invariant *)
Definition acktype (t : N) : Prop := In t [64; 80; 112; 144; 176; 208].
Definition trip_ok (closed : bool) (t id r : N) : Prop :=
  id < 65536 /\ r < 256 /\ (acktype t \/ (t = 224 /\ closed = true)).
Definition code_ok (closed : bool) (c : N) : Prop :=
  exists t id r, c = wire_code t id r /\ trip_ok closed t id r.
Definition err_ok (e : errk) : Prop := match e with EProto r => 128 <= r < 256 | EServ => True end.
Definition res_ok (closed : bool) (r : cres) : Prop :=
  match r with RSome t id x => trip_ok closed t id x | RErr e => err_ok e | RNone => True end.

Record Inv (s : st) : Prop := mkInv {
  iv_chan : Forall pkt_ok (chan (i_ s));
  iv_rbuf : Forall pkt_ok (rbuf (i_ s));
  iv_calls : CK s;
  iv_rq : forall c, In c (rcodes (queue (q_ s))) -> code_ok (closedio s) c;
  iv_lerr : err_ok (lasterr (s_ s));
  iv_qerrs : Forall err_ok (qerrs (s_ s))
}.

Definition Kw (w : list N) (a : core) : core :=
  mkCore (k_c a) (k_p a) (k_l a) (k_q a) w (k_closing a) (k_stopped a) (k_chan a) (k_rbuf a) (k_dst a)
         (k_stopping a) (k_lasterr a) (k_qerrs a).

Ltac Kproj H :=
  pose proof (f_equal k_c H); pose proof (f_equal k_p H); pose proof (f_equal k_l H); pose proof (f_equal k_q H);
  pose proof (f_equal k_wire H); pose proof (f_equal k_closing H); pose proof (f_equal k_stopped H);
  pose proof (f_equal k_chan H); pose proof (f_equal k_rbuf H); pose proof (f_equal k_dst H);
  pose proof (f_equal k_stopping H); pose proof (f_equal k_lasterr H); pose proof (f_equal k_qerrs H);
  cbn [K Kw k_c k_p k_l k_q k_wire k_closing k_stopped k_chan k_rbuf k_dst k_stopping k_lasterr k_qerrs] in *.

Lemma Inv_K s s' : K s' = K s -> CK s' -> Inv s -> Inv s'.
Proof.
  intros H Hc [I1 I2 I3 I4 I5 I6]. Kproj H. unfold closedio in *.
  constructor; try congruence.
  intros c Hin. unfold closedio. rewrite H5, H6. apply I4. congruence.
Qed.
Lemma E_K s s' : K s' = K s -> E s s'.
Proof. intros H. unfold E. rewrite H. apply Ek_refl. Qed.
Lemma E_refl s : E s s. Proof. apply Ek_refl. Qed.
Lemma E_trans a b c : E a b -> E b c -> E a c. Proof. apply Ek_trans. Qed.

(* plumbing: K and the calls table both untouched *)
Lemma plumb s s' : K s' = K s -> CL s' = CL s -> Inv s -> Inv s' /\ E s s'.
Proof. intros H1 H2 I. split; [apply (Inv_K s); auto; apply (CK_eq s); auto; apply I|now apply E_K]. Qed.

(* ---- writes *)

Lemma K_io_encode t id r s :
  K (io_encode t id r s) = Kw (if closedio s then wire (i_ s) else wire (i_ s) ++ [t; id; r]) (K s).
Proof.
  unfold io_encode, closedio. destruct (closing (i_ s) || stopped (i_ s)); [reflexivity|].
  dm; kpeel; reflexivity.
Qed.

Section Arith.
Local Ltac Zify.zify_post_hook ::= Z.div_mod_to_equations.
Lemma wire_fields_code t id r : id < 65536 -> r < 256 -> wire_fields (wire_code t id r) = [t; id; r].
Proof.
  intros H1 H2. unfold wire_fields, wire_code.
  assert (E1 : (t * 16777216 + id * 256 + r) / 16777216 = t) by lia.
  assert (E2 : ((t * 16777216 + id * 256 + r) / 256) mod 65536 = id) by lia.
  assert (E3 : (t * 16777216 + id * 256 + r) mod 256 = r) by lia.
  now rewrite E1, E2, E3.
Qed.
End Arith.
Lemma Kw_Kw w w' a : Kw w (Kw w' a) = Kw w a. Proof. reflexivity. Qed.
Lemma Kw_id s : Kw (wire (i_ s)) (K s) = K s. Proof. reflexivity. Qed.
Lemma kclosed_K s : kclosed (K s) = closedio s. Proof. reflexivity. Qed.

Lemma Ek_Kw a ws :
  ndisc ws = 0%nat -> (kclosed a = true -> ws = []) -> Forall trip_wf ws -> Ek a (Kw (k_wire a ++ flat3 ws) a).
Proof.
  intros Hn Hc Hwf. constructor; cbn [Kw k_c k_p k_l k_q k_wire k_closing k_stopped k_dst]; auto.
  - exists ws. split; [reflexivity|]. split; [exact Hc|]. split; [rewrite Hn; destruct (dsent (k_p a)); lia|].
    split; [rewrite Hn; discriminate|].
    intros x Hx. split; [rewrite Forall_forall in Hwf; auto|]. intros Hd.
    unfold ndisc in Hn. apply length_zero_iff_nil in Hn.
    assert (In x (filter is_disc ws)) by (apply filter_In; auto). rewrite Hn in *. contradiction.
Qed.

Lemma emit_spec l : forall s,
  Forall (code_ok (closedio s)) l ->
  exists ws, K (emit l s) = Kw (wire (i_ s) ++ flat3 ws) (K s) /\ ndisc ws = 0%nat /\
             (closedio s = true -> ws = []) /\ Forall trip_wf ws.
Proof.
  induction l as [|b l IH]; intros s Hl.
  - exists []. cbn [emit flat3 flat_map]. rewrite app_nil_r. auto.
  - inversion Hl as [|? ? (t & id & x & -> & H1 & H2 & H3) Hl']; subst.
    cbn [emit]. rewrite wire_fields_code by assumption.
    destruct (IH (io_encode t id x s)) as (ws & E1 & E2 & E3 & E4); [now rewrite io_encode_closedio|].
    rewrite io_encode_closedio in E3. rewrite E1, K_io_encode, Kw_Kw, io_encode_wire.
    destruct (closedio s) eqn:Hc.
    + exists []. rewrite (E3 eq_refl). cbn [flat3 flat_map]. auto.
    + assert (Htw : trip_wf (t, id, x)).
      { unfold trip_wf. cbn [fst snd]. repeat split; auto. destruct H3 as [H3|[-> _]]; [|cbn; auto 10].
        unfold acktype in H3. cbn [In] in *. intuition. }
      exists ((t, id, x) :: ws). cbn [flat3 flat_map fst snd]. rewrite <- app_assoc.
      split; [reflexivity|]. split; [|split; [discriminate|constructor; auto]].
      unfold ndisc in *. cbn [filter]. unfold is_disc at 1. cbn [fst].
      destruct (N.eqb_spec t 224) as [->|Ht]; auto.
      destruct H3 as [H3|[_ H3]]; [|discriminate]. cbv in H3. intuition discriminate.
Qed.

(* Ek looks at these fields only *)
Definition Kv (a : core) := (k_c a, k_p a, k_l a, k_wire a, k_closing a, k_stopped a, k_dst a).
Lemma Ek_ext a a' b b' : Kv a = Kv a' -> Kv b = Kv b' -> Ek a b -> Ek a' b'.
Proof.
  unfold Kv. intros Ha Hb. injection Ha as A1 A2 A3 A4 A5 A6 A7. injection Hb as B1 B2 B3 B4 B5 B6 B7.
  intros [E1 E2 E3 E4 E5 E6 E7]. unfold kclosed in *.
  constructor; rewrite <- ?A1, <- ?A2, <- ?A3, <- ?A4, <- ?A5, <- ?A6, <- ?A7, <- ?B1, <- ?B2, <- ?B3, <- ?B4, <- ?B5, <- ?B6, <- ?B7; auto.
  unfold kclosed. rewrite <- A5, <- A6. exact E5.
Qed.

Lemma take_n_Forall {A} (P : A -> Prop) n l : Forall P l -> Forall P (take_n n l).
Proof. revert l; induction n; intros [|x l] H; cbn [take_n]; auto. inversion H; subst. constructor; auto. Qed.
Lemma drop_n_Forall {A} (P : A -> Prop) n l : Forall P l -> Forall P (drop_n n l).
Proof. revert l; induction n; intros [|x l] H; cbn [drop_n]; auto. inversion H; subst. auto. Qed.

(* after_rq: q0 -> q1 is a response-queue step that received the extra codes [extra] *)
Lemma after_rq_step q1 direct extra s :
  Inv s -> rq_flow (q_ s) q1 extra -> Forall (code_ok (closedio s)) extra ->
  match direct with Some e => err_ok e | None => True end ->
  Inv (after_rq (q_ s) q1 direct s) /\ E s (after_rq (q_ s) q1 direct s) /\
  CL (after_rq (q_ s) q1 direct s) = CL s /\ p_ (after_rq (q_ s) q1 direct s) = p_ s /\
  q_ (after_rq (q_ s) q1 direct s) = q1.
Proof.
  intros I [(new & Hout & Hnew) Hq] Hex Hd. unfold after_rq.
  rewrite Hout, drop_n_app.
  set (s1 := match direct with Some e => up_s (s_lasterr e) s | None => s end).
  set (applied := (count_err_slots (queue (q_ s)) - count_err_slots (queue q1))%nat).
  set (s2 := up_s (s_qerrs (drop_n applied (qerrs (s_ s1)))) s1).
  set (s3 := match rev (take_n applied (qerrs (s_ s1))) with e :: _ => up_s (s_lasterr e) s2 | [] => s2 end).
  assert (Hcodes : Forall (code_ok (closedio s)) new).
  { apply Forall_forall. intros c Hc. apply Hnew in Hc. apply in_app_or in Hc as [Hc|Hc].
    - now apply I.
    - rewrite Forall_forall in Hex. auto. }
  assert (Hs3 : c_ s3 = c_ s /\ p_ s3 = p_ s /\ l_ s3 = l_ s /\ i_ s3 = i_ s /\ b_ s3 = b_ s /\ q_ s3 = q_ s /\
                CL s3 = CL s /\ dst (s_ s3) = dst (s_ s) /\ stopping (s_ s3) = stopping (s_ s) /\
                err_ok (lasterr (s_ s3)) /\ Forall err_ok (qerrs (s_ s3))).
  { destruct I as [I1 I2 I3 I4 I5 I6].
    assert (Q1 : Forall err_ok (qerrs (s_ s1))) by (unfold s1; destruct direct; exact I6).
    assert (L1 : err_ok (lasterr (s_ s1))) by (unfold s1; destruct direct; [exact Hd|exact I5]).
    unfold s3. destruct (rev (take_n applied (qerrs (s_ s1)))) as [|e es] eqn:Er.
    - unfold s2, s1. destruct direct; cbn; repeat split; auto; apply drop_n_Forall; auto.
    - assert (He : err_ok e).
      { assert (Hin : In e (rev (take_n applied (qerrs (s_ s1))))) by (rewrite Er; now left).
        apply in_rev in Hin. pose proof (take_n_Forall err_ok applied _ Q1) as F.
        rewrite Forall_forall in F. auto. }
      unfold s2, s1. destruct direct; cbn; repeat split; auto; apply drop_n_Forall; auto. }
  destruct Hs3 as (C1 & C2 & C3 & C4 & C5 & C6 & C7 & C8 & C9 & C10 & C11).
  set (s4 := set_q q1 s3).
  assert (Hcl : closedio s4 = closedio s) by (unfold closedio, s4; cbn [set_q i_]; now rewrite C4).
  destruct (emit_spec new s4) as (ws & W1 & W2 & W3 & W4); [now rewrite Hcl|].
  rewrite Hcl in W3.
  assert (Hw4 : wire (i_ s4) = wire (i_ s)) by (unfold s4; cbn [set_q i_]; now rewrite C4).
  rewrite Hw4 in W1.
  Kproj W1.
  split; [|split; [|split; [|split]]].
  - constructor; try congruence.
    + unfold s4 in *. cbn [set_q i_] in *. rewrite C4 in *. rewrite H6. apply I.
    + unfold s4 in *. cbn [set_q i_] in *. rewrite C4 in *. rewrite H7. apply I.
    + apply (CK_eq s); [|apply I]. rewrite CL_emit. unfold s4. rewrite CL_set_q. exact C7.
    + intros c Hc. unfold closedio. rewrite H4, H5. fold (closedio s4). rewrite Hcl.
      rewrite H2 in Hc. unfold s4 in Hc. cbn [set_q q_] in Hc. apply Hq in Hc.
      apply in_app_or in Hc as [Hc|Hc]; [now apply I|]. rewrite Forall_forall in Hex. auto.
    + rewrite H10. unfold s4. cbn [set_q s_]. exact C10.
    + rewrite H11. unfold s4. cbn [set_q s_]. exact C11.
  - unfold E. apply (Ek_ext (K s) (K s) (Kw (k_wire (K s) ++ flat3 ws) (K s))); auto.
    + unfold Kv, Kw. cbn [k_c k_p k_l k_wire k_closing k_stopped k_dst K]. unfold s4 in *. cbn [set_q c_ p_ l_ i_ s_] in *.
      rewrite C4 in *. congruence.
    + apply Ek_Kw; auto.
  - rewrite CL_emit. unfold s4. rewrite CL_set_q. exact C7.
  - rewrite H0. unfold s4. cbn [set_q p_]. exact C2.
  - rewrite H2. reflexivity.
Qed.

(* ================================================================== steps *)
Definition Step (s s' : st) : Prop := Inv s' /\ E s s'.

Lemma Step_refl s : Inv s -> Step s s.
Proof. intros I. split; [exact I|apply E_refl]. Qed.
Lemma Step_K s s0 s' : K s' = K s0 -> CL s' = CL s0 -> Step s s0 -> Step s s'.
Proof.
  intros H1 H2 [I Ee]. destruct (plumb s0 s' H1 H2 I) as [I' E']. split; auto. eapply E_trans; eauto.
Qed.
Lemma Step_KC s s0 s' : K s' = K s0 -> (CK s0 -> CK s') -> Step s s0 -> Step s s'.
Proof.
  intros H1 H2 [I Ee]. split.
  - apply (Inv_K s0); auto. apply H2, I.
  - eapply E_trans; [exact Ee|now apply E_K].
Qed.

(* [R]: what the protocol logic (bodies, results, writes) never changes *)
Definition R (s : st) :=
  (c_ s, stops (l_ s), q_ s, stopped (i_ s), chan (i_ s), rbuf (i_ s), dst (s_ s), stopping (s_ s),
   lasterr (s_ s), qerrs (s_ s)).
Lemma R_K s s' : K s' = K s -> R s' = R s.
Proof. intros H. Kproj H. unfold R. congruence. Qed.
Lemma R_up_p g s : R (up_p g s) = R s. Proof. reflexivity. Qed.
Lemma R_up_b g s : R (up_b g s) = R s. Proof. reflexivity. Qed.
Lemma R_up_l g s : (forall x, stops (g x) = stops x) -> R (up_l g s) = R s.
Proof. intros H. unfold R. cbn [up_l c_ l_ q_ i_ s_]. now rewrite H. Qed.
Lemma R_wake t s : R (wake t s) = R s. Proof. apply R_K, K_wake. Qed.
Lemma R_set_cst k v s : R (set_cst k v s) = R s. Proof. apply R_K, K_set_cst. Qed.
Lemma R_release_guards k g s : R (release_guards k g s) = R s. Proof. apply R_K, K_release_guards. Qed.
Lemma R_io_encode t id r s : R (io_encode t id r s) = R s.
Proof. pose proof (K_io_encode t id r s) as H. Kproj H. unfold R. congruence. Qed.
Lemma R_io_close s : R (io_close s) = R s.
Proof. unfold io_close. repeat dm; rewrite ?R_wake; reflexivity. Qed.
#[export] Hint Rewrite R_up_p R_up_b R_wake R_set_cst R_release_guards R_io_encode R_io_close : rdb.
Ltac rpeel := repeat first [ progress cbn [fst snd] | progress autorewrite with rdb | rewrite R_up_l by (intro; reflexivity) ].
Ltac rauto := intros; repeat dm; rpeel; try reflexivity.
Lemma R_close3c s : R (close3c s) = R s. Proof. unfold close3c, test_set_dsent. rauto. Qed.
#[export] Hint Rewrite R_close3c : rdb.
Lemma R_body p s : R (fst (proto_body p s)) = R s.
Proof. destruct p; bodies; rauto. Qed.
Lemma R_hres q2 id res s : R (fst (hres_any q2 id res s)) = R s.
Proof. results. rauto. Qed.
Lemma R_ctl m a s : R (fst (ctl_result m a s)) = R s.
Proof. destruct m. results. rauto. Qed.
Lemma R_ctlc m res s : R (fst (ctl_result_c m res s)) = R s.
Proof. destruct m. results. rauto. Qed.
#[export] Hint Rewrite R_body R_hres R_ctl R_ctlc : rdb.

Lemma closedio_mono s s' :
  (closing (i_ s) = true -> closing (i_ s') = true) -> (stopped (i_ s) = true -> stopped (i_ s') = true) ->
  closedio s = true -> closedio s' = true.
Proof. unfold closedio. intros H1 H2 H. apply orb_true_iff in H as [H|H]; [rewrite H1|rewrite H2]; auto using orb_true_r. Qed.

Lemma trip_ok_mono c c' t id r : (c = true -> c' = true) -> trip_ok c t id r -> trip_ok c' t id r.
Proof. intros H (A & B & [C|[C D]]); repeat split; auto. Qed.
Lemma code_ok_mono c c' x : (c = true -> c' = true) -> code_ok c x -> code_ok c' x.
Proof. intros H (t & id & r & A & B). exists t, id, r. split; auto. eapply trip_ok_mono; eauto. Qed.
Lemma res_ok_mono c c' r : (c = true -> c' = true) -> res_ok c r -> res_ok c' r.
Proof. destruct r; cbn [res_ok]; auto. apply trip_ok_mono. Qed.

(* a logic step that preserves R and the calls table *)
Lemma Inv_R s s' :
  R s' = R s -> CL s' = CL s -> (closing (i_ s) = true -> closing (i_ s') = true) -> Inv s -> Inv s'.
Proof.
  intros HR HC Hcl [I1 I2 I3 I4 I5 I6]. unfold R in HR. injection HR as R1 R2 R3 R4 R5 R6 R7 R8 R9 R10.
  constructor; try congruence.
  - now apply (CK_eq s).
  - intros c Hc. rewrite R3 in Hc. apply (code_ok_mono (closedio s)); auto.
    apply closedio_mono; auto. congruence.
Qed.

Lemma E_R s s' ws :
  R s' = R s -> (dsent (p_ s) = true -> dsent (p_ s') = true) ->
  (closing (i_ s) = true -> closing (i_ s') = true) ->
  wire (i_ s') = wire (i_ s) ++ flat3 ws -> (closedio s = true -> ws = []) ->
  (ndisc ws + (if dsent (p_ s) then 1 else 0) <= 1)%nat -> (ndisc ws = 1%nat -> dsent (p_ s') = true) ->
  (forall x, In x ws -> trip_wf x /\ (is_disc x = true -> snd (fst x) = 0 /\ if v5 (c_ s) then 128 <= snd x else snd x = 0)) ->
  E s s'.
Proof.
  intros HR Hd Hcl Hw H1 H2 H3 H4. unfold R in HR. injection HR as R1 R2 R3 R4 R5 R6 R7 R8 R9 R10.
  constructor; cbn [K k_c k_p k_l k_q k_wire k_closing k_stopped k_dst]; auto; try congruence.
  - exists ws. auto.
  - intros H. split; congruence.
Qed.
Lemma Step_then a b c : Step a b -> Step b c -> Step a c.
Proof. intros [I1 E1] [I2 E2]. split; auto. eapply E_trans; eauto. Qed.

Definition outcome_ok (s' : st) (o : outcome) : Prop :=
  match o with
  | ODone r => res_ok (closedio s') r
  | OHandler _ _ id _ _ _ => id < 65536
  | OCtl m => snd m < 65536
  | OCtlP m _ id _ _ _ => snd m < 65536 /\ id < 65536
  end.

Lemma body_closing_mono p s : closing (i_ s) = true -> closing (i_ (fst (proto_body p s))) = true.
Proof.
  intros H. destruct p; bodies; repeat dm; cbn [fst i_ up_p];
    rewrite ?io_encode_closing; cbn [i_ up_p]; auto;
    try (apply io_close_closing_mono; rewrite ?io_encode_closing; cbn [i_ up_p]; auto).
Qed.

Lemma body_wire_closed p s : closedio s = true -> wire (i_ (fst (proto_body p s))) = wire (i_ s).
Proof.
  intros H. assert (H' : forall g, closedio (up_p g s) = true) by (intros; exact H).
  destruct p; bodies; repeat dm; cbn [fst i_ up_p];
    rewrite ?io_close_wire, ?io_encode_wire; cbn [i_ up_p]; rewrite ?H, ?H'; auto.
Qed.

Lemma body_outcome_ok p s : pkt_ok p -> outcome_ok (fst (proto_body p s)) (snd (proto_body p s)).
Proof.
  intros Hp. destruct p; cbn [pkt_ok] in Hp; bodies; repeat dm; cbn [fst snd outcome_ok res_ok err_ok trip_ok];
    try exact I; try lia; unfold trip_ok, acktype; cbn [In]; repeat split; try lia; auto 10.
Qed.

Lemma body_wire_ok p s :
  pkt_ok p ->
  exists w, wire (i_ (fst (proto_body p s))) = wire (i_ s) ++ w /\
    (w = [] \/
     (exists t id, In t [64; 80; 144; 176] /\ id < 65536 /\ w = [t; id; 145]) \/
     (exists r, w = [224; 0; r] /\ dsent (p_ s) = false /\ dsent (p_ (fst (proto_body p s))) = true /\
                r = if v5 (c_ s) then 131 else 0)).
Proof.
  intros Hp.
  destruct p; cbn [pkt_ok] in Hp; bodies; repeat dm; cbn [fst];
    rewrite ?io_close_wire, ?io_encode_wire; cbn [i_ up_p];
    rewrite ?io_close_wire, ?io_encode_wire; cbn [i_ up_p];
    repeat dm;
    try (exists []; split; [apply app_nil_end'|left; reflexivity]);
    try (eexists; split; [reflexivity|]);
    try (right; left; do 2 eexists; split; [|split; [|reflexivity]]; [cbn; tauto|assumption]);
    try (right; right; eexists; split; [reflexivity|]; pcalc; repeat split; auto; try congruence;
         match goal with H : ?x = _ |- context [if ?x then _ else _] => rewrite H end; reflexivity).
Qed.

Lemma body_step p s : Inv s -> pkt_ok p -> Step s (fst (proto_body p s)).
Proof.
  intros I Hp. split.
  - apply (Inv_R s); auto using R_body, CL_body, body_closing_mono.
  - destruct (body_wire_ok p s Hp) as (w & Hw & D).
    assert (Hc : closedio s = true -> w = []).
    { intros Hc. rewrite (body_wire_closed p s Hc) in Hw. rewrite <- (app_nil_r (wire (i_ s))) in Hw at 1.
      now apply app_inv_head in Hw. }
    destruct D as [->|[(t & id & Ht & Hid & ->)|(r & -> & Hd & Hd' & Hr)]].
    + rewrite app_nil_r in Hw.
      apply (E_R s _ [] (R_body _ _) (body_dsent_mono _ _) (body_closing_mono _ _)); cbn [flat3 flat_map ndisc filter length];
        rewrite ?app_nil_r; auto; try (destruct (dsent (p_ s)); lia); try discriminate; try contradiction.
    + destruct (closedio s) eqn:Hcs; [specialize (Hc eq_refl); discriminate|].
      assert (Hn : ndisc [(t, id, 145)] = 0%nat).
      { unfold ndisc. cbn [filter]. unfold is_disc. cbn [fst]. cbn [In] in Ht.
        destruct Ht as [<-|[<-|[<-|[<-|[]]]]]; reflexivity. }
      apply (E_R s _ [(t, id, 145)] (R_body _ _) (body_dsent_mono _ _) (body_closing_mono _ _) Hw).
      * rewrite Hcs; discriminate.
      * rewrite Hn. destruct (dsent (p_ s)); lia.
      * rewrite Hn. discriminate.
      * intros x [<-|[]]. split.
        -- unfold trip_wf. cbn [fst snd]. split; [cbn [In] in *; intuition|split; [assumption|lia]].
        -- unfold is_disc. cbn [fst]. cbn [In] in Ht.
           destruct Ht as [<-|[<-|[<-|[<-|[]]]]]; discriminate.
    + destruct (closedio s) eqn:Hcs; [specialize (Hc eq_refl); discriminate|].
      apply (E_R s _ [(224, 0, r)] (R_body _ _) (body_dsent_mono _ _) (body_closing_mono _ _) Hw).
      * rewrite Hcs; discriminate.
      * rewrite Hd. unfold ndisc, is_disc. cbn [filter fst]. change (224 =? 224) with true. cbn. lia.
      * auto.
      * intros x [<-|[]]. split.
        -- unfold trip_wf. cbn [fst snd]. subst r. split; [cbn [In]; auto 10|split; [lia|destruct (v5 (c_ s)); lia]].
        -- intros _. cbn [fst snd]. subst r. split; auto. destruct (v5 (c_ s)); [lia|reflexivity].
Qed.
Lemma E_R0 s s' :
  R s' = R s -> (dsent (p_ s) = true -> dsent (p_ s') = true) ->
  (closing (i_ s) = true -> closing (i_ s') = true) -> wire (i_ s') = wire (i_ s) -> E s s'.
Proof.
  intros HR Hd Hc Hw. apply (E_R s s' []); auto; cbn [flat3 flat_map ndisc filter length];
    rewrite ?app_nil_r; auto; try (destruct (dsent (p_ s)); lia); try discriminate; try contradiction.
Qed.

Lemma neg_ack_lt res : neg_ack_code res = true -> res < 256.
Proof. unfold neg_ack_code. intros H. b2p; subst; lia. Qed.

Lemma hres_step q2 id res s :
  Inv s -> Step s (fst (hres_any q2 id res s)) /\
           (id < 65536 -> res_ok (closedio (fst (hres_any q2 id res s))) (snd (hres_any q2 id res s))).
Proof.
  intros I. split; [split|].
  - apply (Inv_R s); auto using R_hres, CL_hres. now rewrite hres_wire.
  - apply E_R0; auto using R_hres; rewrite ?hres_dsent, ?hres_wire; auto.
  - intros Hid. results. repeat dm; cbn [fst snd res_ok err_ok trip_ok]; auto;
      unfold trip_ok, acktype; cbn [In]; repeat split; auto 10; try lia;
      b2p; subst; try lia; try (apply neg_ack_lt; assumption).
Qed.

Definition pack_ok (a : pack) : Prop :=
  match a with A5Pkt t r _ => acktype t /\ r < 256 | A5Disc r => r < 256 | _ => True end.
Lemma ack3_ok kind res : pack_ok (ack3 kind res).
Proof. unfold ack3. repeat dm; exact I. Qed.
Lemma ack5_ok kind res : pack_ok (ack5 kind res).
Proof. unfold ack5, pack_ok, acktype. repeat dm; cbn [In]; auto 10; try lia; split; auto 10; lia. Qed.

Lemma ctl_closing_mono m a s : closing (i_ s) = true -> closing (i_ (fst (ctl_result m a s))) = true.
Proof.
  intros H. destruct m. results. repeat dm; cbn [fst i_ up_p info_remove]; auto;
    try (apply io_close_closing_mono; cbn [i_ up_p info_remove]; auto).
Qed.

Lemma ctl_step m a s :
  Inv s -> Step s (fst (ctl_result m a s)) /\
           (pack_ok a -> snd m < 65536 -> res_ok (closedio (fst (ctl_result m a s))) (snd (ctl_result m a s))).
Proof.
  intros I. split; [split|].
  - apply (Inv_R s); auto using R_ctl, CL_ctl, ctl_closing_mono.
  - apply E_R0; auto using R_ctl, ctl_dsent_mono, ctl_closing_mono, ctl_wire.
  - destruct m as [kind pid]. cbn [snd]. intros Ha Hp. results.
    destruct a; cbn [pack_ok] in Ha; repeat dm; cbn [fst snd res_ok err_ok trip_ok]; auto;
      unfold trip_ok, acktype; cbn [In]; rewrite ?io_close_closedio; repeat split; auto 10; try lia; try tauto.
Qed.
Lemma close3c_step s : v5 (c_ s) = false -> Inv s -> Step s (close3c s).
Proof.
  intros Hv I. split.
  - apply (Inv_R s); auto using R_close3c, CL_close3c.
    intros H. unfold close3c, test_set_dsent. apply io_close_closing_mono.
    dm; rewrite ?io_encode_closing; cbn [i_ up_p]; auto.
  - unfold close3c, test_set_dsent. destruct (dsent (p_ s)) eqn:Hd.
    + apply E_R0; rewrite ?R_io_close, ?io_close_p, ?io_close_wire; cbn [p_ up_p p_dsent dsent i_]; auto.
      intros H. now apply io_close_closing_mono.
    + destruct (closedio s) eqn:Hc.
      * rewrite io_encode_closed by exact Hc.
        apply E_R0; rewrite ?R_io_close, ?io_close_p, ?io_close_wire; cbn [p_ up_p p_dsent dsent i_]; auto.
        intros H. now apply io_close_closing_mono.
      * assert (HR : R (io_close (io_encode 224 0 0 (up_p (p_dsent true) s))) = R s)
          by (now rewrite R_io_close, R_io_encode).
        assert (Hcm : closing (i_ s) = true -> closing (i_ (io_close (io_encode 224 0 0 (up_p (p_dsent true) s)))) = true)
          by (intros H; apply io_close_closing_mono; now rewrite io_encode_closing).
        assert (Hw : wire (i_ (io_close (io_encode 224 0 0 (up_p (p_dsent true) s)))) = wire (i_ s) ++ flat3 [(224, 0, 0)]).
        { rewrite io_close_wire, io_encode_wire. unfold closedio in *. cbn [i_ up_p]. now rewrite Hc. }
        apply (E_R s _ [(224, 0, 0)] HR); auto.
        -- intros _. rewrite io_close_p, io_encode_p. reflexivity.
        -- rewrite Hc. discriminate.
        -- rewrite Hd. unfold ndisc, is_disc. cbn [filter fst]. change (224 =? 224) with true. cbn. lia.
        -- intros _. rewrite io_close_p, io_encode_p. reflexivity.
        -- intros x [<-|[]]. split; [unfold trip_wf; cbn [fst snd In]; split; [auto 10|split; lia]|].
           intros _. cbn [fst snd]. rewrite Hv. auto.
Qed.

Lemma Step_up_p g s : Inv s -> (dsent (p_ s) = true -> dsent (g (p_ s)) = true) -> Step s (up_p g s).
Proof. intros I H. split; [apply (Inv_R s); auto|apply E_R0; auto]. Qed.

Lemma ctlc_step m res s :
  Inv s -> Step s (fst (ctl_result_c m res s)) /\
           (snd m < 65536 -> res_ok (closedio (fst (ctl_result_c m res s))) (snd (ctl_result_c m res s))).
Proof.
  intros I. destruct m as [kind pid]. unfold ctl_result_c. destruct (v5 (c_ s)) eqn:Hv.
  - match goal with |- context [ctl_result _ ?a s] => destruct (ctl_step (kind, pid) a s I) as [H1 H2] end.
    split; auto. intros Hp. apply H2; auto. repeat dm; cbn [pack_ok acktype In]; auto 10; try lia; split; auto 10; lia.
  - cbn [snd]. repeat dm; cbn [fst snd];
      (split; [first [ apply Step_refl; assumption | apply close3c_step; assumption
                     | apply Step_up_p; [assumption|cbn; auto] ]
              | intros; cbn [res_ok err_ok]; unfold trip_ok, acktype; cbn [In]; repeat split; auto 10; lia ]).
Qed.
Definition opt_res_ok (s' : st) (o : option cres) : Prop :=
  match o with Some r => res_ok (closedio s') r | None => True end.

(* peel plumbing off the target state of a Step goal *)
Ltac plumbK s0 := apply (Step_KC _ s0); [ kpeel; reflexivity | intros ?HCK; cksolve | ].
Ltac plumbKL s0 := apply (Step_K _ s0); [ kpeel; reflexivity | cpeel; reflexivity | ].

Lemma proto_finish_step k m g res s :
  Inv s -> snd m < 65536 ->
  Step s (fst (proto_finish k m g res s)) /\ opt_res_ok (fst (proto_finish k m g res s)) (snd (proto_finish k m g res s)).
Proof.
  intros I Hm. unfold proto_finish.
  set (a := if v5 (c_ s) then ack5 (fst m) res else ack3 (fst m) res).
  assert (Ha : pack_ok a) by (unfold a; destruct (v5 (c_ s)); [apply ack5_ok|apply ack3_ok]).
  set (s2 := release_guards k g (set_cst k (CBuf m) s)).
  assert (S2 : Step s s2) by (unfold s2; plumbK s; now apply Step_refl).
  destruct (ctl_step m a s2 (proj1 S2)) as [S3 R3].
  destruct (ctl_result m a s2) as [s3 r] eqn:Ec. cbn [fst snd] in *.
  split; [eapply Step_then; [exact S2|exact S3]|cbn [opt_res_ok]; auto].
Qed.

Lemma Step_up_l g s s0 : (forall x, stops (g x) = stops x) -> Step s0 s -> Step s0 (up_l g s).
Proof.
  intros Hg S. eapply Step_then; [exact S|]. destruct S as [I _]. split.
  - apply (Inv_R s); auto. now apply R_up_l.
  - apply E_R0; auto. now apply R_up_l.
Qed.

Lemma proto_invoke_step who k m g s :
  Inv s -> snd m < 65536 ->
  Step s (fst (proto_invoke who k m g s)) /\ opt_res_ok (fst (proto_invoke who k m g s)) (snd (proto_invoke who k m g s)).
Proof.
  intros I Hm. unfold proto_invoke.
  set (s1 := up_b (b_cnt 1) s).
  assert (S1 : Step s s1) by (unfold s1; plumbKL s; now apply Step_refl).
  dm.
  - destruct (proto_finish_step k m g 9 s1 (proj1 S1) Hm) as [A B]. split; [eapply Step_then; [exact S1|exact A]|auto].
  - set (s2 := up_l _ s1).
    assert (S2 : Step s s2) by (unfold s2; apply Step_up_l; [intro; reflexivity|exact S1]).
    dm.
    + set (s3 := set_cst k (CProto _ m g) s2).
      assert (S3 : Step s s3) by (unfold s3; plumbK s2; exact S2).
      destruct (proto_finish_step k m g n s3 (proj1 S3) Hm) as [A B]. split; [eapply Step_then; [exact S3|exact A]|auto].
    + cbn [fst snd opt_res_ok]. split; auto. plumbK s2. exact S2.
Qed.

Lemma inner_call_step who k m g s :
  Inv s -> snd m < 65536 ->
  Step s (fst (inner_call who k m g s)) /\ opt_res_ok (fst (inner_call who k m g s)) (snd (inner_call who k m g s)).
Proof.
  intros I Hm. unfold inner_call. repeat dm; cbn [fst snd opt_res_ok];
    try (split; [plumbK s; now apply Step_refl|exact Logic.I]).
  all: assert (S1 : Step s (ip_notify s)) by (plumbKL s; now apply Step_refl).
  all: destruct (proto_invoke_step who k m g (ip_notify s) (proj1 S1) Hm) as [A B].
  all: split; [eapply Step_then; [exact S1|exact A]|auto].
Qed.

Lemma bs_ready_step who w s s0 : Step s0 s -> Step s0 (fst (bs_ready who w s)).
Proof. intros S. eapply Step_KC; [apply K_bs_ready|apply CK_bs_ready|exact S]. Qed.

Lemma ctl_enter_step n : forall who k m w s,
  Inv s -> snd m < 65536 ->
  Step s (fst (ctl_enter n who k m w s)) /\ opt_res_ok (fst (ctl_enter n who k m w s)) (snd (ctl_enter n who k m w s)).
Proof.
  induction n as [|n IH]; intros who k m w s I Hm; cbn [ctl_enter];
    pose proof (bs_ready_step who w s s (Step_refl s I)) as S1;
    destruct (bs_ready who w s) as [s1 [|o]] eqn:Eb; cbn [fst] in S1.
  - dm.
    + set (s2 := up_b (b_bready false) s1).
      assert (S2 : Step s s2) by (unfold s2; plumbKL s1; exact S1).
      destruct (inner_call_step who k m false s2 (proj1 S2) Hm) as [A B]. split; [eapply Step_then; [exact S2|exact A]|auto].
    + cbn [fst snd opt_res_ok]. split; auto. plumbK s1. exact S1.
  - cbn [fst snd opt_res_ok]. split; auto. plumbK s1. exact S1.
  - destruct (IH who k m None s1 (proj1 S1) Hm) as [A B]. split; [eapply Step_then; [exact S1|exact A]|auto].
  - cbn [fst snd opt_res_ok]. split; auto. plumbK s1. exact S1.
Qed.
Lemma cproto_finish_step m res s :
  Inv s -> snd m < 65536 ->
  Step s (fst (cproto_finish m res s)) /\ opt_res_ok (fst (cproto_finish m res s)) (snd (cproto_finish m res s)).
Proof.
  intros I Hm. unfold cproto_finish. destruct (ctlc_step m res s I) as [A B].
  destruct (ctl_result_c m res s) as [s1 r]. cbn [fst snd opt_res_ok] in *. auto.
Qed.

Lemma cproto_invoke_step k m extra s :
  Inv s -> snd m < 65536 ->
  Step s (fst (cproto_invoke k m extra s)) /\ opt_res_ok (fst (cproto_invoke k m extra s)) (snd (cproto_invoke k m extra s)).
Proof.
  intros I Hm. unfold cproto_invoke.
  set (s1 := up_l _ s).
  assert (S1 : Step s s1) by (unfold s1; apply Step_up_l; [intro; reflexivity|now apply Step_refl]).
  set (s2 := match extra with Some f => _ | None => s1 end).
  assert (S2 : Step s s2).
  { unfold s2. destruct extra; auto. apply Step_up_l; [intro; reflexivity|exact S1]. }
  dm.
  - destruct (cproto_finish_step m n s2 (proj1 S2) Hm) as [A B]. split; [eapply Step_then; [exact S2|exact A]|auto].
  - cbn [fst snd opt_res_ok]. split; auto. plumbK s2. exact S2.
Qed.

Lemma log_handler_step h qos id topic plen retain s s0 : Step s0 s -> Step s0 (log_handler h qos id topic plen retain s).
Proof. intros S. unfold log_handler. apply Step_up_l; [intro; reflexivity|exact S]. Qed.

Lemma body_full_step who k p s :
  Inv s -> pkt_ok p ->
  Step s (fst (body who k p s)) /\ opt_res_ok (fst (body who k p s)) (snd (body who k p s)).
Proof.
  intros I Hp. rewrite body_proto_body.
  pose proof (body_step p s I Hp) as S1. pose proof (body_outcome_ok p s Hp) as O1.
  destruct (proto_body p s) as [s1 o]. cbn [fst snd] in S1, O1.
  destruct o as [r|q2 qos id topic plen retain|m|m qos id topic plen retain]; cbn [outcome_ok] in O1.
  - cbn [fst snd opt_res_ok]. auto.
  - cbv zeta. set (s2 := log_handler (nh (l_ s1) + 1) qos id topic plen retain s1).
    assert (S2 : Step s s2) by (unfold s2; apply log_handler_step; exact S1).
    dm.
    + destruct (hres_step q2 id n s2 (proj1 S2)) as [A B].
      destruct (hres_any q2 id n s2) as [s3 r]. cbn [fst snd opt_res_ok] in *.
      split; [eapply Step_then; [exact S2|exact A]|auto].
    + cbn [fst snd opt_res_ok]. split; auto. plumbK s2. exact S2.
  - dm.
    + destruct (cproto_invoke_step k m None s1 (proj1 S1) O1) as [A B].
      split; [eapply Step_then; [exact S1|exact A]|auto].
    + destruct (ctl_enter_step 2 who k m None s1 (proj1 S1) O1) as [A B].
      split; [eapply Step_then; [exact S1|exact A]|auto].
  - destruct O1 as [O1 O2].
    destruct (cproto_invoke_step k m (Some [qos; id; topic; plen; retain]) s1 (proj1 S1) O1) as [A B].
    split; [eapply Step_then; [exact S1|exact A]|auto].
Qed.

Lemma climgate_step who k p s :
  Inv s -> pkt_ok p ->
  Step s (fst (climgate who k p s)) /\ opt_res_ok (fst (climgate who k p s)) (snd (climgate who k p s)).
Proof.
  intros I Hp. unfold climgate. repeat dm; cbn [fst snd opt_res_ok];
    try (split; [plumbK s; now apply Step_refl|exact Logic.I]).
  all: match goal with I : Inv ?s, Hp : pkt_ok _ |- context [body ?w ?kk ?pp ?X] =>
         assert (S1 : Step s X) by (plumbK s; now apply Step_refl);
         destruct (body_full_step w kk pp X (proj1 S1) Hp) as [A B];
         split; [eapply Step_then; [exact S1|exact A]|auto] end.
Qed.

Lemma gate_step who k p w s :
  Inv s -> pkt_ok p ->
  Step s (fst (gate who k p w s)) /\ opt_res_ok (fst (gate who k p w s)) (snd (gate who k p w s)).
Proof.
  intros I Hp. unfold gate.
  assert (G : forall s0, Step s s0 ->
     Step s (fst (match bs_ready who w s0 with
                  | (s1, BRWait o) => (sp_push who (set_cst k (CGate p (Some o)) s1), None)
                  | (s1, BRReady) => body who k p (sp_notify s1) end)) /\
     opt_res_ok (fst (match bs_ready who w s0 with
                  | (s1, BRWait o) => (sp_push who (set_cst k (CGate p (Some o)) s1), None)
                  | (s1, BRReady) => body who k p (sp_notify s1) end))
                (snd (match bs_ready who w s0 with
                  | (s1, BRWait o) => (sp_push who (set_cst k (CGate p (Some o)) s1), None)
                  | (s1, BRReady) => body who k p (sp_notify s1) end))).
  { intros s0 S0. pose proof (bs_ready_step who w s0 s S0) as S1.
    destruct (bs_ready who w s0) as [s1 [|o]]; cbn [fst] in S1.
    - assert (S2 : Step s (sp_notify s1)) by (plumbKL s1; exact S1).
      destruct (body_full_step who k p (sp_notify s1) (proj1 S2) Hp) as [A B].
      split; [eapply Step_then; [exact S2|exact A]|auto].
    - cbn [fst snd opt_res_ok]. split; auto. plumbK s1. exact S1. }
  match goal with |- context [if ?b then _ else _] => destruct b end.
  - cbn [fst snd opt_res_ok]. split; auto. plumbK s. now apply Step_refl.
  - apply G. plumbKL s. now apply Step_refl.
Qed.

Lemma hres_call_step q2 id res s :
  Inv s -> id < 65536 ->
  let r := hres_any q2 id res s in Step s (fst r) /\ opt_res_ok (fst r) (Some (snd r)).
Proof. intros I Hid. destruct (hres_step q2 id res s I) as [A B]. cbn [opt_res_ok]. auto. Qed.

Lemma poll_call_step who k s :
  Inv s -> Step s (fst (poll_call who k s)) /\ opt_res_ok (fst (poll_call who k s)) (snd (poll_call who k s)).
Proof.
  intros I. unfold poll_call.
  destruct (find_call k (calls (s_ s))) as [c|] eqn:Ef; [|cbn [fst snd opt_res_ok]; split; auto; now apply Step_refl].
  pose proof (CK_find k s c (iv_calls s I) Ef) as Hc.
  destruct (cst c) eqn:Ec; cbn [cst_ok] in Hc.
  - repeat dm.
    + now apply body_full_step.
    + now apply climgate_step.
    + match goal with |- context [gate who k p None ?X] =>
        assert (S1 : Step s X) by (plumbK s; now apply Step_refl);
        destruct (gate_step who k p None X (proj1 S1) Hc) as [A B];
        split; [eapply Step_then; [exact S1|exact A]|auto] end.
  - now apply gate_step.
  - dm.
    + destruct (hres_step q2 id n s I) as [A B]. destruct (hres_any q2 id n s) as [s1 r].
      cbn [fst snd opt_res_ok] in *. auto.
    + cbn [fst snd opt_res_ok]. split; auto. now apply Step_refl.
  - now apply ctl_enter_step.
  - cbn [fst snd opt_res_ok]. split; auto. now apply Step_refl.
  - now apply inner_call_step.
  - now apply inner_call_step.
  - repeat dm.
    + now apply cproto_finish_step.
    + now apply proto_finish_step.
    + cbn [fst snd opt_res_ok]. split; auto. now apply Step_refl.
  - now apply climgate_step.
Qed.

Lemma res_codes_ok c r : res_ok c r -> Forall (code_ok c) (ritem (hres_of r)).
Proof.
  destruct r as [|t id x|e]; cbn [res_ok hres_of ritem]; auto.
  intros H. constructor; auto. exists t, id, x. auto.
Qed.
Lemma res_direct_ok c r : res_ok c r -> match (match r with RErr e => Some e | _ => None end) with Some e => err_ok e | None => True end.
Proof. destruct r; cbn [res_ok]; auto. Qed.

Lemma finish_deferred_step k r s :
  Inv s -> res_ok (closedio s) r -> Step s (fst (finish_deferred k r s)).
Proof.
  intros I Hr. unfold finish_deferred. cbn [fst].
  destruct (after_rq_step (complete (q_ s) k (hres_of r)) (match r with RErr e => Some e | _ => None end)
              (ritem (hres_of r)) s I (complete_flow _ _ _) (res_codes_ok _ _ Hr) (res_direct_ok _ _ Hr)) as (A & B & _).
  split; auto.
Qed.

(* replacing the response queue by one that holds the same codes *)
Lemma set_q_step q1 s : Inv s -> rq_flow (q_ s) q1 [] -> Step s (set_q q1 s).
Proof.
  intros I [_ Hq]. split.
  - destruct I as [I1 I2 I3 I4 I5 I6]. constructor; auto.
    intros c Hc. cbn [set_q q_] in Hc. apply Hq in Hc. rewrite app_nil_r in Hc. now apply I4.
  - unfold E. apply (Ek_ext (K s) (K s) (K s)); auto. apply Ek_refl.
Qed.

Lemma Step_add_call c s s0 :
  cst_ok (cst c) -> Step s0 s -> Step s0 (up_s (fun x => s_calls (calls x ++ [c]) x) s).
Proof.
  intros Hc S. apply (Step_KC _ s); auto.
  intros H. unfold CK, CL in *. cbn [up_s s_ s_calls calls]. apply Forall_app. split; auto.
Qed.

Lemma Step_qerrs e s s0 :
  err_ok e -> Step s0 s -> Step s0 (up_s (s_qerrs (qerrs (s_ s) ++ [e])) s).
Proof.
  intros He S. eapply Step_then; [exact S|]. destruct S as [[I1 I2 I3 I4 I5 I6] _]. split.
  - constructor; auto. cbn [up_s s_ s_qerrs qerrs]. apply Forall_app. split; auto.
  - unfold E. apply (Ek_ext (K s) (K s) (K s)); auto. apply Ek_refl.
Qed.

Lemma d_call_service_step p s : Inv s -> pkt_ok p -> Step s (fst (d_call_service p s)).
Proof.
  intros I Hp. unfold d_call_service.
  set (k := nreq (s_ s) + 1). set (s0 := up_s (s_nreq k) s).
  assert (S0 : Step s s0) by (unfold s0; plumbKL s; now apply Step_refl).
  destruct (response (q_ s0)) eqn:Er.
  - (* spawned *)
    set (q1 := fst (call_service (q_ s0) k None)).
    assert (F : rq_flow (q_ s0) q1 []) by apply (call_service_flow (q_ s0) k None).
    match goal with |- context [let '(key, s0) := ?X in _] => destruct X as [key s0'] eqn:Ek' end.
    assert (S0' : Step s s0' /\ q_ s0' = q_ s0).
    { destruct (cfree (s_ s0)); injection Ek' as <- <-; (split; [plumbKL s0; exact S0|reflexivity]). }
    destruct S0' as [S0' Q0']. rewrite <- Q0' in F.
    cbn [fst]. plumbKL (up_s (fun x => s_calls (calls x ++ [mkCall k (CInit p) false (TS k) key]) x) (set_q q1 s0')).
    apply Step_add_call; [exact Hp|].
    eapply Step_then; [exact S0'|]. apply set_q_step; [apply S0'|exact F].
  - cbn [fst].
    set (s1 := up_s (fun x => s_calls (calls x ++ [mkCall k (CInit p) false TD 0]) x) s0).
    assert (S1 : Step s s1) by (unfold s1; apply Step_add_call; [exact Hp|exact S0]).
    destruct (poll_call_step TD k s1 (proj1 S1)) as [A B].
    destruct (poll_call TD k s1) as [s2 [r|]]; cbn [fst snd opt_res_ok] in A, B.
    + set (s3 := retire_call k s2).
      assert (S3 : Step s s3).
      { unfold s3. apply (Step_KC _ s2); [apply K_retire_call|apply CK_retire_call|].
        eapply Step_then; [exact S1|exact A]. }
      assert (B3 : res_ok (closedio s3) r).
      { unfold s3, closedio. pose proof (K_retire_call k s2) as HK. Kproj HK. rewrite H4, H5. exact B. }
      set (q1 := fst (call_service (q_ s3) k (Some (hres_of r)))).
      assert (F : rq_flow (q_ s3) q1 (ritem (hres_of r))) by apply (call_service_flow (q_ s3) k (Some (hres_of r))).
      destruct r as [|t id x|e].
      * destruct (after_rq_step q1 None _ s3 (proj1 S3) F (res_codes_ok _ _ B3) Logic.I) as (A1 & A2 & _).
        destruct (queue (q_ s3)); (eapply Step_then; [exact S3|split; auto]).
      * destruct (after_rq_step q1 None _ s3 (proj1 S3) F (res_codes_ok _ _ B3) Logic.I) as (A1 & A2 & _).
        destruct (queue (q_ s3)); (eapply Step_then; [exact S3|split; auto]).
      * destruct (queue (q_ s3)) eqn:Eq.
        -- destruct (after_rq_step q1 (Some e) _ s3 (proj1 S3) F (res_codes_ok _ _ B3) B3) as (A1 & A2 & _).
           eapply Step_then; [exact S3|split; auto].
        -- set (s5 := up_s (s_qerrs (qerrs (s_ s3) ++ [e])) s3).
           assert (S4 : Step s s5) by (unfold s5; apply Step_qerrs; [exact B3|exact S3]).
           assert (F4 : rq_flow (q_ s5) q1 (ritem (hres_of (RErr e)))) by exact F.
           assert (B4 : res_ok (closedio s5) (RErr e)) by exact B3.
           destruct (after_rq_step q1 None _ s5 (proj1 S4) F4 (res_codes_ok _ _ B4) Logic.I) as (A1 & A2 & _).
           eapply Step_then; [exact S4|split; auto].
    + assert (S2 : Step s s2) by (eapply Step_then; [exact S1|exact A]).
      eapply Step_then; [exact S2|]. apply set_q_step; [apply S2|].
      apply (call_service_flow (q_ s2) k None).
Qed.
Lemma K_dst_eq s s' : K s' = K s -> dst (s_ s') = dst (s_ s).
Proof. intros H. exact (f_equal k_dst H). Qed.

Lemma io_close_step s s0 : Step s0 s -> Step s0 (io_close s).
Proof.
  intros S. eapply Step_then; [exact S|]. destruct S as [I _]. split.
  - apply (Inv_R s); auto using R_io_close, CL_io_close, io_close_closing_mono.
  - apply E_R0; auto using R_io_close, io_close_closing_mono, io_close_wire. now rewrite io_close_p.
Qed.

(* a dispatcher state change that stays outside DProc *)
Lemma Step_dst (g : sst -> sst) s s0 :
  (forall x, calls (g x) = calls x /\ lasterr (g x) = lasterr x /\ qerrs (g x) = qerrs x) ->
  dst (s_ s) <> DProc -> dst (g (s_ s)) <> DProc ->
  Step s0 s -> Step s0 (up_s g s).
Proof.
  intros Hg H1 H2 S. eapply Step_then; [exact S|]. destruct S as [[I1 I2 I3 I4 I5 I6] _].
  destruct (Hg (s_ s)) as (G1 & G2 & G3). split.
  - constructor; auto; cbn [up_s s_ i_ q_]; try congruence.
    unfold CK, CL in *. cbn [up_s s_]. now rewrite G1.
  - constructor; cbn [K up_s k_c k_p k_l k_q k_wire k_closing k_stopped k_dst c_ p_ l_ i_ s_]; auto;
      try (intros H; contradiction).
    exists []. cbn [flat3 flat_map ndisc filter length]. rewrite app_nil_r.
    repeat split; auto; try (destruct (dsent (p_ s)); lia); try discriminate; try contradiction.
Qed.

Lemma stop_reason_ok e : err_ok e -> 128 <= stop_reason e < 256.
Proof. destruct e; cbn [err_ok stop_reason]; auto. lia. Qed.

(* ---- do_stop, computed on the core *)
Definition Kl (g : lst -> lst) (a : core) : core :=
  mkCore (k_c a) (k_p a) (g (k_l a)) (k_q a) (k_wire a) (k_closing a) (k_stopped a) (k_chan a) (k_rbuf a) (k_dst a)
         (k_stopping a) (k_lasterr a) (k_qerrs a).
Definition Kp (g : pst -> pst) (a : core) : core :=
  mkCore (k_c a) (g (k_p a)) (k_l a) (k_q a) (k_wire a) (k_closing a) (k_stopped a) (k_chan a) (k_rbuf a) (k_dst a)
         (k_stopping a) (k_lasterr a) (k_qerrs a).
Definition Kdst (d : dstate) (a : core) : core :=
  mkCore (k_c a) (k_p a) (k_l a) (k_q a) (k_wire a) (k_closing a) (k_stopped a) (k_chan a) (k_rbuf a) d
         (k_stopping a) (k_lasterr a) (k_qerrs a).
Lemma K_up_l g s : K (up_l g s) = Kl g (K s). Proof. reflexivity. Qed.
Lemma K_up_p g s : K (up_p g s) = Kp g (K s). Proof. reflexivity. Qed.
Lemma K_up_dst d s : K (up_s (s_dst d) s) = Kdst d (K s). Proof. reflexivity. Qed.

Definition IK (a : core) (cl : list call) : Prop :=
  Forall pkt_ok (k_chan a) /\ Forall pkt_ok (k_rbuf a) /\ Forall (fun c => cst_ok (cst c)) cl /\
  (forall c, In c (rcodes (queue (k_q a))) -> code_ok (kclosed a) c) /\
  err_ok (k_lasterr a) /\ Forall err_ok (k_qerrs a).
Lemma Inv_IK s : Inv s <-> IK (K s) (CL s).
Proof. split; [intros [A B C D E' F]; repeat split; auto|intros (A & B & C & D & E' & F); constructor; auto]. Qed.

(* the guarded DISCONNECT write *)
Definition gdiscK (r : N) (a : core) : core :=
  if dsent (k_p a) then Kp (p_dsent true) a
  else Kw (if kclosed a then k_wire a else k_wire a ++ [224; 0; r]) (Kp (p_dsent true) a).

Definition stopK (client_router : bool) (is5 : bool) (kind reason : N) (a : core) : core :=
  let a1 := if client_router then a
            else Kl (fun x => l_stops (stops x + 1) (if stops x =? 0 then l_stop1 kind x else x)) a in
  let a2 := if is5 && negb (kind =? 3) then gdiscK reason a1 else a1 in
  Kdst (DShut ShInit) a2.

Lemma K_do_stop kind reason s :
  K (do_stop kind reason s) =
  stopK (is_client s && route (c_ s)) (v5 (c_ s)) kind reason (K s).
Proof.
  unfold do_stop. rewrite K_up_dst.
  pose proof (K_r1_poll s) as K0. set (s0 := fst (r1_poll s)) in *.
  assert (Hc : c_ s0 = c_ s) by (exact (f_equal k_c K0)).
  assert (Hic : is_client s0 = is_client s) by (unfold is_client; now rewrite Hc).
  unfold stopK. rewrite Hic, Hc. f_equal.
  destruct (is_client s && route (c_ s)).
  - rewrite Hc. destruct (v5 (c_ s) && negb (kind =? 3)); [|exact K0].
    unfold test_set_dsent, gdiscK. rewrite <- K0. cbn [K k_p].
    destruct (dsent (p_ s0)); [reflexivity|]. rewrite K_io_encode. reflexivity.
  - cbn [up_l c_]. rewrite Hc. destruct (v5 (c_ s) && negb (kind =? 3)); [|rewrite K_up_l, K0; reflexivity].
    unfold test_set_dsent, gdiscK. rewrite <- K0. cbn [K k_p Kl up_l p_].
    destruct (dsent (p_ s0)); [reflexivity|]. rewrite K_io_encode. reflexivity.
Qed.

Lemma CL_do_stop kind reason s : CK s -> CK (do_stop kind reason s).
Proof.
  intros H. unfold do_stop. pose proof (CK_r1_poll s H) as H0.
  unfold test_set_dsent. cbv beta iota zeta.
  repeat (match goal with |- context [if ?x then _ else _] => destruct x eqn:? end; cbv beta iota zeta); cksolve.
Qed.

Lemma Ek_stopK cr is5 kind reason a :
  k_dst a = DProc -> is5 = v5 (k_c a) -> (kind = 3 \/ 128 <= reason < 256) ->
  Ek a (stopK cr is5 kind reason a).
Proof.
  intros Hd -> Hk. destruct a as [c p l q w cl st ch rb d sg le qe]. cbn [k_dst k_c] in *. subst d.
  unfold stopK, gdiscK, Kl, Kp, Kw, Kdst, kclosed.
  cbn [k_c k_p k_l k_q k_wire k_closing k_stopped k_chan k_rbuf k_dst k_stopping k_lasterr k_qerrs].
  assert (W0 : forall (pp : pst) (ll : lst), (dsent p = true -> dsent pp = true) ->
            (stops ll = stops l \/ stops ll = stops l + 1) ->
            Ek (mkCore c p l q w cl st ch rb DProc sg le qe) (mkCore c pp ll q w cl st ch rb (DShut ShInit) sg le qe)).
  { intros pp ll Hp Hl. constructor; cbn [k_c k_p k_l k_q k_wire k_closing k_stopped k_dst]; auto.
    - exists []. cbn [flat3 flat_map ndisc filter length]. rewrite app_nil_r.
      repeat split; auto; try (destruct (dsent p); lia); try discriminate; try contradiction.
    - intros H; contradiction.
    - intros _. destruct Hl as [Hl|Hl]; [left; auto|right; split; [auto|discriminate]]. }
  assert (W1 : forall (ll : lst), dsent p = false -> cl || st = false -> 128 <= reason < 256 -> v5 c = true ->
            (stops ll = stops l \/ stops ll = stops l + 1) ->
            Ek (mkCore c p l q w cl st ch rb DProc sg le qe)
               (mkCore c (p_dsent true p) ll q (w ++ [224; 0; reason]) cl st ch rb (DShut ShInit) sg le qe)).
  { intros ll Hp Hc Hr Hv Hl. constructor; cbn [k_c k_p k_l k_q k_wire k_closing k_stopped k_dst]; auto.
    - exists [(224, 0, reason)]. unfold kclosed. cbn [flat3 flat_map fst snd k_closing k_stopped k_p k_c]. rewrite Hc, Hp, Hv.
      split; [reflexivity|]. split; [discriminate|].
      split; [unfold ndisc, is_disc; cbn [filter fst]; change (224 =? 224) with true; cbn; lia|].
      split; [reflexivity|].
      intros x [<-|[]]. split; [unfold trip_wf; cbn [fst snd In]; split; [auto 10|split; lia]|].
      intros _. cbn [fst snd]. split; [reflexivity|lia].
    - intros H; contradiction.
    - intros _. destruct Hl as [Hl|Hl]; [left; auto|right; split; [auto|discriminate]]. }
  assert (L1 : forall x : lst, stops (l_stops (stops x + 1) (if stops x =? 0 then l_stop1 kind x else x)) = stops x + 1)
    by (intros x; destruct (stops x =? 0); reflexivity).
  destruct cr; destruct (v5 c && negb (kind =? 3)) eqn:Hv;
    cbn [k_c k_p k_l k_q k_wire k_closing k_stopped k_chan k_rbuf k_dst k_stopping k_lasterr k_qerrs];
    try (apply W0; auto);
    destruct (dsent p) eqn:Hp;
    cbn [k_c k_p k_l k_q k_wire k_closing k_stopped k_chan k_rbuf k_dst k_stopping k_lasterr k_qerrs];
    try (apply W0; cbn [p_dsent dsent]; auto);
    destruct (cl || st) eqn:Hc;
    cbn [k_c k_p k_l k_q k_wire k_closing k_stopped k_chan k_rbuf k_dst k_stopping k_lasterr k_qerrs];
    try (apply W0; cbn [p_dsent dsent]; auto).
  all: apply andb_true_iff in Hv as [Hv Hk3]; apply negb_true_iff, N.eqb_neq in Hk3;
       destruct Hk as [Hk|Hk]; [contradiction|]; apply W1; auto.
Qed.

Lemma IK_stopK cr is5 kind reason a cl : IK a cl -> IK (stopK cr is5 kind reason a) cl.
Proof.
  intros (A & B & C & D & E' & F). destruct a as [c p l q w cg st ch rb d sg le qe].
  unfold stopK, gdiscK, Kl, Kp, Kw, Kdst, kclosed in *.
  cbn [k_c k_p k_l k_q k_wire k_closing k_stopped k_chan k_rbuf k_dst k_stopping k_lasterr k_qerrs] in *.
  repeat dm; cbn [k_c k_p k_l k_q k_wire k_closing k_stopped k_chan k_rbuf k_dst k_stopping k_lasterr k_qerrs];
    repeat split; auto.
Qed.

Lemma do_stop_step kind reason s :
  Inv s -> dst (s_ s) = DProc -> (kind = 3 \/ 128 <= reason < 256) ->
  Step s (do_stop kind reason s) /\ dst (s_ (do_stop kind reason s)) = DShut ShInit.
Proof.
  intros I Hd Hk. split; [|reflexivity]. split.
  - apply Inv_IK. rewrite K_do_stop.
    apply Inv_IK in I as (A & B & C & D & E' & F).
    assert (C' : CK (do_stop kind reason s)) by (apply CL_do_stop; exact C).
    destruct (IK_stopK (is_client s && route (c_ s)) (v5 (c_ s)) kind reason (K s) (CL s)) as (A1 & B1 & _ & D1 & E1 & F1);
      [repeat split; auto|].
    repeat split; auto.
  - unfold E. rewrite K_do_stop. apply Ek_stopK; auto.
Qed.
Ltac dstwrap s0 :=
  apply Step_dst;
  [ intro; repeat split; reflexivity
  | rewrite (K_dst_eq s0) by (kpeel; reflexivity); assumption
  | cbn [s_dst dst]; discriminate
  | ].

Lemma shut_flush_step s :
  Inv s -> dst (s_ s) <> DProc ->
  Step s (fst (shut_flush s)) /\ dst (s_ (fst (shut_flush s))) <> DProc.
Proof.
  intros I Hd. unfold shut_flush.
  destruct (buf (b_ s)) as [|k rest] eqn:Eb; [cbn [fst]; split; [now apply Step_refl|exact Hd]|].
  repeat dm; cbn [fst];
    (split; [ first [ plumbK s; now apply Step_refl | dstwrap s; plumbK s; now apply Step_refl ]
            | first [ cbn [up_s s_ s_dst dst]; discriminate
                    | rewrite (K_dst_eq s) by (kpeel; reflexivity); exact Hd ] ]).
Qed.

Lemma shut_done_step s s0 : dst (s_ s) <> DProc -> Step s0 s -> Step s0 (shut_done s).
Proof.
  intros Hd S. unfold shut_done.
  plumbKL (up_s (fun x => s_dst DShutIo (s_stopping true x)) s).
  apply Step_dst; [intro; repeat split; reflexivity|exact Hd|cbn; discriminate|exact S].
Qed.

Lemma d_finish_step s s0 : dst (s_ s) <> DProc -> Step s0 s -> Step s0 (d_finish s).
Proof. intros Hd S. unfold d_finish. apply Step_dst; [intro; repeat split; reflexivity|exact Hd|cbn; discriminate|exact S]. Qed.

Lemma Step_rbuf rest s s0 :
  (exists p, rbuf (i_ s) = p :: rest) -> Step s0 s -> Step s0 (up_i (i_rbuf rest) s).
Proof.
  intros (p & Hp) S. eapply Step_then; [exact S|]. destruct S as [[I1 I2 I3 I4 I5 I6] _]. split.
  - constructor; auto. cbn [up_i i_ i_rbuf rbuf]. rewrite Hp in I2. now inversion I2.
  - unfold E. apply (Ek_ext (K s) (K s) (K s)); auto. apply Ek_refl.
Qed.

Lemma set_q_noerr_step s s0 :
  Step s0 s ->
  Step s0 (set_q (mkRq (base (q_ s)) (queue (q_ s)) (response (q_ s)) (response_idx (q_ s)) false (spawned (q_ s))
                       (out (q_ s)) (panicked (q_ s))) s).
Proof.
  intros S. eapply Step_then; [exact S|]. apply set_q_step; [apply S|]. apply rq_flow_same_lists; reflexivity.
Qed.
Lemma R_dst s s' : R s' = R s -> dst (s_ s') = dst (s_ s).
Proof. unfold R. intros H. injection H. auto. Qed.

Lemma r1_poll_step s s0 : Step s0 s -> Step s0 (fst (r1_poll s)).
Proof. intros S. apply (Step_KC _ s); [apply K_r1_poll|apply CK_r1_poll|exact S]. Qed.

Lemma d_loop_step fuel : forall s, Inv s -> Step s (d_loop fuel s).
Proof.
  induction fuel as [|f IH]; intros s I; cbn [d_loop]; [now apply Step_refl|].
  assert (GO : forall X, Step s X -> Step s (d_loop f X)).
  { intros X SX. eapply Step_then; [exact SX|apply IH, SX]. }
  destruct (dst (s_ s)) as [|sh| |] eqn:Hd.
  - (* DProc *)
    destruct (error (q_ s)) eqn:He.
    + match goal with |- context [do_stop ?k ?r ?X] =>
        assert (S1 : Step s X) by (apply set_q_noerr_step; now apply Step_refl);
        destruct (do_stop_step k r X (proj1 S1) Hd) as [S2 _];
        [right; apply stop_reason_ok; apply I|];
        apply GO; eapply Step_then; [exact S1|exact S2] end.
    + pose proof (r1_poll_step s s (Step_refl s I)) as S1.
      assert (D1 : dst (s_ (fst (r1_poll s))) = DProc) by (rewrite (K_dst_eq s) by apply K_r1_poll; exact Hd).
      destruct (r1_poll s) as [s1 rdy]. cbn [fst] in S1, D1. destruct rdy.
      * match goal with |- context [rbuf (i_ ?X)] =>
          assert (S2 : Step s X) by (dm; [plumbKL s1; exact S1|exact S1]);
          assert (D2 : dst (s_ X) = DProc) by (dm; [rewrite (K_dst_eq s1) by (kpeel; reflexivity)|]; exact D1);
          set (s2 := X) in * end.
        destruct (rbuf (i_ s2)) as [|p rest] eqn:Erb.
        -- destruct (stopped (i_ s2)).
           ++ destruct (do_stop_step 3 0 s2 (proj1 S2) D2 (or_introl eq_refl)) as [S3 _].
              apply GO. eapply Step_then; [exact S2|exact S3].
           ++ dm; [plumbKL s2|plumbKL s2]; exact S2.
        -- assert (Hp : pkt_ok p) by (pose proof (iv_rbuf _ (proj1 S2)) as F; rewrite Erb in F; now inversion F).
           assert (S3 : Step s (up_i (i_rbuf rest) s2)) by (apply Step_rbuf; [eauto|exact S2]).
           assert (D3 : dst (s_ (up_i (i_rbuf rest) s2)) = DProc) by exact D2.
           assert (CS : Step s (match d_call_service p (up_i (i_rbuf rest) s2) with
                               | (s3, true) => wake TD s3 | (s3, false) => d_loop f s3 end)).
           { pose proof (d_call_service_step p _ (proj1 S3) Hp) as S4.
             destruct (d_call_service p (up_i (i_rbuf rest) s2)) as [s3 [|]]; cbn [fst] in S4.
             - plumbKL s3. eapply Step_then; [exact S3|exact S4].
             - apply GO. eapply Step_then; [exact S3|exact S4]. }
           destruct p; try exact CS.
           cbn [pkt_ok] in Hp.
           destruct (do_stop_step 1 reason _ (proj1 S3) D3 (or_intror Hp)) as [S4 _].
           apply GO. eapply Step_then; [exact S3|exact S4].
      * match goal with |- context [up_i (i_dispreg true) ?X] =>
          assert (S2 : Step s (up_i (i_dispreg true) X)) by (dm; [plumbKL s1|plumbKL s1]; exact S1);
          assert (D2 : dst (s_ (up_i (i_dispreg true) X)) = DProc)
            by (rewrite (K_dst_eq s1) by (dm; kpeel; reflexivity); exact D1);
          set (s3 := up_i (i_dispreg true) X) in * end.
        cbv zeta. destruct (stopped (i_ s3)); [|exact S2].
        destruct (do_stop_step 3 0 s3 (proj1 S2) D2 (or_introl eq_refl)) as [S4 _].
        apply GO. eapply Step_then; [exact S2|exact S4].
  - (* DShut *)
    assert (Hn : dst (s_ s) <> DProc) by (rewrite Hd; discriminate).
    destruct sh as [|o|w].
    + (* ShInit *)
      match goal with |- context [is_client ?X && negb (v5 (c_ ?X))] =>
        assert (S1 : Step s X) by (dm; first [now apply Step_refl|plumbKL s; now apply Step_refl]);
        assert (D1 : dst (s_ X) <> DProc) by (dm; first [exact Hn|rewrite (K_dst_eq s) by (kpeel; reflexivity); exact Hn]);
        set (s1 := X) in * end.
      match goal with |- context [nextc (b_ ?X)] =>
        assert (S2 : Step s X /\ dst (s_ X) <> DProc);
        [|destruct S2 as [S2 D2]; set (s2 := X) in *] end.
      { destruct (is_client s1 && negb (v5 (c_ s1))) eqn:Hc.
        - apply andb_true_iff in Hc as [_ Hv]. apply negb_true_iff in Hv.
          split; [eapply Step_then; [exact S1|apply close3c_step; [exact Hv|apply S1]]|].
          rewrite (R_dst s1) by apply R_close3c. exact D1.
        - split; [now apply io_close_step|]. rewrite (R_dst s1) by apply R_io_close. exact D1. }
      cbv zeta. destruct (nextc (b_ s2)) as [o|].
      * dm.
        -- plumbKL (up_s (s_dst (DShut (ShWaitA o))) (up_b (b_nextc None) s2)).
           apply Step_dst; [intro; repeat split; reflexivity|exact D2|cbn; discriminate|]. plumbKL s2. exact S2.
        -- apply GO. apply Step_dst; [intro; repeat split; reflexivity|exact D2|cbn; discriminate|]. plumbKL s2. exact S2.
      * apply GO. apply Step_dst; [intro; repeat split; reflexivity|exact D2|cbn; discriminate|exact S2].
    + dm.
      * plumbKL s. now apply Step_refl.
      * apply GO. apply Step_dst; [intro; repeat split; reflexivity|exact Hn|cbn; discriminate|now apply Step_refl].
    + destruct (shut_flush_step s I Hn) as [S1 D1].
      destruct (shut_flush s) as [s1 [|]]; cbn [fst] in S1, D1; [|exact S1].
      apply GO. now apply shut_done_step.
  - (* DShutIo *)
    assert (Hn : dst (s_ s) <> DProc) by (rewrite Hd; discriminate).
    dm.
    + apply d_finish_step; [exact Hn|now apply Step_refl].
    + plumbKL s. now apply Step_refl.
  - now apply Step_refl.
Qed.
Lemma res_ok_K r s s' : K s' = K s -> res_ok (closedio s) r -> res_ok (closedio s') r.
Proof. intros H. Kproj H. unfold closedio. now rewrite H5, H6. Qed.

Lemma d_poll_step s : Inv s -> Step s (d_poll s).
Proof.
  intros I. unfold d_poll.
  assert (S1 : Step s (match response (q_ s) with
                       | Some k => match poll_call TD k s with
                                   | (s', Some r) => fst (finish_deferred k r (retire_call k s'))
                                   | (s', None) => s' end
                       | None => s end)).
  { destruct (response (q_ s)) as [k|]; [|now apply Step_refl].
    destruct (poll_call_step TD k s I) as [A B].
    destruct (poll_call TD k s) as [s' [r|]]; cbn [fst snd opt_res_ok] in A, B; [|exact A].
    assert (S2 : Step s (retire_call k s'))
      by (apply (Step_KC _ s'); [apply K_retire_call|apply CK_retire_call|exact A]).
    eapply Step_then; [exact S2|].
    apply finish_deferred_step; [apply S2|].
    apply (res_ok_K r s'); [apply K_retire_call|exact B]. }
  assert (Main : Step s (d_loop 64 (match response (q_ s) with
                       | Some k => match poll_call TD k s with
                                   | (s', Some r) => fst (finish_deferred k r (retire_call k s'))
                                   | (s', None) => s' end
                       | None => s end)))
    by (eapply Step_then; [exact S1|apply d_loop_step, S1]).
  destruct (dst (s_ s)); try exact Main. now apply Step_refl.
Qed.

Lemma ts_poll_step k s : Inv s -> Step s (ts_poll k s).
Proof.
  intros I. unfold ts_poll. destruct (find_call k (calls (s_ s))) as [c0|]; [|now apply Step_refl].
  destruct (poll_call_step (TS k) k s I) as [A B].
  destruct (poll_call (TS k) k s) as [s1 [r|]]; cbn [fst snd opt_res_ok] in A, B.
  - assert (S2 : Step s (retire_call k s1))
      by (apply (Step_KC _ s1); [apply K_retire_call|apply CK_retire_call|exact A]).
    assert (S3 : Step s (fst (finish_deferred k r (retire_call k s1)))).
    { eapply Step_then; [exact S2|]. apply finish_deferred_step; [apply S2|].
      apply (res_ok_K r s1); [apply K_retire_call|exact B]. }
    destruct (finish_deferred k r (retire_call k s1)) as [s2 e]. cbn [fst] in S3.
    destruct e; [plumbKL s2|plumbKL s2]; exact S3.
  - destruct (stopping (s_ s1)); [|exact A].
    assert (S2 : Step s (cancel_call k s1))
      by (apply (Step_KC _ s1); [apply K_cancel_call|apply CK_cancel_call|exact A]).
    assert (S3 : Step s (fst (finish_deferred k RNone (cancel_call k s1)))).
    { eapply Step_then; [exact S2|]. apply finish_deferred_step; [apply S2|exact Logic.I]. }
    destruct (finish_deferred k RNone (cancel_call k s1)) as [s2 e]. cbn [fst] in S3.
    destruct e; [plumbKL s2|plumbKL s2]; exact S3.
Qed.

(* the io task: may stop the io, moves the peer's bytes into the read buffer *)
Lemma Step_io (g : ist -> ist) s s0 :
  (forall x, wire (g x) = wire x /\ (closing x = true -> closing (g x) = true) /\
             (stopped x = true -> stopped (g x) = true)) ->
  Forall pkt_ok (chan (g (i_ s))) -> Forall pkt_ok (rbuf (g (i_ s))) ->
  Step s0 s -> Step s0 (up_i g s).
Proof.
  intros Hg Hc Hr S. eapply Step_then; [exact S|]. destruct S as [[I1 I2 I3 I4 I5 I6] _].
  destruct (Hg (i_ s)) as (G1 & G2 & G3). split.
  - constructor; auto. intros c Hc'. apply (code_ok_mono (closedio s)); [|now apply I4].
    apply closedio_mono; cbn [up_i i_]; auto.
  - constructor; cbn [K up_i k_c k_p k_l k_q k_wire k_closing k_stopped k_dst c_ p_ l_ i_ s_]; auto.
    exists []. cbn [flat3 flat_map ndisc filter length]. rewrite app_nil_r.
    repeat split; auto; try (destruct (dsent (p_ s)); lia); try discriminate; try contradiction.
Qed.

Lemma tio_poll_step s : Inv s -> Step s (tio_poll s).
Proof.
  intros I. unfold tio_poll. destruct (stopped (i_ s)) eqn:Hst; [now apply Step_refl|].
  match goal with |- context [closing (i_ ?X) || negb (rpaused (i_ ?X))] =>
    assert (S1 : Step s X); [|set (s1 := X) in *] end.
  { repeat dm; try (now apply Step_refl).
    plumbKL (up_i (i_stopped true) s).
    apply Step_io; [intro; repeat split; auto|apply I|apply I|now apply Step_refl]. }
  cbv zeta.
  match goal with |- context [wpaused (i_ ?X)] =>
    assert (S2 : Step s X); [|set (s2 := X) in *] end.
  { dm; [|exact S1]. destruct (chan (i_ s1)) as [|p l] eqn:Ec; [exact S1|].
    plumbKL (up_i (fun x => i_chan [] (i_rbuf (rbuf x ++ p :: l) x)) s1).
    apply Step_io; [intro; repeat split; auto|constructor| |exact S1].
    cbn [i_chan i_rbuf rbuf]. apply Forall_app. split; [apply S1|]. rewrite <- Ec. apply S1. }
  dm; [|exact S2].
  match goal with |- Step s (if _ then wake TIO ?X else ?X) =>
    assert (S3 : Step s X) by (plumbKL s2; exact S2) end.
  dm; [plumbKL (up_i (i_wpaused true) s2)|]; exact S3.
Qed.

Lemma run_task_step t s : Inv s -> Step s (run_task t s).
Proof.
  intros I. unfold run_task.
  set (s0 := up_s _ s).
  assert (S0 : Step s s0) by (unfold s0; plumbKL s; now apply Step_refl).
  match goal with |- context [self_woken (s_ ?X)] =>
    assert (S1 : Step s X); [|set (s1 := X) in *] end.
  { eapply Step_then; [exact S0|]. destruct t.
    - apply d_poll_step, S0.
    - apply tio_poll_step, S0.
    - plumbKL s0. apply Step_refl, S0.
    - apply ts_poll_step, S0. }
  cbv zeta. dm; [plumbKL s1|plumbKL s1]; exact S1.
Qed.

Lemma run_all_step fuel : forall s, Inv s -> Step s (run_all fuel s).
Proof.
  induction fuel as [|f IH]; intros s I; cbn [run_all]; [now apply Step_refl|].
  destruct (runq (s_ s)) as [|t r]; [now apply Step_refl|].
  assert (S0 : Step s (up_s (s_runq r) s)) by (plumbKL s; now apply Step_refl).
  assert (S1 : Step s (run_task t (up_s (s_runq r) s))) by (eapply Step_then; [exact S0|apply run_task_step, S0]).
  eapply Step_then; [exact S1|apply IH, S1].
Qed.
(* ---- operations *)
Definition field_ok (f : list N) : Prop := nth0 f 2 < 65536 /\ nth0 f 3 < 65536.

Lemma parse_pkt_ok is5 f : field_ok f -> pkt_ok (parse_pkt is5 f).
Proof.
  intros [H2 H3]. unfold parse_pkt. repeat dm; cbn [pkt_ok]; auto; try lia.
Qed.

Lemma Step_chan p s s0 : pkt_ok p -> Step s0 s -> Step s0 (up_i (i_chan (chan (i_ s) ++ [p])) s).
Proof.
  intros Hp S. apply Step_io; [intro; repeat split; auto| |apply S|exact S].
  cbn [i_chan chan]. apply Forall_app. split; [apply S|auto].
Qed.

Lemma step_op_step f s : field_ok f -> Inv s -> Step s (step_op f s).
Proof.
  intros Hf I. unfold step_op.
  assert (A1 : Step s (if stopped (i_ s) then s
                       else wake TIO (up_i (i_chan (chan (i_ s) ++ [parse_pkt (v5 (c_ s)) f])) s))).
  { dm; [now apply Step_refl|]. plumbKL (up_i (i_chan (chan (i_ s) ++ [parse_pkt (v5 (c_ s)) f])) s).
    apply Step_chan; [now apply parse_pkt_ok|now apply Step_refl]. }
  assert (A2 : forall h res, Step s (
      let s1 := match assocN h (hgate (l_ s)) with
                | Some _ => up_l (l_hgate (assoc_set h res (hgate (l_ s)))) s
                | None => up_l (l_hgate (hgate (l_ s) ++ [(h, res)])) s
                end in wake_waiting_h h (calls (s_ s1)) s1)).
  { intros h res. cbv zeta. 
    match goal with |- Step s (wake_waiting_h _ _ ?X) => plumbKL X end.
    dm; (apply Step_up_l; [intro; reflexivity|now apply Step_refl]). }
  assert (A3 : forall n res, Step s (
      let s1 := match assocN n (pgate (l_ s)) with
                | Some _ => up_l (l_pgate (assoc_set n res (pgate (l_ s)))) s
                | None => up_l (l_pgate (pgate (l_ s) ++ [(n, res)])) s
                end in wake_waiting_p n (calls (s_ s1)) s1)).
  { intros n res. cbv zeta.
    match goal with |- Step s (wake_waiting_p _ _ ?X) => plumbKL X end.
    dm; (apply Step_up_l; [intro; reflexivity|now apply Step_refl]). }
  repeat (match goal with |- context [match ?x with _ => _ end] =>
    lazymatch x with
    | context [match _ with _ => _ end] => fail
    | stopped _ => fail
    | assocN _ _ => fail
    | _ => destruct x
    end end);
  first [ exact A1 | apply A2 | apply A3 | now apply Step_refl ].
Qed.

(* ---- runs *)
Fixpoint trace (ops : list (list N)) (s : st) : list st :=
  match ops with
  | [] => []
  | f :: r => let s1 := run_all 400 (step_op f s) in s1 :: trace r (clear_obs s1)
  end.

Lemma run_ops_trace ops : forall s, run_ops ops s = map observe (trace ops s).
Proof. induction ops as [|f r IH]; intros s; cbn [run_ops trace map]; [reflexivity|]. now rewrite IH. Qed.

Lemma full_step f s : field_ok f -> Inv s -> Step s (run_all 400 (step_op f s)).
Proof.
  intros Hf I. pose proof (step_op_step f s Hf I) as S1.
  eapply Step_then; [exact S1|apply run_all_step, S1].
Qed.

Lemma clear_obs_Inv s : Inv s -> Inv (clear_obs s).
Proof. intros [I1 I2 I3 I4 I5 I6]. constructor; auto. Qed.

Definition cumwire (tr : list st) : list N := flat_map (fun x => wire (i_ x)) tr.

Definition props_from (s : st) (tr : list st) : Prop :=
  (exists ws, cumwire tr = flat3 ws /\
     (ndisc ws + (if dsent (p_ s) then 1 else 0) <= 1)%nat /\
     (closedio s = true -> ws = []) /\
     (forall x, In x ws -> trip_wf x /\ (is_disc x = true ->
        snd (fst x) = 0 /\ if v5 (c_ s) then 128 <= snd x else snd x = 0))) /\
  (forall s', In s' tr ->
     stops (l_ s') <= stops (l_ s) + (if dstate_eq_dec_proc (dst (s_ s)) then 1 else 0)).

Lemma props_nil s : props_from s [].
Proof.
  split; [|intros s' []]. exists [].
  repeat split; auto; try (cbn; destruct (dsent (p_ s)); lia); try contradiction.
Qed.

Lemma clear_obs_proj s :
  dsent (p_ (clear_obs s)) = dsent (p_ s) /\ closedio (clear_obs s) = closedio s /\ c_ (clear_obs s) = c_ s /\
  stops (l_ (clear_obs s)) = stops (l_ s) /\ dst (s_ (clear_obs s)) = dst (s_ s).
Proof. repeat split; reflexivity. Qed.

Lemma props_cons s s1 tr :
  wire (i_ s) = [] -> E s s1 -> props_from (clear_obs s1) tr -> props_from s (s1 :: tr).
Proof.
  intros Hw E1 [(ws2 & V1 & V2 & V3 & V4) ST].
  destruct (clear_obs_proj s1) as (P1 & P2 & P3 & P4 & P5). rewrite P1 in V2. rewrite P2 in V3. rewrite P3 in V4.
  rewrite P4, P5 in ST.
  destruct E1 as [C1 C2 C3 C4 (ws1 & W1 & W2 & W3 & W4 & W5) C6 C7].
  cbn [K k_c k_p k_l k_q k_wire k_closing k_stopped k_dst] in *. rewrite Hw in W1. cbn [app] in W1.
  split.
  - exists (ws1 ++ ws2). cbn [cumwire flat_map]. fold (cumwire tr).
    rewrite V1, W1, flat3_app, ndisc_app. split; auto. split; [|split].
    + destruct (dsent (p_ s)) eqn:Da.
      * rewrite (C2 eq_refl) in V2. clear - V2 W3. lia.
      * destruct (ndisc ws1) as [|[|n]] eqn:N1.
        -- clear - V2. destruct (dsent (p_ s1)); lia.
        -- rewrite (W4 eq_refl) in V2. clear - V2. lia.
        -- clear - W3. lia.
    + intros Hc. rewrite (W2 Hc). cbn [app]. apply V3. apply (closedio_mono s); auto.
    + intros x Hx. apply in_app_or in Hx as [Hx|Hx]; auto. rewrite <- C1. auto.
  - intros s' [<-|Hin].
    + destruct (dstate_eq_dec_proc (dst (s_ s))) as [Hp|Hp].
      * destruct (C7 Hp) as [H|[H _]]; clear - H; lia.
      * destruct (C6 Hp) as [_ H]. clear - H. lia.
    + specialize (ST s' Hin).
      destruct (dstate_eq_dec_proc (dst (s_ s))) as [Hp|Hp].
      * destruct (C7 Hp) as [H|[H H']].
        -- destruct (dstate_eq_dec_proc (dst (s_ s1))); clear - H ST; lia.
        -- destruct (dstate_eq_dec_proc (dst (s_ s1))); [contradiction|clear - H ST; lia].
      * destruct (C6 Hp) as [H' H]. destruct (dstate_eq_dec_proc (dst (s_ s1))); [contradiction|clear - H ST; lia].
Qed.

Theorem run_props ops : forall s,
  Inv s -> wire (i_ s) = [] -> Forall field_ok ops -> props_from s (trace ops s).
Proof.
  induction ops as [|f r IH]; intros s I Hw Hops; cbn [trace]; [apply props_nil|].
  inversion Hops as [|? ? Hf Hr]; subst.
  destruct (full_step f s Hf I) as [I1 E1].
  apply props_cons; auto. apply IH; auto. now apply clear_obs_Inv.
Qed.
(* ================================================================== decision lemmas that need the frames *)
(* a recorded error makes the dispatcher stop the connection with that error, at its next poll *)
Lemma error_stops f s :
  dst (s_ s) = DProc -> error (q_ s) = true ->
  exists s1, K s1 = K (set_q (mkRq (base (q_ s)) (queue (q_ s)) (response (q_ s)) (response_idx (q_ s)) false
                                  (spawned (q_ s)) (out (q_ s)) (panicked (q_ s))) s) /\
             d_loop (S f) s = d_loop f (do_stop (stop_kind (lasterr (s_ s))) (stop_reason (lasterr (s_ s))) s1).
Proof. intros Hd He. eexists. split; [reflexivity|]. cbn [d_loop]. now rewrite Hd, He. Qed.

(* an undecodable packet never reaches the service: Stop(Protocol(Decode)) *)
Lemma undecodable_stops f s r rest :
  dst (s_ s) = DProc -> error (q_ s) = false -> snd (r1_poll s) = true ->
  rbuf (i_ s) = KBad r :: rest ->
  exists s1, rbuf (i_ s1) = rest /\ d_loop (S f) s = d_loop f (do_stop 1 r s1).
Proof.
  intros Hd He Hr Hb. cbn [d_loop]. rewrite Hd, He.
  pose proof (K_r1_poll s) as HK. destruct (r1_poll s) as [s1 rdy]. cbn [fst snd] in *. subst rdy.
  assert (Hb1 : rbuf (i_ s1) = KBad r :: rest) by (pose proof (f_equal k_rbuf HK) as H; cbn in H; congruence).
  destruct (rpaused (i_ s1)).
  - rewrite wake_i. cbn [up_i i_ i_rpaused rbuf]. rewrite Hb1. eexists. split; [|reflexivity]. reflexivity.
  - rewrite Hb1. eexists. split; [|reflexivity]. reflexivity.
Qed.

(* what do_stop does to the wire: the guarded DISCONNECT *)
Lemma do_stop_wire kind reason s :
  wire (i_ (do_stop kind reason s)) =
    if v5 (c_ s) && negb (kind =? 3) && negb (dsent (p_ s)) && negb (closedio s)
    then wire (i_ s) ++ [224; 0; reason] else wire (i_ s).
Proof.
  pose proof (f_equal k_wire (K_do_stop kind reason s)) as H. cbn [K k_wire] in H. rewrite H.
  unfold stopK, gdiscK, kclosed, closedio.
  destruct (is_client s && route (c_ s)), (v5 (c_ s)), (kind =? 3), (dsent (p_ s)) eqn:Hd,
    (closing (i_ s) || stopped (i_ s)) eqn:Hc;
    cbn [negb andb K Kl Kp Kw Kdst k_c k_p k_l k_q k_wire k_closing k_stopped k_chan k_rbuf k_dst k_stopping k_lasterr k_qerrs];
    rewrite ?Hd, ?Hc; cbn [Kl Kp Kw Kdst k_c k_p k_l k_q k_wire k_closing k_stopped]; rewrite ?Hc; reflexivity.
Qed.

Lemma do_stop_dsent kind reason s :
  dsent (p_ (do_stop kind reason s)) = dsent (p_ s) || (v5 (c_ s) && negb (kind =? 3)).
Proof.
  pose proof (f_equal k_p (K_do_stop kind reason s)) as H. cbn [K k_p] in H. rewrite H.
  unfold stopK, gdiscK.
  destruct (is_client s && route (c_ s)), (v5 (c_ s)), (kind =? 3), (dsent (p_ s)) eqn:Hd;
    cbn [negb andb orb K Kl Kp Kw Kdst k_c k_p k_l k_q k_wire k_closing k_stopped];
    rewrite ?Hd; cbn [Kl Kp Kw Kdst k_p p_dsent dsent]; rewrite ?Hd; reflexivity.
Qed.

(* after the Stop notification the next dispatcher transition closes the io *)
Lemma stop_then_close f s :
  dst (s_ s) = DShut ShInit -> Inv s -> closedio (d_loop (S f) s) = true.
Proof.
  intros Hd I. cbn [d_loop]. rewrite Hd.
  match goal with |- context [nextc (b_ ?X)] => assert (Hc : closedio X = true); [|set (s2 := X) in *] end.
  { repeat dm; first [apply close3c_closed|apply io_close_closedio]. }
  assert (I2 : Step s s2 /\ dst (s_ s2) <> DProc).
  { unfold s2. match goal with |- context [is_client ?X && _] =>
      assert (S1 : Step s X /\ dst (s_ X) <> DProc) end.
    { dm; (split; [first [now apply Step_refl|plumbKL s; now apply Step_refl]
                  |first [rewrite Hd; discriminate|rewrite (K_dst_eq s) by (kpeel; reflexivity); rewrite Hd; discriminate]]). }
    destruct S1 as [S1 D1].
    match goal with |- context [if ?c then close3c _ else _] => destruct c eqn:Hcv end.
    - b2p. split; [eapply Step_then; [exact S1|apply close3c_step; [assumption|apply S1]]|rewrite (R_dst _ _ (R_close3c _)); exact D1].
    - split; [apply io_close_step, S1|rewrite (R_dst _ _ (R_io_close _)); exact D1]. }
  destruct I2 as [[I2 _] D2].
  assert (G : forall X, Step s2 X -> closedio (d_loop f X) = true).
  { intros X SX. pose proof (d_loop_step f X (proj1 SX)) as [_ EX]. destruct SX as [_ E1].
    apply (closedio_mono s2); auto; intros H.
    - apply EX, E1, H.
    - apply EX, E1, H. }
  assert (P : forall X, k_closing (K X) = k_closing (K s2) -> k_stopped (K X) = k_stopped (K s2) -> closedio X = true).
  { intros X H1 H2. cbn [K k_closing k_stopped] in H1, H2. unfold closedio in *. now rewrite H1, H2. }
  cbv zeta. destruct (nextc (b_ s2)) as [o|].
  - dm.
    + apply P; kpeel; reflexivity.
    + apply G. apply Step_dst; [intro; repeat split; reflexivity|exact D2|cbn; discriminate|]. plumbKL s2. now apply Step_refl.
  - apply G. apply Step_dst; [intro; repeat split; reflexivity|exact D2|cbn; discriminate|now apply Step_refl].
Qed.
(* ================================================================== the engines' runs *)
Lemma init_st_Inv is5 cf : Inv (init_st is5 cf).
Proof. constructor; cbn; auto; try constructor; try contradiction. Qed.
Lemma init_st_cli_Inv is5 cf : Inv (init_st_cli is5 cf).
Proof. constructor; cbn; auto; try constructor; try contradiction. Qed.

Definition after (ops : list (list N)) (s : st) : st :=
  fold_left (fun s f => clear_obs (run_all 400 (step_op f s))) ops s.

Lemma trace_app a : forall b s, trace (a ++ b) s = trace a s ++ trace b (after a s).
Proof. induction a as [|f a IH]; intros b s; cbn [app trace after fold_left]; [reflexivity|]. now rewrite IH. Qed.


Lemma after_Inv a : forall s, Inv s -> Forall field_ok a -> Inv (after a s).
Proof.
  induction a as [|f a IH]; intros s I Ha; cbn [after fold_left]; [exact I|].
  inversion Ha; subst. apply IH; auto. apply clear_obs_Inv. now apply full_step.
Qed.
Lemma after_wire a : forall s, wire (i_ s) = [] -> wire (i_ (after a s)) = [].
Proof. induction a as [|f a IH]; intros s H; cbn [after fold_left]; auto. Qed.

(* from every reachable point on *)
Theorem reach_props a b s :
  Inv s -> wire (i_ s) = [] -> Forall field_ok (a ++ b) ->
  trace (a ++ b) s = trace a s ++ trace b (after a s) /\ props_from (after a s) (trace b (after a s)).
Proof.
  intros I Hw H. apply Forall_app in H as [Ha Hb]. split; [apply trace_app|].
  apply run_props; auto using after_Inv, after_wire.
Qed.

(* two connections: each has its own state; an interleaving of their operations is the two runs *)
Definition step2 (ss : st * st) (o : bool * list N) : st * st :=
  if fst o then (clear_obs (run_all 400 (step_op (snd o) (fst ss))), snd ss)
  else (fst ss, clear_obs (run_all 400 (step_op (snd o) (snd ss)))).
Definition proj_ops (b : bool) (l : list (bool * list N)) : list (list N) :=
  map snd (filter (fun o => Bool.eqb (fst o) b) l).

Lemma two_connections l : forall s1 s2,
  fold_left step2 l (s1, s2) = (after (proj_ops true l) s1, after (proj_ops false l) s2).
Proof.
  induction l as [|[b f] l IH]; intros s1 s2; [reflexivity|].
  cbn [fold_left]. unfold step2 at 2. cbn [fst snd]. destruct b; rewrite IH; reflexivity.
Qed.
(* ---- corollaries for the engines: inb3/inb5 (server) and cli3/cli5 (client) *)
Definition total_disconnects (tr : list st) (n : nat) : Prop :=
  exists ws, cumwire tr = flat3 ws /\ ndisc ws = n.

Lemma props_init s ops :
  Inv s -> wire (i_ s) = [] -> dsent (p_ s) = false -> dst (s_ s) = DProc -> stops (l_ s) = 0 ->
  Forall field_ok ops ->
  (exists ws, cumwire (trace ops s) = flat3 ws /\ (ndisc ws <= 1)%nat /\
     (forall x, In x ws -> trip_wf x /\ (is_disc x = true ->
        snd (fst x) = 0 /\ if v5 (c_ s) then 128 <= snd x else snd x = 0))) /\
  (forall s', In s' (trace ops s) -> stops (l_ s') <= 1) /\
  run_ops ops s = map observe (trace ops s).
Proof.
  intros I Hw Hd Hp Hs Ho. destruct (run_props ops s I Hw Ho) as [(ws & A & B & _ & D) ST].
  rewrite Hd in B. split; [|split].
  - exists ws. repeat split; auto; try apply D; auto. lia.
  - intros s' Hin. specialize (ST s' Hin). rewrite Hs in ST. destruct (dstate_eq_dec_proc (dst (s_ s))); lia.
  - apply run_ops_trace.
Qed.

Theorem server_run is5 cf ops :
  Forall field_ok ops ->
  let s := init_st is5 cf in
  (exists ws, cumwire (trace ops s) = flat3 ws /\ (ndisc ws <= 1)%nat /\
     (forall x, In x ws -> trip_wf x /\ (is_disc x = true -> snd (fst x) = 0 /\ if is5 then 128 <= snd x else snd x = 0))) /\
  (forall s', In s' (trace ops s) -> stops (l_ s') <= 1) /\
  run_ops ops s = map observe (trace ops s).
Proof. intros H. apply props_init; auto using init_st_Inv. Qed.

Theorem client_run is5 cf ops :
  Forall field_ok ops ->
  let s := init_st_cli is5 cf in
  (exists ws, cumwire (trace ops s) = flat3 ws /\ (ndisc ws <= 1)%nat /\
     (forall x, In x ws -> trip_wf x /\ (is_disc x = true -> snd (fst x) = 0 /\ if is5 then 128 <= snd x else snd x = 0))) /\
  (forall s', In s' (trace ops s) -> stops (l_ s') <= 1) /\
  run_ops ops s = map observe (trace ops s).
Proof. intros H. apply props_init; auto using init_st_cli_Inv. Qed.

(* from any reachable point: no DISCONNECT once the flag is set (own DISCONNECT written, or the
   peer's received), nothing at all once the io is closed *)
Theorem after_flag s a b :
  Inv s -> wire (i_ s) = [] -> Forall field_ok (a ++ b) -> dsent (p_ (after a s)) = true ->
  trace (a ++ b) s = trace a s ++ trace b (after a s) /\
  exists ws, cumwire (trace b (after a s)) = flat3 ws /\ ndisc ws = 0%nat.
Proof.
  intros I Hw Ho Hd. destruct (reach_props a b s I Hw Ho) as [T [(ws & A & B & _) _]]. split; auto.
  exists ws. split; auto. rewrite Hd in B. lia.
Qed.

Theorem after_close s a b :
  Inv s -> wire (i_ s) = [] -> Forall field_ok (a ++ b) -> closedio (after a s) = true ->
  cumwire (trace b (after a s)) = [].
Proof.
  intros I Hw Ho Hc. destruct (reach_props a b s I Hw Ho) as [T [(ws & A & _ & C & _) _]].
  rewrite A, (C Hc). reflexivity.
Qed.

Lemma init_states is5 cf :
  Inv (init_st is5 cf) /\ wire (i_ (init_st is5 cf)) = [] /\
  Inv (init_st_cli is5 cf) /\ wire (i_ (init_st_cli is5 cf)) = [].
Proof. split; [apply init_st_Inv|split; [reflexivity|split; [apply init_st_cli_Inv|reflexivity]]]. Qed.

(* deviation witnesses (the model reproduces the real crate on them) *)
Lemma a2_witness :
  ack5 2 9 = A5Disc 128 /\
  run_inb5 [[2; 0; 3; 0; 0]; [1; 6; 1; 1]] = [[254; 253; 252; 3; 1; 0]].
Proof. split; vm_compute; reflexivity. Qed.

Lemma c1_witness :
  run_cli3 [[0; 0]; [1; 1; 2; 1; 1; 0; 0; 0]; [3; 1; 0]; [1; 4; 1]] =
    [[254; 1001; 2; 1; 1; 0; 0; 253; 1; 7; 252; 0; 0; 1];
     [64; 1; 0; 254; 253; 252; 0; 0; 1];
     [224; 0; 0; 254; 253; 252; 3; 1; 0]].
Proof. vm_compute. reflexivity. Qed.
