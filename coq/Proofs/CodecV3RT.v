(* Proofs/CodecV3RT.v -- C01 for the v3 codec model: encode then decode is the identity, consuming
   exactly the bytes produced. *)
From Coq Require Import ZArith ZifyN ZifyBool Lia.
From MV Require Import Base.Prelude Base.Res Base.VarInt Base.Utf8 Proofs.VarIntProofs Model.CodecV3
  Proofs.CodecV3Lib Proofs.CodecV3Enc Proofs.CodecV3Dec.
Ltac Zify.zify_post_hook ::= Z.div_mod_to_equations.

(* ------------------------------------------------------------------ flag bytes *)
Definition is_some {A} (o : option A) : bool := match o with Some _ => true | None => false end.
Definition is_nil {A} (l : list A) : bool := match l with [] => true | _ => false end.

(* the byte built by the encoder gives back every flag (all 2*2*7*2 = 56 flag combinations) *)
Lemma connect_flags_spec c :
  has_bit (connect_flags c) 1 = false /\
  has_bit (connect_flags c) CF_CLEAN_START = c_clean_session c /\
  has_bit (connect_flags c) CF_WILL = is_some (c_last_will c) /\
  has_bit (connect_flags c) CF_USERNAME = is_some (c_username c) /\
  has_bit (connect_flags c) CF_PASSWORD = is_some (c_password c) /\
  match c_last_will c with
  | Some w => qos_of_n ((connect_flags c / 8) mod 4) = Ok (lw_qos w) /\
              has_bit (connect_flags c) CF_WILL_RETAIN = lw_retain w
  | None => True
  end.
Proof.
  destruct c as [cs ka [[q rt t m]|] cid [u|] [p|]]; destruct cs; try destruct q; try destruct rt;
    vm_compute; repeat split; reflexivity.
Qed.

(* PUBLISH first byte: 16 combinations (12 with a legal QoS) *)
Lemma pub_first_byte_spec p :
  is_publish (pub_first_byte p) = true /\
  qos_of_n ((pub_first_byte p / 2) mod 4) = Ok (p_qos p) /\
  has_bit (pub_first_byte p) 8 = p_dup p /\
  has_bit (pub_first_byte p) 1 = p_retain p.
Proof.
  destruct p as [d r q t i ps]; destruct d, r, q; vm_compute; repeat split; reflexivity.
Qed.

Lemma qos_rt4 q : qos_of_n (qos_to_n q mod 4) = Ok q.
Proof. destruct q; reflexivity. Qed.

(* ------------------------------------------------------------------ bodies decode back *)
Definition connect_cid_ok (c : connect) : bool := negb (is_nil (c_client_id c)) || c_clean_session c.
(* what the decoder additionally demands of a CONNECT: a client id, or a clean session *)
Definition packet_rt_ok (p : packet) : bool :=
  match p with PConnect c => connect_cid_ok c | _ => true end.

Lemma decode_ack_rt f i : nz16_ok i = true -> decode_ack f (u16be i) = Ok (f i).
Proof.
  unfold nz16_ok. intros H. unfold decode_ack. rewrite <- (app_nil_r (u16be i)).
  rewrite dec_nz16_u16be by lia. reflexivity.
Qed.

Lemma dec_sub_filters_rt fs : forall fuel, (length (sub_bytes fs) <= fuel)%nat ->
  forallb (fun f => str_ok (fst f)) fs = true -> dec_sub_filters fuel (sub_bytes fs) = Ok fs.
Proof.
  induction fs as [|[f q] r IH]; intros fuel Hl Hok; [destruct fuel; reflexivity|].
  cbn [forallb fst] in Hok. apply andb_true_iff in Hok as [H1 H2].
  unfold str_ok in H1. apply andb_true_iff in H1 as [_ Hu].
  cbn [sub_bytes] in *.
  assert (E : str16 f ++ [qos_to_n q] ++ sub_bytes r
              = (len f / 256) :: (len f mod 256) :: f ++ [qos_to_n q] ++ sub_bytes r) by reflexivity.
  destruct fuel as [|k].
  { rewrite E in Hl. cbn [length] in Hl. lia. }
  rewrite E at 1. cbn [dec_sub_filters]. rewrite <- E.
  rewrite (dec_string_str16 f _ Hu). cbn [bind app].
  replace (1 <=? len (qos_to_n q :: sub_bytes r)) with true by (lens; lia).
  cbn [ensure bind get_u8]. rewrite qos_rt4. cbn [bind].
  rewrite IH; [reflexivity| |exact H2].
  rewrite E in Hl. cbn [length] in Hl. rewrite app_length in Hl. cbn [length app] in Hl. lia.
Qed.

Lemma dec_unsub_filters_rt fs : forall fuel, (length (unsub_bytes fs) <= fuel)%nat ->
  forallb str_ok fs = true -> dec_unsub_filters fuel (unsub_bytes fs) = Ok fs.
Proof.
  induction fs as [|f r IH]; intros fuel Hl Hok; [destruct fuel; reflexivity|].
  cbn [forallb] in Hok. apply andb_true_iff in Hok as [H1 H2].
  unfold str_ok in H1. apply andb_true_iff in H1 as [_ Hu].
  cbn [unsub_bytes] in *.
  assert (E : str16 f ++ unsub_bytes r = (len f / 256) :: (len f mod 256) :: f ++ unsub_bytes r) by reflexivity.
  destruct fuel as [|k].
  { rewrite E in Hl. cbn [length] in Hl. lia. }
  rewrite E at 1. cbn [dec_unsub_filters]. rewrite <- E.
  rewrite (dec_string_str16 f _ Hu). cbn [bind].
  rewrite IH; [reflexivity| |exact H2].
  rewrite E in Hl. cbn [length] in Hl. rewrite app_length in Hl. lia.
Qed.

Lemma sub_rc_rt s :
  (if sub_rc_byte s =? 128 then Ok SrcFailure else let* q := qos_of_n (sub_rc_byte s) in Ok (SrcSuccess q))
  = Ok s.
Proof. destruct s as [[]|]; reflexivity. Qed.

Lemma dec_sub_status_rt st : dec_sub_status (map sub_rc_byte st) = Ok st.
Proof.
  induction st as [|s r IH]; [reflexivity|]. cbn [map dec_sub_status].
  rewrite sub_rc_rt. cbn [bind]. rewrite IH. reflexivity.
Qed.

Lemma decode_connect_rt c : connect_ok c = true -> connect_cid_ok c = true ->
  decode_connect_packet (connect_body c) = Ok (PConnect c).
Proof.
  unfold connect_ok, connect_cid_ok. intros Hok Hcid.
  apply andb_true_iff in Hok as [Hok H5]. apply andb_true_iff in Hok as [Hok H4].
  apply andb_true_iff in Hok as [Hok H3]. apply andb_true_iff in Hok as [H1 H2].
  unfold str_ok in H3. apply andb_true_iff in H3 as [_ H3].
  destruct (connect_flags_spec c) as (F0 & F1 & F2 & F3 & F4 & F5).
  set (tail := str16 (c_client_id c) ++ will_bytes (c_last_will c) ++ opt16 (c_username c)
               ++ opt16 (c_password c) ++ []).
  assert (E : connect_body c
              = 0 :: 4 :: 77 :: 81 :: 84 :: 84 :: 4 :: connect_flags c
                :: (c_keep_alive c / 256) :: (c_keep_alive c mod 256) :: tail).
  { unfold tail. rewrite app_nil_r. reflexivity. }
  rewrite E. unfold decode_connect_packet.
  match goal with |- context [ensure (10 <=? ?l)] => replace (10 <=? l) with true by (lens; lia) end.
  cbn [ensure bind get_u16].
  replace (0 * 256 + 4 =? 4) with true by reflexivity.
  unfold slice_to, advance.
  match goal with |- context [if ?l <? 4 then Panic _ else Ok (firstn _ _)] =>
    replace (l <? 4) with false by (lens; lia) end.
  change (N.to_nat 4) with 4%nat. cbn [firstn skipn bind].
  change (bytes_eqb [77; 81; 84; 84] MQTT) with true. cbn [ensure bind get_u8].
  change (4 =? MQTT_LEVEL_3) with true. cbn [ensure bind].
  rewrite F0. cbn [negb ensure bind].
  rewrite dec_u16_cons. cbn [bind].
  replace (c_keep_alive c / 256 * 256 + c_keep_alive c mod 256) with (c_keep_alive c) by lia.
  unfold tail. rewrite (dec_string_str16 _ _ H3). cbn [bind].
  rewrite F1. unfold is_nil in Hcid. rewrite Hcid. cbn [ensure bind].
  unfold decode_last_will. rewrite F2.
  assert (EW : forall x,
    (if is_some (c_last_will c)
     then let* (topic, r) := dec_string (will_bytes (c_last_will c) ++ x) in
          let* (message, r0) := dec_bytes r in
          let* q := qos_of_n ((connect_flags c / 8) mod 4) in
          Ok (Some (mkLastWill q (has_bit (connect_flags c) CF_WILL_RETAIN) topic message), r0)
     else Ok (None, will_bytes (c_last_will c) ++ x)) = Ok (c_last_will c, x)).
  { intros x. destruct (c_last_will c) as [[q rt t m]|]; cbn [is_some will_bytes opt_ok lw_topic lw_message] in *.
    - unfold last_will_ok, str_ok in H2. cbn [lw_topic lw_message] in H2.
      apply andb_true_iff in H2 as [H2 _]. apply andb_true_iff in H2 as [_ H2].
      rewrite <- !app_assoc. rewrite (dec_string_str16 _ _ H2). cbn [bind].
      rewrite dec_bytes_str16. cbn [bind]. destruct F5 as [F5 F6]. cbn [lw_qos lw_retain] in *.
      rewrite F5, F6. reflexivity.
    - reflexivity. }
  rewrite EW. cbn [bind]. rewrite F3, F4.
  assert (EU : forall x,
    (if is_some (c_username c)
     then let* (u, r) := dec_string (opt16 (c_username c) ++ x) in Ok (Some u, r)
     else Ok (None, opt16 (c_username c) ++ x)) = Ok (c_username c, x)).
  { intros x. destruct (c_username c) as [u|]; cbn [is_some opt16 opt_ok] in *; [|reflexivity].
    unfold str_ok in H4. apply andb_true_iff in H4 as [_ H4].
    rewrite (dec_string_str16 _ _ H4). reflexivity. }
  rewrite EU. cbn [bind].
  assert (EP : forall x,
    (if is_some (c_password c)
     then let* (u, r) := dec_bytes (opt16 (c_password c) ++ x) in Ok (Some u, r)
     else Ok (None, opt16 (c_password c) ++ x)) = Ok (c_password c, x)).
  { intros x. destruct (c_password c) as [u|]; cbn [is_some opt16 opt_ok] in *; [|reflexivity].
    rewrite dec_bytes_str16. reflexivity. }
  rewrite EP. cbn [bind]. destruct c; reflexivity.
Qed.

Lemma decode_body_rt p : packet_ok p = true -> packet_rt_ok p = true ->
  decode_packet (packet_type_of p) (body p) = Ok p.
Proof.
  intros Hok Hrt. destruct p; cbn [packet_ok packet_rt_ok packet_type_of body] in *.
  - change (decode_packet CONNECT (connect_body c)) with (decode_connect_packet (connect_body c)).
    now apply decode_connect_rt.
  - destruct a as [[] []]; reflexivity.
  - change (decode_packet PUBACK (u16be packet_id)) with (decode_ack PPublishAck (u16be packet_id)).
    now apply decode_ack_rt.
  - change (decode_packet PUBREC (u16be packet_id)) with (decode_ack PPublishReceived (u16be packet_id)).
    now apply decode_ack_rt.
  - change (decode_packet PUBREL (u16be packet_id)) with (decode_ack PPublishRelease (u16be packet_id)).
    now apply decode_ack_rt.
  - change (decode_packet PUBCOMP (u16be packet_id)) with (decode_ack PPublishComplete (u16be packet_id)).
    now apply decode_ack_rt.
  - change (decode_packet SUBSCRIBE ?x) with (decode_subscribe_packet x).
    apply andb_true_iff in Hok as [H1 H2]. unfold nz16_ok in H1. unfold decode_subscribe_packet.
    rewrite dec_nz16_u16be by lia. cbn [bind]. rewrite dec_sub_filters_rt; auto.
  - change (decode_packet SUBACK ?x) with (decode_subscribe_ack_packet x).
    unfold nz16_ok in Hok. unfold decode_subscribe_ack_packet.
    rewrite dec_nz16_u16be by lia. cbn [bind]. now rewrite dec_sub_status_rt.
  - change (decode_packet UNSUBSCRIBE ?x) with (decode_unsubscribe_packet x).
    apply andb_true_iff in Hok as [H1 H2]. unfold nz16_ok in H1. unfold decode_unsubscribe_packet.
    rewrite dec_nz16_u16be by lia. cbn [bind]. rewrite dec_unsub_filters_rt; auto.
  - change (decode_packet UNSUBACK (u16be packet_id)) with (decode_ack PUnsubscribeAck (u16be packet_id)).
    now apply decode_ack_rt.
  - reflexivity.
  - reflexivity.
  - reflexivity.
Qed.

Lemma packet_type_not_publish p : is_publish (packet_type_of p) = false.
Proof. destruct p; reflexivity. Qed.

(* ------------------------------------------------------------------ encodev of a packet that fits *)
Lemma encodev_packet_ok ms p dst vi : packet_fits p = true -> enc_vi (get_encoded_size p) = Some vi ->
  encodev ms None (EPacket p) dst = (dst ++ packet_type_of p :: vi ++ body p, None, Ok tt).
Proof.
  intros Hf Hvi. unfold encodev. cbn [encode_item].
  assert (Hv : get_encoded_size p <= VI_MAX).
  { destruct (N.le_gt_cases (get_encoded_size p) VI_MAX) as [L|L]; [exact L|].
    rewrite enc_vi_none in Hvi by exact L. discriminate. }
  replace (VI_MAX <? get_encoded_size p) with false by lia.
  rewrite as_u32_small by (unfold VI_MAX, U32MAX in *; lia).
  rewrite (encode_ok p _ vi Hf Hvi (ping_size p)). reflexivity.
Qed.

(* C01, the 13 non-PUBLISH kinds.  [ms]/[msd]: size limits of the encoding / decoding codec
   (0 = unlimited); any min_chunk. *)
Lemma v3_roundtrip_packet_gen : forall ms msd mc p,
  packet_ok p = true -> packet_fits p = true -> packet_rt_ok p = true ->
  get_encoded_size p <= VI_MAX -> (msd = 0 \/ get_encoded_size p <= msd) ->
  exists bs, encodev ms None (EPacket p) [] = (bs, None, Ok tt) /\
    forall r, decode_step msd mc FrameHeader (bs ++ r)
              = (Ok (Some (IPacket p (get_encoded_size p))), FrameHeader, r).
Proof.
  intros ms msd mc p Hok Hf Hrt Hs Hmsd.
  destruct (enc_vi_some _ Hs) as [vi Hvi].
  exists (packet_type_of p :: vi ++ body p). split.
  { rewrite (encodev_packet_ok ms p [] vi Hf Hvi). reflexivity. }
  intros r. cbn [decode_step app]. rewrite <- !app_assoc.
  rewrite (step_frame_header_complete msd mc _ vi (body p ++ r) (get_encoded_size p)
             (varint_roundtrip _ _ _ Hvi)).
  replace (negb (msd =? 0) && (msd <? get_encoded_size p)) with false by lia.
  rewrite packet_type_not_publish.
  rewrite (step_frame_complete msd mc _ _ (body p) r (body_len p)).
  now rewrite decode_body_rt.
Qed.

Lemma v3_roundtrip_packet : forall mc p,
  packet_ok p = true -> packet_fits p = true -> packet_rt_ok p = true -> get_encoded_size p <= VI_MAX ->
  exists bs, encodev 0 None (EPacket p) [] = (bs, None, Ok tt) /\
    forall r, decode_step 0 mc FrameHeader (bs ++ r)
              = (Ok (Some (IPacket p (get_encoded_size p))), FrameHeader, r).
Proof. intros. apply v3_roundtrip_packet_gen; auto. Qed.

(* The statement without [packet_fits] / [packet_rt_ok] is false of the model (and of the crate): *)
(* a 65536-byte topic filter is a legal in-memory value that cannot be encoded *)
Lemma v3_roundtrip_packet_refuted_long_string :
  exists p, packet_ok p = true /\ get_encoded_size p <= VI_MAX /\
    encodev 0 None (EPacket p) [] = ([], None, Err EE_InvalidLength).
Proof.
  exists (PUnsubscribe 1 [repeat 97 (N.to_nat 65536)]). split; [|split]; vm_compute; try reflexivity. discriminate.
Qed.

(* CONNECT with an empty client id and clean_session = false is encoded, and refused by the decoder *)
Lemma v3_roundtrip_packet_refuted_client_id :
  exists p bs, packet_ok p = true /\ packet_fits p = true /\
    encodev 0 None (EPacket p) [] = (bs, None, Ok tt) /\
    decode_step 0 0 FrameHeader bs = (Err DE_InvalidClientId, Frame CONNECT 12, []).
Proof.
  exists (PConnect (mkConnect false 0 None [] None None)). eexists.
  split; [reflexivity|]. split; [reflexivity|]. split; vm_compute; reflexivity.
Qed.

(* ------------------------------------------------------------------ PUBLISH *)
Lemma decode_publish_head p ps : publish_ok p = true -> pid_matches_qos p = true ->
  decode_publish_packet (pub_head p) (pub_first_byte p) ps
  = Ok (mkPublish (p_dup p) (p_retain p) (p_qos p) (p_topic p) (p_packet_id p) ps, []).
Proof.
  unfold publish_ok, pid_matches_qos, str_ok. intros Hok Hq.
  apply andb_true_iff in Hok as [Hok _]. apply andb_true_iff in Hok as [H1 H2].
  apply andb_true_iff in H1 as [_ H1]. apply eqb_prop in Hq.
  destruct (pub_first_byte_spec p) as (_ & F1 & F2 & F3).
  unfold decode_publish_packet, pub_head.
  rewrite (dec_string_str16 _ _ H1). cbn [bind]. rewrite F1. cbn [bind]. rewrite F2, F3.
  destruct (p_qos p), (p_packet_id p) as [i|]; cbn [is_qos12] in Hq; try discriminate; cbn [opt_ok] in H2;
    try (unfold nz16_ok in H2; rewrite <- (app_nil_r (u16be i)), dec_nz16_u16be by lia); reflexivity.
Qed.

Lemma publish_size_head p x : fits16 (p_topic p) = true -> pid_matches_qos p = true ->
  publish_size (pub_head p ++ x) (pub_first_byte p) = Ok (Some (len (pub_head p))).
Proof.
  unfold fits16, pid_matches_qos, pub_head. intros Hf Hq. apply eqb_prop in Hq.
  destruct (pub_first_byte_spec p) as (_ & F1 & _ & _).
  assert (E : forall y, str16 (p_topic p) ++ y
              = (len (p_topic p) / 256) :: (len (p_topic p) mod 256) :: p_topic p ++ y) by reflexivity.
  rewrite <- app_assoc, E. unfold publish_size. rewrite F1. cbn [bind].
  destruct (p_qos p), (p_packet_id p) as [i|]; cbn [is_qos12] in Hq; try discriminate;
    f_equal; f_equal; lens; unfold U16MAX in *; lia.
Qed.

Lemma encodev_publish_ok ms ep p payload dst vi :
  publish_fits p = true -> p_payload_size p = len payload ->
  enc_vi (get_encoded_publish_size p) = Some vi -> (ms = 0 \/ get_encoded_publish_size p <= ms) ->
  encodev ms ep (EPublish p (Some payload)) dst
  = (dst ++ pub_first_byte p :: vi ++ pub_head p ++ payload, None, Ok tt).
Proof.
  intros Hf Hp Hvi Hms. unfold encodev. cbn [encode_item].
  assert (Hv : get_encoded_publish_size p <= VI_MAX).
  { destruct (N.le_gt_cases (get_encoded_publish_size p) VI_MAX) as [L|L]; [exact L|].
    rewrite enc_vi_none in Hvi by exact L. discriminate. }
  pose proof Hf as Hf'. unfold publish_fits in Hf'. apply andb_true_iff in Hf' as [_ Hq].
  pose proof (pub_head_len p Hq) as Hl.
  pose proof Hq as Hq'. unfold pid_matches_qos in Hq'. apply eqb_prop in Hq'.
  replace (is_qos12 (p_qos p) && match p_packet_id p with Some _ => false | None => true end) with false
    by (rewrite Hq'; destruct (p_packet_id p); reflexivity).
  replace ((VI_MAX <? get_encoded_publish_size p) || (negb (ms =? 0) && (ms <? get_encoded_publish_size p)))
    with false by lia.
  rewrite as_u32_small by (unfold VI_MAX, U32MAX in *; lia).
  replace (p_payload_size p <? len payload) with false by lia.
  rewrite (encode_publish_ok p _ vi Hf Hvi).
  rewrite as_u32_small by (unfold VI_MAX, U32MAX in *; lia).
  rewrite sub_chk_ok by lia. rewrite Hp, N.sub_diag. cbn [nz32]. change (nz32 0) with (@None N).
  cbn [app]. now rewrite <- !app_assoc.
Qed.

(* C01, PUBLISH with its payload inline *)
Lemma v3_roundtrip_publish_gen : forall ms msd mc p payload,
  publish_ok p = true -> publish_fits p = true -> p_payload_size p = len payload ->
  get_encoded_publish_size p <= VI_MAX ->
  (ms = 0 \/ get_encoded_publish_size p <= ms) -> (msd = 0 \/ get_encoded_publish_size p <= msd) ->
  exists bs, encodev ms None (EPublish p (Some payload)) [] = (bs, None, Ok tt) /\
    forall r, mc = 0 \/ len (payload ++ r) <= U32MAX ->
      decode_step msd mc FrameHeader (bs ++ r)
      = (Ok (Some (IPublish p payload (get_encoded_publish_size p))), FrameHeader, r).
Proof.
  intros ms msd mc p payload Hok Hf Hp Hs Hms Hmsd.
  destruct (enc_vi_some _ Hs) as [vi Hvi].
  exists (pub_first_byte p :: vi ++ pub_head p ++ payload). split.
  { rewrite (encodev_publish_ok ms None p payload [] vi Hf Hp Hvi Hms). reflexivity. }
  intros r Hr. cbn [decode_step app]. rewrite <- !app_assoc.
  rewrite (step_frame_header_complete msd mc _ vi (pub_head p ++ payload ++ r) (get_encoded_publish_size p)
             (varint_roundtrip _ _ _ Hvi)).
  replace (negb (msd =? 0) && (msd <? get_encoded_publish_size p)) with false by lia.
  destruct (pub_first_byte_spec p) as (F0 & _). rewrite F0. cbn [decode_step].
  pose proof Hf as Hf'. unfold publish_fits in Hf'. apply andb_true_iff in Hf' as [Ht Hq].
  pose proof (pub_head_len p Hq) as Hl.
  assert (H2 : 2 <= len (pub_head p)) by (unfold pub_head; lens; lia).
  unfold step_publish_header.
  replace (get_encoded_publish_size p <? 2) with false by lia.
  rewrite (publish_size_head p _ Ht Hq).
  replace (get_encoded_publish_size p <? len (pub_head p)) with false by lia.
  replace (len (pub_head p ++ payload ++ r) <? len (pub_head p)) with false by (lens; lia).
  rewrite sub_chk_ok by lia. rewrite split_at_app.
  replace (get_encoded_publish_size p - len (pub_head p)) with (p_payload_size p) by lia.
  rewrite (decode_publish_head p _ Hok Hq).
  assert (Hpl : p_payload_size p <= U32MAX) by (unfold VI_MAX, U32MAX in *; lia).
  replace ((p_payload_size p <=? as_u32 (len (payload ++ r))) || (mc =? 0) || (mc <=? as_u32 (len (payload ++ r))))
    with true.
  2:{ destruct Hr as [->|Hr]; [now rewrite orb_true_r|].
      rewrite as_u32_small by exact Hr. lens. symmetry. apply orb_true_iff; left. apply orb_true_iff; left. lia. }
  replace (N.min (len (payload ++ r)) (p_payload_size p)) with (len payload) by (lens; lia).
  rewrite split_at_app. rewrite as_u32_small by lia. rewrite sub_chk_ok by lia.
  replace (0 <? p_payload_size p - len payload) with false by lia.
  destruct p; cbn in *. subst. reflexivity.
Qed.

Lemma v3_roundtrip_publish : forall mc p payload,
  publish_ok p = true -> publish_fits p = true -> p_payload_size p = len payload ->
  get_encoded_publish_size p <= VI_MAX ->
  exists bs, encodev 0 None (EPublish p (Some payload)) [] = (bs, None, Ok tt) /\
    forall r, mc = 0 \/ len (payload ++ r) <= U32MAX ->
      decode_step 0 mc FrameHeader (bs ++ r)
      = (Ok (Some (IPublish p payload (get_encoded_publish_size p))), FrameHeader, r).
Proof. intros. apply v3_roundtrip_publish_gen; auto. Qed.

(* without [publish_fits]: a QoS 0 publish carrying a packet id, or a QoS 1 publish without one, are
   values of the Rust type that the encoder refuses *)
Lemma v3_roundtrip_publish_refuted :
  (exists p, publish_ok p = true /\ get_encoded_publish_size p <= VI_MAX /\
     encodev 0 None (EPublish p (Some [])) [] = ([], None, Err EE_MalformedPacket)) /\
  (exists p, publish_ok p = true /\ get_encoded_publish_size p <= VI_MAX /\
     encodev 0 None (EPublish p (Some [])) [] = ([], None, Err EE_PacketIdRequired)).
Proof.
  split.
  - exists (mkPublish false false AtMostOnce [116] (Some 1) 0). repeat split; vm_compute; try reflexivity; discriminate.
  - exists (mkPublish false false AtLeastOnce [116] None 0). repeat split; vm_compute; try reflexivity; discriminate.
Qed.
