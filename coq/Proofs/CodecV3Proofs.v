(* Proofs/CodecV3Proofs.v -- entry point of the v3 codec proofs (C01, C02, C08, C09, C10 for MQTT 3.1.1).
   The lemmas live in:
     CodecV3Lib     field codecs, writer monad, non-panic predicate
     CodecV3Enc     v3_fail_appends_nothing, v3_no_interleave, v3_size_agrees*, v3_encode_total
     CodecV3Dec     v3_decode_total, v3_oversize_rejected_at_header, v3_step_prefix, v3_consumes_within,
                    v3_dstate_ok_preserved, v3_no_stall*
     CodecV3RT      v3_roundtrip_packet, v3_roundtrip_publish (+ refuted variants)
     CodecV3Mal     v3_zero_packet_id, v3_qos3, v3_bad_utf8, v3_inner_len_exceeds_rl
     CodecV3Stable  v3_accepted_packet, v3_accepted_publish, v3_accepted_is_stable
     CodecV3Layout  v3_layout_packet, v3_layout_publish (against Spec/SpecV3.v)
     CodecV3Frag    run / feed / feeds, v3_feed_fuel_suffices, v3_pieces_sum, v3_one_final,
                    v3_min_chunk_respected, v3_pieces_invariant
     CodecV3Sem     chunking-free meaning [sem] of a byte stream
     CodecV3FragInd v3_frag_independent (+ normalised corollary, refuted plain statement) *)
From MV Require Export Base.Prelude Base.Res Base.VarInt Base.Utf8 Model.CodecV3 Spec.SpecV3
  Proofs.CodecV3Lib Proofs.CodecV3Enc Proofs.CodecV3Dec Proofs.CodecV3RT Proofs.CodecV3Mal
  Proofs.CodecV3Stable Proofs.CodecV3Layout Proofs.CodecV3Frag Proofs.CodecV3Sem Proofs.CodecV3FragInd.

Print Assumptions v3_roundtrip_packet.
Print Assumptions v3_roundtrip_packet_gen.
Print Assumptions v3_roundtrip_publish.
Print Assumptions v3_roundtrip_publish_gen.
Print Assumptions v3_roundtrip_packet_refuted_long_string.
Print Assumptions v3_roundtrip_packet_refuted_client_id.
Print Assumptions v3_roundtrip_publish_refuted.
Print Assumptions v3_layout_packet.
Print Assumptions v3_layout_publish.
Print Assumptions v3_writes_empty_subscribe.
Print Assumptions v3_writes_password_without_username.
Print Assumptions v3_writes_bad_connack.
Print Assumptions v3_size_agrees.
Print Assumptions v3_size_agrees_packet.
Print Assumptions v3_size_agrees_publish.
Print Assumptions v3_oversize_encode_refused.
Print Assumptions v3_encode_total.
Print Assumptions v3_fail_appends_nothing.
Print Assumptions v3_no_interleave.
Print Assumptions v3_no_interleave_long_chunk_refuted.
Print Assumptions v3_publish_not_refused_while_payload_expected.
Print Assumptions v3_decode_total.
Print Assumptions v3_decode_never_panics.
Print Assumptions v3_dstate_ok_preserved.
Print Assumptions v3_step_prefix.
Print Assumptions v3_frame_consumes_exactly.
Print Assumptions v3_consumes_within.
Print Assumptions v3_no_stall.
Print Assumptions v3_no_stall_frame.
Print Assumptions v3_no_stall_publish_header.
Print Assumptions v3_no_stall_payload.
Print Assumptions v3_no_stall_payload_refuted.
Print Assumptions v3_oversize_rejected_at_header.
Print Assumptions v3_oversize_rejected_general.
Print Assumptions v3_zero_packet_id.
Print Assumptions v3_qos3.
Print Assumptions v3_qos3_header.
Print Assumptions v3_bad_utf8.
Print Assumptions v3_inner_len_exceeds_rl.
Print Assumptions v3_accepted_packet.
Print Assumptions v3_accepted_publish.
Print Assumptions v3_accepted_is_stable.
Print Assumptions v3_feed_fuel_suffices.
Print Assumptions v3_feed_never_panics.
Print Assumptions v3_pieces_sum.
Print Assumptions v3_one_final.
Print Assumptions v3_min_chunk_respected.
Print Assumptions v3_pieces_invariant.
Print Assumptions v3_frag_independent.
Print Assumptions v3_frag_independent_normalised.
Print Assumptions v3_frag_independent_refuted.
