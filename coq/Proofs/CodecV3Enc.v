(* Proofs/CodecV3Enc.v -- the encoder of the v3 codec model: byte image of every packet, sizes,
   failure leaves nothing behind, no interleaving while a payload is owed. *)
From Coq Require Import ZArith ZifyN ZifyBool Lia.
From MV Require Import Base.Prelude Base.Res Base.VarInt Base.Utf8 Proofs.VarIntProofs Model.CodecV3
  Proofs.CodecV3Lib.
Ltac Zify.zify_post_hook ::= Z.div_mod_to_equations.

(* ------------------------------------------------------------------ which values the encoder can write *)
Definition fits16 (s : bytes) : bool := len s <=? U16MAX.

Definition will_fits (w : last_will) : bool := fits16 (lw_topic w) && fits16 (lw_message w).
Definition connect_fits (c : connect) : bool :=
  fits16 (c_client_id c) && opt_ok will_fits (c_last_will c) && opt_ok fits16 (c_username c)
  && opt_ok fits16 (c_password c).

(* every length-prefixed field is at most 65535 bytes long *)
Definition packet_fits (p : packet) : bool :=
  match p with
  | PConnect c => connect_fits c
  | PSubscribe _ fs => forallb (fun f => fits16 (fst f)) fs
  | PUnsubscribe _ fs => forallb fits16 fs
  | _ => true
  end.

(* the packet identifier is present exactly for QoS 1 and 2 *)
Definition pid_matches_qos (p : publish) : bool :=
  Bool.eqb (is_qos12 (p_qos p)) (match p_packet_id p with Some _ => true | None => false end).
Definition publish_fits (p : publish) : bool := fits16 (p_topic p) && pid_matches_qos p.

(* ------------------------------------------------------------------ byte image *)
Definition will_bytes (o : option last_will) : bytes :=
  match o with Some w => str16 (lw_topic w) ++ str16 (lw_message w) | None => [] end.
Definition opt16 (o : option bytes) : bytes := match o with Some s => str16 s | None => [] end.

Definition connect_body (c : connect) : bytes :=
  str16 MQTT ++ [MQTT_LEVEL_3; connect_flags c] ++ u16be (c_keep_alive c) ++ str16 (c_client_id c)
  ++ will_bytes (c_last_will c) ++ opt16 (c_username c) ++ opt16 (c_password c).

Fixpoint sub_bytes (fs : list (bytes * qos)) : bytes :=
  match fs with [] => [] | (f, q) :: r => str16 f ++ [qos_to_n q] ++ sub_bytes r end.
Fixpoint unsub_bytes (fs : list bytes) : bytes :=
  match fs with [] => [] | f :: r => str16 f ++ unsub_bytes r end.

Definition body (p : packet) : bytes :=
  match p with
  | PConnect c => connect_body c
  | PConnectAck a => [b2n (ca_session_present a); reason_to_n (ca_return_code a)]
  | PPublishAck i | PPublishReceived i | PPublishRelease i | PPublishComplete i | PUnsubscribeAck i => u16be i
  | PSubscribe i fs => u16be i ++ sub_bytes fs
  | PSubscribeAck i st => u16be i ++ map sub_rc_byte st
  | PUnsubscribe i fs => u16be i ++ unsub_bytes fs
  | PPingRequest | PPingResponse | PDisconnect => []
  end.

Definition pub_first_byte (p : publish) : N :=
  PUBLISH_START + qos_to_n (p_qos p) * 2 + b2n (p_dup p) * 8 + b2n (p_retain p).
Definition pub_head (p : publish) : bytes :=
  str16 (p_topic p) ++ match p_packet_id p with Some i => u16be i | None => [] end.

(* ------------------------------------------------------------------ lists *)
Lemma w_sub_filters_ok fs : forallb (fun f => fits16 (fst f)) fs = true ->
  w_sub_filters fs = (sub_bytes fs, Ok tt).
Proof.
  induction fs as [|[f q] r IH]; cbn [forallb w_sub_filters sub_bytes fst]; [reflexivity|].
  intros H. apply andb_true_iff in H as [H1 H2]. unfold fits16 in H1.
  rewrite (w_then_ok _ _ _ (w_bytes16_ok f ltac:(lia))). rewrite w_bytes_then. rewrite (IH H2).
  reflexivity.
Qed.
Lemma w_sub_filters_wok fs : wok (w_sub_filters fs) -> forallb (fun f => fits16 (fst f)) fs = true.
Proof.
  induction fs as [|[f q] r IH]; cbn [forallb w_sub_filters fst]; [reflexivity|].
  intros H. apply w_then_wok in H as [H1 H2]. apply w_then_wok in H2 as [_ H2].
  apply w_bytes16_wok in H1. apply andb_true_iff; split; [unfold fits16; lia|auto].
Qed.
Lemma w_unsub_filters_ok fs : forallb fits16 fs = true -> w_unsub_filters fs = (unsub_bytes fs, Ok tt).
Proof.
  induction fs as [|f r IH]; cbn [forallb w_unsub_filters unsub_bytes]; [reflexivity|].
  intros H. apply andb_true_iff in H as [H1 H2]. unfold fits16 in H1.
  rewrite (w_then_ok _ _ _ (w_bytes16_ok f ltac:(lia))). rewrite (IH H2). reflexivity.
Qed.
Lemma w_unsub_filters_wok fs : wok (w_unsub_filters fs) -> forallb fits16 fs = true.
Proof.
  induction fs as [|f r IH]; cbn [forallb w_unsub_filters]; [reflexivity|].
  intros H. apply w_then_wok in H as [H1 H2].
  apply w_bytes16_wok in H1. apply andb_true_iff; split; [unfold fits16; lia|auto].
Qed.

Lemma fold_sub_acc fs a :
  fold_left (fun acc (f : bytes * qos) => acc + 2 + len (fst f) + 1) fs a
  = a + fold_left (fun acc (f : bytes * qos) => acc + 2 + len (fst f) + 1) fs 0.
Proof.
  revert a. induction fs as [|f r IH]; intros a; cbn [fold_left]; [lia|].
  rewrite IH. rewrite (IH (0 + 2 + len (fst f) + 1)). lia.
Qed.
Lemma fold_unsub_acc fs a :
  fold_left (fun acc (f : bytes) => acc + 2 + len f) fs a
  = a + fold_left (fun acc (f : bytes) => acc + 2 + len f) fs 0.
Proof.
  revert a. induction fs as [|f r IH]; intros a; cbn [fold_left]; [lia|].
  rewrite IH. rewrite (IH (0 + 2 + len f)). lia.
Qed.
Lemma len_sub_bytes fs :
  len (sub_bytes fs) = fold_left (fun acc (f : bytes * qos) => acc + 2 + len (fst f) + 1) fs 0.
Proof.
  induction fs as [|[f q] r IH]; cbn [sub_bytes fold_left fst]; [reflexivity|].
  rewrite fold_sub_acc. lens. rewrite IH. lia.
Qed.
Lemma len_unsub_bytes fs :
  len (unsub_bytes fs) = fold_left (fun acc (f : bytes) => acc + 2 + len f) fs 0.
Proof.
  induction fs as [|f r IH]; cbn [unsub_bytes fold_left]; [reflexivity|].
  rewrite fold_unsub_acc. lens. rewrite IH. lia.
Qed.

(* ------------------------------------------------------------------ CONNECT *)
Lemma encode_connect_ok c : connect_fits c = true -> encode_connect c = (connect_body c, Ok tt).
Proof.
  unfold connect_fits, encode_connect, connect_body. intros H.
  apply andb_true_iff in H as [H H4]. apply andb_true_iff in H as [H H3]. apply andb_true_iff in H as [H1 H2].
  unfold fits16 in H1.
  rewrite (w_then_ok _ _ _ (w_bytes16_ok MQTT ltac:(vm_compute; discriminate))).
  rewrite w_bytes_then. unfold w_u16. rewrite w_bytes_then.
  rewrite (w_then_ok _ _ _ (w_bytes16_ok (c_client_id c) ltac:(lia))).
  assert (E2 : w_opt (fun w => w_bytes16 (lw_topic w) ;; w_bytes16 (lw_message w)) (c_last_will c)
               = (will_bytes (c_last_will c), Ok tt)).
  { destruct (c_last_will c) as [w|]; cbn [w_opt will_bytes opt_ok] in *; [|reflexivity].
    unfold will_fits, fits16 in H2. apply andb_true_iff in H2 as [Ha Hb].
    rewrite (w_then_ok _ _ _ (w_bytes16_ok (lw_topic w) ltac:(lia))).
    rewrite (w_bytes16_ok (lw_message w)) by lia. reflexivity. }
  rewrite (w_then_ok _ _ _ E2).
  assert (E3 : w_opt w_bytes16 (c_username c) = (opt16 (c_username c), Ok tt)).
  { destruct (c_username c) as [s|]; cbn [w_opt opt16 opt_ok] in *; [|reflexivity].
    unfold fits16 in H3. apply w_bytes16_ok. lia. }
  rewrite (w_then_ok _ _ _ E3).
  assert (E4 : w_opt w_bytes16 (c_password c) = (opt16 (c_password c), Ok tt)).
  { destruct (c_password c) as [s|]; cbn [w_opt opt16 opt_ok] in *; [|reflexivity].
    unfold fits16 in H4. apply w_bytes16_ok. lia. }
  rewrite E4. cbn [fst snd]. reflexivity.
Qed.

Lemma encode_connect_wok c : wok (encode_connect c) -> connect_fits c = true.
Proof.
  unfold encode_connect, connect_fits. intros H.
  apply w_then_wok in H as [_ H]. apply w_then_wok in H as [_ H]. apply w_then_wok in H as [_ H].
  apply w_then_wok in H as [H1 H]. apply w_then_wok in H as [H2 H]. apply w_then_wok in H as [H3 H4].
  apply w_bytes16_wok in H1.
  repeat (apply andb_true_iff; split).
  - unfold fits16. lia.
  - destruct (c_last_will c) as [w|]; cbn [w_opt opt_ok] in *; [|reflexivity].
    apply w_then_wok in H2 as [Ha Hb]. apply w_bytes16_wok in Ha, Hb. unfold will_fits, fits16.
    apply andb_true_iff; split; lia.
  - destruct (c_username c) as [s|]; cbn [w_opt opt_ok] in *; [|reflexivity].
    apply w_bytes16_wok in H3. unfold fits16. lia.
  - destruct (c_password c) as [s|]; cbn [w_opt opt_ok] in *; [|reflexivity].
    apply w_bytes16_wok in H4. unfold fits16. lia.
Qed.

(* ------------------------------------------------------------------ encode *)
Definition is_ping (p : packet) : bool :=
  match p with PPingRequest | PPingResponse | PDisconnect => true | _ => false end.

Lemma encode_ok p n vi : packet_fits p = true -> enc_vi n = Some vi -> (is_ping p = true -> n = 0) ->
  encode p n = (packet_type_of p :: vi ++ body p, Ok tt).
Proof.
  intros Hf Hvi Hp.
  destruct p; cbn [encode packet_type_of body packet_fits is_ping] in *;
    try (rewrite w_bytes_then, (w_then_ok _ _ _ (w_varlen_ok _ _ Hvi)); unfold w_u16).
  - rewrite (encode_connect_ok _ Hf). reflexivity.
  - reflexivity.
  - reflexivity.
  - reflexivity.
  - reflexivity.
  - reflexivity.
  - rewrite w_bytes_then, (w_sub_filters_ok _ Hf). reflexivity.
  - rewrite w_bytes_then. reflexivity.
  - rewrite w_bytes_then, (w_unsub_filters_ok _ Hf). reflexivity.
  - reflexivity.
  - rewrite (Hp eq_refl) in Hvi. injection Hvi as <-. reflexivity.
  - rewrite (Hp eq_refl) in Hvi. injection Hvi as <-. reflexivity.
  - rewrite (Hp eq_refl) in Hvi. injection Hvi as <-. reflexivity.
Qed.

Lemma encode_wok p n : wok (encode p n) -> packet_fits p = true /\ (is_ping p = true \/ n <= VI_MAX).
Proof.
  intros H.
  destruct p; cbn [encode packet_fits is_ping] in *; try (split; [reflexivity|now left]);
    apply w_then_wok in H as [_ H]; apply w_then_wok in H as [Hv H]; apply w_varlen_wok in Hv;
    (split; [|now right]); try reflexivity.
  - now apply encode_connect_wok.
  - apply w_then_wok in H as [_ H]. now apply w_sub_filters_wok.
  - apply w_then_wok in H as [_ H]. now apply w_unsub_filters_wok.
Qed.

Lemma body_len p : len (body p) = get_encoded_size p.
Proof.
  destruct p; cbn [body get_encoded_size]; try reflexivity.
  - unfold connect_body. lens.
    destruct (c_last_will c) as [w|], (c_username c) as [u|], (c_password c) as [pw|];
      cbn [will_bytes opt16]; lens; change (len MQTT) with 4; lia.
  - unfold get_encoded_subscribe_size. lens. now rewrite len_sub_bytes.
  - lens. rewrite len_map. reflexivity.
  - unfold get_encoded_unsubscribe_size. lens. now rewrite len_unsub_bytes.
Qed.

Lemma ping_size p : is_ping p = true -> get_encoded_size p = 0.
Proof. destruct p; cbn; intros H; try discriminate; reflexivity. Qed.

(* ------------------------------------------------------------------ encode_publish *)
Lemma encode_publish_ok p n vi : publish_fits p = true -> enc_vi n = Some vi ->
  encode_publish p n = (pub_first_byte p :: vi ++ pub_head p, Ok tt).
Proof.
  unfold publish_fits, fits16, pid_matches_qos, encode_publish, pub_head. intros H Hvi.
  apply andb_true_iff in H as [H1 H2]. apply eqb_prop in H2.
  rewrite w_bytes_then, (w_then_ok _ _ _ (w_varlen_ok _ _ Hvi)).
  rewrite (w_then_ok _ _ _ (w_bytes16_ok (p_topic p) ltac:(lia))).
  fold (pub_first_byte p).
  destruct (p_qos p), (p_packet_id p); cbn [is_qos12] in H2; try discriminate; cbn [fst snd w_bytes w_u16];
    rewrite <- ?app_assoc; reflexivity.
Qed.

Lemma encode_publish_wok p n : wok (encode_publish p n) -> publish_fits p = true /\ n <= VI_MAX.
Proof.
  unfold encode_publish, publish_fits. intros H.
  apply w_then_wok in H as [_ H]. apply w_then_wok in H as [Hv H]. apply w_then_wok in H as [Ht H].
  apply w_varlen_wok in Hv. apply w_bytes16_wok in Ht. split; [|exact Hv].
  apply andb_true_iff; split; [unfold fits16; lia|]. unfold pid_matches_qos.
  destruct (p_qos p), (p_packet_id p); cbn [is_qos12]; try reflexivity; discriminate.
Qed.

Lemma pub_head_len p : pid_matches_qos p = true ->
  len (pub_head p) + p_payload_size p = get_encoded_publish_size p.
Proof.
  unfold pid_matches_qos, pub_head, get_encoded_publish_size. intros H. apply eqb_prop in H.
  destruct (p_packet_id p); rewrite H; lens; lia.
Qed.

(* ------------------------------------------------------------------ encodev *)
Lemma truncate_pages_app dst w : truncate_pages (dst ++ w) (len dst) = dst.
Proof.
  unfold truncate_pages. destruct (len dst <? len (dst ++ w)) eqn:E.
  - apply firstn_len_app.
  - rewrite len_app in E. assert (Hw : len w = 0) by lia. apply len_0 in Hw. subst. apply app_nil_r.
Qed.

(* C09/C08: a failed encode leaves neither bytes nor a changed payload expectation behind *)
Lemma v3_fail_appends_nothing : forall max_size ep it dst dst' ep' e,
  encodev max_size ep it dst = (dst', ep', Err e) -> dst' = dst /\ ep' = ep.
Proof.
  intros ms ep it dst dst' ep' e. unfold encodev.
  destruct (encode_item ms ep it) as [w [ep2|e2|s2]]; intros [= <- <- ?]; try discriminate.
  split; [apply truncate_pages_app|reflexivity].
Qed.

(* ------------------------------------------------------------------ C08: no interleaving *)
Lemma v3_no_interleave_packet : forall max_size n p dst,
  encodev max_size (Some n) (EPacket p) dst = (dst, Some n, Err EE_ExpectPayload).
Proof.
  intros. unfold encodev. cbn [encode_item]. now rewrite truncate_pages_app.
Qed.

Lemma v3_no_interleave_long_chunk : forall max_size n chunk dst,
  len chunk <= U32MAX -> n < len chunk ->
  encodev max_size (Some n) (EChunk chunk) dst = (dst, Some n, Err EE_OverPublishSize).
Proof.
  intros ms n c dst Hc Hn. unfold encodev. cbn [encode_item].
  rewrite as_u32_small by exact Hc. replace (n <? len c) with true by lia.
  now rewrite truncate_pages_app.
Qed.

Lemma v3_no_interleave_chunk : forall max_size n chunk dst,
  n <= U32MAX -> len chunk <= n ->
  encodev max_size (Some n) (EChunk chunk) dst
  = (dst ++ chunk, (if n - len chunk =? 0 then None else Some (n - len chunk)), Ok tt).
Proof.
  intros ms n c dst Hn Hc. unfold encodev. cbn [encode_item].
  rewrite as_u32_small by lia. replace (n <? len c) with false by lia.
  unfold sub_chk. replace (len c <=? n) with true by lia. reflexivity.
Qed.

Lemma v3_no_interleave : forall max_size n dst,
  (forall p, encodev max_size (Some n) (EPacket p) dst = (dst, Some n, Err EE_ExpectPayload)) /\
  (forall chunk, len chunk <= U32MAX -> n < len chunk ->
     encodev max_size (Some n) (EChunk chunk) dst = (dst, Some n, Err EE_OverPublishSize)) /\
  (forall chunk, n <= U32MAX -> len chunk <= n ->
     encodev max_size (Some n) (EChunk chunk) dst
     = (dst ++ chunk, (if n - len chunk =? 0 then None else Some (n - len chunk)), Ok tt)).
Proof.
  intros. split; [|split]; intros.
  - apply v3_no_interleave_packet.
  - now apply v3_no_interleave_long_chunk.
  - now apply v3_no_interleave_chunk.
Qed.

(* without a payload expected a chunk is refused *)
Lemma v3_chunk_unexpected : forall max_size chunk dst,
  encodev max_size None (EChunk chunk) dst = (dst, None, Err EE_UnexpectedPayload).
Proof. intros. unfold encodev. cbn [encode_item]. now rewrite truncate_pages_app. Qed.

(* observation: the codec itself does NOT refuse a second PUBLISH while a payload is owed; the
   expectation cell is simply overwritten (the guard lives in MqttShared::check_streaming) *)
Lemma v3_publish_not_refused_while_payload_expected :
  exists p, encodev 0 (Some 5) (EPublish p None) [] = ([48; 4; 0; 1; 97], Some 1, Ok tt)
            /\ publish_ok p = true.
Proof.
  exists (mkPublish false false AtMostOnce [97] None 1). split; vm_compute; reflexivity.
Qed.

(* the length of a chunk is compared after truncation to 32 bits: a chunk of exactly 2^32 bytes
   counts as empty (no computation on the witness: its length is all that matters) *)
Lemma v3_no_interleave_long_chunk_refuted : forall max_size n dst, 0 < n -> n <= U32MAX ->
  exists chunk, n < len chunk /\
    encodev max_size (Some n) (EChunk chunk) dst = (dst ++ chunk, Some n, Ok tt).
Proof.
  intros ms n dst Hn Hm. exists (repeat 0 (N.to_nat U32MOD)).
  assert (L : len (repeat 0 (N.to_nat U32MOD)) = U32MOD) by (rewrite len_repeat; apply N2Nat.id).
  split.
  - rewrite L. unfold U32MAX, U32MOD in *. lia.
  - unfold encodev. cbn [encode_item]. rewrite L.
    replace (as_u32 U32MOD) with 0 by reflexivity.
    replace (n <? 0) with false by lia. unfold sub_chk. replace (0 <=? n) with true by lia.
    rewrite N.sub_0_r. unfold nz32. replace (n =? 0) with false by lia. reflexivity.
Qed.

(* ------------------------------------------------------------------ C09: truthful sizes *)
Definition owed (ep : option N) : N := match ep with Some n => n | None => 0 end.

Lemma v3_size_agrees_packet : forall max_size ep p dst dst' ep',
  encodev max_size ep (EPacket p) dst = (dst', ep', Ok tt) ->
  exists vi, enc_vi (get_encoded_size p) = Some vi /\
    dst' = dst ++ packet_type_of p :: vi ++ body p /\
    len (body p) = get_encoded_size p /\ ep = None /\ ep' = None /\ packet_fits p = true /\
    get_encoded_size p <= VI_MAX.
Proof.
  intros ms ep p dst dst' ep'. unfold encodev. cbn [encode_item].
  destruct ep as [n|]; [intros [= ]|].
  destruct (VI_MAX <? get_encoded_size p) eqn:Ev; [intros [= ]|].
  assert (Hv' : get_encoded_size p <= VI_MAX) by lia.
  rewrite as_u32_small by (unfold VI_MAX, U32MAX in *; lia).
  destruct (encode p (get_encoded_size p)) as [w r] eqn:E.
  destruct r as [[]|e|s]; cbn [bind]; intros [= <- <-].
  assert (W : wok (encode p (get_encoded_size p))) by (rewrite E; reflexivity).
  apply encode_wok in W as [Hf Hv].
  destruct (enc_vi_some _ Hv') as [vi Hvi]. exists vi.
  rewrite (encode_ok p _ vi Hf Hvi (ping_size p)) in E. injection E as <-.
  repeat split; auto using body_len.
Qed.

Lemma v3_size_agrees_publish : forall max_size ep p buf dst dst' ep',
  p_payload_size p <= U32MAX ->
  encodev max_size ep (EPublish p buf) dst = (dst', ep', Ok tt) ->
  let size := get_encoded_publish_size p in
  let sent := match buf with Some b => b | None => [] end in
  exists vi, enc_vi size = Some vi /\
    dst' = dst ++ pub_first_byte p :: vi ++ pub_head p ++ sent /\
    len (pub_head p ++ sent) + owed ep' = size /\
    len sent + owed ep' = p_payload_size p /\
    publish_fits p = true /\ size <= VI_MAX /\ (max_size = 0 \/ size <= max_size).
Proof.
  intros ms ep p buf dst dst' ep' Hps. unfold encodev. cbn [encode_item].
  destruct (is_qos12 (p_qos p) && match p_packet_id p with Some _ => false | None => true end);
    [intros [= ]|].
  destruct ((VI_MAX <? get_encoded_publish_size p)
            || (negb (ms =? 0) && (ms <? get_encoded_publish_size p))) eqn:Em; [intros [= ]|].
  assert (Hv : get_encoded_publish_size p <= VI_MAX) by lia.
  assert (Hm : ms = 0 \/ get_encoded_publish_size p <= ms) by lia.
  rewrite as_u32_small by (unfold VI_MAX, U32MAX in *; lia).
  destruct (match buf with Some b => p_payload_size p <? len b | None => false end) eqn:Eb; [intros [= ]|].
  destruct (encode_publish p (get_encoded_publish_size p)) as [w r] eqn:E.
  destruct r as [[]|e|s]; [|intros [= ]|intros [= ]].
  assert (W : wok (encode_publish p (get_encoded_publish_size p))) by (rewrite E; reflexivity).
  apply encode_publish_wok in W as [Hf _].
  destruct (enc_vi_some _ Hv) as [vi Hvi].
  rewrite (encode_publish_ok p _ vi Hf Hvi) in E. injection E as <-.
  pose proof Hf as Hf'. unfold publish_fits in Hf'. apply andb_true_iff in Hf' as [_ Hq].
  pose proof (pub_head_len p Hq) as Hl.
  destruct buf as [b|].
  - rewrite as_u32_small by lia. rewrite sub_chk_ok by lia.
    intros [= <- <-]. exists vi. cbn zeta. split; [exact Hvi|]. split.
    { cbn [app]. now rewrite <- !app_assoc. }
    unfold nz32. destruct (p_payload_size p - len b =? 0) eqn:Ez; cbn [owed]; lens; repeat split; auto; lia.
  - intros [= <- <-]. exists vi. cbn zeta. rewrite app_nil_r. split; [exact Hvi|]. split; [reflexivity|].
    unfold nz32. destruct (p_payload_size p =? 0) eqn:Ez; cbn [owed]; lens; repeat split; auto; lia.
Qed.

Definition item_first_byte (it : encoded) : N :=
  match it with EPacket p => packet_type_of p | EPublish p _ => pub_first_byte p | EChunk _ => 0 end.
Definition item_size (it : encoded) : N :=
  match it with EPacket p => get_encoded_size p | EPublish p _ => get_encoded_publish_size p | EChunk c => len c end.

(* C09, both frame-producing items at once: one frame, truthful remaining length = reported size *)
Lemma v3_size_agrees : forall max_size ep it dst dst' ep',
  (match it with EChunk _ => False | EPublish p _ => p_payload_size p <= U32MAX | _ => True end) ->
  encodev max_size ep it dst = (dst', ep', Ok tt) ->
  exists vi body',
    enc_vi (item_size it) = Some vi /\
    dst' = dst ++ item_first_byte it :: vi ++ body' /\
    len body' + owed ep' = item_size it.
Proof.
  intros ms ep it dst dst' ep' Hk H. destruct it as [p|p buf|c]; [| |contradiction].
  - apply v3_size_agrees_packet in H as (vi & Hvi & -> & Hl & -> & -> & _).
    exists vi, (body p). cbn [item_size item_first_byte owed]. repeat split; auto. lia.
  - apply v3_size_agrees_publish in H as (vi & Hvi & -> & Hl & _); [|exact Hk].
    exists vi. eexists. cbn [item_size item_first_byte]. repeat split; eauto.
Qed.

(* over-size packets are refused, nothing is written and nothing panics (the var-int writer's panic
   is unreachable through the codec) *)
Lemma v3_oversize_encode_refused : forall max_size p dst,
  VI_MAX < get_encoded_size p ->
  encodev max_size None (EPacket p) dst = (dst, None, Err EE_OverMaxPacketSize).
Proof.
  intros ms p dst H. unfold encodev. cbn [encode_item].
  replace (VI_MAX <? get_encoded_size p) with true by lia. now rewrite truncate_pages_app.
Qed.

(* the encoder never panics on values the Rust types can hold (payload_size is a u32) *)
Lemma w_then_np a k : np (snd a) -> np (snd k) -> np (snd (a ;; k)).
Proof. destruct a as [b [[]|e|s]], k as [b' r]; cbn; auto. Qed.
Lemma w_bytes_np b : np (snd (w_bytes b)).
Proof. exact I. Qed.
Lemma w_bytes16_np b : np (snd (w_bytes16 b)).
Proof. unfold w_bytes16. destruct (_ <=? _); exact I. Qed.
Lemma w_varlen_np n : n <= VI_MAX -> np (snd (w_varlen n)).
Proof. intros H. destruct (enc_vi_some n H) as [b Hb]. now rewrite (w_varlen_ok _ _ Hb). Qed.
Lemma w_sub_filters_np fs : np (snd (w_sub_filters fs)).
Proof.
  induction fs as [|[f q] r IH]; cbn [w_sub_filters]; [exact I|].
  repeat apply w_then_np; auto using w_bytes_np, w_bytes16_np.
Qed.
Lemma w_unsub_filters_np fs : np (snd (w_unsub_filters fs)).
Proof.
  induction fs as [|f r IH]; cbn [w_unsub_filters]; [exact I|].
  repeat apply w_then_np; auto using w_bytes_np, w_bytes16_np.
Qed.
Lemma encode_connect_np c : np (snd (encode_connect c)).
Proof.
  unfold encode_connect, w_u16.
  repeat apply w_then_np; auto using w_bytes_np, w_bytes16_np.
  - destruct (c_last_will c); cbn [w_opt]; [|exact I]. apply w_then_np; apply w_bytes16_np.
  - destruct (c_username c); cbn [w_opt]; [apply w_bytes16_np|exact I].
  - destruct (c_password c); cbn [w_opt]; [apply w_bytes16_np|exact I].
Qed.
Lemma encode_np p n : n <= VI_MAX -> np (snd (encode p n)).
Proof.
  intros H. destruct p; cbn [encode]; try exact I;
    (apply w_then_np; [apply w_bytes_np|apply w_then_np; [now apply w_varlen_np|]]);
    try apply encode_connect_np; unfold w_u16;
    repeat apply w_then_np;
    auto using w_bytes_np, w_bytes16_np, w_sub_filters_np, w_unsub_filters_np.
Qed.
Lemma encode_publish_np p n : n <= VI_MAX -> np (snd (encode_publish p n)).
Proof.
  intros H. unfold encode_publish.
  repeat apply w_then_np; auto using w_bytes_np, w_bytes16_np, w_varlen_np.
  destruct (p_qos p), (p_packet_id p); exact I.
Qed.

Lemma v3_encode_total : forall max_size ep it dst,
  (match it with EPublish p _ => p_payload_size p <= U32MAX | _ => True end) ->
  np (snd (encodev max_size ep it dst)).
Proof.
  intros ms ep it dst Hk. unfold encodev.
  assert (H : np (snd (encode_item ms ep it))).
  { destruct it as [p|p buf|c]; cbn [encode_item].
    - destruct ep; [exact I|]. destruct (VI_MAX <? get_encoded_size p) eqn:Ev; [exact I|].
      rewrite as_u32_small by (unfold VI_MAX, U32MAX in *; lia).
      pose proof (encode_np p (get_encoded_size p) ltac:(lia)) as Hn.
      destruct (encode p (get_encoded_size p)) as [w [[]|e|s]]; cbn [snd bind] in *; auto.
    - destruct (_ && _); [exact I|].
      destruct ((VI_MAX <? get_encoded_publish_size p) || _) eqn:Em; [exact I|].
      rewrite as_u32_small by (unfold VI_MAX, U32MAX in *; lia).
      destruct (match buf with Some b => p_payload_size p <? len b | None => false end) eqn:Eb; [exact I|].
      pose proof (encode_publish_np p (get_encoded_publish_size p) ltac:(lia)) as Hn.
      destruct (encode_publish p (get_encoded_publish_size p)) as [w [[]|e|s]]; cbn [snd] in *; auto.
      destruct buf as [b|]; [|exact I].
      rewrite as_u32_small by lia. rewrite sub_chk_ok by lia. exact I.
    - destruct ep as [n|]; [|exact I]. destruct (n <? as_u32 (len c)) eqn:E; [exact I|].
      rewrite sub_chk_ok by lia. exact I. }
  destruct (encode_item ms ep it) as [w [ep2|e|s]]; cbn [snd] in *; auto.
Qed.
