(* Proofs/CodecV5Enough.v -- C09, "if that is not enough the encode fails": for the acknowledgements that carry a
   list of reason codes after their properties (SUBACK, UNSUBACK) leaving out the diagnostics IS enough whenever the
   packet without them fits: the size the library computes for the full packet is then within the limit too (the
   reason codes come off the budget of the diagnostics: `reduce_limit(limit, 2 + len)` in
   src/v5/codec/packet/subscribe.rs). *)
From Coq Require Import ZArith ZifyN ZifyBool Lia.
From MV Require Import Base.Prelude Base.Res Base.VarInt Base.Utf8 Model.CodecV5
  Proofs.VarIntProofs Proofs.CodecV5Fields Proofs.CodecV5Size Proofs.CodecV5Limit.
Ltac Zify.zify_post_hook ::= Z.div_mod_to_equations.

Lemma ack_props_fit ups reason lim : lim <= VI_MAX -> 1 <= lim -> ack_props_encoded_size ups reason lim <= lim.
Proof.
  intros HL H1. unfold ack_props_encoded_size.
  destruct (lim <? 4) eqn:E; [lia|].
  pose proof (esop_le ups reason (lim - 4)) as Hle.
  pose proof (var_int_len_le4 (encoded_size_opt_props ups reason (lim - 4))) as H4.
  cbv zeta. lia.
Qed.

Lemma ack_props_bare lim : ack_props_encoded_size [] None lim = 1.
Proof. unfold ack_props_encoded_size. destruct (lim <? 4); [reflexivity|]. cbn [encoded_size_opt_props]. reflexivity. Qed.

Lemma unsuback_enough a L : L <= VI_MAX ->
  unsubscribe_ack_encoded_size (mkUnsubscribeAck (ua_packet_id a) [] None (ua_status a)) L <= L ->
  unsubscribe_ack_encoded_size a L <= L.
Proof.
  intros HL Hb. unfold unsubscribe_ack_encoded_size in *. cbn [ua_status ua_properties ua_reason_string] in Hb.
  rewrite ack_props_bare in Hb. cbv zeta in *.
  set (l := len (ua_status a)) in *.
  assert (Hr : reduce_limit L (2 + l) = L - (2 + l) /\ 1 <= L - (2 + l)).
  { unfold reduce_limit. destruct (L <? 2 + l) eqn:E; lia. }
  destruct Hr as [Hr H1]. rewrite Hr.
  pose proof (ack_props_fit (ua_properties a) (ua_reason_string a) (L - (2 + l)) ltac:(lia) H1). lia.
Qed.

Lemma suback_enough a L : L <= VI_MAX ->
  subscribe_ack_encoded_size (mkSubscribeAck (sa_packet_id a) [] None (sa_status a)) L <= L ->
  subscribe_ack_encoded_size a L <= L.
Proof.
  intros HL Hb. unfold subscribe_ack_encoded_size in *. cbn [sa_status sa_properties sa_reason_string] in Hb.
  rewrite ack_props_bare in Hb. cbv zeta in *.
  set (l := len (sa_status a)) in *.
  destruct (U32MAX - 2 <? l) eqn:EU; [exact Hb|].
  assert (Hr : reduce_limit L (2 + l) = L - (2 + l) /\ 1 <= L - (2 + l)).
  { unfold reduce_limit. destruct (L <? 2 + l) eqn:E; lia. }
  destruct Hr as [Hr H1]. rewrite Hr.
  pose proof (ack_props_fit (sa_properties a) (sa_reason_string a) (L - (2 + l)) ltac:(lia) H1). lia.
Qed.

Definition list_ack (p : packet) : bool :=
  match p with SubscribeAck _ | UnsubscribeAck _ => true | _ => false end.

Theorem v5_list_ack_shortening_enough p L : L <= VI_MAX -> list_ack p = true ->
  packet_encoded_size (drop_diag p) L <= L -> packet_encoded_size p L <= L.
Proof.
  intros HL Hk Hb. destruct p; try discriminate Hk; cbn [drop_diag packet_encoded_size] in *.
  - apply suback_enough; assumption.
  - apply unsuback_enough; assumption.
Qed.

From MV Require Import Proofs.CodecV5Succ.

Lemma list_ack_effective c p : list_ack (effective c p) = list_ack p.
Proof. unfold effective. destruct (ec_no_problem_info c); [|reflexivity]. destruct p; reflexivity. Qed.

(* SUBACK / UNSUBACK are never refused for their diagnostics: when the packet without Reason String and User
   Properties is within the size limit and the frame the library computes passes the peer-maximum check, the
   encode succeeds *)
Theorem v5_list_ack_sent c p :
  ec_encoding_payload c = None -> enc_ok p = true -> list_ack p = true ->
  let q := effective c p in
  packet_encoded_size (drop_diag q) (max_size_of c) <= max_size_of c ->
  check_frame_size c (packet_encoded_size q (max_size_of c)) = Ok tt ->
  exists w, encodev c (EPacket p) = ((w, Ok tt), c).
Proof.
  intros Hp Hok Hk q Hb Hc.
  apply v5_encode_succeeds; try assumption.
  apply v5_list_ack_shortening_enough; [apply max_size_le| |exact Hb].
  unfold q. rewrite list_ack_effective. exact Hk.
Qed.

(* PUBACK / PUBREC / PUBREL / PUBCOMP: 3 bytes, then the properties with the budget `reduce_limit(limit, 3 + 4)` *)
Lemma ack_props_fit0 ups reason lim : lim <= VI_MAX ->
  ack_props_encoded_size ups reason lim <= N.max 1 lim.
Proof.
  intros HL. destruct (lim <? 1) eqn:E.
  - unfold ack_props_encoded_size. replace (lim <? 4) with true by lia. lia.
  - pose proof (ack_props_fit ups reason lim HL ltac:(lia)). lia.
Qed.

Lemma puback_enough ups reason L : L <= VI_MAX -> 3 + 1 <= L ->
  3 + ack_props_encoded_size ups reason (reduce_limit L (3 + 4)) <= L.
Proof.
  intros HL Hb.
  pose proof (ack_props_fit0 ups reason (reduce_limit L (3 + 4))) as H.
  unfold reduce_limit in *. destruct (L <? 3 + 4) eqn:E; lia.
Qed.

Definition pub_ack_kind (p : packet) : bool :=
  match p with PublishAck _ | PublishReceived _ | PublishRelease _ | PublishComplete _ => true | _ => false end.

Theorem v5_pub_ack_shortening_enough p L : L <= VI_MAX -> pub_ack_kind p = true ->
  packet_encoded_size (drop_diag p) L <= L -> packet_encoded_size p L <= L.
Proof.
  intros HL Hk Hb. destruct p; try discriminate Hk;
    cbn [drop_diag packet_encoded_size] in *;
    unfold publish_ack_encoded_size, publish_ack2_encoded_size in *;
    cbn [pa_properties pa_reason_string pa2_properties pa2_reason_string] in Hb;
    rewrite ack_props_bare in Hb; apply puback_enough; assumption.
Qed.

Lemma pub_ack_kind_effective c p : pub_ack_kind (effective c p) = pub_ack_kind p.
Proof. unfold effective. destruct (ec_no_problem_info c); [|reflexivity]. destruct p; reflexivity. Qed.

Theorem v5_pub_ack_sent c p :
  ec_encoding_payload c = None -> enc_ok p = true -> pub_ack_kind p = true ->
  let q := effective c p in
  packet_encoded_size (drop_diag q) (max_size_of c) <= max_size_of c ->
  check_frame_size c (packet_encoded_size q (max_size_of c)) = Ok tt ->
  exists w, encodev c (EPacket p) = ((w, Ok tt), c).
Proof.
  intros Hp Hok Hk q Hb Hc.
  apply v5_encode_succeeds; try assumption.
  apply v5_pub_ack_shortening_enough; [apply max_size_le| |exact Hb].
  unfold q. rewrite pub_ack_kind_effective. exact Hk.
Qed.

(* CONNACK (k = 2), DISCONNECT and AUTH (k = 1): k bytes, the property length, fixed properties pl0, then the
   diagnostics with the budget `reduce_limit(limit, pl0 + k + 4)` *)
Lemma diag_enough k pl0 D L : L <= VI_MAX -> D <= reduce_limit L (k + 4 + pl0) ->
  k + var_int_len (pl0 + 0) + (pl0 + 0) <= L -> k + var_int_len (pl0 + D) + (pl0 + D) <= L.
Proof.
  intros HL HD Hb. unfold reduce_limit in HD.
  destruct (L <? k + 4 + pl0) eqn:E.
  - assert (D = 0) by lia. subst D. exact Hb.
  - pose proof (var_int_len_le4 (pl0 + D) ltac:(lia)). lia.
Qed.

(* every packet kind: leaving out the diagnostics is enough whenever the packet without them fits *)
Theorem v5_shortening_enough p L : L <= VI_MAX ->
  packet_encoded_size (drop_diag p) L <= L -> packet_encoded_size p L <= L.
Proof.
  intros HL Hb.
  destruct p; try exact Hb;
    try (apply v5_pub_ack_shortening_enough; [assumption|reflexivity|exact Hb]);
    try (apply v5_list_ack_shortening_enough; [assumption|reflexivity|exact Hb]);
    cbn [drop_diag packet_encoded_size] in *.
  - rewrite !connect_ack_size_eq in *. cbv zeta in *.
    change (connect_ack_fixed_len (mkConnectAck _ _ _ _ _ _ _ _ _ _ _ _ _ _ _ _ _ _ _)) with (connect_ack_fixed_len c) in Hb.
    cbn [ca_user_properties ca_reason_string encoded_size_opt_props] in Hb.
    apply diag_enough; [assumption| |exact Hb].
    replace (2 + 4 + connect_ack_fixed_len c) with (2 + 4 + connect_ack_fixed_len c) by reflexivity.
    apply esop_le.
  - unfold disconnect_encoded_size in *. cbn [d_user_properties d_reason_string d_session_expiry_interval_secs
      d_server_reference encoded_size_opt_props] in Hb. cbv zeta in *.
    set (pl0 := eps sz4 _ + eps es_bytes _) in *.
    apply diag_enough; [assumption| |exact Hb].
    replace (1 + 4 + pl0) with (pl0 + 1 + 4) by lia. apply esop_le.
  - unfold auth_encoded_size in *. cbn [a_user_properties a_reason_string a_auth_method a_auth_data
      encoded_size_opt_props] in Hb. cbv zeta in *.
    set (pl0 := eps es_bytes _ + eps es_bytes _) in *.
    apply diag_enough; [assumption| |exact Hb].
    replace (1 + 4 + pl0) with (pl0 + 1 + 4) by lia. apply esop_le.
Qed.

Theorem v5_shortened_is_sent c p :
  ec_encoding_payload c = None -> enc_ok p = true ->
  let q := effective c p in
  packet_encoded_size (drop_diag q) (max_size_of c) <= max_size_of c ->
  check_frame_size c (packet_encoded_size q (max_size_of c)) = Ok tt ->
  exists w, encodev c (EPacket p) = ((w, Ok tt), c).
Proof.
  intros Hp Hok q Hb Hc.
  apply v5_encode_succeeds; try assumption.
  apply v5_shortening_enough; [apply max_size_le|exact Hb].
Qed.
