(* Proofs/CodecV3FragInd.v -- C10, part 3: the decoder driven over any chunking of a stream, with any
   min_chunk, delivers the events of [sem]: fragmentation independence. *)
From Coq Require Import ZArith ZifyN ZifyBool Lia.
From MV Require Import Base.Prelude Base.Res Base.VarInt Base.Utf8 Proofs.VarIntProofs Model.CodecV3
  Proofs.CodecV3Lib Proofs.CodecV3Dec Proofs.CodecV3Stable Proofs.CodecV3Frag Proofs.CodecV3Sem.
Ltac Zify.zify_post_hook ::= Z.div_mod_to_equations.
Set Warnings "-unused-intro-pattern".

(* a decoder that stopped for lack of data inside a payload holds fewer bytes than it still owes *)
Definition rest_ok (o : outcome) (st : dstate) (buf : bytes) : Prop :=
  o = NeedMore -> forall n, st = PublishPayload n -> len buf < n.

Definition run_spec (ms : N) (st : dstate) (buf : bytes) (r : list item * dstate * bytes * outcome) : Prop :=
  let '(its, st', buf', o) := r in
  sem ms st buf (events its ++ pending st' buf') (fst (flush st' buf')) (snd (flush st' buf')) o
  /\ rest_ok o st' buf'.

Lemma events_cons it its : events (it :: its) = events_of it ++ events its.
Proof. reflexivity. Qed.

Lemma run_sem ms mc : forall fuel st buf,
  dstate_ok st = true -> len buf <= U32MAX ->
  snd (run ms mc fuel st buf) <> OutOfFuel -> run_spec ms st buf (run ms mc fuel st buf).
Proof.
  induction fuel as [|k IH]; intros st buf Hok Hlen Hfuel; [cbn in Hfuel; congruence|].
  assert (Hnf : forall st0 src, st0 <> FrameHeader -> dstate_ok st0 = true -> len src <= U32MAX ->
            snd (run ms mc (S k) st0 src) <> OutOfFuel -> run_spec ms st0 src (run ms mc (S k) st0 src)).
  { clear st buf Hok Hlen Hfuel. intros [|fb rl|fb rl|n] src Hst Hok Hlen Hfuel; [congruence| | |];
      cbn [run decode_step dstate_ok] in *.
    - (* Frame *)
      unfold step_frame in *. destruct (len src <? rl) eqn:E.
      { cbn. split; [apply sem_fr_need; lia|]. intros _ m [=]. }
      unfold split_at in *. pose proof (decode_packet_np fb (firstn (N.to_nat rl) src)) as Hnp.
      destruct (decode_packet fb _) as [p|e|s] eqn:Ed; try contradiction.
      + specialize (IH FrameHeader (skipn (N.to_nat rl) src) eq_refl ltac:(lens; lia)).
        destruct (run ms mc k FrameHeader _) as [[[its1 st1] buf1] o1]. cbn [snd] in *.
        destruct (IH Hfuel) as [Hs Hr]. split; [|exact Hr].
        rewrite events_cons. cbn [events_of app]. eapply sem_fr_ok; eauto. lia.
      + cbn. split; [apply sem_fr_err; [lia|exact Ed]|]. intros [=].
    - (* PublishHeader *)
      rewrite step_publish_header_parse in *.
      destruct (parse_pub fb rl src) as [|e r|pub r] eqn:Ep.
      { cbn. split; [now apply sem_ph_need|]. intros _ m [=]. }
      { cbn. split; [now apply sem_ph_err|]. intros [=]. }
      destruct (parse_pub_ok_inv fb rl src pub r ltac:(lia) Ep) as [Hps Hlr].
      unfold deliver in *. set (plen := p_payload_size pub) in *.
      rewrite as_u32_small in * by lia.
      destruct ((plen <=? len r) || (mc =? 0) || (mc <=? len r)) eqn:Ec.
      + unfold split_at in *. set (kk := N.min (len r) plen) in *.
        assert (Hk : as_u32 (len (firstn (N.to_nat kk) r)) = kk).
        { lens. rewrite as_u32_small; unfold U32MAX, VI_MAX in *; lia. }
        rewrite Hk in *. rewrite sub_chk_ok in * by lia.
        destruct (0 <? plen - kk) eqn:Ez.
        * (* payload incomplete: everything buffered is delivered, the buffer is empty *)
          assert (Hkk : kk = len r) by lia.
          assert (Hsk : skipn (N.to_nat kk) r = []).
          { apply skipn_all2. rewrite <- len_length. lia. }
          assert (Hfk : firstn (N.to_nat kk) r = r).
          { apply firstn_all2. rewrite <- len_length. lia. }
          rewrite Hsk, Hfk in *.
          specialize (IH (PublishPayload (plen - kk)) []). cbn [dstate_ok] in IH.
          specialize (IH ltac:(unfold VI_MAX in *; lia) ltac:(rewrite len_nil; unfold U32MAX; lia)).
          destruct (run ms mc k (PublishPayload (plen - kk)) []) as [[[its1 st1] buf1] o1]. cbn [snd] in *.
          destruct (IH Hfuel) as [Hs Hr]. split; [|exact Hr].
          apply sem_pp_nil in Hs as (HE & Hst1 & Hb1 & Ho); [|lia].
          rewrite events_cons, <- app_assoc, HE, Hst1, Hb1, Ho. cbn [events_of].
          rewrite app_nil_r. cbn [app]. eapply sem_ph_ok; [exact Ep|]. fold plen. rewrite Hkk.
          apply sem_pp_need. lia.
        * (* payload complete *)
          assert (Hkk : kk = plen) by lia. rewrite Hkk in *.
          specialize (IH FrameHeader (skipn (N.to_nat plen) r) eq_refl ltac:(lens; lia)).
          destruct (run ms mc k FrameHeader _) as [[[its1 st1] buf1] o1]. cbn [snd] in *.
          destruct (IH Hfuel) as [Hs Hr]. split; [|exact Hr].
          rewrite events_cons, <- app_assoc. cbn [events_of app]. eapply sem_ph_ok; [exact Ep|]. fold plen.
          apply sem_pp_done; [lia|exact Hs].
      + (* nothing delivered with the PUBLISH *)
        specialize (IH (PublishPayload plen) r). cbn [dstate_ok] in IH.
        specialize (IH ltac:(unfold VI_MAX in *; lia) ltac:(lia)).
        destruct (run ms mc k (PublishPayload plen) r) as [[[its1 st1] buf1] o1]. cbn [snd] in *.
        destruct (IH Hfuel) as [Hs Hr]. split; [|exact Hr].
        rewrite events_cons. cbn [events_of map app]. eapply sem_ph_ok; [exact Ep|exact Hs].
    - (* PublishPayload *)
      destruct (decode_step ms mc (PublishPayload n) src) as [[[[it|]|e|s] st1] buf1] eqn:Es;
        cbn [decode_step] in Es; rewrite Es in *.
      + apply publish_payload_piece in Es as (pl & eof & -> & Hsum & He & Hm & Hst1 & Hpl & Hb1); [|lia].
        set (kk := N.min (len src) n) in *.
        destruct eof.
        * subst st1. cbn [owed_of] in Hsum.
          assert (Hkk : kk = n) by (rewrite Hpl in Hsum; revert Hsum; lens; lia).
          rewrite Hkk in *. subst pl buf1.
          specialize (IH FrameHeader (skipn (N.to_nat n) src) eq_refl ltac:(lens; lia)).
          destruct (run ms mc k FrameHeader _) as [[[its1 st2] buf2] o1]. cbn [snd] in *.
          destruct (IH Hfuel) as [Hs Hr]. split; [|exact Hr].
          rewrite events_cons, <- app_assoc. cbn [events_of]. apply sem_pp_done; [lia|exact Hs].
        * subst st1. cbn [owed_of] in *.
          assert (Hkk : kk = len src).
          { assert (Hlp : len pl = kk) by (rewrite Hpl; lens; unfold kk; lia). unfold kk in *. lia. }
          rewrite Hkk in *.
          assert (Hsk : skipn (N.to_nat (len src)) src = []).
          { apply skipn_all2. rewrite <- len_length. lia. }
          assert (Hfk : firstn (N.to_nat (len src)) src = src).
          { apply firstn_all2. rewrite <- len_length. lia. }
          rewrite Hsk in Hb1. rewrite Hfk in Hpl. subst pl buf1.
          specialize (IH (PublishPayload (n - len src)) []). cbn [dstate_ok] in IH.
          specialize (IH ltac:(unfold VI_MAX in *; lia) ltac:(rewrite len_nil; unfold U32MAX; lia)).
          destruct (run ms mc k (PublishPayload (n - len src)) []) as [[[its1 st2] buf2] o1]. cbn [snd] in *.
          destruct (IH Hfuel) as [Hs Hr]. split; [|exact Hr].
          apply sem_pp_nil in Hs as (HE & Hst2 & Hb2 & Ho); [|lia].
          rewrite events_cons, <- app_assoc, HE, Hst2, Hb2, Ho. cbn [events_of]. rewrite app_nil_r.
          apply sem_pp_need. lia.
      + (* waiting *)
        unfold step_publish_payload in Es. rewrite as_u32_small in Es by lia.
        destruct ((n <=? len src) || (negb (mc =? 0) && (mc <=? len src))) eqn:Ec.
        { unfold split_at in Es. cbv beta iota in Es. destruct (sub_chk _ _) as [a| |]; [destruct (0 <? a)| |]; discriminate. }
        injection Es as <- <-. unfold run_spec. cbn [events app pending flush flat_map].
        replace (len src <? n) with true by lia. cbn [fst snd].
        rewrite firstn_all2 by (rewrite <- len_length; lia).
        split; [apply sem_pp_need; lia|]. intros _ m [= <-]. lia.
      + exfalso. unfold step_publish_payload in Es. destruct (_ || _); [|discriminate].
        unfold split_at in Es. cbv beta iota in Es.
        rewrite sub_chk_ok in Es; [match type of Es with (if ?c then _ else _) = _ => destruct c end; discriminate|].
        pose proof (as_u32_le (len (firstn (N.to_nat (N.min (len src) n)) src))). revert H. lens. lia.
      + exfalso. pose proof (v3_decode_total ms mc (PublishPayload n) src) as T. cbn [decode_step] in T.
        rewrite Es in T. exact T. }
  destruct st as [|fb rl|fb rl|n]; try (apply Hnf; auto; discriminate).
  (* FrameHeader: stop at the header, or continue as the state entered *)
  pose proof (step_frame_header_fixed ms mc buf) as Hfix.
  destruct (parse_fixed ms buf) as [|e|st r] eqn:Ep.
  - cbn [run decode_step]. rewrite Hfix. cbn. split; [now apply sem_fh_need|]. intros _ m [=].
  - cbn [run decode_step]. rewrite Hfix. cbn. split; [now apply sem_fh_err|]. intros [=].
  - destruct (parse_fixed_ok_inv _ _ _ _ Ep) as (Hne & Hok' & Hlr).
    assert (Hrun : run ms mc (S k) FrameHeader buf = run ms mc (S k) st r).
    { cbn [run decode_step]. rewrite Hfix. reflexivity. }
    rewrite Hrun in *. specialize (Hnf st r Hne Hok' ltac:(lia) Hfuel).
    destruct (run ms mc (S k) st r) as [[[its1 st1] buf1] o1]. destruct Hnf as [Hs Hr].
    split; [|exact Hr]. eapply sem_fh_ok; eauto.
Qed.
