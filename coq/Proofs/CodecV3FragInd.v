(* Proofs/CodecV3FragInd.v -- C10, part 3: the decoder driven over any chunking of a stream, with any
   min_chunk, delivers the events of [sem]: fragmentation independence. *)
From Coq Require Import ZArith ZifyN ZifyBool Lia.
From MV Require Import Base.Prelude Base.Res Base.VarInt Base.Utf8 Proofs.VarIntProofs Model.CodecV3
  Proofs.CodecV3Lib Proofs.CodecV3Dec Proofs.CodecV3Stable Proofs.CodecV3Frag Proofs.CodecV3Sem.
Ltac Zify.zify_post_hook ::= Z.div_mod_to_equations.
Set Warnings "-unused-intro-pattern".

(* a decoder that stopped for lack of data inside a payload holds fewer bytes than it still owes *)
Definition rest_ok (o : outcome) (st : dstate) (buf : bytes) : Prop :=
  o = NeedMore -> forall n, st = PublishPayload n -> len buf < n.

Definition run_spec (ms : N) (st : dstate) (buf : bytes) (r : list item * dstate * bytes * outcome) : Prop :=
  let '(its, st', buf', o) := r in
  sem ms st buf (events its ++ pending st' buf') (fst (flush st' buf')) (snd (flush st' buf')) o
  /\ rest_ok o st' buf'.

Lemma events_cons it its : events (it :: its) = events_of it ++ events its.
Proof. reflexivity. Qed.

Definition IHk (ms mc : N) (k : nat) : Prop :=
  forall st buf, dstate_ok st = true -> len buf <= U32MAX ->
    snd (run ms mc k st buf) <> OutOfFuel -> run_spec ms st buf (run ms mc k st buf).

Lemma run_sem_frame ms mc k fb rl src : IHk ms mc k ->
  dstate_ok (Frame fb rl) = true -> len src <= U32MAX ->
  snd (run ms mc (S k) (Frame fb rl) src) <> OutOfFuel ->
  run_spec ms (Frame fb rl) src (run ms mc (S k) (Frame fb rl) src).
Proof.
  intros IH Hok Hlen Hfuel. cbn [run decode_step dstate_ok] in *.

  unfold step_frame in *. destruct (len src <? rl) eqn:E.
  { cbn. split; [apply sem_fr_need; lia|]. intros _ m [=]. }
  unfold split_at in *. pose proof (decode_packet_np fb (firstn (N.to_nat rl) src)) as Hnp.
  destruct (decode_packet fb _) as [p|e|s] eqn:Ed; try contradiction.
  + specialize (IH FrameHeader (skipn (N.to_nat rl) src) eq_refl ltac:(lens; lia)).
    destruct (run ms mc k FrameHeader _) as [[[its1 st1] buf1] o1]. cbn [snd] in *.
    destruct (IH Hfuel) as [Hs Hr]. split; [|exact Hr].
    rewrite events_cons. cbn [events_of app]. eapply sem_fr_ok; eauto. lia.
  + cbn. split; [apply sem_fr_err; [lia|exact Ed]|]. intros [=].
Qed.

Lemma deliver_cases mc fb rl pub r : p_payload_size pub <= VI_MAX -> len r <= U32MAX ->
  let plen := p_payload_size pub in
  (plen <= len r /\
   deliver mc fb rl pub r
   = (Ok (Some (IPublish pub (firstn (N.to_nat plen) r) rl)), FrameHeader, skipn (N.to_nat plen) r)) \/
  (len r < plen /\
   deliver mc fb rl pub r = (Ok (Some (IPublish pub r rl)), PublishPayload (plen - len r), [])) \/
  (len r < plen /\
   deliver mc fb rl pub r = (Ok (Some (IPublish pub [] rl)), PublishPayload plen, r)).
Proof.
  intros Hps Hlr. cbn zeta. unfold deliver. set (plen := p_payload_size pub) in *.
  rewrite as_u32_small by lia.
  destruct ((plen <=? len r) || (mc =? 0) || (mc <=? len r)) eqn:Ec.
  - unfold split_at. set (kk := N.min (len r) plen).
    assert (Hk : as_u32 (len (firstn (N.to_nat kk) r)) = kk).
    { lens. rewrite as_u32_small; unfold kk, U32MAX, VI_MAX in *; lia. }
    rewrite Hk, sub_chk_ok by (unfold kk; lia).
    destruct (0 <? plen - kk) eqn:Ez.
    + right; left. assert (Hkk : kk = len r) by (unfold kk in *; lia). split; [unfold kk in *; lia|].
      rewrite Hkk. rewrite skipn_all2, firstn_all2 by (rewrite <- len_length; lia). reflexivity.
    + left. assert (Hkk : kk = plen) by (unfold kk in *; lia). split; [unfold kk in *; lia|].
      rewrite Hkk. reflexivity.
  - right; right. split; [lia|reflexivity].
Qed.

Lemma payload_cases mc n src : 0 < n -> n <= VI_MAX -> len src <= U32MAX ->
  (n <= len src /\
   step_publish_payload mc n src
   = (Ok (Some (IChunk (firstn (N.to_nat n) src) true)), FrameHeader, skipn (N.to_nat n) src)) \/
  (len src < n /\
   step_publish_payload mc n src = (Ok (Some (IChunk src false)), PublishPayload (n - len src), [])) \/
  (len src < n /\ step_publish_payload mc n src = (Ok None, PublishPayload n, src)).
Proof.
  intros H0 Hn Hl. unfold step_publish_payload. rewrite as_u32_small by lia.
  destruct ((n <=? len src) || (negb (mc =? 0) && (mc <=? len src))) eqn:Ec.
  - unfold split_at. set (kk := N.min (len src) n).
    assert (Hk : as_u32 (len (firstn (N.to_nat kk) src)) = kk).
    { lens. rewrite as_u32_small; unfold kk, U32MAX, VI_MAX in *; lia. }
    rewrite Hk, sub_chk_ok by (unfold kk; lia).
    destruct (0 <? n - kk) eqn:Ez.
    + right; left. assert (Hkk : kk = len src) by (unfold kk in *; lia). split; [unfold kk in *; lia|].
      rewrite Hkk. rewrite skipn_all2, firstn_all2 by (rewrite <- len_length; lia). reflexivity.
    + left. assert (Hkk : kk = n) by (unfold kk in *; lia). split; [unfold kk in *; lia|].
      rewrite Hkk. reflexivity.
  - right; right. split; [lia|reflexivity].
Qed.

(* one unfolding of [run] *)
Lemma run_S_item ms mc k st buf it st1 buf1 : decode_step ms mc st buf = (Ok (Some it), st1, buf1) ->
  run ms mc (S k) st buf
  = (it :: fst (fst (fst (run ms mc k st1 buf1))), snd (fst (fst (run ms mc k st1 buf1))),
     snd (fst (run ms mc k st1 buf1)), snd (run ms mc k st1 buf1)).
Proof. intros E. cbn [run]. rewrite E. destruct (run ms mc k st1 buf1) as [[[a b] c] d]. reflexivity. Qed.
Lemma run_S_none ms mc k st buf st1 buf1 : decode_step ms mc st buf = (Ok None, st1, buf1) ->
  run ms mc (S k) st buf = ([], st1, buf1, NeedMore).
Proof. intros E. cbn [run]. now rewrite E. Qed.
Lemma run_S_err ms mc k st buf e st1 buf1 : decode_step ms mc st buf = (Err e, st1, buf1) ->
  run ms mc (S k) st buf = ([], st1, buf1, Failed e).
Proof. intros E. cbn [run]. now rewrite E. Qed.

Lemma run_spec_item ms mc k st buf it st1 buf1 :
  decode_step ms mc st buf = (Ok (Some it), st1, buf1) ->
  snd (run ms mc (S k) st buf) <> OutOfFuel ->
  (forall its st' buf' o, run ms mc k st1 buf1 = (its, st', buf', o) -> o <> OutOfFuel ->
     sem ms st buf (events_of it ++ events its ++ pending st' buf') (fst (flush st' buf')) (snd (flush st' buf')) o
     /\ rest_ok o st' buf') ->
  run_spec ms st buf (run ms mc (S k) st buf).
Proof.
  intros E Hfuel H. rewrite (run_S_item _ _ _ _ _ _ _ _ E) in *. cbn [snd] in Hfuel.
  destruct (run ms mc k st1 buf1) as [[[its st'] buf'] o]. cbn [fst snd] in *.
  unfold run_spec. rewrite events_cons, <- app_assoc. now apply H.
Qed.

Lemma run_sem_ph ms mc k fb rl src : IHk ms mc k ->
  dstate_ok (PublishHeader fb rl) = true -> len src <= U32MAX ->
  snd (run ms mc (S k) (PublishHeader fb rl) src) <> OutOfFuel ->
  run_spec ms (PublishHeader fb rl) src (run ms mc (S k) (PublishHeader fb rl) src).
Proof.
  intros IH Hok Hlen Hfuel. cbn [dstate_ok] in Hok.
  pose proof (step_publish_header_parse mc fb rl src) as Hp.
  change (step_publish_header mc fb rl src) with (decode_step ms mc (PublishHeader fb rl) src) in Hp.
  destruct (parse_pub fb rl src) as [|e r|pub r] eqn:Ep.
  { rewrite (run_S_none ms mc k (PublishHeader fb rl) src _ _ Hp).
    split; [now apply sem_ph_need|]. intros _ m [=]. }
  { rewrite (run_S_err ms mc k (PublishHeader fb rl) src _ _ _ Hp).
    split; [now apply sem_ph_err|]. intros [=]. }
  destruct (parse_pub_ok_inv fb rl src pub r ltac:(lia) Ep) as [Hps Hlr].
  assert (Hlr' : len r <= U32MAX) by lia.
  destruct (deliver_cases mc fb rl pub r Hps Hlr') as [[Hc E]|[[Hc E]|[Hc E]]]; cbn zeta in *;
    rewrite E in Hp; clear E.
  - apply (run_spec_item ms mc k _ _ _ _ _ Hp Hfuel). intros its st' buf' o Er Ho.
    assert (Hl2 : len (skipn (N.to_nat (p_payload_size pub)) r) <= U32MAX) by (rewrite len_skipn; lia).
    pose proof (IH FrameHeader _ eq_refl Hl2) as IH'. rewrite Er in IH'. destruct (IH' Ho) as [Hs Hr].
    split; [|exact Hr]. cbn [events_of app]. eapply sem_ph_ok; [exact Ep|].
    apply sem_pp_done; [lia|exact Hs].
  - apply (run_spec_item ms mc k _ _ _ _ _ Hp Hfuel). intros its st' buf' o Er Ho.
    assert (Hd : dstate_ok (PublishPayload (p_payload_size pub - len r)) = true)
      by (cbn [dstate_ok]; unfold VI_MAX in *; lia).
    assert (Hl2 : len (@nil N) <= U32MAX) by (rewrite len_nil; unfold U32MAX; lia).
    pose proof (IH _ _ Hd Hl2) as IH'. rewrite Er in IH'. destruct (IH' Ho) as [Hs Hr].
    split; [|exact Hr].
    apply sem_pp_nil in Hs as (HE & Hst1 & Hb1 & Ho'); [|lia].
    rewrite HE, Hst1, Hb1, Ho'. cbn [events_of]. rewrite app_nil_r.
    eapply sem_ph_ok; [exact Ep|]. apply sem_pp_need. lia.
  - apply (run_spec_item ms mc k _ _ _ _ _ Hp Hfuel). intros its st' buf' o Er Ho.
    assert (Hd : dstate_ok (PublishPayload (p_payload_size pub)) = true)
      by (cbn [dstate_ok]; unfold VI_MAX in *; lia).
    pose proof (IH _ _ Hd Hlr') as IH'. rewrite Er in IH'. destruct (IH' Ho) as [Hs Hr].
    split; [|exact Hr]. cbn [events_of map app]. eapply sem_ph_ok; [exact Ep|exact Hs].
Qed.

Lemma run_sem_pp ms mc k n src : IHk ms mc k ->
  dstate_ok (PublishPayload n) = true -> len src <= U32MAX ->
  snd (run ms mc (S k) (PublishPayload n) src) <> OutOfFuel ->
  run_spec ms (PublishPayload n) src (run ms mc (S k) (PublishPayload n) src).
Proof.
  intros IH Hok Hlen Hfuel. cbn [dstate_ok] in Hok. cbn [run decode_step] in *.
  destruct (payload_cases mc n src ltac:(lia) ltac:(lia) Hlen) as [[Hc E]|[[Hc E]|[Hc E]]];
    rewrite E in *; clear E.
  - specialize (IH FrameHeader (skipn (N.to_nat n) src) eq_refl ltac:(lens; lia)).
    destruct (run ms mc k FrameHeader _) as [[[its1 st2] buf2] o1]. cbn [snd] in *.
    destruct (IH Hfuel) as [Hs Hr]. split; [|exact Hr].
    rewrite events_cons, <- app_assoc. cbn [events_of]. apply sem_pp_done; [lia|exact Hs].
  - specialize (IH (PublishPayload (n - len src)) []). cbn [dstate_ok] in IH.
    specialize (IH ltac:(unfold VI_MAX in *; lia) ltac:(rewrite len_nil; unfold U32MAX; lia)).
    destruct (run ms mc k (PublishPayload (n - len src)) []) as [[[its1 st2] buf2] o1]. cbn [snd] in *.
    destruct (IH Hfuel) as [Hs Hr]. split; [|exact Hr].
    apply sem_pp_nil in Hs as (HE & Hst2 & Hb2 & Ho); [|lia].
    rewrite events_cons, <- app_assoc, HE, Hst2, Hb2, Ho. cbn [events_of]. rewrite app_nil_r.
    apply sem_pp_need. lia.
  - unfold run_spec. cbn [events app pending flush flat_map].
    replace (len src <? n) with true by lia. cbn [fst snd].
    rewrite firstn_all2 by (rewrite <- len_length; lia).
    split; [apply sem_pp_need; lia|]. intros _ m [= <-]. lia.
Qed.

Lemma run_sem ms mc : forall fuel st buf,
  dstate_ok st = true -> len buf <= U32MAX ->
  snd (run ms mc fuel st buf) <> OutOfFuel -> run_spec ms st buf (run ms mc fuel st buf).
Proof.
  induction fuel as [|k IH]; intros st buf Hok Hlen Hfuel; [cbn in Hfuel; congruence|].
  assert (Hnf : forall st0 src, st0 <> FrameHeader -> dstate_ok st0 = true -> len src <= U32MAX ->
            snd (run ms mc (S k) st0 src) <> OutOfFuel -> run_spec ms st0 src (run ms mc (S k) st0 src)).
  { intros [|fb rl|fb rl|n] src Hst Hok0 Hlen0 Hfuel0; [congruence| | |].
    - now apply run_sem_frame. - now apply run_sem_ph. - now apply run_sem_pp. }
  destruct st as [|fb rl|fb rl|n]; try (apply Hnf; auto; discriminate).
  (* FrameHeader: stop at the header, or continue as the state entered *)
  pose proof (step_frame_header_fixed ms mc buf) as Hfix.
  destruct (parse_fixed ms buf) as [|e|st r] eqn:Ep.
  - cbn [run decode_step]. rewrite Hfix. cbn. split; [now apply sem_fh_need|]. intros _ m [=].
  - cbn [run decode_step]. rewrite Hfix. cbn. split; [now apply sem_fh_err|]. intros [=].
  - destruct (parse_fixed_ok_inv _ _ _ _ Ep) as (Hne & Hok' & Hlr).
    assert (Hrun : run ms mc (S k) FrameHeader buf = run ms mc (S k) st r).
    { cbn [run decode_step]. rewrite Hfix. reflexivity. }
    rewrite Hrun in *. specialize (Hnf st r Hne Hok' ltac:(lia) Hfuel).
    destruct (run ms mc (S k) st r) as [[[its1 st1] buf1] o1]. destruct Hnf as [Hs Hr].
    split; [|exact Hr]. eapply sem_fh_ok; eauto.
Qed.
