(* Proofs/CodecV3FragInd.v -- C10, part 3: the decoder driven over any chunking of a stream, with any
   min_chunk, delivers the events of [sem]: fragmentation independence. *)
From Coq Require Import ZArith ZifyN ZifyBool Lia.
From MV Require Import Base.Prelude Base.Res Base.VarInt Base.Utf8 Proofs.VarIntProofs Model.CodecV3
  Proofs.CodecV3Lib Proofs.CodecV3Dec Proofs.CodecV3Stable Proofs.CodecV3Frag Proofs.CodecV3Sem.
Ltac Zify.zify_post_hook ::= Z.div_mod_to_equations.
Set Warnings "-unused-intro-pattern".

(* a decoder that stopped for lack of data inside a payload holds fewer bytes than it still owes *)
Definition rest_ok (o : outcome) (st : dstate) (buf : bytes) : Prop :=
  o = NeedMore -> forall n, st = PublishPayload n -> len buf < n.

Definition run_spec (ms : N) (st : dstate) (buf : bytes) (r : list item * dstate * bytes * outcome) : Prop :=
  let '(its, st', buf', o) := r in
  sem ms st buf (events its ++ pending st' buf') (fst (flush st' buf')) (snd (flush st' buf')) o
  /\ rest_ok o st' buf'.

Lemma events_cons it its : events (it :: its) = events_of it ++ events its.
Proof. reflexivity. Qed.

Definition IHk (ms mc : N) (k : nat) : Prop :=
  forall st buf, dstate_ok st = true -> len buf <= U32MAX ->
    snd (run ms mc k st buf) <> OutOfFuel -> run_spec ms st buf (run ms mc k st buf).

Lemma run_sem_frame ms mc k fb rl src : IHk ms mc k ->
  dstate_ok (Frame fb rl) = true -> len src <= U32MAX ->
  snd (run ms mc (S k) (Frame fb rl) src) <> OutOfFuel ->
  run_spec ms (Frame fb rl) src (run ms mc (S k) (Frame fb rl) src).
Proof.
  intros IH Hok Hlen Hfuel. cbn [run decode_step dstate_ok] in *.

  unfold step_frame in *. destruct (len src <? rl) eqn:E.
  { cbn. split; [apply sem_fr_need; lia|]. intros _ m [=]. }
  unfold split_at in *. pose proof (decode_packet_np fb (firstn (N.to_nat rl) src)) as Hnp.
  destruct (decode_packet fb _) as [p|e|s] eqn:Ed; try contradiction.
  + specialize (IH FrameHeader (skipn (N.to_nat rl) src) eq_refl ltac:(lens; lia)).
    destruct (run ms mc k FrameHeader _) as [[[its1 st1] buf1] o1]. cbn [snd] in *.
    destruct (IH Hfuel) as [Hs Hr]. split; [|exact Hr].
    rewrite events_cons. cbn [events_of app]. eapply sem_fr_ok; eauto. lia.
  + cbn. split; [apply sem_fr_err; [lia|exact Ed]|]. intros [=].
Qed.

Lemma deliver_cases mc fb rl pub r : p_payload_size pub <= VI_MAX -> len r <= U32MAX ->
  (p_payload_size pub <= len r /\
   deliver mc fb rl pub r
   = (Ok (Some (IPublish pub (firstn (N.to_nat (p_payload_size pub)) r) rl)), FrameHeader,
      skipn (N.to_nat (p_payload_size pub)) r)) \/
  (len r < p_payload_size pub /\
   deliver mc fb rl pub r = (Ok (Some (IPublish pub r rl)), PublishPayload (p_payload_size pub - len r), [])) \/
  (len r < p_payload_size pub /\
   deliver mc fb rl pub r = (Ok (Some (IPublish pub [] rl)), PublishPayload (p_payload_size pub), r)).
Proof.
  intros Hps Hlr. unfold deliver. set (plen := p_payload_size pub) in *.
  rewrite as_u32_small by lia.
  destruct ((plen <=? len r) || (mc =? 0) || (mc <=? len r)) eqn:Ec.
  - unfold split_at. set (kk := N.min (len r) plen).
    assert (Hk : as_u32 (len (firstn (N.to_nat kk) r)) = kk).
    { lens. rewrite as_u32_small; unfold kk, U32MAX, VI_MAX in *; lia. }
    rewrite Hk, sub_chk_ok by (unfold kk; lia).
    destruct (0 <? plen - kk) eqn:Ez.
    + right; left. assert (Hkk : kk = len r) by (unfold kk in *; lia). split; [unfold kk in *; lia|].
      rewrite Hkk. rewrite skipn_all2, firstn_all2 by (rewrite <- len_length; lia). reflexivity.
    + left. assert (Hkk : kk = plen) by (unfold kk in *; lia). split; [unfold kk in *; lia|].
      rewrite Hkk. reflexivity.
  - right; right. split; [lia|reflexivity].
Qed.

Lemma payload_cases mc n src : 0 < n -> n <= VI_MAX -> len src <= U32MAX ->
  (n <= len src /\
   step_publish_payload mc n src
   = (Ok (Some (IChunk (firstn (N.to_nat n) src) true)), FrameHeader, skipn (N.to_nat n) src)) \/
  (len src < n /\
   step_publish_payload mc n src = (Ok (Some (IChunk src false)), PublishPayload (n - len src), [])) \/
  (len src < n /\ step_publish_payload mc n src = (Ok None, PublishPayload n, src)).
Proof.
  intros H0 Hn Hl. unfold step_publish_payload. rewrite as_u32_small by lia.
  destruct ((n <=? len src) || (negb (mc =? 0) && (mc <=? len src))) eqn:Ec.
  - unfold split_at. set (kk := N.min (len src) n).
    assert (Hk : as_u32 (len (firstn (N.to_nat kk) src)) = kk).
    { lens. rewrite as_u32_small; unfold kk, U32MAX, VI_MAX in *; lia. }
    rewrite Hk, sub_chk_ok by (unfold kk; lia).
    destruct (0 <? n - kk) eqn:Ez.
    + right; left. assert (Hkk : kk = len src) by (unfold kk in *; lia). split; [unfold kk in *; lia|].
      rewrite Hkk. rewrite skipn_all2, firstn_all2 by (rewrite <- len_length; lia). reflexivity.
    + left. assert (Hkk : kk = n) by (unfold kk in *; lia). split; [unfold kk in *; lia|].
      rewrite Hkk. reflexivity.
  - right; right. split; [lia|reflexivity].
Qed.

(* one unfolding of [run] *)
Lemma run_S_item ms mc k st buf it st1 buf1 : decode_step ms mc st buf = (Ok (Some it), st1, buf1) ->
  run ms mc (S k) st buf
  = (it :: fst (fst (fst (run ms mc k st1 buf1))), snd (fst (fst (run ms mc k st1 buf1))),
     snd (fst (run ms mc k st1 buf1)), snd (run ms mc k st1 buf1)).
Proof. intros E. cbn [run]. rewrite E. destruct (run ms mc k st1 buf1) as [[[a b] c] d]. reflexivity. Qed.
Lemma run_S_none ms mc k st buf st1 buf1 : decode_step ms mc st buf = (Ok None, st1, buf1) ->
  run ms mc (S k) st buf = ([], st1, buf1, NeedMore).
Proof. intros E. cbn [run]. now rewrite E. Qed.
Lemma run_S_err ms mc k st buf e st1 buf1 : decode_step ms mc st buf = (Err e, st1, buf1) ->
  run ms mc (S k) st buf = ([], st1, buf1, Failed e).
Proof. intros E. cbn [run]. now rewrite E. Qed.

Lemma run_spec_item ms mc k st buf it st1 buf1 :
  decode_step ms mc st buf = (Ok (Some it), st1, buf1) ->
  snd (run ms mc (S k) st buf) <> OutOfFuel ->
  (forall its st' buf' o, run ms mc k st1 buf1 = (its, st', buf', o) -> o <> OutOfFuel ->
     sem ms st buf (events_of it ++ events its ++ pending st' buf') (fst (flush st' buf')) (snd (flush st' buf')) o
     /\ rest_ok o st' buf') ->
  run_spec ms st buf (run ms mc (S k) st buf).
Proof.
  intros E Hfuel H. rewrite (run_S_item _ _ _ _ _ _ _ _ E) in *. cbn [snd] in Hfuel.
  destruct (run ms mc k st1 buf1) as [[[its st'] buf'] o]. cbn [fst snd] in *.
  unfold run_spec. rewrite events_cons, <- app_assoc. now apply H.
Qed.

Section PH.
Context (ms mc : N) (k : nat) (fb rl : N) (src : bytes).
Hypothesis IH : IHk ms mc k.
Hypothesis Hok : rl <= VI_MAX.
Hypothesis Hlen : len src <= U32MAX.
Hypothesis Hfuel : snd (run ms mc (S k) (PublishHeader fb rl) src) <> OutOfFuel.
Let goal := run_spec ms (PublishHeader fb rl) src (run ms mc (S k) (PublishHeader fb rl) src).

Lemma ph_need : decode_step ms mc (PublishHeader fb rl) src = (Ok None, PublishHeader fb rl, src) ->
  parse_pub fb rl src = PNeed -> goal.
Proof.
  intros Hp Ep. unfold goal. rewrite (run_S_none ms mc k _ _ _ _ Hp).
  split; [now apply sem_ph_need|]. intros _ m [=].
Qed.

Lemma ph_err e r : decode_step ms mc (PublishHeader fb rl) src = (Err e, PublishHeader fb rl, r) ->
  parse_pub fb rl src = PErr e r -> goal.
Proof.
  intros Hp Ep. unfold goal. rewrite (run_S_err ms mc k _ _ _ _ _ Hp).
  split; [now apply sem_ph_err|]. intros [=].
Qed.

Lemma ph_ok1 pub r : parse_pub fb rl src = POk pub r ->
  decode_step ms mc (PublishHeader fb rl) src
  = (Ok (Some (IPublish pub (firstn (N.to_nat (p_payload_size pub)) r) rl)),
     FrameHeader, skipn (N.to_nat (p_payload_size pub)) r) ->
  p_payload_size pub <= len r -> len r <= U32MAX -> goal.
Proof.
  intros Ep Hp Hc Hlr'. unfold goal.
  apply (run_spec_item ms mc k _ _ _ _ _ Hp Hfuel). intros its st' buf' o Er Ho.
  assert (Hl2 : len (skipn (N.to_nat (p_payload_size pub)) r) <= U32MAX) by (rewrite len_skipn; lia).
  pose proof (IH FrameHeader _ eq_refl Hl2) as IH'. rewrite Er in IH'. destruct (IH' Ho) as [Hs Hr].
  split; [|exact Hr]. cbn [events_of app]. eapply sem_ph_ok; [exact Ep|].
  apply sem_pp_done; [lia|exact Hs].
Qed.

Lemma ph_ok2 pub r : parse_pub fb rl src = POk pub r ->
  decode_step ms mc (PublishHeader fb rl) src
  = (Ok (Some (IPublish pub r rl)), PublishPayload (p_payload_size pub - len r), []) ->
  len r < p_payload_size pub -> p_payload_size pub <= VI_MAX -> goal.
Proof.
  intros Ep Hp Hc Hps. unfold goal.
  apply (run_spec_item ms mc k _ _ _ _ _ Hp Hfuel). intros its st' buf' o Er Ho.
  assert (Hd : dstate_ok (PublishPayload (p_payload_size pub - len r)) = true)
    by (cbn [dstate_ok]; unfold VI_MAX in *; lia).
  assert (Hl2 : len (@nil N) <= U32MAX) by (rewrite len_nil; unfold U32MAX; lia).
  pose proof (IH _ _ Hd Hl2) as IH'. rewrite Er in IH'. destruct (IH' Ho) as [Hs Hr].
  split; [|exact Hr].
  apply sem_pp_nil in Hs as (HE & Hst1 & Hb1 & Ho'); [|lia].
  rewrite HE, Hst1, Hb1, Ho'. cbn [events_of]. rewrite app_nil_r.
  eapply sem_ph_ok; [exact Ep|]. apply sem_pp_need. lia.
Qed.

Lemma ph_ok3 pub r : parse_pub fb rl src = POk pub r ->
  decode_step ms mc (PublishHeader fb rl) src
  = (Ok (Some (IPublish pub [] rl)), PublishPayload (p_payload_size pub), r) ->
  len r < p_payload_size pub -> p_payload_size pub <= VI_MAX -> len r <= U32MAX -> goal.
Proof.
  intros Ep Hp Hc Hps Hlr'. unfold goal.
  apply (run_spec_item ms mc k _ _ _ _ _ Hp Hfuel). intros its st' buf' o Er Ho.
  assert (Hd : dstate_ok (PublishPayload (p_payload_size pub)) = true)
    by (cbn [dstate_ok]; unfold VI_MAX in *; lia).
  pose proof (IH _ _ Hd Hlr') as IH'. rewrite Er in IH'. destruct (IH' Ho) as [Hs Hr].
  split; [|exact Hr]. cbn [events_of map app]. eapply sem_ph_ok; [exact Ep|exact Hs].
Qed.

Lemma ph_all : goal.
Proof.
  pose proof (step_publish_header_parse mc fb rl src) as Hp.
  change (step_publish_header mc fb rl src) with (decode_step ms mc (PublishHeader fb rl) src) in Hp.
  destruct (parse_pub fb rl src) as [|e r|pub r] eqn:Ep.
  - now apply ph_need.
  - now apply (ph_err e r).
  - destruct (parse_pub_ok_inv fb rl src pub r Hok Ep) as [Hps Hlr].
    assert (Hlr' : len r <= U32MAX) by lia.
    destruct (deliver_cases mc fb rl pub r Hps Hlr') as [[Hc E]|[[Hc E]|[Hc E]]]; rewrite E in Hp.
    + now apply (ph_ok1 pub r).
    + now apply (ph_ok2 pub r).
    + now apply (ph_ok3 pub r).
Qed.
End PH.

Lemma run_sem_ph ms mc k fb rl src : IHk ms mc k ->
  dstate_ok (PublishHeader fb rl) = true -> len src <= U32MAX ->
  snd (run ms mc (S k) (PublishHeader fb rl) src) <> OutOfFuel ->
  run_spec ms (PublishHeader fb rl) src (run ms mc (S k) (PublishHeader fb rl) src).
Proof.
  intros IH Hok Hlen Hfuel. cbn [dstate_ok] in Hok. apply ph_all; auto. lia.
Qed.

Lemma run_sem_pp ms mc k n src : IHk ms mc k ->
  dstate_ok (PublishPayload n) = true -> len src <= U32MAX ->
  snd (run ms mc (S k) (PublishPayload n) src) <> OutOfFuel ->
  run_spec ms (PublishPayload n) src (run ms mc (S k) (PublishPayload n) src).
Proof.
  intros IH Hok Hlen Hfuel. cbn [dstate_ok] in Hok. cbn [run decode_step] in *.
  destruct (payload_cases mc n src ltac:(lia) ltac:(lia) Hlen) as [[Hc E]|[[Hc E]|[Hc E]]];
    rewrite E in *; clear E.
  - specialize (IH FrameHeader (skipn (N.to_nat n) src) eq_refl ltac:(lens; lia)).
    destruct (run ms mc k FrameHeader _) as [[[its1 st2] buf2] o1]. cbn [snd] in *.
    destruct (IH Hfuel) as [Hs Hr]. split; [|exact Hr].
    rewrite events_cons, <- app_assoc. cbn [events_of]. apply sem_pp_done; [lia|exact Hs].
  - specialize (IH (PublishPayload (n - len src)) []). cbn [dstate_ok] in IH.
    specialize (IH ltac:(unfold VI_MAX in *; lia) ltac:(rewrite len_nil; unfold U32MAX; lia)).
    destruct (run ms mc k (PublishPayload (n - len src)) []) as [[[its1 st2] buf2] o1]. cbn [snd] in *.
    destruct (IH Hfuel) as [Hs Hr]. split; [|exact Hr].
    apply sem_pp_nil in Hs as (HE & Hst2 & Hb2 & Ho); [|lia].
    rewrite events_cons, <- app_assoc, HE, Hst2, Hb2, Ho. cbn [events_of]. rewrite app_nil_r.
    apply sem_pp_need. lia.
  - unfold run_spec. cbn [events app pending flush flat_map].
    replace (len src <? n) with true by lia. cbn [fst snd].
    rewrite firstn_all2 by (rewrite <- len_length; lia).
    split; [apply sem_pp_need; lia|]. intros _ m [= <-]. lia.
Qed.

Lemma run_sem ms mc : forall fuel st buf,
  dstate_ok st = true -> len buf <= U32MAX ->
  snd (run ms mc fuel st buf) <> OutOfFuel -> run_spec ms st buf (run ms mc fuel st buf).
Proof.
  induction fuel as [|k IH]; intros st buf Hok Hlen Hfuel; [cbn in Hfuel; congruence|].
  assert (Hnf : forall st0 src, st0 <> FrameHeader -> dstate_ok st0 = true -> len src <= U32MAX ->
            snd (run ms mc (S k) st0 src) <> OutOfFuel -> run_spec ms st0 src (run ms mc (S k) st0 src)).
  { intros [|fb rl|fb rl|n] src Hst Hok0 Hlen0 Hfuel0; [congruence| | |].
    - now apply run_sem_frame. - now apply run_sem_ph. - now apply run_sem_pp. }
  destruct st as [|fb rl|fb rl|n]; try (apply Hnf; auto; discriminate).
  (* FrameHeader: stop at the header, or continue as the state entered *)
  pose proof (step_frame_header_fixed ms mc buf) as Hfix.
  destruct (parse_fixed ms buf) as [|e|st r] eqn:Ep.
  - cbn [run decode_step]. rewrite Hfix. cbn. split; [now apply sem_fh_need|]. intros _ m [=].
  - cbn [run decode_step]. rewrite Hfix. cbn. split; [now apply sem_fh_err|]. intros [=].
  - destruct (parse_fixed_ok_inv _ _ _ _ Ep) as (Hne & Hok' & Hlr).
    assert (Hrun : run ms mc (S k) FrameHeader buf = run ms mc (S k) st r).
    { cbn [run decode_step]. rewrite Hfix. reflexivity. }
    rewrite Hrun in *. specialize (Hnf st r Hne Hok' ltac:(lia) Hfuel).
    destruct (run ms mc (S k) st r) as [[[its1 st1] buf1] o1]. destruct Hnf as [Hs Hr].
    split; [|exact Hr]. eapply sem_fh_ok; eauto.
Qed.

(* ------------------------------------------------------------------ reads *)
Lemma run_shrinks ms mc : forall fuel st buf, len (snd (fst (run ms mc fuel st buf))) <= len buf.
Proof.
  induction fuel as [|k IH]; intros st buf; cbn [run]; [cbn; lia|].
  destruct (v3_step_prefix ms mc st buf) as [c Hc].
  destruct (decode_step ms mc st buf) as [[[[it|]|e|s] st1] buf1]; cbn [sbuf snd fst] in *;
    try (apply (f_equal len) in Hc; revert Hc; lens; lia).
  specialize (IH st1 buf1). destruct (run ms mc k st1 buf1) as [[[its st2] buf2] o]. cbn [fst snd] in *.
  apply (f_equal len) in Hc. revert Hc. lens. lia.
Qed.

Lemma feed_spec ms mc st buf c : dstate_ok st = true -> len (buf ++ c) <= U32MAX ->
  run_spec ms st (buf ++ c) (feed ms mc st buf c).
Proof.
  intros Hok Hl. unfold feed. apply run_sem; auto. apply (v3_feed_fuel_suffices ms mc st buf c).
Qed.

Lemma flush_sem ms st1 buf1 x E s b o : rest_ok NeedMore st1 buf1 -> sem ms st1 (buf1 ++ x) E s b o ->
  exists E', E = pending st1 buf1 ++ E' /\ sem ms (fst (flush st1 buf1)) (snd (flush st1 buf1) ++ x) E' s b o.
Proof.
  intros Hr H. destruct st1 as [| | |n]; try (exists E; split; [reflexivity|exact H]).
  specialize (Hr eq_refl n eq_refl). cbn [pending flush]. replace (len buf1 <? n) with true by lia.
  cbn [fst snd app]. rewrite firstn_all2 by (rewrite <- len_length; lia).
  now apply sem_unflush.
Qed.

Lemma feeds_sem ms mc : forall chunks st buf its st' buf' o,
  chunks <> [] -> dstate_ok st = true -> len (buf ++ concat chunks) <= U32MAX ->
  feeds ms mc st buf chunks = (its, st', buf', o) ->
  exists bf, sem ms st (buf ++ concat chunks) (events its ++ pending st' buf') (fst (flush st' buf')) bf o /\
             (o = NeedMore -> bf = snd (flush st' buf')) /\ rest_ok o st' buf'.
Proof.
  induction chunks as [|c cs IH]; intros st buf its st' buf' o Hne Hok Hl H; [congruence|].
  cbn [feeds concat] in *.
  pose proof (feed_spec ms mc st buf c Hok ltac:(revert Hl; lens; lia)) as Hs1.
  pose proof (proj1 (v3_feed_fuel_suffices ms mc st buf c)) as Hf1.
  pose proof (v3_feed_never_panics ms mc st buf c) as Hp1.
  pose proof (run_shrinks ms mc (feed_fuel (buf ++ c)) st (buf ++ c)) as Hsh. fold (feed ms mc st buf c) in Hsh.
  destruct (feed ms mc st buf c) as [[[its1 st1] buf1] o1] eqn:E1. cbn [fst snd] in *.
  destruct (run_track _ _ _ _ _ _ _ _ _ Hok E1) as [_ Hok1].
  destruct Hs1 as [Hs1 Hr1].
  destruct o1 as [|e|s|]; [| | elim (Hp1 s); reflexivity | elim Hf1; reflexivity].
  - destruct cs as [|c2 cs'].
    + cbn [feeds] in H. injection H as <- <- <- <-. cbn [concat]. rewrite !app_nil_r.
      exists (snd (flush st1 buf1)). auto.
    + destruct (feeds ms mc st1 buf1 (c2 :: cs')) as [[[its2 st2] buf2] o2] eqn:E2.
      injection H as <- <- <- <-.
      destruct (IH st1 buf1 its2 st2 buf2 o2 ltac:(discriminate) Hok1 ltac:(revert Hl Hsh; lens; lia) E2)
        as (bf & Hs2 & Hb2 & Hr2).
      destruct (flush_sem ms st1 buf1 _ _ _ _ _ Hr1 Hs2) as (E' & HE & Hs2').
      exists bf. split; [|auto].
      rewrite (app_assoc buf c). rewrite events_app, <- (app_assoc (events its1)), HE, (app_assoc (events its1)).
      eapply sem_app_need; eauto.
  - injection H as <- <- <- <-.
    exists (snd (flush st1 buf1) ++ concat cs). split; [|split; [discriminate|exact Hr1]].
    rewrite (app_assoc buf c). eapply sem_app_fail; eauto.
Qed.

(* everything a decoder has seen of the stream: what it delivered, plus the payload bytes of the
   PUBLISH in progress that it is still holding back *)
Definition closure (r : list item * dstate * bytes * outcome) : list ev :=
  let '(its, st, buf, _) := r in events its ++ pending st buf.
Definition outcome_of (r : list item * dstate * bytes * outcome) : outcome := snd r.
Definition rest_of (r : list item * dstate * bytes * outcome) : dstate * bytes :=
  let '(_, st, buf, _) := r in flush st buf.

(* C10: any cutting of the stream into reads, under any min_chunk setting, against reading it at once
   under any other min_chunk setting: same events, same outcome, same decoder afterwards *)
Lemma v3_frag_independent : forall ms mc mc' chunks st buf,
  chunks <> [] -> dstate_ok st = true -> len (buf ++ concat chunks) <= U32MAX ->
  let chunked := feeds ms mc st buf chunks in
  let at_once := feed ms mc' st buf (concat chunks) in
  closure chunked = closure at_once /\
  outcome_of chunked = outcome_of at_once /\
  (outcome_of chunked = NeedMore -> rest_of chunked = rest_of at_once).
Proof.
  intros ms mc mc' chunks st buf Hne Hok Hl. cbn zeta.
  destruct (feeds ms mc st buf chunks) as [[[its1 st1] buf1] o1] eqn:E1.
  destruct (feeds_sem ms mc chunks st buf _ _ _ _ Hne Hok Hl E1) as (bf & Hs1 & Hb1 & _).
  pose proof (feed_spec ms mc' st buf (concat chunks) Hok Hl) as Hs2.
  destruct (feed ms mc' st buf (concat chunks)) as [[[its2 st2] buf2] o2]. destruct Hs2 as [Hs2 _].
  destruct (sem_det _ _ _ _ _ _ _ Hs1 _ _ _ _ Hs2) as (HE & Hst & Hbf & Ho).
  unfold closure, outcome_of, rest_of. cbn [snd]. repeat split; auto.
  intros Hn. specialize (Hb1 Hn). subst bf.
  destruct (flush st1 buf1), (flush st2 buf2). cbn [fst snd] in *. congruence.
Qed.

(* ------------------------------------------------------------------ normalised view *)
Inductive nitem :=
| NPacket (p : packet) (rl : N)
| NPublish (p : publish) (payload : bytes) (rl : N)
| NStray (payload : bytes).

(* glue the payload pieces of each PUBLISH together *)
Fixpoint regroup (evs : list ev) : list nitem :=
  match evs with
  | [] => []
  | EvPacket p rl :: r => NPacket p rl :: regroup r
  | EvPublish p rl :: r =>
    match regroup r with NStray pl :: r' => NPublish p pl rl :: r' | r' => NPublish p [] rl :: r' end
  | EvByte b :: r =>
    match regroup r with NStray pl :: r' => NStray (b :: pl) :: r' | r' => NStray [b] :: r' end
  end.
Definition normalise (its : list item) : list nitem := regroup (events its).
Definition items (r : list item * dstate * bytes * outcome) : list item := fst (fst (fst r)).

(* when reading at once ends between payloads, the delivered items agree exactly *)
Lemma v3_frag_independent_normalised : forall ms mc mc' chunks st buf,
  chunks <> [] -> dstate_ok st = true -> len (buf ++ concat chunks) <= U32MAX ->
  let chunked := feeds ms mc st buf chunks in
  let at_once := feed ms mc' st buf (concat chunks) in
  outcome_of at_once = NeedMore -> owed_of (snd (fst (fst at_once))) = 0 ->
  normalise (items chunked) = normalise (items at_once).
Proof.
  intros ms mc mc' chunks st buf Hne Hok Hl. cbn zeta. intros Ho Hw.
  destruct (v3_frag_independent ms mc mc' chunks st buf Hne Hok Hl) as (HE & Ho' & Hrest).
  destruct (feeds ms mc st buf chunks) as [[[its1 st1] buf1] o1] eqn:E1.
  destruct (feeds_sem ms mc chunks st buf _ _ _ _ Hne Hok Hl E1) as (_ & _ & _ & Hr1).
  pose proof (feed_spec ms mc' st buf (concat chunks) Hok Hl) as Hs2.
  pose proof (run_track ms mc' (feed_fuel (buf ++ concat chunks)) st (buf ++ concat chunks)) as Ht.
  fold (feed ms mc' st buf (concat chunks)) in Ht.
  destruct (feed ms mc' st buf (concat chunks)) as [[[its2 st2] buf2] o2].
  destruct (Ht _ _ _ _ Hok eq_refl) as [_ Hok2]. clear Ht.
  unfold closure, outcome_of, rest_of, items, normalise in *. cbn [fst snd] in *. subst o2 o1.
  specialize (Hrest eq_refl).
  assert (P2 : pending st2 buf2 = [] /\ flush st2 buf2 = (st2, buf2)).
  { destruct st2 as [| | |n]; cbn [owed_of dstate_ok] in *; try (split; reflexivity). lia. }
  destruct P2 as [P2 F2]. rewrite F2 in Hrest.
  assert (P1 : pending st1 buf1 = []).
  { destruct st1 as [| | |n]; try reflexivity. specialize (Hr1 eq_refl n eq_refl).
    cbn [flush] in Hrest. replace (len buf1 <? n) with true in Hrest by lia. injection Hrest as <- _.
    cbn [owed_of dstate_ok] in *. lia. }
  rewrite P1, P2, !app_nil_r in HE. now rewrite HE.
Qed.

(* The plain statement "normalise (chunked) = normalise (at once)" is false when the stream ends inside a
   payload: with min_chunk = 0 the payload state waits for the whole rest, while the header state hands
   over whatever is there.  10-byte payload, reads of (header + 2 bytes) and 3 bytes: *)
Lemma v3_frag_independent_refuted :
  let chunks := [[48; 13; 0; 1; 116; 1; 2]; [3; 4; 5]] in
  normalise (items (feeds 0 0 FrameHeader [] chunks))
    = [NPublish (mkPublish false false AtMostOnce [116] None 10) [1; 2] 13] /\
  normalise (items (feed 0 0 FrameHeader [] (concat chunks)))
    = [NPublish (mkPublish false false AtMostOnce [116] None 10) [1; 2; 3; 4; 5] 13].
Proof. split; vm_compute; reflexivity. Qed.
