(* Proofs/WireV3.v -- C08 for the v3 codec model: instance of Proofs/Wire.v. *)
From Coq Require Import ZArith ZifyN ZifyBool Lia.
From MV Require Import Base.Prelude Base.Res Base.VarInt Model.CodecV3 Proofs.CodecV3Lib Proofs.CodecV3Enc Proofs.Wire.

Section V3.
  Variable max_size : N.

  Definition step3 (ep : option N) (it : encoded) : option N * bytes * bool :=
    match encodev max_size ep it [] with
    | (w, ep', Ok _) => (ep', w, true)
    | (w, ep', _) => (ep', w, false)
    end.
  Definition kind3 (it : encoded) : ikind :=
    match it with EPacket _ => KPacket | EPublish _ _ => KPublish | EChunk _ => KChunk end.
  (* what the Rust types can hold: payload_size is a u32, a chunk is shorter than 4 GiB *)
  Definition valid3 (it : encoded) : bool :=
    match it with
    | EPacket _ => true
    | EPublish p _ => p_payload_size p <=? U32MAX
    | EChunk c => len c <=? U32MAX
    end.
  Definition inv3 (ep : option N) : Prop := owed ep <= U32MAX.

  Lemma step3_cases ep it :
    (exists w ep', encodev max_size ep it [] = (w, ep', Ok tt) /\ step3 ep it = (ep', w, true)) \/
    (exists w ep' e, encodev max_size ep it [] = (w, ep', Err e) /\ step3 ep it = (ep', w, false)) \/
    (exists w ep' s, encodev max_size ep it [] = (w, ep', Panic s) /\ step3 ep it = (ep', w, false)).
  Proof.
    unfold step3. destruct (encodev max_size ep it []) as [[w ep'] [[]|e|s]]; eauto 10.
  Qed.

  Lemma valid3_total ep it : valid3 it = true -> np (snd (encodev max_size ep it [])).
  Proof.
    intros Hv. apply v3_encode_total. destruct it as [p|p buf|c]; cbn [valid3] in Hv; auto. lia.
  Qed.

  Lemma Hfail3 : forall s i s' w, valid3 i = true -> inv3 s -> step3 s i = (s', w, false) ->
    w = [] /\ owed s' = owed s.
  Proof.
    intros s i s' w Hv _ H. destruct (step3_cases s i) as [(w0 & e0 & _ & E)|[(w0 & e0 & e & E1 & E)|(w0 & e0 & p & E1 & E)]];
      rewrite E in H; inversion H; subst.
    - apply v3_fail_appends_nothing in E1 as [-> ->]. auto.
    - pose proof (valid3_total s i Hv) as T. rewrite E1 in T. cbn in T. contradiction.
  Qed.

  Lemma Hpkt3 : forall s i s' w, valid3 i = true -> inv3 s -> kind3 i = KPacket -> step3 s i = (s', w, true) ->
    owed s = 0 /\ owed s' = 0 /\ complete w.
  Proof.
    intros s i s' w _ _ K H. destruct i as [p| |]; try discriminate.
    destruct (step3_cases s (EPacket p)) as [(w0 & e0 & E1 & E)|[(w0 & e0 & e & _ & E)|(w0 & e0 & q & _ & E)]];
      rewrite E in H; inversion H; subst.
    apply v3_size_agrees_packet in E1 as (vi & Hvi & -> & Hl & -> & -> & _).
    cbn [owed app]. repeat split; auto. exists (packet_type_of p), (get_encoded_size p), vi, (body p). auto.
  Qed.

  Lemma Hpub3 : forall s i s' w, valid3 i = true -> inv3 s -> kind3 i = KPublish -> step3 s i = (s', w, true) ->
    open_frame w (owed s').
  Proof.
    intros s i s' w Hv _ K H. destruct i as [|p buf|]; try discriminate. cbn [valid3] in Hv.
    destruct (step3_cases s (EPublish p buf)) as [(w0 & e0 & E1 & E)|[(w0 & e0 & e & _ & E)|(w0 & e0 & q & _ & E)]];
      rewrite E in H; inversion H; subst.
    apply v3_size_agrees_publish in E1; [|lia]. cbv zeta in E1. destruct E1 as (vi & Hvi & -> & Hl & _).
    cbn [app]. eexists _, _, vi, _. split; [exact Hvi|]. split; [reflexivity|exact Hl].
  Qed.

  Lemma Hchunk3 : forall s i s' w, valid3 i = true -> inv3 s -> kind3 i = KChunk -> step3 s i = (s', w, true) ->
    len w <= owed s /\ owed s' = owed s - len w.
  Proof.
    intros s i s' w Hv Hi K H. destruct i as [| |c]; try discriminate. cbn [valid3] in Hv. unfold inv3 in Hi.
    destruct (step3_cases s (EChunk c)) as [(w0 & e0 & E1 & E)|[(w0 & e0 & e & _ & E)|(w0 & e0 & q & _ & E)]];
      rewrite E in H; inversion H; subst.
    destruct s as [n|].
    - cbn [owed] in *. destruct (N.ltb_spec n (len c)) as [Hlt|Hge].
      + destruct (v3_no_interleave max_size n []) as (_ & Hlong & _).
        rewrite (Hlong c) in E1 by lia. discriminate.
      + destruct (v3_no_interleave max_size n []) as (_ & _ & Hok).
        rewrite (Hok c) in E1 by lia. inversion E1; subst. cbn [app]. split; [lia|].
        match goal with |- owed (if ?b then _ else _) = _ => destruct b eqn:Ez end; cbn [owed]; lia.
    - rewrite v3_chunk_unexpected in E1. discriminate.
  Qed.

  Lemma Hinv3 : forall s i, valid3 i = true -> inv3 s -> inv3 (fst (fst (step3 s i))).
  Proof.
    intros s i Hv Hi. unfold inv3 in *.
    destruct (step3 s i) as [[s' w] ok] eqn:E. cbn [fst]. destruct ok.
    - destruct (kind3 i) eqn:K.
      + destruct (Hpkt3 _ _ _ _ Hv Hi K E) as (_ & -> & _). unfold U32MAX. lia.
      + destruct i as [|p buf|]; try discriminate. cbn [valid3] in Hv.
        destruct (step3_cases s (EPublish p buf)) as [(w0 & e0 & E1 & E2)|[(w0 & e0 & e & _ & E2)|(w0 & e0 & q & _ & E2)]];
          rewrite E2 in E; inversion E; subst.
        apply v3_size_agrees_publish in E1; [|lia]. cbv zeta in E1. destruct E1 as (vi & _ & _ & _ & Hs & _). lia.
      + destruct (Hchunk3 _ _ _ _ Hv Hi K E) as (_ & ->). lia.
    - destruct (Hfail3 _ _ _ _ Hv Hi E) as (_ & ->). exact Hi.
  Qed.

  (* C08, v3: any sequence of encoder operations, starting with nothing owed, in which a publish is only issued
     when nothing is owed (the sink's check_streaming), leaves a concatenation of complete frames plus at most
     one open frame missing exactly the payload bytes still owed *)
  Theorem v3_wire_is_frames : forall ops,
    guard (option N) encoded step3 owed kind3 valid3 None ops = true ->
    well_formed_wire (snd (run (option N) encoded step3 None [] ops))
                     (owed (fst (run (option N) encoded step3 None [] ops))).
  Proof.
    intros ops Hg.
    apply (run_wire (option N) encoded step3 owed kind3 valid3 inv3 Hinv3 Hfail3 Hpkt3 Hpub3 Hchunk3);
      [unfold inv3; cbn; unfold U32MAX; lia|cbn [owed]; apply wf_nil|exact Hg].
  Qed.

  Theorem v3_wire_complete_packets : forall ops,
    guard (option N) encoded step3 owed kind3 valid3 None ops = true ->
    fst (run (option N) encoded step3 None [] ops) = None ->
    exists fs, snd (run (option N) encoded step3 None [] ops) = concat fs /\ Forall complete fs.
  Proof.
    intros ops Hg Hend. apply wf_zero_frames.
    pose proof (v3_wire_is_frames ops Hg) as H. rewrite Hend in H. exact H.
  Qed.

  (* a failed operation leaves nothing behind; a packet is refused while a payload is owed *)
  Theorem v3_wire_failed_leaves_nothing : forall ep it ep' w,
    valid3 it = true -> owed ep <= U32MAX -> step3 ep it = (ep', w, false) -> w = [] /\ owed ep' = owed ep.
  Proof. intros. eapply Hfail3; eauto. Qed.
End V3.
