(* Proofs/CodecV5Succ.v -- inside its encoding domain a packet whose content fits is encoded successfully
   (so the round-trip and layout theorems are not vacuous). *)
From Coq Require Import ZArith ZifyN ZifyBool Lia.
From MV Require Import Base.Prelude Base.Res Base.VarInt Base.Utf8 Model.CodecV5
  Proofs.VarIntProofs Proofs.CodecV5Fields Proofs.CodecV5Size Proofs.CodecV5Limit Proofs.CodecV5Props
  Proofs.CodecV5Round Proofs.CodecV5Round2.
Ltac Zify.zify_post_hook ::= Z.div_mod_to_equations.

Definition wsucc (w : wr) : Prop := exists bs, w = (bs, Ok tt).

Lemma wsucc_seq a k : wsucc a -> (forall x, a = (x, Ok tt) -> wsucc (k x)) -> wsucc (wseq a k).
Proof.
  intros [x Ha] Hk. destruct (Hk x Ha) as [y Hy]. exists (x ++ y). now apply wseq_ok.
Qed.
Lemma wsucc_then a b : wsucc a -> wsucc b -> wsucc (a >>> b).
Proof. intros. apply wsucc_seq; auto. Qed.
Lemma wsucc_put b : wsucc (wput b). Proof. now exists b. Qed.
Lemma wsucc_nop : wsucc wnop. Proof. now exists []. Qed.
Lemma wsucc_let {A} (r : res A) k v : r = Ok v -> wsucc (k v) -> wsucc (wlet r k).
Proof. intros -> H. exact H. Qed.
Lemma wsucc_bytes b : len b <= 65535 -> wsucc (w_bytes b).
Proof. intros H. eexists. apply w_bytes_ok. unfold U16MAX. lia. Qed.
Lemma wsucc_vi n : n <= VI_MAX -> wsucc (w_vi n).
Proof. intros H. destruct (enc_vi_some n H) as [b E]. exists b. now apply w_vi_ok. Qed.

Lemma str_ok_len b : str_ok b = true -> len b <= 65535.
Proof. unfold str_ok. intros H. apply andb_true_iff in H as [H _]. lia. Qed.
Lemma bin_ok_len b : bin_ok b = true -> len b <= 65535.
Proof. unfold bin_ok. lia. Qed.

Lemma wsucc_uprop p : uprop_ok p = true -> wsucc (w_uprop p).
Proof.
  unfold uprop_ok. intros H. apply andb_true_iff in H as [H1 H2].
  apply wsucc_then; apply wsucc_bytes; now apply str_ok_len.
Qed.
Lemma wsucc_uprops l : uprops_ok l = true -> wsucc (w_uprops l).
Proof.
  induction l as [|p r IH]; cbn [w_uprops uprops_ok forallb]; [intros; apply wsucc_nop|]. intros H.
  apply andb_true_iff in H as [H1 H2]. apply wsucc_then; [apply wsucc_put|].
  apply wsucc_then; [now apply wsucc_uprop|now apply IH].
Qed.
Lemma wsucc_prop {A} (enc : A -> wr) o pt : (forall x, o = Some x -> wsucc (enc x)) -> wsucc (w_prop enc o pt).
Proof. intros H. destruct o; cbn [w_prop]; [|apply wsucc_nop]. apply wsucc_then; [apply wsucc_put|auto]. Qed.
Lemma wsucc_prop_default {A} (enc : A -> wr) d v pt : wsucc (enc v) -> wsucc (w_prop_default enc d v pt).
Proof. intros H. unfold w_prop_default. destruct d; [apply wsucc_nop|]. apply wsucc_then; [apply wsucc_put|auto]. Qed.
Lemma wsucc_prop_bytes o pt f : opt_ok f o = true -> (forall b, f b = true -> len b <= 65535) ->
  wsucc (w_prop w_bytes o pt).
Proof. intros H Hf. apply wsucc_prop. intros x ->. apply wsucc_bytes. now apply Hf. Qed.
Lemma wsucc_sub_id id : subid_ok id = true -> wsucc (w_sub_id id).
Proof.
  unfold subid_ok, w_sub_id. intros H. replace (MAX_PACKET_SIZE <? id) with false
    by (unfold MAX_PACKET_SIZE, VI_MAX in *; lia).
  apply wsucc_then; [apply wsucc_put|apply wsucc_vi; lia].
Qed.
Lemma wsucc_sub_ids l : forallb subid_ok l = true -> wsucc (w_sub_ids l).
Proof.
  induction l as [|p r IH]; cbn [w_sub_ids forallb]; [intros; apply wsucc_nop|]. intros H.
  apply andb_true_iff in H as [H1 H2]. apply wsucc_then; [now apply wsucc_sub_id|now apply IH].
Qed.

Lemma wsucc_eop ups reason size :
  uprops_ok ups = true -> opt_ok str_ok reason = true -> wsucc (encode_opt_props ups reason size).
Proof.
  revert size. induction ups as [|p r IH]; intros size Hu Hr; cbn [encode_opt_props].
  - destruct reason as [s|]; [|apply wsucc_nop]. destruct (len s <? size); [|apply wsucc_nop].
    apply wsucc_then; [apply wsucc_put|apply wsucc_bytes; now apply str_ok_len].
  - cbn [uprops_ok forallb] in Hu. apply andb_true_iff in Hu as [H1 H2].
    destruct (size <? _); [apply wsucc_nop|]. apply wsucc_then; [apply wsucc_put|].
    apply wsucc_then; [now apply wsucc_uprop|now apply IH].
Qed.

Lemma wsucc_ack_props ups reason lim : lim <= VI_MAX ->
  uprops_ok ups = true -> opt_ok str_ok reason = true ->
  wsucc (ack_props_encode ups reason (ack_props_encoded_size ups reason lim)).
Proof.
  intros Hl Hu Hr. unfold ack_props_encoded_size, ack_props_encode.
  destruct (lim <? 4) eqn:E4. { cbn. apply wsucc_put. }
  set (l := encoded_size_opt_props ups reason (lim - 4)).
  assert (Hle : l <= lim - 4) by apply esop_le. pose proof (var_int_len_pos l) as Hv.
  replace (var_int_len l + l =? 0) with false by lia.
  destruct (var_int_len l + l =? 1) eqn:E1; [apply wsucc_put|].
  rewrite varlen_inverse' by lia. cbn [wlet].
  apply wsucc_then; [apply wsucc_vi; lia|now apply wsucc_eop].
Qed.

(* ------------------------------------------------------------------ per kind *)
Lemma publish_ack_succ a lim : lim <= VI_MAX -> publish_ack_ok a = true ->
  wsucc (publish_ack_encode a (publish_ack_encoded_size a lim)).
Proof.
  intros Hl Hok. unfold publish_ack_ok in Hok.
  apply andb_true_iff in Hok as [Hok Hrs]. apply andb_true_iff in Hok as [Hok Hup].
  unfold publish_ack_encode, publish_ack_encoded_size.
  set (S := ack_props_encoded_size _ _ _). rewrite sub_chk_ok by lia. cbn [wlet].
  replace (3 + S - 3) with S by lia.
  apply wsucc_then; [apply wsucc_put|]. apply wsucc_then; [apply wsucc_put|].
  pose proof (reduce_limit_le lim (3 + 4)). apply wsucc_ack_props; [lia|assumption|assumption].
Qed.
Lemma publish_ack2_succ a lim : lim <= VI_MAX -> publish_ack2_ok a = true ->
  wsucc (publish_ack2_encode a (publish_ack2_encoded_size a lim)).
Proof.
  intros Hl Hok. unfold publish_ack2_ok in Hok.
  apply andb_true_iff in Hok as [Hok Hrs]. apply andb_true_iff in Hok as [Hok Hup].
  unfold publish_ack2_encode, publish_ack2_encoded_size.
  set (S := ack_props_encoded_size _ _ _). rewrite sub_chk_ok by lia. cbn [wlet].
  replace (3 + S - 3) with S by lia.
  apply wsucc_then; [apply wsucc_put|]. apply wsucc_then; [apply wsucc_put|].
  pose proof (reduce_limit_le lim (3 + 4)). apply wsucc_ack_props; [lia|assumption|assumption].
Qed.
Lemma subscribe_ack_succ a lim : lim <= VI_MAX -> subscribe_ack_encoded_size a lim <= lim ->
  subscribe_ack_ok a = true -> wsucc (subscribe_ack_encode a (subscribe_ack_encoded_size a lim)).
Proof.
  intros Hl Hs Hok. unfold subscribe_ack_ok in Hok.
  apply andb_true_iff in Hok as [Hok Hrs]. apply andb_true_iff in Hok as [Hok Hup].
  unfold subscribe_ack_encode, subscribe_ack_encoded_size in *.
  destruct (U32MAX - 2 <? len (sa_status a)) eqn:E. { unfold USIZE_MAX, U64MAX, VI_MAX in *. lia. }
  set (S := ack_props_encoded_size _ _ _) in *.
  rewrite sub_chk_ok by lia. cbn [wlet]. rewrite mod32_small by lia. rewrite sub_chk_ok by lia. cbn [wlet].
  replace (2 + S + len (sa_status a) - 2 - len (sa_status a)) with S by lia.
  apply wsucc_then; [apply wsucc_put|]. apply wsucc_then; [|apply wsucc_put].
  pose proof (reduce_limit_le lim (2 + len (sa_status a))). apply wsucc_ack_props; [lia|assumption|assumption].
Qed.
Lemma unsubscribe_ack_succ a lim : lim <= VI_MAX -> unsubscribe_ack_encoded_size a lim <= lim ->
  unsubscribe_ack_ok a = true -> wsucc (unsubscribe_ack_encode a (unsubscribe_ack_encoded_size a lim)).
Proof.
  intros Hl Hs Hok. unfold unsubscribe_ack_ok in Hok.
  apply andb_true_iff in Hok as [Hok Hrs]. apply andb_true_iff in Hok as [Hok Hup].
  unfold unsubscribe_ack_encode, unsubscribe_ack_encoded_size in *.
  set (S := ack_props_encoded_size _ _ _) in *.
  rewrite sub_chk_ok by lia. cbn [wlet]. rewrite mod32_small by lia. rewrite sub_chk_ok by lia. cbn [wlet].
  replace (2 + len (ua_status a) + S - 2 - len (ua_status a)) with S by lia.
  apply wsucc_then; [apply wsucc_put|]. apply wsucc_then; [|apply wsucc_put].
  pose proof (reduce_limit_le lim (2 + len (ua_status a))). apply wsucc_ack_props; [lia|assumption|assumption].
Qed.

Ltac wsucc_struct :=
  lazymatch goal with
  | |- wsucc (wseq _ (fun _ => _)) => apply wsucc_then; [wsucc_struct | wsucc_struct]
  | |- wsucc (w_u8 _) => apply wsucc_put
  | |- wsucc (w_bool _) => apply wsucc_put
  | |- wsucc (w_u16 _) => apply wsucc_put
  | |- wsucc (w_u32 _) => apply wsucc_put
  | |- wsucc (wput _) => apply wsucc_put
  | |- wsucc wnop => apply wsucc_nop
  | |- wsucc (w_prop w_u16 _ _) => apply wsucc_prop; intros; apply wsucc_put
  | |- wsucc (w_prop w_u32 _ _) => apply wsucc_prop; intros; apply wsucc_put
  | |- wsucc (w_prop w_bool _ _) => apply wsucc_prop; intros; apply wsucc_put
  | |- wsucc (w_prop_default w_u16 _ _ _) => apply wsucc_prop_default; apply wsucc_put
  | |- wsucc (w_prop_default w_u32 _ _ _) => apply wsucc_prop_default; apply wsucc_put
  | |- wsucc (w_prop_default w_bool _ _ _) => apply wsucc_prop_default; apply wsucc_put
  | |- wsucc (if _ then wput _ else wnop) => (match goal with |- wsucc (if ?c then _ else _) => destruct c end);
                                              [apply wsucc_put|apply wsucc_nop]
  | |- _ => idtac
  end.

Ltac bytes_side :=
  match goal with
  | H : opt_ok str_ok ?o = true |- wsucc (w_prop w_bytes ?o _) => exact (wsucc_prop_bytes o _ str_ok H str_ok_len)
  | H : opt_ok bin_ok ?o = true |- wsucc (w_prop w_bytes ?o _) => exact (wsucc_prop_bytes o _ bin_ok H bin_ok_len)
  | H : uprops_ok ?l = true |- wsucc (w_uprops ?l) => exact (wsucc_uprops l H)
  end.

Section DiagSucc.
  Variables (head fixed : wr) (h pl1 lim' : N) (ups : uprops) (reason : option bytes).
  Hypothesis Hhead : wlen head h.
  Hypothesis Hfixed : wlen fixed pl1.
  Hypothesis Shead : wsucc head.
  Hypothesis Sfixed : wsucc fixed.
  Hypothesis Hu : uprops_ok ups = true.
  Hypothesis Hr : opt_ok str_ok reason = true.
  Let D := encoded_size_opt_props ups reason lim'.
  Let PL := pl1 + D.
  Let size := h + var_int_len PL + PL.
  Lemma diag_succ : size <= VI_MAX -> wsucc (diag_encode head fixed h ups reason size).
  Proof.
    intros Hs. unfold diag_encode.
    pose proof (eq_refl : PL = pl1 + D) as HPL. pose proof (eq_refl : size = h + var_int_len PL + PL) as Hsz.
    pose proof (var_int_len_pos PL).
    assert (E1 : sub_chk size h = Ok (var_int_len PL + PL)).
    { rewrite sub_chk_ok by lia. f_equal. lia. }
    rewrite E1. cbn [wlet]. rewrite varlen_inverse' by lia. cbn [wlet].
    apply wsucc_seq.
    - apply wsucc_then; [assumption|]. apply wsucc_then; [apply wsucc_vi; lia|assumption].
    - intros x Hx.
      assert (Hlx : len x = h + (var_int_len PL + pl1)).
      { revert x Hx. change (wlen (head >>> w_vi PL >>> fixed) (h + (var_int_len PL + pl1))). wlen_tac. }
      rewrite Hlx. rewrite mod32_small by lia. rewrite sub_chk_ok by lia. cbn [wlet].
      now apply wsucc_eop.
  Qed.
End DiagSucc.

Lemma disconnect_succ d lim : disconnect_encoded_size d lim <= VI_MAX -> disconnect_ok d = true ->
  wsucc (disconnect_encode d (disconnect_encoded_size d lim)).
Proof.
  intros Hs Hok. unfold disconnect_ok in Hok.
  apply andb_true_iff in Hok as [Hok Hrs]. apply andb_true_iff in Hok as [Hok Hup].
  apply andb_true_iff in Hok as [Hok Hsr]. apply andb_true_iff in Hok as [Hrc Hse].
  rewrite disconnect_is_diag. unfold disconnect_encoded_size in *.
  eapply diag_succ; [apply wlen_u8|wlen_tac|apply wsucc_put| |assumption|assumption|exact Hs].
  wsucc_struct. bytes_side.
Qed.
Lemma auth_succ a lim : auth_encoded_size a lim <= VI_MAX -> auth_ok a = true ->
  wsucc (auth_encode a (auth_encoded_size a lim)).
Proof.
  intros Hs Hok. unfold auth_ok in Hok.
  apply andb_true_iff in Hok as [Hok Hrs]. apply andb_true_iff in Hok as [Hok Hup].
  apply andb_true_iff in Hok as [Hok Had]. apply andb_true_iff in Hok as [Hrc Ham].
  rewrite auth_is_diag. unfold auth_encoded_size in *.
  eapply diag_succ; [apply wlen_u8|wlen_tac|apply wsucc_put| |assumption|assumption|exact Hs].
  wsucc_struct; bytes_side.
Qed.
Lemma connect_ack_succ a lim : connect_ack_encoded_size a lim <= VI_MAX -> connect_ack_ok a = true ->
  wsucc (connect_ack_encode a (connect_ack_encoded_size a lim)).
Proof.
  intros Hs Hok. unfold connect_ack_ok in Hok.
  repeat match type of Hok with (_ && _ = true) =>
    let H' := fresh "Hk" in apply andb_true_iff in Hok as [Hok H'] end.
  rewrite connect_ack_is_diag. rewrite connect_ack_size_eq in *. cbv zeta in *.
  eapply diag_succ; [apply wlen_put|apply connect_ack_fixed_wlen|apply wsucc_put| |assumption|assumption|exact Hs].
  unfold connect_ack_fixed. wsucc_struct; bytes_side.
Qed.

Lemma wsucc_sub_filters l : forallb sub_filter_ok l = true -> wsucc (w_sub_filters l).
Proof.
  induction l as [|[f o] r IH]; cbn [w_sub_filters forallb]; [intros; apply wsucc_nop|]. intros H.
  apply andb_true_iff in H as [H1 H2]. unfold sub_filter_ok in H1. cbn [fst] in H1.
  apply andb_true_iff in H1 as [Hs _].
  apply wsucc_then; [apply wsucc_bytes; now apply str_ok_len|]. apply wsucc_then; [apply wsucc_put|auto].
Qed.
Lemma wsucc_unsub_filters l : forallb str_ok l = true -> wsucc (w_unsub_filters l).
Proof.
  induction l as [|f r IH]; cbn [w_unsub_filters forallb]; [intros; apply wsucc_nop|]. intros H.
  apply andb_true_iff in H as [H1 H2]. apply wsucc_then; [apply wsucc_bytes; now apply str_ok_len|auto].
Qed.

Lemma subscribe_succ s lim sz : subscribe_encoded_size s lim <= VI_MAX -> subscribe_ok s = true ->
  wsucc (subscribe_encode s sz).
Proof.
  intros Hs Hok. unfold subscribe_ok in Hok.
  apply andb_true_iff in Hok as [Hok Hfl]. apply andb_true_iff in Hok as [Hok Hup].
  apply andb_true_iff in Hok as [Hid Hsi].
  unfold subscribe_encode, subscribe_encoded_size in *. set (PL := subscribe_prop_len s) in *.
  rewrite mod32_small by lia.
  apply wsucc_then; [apply wsucc_put|]. apply wsucc_then; [apply wsucc_vi; lia|].
  apply wsucc_then; [destruct (s_id s); [now apply wsucc_sub_id|apply wsucc_nop]|].
  apply wsucc_then; [now apply wsucc_uprops|now apply wsucc_sub_filters].
Qed.
Lemma unsubscribe_succ u lim sz : unsubscribe_encoded_size u lim <= VI_MAX -> unsubscribe_ok u = true ->
  wsucc (unsubscribe_encode u sz).
Proof.
  intros Hs Hok. unfold unsubscribe_ok in Hok.
  apply andb_true_iff in Hok as [Hok Hfl]. apply andb_true_iff in Hok as [Hid Hup].
  unfold unsubscribe_encode, unsubscribe_encoded_size in *. rewrite mod32_small by lia.
  apply wsucc_then; [apply wsucc_put|]. apply wsucc_then; [apply wsucc_vi; lia|].
  apply wsucc_then; [now apply wsucc_uprops|now apply wsucc_unsub_filters].
Qed.

Lemma will_succ w : will_properties_len w <= VI_MAX -> will_ok w = true -> wsucc (will_encode w).
Proof.
  intros Hs Hok. unfold will_ok in Hok.
  repeat match type of Hok with (_ && _ = true) =>
    let H' := fresh "Hk" in apply andb_true_iff in Hok as [Hok H'] end.
  unfold will_encode, will_props. rewrite mod32_small by assumption.
  apply wsucc_then; [apply wsucc_vi; assumption|].
  apply wsucc_then; [wsucc_struct; bytes_side|].
  apply wsucc_then; apply wsucc_bytes; [now apply str_ok_len|now apply bin_ok_len].
Qed.

Lemma connect_succ c lim sz : connect_encoded_size c lim <= VI_MAX -> connect_ok c = true ->
  wsucc (connect_encode c sz).
Proof.
  intros Hs Hok. rewrite connect_encode_eq.
  assert (Hcpl : connect_properties_len c <= VI_MAX) by (unfold connect_encoded_size in Hs; lia).
  assert (Hwpl : forall w, c_last_will c = Some w -> will_properties_len w <= VI_MAX).
  { intros w E. unfold connect_encoded_size in Hs. rewrite E in Hs. lia. }
  unfold connect_ok in Hok.
  repeat match type of Hok with (_ && _ = true) =>
    let H' := fresh "Hk" in apply andb_true_iff in Hok as [Hok H'] end.
  rewrite mod32_small by assumption.
  apply wsucc_then; [apply wsucc_bytes; change (len MQTT) with 4; lia|]. apply wsucc_then; [apply wsucc_put|].
  apply wsucc_then; [apply wsucc_put|]. apply wsucc_then; [apply wsucc_vi; assumption|].
  apply wsucc_then; [unfold connect_props; wsucc_struct; bytes_side|].
  apply wsucc_then; [apply wsucc_bytes; now apply str_ok_len|].
  apply wsucc_then.
  { destruct (c_last_will c) as [w|]; [|apply wsucc_nop]. apply will_succ; auto. }
  apply wsucc_then.
  - destruct (c_username c); [|apply wsucc_nop]. apply wsucc_bytes. now apply str_ok_len.
  - destruct (c_password c); [|apply wsucc_nop]. apply wsucc_bytes. now apply bin_ok_len.
Qed.

(* encoding domain, as a boolean *)
Definition enc_ok (p : packet) : bool :=
  match p with
  | Connect k => connect_ok k
  | Subscribe s => subscribe_ok s
  | Unsubscribe u => unsubscribe_ok u
  | PingRequest | PingResponse => true
  | _ => diag_packet_ok p
  end.

Lemma body_succ p L : L <= VI_MAX -> packet_encoded_size p L <= L -> enc_ok p = true ->
  wsucc (body_encode p (packet_encoded_size p L)).
Proof.
  intros HL Hs Hok. destruct p; cbn [enc_ok diag_packet_ok body_encode packet_encoded_size] in *.
  - apply (connect_succ c L); [lia|assumption].
  - apply connect_ack_succ; [lia|assumption].
  - now apply publish_ack_succ.
  - now apply publish_ack_succ.
  - now apply publish_ack2_succ.
  - now apply publish_ack2_succ.
  - apply (subscribe_succ s L); [lia|assumption].
  - now apply subscribe_ack_succ.
  - apply (unsubscribe_succ u L); [lia|assumption].
  - now apply unsubscribe_ack_succ.
  - apply wsucc_nop.
  - apply wsucc_nop.
  - apply disconnect_succ; [lia|assumption].
  - apply auth_succ; [lia|assumption].
Qed.

Lemma enc_ok_strip p : enc_ok p = true -> enc_ok (strip_packet p) = true.
Proof.
  destruct p; cbn [enc_ok strip_packet strip_problem_info]; try (intros H; exact H).
  1-4,6,8,9: intros H; apply (strip_diag _ H).
  - unfold subscribe_ok. cbn. intros H. repeat (apply andb_true_iff in H as [H ?]).
    repeat (apply andb_true_iff; split); auto.
  - unfold unsubscribe_ok. cbn. intros H. repeat (apply andb_true_iff in H as [H ?]).
    repeat (apply andb_true_iff; split); auto.
Qed.

(* C01/C09: in the encoding domain, with no payload pending, a packet whose content is within the size
   limit and whose frame is within the peer's maximum IS encoded *)
Theorem v5_encode_succeeds c p :
  ec_encoding_payload c = None -> enc_ok p = true ->
  let q := effective c p in
  let sz := packet_encoded_size q (max_size_of c) in
  sz <= max_size_of c -> check_frame_size c sz = Ok tt ->
  exists w, encodev c (EPacket p) = ((w, Ok tt), c).
Proof.
  intros Hp Hok q sz Hs Hc. unfold encodev. rewrite encode_item_packet, Hp. cbv zeta. fold q. fold sz.
  replace (max_size_of c <? sz) with false by lia. rewrite Hc. cbn [wlet].
  pose proof (max_size_le c) as HL.
  assert (Hokq : enc_ok q = true).
  { unfold q, effective. destruct (ec_no_problem_info c); [now apply enc_ok_strip|assumption]. }
  rewrite packet_encode_frame. 2:{ pose proof (ping_size q (max_size_of c)). destruct q; auto. }
  assert (S : wsucc (w_u8 (first_byte q) >>> w_vi sz >>> body_encode q sz)).
  { apply wsucc_then; [apply wsucc_put|]. apply wsucc_then; [apply wsucc_vi; lia|].
    apply body_succ; assumption. }
  destruct S as [w ->]. now exists w.
Qed.
