(* Proofs/CodecV3Lib.v -- field-level lemmas for the v3 codec model: lengths, u16 / string codecs,
   writer monad, non-panic predicate, inversion lemmas of the primitive decoders. *)
From Coq Require Import ZArith ZifyN ZifyBool Lia.
From MV Require Import Base.Prelude Base.Res Base.VarInt Base.Utf8 Proofs.VarIntProofs Model.CodecV3.
Ltac Zify.zify_post_hook ::= Z.div_mod_to_equations.

(* ------------------------------------------------------------------ len *)
Lemma len_nil : len [] = 0.
Proof. reflexivity. Qed.
Lemma len_cons a (s : bytes) : len (a :: s) = 1 + len s.
Proof. unfold len. cbn [length]. lia. Qed.
Lemma len_app (a b : bytes) : len (a ++ b) = len a + len b.
Proof. unfold len. rewrite app_length. lia. Qed.
Lemma len_length (s : bytes) : N.to_nat (len s) = length s.
Proof. unfold len. lia. Qed.
Lemma len_firstn n (s : bytes) : len (firstn (N.to_nat n) s) = N.min n (len s).
Proof. unfold len. rewrite firstn_length. lia. Qed.
Lemma len_skipn n (s : bytes) : len (skipn (N.to_nat n) s) = len s - n.
Proof. unfold len. rewrite skipn_length. lia. Qed.
Lemma len_map {A} (f : A -> N) l : len (map f l) = N.of_nat (length l).
Proof. unfold len. now rewrite map_length. Qed.
Lemma len_repeat (a : N) k : len (repeat a k) = N.of_nat k.
Proof. unfold len. now rewrite repeat_length. Qed.
Lemma len_0 (s : bytes) : len s = 0 -> s = [].
Proof. destruct s; [reflexivity|]. rewrite len_cons. lia. Qed.

Global Opaque len.
#[export] Hint Rewrite len_nil len_cons len_app len_firstn len_skipn : len.
Ltac lens := autorewrite with len in *.

Lemma firstn_len_app (a b : bytes) : firstn (N.to_nat (len a)) (a ++ b) = a.
Proof.
  rewrite len_length. rewrite firstn_app, Nat.sub_diag, firstn_all. cbn [firstn]. apply app_nil_r.
Qed.
Lemma skipn_len_app (a b : bytes) : skipn (N.to_nat (len a)) (a ++ b) = b.
Proof.
  rewrite len_length. rewrite skipn_app, Nat.sub_diag, skipn_all. reflexivity.
Qed.
Lemma split_at_app (a b : bytes) : split_at (len a) (a ++ b) = (a, b).
Proof. unfold split_at. now rewrite firstn_len_app, skipn_len_app. Qed.
Lemma split_at_app' n (a b : bytes) : n = len a -> split_at n (a ++ b) = (a, b).
Proof. intros ->. apply split_at_app. Qed.
Lemma split_at_eq n (s : bytes) : s = fst (split_at n s) ++ snd (split_at n s).
Proof. unfold split_at. cbn [fst snd]. now rewrite firstn_skipn. Qed.

Lemma bytes_ok_app a b : bytes_ok (a ++ b) = bytes_ok a && bytes_ok b.
Proof. unfold bytes_ok. apply forallb_app. Qed.
Lemma bytes_ok_cons a b : bytes_ok (a :: b) = byte_ok a && bytes_ok b.
Proof. reflexivity. Qed.
Lemma bytes_ok_firstn n s : bytes_ok s = true -> bytes_ok (firstn n s) = true.
Proof.
  intros H. rewrite <- (firstn_skipn n s) in H. rewrite bytes_ok_app in H.
  now apply andb_true_iff in H.
Qed.
Lemma bytes_ok_skipn n s : bytes_ok s = true -> bytes_ok (skipn n s) = true.
Proof.
  intros H. rewrite <- (firstn_skipn n s) in H. rewrite bytes_ok_app in H.
  now apply andb_true_iff in H.
Qed.

(* ------------------------------------------------------------------ res: non-panic predicate *)
Definition np {A} (r : res A) : Prop := match r with Panic _ => False | _ => True end.

Lemma np_bind {A B} (r : res A) (f : A -> res B) :
  np r -> (forall a, r = Ok a -> np (f a)) -> np (bind r f).
Proof. destruct r; cbn; auto. Qed.
Lemma np_ensure c e : np (ensure c e).
Proof. destruct c; exact I. Qed.
Lemma np_ok {A} (a : A) : np (Ok a).
Proof. exact I. Qed.
Lemma np_err {A} e : np (@Err A e).
Proof. exact I. Qed.

Lemma bind_ok {A B} (r : res A) (f : A -> res B) b :
  bind r f = Ok b -> exists a, r = Ok a /\ f a = Ok b.
Proof. destruct r; cbn; intros H; try discriminate. eauto. Qed.
Lemma ensure_ok c e u : ensure c e = Ok u -> c = true.
Proof. destruct c; [reflexivity|discriminate]. Qed.

Lemma sub_chk_ok a b : b <= a -> sub_chk a b = Ok (a - b).
Proof. intros H. unfold sub_chk. replace (b <=? a) with true by lia. reflexivity. Qed.

(* ------------------------------------------------------------------ u16 *)
Lemma u16_val v : v <= U16MAX -> (v / 256) * 256 + v mod 256 = v.
Proof. intros _. lia. Qed.

Lemma get_u16_u16be v r : get_u16 (u16be v ++ r) = Ok (v, r).
Proof. unfold u16be, get_u16. cbn [app]. f_equal. f_equal. lia. Qed.

Lemma len_u16be v : len (u16be v) = 2.
Proof. reflexivity. Qed.
#[export] Hint Rewrite len_u16be : len.

Lemma dec_u16_u16be v r : dec_u16 (u16be v ++ r) = Ok (v, r).
Proof.
  unfold dec_u16. replace (2 <=? len (u16be v ++ r)) with true by (lens; lia).
  cbn [ensure bind]. apply get_u16_u16be.
Qed.

Lemma dec_nz16_u16be v r : 0 < v -> dec_nz16 (u16be v ++ r) = Ok (v, r).
Proof.
  intros H. unfold dec_nz16. rewrite dec_u16_u16be. cbn [bind].
  replace (v =? 0) with false by lia. reflexivity.
Qed.

Lemma dec_u16_inv s v r : dec_u16 s = Ok (v, r) -> exists a b, s = a :: b :: r /\ v = a * 256 + b.
Proof.
  unfold dec_u16. destruct (2 <=? len s); cbn [ensure bind]; [|discriminate].
  destruct s as [|a [|b s]]; cbn [get_u16]; try discriminate. intros [= <- <-]. eauto.
Qed.
Lemma dec_u16_np s : np (dec_u16 s).
Proof.
  unfold dec_u16. destruct (2 <=? len s) eqn:E; cbn [ensure bind]; [|exact I].
  destruct s as [|a [|b s]]; cbn [get_u16]; try exact I; lens; lia.
Qed.
Lemma dec_u16_short s : len s < 2 -> dec_u16 s = Err DE_InvalidLength.
Proof. intros H. unfold dec_u16. replace (2 <=? len s) with false by lia. reflexivity. Qed.
Lemma dec_u16_cons a b r : dec_u16 (a :: b :: r) = Ok (a * 256 + b, r).
Proof. unfold dec_u16. replace (2 <=? len (a :: b :: r)) with true by (lens; lia). reflexivity. Qed.

Lemma dec_nz16_inv s v r : dec_nz16 s = Ok (v, r) ->
  exists a b, s = a :: b :: r /\ v = a * 256 + b /\ v <> 0.
Proof.
  unfold dec_nz16. intros H. apply bind_ok in H as [[v' r'] [H1 H2]].
  apply dec_u16_inv in H1 as (a & b & -> & ->).
  destruct (a * 256 + b =? 0) eqn:E; [discriminate|]. injection H2 as <- <-.
  exists a, b. repeat split. lia.
Qed.
Lemma dec_nz16_np s : np (dec_nz16 s).
Proof.
  unfold dec_nz16. apply np_bind; [apply dec_u16_np|]. intros [v r] _. destruct (v =? 0); exact I.
Qed.
Lemma dec_nz16_zero r : dec_nz16 (0 :: 0 :: r) = Err DE_MalformedPacket.
Proof. unfold dec_nz16. rewrite dec_u16_cons. reflexivity. Qed.

(* ------------------------------------------------------------------ Bytes / ByteString *)
Definition str16 (s : bytes) : bytes := u16be (len s) ++ s.

Lemma len_str16 s : len (str16 s) = 2 + len s.
Proof. unfold str16. lens. reflexivity. Qed.
#[export] Hint Rewrite len_str16 : len.

Lemma dec_bytes_str16 s r : dec_bytes (str16 s ++ r) = Ok (s, r).
Proof.
  unfold dec_bytes, str16. rewrite <- app_assoc, dec_u16_u16be. cbn [bind].
  replace (len s <=? len (s ++ r)) with true by (lens; lia). cbn [ensure bind].
  now rewrite split_at_app.
Qed.

Lemma dec_string_str16 s r : utf8_valid s = true -> dec_string (str16 s ++ r) = Ok (s, r).
Proof. intros H. unfold dec_string. rewrite dec_bytes_str16. cbn [bind]. now rewrite H. Qed.

Lemma dec_bytes_inv s x r : dec_bytes s = Ok (x, r) ->
  exists a b, s = a :: b :: x ++ r /\ len x = a * 256 + b.
Proof.
  unfold dec_bytes. intros H. apply bind_ok in H as [[n r'] [H1 H2]].
  apply dec_u16_inv in H1 as (a & b & -> & ->).
  apply bind_ok in H2 as [u [H2 H3]]. apply ensure_ok in H2.
  injection H3 as H3 H4. exists a, b. split.
  - f_equal. f_equal. rewrite <- H3, <- H4. symmetry. apply firstn_skipn.
  - rewrite <- H3. lens. lia.
Qed.
Lemma dec_bytes_np s : np (dec_bytes s).
Proof.
  unfold dec_bytes. apply np_bind; [apply dec_u16_np|]. intros [n r] _.
  apply np_bind; [apply np_ensure|]. intros; exact I.
Qed.
Lemma dec_string_inv s x r : dec_string s = Ok (x, r) ->
  exists a b, s = a :: b :: x ++ r /\ len x = a * 256 + b /\ utf8_valid x = true.
Proof.
  unfold dec_string. intros H. apply bind_ok in H as [[x' r'] [H1 H2]].
  destruct (utf8_valid x') eqn:E; [|discriminate]. injection H2 as <- <-.
  apply dec_bytes_inv in H1 as (a & b & -> & Hl). eauto 6.
Qed.
Lemma dec_string_np s : np (dec_string s).
Proof.
  unfold dec_string. apply np_bind; [apply dec_bytes_np|]. intros [x r] _. destruct (utf8_valid x); exact I.
Qed.
Lemma dec_string_bad_utf8 s r : utf8_valid s = false -> dec_string (str16 s ++ r) = Err DE_Utf8Error.
Proof. intros H. unfold dec_string. rewrite dec_bytes_str16. cbn [bind]. now rewrite H. Qed.
Lemma dec_bytes_too_long a b r : len r < a * 256 + b -> dec_bytes (a :: b :: r) = Err DE_InvalidLength.
Proof.
  intros H. unfold dec_bytes. rewrite dec_u16_cons. cbn [bind].
  replace (a * 256 + b <=? len r) with false by lia. reflexivity.
Qed.
Lemma dec_string_too_long a b r : len r < a * 256 + b -> dec_string (a :: b :: r) = Err DE_InvalidLength.
Proof. intros H. unfold dec_string. now rewrite dec_bytes_too_long. Qed.

(* ------------------------------------------------------------------ utf8_valid implies bytes < 256 *)
Lemma utf8_valid_bytes_ok_aux n : forall s, (length s <= n)%nat -> utf8_valid s = true -> bytes_ok s = true.
Proof.
  induction n as [|n IH]; intros s Hn H.
  - destruct s; [reflexivity|cbn in Hn; lia].
  - destruct s as [|b0 r]; [reflexivity|]. cbn [utf8_valid] in H. cbn [length] in Hn.
    unfold in_rng, utf8_cont, in_rng in *.
    destruct (b0 <? 128) eqn:E0.
    { rewrite bytes_ok_cons. rewrite IH by (auto; lia). unfold byte_ok. lia. }
    destruct ((194 <=? b0) && (b0 <=? 223)) eqn:E1.
    { destruct r as [|b1 r1]; [discriminate|]. apply andb_true_iff in H as [H1 H2].
      cbn [length] in Hn. rewrite !bytes_ok_cons, IH by (auto; lia). unfold byte_ok. lia. }
    destruct ((224 <=? b0) && (b0 <=? 239)) eqn:E2.
    { destruct r as [|b1 [|b2 r2]]; try discriminate.
      apply andb_true_iff in H as [H H3]. apply andb_true_iff in H as [H1 H2].
      cbn [length] in Hn. rewrite !bytes_ok_cons, IH by (auto; lia). unfold byte_ok.
      unfold utf8_second3, in_rng, utf8_cont, in_rng in H1.
      destruct (b0 =? 224); [lia|]. destruct (b0 =? 237); lia. }
    destruct ((240 <=? b0) && (b0 <=? 244)) eqn:E3; [|discriminate].
    destruct r as [|b1 [|b2 [|b3 r3]]]; try discriminate.
    apply andb_true_iff in H as [H H4]. apply andb_true_iff in H as [H H3].
    apply andb_true_iff in H as [H1 H2].
    cbn [length] in Hn. rewrite !bytes_ok_cons, IH by (auto; lia). unfold byte_ok.
    unfold utf8_second4, in_rng, utf8_cont, in_rng in H1.
    destruct (b0 =? 240); [lia|]. destruct (b0 =? 244); lia.
Qed.
Lemma utf8_valid_bytes_ok s : utf8_valid s = true -> bytes_ok s = true.
Proof. apply (utf8_valid_bytes_ok_aux (length s)). lia. Qed.

(* ------------------------------------------------------------------ writer *)
Definition wok (w : wr) : Prop := snd w = Ok tt.

Lemma w_then_ok a k b : a = (b, Ok tt) -> a ;; k = (b ++ fst k, snd k).
Proof. intros ->. unfold w_then. now destruct k. Qed.
Lemma w_bytes_then b k : w_bytes b ;; k = (b ++ fst k, snd k).
Proof. now apply w_then_ok. Qed.
Lemma w_then_wok a k : wok (a ;; k) <-> wok a /\ wok k.
Proof.
  unfold wok, w_then. destruct a as [b [[]|e|s]], k as [b' r]; cbn [snd]; split; intros H;
    try tauto; try (destruct H; discriminate); try discriminate.
Qed.
Lemma w_then_fst a k : wok a -> fst (a ;; k) = fst a ++ fst k.
Proof. unfold wok, w_then. destruct a as [b [[]|e|s]], k as [b' r]; cbn [fst snd]; intros H; try discriminate. reflexivity. Qed.
Lemma w_then_fail a k : ~ wok a -> a ;; k = a.
Proof. unfold wok, w_then. destruct a as [b [[]|e|s]]; cbn [snd]; intros H; try reflexivity. now elim H. Qed.

Lemma w_bytes16_ok s : len s <= U16MAX -> w_bytes16 s = (str16 s, Ok tt).
Proof. intros H. unfold w_bytes16. replace (len s <=? U16MAX) with true by lia. reflexivity. Qed.
Lemma w_bytes16_wok s : wok (w_bytes16 s) <-> len s <= U16MAX.
Proof.
  unfold w_bytes16, wok. destruct (len s <=? U16MAX) eqn:E; cbn [snd w_bytes w_err]; split; intros H;
    try lia; try reflexivity; try discriminate.
Qed.
Lemma w_bytes16_fail s : U16MAX < len s -> w_bytes16 s = ([], Err EE_InvalidLength).
Proof. intros H. unfold w_bytes16. replace (len s <=? U16MAX) with false by lia. reflexivity. Qed.

Lemma w_varlen_ok n b : enc_vi n = Some b -> w_varlen n = (b, Ok tt).
Proof. intros H. unfold w_varlen, write_vi. now rewrite H. Qed.
Lemma w_varlen_wok n : wok (w_varlen n) <-> n <= VI_MAX.
Proof.
  unfold w_varlen, write_vi, wok. split.
  - intros H. destruct (N.le_gt_cases n VI_MAX) as [L|L]; [exact L|].
    rewrite enc_vi_none in H by exact L. discriminate.
  - intros H. destruct (enc_vi_some n H) as [b ->]. reflexivity.
Qed.

(* as_u32 *)
Lemma as_u32_small n : n <= U32MAX -> as_u32 n = n.
Proof. unfold as_u32, U32MOD, U32MAX. intros H. apply N.mod_small. lia. Qed.
Lemma as_u32_le n : as_u32 n <= n.
Proof. unfold as_u32, U32MOD. apply N.mod_le. lia. Qed.
Lemma as_u32_lt n : as_u32 n <= U32MAX.
Proof. unfold as_u32, U32MOD, U32MAX. pose proof (N.mod_upper_bound n 4294967296). lia. Qed.

(* dec_vi: value bound *)
Lemma dec_vi_bound s v r : dec_vi s = Ok (v, r) -> v <= VI_MAX.
Proof.
  unfold dec_vi, VI_MAX. intros H.
  destruct s as [|a s]; cbn [dec_vi_go] in H; [discriminate|].
  destruct (a <? 128). { injection H as <- <-. lia. }
  destruct s as [|b s]; cbn [dec_vi_go] in H; [discriminate|].
  destruct (b <? 128). { injection H as <- <-. lia. }
  destruct s as [|c s]; cbn [dec_vi_go] in H; [discriminate|].
  destruct (c <? 128). { injection H as <- <-. lia. }
  destruct s as [|d s]; cbn [dec_vi_go] in H; [discriminate|].
  destruct (d <? 128); [|discriminate]. injection H as <- <-. lia.
Qed.

Lemma dec_vi_app s v r x : dec_vi s = Ok (v, r) -> dec_vi (s ++ x) = Ok (v, r ++ x).
Proof.
  unfold dec_vi. intros H.
  destruct s as [|a s]; cbn [dec_vi_go app] in *; [discriminate|].
  destruct (a <? 128). { injection H as <- <-. reflexivity. }
  destruct s as [|b s]; cbn [dec_vi_go app] in *; [discriminate|].
  destruct (b <? 128). { injection H as <- <-. reflexivity. }
  destruct s as [|c s]; cbn [dec_vi_go app] in *; [discriminate|].
  destruct (c <? 128). { injection H as <- <-. reflexivity. }
  destruct s as [|d s]; cbn [dec_vi_go app] in *; [discriminate|].
  destruct (d <? 128); [|discriminate]. injection H as <- <-. reflexivity.
Qed.
Lemma dec_vi_err_app s e x : dec_vi s = Err e -> e <> DE_MalformedPacket -> dec_vi (s ++ x) = Err e.
Proof.
  unfold dec_vi. intros H Hne.
  destruct s as [|a s]; cbn [dec_vi_go app] in *; [congruence|].
  destruct (a <? 128); [discriminate|].
  destruct s as [|b s]; cbn [dec_vi_go app] in *; [congruence|].
  destruct (b <? 128); [discriminate|].
  destruct s as [|c s]; cbn [dec_vi_go app] in *; [congruence|].
  destruct (c <? 128); [discriminate|].
  destruct s as [|d s]; cbn [dec_vi_go app] in *; [congruence|].
  destruct (d <? 128); [discriminate|]. exact H.
Qed.
