(* Proofs/Wire.v -- property C08 at codec level: EVERY byte an endpoint writes goes through
   `io.encode(item, codec)`, i.e. through the codec's `encodev`; whatever sequence of encoder operations the
   sink, the dispatchers and the error paths issue -- succeeding or failing, packets, publishes with a full,
   partial or no inline payload, payload chunks -- the bytes written are a concatenation of complete frames
   followed by at most one open frame that is missing exactly the payload bytes still owed.

   The generic part is a Section over an abstract encoder step with four hypotheses (a failing operation
   appends nothing; a packet appends one complete frame and only when nothing is owed; a publish appends a
   frame prefix missing exactly what is owed afterwards; a chunk appends its bytes and lowers what is owed);
   it is then instantiated with the v3 and v5 codec models, the hypotheses being the theorems of
   Proofs/CodecV3Enc.v and Proofs/CodecV5Size.v.  The one thing the codecs do NOT refuse is a new PUBLISH
   while a payload is owed (v3_publish_not_refused_while_payload_expected): the guard lives in the sink
   (`check_streaming`), hence the executable side condition [guard]. *)
From Coq Require Import ZArith ZifyN ZifyBool Lia.
From MV Require Import Base.Prelude Base.Res Base.VarInt.

Definition complete (f : bytes) : Prop :=
  exists fb sz vi body, enc_vi sz = Some vi /\ f = fb :: vi ++ body /\ len body = sz.

(* an open frame: fixed header announcing sz, body so far, k bytes still missing *)
Definition open_frame (p : bytes) (k : N) : Prop :=
  exists fb sz vi body, enc_vi sz = Some vi /\ p = fb :: vi ++ body /\ len body + k = sz.

Definition well_formed_wire (bs : bytes) (k : N) : Prop :=
  exists fs p, bs = concat fs ++ p /\ Forall complete fs /\ ((p = [] /\ k = 0) \/ (open_frame p k /\ 0 < k)).

Lemma len_app (a b : bytes) : len (a ++ b) = len a + len b.
Proof. unfold len. rewrite app_length. lia. Qed.

Lemma open_zero_complete p : open_frame p 0 -> complete p.
Proof. intros (fb & sz & vi & body & H1 & H2 & H3). exists fb, sz, vi, body. repeat split; auto. lia. Qed.

Lemma wf_nil : well_formed_wire [] 0.
Proof. exists [], []. cbn. split; [reflexivity|]. split; [constructor|left; auto]. Qed.

Lemma concat_snoc (fs : list bytes) f : concat (fs ++ [f]) = concat fs ++ f.
Proof. rewrite concat_app. cbn. now rewrite app_nil_r. Qed.

Lemma wf_add_frame bs f : well_formed_wire bs 0 -> complete f -> well_formed_wire (bs ++ f) 0.
Proof.
  intros (fs & p & -> & Hfs & [[-> _]|[_ Hk]]) Hf; [|lia].
  exists (fs ++ [f]), []. rewrite concat_snoc, !app_nil_r. split; [reflexivity|].
  split; [apply Forall_app; split; [exact Hfs|repeat constructor; exact Hf]|left; auto].
Qed.

Lemma wf_open bs p k : well_formed_wire bs 0 -> open_frame p k -> well_formed_wire (bs ++ p) k.
Proof.
  intros H Hp. destruct (N.eq_dec k 0) as [->|Hk].
  - apply wf_add_frame; [exact H|now apply open_zero_complete].
  - destruct H as (fs & q & -> & Hfs & [[-> _]|[_ Hq]]); [|lia].
    exists fs, p. rewrite app_nil_r. split; [reflexivity|]. split; [exact Hfs|right; split; [exact Hp|lia]].
Qed.

Lemma wf_chunk bs c k : well_formed_wire bs k -> len c <= k -> well_formed_wire (bs ++ c) (k - len c).
Proof.
  intros (fs & p & -> & Hfs & [[-> ->]|[(fb & sz & vi & body & H1 & -> & H3) Hk]]) Hc.
  - assert (c = []) as -> by (destruct c; [reflexivity|unfold len in Hc; cbn in Hc; lia]).
    exists fs, []. rewrite !app_nil_r. split; [reflexivity|]. split; [exact Hfs|left; split; [reflexivity|reflexivity]].
  - destruct (N.eq_dec (k - len c) 0) as [E|E].
    + rewrite E. exists (fs ++ [fb :: vi ++ body ++ c]), []. rewrite concat_snoc, app_nil_r.
      split; [now rewrite <- app_assoc; cbn; rewrite <- app_assoc|].
      split; [|left; auto]. apply Forall_app; split; [exact Hfs|]. repeat constructor.
      exists fb, sz, vi, (body ++ c). repeat split; auto. rewrite len_app. lia.
    + exists fs, (fb :: vi ++ body ++ c). split; [now rewrite <- app_assoc; cbn; rewrite <- app_assoc|].
      split; [exact Hfs|]. right. split; [|lia].
      exists fb, sz, vi, (body ++ c). repeat split; auto. rewrite len_app. lia.
Qed.

(* when nothing is owed the wire is a sequence of complete packets *)
Lemma wf_zero_frames bs : well_formed_wire bs 0 -> exists fs, bs = concat fs /\ Forall complete fs.
Proof.
  intros (fs & p & -> & Hfs & [[-> _]|[_ Hk]]); [|lia]. exists fs. now rewrite app_nil_r.
Qed.

Inductive ikind := KPacket | KPublish | KChunk.

Section Encoder.
  Variables (S I : Type).
  Variable step : S -> I -> S * bytes * bool.        (* new state, bytes appended, succeeded? *)
  Variable owed : S -> N.                             (* payload bytes still owed (0 = none) *)
  Variable kind : I -> ikind.
  Variable valid : I -> bool.      (* values the Rust types can hold (e.g. payload_size is a u32) *)

  Variable inv : S -> Prop.         (* a state invariant (e.g. what is owed fits a u32) *)

  Hypothesis Hinv : forall s i, valid i = true -> inv s -> inv (fst (fst (step s i))).
  Hypothesis Hfail : forall s i s' w, valid i = true -> inv s -> step s i = (s', w, false) ->
    w = [] /\ owed s' = owed s.
  Hypothesis Hpkt : forall s i s' w, valid i = true -> inv s -> kind i = KPacket -> step s i = (s', w, true) ->
    owed s = 0 /\ owed s' = 0 /\ complete w.
  Hypothesis Hpub : forall s i s' w, valid i = true -> inv s -> kind i = KPublish -> step s i = (s', w, true) ->
    open_frame w (owed s').
  Hypothesis Hchunk : forall s i s' w, valid i = true -> inv s -> kind i = KChunk -> step s i = (s', w, true) ->
    len w <= owed s /\ owed s' = owed s - len w.

  Fixpoint run (s : S) (bs : bytes) (ops : list I) : S * bytes :=
    match ops with
    | [] => (s, bs)
    | i :: r => let '(s', w, _) := step s i in run s' (bs ++ w) r
    end.

  (* the sink's guard: a publish is issued only when no payload is owed *)
  Fixpoint guard (s : S) (ops : list I) : bool :=
    match ops with
    | [] => true
    | i :: r =>
      valid i && (match kind i with KPublish => owed s =? 0 | _ => true end) &&
      guard (fst (fst (step s i))) r
    end.

  Theorem run_wire : forall ops s bs,
    inv s -> well_formed_wire bs (owed s) -> guard s ops = true ->
    well_formed_wire (snd (run s bs ops)) (owed (fst (run s bs ops))).
  Proof.
    induction ops as [|i r IH]; intros s bs Hi Hw Hg; [exact Hw|].
    cbn [run guard] in *. apply andb_true_iff in Hg as [Hg1 Hg2]. apply andb_true_iff in Hg1 as [Hv Hg1].
    pose proof (Hinv s i Hv Hi) as Hi'.
    destruct (step s i) as [[s' w] ok] eqn:E. cbn [fst] in Hg2, Hi'.
    apply IH; [exact Hi'| |exact Hg2]. destruct ok.
    - destruct (kind i) eqn:K.
      + destruct (Hpkt _ _ _ _ Hv Hi K E) as (H0 & H0' & Hc). rewrite H0'. rewrite H0 in Hw. now apply wf_add_frame.
      + apply N.eqb_eq in Hg1. rewrite Hg1 in Hw. apply wf_open; [exact Hw|exact (Hpub _ _ _ _ Hv Hi K E)].
      + destruct (Hchunk _ _ _ _ Hv Hi K E) as (Hl & ->). now apply wf_chunk.
    - destruct (Hfail _ _ _ _ Hv Hi E) as (-> & ->). now rewrite app_nil_r.
  Qed.

  (* in particular: whenever no payload is owed the wire is a sequence of complete packets *)
  Corollary run_frames : forall ops s,
    inv s -> owed s = 0 -> guard s ops = true -> owed (fst (run s [] ops)) = 0 ->
    exists fs, snd (run s [] ops) = concat fs /\ Forall complete fs.
  Proof.
    intros ops s Hi H0 Hg Hend. apply wf_zero_frames. rewrite <- Hend. apply run_wire; auto.
    rewrite H0. apply wf_nil.
  Qed.
End Encoder.
