(* Proofs/CodecV5Total.v -- C01 in one statement: inside the encoding domain, with no limit configured,
   encodev succeeds and one decode_step gives the packet back. *)
From Coq Require Import ZArith ZifyN ZifyBool Lia.
From MV Require Import Base.Prelude Base.Res Base.VarInt Base.Utf8 Model.CodecV5
  Proofs.VarIntProofs Proofs.CodecV5Fields Proofs.CodecV5Size Proofs.CodecV5Limit Proofs.CodecV5Props
  Proofs.CodecV5Round Proofs.CodecV5Round2 Proofs.CodecV5DecBase Proofs.CodecV5Stream Proofs.CodecV5RT
  Proofs.CodecV5Succ.
Ltac Zify.zify_post_hook ::= Z.div_mod_to_equations.

Lemma packet_ok_enc_ok p : packet_ok p -> enc_ok p = true.
Proof. destruct p; cbn [packet_ok enc_ok]; try tauto; intros [H _]; exact H. Qed.

Lemma check_frame_nolimit c n : ec_max_out_frame c = 0 -> check_frame_size c n = Ok tt.
Proof. intros H. unfold check_frame_size. rewrite H. reflexivity. Qed.

Theorem v5_roundtrip_total c mi mc npi p r :
  ec_max_out_size c = 0 -> ec_max_out_frame c = 0 -> ec_no_problem_info c = false ->
  ec_encoding_payload c = None -> packet_ok p ->
  let sz := packet_encoded_size p MAX_PACKET_SIZE in
  sz <= MAX_PACKET_SIZE -> (mi = 0 \/ sz <= mi) ->
  exists w, encodev c (EPacket p) = ((w, Ok tt), c) /\
    decode_step mi mc npi FrameHeader (w ++ r) = (Ok (Some (DPacket p sz)), FrameHeader, npi_after p npi, r).
Proof.
  intros Hmax Hfr Hn Hp Hok sz Hs Hm.
  destruct (v5_encode_succeeds c p Hp (packet_ok_enc_ok p Hok)) as [w Hw].
  - unfold effective. rewrite Hn, (max_size_nolimit c Hmax). exact Hs.
  - now apply check_frame_nolimit.
  - exists w. split; [exact Hw|]. exact (v5_roundtrip c mi mc npi p Hmax Hn Hok w c r Hw Hm).
Qed.

(* PUBLISH head *)
Lemma publish_body_succ p L :
  publish_encoded_size p L <= VI_MAX -> publish_ok p = true ->
  (p_qos p =? 0) = negb (is_some (p_packet_id p)) ->
  wsucc (publish_body p (publish_encoded_size p L)).
Proof.
  intros Hs Hok Hpid. pose proof (publish_size_props_le p L) as Hp. unfold publish_body.
  unfold publish_ok in Hok.
  apply andb_true_iff in Hok as [Hok Hpp]. apply andb_true_iff in Hok as [Hok Hid].
  apply andb_true_iff in Hok as [Ht Hq].
  apply wsucc_seq.
  - unfold publish_hdr. apply wsucc_then; [apply wsucc_bytes; now apply str_ok_len|].
    destruct (p_qos p =? 0), (p_packet_id p); try discriminate; [apply wsucc_nop|apply wsucc_put].
  - intros x Hx. rewrite (publish_hdr_len p _ Hx). unfold publish_encoded_size in *.
    set (pid := if p_qos p =? 0 then 0 else 2) in *.
    set (PP := publish_properties_encoded_size (p_properties p) L) in *.
    rewrite mod32_small by lia. rewrite sub_chk_ok by lia. cbn [wlet].
    replace (es_bytes (p_topic p) + pid + PP + p_payload_size p - (es_bytes (p_topic p) + pid + p_payload_size p))
      with PP by lia.
    unfold PP. rewrite ppes_eq. unfold publish_properties_encode.
    rewrite varlen_inverse by (unfold PP in *; rewrite ppes_eq in *; lia). cbn [wlet].
    unfold publish_props_ok in Hpp.
    repeat match type of Hpp with (_ && _ = true) =>
      let H' := fresh "Hk" in apply andb_true_iff in Hpp as [Hpp H'] end.
    apply wsucc_then; [apply wsucc_vi; unfold PP in *; rewrite ppes_eq in *; lia|].
    wsucc_struct; try bytes_side. now apply wsucc_sub_ids.
Qed.

Theorem v5_encode_publish_succeeds c p buf :
  publish_ok p = true -> (p_qos p =? 0) = negb (is_some (p_packet_id p)) ->
  let sz := publish_encoded_size p (max_size_of c) in
  sz <= max_size_of c -> len (inline_payload buf) <= p_payload_size p ->
  check_frame_size c sz = Ok tt ->
  exists w c', encodev c (EPublish p buf) = ((w, Ok tt), c').
Proof.
  intros Hok Hpid sz Hs Hin Hc. pose proof (max_size_le c) as HL.
  destruct (publish_body_succ p (max_size_of c)) as [body Hb]; [fold sz; lia|assumption|assumption|].
  destruct (enc_vi_some sz ltac:(lia)) as [vi Ev].
  unfold encodev, encode_item.
  replace (if ec_no_problem_info c then strip_problem_info (EPublish p buf) else EPublish p buf)
    with (EPublish p buf) by (destruct (ec_no_problem_info c); reflexivity).
  cbv zeta. fold sz. replace (max_size_of c <? sz) with false by lia.
  replace (match buf with Some b => p_payload_size p <? len b | None => false end) with false
    by (destruct buf; cbn [inline_payload] in Hin; [lia|reflexivity]).
  rewrite Hc. rewrite publish_encode_eq. fold (publish_body p sz).
  assert (E : w_u8 (publish_first_byte p) >>> w_vi sz >>> publish_body p sz
              = (publish_first_byte p :: vi ++ body, Ok tt)).
  { change (publish_first_byte p :: vi ++ body) with ([publish_first_byte p] ++ vi ++ body).
    apply wseq_ok; [reflexivity|]. apply wseq_ok; [now apply w_vi_ok|exact Hb]. }
  rewrite E. destruct buf as [b|]; cbn [inline_payload] in Hin.
  - rewrite N.mod_small by (assert (p_payload_size p <= sz) by (unfold sz, publish_encoded_size; lia);
                            unfold TWO32, VI_MAX in *; lia).
    rewrite sub_chk_ok by lia. eauto.
  - eauto.
Qed.
