(* Proofs/TopicCover.v -- order-theoretic facts about matches_filter (src/topic.rs TopicFilter::matches_filter):
   reflexive, transitive, and a `$`-level in first position is covered only by the same `$`-level
   (the universal form of the defect repaired by /repo ad5dc3e). *)
From MV Require Import Base.Prelude Model.Topic Proofs.TopicProofs.

Lemma level_eqb_refl l : level_eqb l l = true.
Proof. destruct l; cbn [level_eqb]; rewrite ?bytes_eqb_refl; reflexivity. Qed.

Lemma lvl_refl l i : match_level_lvl l l i = true.
Proof.
  destruct l; cbn [match_level_lvl level_eqb]; rewrite ?bytes_eqb_refl, ?andb_false_r; reflexivity.
Qed.

Lemma cover_refl_gen F : forall i, match_topic_go match_level_lvl i F F = true.
Proof.
  induction F as [|f F IH]; intros i; [reflexivity|].
  rewrite mtg_step. destruct f; rewrite ?lvl_refl, ?IH; reflexivity.
Qed.

Lemma cover_refl : forall F, matches_filter F F = true.
Proof. intros F. apply cover_refl_gen. Qed.

(* level-wise transitivity (neither covering level is `#`) *)
Lemma lvl_lvl_trans f g h i : f <> Multi -> g <> Multi ->
  match_level_lvl g f i = true -> match_level_lvl h g i = true -> match_level_lvl h f i = true.
Proof.
  intros Hf Hg H1 H2.
  destruct i as [|i]; destruct f, g; try congruence; destruct h;
    cbn [match_level_lvl level_eqb Nat.eqb andb negb] in *;
    try discriminate; bsplit; rewrite ?bytes_eqb_refl; auto.
Qed.

(* what `#` accepts at a position is closed under being covered *)
Lemma lvl_multi_down g h i : g <> Multi ->
  match_level_lvl g Multi i = true -> match_level_lvl h g i = true -> match_level_lvl h Multi i = true.
Proof.
  intros Hg H1 H2.
  destruct i as [|i]; destruct g; try congruence; destruct h;
    cbn [match_level_lvl level_eqb Nat.eqb andb negb] in *; try discriminate; auto.
Qed.

Lemma cover_trans_gen F : forall G H i,
  match_topic_go match_level_lvl i F G = true ->
  match_topic_go match_level_lvl i G H = true ->
  match_topic_go match_level_lvl i F H = true.
Proof.
  induction F as [|f F IH]; intros G H i H1 H2.
  - destruct G; [exact H2|discriminate].
  - destruct (level_is_multi f) as [->|Hf].
    + destruct H as [|h H]; [reflexivity|].
      rewrite mtg_step.
      destruct G as [|g G]; [destruct h; discriminate|].
      rewrite mtg_step in H1.
      destruct (level_is_multi g) as [->|Hg].
      * rewrite mtg_step in H2. exact H2.
      * rewrite mtg_step_nm in H2 by assumption. bsplit.
        eapply lvl_multi_down; eauto.
    + destruct G as [|g G].
      { destruct f; try discriminate; congruence. }
      destruct (level_is_multi g) as [->|Hg].
      { rewrite mtg_step_nm in H1 by assumption.
        rewrite lvl_multi_false in H1 by assumption. discriminate. }
      destruct H as [|h H].
      { destruct g; try discriminate; congruence. }
      rewrite mtg_step_nm in H1 by assumption. rewrite mtg_step_nm in H2 by assumption.
      rewrite mtg_step_nm by assumption. bsplit.
      apply andb_true_iff; split.
      * eapply lvl_lvl_trans; eauto.
      * eapply IH; eauto.
Qed.

Lemma cover_trans : forall F G H,
  matches_filter F G = true -> matches_filter G H = true -> matches_filter F H = true.
Proof. intros F G H. apply cover_trans_gen. Qed.

(* a `$`-level in first position is covered only by the very same `$`-level *)
Lemma cover_system_first : forall F x G,
  matches_filter F (System x :: G) = true -> exists F', F = System x :: F'.
Proof.
  intros F x G HC. unfold matches_filter in HC.
  destruct F as [|f F]; [discriminate|].
  rewrite mtg_step in HC.
  destruct f; cbn [match_level_lvl level_eqb Nat.eqb andb negb] in HC; try discriminate.
  bsplit. eexists; reflexivity.
Qed.

(* `#` alone covers every filter whose first level is not a `$`-level *)
Lemma cover_hash_all : forall g G,
  (forall x, g <> System x) -> matches_filter [Multi] (g :: G) = true.
Proof.
  intros g G Hg. unfold matches_filter. rewrite mtg_step.
  destruct g; cbn [match_level_lvl Nat.eqb andb negb]; try reflexivity.
  exfalso. eapply Hg; reflexivity.
Qed.
