(* Proofs/CodecV5Stream.v -- property C02 for the MQTT 5 stream decoder model [decode_step]:
   totality (no Panic) under an executable state invariant, the invariant is preserved, the step
   consumes a prefix, no stall on a fully buffered frame, oversize frames are rejected at the header,
   the PUBLISH header computation stays within the frame, and a family of malformation lemmas. *)
From Coq Require Import ZArith ZifyN ZifyBool Lia.
From MV Require Import Base.Prelude Base.Res Base.VarInt Base.Utf8 Proofs.VarIntProofs Model.CodecV5
  Proofs.CodecV5DecBase.
Ltac Zify.zify_post_hook ::= Z.div_mod_to_equations.
Set Warnings "-unused-intro-pattern".

(* ------------------------------------------------------------------ projections of a step result *)
Definition dr_res (d : dresult) : res (option decoded) := fst (fst (fst d)).
Definition dr_state (d : dresult) : dstate := snd (fst (fst d)).
Definition dr_npi (d : dresult) : bool := snd (fst d).
Definition dr_src (d : dresult) : bytes := snd d.

(* executable state invariant: the only thing the decoder relies on is that the PUBLISH header
   length stored in the state does not exceed the remaining length stored next to it
   (codec.rs: `remaining_length - props_len` is a plain usize subtraction) *)
Definition dstate_wf (st : dstate) : bool :=
  match st with
  | PublishProperties pl _ rl => pl <=? rl
  | _ => true
  end.

Definition is_sfx (src r : bytes) : Prop := exists p, src = p ++ r.
Lemma sfx_refl s : is_sfx s s.
Proof. exists []. reflexivity. Qed.
Lemma sfx_skipn n s : is_sfx s (skipn n s).
Proof. exists (firstn n s). symmetry. apply firstn_skipn. Qed.
Lemma sfx_trans a b c : is_sfx a b -> is_sfx b c -> is_sfx a c.
Proof. intros [p ->] [q ->]. exists (p ++ q). now rewrite app_assoc. Qed.

(* ================================================================== characterising equations *)
Lemma step_frame_eq npi fb rl src :
  step_frame npi fb rl src =
  if len src <? rl then (Ok None, Frame fb rl, npi, src)
  else match decode_packet fb (firstn (N.to_nat rl) src) with
       | Ok packet =>
         (Ok (Some (DPacket packet rl)), FrameHeader,
          match packet with Connect c => negb (c_request_problem_info c) | _ => npi end,
          skipn (N.to_nat rl) src)
       | Err e => (Err e, Frame fb rl, npi, skipn (N.to_nat rl) src)
       | Panic p => (Panic p, Frame fb rl, npi, skipn (N.to_nat rl) src)
       end.
Proof.
  unfold step_frame, split_to, dret. destruct (len src <? rl); [reflexivity|].
  destruct (decode_packet fb (firstn (N.to_nat rl) src)); reflexivity.
Qed.

Lemma step_publish_properties_eq mc npi pl fb rl src :
  step_publish_properties mc npi pl fb rl src =
  let st := PublishProperties pl fb rl in
  if len src <? pl then (Ok None, st, npi, src)
  else if pl <=? rl then
    let src1 := skipn (N.to_nat pl) src in
    match publish_decode (firstn (N.to_nat pl) src) fb (rl - pl) with
    | Ok publish =>
      let l := len src1 in
      if (rl - pl <=? l) || (mc =? 0) || (mc <=? l) then
        let payload := firstn (N.to_nat (N.min l (rl - pl))) src1 in
        (Ok (Some (DPublish publish payload rl)),
         (if 0 <? rl - pl - len payload then PublishPayload (rl - pl - len payload) else FrameHeader),
         npi, skipn (N.to_nat (N.min l (rl - pl))) src1)
      else (Ok (Some (DPublish publish [] rl)), PublishPayload (rl - pl), npi, src1)
    | Err e => (Err e, st, npi, src1)
    | Panic p => (Panic p, st, npi, src1)
    end
  else (Panic PS_sub_overflow, st, npi, src).
Proof.
  unfold step_publish_properties, sub_chk, split_to, dret. cbv zeta.
  destruct (len src <? pl); [reflexivity|]. destruct (pl <=? rl); [|reflexivity].
  destruct (publish_decode (firstn (N.to_nat pl) src) fb (rl - pl)); reflexivity.
Qed.

Lemma step_publish_header_eq mc npi fb rl src :
  step_publish_header mc npi fb rl src =
  match packet_header_size src fb rl with
  | Ok (Some l) => step_publish_properties mc npi l fb rl src
  | Ok None => (Ok None, PublishHeader fb rl, npi, src)
  | Err e => (Err e, PublishHeader fb rl, npi, src)
  | Panic p => (Panic p, PublishHeader fb rl, npi, src)
  end.
Proof.
  unfold step_publish_header, dret. destruct (packet_header_size src fb rl) as [[l|]| |]; reflexivity.
Qed.

Lemma step_publish_payload_eq mc npi rem src :
  step_publish_payload mc npi rem src =
  if (rem <=? len src) || (negb (mc =? 0) && (mc <=? len src)) then
    let payload := firstn (N.to_nat (N.min (len src) rem)) src in
    (Ok (Some (DPayloadChunk payload (negb (0 <? rem - len payload)))),
     (if 0 <? rem - len payload then PublishPayload (rem - len payload) else FrameHeader),
     npi, skipn (N.to_nat (N.min (len src) rem)) src)
  else (Ok None, PublishPayload rem, npi, src).
Proof.
  unfold step_publish_payload, split_to, dret. cbv zeta.
  destruct ((rem <=? len src) || (negb (mc =? 0) && (mc <=? len src))); [|reflexivity].
  destruct (0 <? rem - len (firstn (N.to_nat (N.min (len src) rem)) src)); reflexivity.
Qed.

(* what step_frame_header does, as a three-way case split *)
Lemma step_frame_header_cases mi mc npi src :
  step_frame_header mi mc npi src = (Ok None, FrameHeader, npi, src) \/
  (exists e, step_frame_header mi mc npi src = (Err e, FrameHeader, npi, src)) \/
  (exists fb tl rl c, src = fb :: tl /\ dec_vi_opt tl = Ok (Some (rl, c)) /\
     step_frame_header mi mc npi src =
     if is_publish fb then step_publish_header mc npi fb rl (skipn (N.to_nat (c + 1)) src)
     else step_frame npi fb rl (skipn (N.to_nat (c + 1)) src)).
Proof.
  destruct src as [|fb [|b tl]]; [left; reflexivity|left; reflexivity|].
  cbn [step_frame_header]. remember (b :: tl) as tl_ eqn:Et.
  pose proof (dec_vi_opt_np tl_) as T.
  destruct (dec_vi_opt tl_) as [[[rl c]|]|e|p] eqn:E; cbn [nopanic] in T.
  - cbv beta iota. destruct (negb (mi =? 0) && (mi <? rl)).
    + right; left. exists DE_MaxSizeExceeded. reflexivity.
    + right; right. exists fb, tl_, rl, c. split; [reflexivity|]. split; [exact E|reflexivity].
  - left. reflexivity.
  - right; left. exists e. reflexivity.
  - contradiction.
Qed.

Lemma enc_vi_nonempty n vi : enc_vi n = Some vi -> exists b t, vi = b :: t.
Proof.
  unfold enc_vi. repeat match goal with |- context [if ?c then _ else _] => destruct c end;
    intros [= <-]; eauto.
Qed.

Lemma dec_vi_opt_enc rl vi rest : enc_vi rl = Some vi -> dec_vi_opt (vi ++ rest) = Ok (Some (rl, len vi)).
Proof.
  intros H. unfold dec_vi_opt. rewrite (varint_roundtrip _ _ rest H).
  rewrite llen_app. do 3 f_equal. lia.
Qed.

(* the header step on a buffer that starts with a complete fixed header *)
Lemma step_frame_header_enc mi mc npi fb rl vi rest :
  enc_vi rl = Some vi ->
  step_frame_header mi mc npi (fb :: vi ++ rest) =
  if negb (mi =? 0) && (mi <? rl) then (Err DE_MaxSizeExceeded, FrameHeader, npi, fb :: vi ++ rest)
  else if is_publish fb then step_publish_header mc npi fb rl rest
  else step_frame npi fb rl rest.
Proof.
  intros H. destruct (enc_vi_nonempty _ _ H) as (b & t & Evi).
  pose proof (dec_vi_opt_enc rl vi rest H) as D.
  assert (Sk : skipn (N.to_nat (len vi + 1)) (fb :: vi ++ rest) = rest).
  { replace (N.to_nat (len vi + 1)) with (S (length vi)) by (unfold len; lia).
    cbn [skipn]. rewrite <- (llen_length vi). apply skipn_llen_app. }
  rewrite Evi in *. cbn [app] in *. cbn [step_frame_header]. rewrite D.
  destruct (negb (mi =? 0) && (mi <? rl)); [reflexivity|]. rewrite Sk. reflexivity.
Qed.

(* ================================================================== 1. totality *)
Lemma step_frame_np npi fb rl src : nopanic (dr_res (step_frame npi fb rl src)).
Proof.
  rewrite step_frame_eq. destruct (len src <? rl); [exact I|].
  pose proof (decode_packet_np fb (firstn (N.to_nat rl) src)) as H.
  destruct (decode_packet fb (firstn (N.to_nat rl) src)); [exact I|exact I|exact H].
Qed.

Lemma step_publish_properties_np mc npi pl fb rl src :
  pl <= rl -> nopanic (dr_res (step_publish_properties mc npi pl fb rl src)).
Proof.
  intros Hw. rewrite step_publish_properties_eq. cbv zeta.
  destruct (len src <? pl); [exact I|]. replace (pl <=? rl) with true by lia.
  pose proof (publish_decode_np (firstn (N.to_nat pl) src) fb (rl - pl)) as H.
  destruct (publish_decode (firstn (N.to_nat pl) src) fb (rl - pl)); [|exact I|exact H].
  match goal with |- context [if ?c then _ else _] => destruct c end; exact I.
Qed.

Lemma step_publish_header_np mc npi fb rl src : nopanic (dr_res (step_publish_header mc npi fb rl src)).
Proof.
  rewrite step_publish_header_eq.
  pose proof (packet_header_size_np src fb rl) as H.
  destruct (packet_header_size src fb rl) as [[l|]|e|p] eqn:E; [|exact I|exact I|exact H].
  apply step_publish_properties_np. eapply packet_header_size_le; eassumption.
Qed.

Lemma step_publish_payload_np mc npi rem src : nopanic (dr_res (step_publish_payload mc npi rem src)).
Proof.
  rewrite step_publish_payload_eq. cbv zeta.
  match goal with |- context [if ?c then _ else _] => destruct c end; exact I.
Qed.

Lemma step_frame_header_np mi mc npi src : nopanic (dr_res (step_frame_header mi mc npi src)).
Proof.
  destruct (step_frame_header_cases mi mc npi src) as [E|[[e E]|(fb & tl & rl & c & _ & _ & E)]];
    rewrite E; try exact I.
  destruct (is_publish fb); [apply step_publish_header_np|apply step_frame_np].
Qed.

Theorem v5_decode_total mi mc npi st src :
  dstate_wf st = true -> nopanic (dr_res (decode_step mi mc npi st src)).
Proof.
  intros W. destruct st as [|fb rl|fb rl|pl fb rl|rem]; cbn [decode_step].
  - apply step_frame_header_np.
  - apply step_frame_np.
  - apply step_publish_header_np.
  - apply step_publish_properties_np. cbn [dstate_wf] in W. lia.
  - apply step_publish_payload_np.
Qed.

(* the same in the "never has result Panic" wording *)
Corollary v5_decode_total' mi mc npi st src p :
  dstate_wf st = true -> dr_res (decode_step mi mc npi st src) <> Panic p.
Proof.
  intros W E. pose proof (v5_decode_total mi mc npi st src W) as H. rewrite E in H. exact H.
Qed.

(* FINDING: without the invariant the step does panic (unchecked `remaining_length - props_len`) *)
Lemma v5_decode_total_refuted :
  exists mi mc npi st src p, dr_res (decode_step mi mc npi st src) = Panic p.
Proof. exists 0, 0, false, (PublishProperties 5 48 2), [0; 0; 0; 0; 0], PS_sub_overflow. vm_compute. reflexivity. Qed.

(* and the invariant is exactly what is needed in that state: the step panics iff it is violated
   and the header is buffered *)
Lemma v5_decode_total_wf_necessary mi mc npi pl fb rl src :
  rl < pl -> pl <= len src ->
  dr_res (decode_step mi mc npi (PublishProperties pl fb rl) src) = Panic PS_sub_overflow.
Proof.
  intros H1 H2. cbn [decode_step]. rewrite step_publish_properties_eq. cbv zeta.
  replace (len src <? pl) with false by lia. replace (pl <=? rl) with false by lia. reflexivity.
Qed.

(* --- the invariant is preserved *)
Lemma dstate_wf_init : dstate_wf FrameHeader = true.
Proof. reflexivity. Qed.

Lemma step_frame_wf npi fb rl src : dstate_wf (dr_state (step_frame npi fb rl src)) = true.
Proof.
  rewrite step_frame_eq. destruct (len src <? rl); [reflexivity|].
  destruct (decode_packet fb (firstn (N.to_nat rl) src)); reflexivity.
Qed.

Lemma step_publish_properties_wf mc npi pl fb rl src :
  pl <= rl -> dstate_wf (dr_state (step_publish_properties mc npi pl fb rl src)) = true.
Proof.
  intros Hw. rewrite step_publish_properties_eq. cbv zeta.
  assert (W : dstate_wf (PublishProperties pl fb rl) = true) by (cbn [dstate_wf]; lia).
  destruct (len src <? pl); [exact W|]. destruct (pl <=? rl); [|exact W].
  destruct (publish_decode (firstn (N.to_nat pl) src) fb (rl - pl)); [|exact W|exact W].
  match goal with |- context [if ?c then _ else _] => destruct c end; [|reflexivity].
  cbn [dr_state fst snd]. match goal with |- context [if ?c then _ else _] => destruct c end; reflexivity.
Qed.

Lemma step_publish_header_wf mc npi fb rl src :
  dstate_wf (dr_state (step_publish_header mc npi fb rl src)) = true.
Proof.
  rewrite step_publish_header_eq.
  destruct (packet_header_size src fb rl) as [[l|]|e|p] eqn:E; try reflexivity.
  apply step_publish_properties_wf. eapply packet_header_size_le; eassumption.
Qed.

Lemma step_publish_payload_wf mc npi rem src :
  dstate_wf (dr_state (step_publish_payload mc npi rem src)) = true.
Proof.
  rewrite step_publish_payload_eq. cbv zeta.
  match goal with |- context [if ?c then _ else _] => destruct c end; [|reflexivity].
  cbn [dr_state fst snd]. match goal with |- context [if ?c then _ else _] => destruct c end; reflexivity.
Qed.

Lemma step_frame_header_wf mi mc npi src :
  dstate_wf (dr_state (step_frame_header mi mc npi src)) = true.
Proof.
  destruct (step_frame_header_cases mi mc npi src) as [E|[[e E]|(fb & tl & rl & c & _ & _ & E)]];
    rewrite E; try reflexivity.
  destruct (is_publish fb); [apply step_publish_header_wf|apply step_frame_wf].
Qed.

Theorem v5_wf_preserved mi mc npi st src :
  dstate_wf st = true -> dstate_wf (dr_state (decode_step mi mc npi st src)) = true.
Proof.
  intros W. destruct st as [|fb rl|fb rl|pl fb rl|rem]; cbn [decode_step].
  - apply step_frame_header_wf.
  - apply step_frame_wf.
  - apply step_publish_header_wf.
  - apply step_publish_properties_wf. cbn [dstate_wf] in W. lia.
  - apply step_publish_payload_wf.
Qed.

(* every state the decoder can get into from FrameHeader, whatever the buffers and flags it is run on,
   satisfies the invariant, so no run of the decoder that starts in FrameHeader ever panics *)
Inductive v5_reachable (mi mc : N) : dstate -> Prop :=
| reach_init : v5_reachable mi mc FrameHeader
| reach_step st npi src :
    v5_reachable mi mc st -> v5_reachable mi mc (dr_state (decode_step mi mc npi st src)).

Lemma v5_reachable_wf mi mc st : v5_reachable mi mc st -> dstate_wf st = true.
Proof. induction 1; [reflexivity|]. now apply v5_wf_preserved. Qed.

Corollary v5_reachable_total mi mc npi st src :
  v5_reachable mi mc st -> nopanic (dr_res (decode_step mi mc npi st src)).
Proof. intros H. apply v5_decode_total. now apply v5_reachable_wf in H. Qed.

(* ================================================================== 2. the step consumes a prefix *)
Lemma step_frame_sfx npi fb rl src : is_sfx src (dr_src (step_frame npi fb rl src)).
Proof.
  rewrite step_frame_eq. destruct (len src <? rl); [apply sfx_refl|].
  destruct (decode_packet fb (firstn (N.to_nat rl) src)); apply sfx_skipn.
Qed.

Lemma step_publish_properties_sfx mc npi pl fb rl src :
  is_sfx src (dr_src (step_publish_properties mc npi pl fb rl src)).
Proof.
  rewrite step_publish_properties_eq. cbv zeta.
  destruct (len src <? pl); [apply sfx_refl|]. destruct (pl <=? rl); [|apply sfx_refl].
  destruct (publish_decode (firstn (N.to_nat pl) src) fb (rl - pl)); try apply sfx_skipn.
  match goal with |- context [if ?c then _ else _] => destruct c end; [|apply sfx_skipn].
  cbn [dr_src snd]. eapply sfx_trans; apply sfx_skipn.
Qed.

Lemma step_publish_header_sfx mc npi fb rl src :
  is_sfx src (dr_src (step_publish_header mc npi fb rl src)).
Proof.
  rewrite step_publish_header_eq.
  destruct (packet_header_size src fb rl) as [[l|]|e|p]; try apply sfx_refl.
  apply step_publish_properties_sfx.
Qed.

Lemma step_publish_payload_sfx mc npi rem src :
  is_sfx src (dr_src (step_publish_payload mc npi rem src)).
Proof.
  rewrite step_publish_payload_eq. cbv zeta.
  match goal with |- context [if ?c then _ else _] => destruct c end; [apply sfx_skipn|apply sfx_refl].
Qed.

Lemma step_frame_header_sfx mi mc npi src : is_sfx src (dr_src (step_frame_header mi mc npi src)).
Proof.
  destruct (step_frame_header_cases mi mc npi src) as [E|[[e E]|(fb & tl & rl & c & _ & _ & E)]];
    rewrite E; try apply sfx_refl.
  eapply sfx_trans; [apply (sfx_skipn (N.to_nat (c + 1)))|].
  destruct (is_publish fb); [apply step_publish_header_sfx|apply step_frame_sfx].
Qed.

Theorem v5_step_prefix mi mc npi st src :
  exists p, src = p ++ dr_src (decode_step mi mc npi st src).
Proof.
  change (is_sfx src (dr_src (decode_step mi mc npi st src))).
  destruct st as [|fb rl|fb rl|pl fb rl|rem]; cbn [decode_step].
  - apply step_frame_header_sfx.
  - apply step_frame_sfx.
  - apply step_publish_header_sfx.
  - apply step_publish_properties_sfx.
  - apply step_publish_payload_sfx.
Qed.

(* ================================================================== 3. no stall *)
Theorem v5_no_stall_frame mi mc npi fb rl src :
  rl <= len src -> dr_res (decode_step mi mc npi (Frame fb rl) src) <> Ok None.
Proof.
  intros H. cbn [decode_step]. rewrite step_frame_eq. replace (len src <? rl) with false by lia.
  destruct (decode_packet fb (firstn (N.to_nat rl) src)); discriminate.
Qed.

Theorem v5_no_stall_publish_properties mi mc npi pl fb rl src :
  pl <= len src -> dr_res (decode_step mi mc npi (PublishProperties pl fb rl) src) <> Ok None.
Proof.
  intros H. cbn [decode_step]. rewrite step_publish_properties_eq. cbv zeta.
  replace (len src <? pl) with false by lia. destruct (pl <=? rl); [|discriminate].
  destruct (publish_decode (firstn (N.to_nat pl) src) fb (rl - pl)); try discriminate.
  match goal with |- context [if ?c then _ else _] => destruct c end; discriminate.
Qed.

(* with the invariant, "the whole frame is buffered" is enough *)
Corollary v5_no_stall_publish_properties_wf mi mc npi pl fb rl src :
  dstate_wf (PublishProperties pl fb rl) = true -> rl <= len src ->
  dr_res (decode_step mi mc npi (PublishProperties pl fb rl) src) <> Ok None.
Proof. intros W H. apply v5_no_stall_publish_properties. cbn [dstate_wf] in W. lia. Qed.

(* packet_header_size answers when the frame is complete *)
Lemma packet_header_size_complete src fl rl : rl <= len src -> packet_header_size src fl rl <> Ok None.
Proof.
  intros Hl. unfold packet_header_size.
  destruct (2 <=? rl) eqn:E2; cbn [ensure bind]; [|discriminate].
  destruct src as [|b0 [|b1 s]]; try (exfalso; rewrite ?llen_cons, ?llen_nil in Hl; lia).
  remember (b0 :: b1 :: s) as src eqn:Es.
  destruct (qos_ok (flags_qos fl)); cbn [ensure bind]; [|discriminate].
  remember (if flags_qos fl =? 0 then b0 * 256 + b1 + 2 else b0 * 256 + b1 + 2 + 2) as len1 eqn:El.
  destruct (len1 <? rl) eqn:E1; cbn [ensure bind]; [|discriminate].
  replace (len src <? len1) with false by lia.
  unfold slice. replace ((len1 <=? N.min (len src) rl) && (N.min (len src) rl <=? len src)) with true by lia.
  cbn [bind]. destruct (dec_vi_opt _) as [[[pl pos]|]|e|p]; cbn [bind]; try discriminate.
  - destruct (len1 + pl + pos <=? rl); cbn [ensure bind]; discriminate.
  - replace (N.min (len src) rl <? rl) with false by lia. cbn [ensure bind]. discriminate.
Qed.

Theorem v5_no_stall_publish_header mi mc npi fb rl src :
  rl <= len src -> dr_res (decode_step mi mc npi (PublishHeader fb rl) src) <> Ok None.
Proof.
  intros H. cbn [decode_step]. rewrite step_publish_header_eq.
  pose proof (packet_header_size_complete src fb rl H) as C.
  destruct (packet_header_size src fb rl) as [[l|]|e|p] eqn:E; try discriminate; [|congruence].
  apply (v5_no_stall_publish_properties mi mc npi l fb rl src).
  apply packet_header_size_le in E. lia.
Qed.

Theorem v5_no_stall_publish_payload mi mc npi rem src :
  rem <= len src -> dr_res (decode_step mi mc npi (PublishPayload rem) src) <> Ok None.
Proof.
  intros H. cbn [decode_step]. rewrite step_publish_payload_eq. cbv zeta.
  replace (rem <=? len src) with true by lia. cbn [orb]. discriminate.
Qed.

Theorem v5_no_stall_header mi mc npi fb rl vi rest :
  enc_vi rl = Some vi -> rl <= len rest ->
  dr_res (decode_step mi mc npi FrameHeader (fb :: vi ++ rest)) <> Ok None.
Proof.
  intros He Hl. cbn [decode_step]. rewrite (step_frame_header_enc _ _ _ _ _ _ _ He).
  destruct (negb (mi =? 0) && (mi <? rl)); [discriminate|].
  destruct (is_publish fb).
  - apply (v5_no_stall_publish_header mi mc npi fb rl rest Hl).
  - apply (v5_no_stall_frame mi mc npi fb rl rest Hl).
Qed.

Theorem v5_no_stall mi mc npi :
  (forall fb rl src, rl <= len src -> dr_res (decode_step mi mc npi (Frame fb rl) src) <> Ok None) /\
  (forall fb rl src, rl <= len src -> dr_res (decode_step mi mc npi (PublishHeader fb rl) src) <> Ok None) /\
  (forall pl fb rl src, pl <= len src ->
     dr_res (decode_step mi mc npi (PublishProperties pl fb rl) src) <> Ok None) /\
  (forall rem src, rem <= len src -> dr_res (decode_step mi mc npi (PublishPayload rem) src) <> Ok None) /\
  (forall fb rl vi rest, enc_vi rl = Some vi -> rl <= len rest ->
     dr_res (decode_step mi mc npi FrameHeader (fb :: vi ++ rest)) <> Ok None).
Proof.
  split; [|split; [|split; [|split]]].
  - intros fb rl src H. now apply v5_no_stall_frame.
  - intros fb rl src H. now apply v5_no_stall_publish_header.
  - intros pl fb rl src H. now apply v5_no_stall_publish_properties.
  - intros rem src H. now apply v5_no_stall_publish_payload.
  - intros fb rl vi rest H1 H2. now apply (v5_no_stall_header mi mc npi fb rl vi rest).
Qed.

(* ================================================================== 4. oversize rejected at the header *)
Theorem v5_oversize_rejected_at_header mi mc npi fb rl vi rest :
  mi <> 0 -> enc_vi rl = Some vi -> mi < rl ->
  decode_step mi mc npi FrameHeader (fb :: vi ++ rest) =
  (Err DE_MaxSizeExceeded, FrameHeader, npi, fb :: vi ++ rest).
Proof.
  intros H0 He Hl. cbn [decode_step]. rewrite (step_frame_header_enc _ _ _ _ _ _ _ He).
  replace (negb (mi =? 0) && (mi <? rl)) with true by lia. reflexivity.
Qed.

(* ================================================================== 5. the PUBLISH header stays in the frame *)
Lemma slice_app a b (s x : bytes) : b <= len s -> slice a b (s ++ x) = slice a b s.
Proof.
  intros H. unfold slice. rewrite llen_app.
  destruct (a <=? b) eqn:E; cbn [andb]; [|reflexivity].
  replace (b <=? len s + len x) with true by lia. replace (b <=? len s) with true by lia.
  f_equal. rewrite skipn_app_le by (unfold len in *; lia).
  apply firstn_app_le. rewrite skipn_length. unfold len in *. lia.
Qed.

Lemma packet_header_size_app F x fl : packet_header_size (F ++ x) fl (len F) = packet_header_size F fl (len F).
Proof.
  unfold packet_header_size.
  destruct (2 <=? len F) eqn:E2; cbn [ensure bind]; [|reflexivity].
  destruct F as [|b0 [|b1 F']]; try (exfalso; rewrite ?llen_cons, ?llen_nil in E2; lia).
  cbn [app]. change (b0 :: b1 :: F' ++ x) with ((b0 :: b1 :: F') ++ x).
  remember (b0 :: b1 :: F') as F eqn:EF.
  destruct (qos_ok (flags_qos fl)); cbn [ensure bind]; [|reflexivity].
  remember (if flags_qos fl =? 0 then b0 * 256 + b1 + 2 else b0 * 256 + b1 + 2 + 2) as len1 eqn:El.
  destruct (len1 <? len F) eqn:E1; cbn [ensure bind]; [|reflexivity].
  rewrite llen_app.
  replace (len F + len x <? len1) with false by lia. replace (len F <? len1) with false by lia.
  replace (N.min (len F + len x) (len F)) with (len F) by lia.
  replace (N.min (len F) (len F)) with (len F) by lia.
  rewrite slice_app by lia. reflexivity.
Qed.

Lemma packet_header_size_app' F x fl rl :
  len F = rl -> packet_header_size (F ++ x) fl rl = packet_header_size F fl rl.
Proof. intros <-. apply packet_header_size_app. Qed.

(* the answer of packet_header_size is a function of the frame alone once the frame is buffered *)
Lemma packet_header_size_within_frame src fl rl :
  rl <= len src -> packet_header_size src fl rl = packet_header_size (firstn (N.to_nat rl) src) fl rl.
Proof.
  intros H. rewrite <- (firstn_skipn (N.to_nat rl) src) at 1.
  apply packet_header_size_app'. rewrite llen_firstn; lia.
Qed.

Theorem v5_header_within_frame mi mc npi fb rl src :
  rl <= len src ->
  dr_res (decode_step mi mc npi (PublishHeader fb rl) src) <> Ok None /\
  (forall l, packet_header_size src fb rl = Ok (Some l) -> l <= rl) /\
  (forall x y, packet_header_size (firstn (N.to_nat rl) src ++ x) fb rl =
               packet_header_size (firstn (N.to_nat rl) src ++ y) fb rl).
Proof.
  intros H. split; [now apply v5_no_stall_publish_header|]. split.
  - intros l. exact (packet_header_size_le src fb rl l).
  - intros x y. assert (L : len (firstn (N.to_nat rl) src) = rl) by (rewrite llen_firstn; lia).
    now rewrite !packet_header_size_app' by exact L.
Qed.

(* ================================================================== 6. malformed input is an error *)
(* generic lifting: an error of decode_packet on the frame is the error of the stream step *)
Lemma step_frame_err mi mc npi fb rl src e :
  rl <= len src -> decode_packet fb (firstn (N.to_nat rl) src) = Err e ->
  dr_res (decode_step mi mc npi (Frame fb rl) src) = Err e.
Proof.
  intros H E. cbn [decode_step]. rewrite step_frame_eq. replace (len src <? rl) with false by lia.
  rewrite E. reflexivity.
Qed.

(* the same from the header on: fixed header completely buffered, frame completely buffered *)
Lemma step_header_frame_err mi mc npi fb rl vi rest e :
  enc_vi rl = Some vi -> is_publish fb = false -> (mi = 0 \/ rl <= mi) -> rl <= len rest ->
  decode_packet fb (firstn (N.to_nat rl) rest) = Err e ->
  dr_res (decode_step mi mc npi FrameHeader (fb :: vi ++ rest)) = Err e.
Proof.
  intros He Hp Hm Hl E. cbn [decode_step]. rewrite (step_frame_header_enc _ _ _ _ _ _ _ He).
  replace (negb (mi =? 0) && (mi <? rl)) with false by lia. rewrite Hp.
  apply (step_frame_err mi mc npi fb rl rest e Hl E).
Qed.

(* the error stays put: state is still [Frame] and the frame bytes are gone from the buffer *)
Lemma step_frame_err_state mi mc npi fb rl src e :
  rl <= len src -> decode_packet fb (firstn (N.to_nat rl) src) = Err e ->
  decode_step mi mc npi (Frame fb rl) src = (Err e, Frame fb rl, npi, skipn (N.to_nat rl) src).
Proof.
  intros H E. cbn [decode_step]. rewrite step_frame_eq. replace (len src <? rl) with false by lia.
  rewrite E. reflexivity.
Qed.

(* ------------------------------------------------------------------ unknown property identifier *)
Lemma v5_unknown_property f tbl acc id r :
  tbl id = None -> parse_props (S f) tbl acc (id :: r) = Err DE_MalformedPacket.
Proof. intros H. cbn [parse_props]. rewrite H. reflexivity. Qed.

Lemma v5_unknown_property_props tbl pre bag id r :
  props_of tbl pre = Ok bag -> tbl id = None -> props_of tbl (pre ++ id :: r) = Err DE_MalformedPacket.
Proof. intros Hp H. rewrite (props_of_app _ _ _ _ Hp). cbn [length]. now apply v5_unknown_property. Qed.

Lemma tbl_ack_none id : tbl_ack id = None <-> id <> P_REASON_STRING /\ id <> P_USER.
Proof.
  unfold tbl_ack, tbl_of, P_REASON_STRING, P_USER. cbn [find fst snd].
  destruct (31 =? id) eqn:E1; [split; [discriminate|lia]|].
  destruct (38 =? id) eqn:E2; [split; [discriminate|lia]|]. split; [lia|reflexivity].
Qed.

(* closed corollary: a PUBACK/PUBREC body whose first property identifier is not one of the two
   PUBACK knows is refused, whatever the rest *)
Lemma v5_unknown_property_puback i1 i2 rc plen id r :
  tbl_ack id = None -> 0 < plen < 128 ->
  exists e, publish_ack_decode (i1 :: i2 :: rc :: plen :: id :: r) = Err e.
Proof.
  intros Ht Hp. unfold publish_ack_decode, dec_nz16. cbn [dec_u16 bind].
  destruct (i1 * 256 + i2 =? 0); cbn [bind]; [eexists; reflexivity|].
  destruct (publish_ack_reason_ok rc); cbn [ensure bind]; [|eexists; reflexivity].
  unfold ack_props_decode, take_properties, dec_vi. cbn [dec_vi_go].
  replace (plen <? 128) with true by lia. cbn [bind].
  destruct (len (id :: r) <? 0 + plen mod 128 * 1); cbn [bind]; [eexists; reflexivity|]. unfold split_to.
  replace (N.to_nat (0 + plen mod 128 * 1)) with (S (N.to_nat (plen - 1))) by lia.
  cbn [firstn bind]. unfold props_of. cbn [length]. rewrite (v5_unknown_property _ _ _ _ _ Ht).
  cbn [bind]. eexists; reflexivity.
Qed.

Lemma v5_unknown_property_puback_stream mi mc npi rl src i1 i2 rc plen id r :
  rl <= len src -> firstn (N.to_nat rl) src = i1 :: i2 :: rc :: plen :: id :: r ->
  tbl_ack id = None -> 0 < plen < 128 ->
  exists e, dr_res (decode_step mi mc npi (Frame PT_PUBACK rl) src) = Err e.
Proof.
  intros Hl Hf Ht Hp. destruct (v5_unknown_property_puback i1 i2 rc plen id r Ht Hp) as [e E].
  exists e. apply step_frame_err; [exact Hl|]. rewrite Hf. unfold decode_packet.
  change (PT_PUBACK =? PT_PUBACK) with true. cbv iota. rewrite E. reflexivity.
Qed.

(* ------------------------------------------------------------------ a once-only property twice *)
Lemma v5_dup_once_only f tbl acc id k r :
  tbl id = Some (k, true) -> bag_has id acc = true ->
  parse_props (S f) tbl acc (id :: r) = Err DE_MalformedPacket.
Proof. intros H B. cbn [parse_props]. rewrite H, B. reflexivity. Qed.

Lemma v5_dup_once_only_props tbl pre bag id k r :
  props_of tbl pre = Ok bag -> tbl id = Some (k, true) -> bag_has id bag = true ->
  props_of tbl (pre ++ id :: r) = Err DE_MalformedPacket.
Proof.
  intros Hp H B. rewrite (props_of_app _ _ _ _ Hp). cbn [length].
  eapply v5_dup_once_only; [exact H|]. now rewrite bag_has_rev.
Qed.

(* two items with the same once-only identifier, back to back, anything after *)
Lemma v5_dup_once_only_pair tbl id k v1 pv v2 :
  tbl id = Some (k, true) -> dec_pval k v1 = Ok (pv, []) ->
  props_of tbl (id :: v1 ++ id :: v2) = Err DE_MalformedPacket.
Proof.
  intros H E. change (id :: v1 ++ id :: v2) with ((id :: v1) ++ id :: v2).
  apply (v5_dup_once_only_props tbl (id :: v1) [(id, pv)] id k v2); [|exact H|].
  - unfold props_of. cbn [length parse_props]. rewrite H. cbn [bag_has existsb andb negb ensure bind].
    rewrite E. cbn [bind]. destruct (length v1); reflexivity.
  - unfold bag_has. cbn [existsb fst]. rewrite N.eqb_refl. reflexivity.
Qed.

(* ------------------------------------------------------------------ unknown reason code *)
Lemma v5_unknown_reason_code src id rc r :
  publish_ack_reason_ok rc = false -> dec_nz16 src = Ok (id, rc :: r) ->
  publish_ack_decode src = Err DE_MalformedPacket.
Proof. intros H E. unfold publish_ack_decode. rewrite E. cbn [bind]. rewrite H. reflexivity. Qed.

Lemma v5_unknown_reason_code_ack2 src id rc r :
  publish_ack2_reason_ok rc = false -> dec_nz16 src = Ok (id, rc :: r) ->
  publish_ack2_decode src = Err DE_MalformedPacket.
Proof. intros H E. unfold publish_ack2_decode. rewrite E. cbn [bind]. rewrite H. reflexivity. Qed.

Lemma v5_unknown_reason_code_disconnect rc r :
  disconnect_reason_ok rc = false -> disconnect_decode (rc :: r) = Err DE_MalformedPacket.
Proof. intros H. unfold disconnect_decode. rewrite H. reflexivity. Qed.

Lemma v5_unknown_reason_code_auth rc r :
  auth_reason_ok rc = false -> auth_decode (rc :: r) = Err DE_MalformedPacket.
Proof. intros H. unfold auth_decode. rewrite H. reflexivity. Qed.

Lemma v5_unknown_reason_code_connack flags rc r :
  flags <= 1 -> connect_ack_reason_ok rc = false ->
  connect_ack_decode (flags :: rc :: r) = Err DE_MalformedPacket.
Proof.
  intros Hf H. unfold connect_ack_decode. replace (flags <=? 1) with true by lia.
  cbn [ensure bind]. rewrite H. reflexivity.
Qed.
Lemma v5_unknown_reason_code_connack' flags rc r :
  connect_ack_reason_ok rc = false -> exists e, connect_ack_decode (flags :: rc :: r) = Err e.
Proof.
  intros H. unfold connect_ack_decode. destruct (flags <=? 1); cbn [ensure bind]; [|eexists; reflexivity].
  rewrite H. eexists; reflexivity.
Qed.

Lemma status_decode_bad ok s c : In c s -> ok c = false -> status_decode ok s = Err DE_MalformedPacket.
Proof.
  induction s as [|d s IH]; [intros []|]. intros [->|Hi] Hc; cbn [status_decode].
  - rewrite Hc. reflexivity.
  - destruct (ok d); cbn [ensure bind]; [|reflexivity]. rewrite (IH Hi Hc). reflexivity.
Qed.

Lemma v5_unknown_reason_code_suback src id r pr r1 c :
  dec_nz16 src = Ok (id, r) -> ack_props_decode r = Ok (pr, r1) -> In c r1 ->
  subscribe_ack_reason_ok c = false -> subscribe_ack_decode src = Err DE_MalformedPacket.
Proof.
  intros E1 E2 Hi Hc. unfold subscribe_ack_decode. rewrite E1. cbn [bind]. rewrite E2. cbn [bind].
  rewrite (status_decode_bad _ _ _ Hi Hc). reflexivity.
Qed.

Lemma v5_unknown_reason_code_unsuback src id r pr r1 c :
  dec_nz16 src = Ok (id, r) -> ack_props_decode r = Ok (pr, r1) -> In c r1 ->
  unsubscribe_ack_reason_ok c = false -> unsubscribe_ack_decode src = Err DE_MalformedPacket.
Proof.
  intros E1 E2 Hi Hc. unfold unsubscribe_ack_decode. rewrite E1. cbn [bind]. rewrite E2. cbn [bind].
  rewrite (status_decode_bad _ _ _ Hi Hc). reflexivity.
Qed.

(* lifted: a PUBACK frame with packet id <> 0 and a reason code PUBACK does not know *)
Lemma v5_unknown_reason_code_stream mi mc npi rl src i1 i2 rc r :
  rl <= len src -> firstn (N.to_nat rl) src = i1 :: i2 :: rc :: r ->
  i1 * 256 + i2 <> 0 -> publish_ack_reason_ok rc = false ->
  dr_res (decode_step mi mc npi (Frame PT_PUBACK rl) src) = Err DE_MalformedPacket.
Proof.
  intros Hl Hf Hid Hrc. apply step_frame_err; [exact Hl|]. rewrite Hf. unfold decode_packet.
  change (PT_PUBACK =? PT_PUBACK) with true. cbv iota.
  rewrite (v5_unknown_reason_code _ (i1 * 256 + i2) rc r Hrc); [reflexivity|].
  unfold dec_nz16. cbn [dec_u16 bind]. replace (i1 * 256 + i2 =? 0) with false by lia. reflexivity.
Qed.

(* ------------------------------------------------------------------ packet id 0 *)
Lemma dec_nz16_zero r : dec_nz16 (0 :: 0 :: r) = Err DE_MalformedPacket.
Proof. reflexivity. Qed.

Definition pid_packets : list N :=
  [PT_PUBACK; PT_PUBREC; PT_PUBREL; PT_PUBCOMP; PT_SUBSCRIBE; PT_SUBACK; PT_UNSUBSCRIBE; PT_UNSUBACK].

Lemma v5_zero_packet_id fb r :
  In fb pid_packets -> decode_packet fb (0 :: 0 :: r) = Err DE_MalformedPacket.
Proof.
  unfold pid_packets. cbn [In].
  intros [<-|[<-|[<-|[<-|[<-|[<-|[<-|[<-|[]]]]]]]]]; reflexivity.
Qed.

Lemma v5_zero_packet_id_stream mi mc npi fb rl src r :
  In fb pid_packets -> rl <= len src -> firstn (N.to_nat rl) src = 0 :: 0 :: r ->
  dr_res (decode_step mi mc npi (Frame fb rl) src) = Err DE_MalformedPacket.
Proof.
  intros Hi Hl Hf. apply step_frame_err; [exact Hl|]. rewrite Hf. now apply v5_zero_packet_id.
Qed.

Lemma v5_zero_packet_id_publish src fb ps topic r :
  dec_string src = Ok (topic, 0 :: 0 :: r) -> flags_qos fb = 1 \/ flags_qos fb = 2 ->
  publish_decode src fb ps = Err DE_MalformedPacket.
Proof.
  intros E Hq. unfold publish_decode. rewrite E. cbn [bind].
  destruct Hq as [-> | ->]; reflexivity.
Qed.

(* ------------------------------------------------------------------ QoS 3 *)
Lemma v5_qos3 src fb rl :
  flags_qos fb = 3 -> 2 <= rl -> (2 <= length src)%nat ->
  packet_header_size src fb rl = Err DE_MalformedPacket.
Proof.
  intros Hq Hr Hl. unfold packet_header_size. replace (2 <=? rl) with true by lia.
  destruct src as [|b0 [|b1 s]]; cbn [length] in Hl; try lia.
  cbn [ensure bind]. rewrite Hq. reflexivity.
Qed.

Lemma v5_qos3_stream mi mc npi src fb rl :
  flags_qos fb = 3 -> 2 <= rl -> (2 <= length src)%nat ->
  decode_step mi mc npi (PublishHeader fb rl) src = (Err DE_MalformedPacket, PublishHeader fb rl, npi, src).
Proof.
  intros Hq Hr Hl. cbn [decode_step]. rewrite step_publish_header_eq.
  rewrite (v5_qos3 src fb rl Hq Hr Hl). reflexivity.
Qed.

(* from the very first byte: 0x36 / 0x37 / 0x3E / 0x3F *)
Lemma v5_qos3_header mi mc npi fb rl vi rest :
  is_publish fb = true -> flags_qos fb = 3 -> enc_vi rl = Some vi -> (mi = 0 \/ rl <= mi) ->
  2 <= rl -> (2 <= length rest)%nat ->
  dr_res (decode_step mi mc npi FrameHeader (fb :: vi ++ rest)) = Err DE_MalformedPacket.
Proof.
  intros Hp Hq He Hm Hr Hl. cbn [decode_step]. rewrite (step_frame_header_enc _ _ _ _ _ _ _ He).
  replace (negb (mi =? 0) && (mi <? rl)) with false by lia. rewrite Hp.
  rewrite step_publish_header_eq, (v5_qos3 rest fb rl Hq Hr Hl). reflexivity.
Qed.

(* ------------------------------------------------------------------ ill-formed UTF-8 *)
Lemma v5_bad_utf8 s b r :
  dec_bytes s = Ok (b, r) -> utf8_valid b = false -> dec_string s = Err DE_Utf8Error.
Proof. intros E H. unfold dec_string. rewrite E. cbn [bind]. rewrite H. reflexivity. Qed.

Lemma v5_bad_utf8_pval s b r :
  dec_bytes s = Ok (b, r) -> utf8_valid b = false -> dec_pval KStr s = Err DE_Utf8Error.
Proof. intros E H. cbn [dec_pval]. rewrite (v5_bad_utf8 _ _ _ E H). reflexivity. Qed.

Lemma v5_bad_utf8_pair_key s b r :
  dec_bytes s = Ok (b, r) -> utf8_valid b = false -> dec_pval KPair s = Err DE_Utf8Error.
Proof.
  intros E H. cbn [dec_pval]. unfold dec_uprop. rewrite (v5_bad_utf8 _ _ _ E H). reflexivity.
Qed.

Lemma v5_bad_utf8_topic s b r fb ps :
  dec_bytes s = Ok (b, r) -> utf8_valid b = false -> publish_decode s fb ps = Err DE_Utf8Error.
Proof. intros E H. unfold publish_decode. rewrite (v5_bad_utf8 _ _ _ E H). reflexivity. Qed.

(* in a property block: a string-valued property with ill-formed bytes *)
Lemma v5_bad_utf8_props tbl pre bag id once s b r :
  props_of tbl pre = Ok bag -> tbl id = Some (KStr, once) -> bag_has id bag = false ->
  dec_bytes s = Ok (b, r) -> utf8_valid b = false ->
  props_of tbl (pre ++ id :: s) = Err DE_Utf8Error.
Proof.
  intros Hp Ht Hb E H. rewrite (props_of_app _ _ _ _ Hp). cbn [length parse_props]. rewrite Ht.
  rewrite bag_has_rev, Hb, andb_false_r. cbn [negb ensure bind].
  rewrite (v5_bad_utf8_pval _ _ _ E H). reflexivity.
Qed.

(* ------------------------------------------------------------------ inner length beyond what is left *)
Lemma v5_inner_len_exceeds_rl s n r :
  dec_vi s = Ok (n, r) -> len r < n -> take_properties s = Err DE_InvalidLength.
Proof.
  intros E H. unfold take_properties. rewrite E. cbn [bind]. replace (len r <? n) with true by lia.
  reflexivity.
Qed.

Lemma v5_inner_len_exceeds_rl_bytes s n r :
  dec_u16 s = Ok (n, r) -> len r < n -> dec_bytes s = Err DE_InvalidLength.
Proof.
  intros E H. unfold dec_bytes. rewrite E. cbn [bind]. replace (len r <? n) with true by lia.
  reflexivity.
Qed.

Lemma v5_inner_len_exceeds_rl_string s n r :
  dec_u16 s = Ok (n, r) -> len r < n -> dec_string s = Err DE_InvalidLength.
Proof. intros E H. unfold dec_string. rewrite (v5_inner_len_exceeds_rl_bytes _ _ _ E H). reflexivity. Qed.

Lemma v5_inner_len_exceeds_rl_puback i1 i2 rc r1 n r2 :
  i1 * 256 + i2 <> 0 -> publish_ack_reason_ok rc = true ->
  dec_vi r1 = Ok (n, r2) -> len r2 < n ->
  publish_ack_decode (i1 :: i2 :: rc :: r1) = Err DE_InvalidLength.
Proof.
  intros Hid Hrc E H. unfold publish_ack_decode, dec_nz16. cbn [dec_u16 bind].
  replace (i1 * 256 + i2 =? 0) with false by lia. cbn [bind]. rewrite Hrc. cbn [ensure bind].
  destruct r1 as [|x r1]; [discriminate|].
  unfold ack_props_decode. rewrite (v5_inner_len_exceeds_rl _ _ _ E H). reflexivity.
Qed.

Lemma v5_inner_len_exceeds_rl_frame mi mc npi rl src i1 i2 rc r1 n r2 :
  rl <= len src -> firstn (N.to_nat rl) src = i1 :: i2 :: rc :: r1 ->
  i1 * 256 + i2 <> 0 -> publish_ack_reason_ok rc = true ->
  dec_vi r1 = Ok (n, r2) -> len r2 < n ->
  dr_res (decode_step mi mc npi (Frame PT_PUBACK rl) src) = Err DE_InvalidLength.
Proof.
  intros Hl Hf Hid Hrc E H. apply step_frame_err; [exact Hl|]. rewrite Hf. unfold decode_packet.
  change (PT_PUBACK =? PT_PUBACK) with true. cbv iota.
  rewrite (v5_inner_len_exceeds_rl_puback _ _ _ _ _ _ Hid Hrc E H). reflexivity.
Qed.

(* PUBLISH: a topic length running past the remaining length is caught in the header computation *)
Lemma v5_inner_len_exceeds_rl_publish src fb rl b0 b1 s :
  src = b0 :: b1 :: s -> 2 <= rl -> qos_ok (flags_qos fb) = true -> rl <= b0 * 256 + b1 + 2 ->
  packet_header_size src fb rl = Err DE_InvalidLength.
Proof.
  intros -> Hr Hq H. unfold packet_header_size. replace (2 <=? rl) with true by lia.
  cbn [ensure bind]. rewrite Hq. cbn [ensure bind].
  match goal with |- context [ensure (?a <? rl)] => replace (a <? rl) with false end; [reflexivity|].
  destruct (flags_qos fb =? 0); lia.
Qed.

(* ================================================================== 7. fragmentation independence (C10)
   on the non-PUBLISH path: states FrameHeader / Frame only.  [drain] runs [decode_step] on the buffer
   until it blocks (Ok None) or fails, collecting the items; [feed] appends the chunks one by one and
   drains after each.  With the guard [g = true] the run stops with [SawPublish] as soon as it would
   have to look at a PUBLISH first byte (or starts in a Publish* state), which makes the theorem
   unconditional; a guarded run that does not end in [SawPublish] is an unguarded run. *)
Inductive dstatus := Blocked | Failed (e : N) | Crashed (p : N) | SawPublish | NoFuel.
Definition run_result := (list decoded * dstatus * dstate * bool * bytes)%type.
Definition rr_status (R : run_result) : dstatus := snd (fst (fst (fst R))).
Definition rr_app (l : list decoded) (R : run_result) : run_result :=
  let '(its, o, st, npi, r) := R in (l ++ its, o, st, npi, r).

Definition nonpubb (st : dstate) (buf : bytes) : bool :=
  match st with
  | FrameHeader => match buf with fb :: _ => negb (is_publish fb) | [] => true end
  | Frame _ _ => true
  | _ => false
  end.

Fixpoint drain (g : bool) (fuel : nat) (mi mc : N) (npi : bool) (st : dstate) (buf : bytes) : run_result :=
  match fuel with
  | O => ([], NoFuel, st, npi, buf)
  | S f =>
    if g && negb (nonpubb st buf) then ([], SawPublish, st, npi, buf)
    else match decode_step mi mc npi st buf with
         | (Ok None, st', npi', r) => ([], Blocked, st', npi', r)
         | (Ok (Some it), st', npi', r) => rr_app [it] (drain g f mi mc npi' st' r)
         | (Err e, st', npi', r) => ([], Failed e, st', npi', r)
         | (Panic p, st', npi', r) => ([], Crashed p, st', npi', r)
         end
  end.

Definition drain_fuel (buf : bytes) : nat := S (S (length buf)).

(* after a failure the decoder is dead; the bytes that still arrive just pile up in the buffer *)
Fixpoint feed (g : bool) (mi mc : N) (npi : bool) (st : dstate) (buf : bytes) (chunks : list bytes)
  : run_result :=
  match chunks with
  | [] => ([], Blocked, st, npi, buf)
  | c :: cs =>
    match drain g (drain_fuel (buf ++ c)) mi mc npi st (buf ++ c) with
    | (its, Blocked, st', npi', r) => rr_app its (feed g mi mc npi' st' r cs)
    | (its, o, st', npi', r) => (its, o, st', npi', r ++ concat cs)
    end
  end.

Lemma rr_app_nil R : rr_app [] R = R.
Proof. destruct R as [[[[its o] st] npi] r]. reflexivity. Qed.
Lemma rr_app_app l1 l2 R : rr_app l1 (rr_app l2 R) = rr_app (l1 ++ l2) R.
Proof. destruct R as [[[[its o] st] npi] r]. cbn [rr_app]. now rewrite app_assoc. Qed.
Lemma rr_status_app l R : rr_status (rr_app l R) = rr_status R.
Proof. destruct R as [[[[its o] st] npi] r]. reflexivity. Qed.

(* --- var-int at the front of a longer buffer *)
Lemma dec_vi_err_app t x e : dec_vi t = Err e -> e <> DE_MalformedPacket -> dec_vi (t ++ x) = Err e.
Proof.
  unfold dec_vi. intros H Hne.
  destruct t as [|a t]; cbn [dec_vi_go app] in *; [congruence|].
  destruct (a <? 128); [discriminate|].
  destruct t as [|b t]; cbn [dec_vi_go app] in *; [congruence|].
  destruct (b <? 128); [discriminate|].
  destruct t as [|c t]; cbn [dec_vi_go app] in *; [congruence|].
  destruct (c <? 128); [discriminate|].
  destruct t as [|d t]; cbn [dec_vi_go app] in *; [congruence|].
  destruct (d <? 128); [discriminate|]. exact H.
Qed.

Lemma dec_vi_opt_app_some t x v c :
  dec_vi_opt t = Ok (Some (v, c)) -> dec_vi_opt (t ++ x) = Ok (Some (v, c)) /\ 1 <= c <= len t.
Proof.
  unfold dec_vi_opt. destruct (dec_vi t) as [[v' r]|e|p] eqn:E;
    [|destruct (e =? DE_MalformedPacket); discriminate|discriminate].
  intros [= <- <-]. rewrite (dec_vi_app _ x _ _ E).
  apply dec_vi_consumes in E as (p & -> & Hp). rewrite !llen_app.
  split; [do 3 f_equal; lia|unfold len; lia].
Qed.

Lemma dec_vi_opt_app_err t x e : dec_vi_opt t = Err e -> dec_vi_opt (t ++ x) = Err e.
Proof.
  unfold dec_vi_opt. destruct (dec_vi t) as [[v' r]|e'|p] eqn:E; [discriminate| |discriminate].
  destruct (e' =? DE_MalformedPacket) eqn:Ee; [discriminate|]. intros [= <-].
  rewrite (dec_vi_err_app _ x _ E) by lia. rewrite Ee. reflexivity.
Qed.

(* --- step_frame on a longer buffer *)
Lemma step_frame_app npi fb rl s x :
  rl <= len s ->
  step_frame npi fb rl (s ++ x) =
  (dr_res (step_frame npi fb rl s), dr_state (step_frame npi fb rl s), dr_npi (step_frame npi fb rl s),
   dr_src (step_frame npi fb rl s) ++ x).
Proof.
  intros H. rewrite !step_frame_eq. rewrite llen_app.
  replace (len s + len x <? rl) with false by lia. replace (len s <? rl) with false by lia.
  rewrite firstn_app_le, skipn_app_le by (unfold len in *; lia).
  destruct (decode_packet fb (firstn (N.to_nat rl) s)); reflexivity.
Qed.

Lemma step_frame_blocked npi fb rl s :
  len s < rl -> step_frame npi fb rl s = (Ok None, Frame fb rl, npi, s).
Proof. intros H. rewrite step_frame_eq. replace (len s <? rl) with true by lia. reflexivity. Qed.

Lemma step_frame_blocked_inv npi fb rl s st' npi' r :
  step_frame npi fb rl s = (Ok None, st', npi', r) -> len s < rl /\ st' = Frame fb rl /\ npi' = npi /\ r = s.
Proof.
  rewrite step_frame_eq. destruct (len s <? rl) eqn:E.
  - intros [= <- <- <-]. repeat split. lia.
  - destruct (decode_packet fb (firstn (N.to_nat rl) s)); discriminate.
Qed.

Lemma step_frame_item_inv npi fb rl s it st' npi' r :
  step_frame npi fb rl s = (Ok (Some it), st', npi', r) ->
  rl <= len s /\ st' = FrameHeader /\ r = skipn (N.to_nat rl) s.
Proof.
  rewrite step_frame_eq. destruct (len s <? rl) eqn:E; [discriminate|].
  destruct (decode_packet fb (firstn (N.to_nat rl) s)); try discriminate.
  intros [= <- <- <- <-]. repeat split. lia.
Qed.

(* --- step_frame_header on the non-PUBLISH path *)
Definition sfh_body (mi mc : N) (npi : bool) (fb : N) (tl : bytes) : dresult :=
  match dec_vi_opt tl with
  | Ok (Some (rl, c)) =>
    if negb (mi =? 0) && (mi <? rl) then (Err DE_MaxSizeExceeded, FrameHeader, npi, fb :: tl)
    else if is_publish fb then step_publish_header mc npi fb rl (skipn (N.to_nat (c + 1)) (fb :: tl))
    else step_frame npi fb rl (skipn (N.to_nat (c + 1)) (fb :: tl))
  | Ok None => (Ok None, FrameHeader, npi, fb :: tl)
  | Err e => (Err e, FrameHeader, npi, fb :: tl)
  | Panic p => (Panic p, FrameHeader, npi, fb :: tl)
  end.

Lemma sfh_cons mi mc npi fb tl :
  tl <> [] -> step_frame_header mi mc npi (fb :: tl) = sfh_body mi mc npi fb tl.
Proof.
  destruct tl as [|b tl]; [congruence|]. intros _. unfold sfh_body. cbn [step_frame_header].
  destruct (dec_vi_opt (b :: tl)) as [[[rl c]|]|e|p]; reflexivity.
Qed.

Lemma sfh_cases_np mi mc npi s :
  nonpubb FrameHeader s = true ->
  step_frame_header mi mc npi s = (Ok None, FrameHeader, npi, s) \/
  (exists e, step_frame_header mi mc npi s = (Err e, FrameHeader, npi, s) /\
             forall x, step_frame_header mi mc npi (s ++ x) = (Err e, FrameHeader, npi, s ++ x)) \/
  (exists fb tl rl k, s = fb :: tl /\ is_publish fb = false /\ (1 <= k <= length s)%nat /\
     step_frame_header mi mc npi s = step_frame npi fb rl (skipn k s) /\
     forall x, step_frame_header mi mc npi (s ++ x) = step_frame npi fb rl (skipn k s ++ x)).
Proof.
  intros G. destruct s as [|fb [|b tl]]; [left; reflexivity|left; reflexivity|].
  cbn [nonpubb] in G. apply negb_true_iff in G.
  remember (b :: tl) as tl_ eqn:Et. assert (Hne : tl_ <> []) by (subst; discriminate).
  assert (Hne' : forall x, tl_ ++ x <> []) by (intros x; subst; discriminate).
  rewrite (sfh_cons _ _ _ _ _ Hne). unfold sfh_body.
  destruct (dec_vi_opt tl_) as [[[rl c]|]|e|p] eqn:E.
  - destruct (negb (mi =? 0) && (mi <? rl)) eqn:Eo.
    + right; left. exists DE_MaxSizeExceeded. split; [reflexivity|]. intros x.
      cbn [app]. rewrite (sfh_cons _ _ _ _ _ (Hne' x)). unfold sfh_body.
      destruct (dec_vi_opt_app_some _ x _ _ E) as [-> _]. rewrite Eo. reflexivity.
    + right; right. rewrite G. exists fb, tl_, rl, (N.to_nat (c + 1)). split; [reflexivity|].
      destruct (dec_vi_opt_app_some _ [] _ _ E) as [_ Hc].
      assert (Hk : (1 <= N.to_nat (c + 1) <= length (fb :: tl_))%nat).
      { cbn [length]. unfold len in Hc. lia. }
      split; [exact G|]. split; [exact Hk|]. split; [reflexivity|]. intros x.
      cbn [app]. rewrite (sfh_cons _ _ _ _ _ (Hne' x)). unfold sfh_body.
      destruct (dec_vi_opt_app_some _ x _ _ E) as [-> _]. rewrite Eo, G.
      change (fb :: tl_ ++ x) with ((fb :: tl_) ++ x). rewrite skipn_app_le by lia. reflexivity.
  - left. reflexivity.
  - right; left. exists e. split; [reflexivity|]. intros x.
    cbn [app]. rewrite (sfh_cons _ _ _ _ _ (Hne' x)). unfold sfh_body.
    rewrite (dec_vi_opt_app_err _ x _ E). reflexivity.
  - pose proof (dec_vi_opt_np tl_) as T. rewrite E in T. contradiction.
Qed.

(* --- one step of the non-PUBLISH path against a longer buffer *)
Definition dmeas (st : dstate) (buf : bytes) : nat :=
  (length buf + match st with Frame _ _ => 1 | _ => 0 end)%nat.

Lemma np_step_item mi mc npi st s it st' npi' r x :
  nonpubb st s = true -> decode_step mi mc npi st s = (Ok (Some it), st', npi', r) ->
  decode_step mi mc npi st (s ++ x) = (Ok (Some it), st', npi', r ++ x) /\
  (dmeas st' r < dmeas st s)%nat /\ nonpubb st (s ++ x) = true.
Proof.
  intros G E. destruct st as [|fb rl|fb rl|pl fb rl|rem]; cbn [nonpubb] in G; try discriminate;
    cbn [decode_step] in *.
  - destruct (sfh_cases_np mi mc npi s G) as [E0|[(e & E0 & _)|(fb & tl & rl & k & Es & Hp & Hk & E0 & Ex)]];
      try (rewrite E0 in E; discriminate).
    rewrite E0 in E. rewrite Ex. destruct (step_frame_item_inv _ _ _ _ _ _ _ _ E) as (Hl & -> & ->).
    rewrite (step_frame_app _ _ _ _ x Hl), E. split; [reflexivity|]. split.
    + unfold dmeas. rewrite !skipn_length. lia.
    + subst s. cbn [app nonpubb]. now rewrite Hp.
  - destruct (step_frame_item_inv _ _ _ _ _ _ _ _ E) as (Hl & -> & ->).
    rewrite (step_frame_app _ _ _ _ x Hl), E. split; [reflexivity|]. split; [|reflexivity].
    unfold dmeas. rewrite !skipn_length. lia.
Qed.

Lemma np_step_err mi mc npi st s e st' npi' r x :
  nonpubb st s = true -> decode_step mi mc npi st s = (Err e, st', npi', r) ->
  decode_step mi mc npi st (s ++ x) = (Err e, st', npi', r ++ x) /\ nonpubb st (s ++ x) = true.
Proof.
  intros G E. split; [|destruct st; try discriminate; [|reflexivity]; destruct s as [|a s];
    [cbn [decode_step step_frame_header] in E; discriminate|exact G]].
  destruct st as [|fb rl|fb rl|pl fb rl|rem]; cbn [nonpubb] in G; try discriminate;
    cbn [decode_step] in *.
  - destruct (sfh_cases_np mi mc npi s G) as [E0|[(e0 & E0 & Ex)|(fb & tl & rl & k & Es & Hp & Hk & E0 & Ex)]].
    + rewrite E0 in E; discriminate.
    + rewrite E0 in E. injection E as <- <- <- <-. apply Ex.
    + rewrite E0 in E. rewrite Ex.
      destruct (N.leb_spec rl (len (skipn k s))) as [Hl|Hl].
      * rewrite (step_frame_app _ _ _ _ x Hl), E. reflexivity.
      * rewrite (step_frame_blocked _ _ _ _ Hl) in E. discriminate.
  - destruct (N.leb_spec rl (len s)) as [Hl|Hl].
    + rewrite (step_frame_app _ _ _ _ x Hl), E. reflexivity.
    + rewrite (step_frame_blocked _ _ _ _ Hl) in E. discriminate.
Qed.

Lemma np_step_nopanic mi mc npi st s p st' npi' r :
  nonpubb st s = true -> decode_step mi mc npi st s <> (Panic p, st', npi', r).
Proof.
  intros G E. assert (W : dstate_wf st = true) by (destruct st; try discriminate; reflexivity).
  pose proof (v5_decode_total mi mc npi st s W) as T. rewrite E in T. exact T.
Qed.

(* a blocked step: the state it leaves is itself blocked on what is left (idempotent), and decoding
   the longer buffer from the old state is decoding it from the new one *)
Lemma np_step_blocked mi mc npi st s st' npi' r :
  nonpubb st s = true -> decode_step mi mc npi st s = (Ok None, st', npi', r) ->
  npi' = npi /\ nonpubb st' r = true /\ decode_step mi mc npi st' r = (Ok None, st', npi, r) /\
  (dmeas st' r <= dmeas st s)%nat /\
  forall x, decode_step mi mc npi st (s ++ x) = decode_step mi mc npi st' (r ++ x) /\
            ((st' = st /\ r = s) \/ (nonpubb st (s ++ x) = true /\ nonpubb st' (r ++ x) = true)).
Proof.
  intros G E. destruct st as [|fb rl|fb rl|pl fb rl|rem]; cbn [nonpubb] in G; try discriminate;
    cbn [decode_step] in *.
  - destruct (sfh_cases_np mi mc npi s G) as [E0|[(e0 & E0 & Ex)|(fb & tl & rl & k & Es & Hp & Hk & E0 & Ex)]].
    + rewrite E0 in E. injection E as <- <- <-. cbn [decode_step].
      split; [reflexivity|]. split; [exact G|]. split; [exact E0|]. split; [lia|].
      intros x. split; [reflexivity|]. left. split; reflexivity.
    + rewrite E0 in E. discriminate.
    + rewrite E0 in E. destruct (step_frame_blocked_inv _ _ _ _ _ _ _ E) as (Hl & -> & -> & ->).
      cbn [decode_step nonpubb]. split; [reflexivity|]. split; [reflexivity|].
      split; [apply step_frame_blocked; exact Hl|].
      split; [unfold dmeas; rewrite skipn_length; lia|]. intros x. split; [apply Ex|].
      right. subst s. cbn [app nonpubb]. rewrite Hp. split; reflexivity.
  - destruct (step_frame_blocked_inv _ _ _ _ _ _ _ E) as (Hl & -> & -> & ->).
    cbn [decode_step nonpubb]. split; [reflexivity|]. split; [reflexivity|].
    split; [apply step_frame_blocked; exact Hl|]. split; [lia|].
    intros x. split; [reflexivity|]. left. split; reflexivity.
Qed.

Lemma nonpubb_app_false st s x : nonpubb st s = false -> nonpubb st (s ++ x) = false.
Proof. destruct st; cbn [nonpubb]; try discriminate; auto. destruct s; [discriminate|]. cbn [app]. auto. Qed.

Lemma dmeas_app st s x : dmeas st (s ++ x) = (dmeas st s + length x)%nat.
Proof. unfold dmeas. rewrite app_length. lia. Qed.

Lemma dmeas_fuel st s : (dmeas st s < drain_fuel s)%nat.
Proof. unfold dmeas, drain_fuel. destruct st; lia. Qed.

(* --- fuel is irrelevant once it covers the measure *)
Lemma drain_fuel_irrel mi mc f1 : forall f2 st npi buf,
  (dmeas st buf < f1)%nat -> (dmeas st buf < f2)%nat ->
  drain true f1 mi mc npi st buf = drain true f2 mi mc npi st buf.
Proof.
  induction f1 as [|f1 IH]; intros f2 st npi buf H1 H2; [lia|]. destruct f2 as [|f2]; [lia|].
  cbn [drain andb]. destruct (nonpubb st buf) eqn:G; cbn [negb]; [|reflexivity].
  destruct (decode_step mi mc npi st buf) as [[[[[it|]|e|p] st'] npi'] r] eqn:E; try reflexivity.
  destruct (np_step_item _ _ _ _ _ _ _ _ _ [] G E) as (_ & Hm & _).
  f_equal. apply IH; lia.
Qed.

(* --- draining s, then (if blocked) draining what is left plus x, is draining s ++ x *)
Lemma drain_app mi mc f : forall st npi s, (dmeas st s < f)%nat ->
  forall its o st1 npi1 r1, drain true f mi mc npi st s = (its, o, st1, npi1, r1) ->
  match o with
  | Blocked =>
    nonpubb st1 r1 = true /\ decode_step mi mc npi1 st1 r1 = (Ok None, st1, npi1, r1) /\
    forall x f' f'', (dmeas st1 (r1 ++ x) < f')%nat -> (dmeas st (s ++ x) < f'')%nat ->
      drain true f'' mi mc npi st (s ++ x) = rr_app its (drain true f' mi mc npi1 st1 (r1 ++ x))
  | Failed _ | SawPublish =>
    forall x f'', (dmeas st (s ++ x) < f'')%nat ->
      drain true f'' mi mc npi st (s ++ x) = (its, o, st1, npi1, r1 ++ x)
  | Crashed _ | NoFuel => False
  end.
Proof.
  induction f as [|f IH]; intros st npi s Hf its o st1 npi1 r1 D; [lia|].
  cbn [drain andb] in D. destruct (nonpubb st s) eqn:G; cbn [negb] in D.
  2:{ injection D as <- <- <- <- <-. intros x f'' Hf''. destruct f'' as [|f'']; [lia|].
      cbn [drain andb]. rewrite (nonpubb_app_false _ _ x G). reflexivity. }
  destruct (decode_step mi mc npi st s) as [[[[[it|]|e|p] st'] npi'] r] eqn:E.
  - (* item *)
    destruct (drain true f mi mc npi' st' r) as [[[[its' o'] st2] npi2] r2] eqn:D'.
    cbn [rr_app app] in D. injection D as <- <- <- <- <-.
    assert (Hm : (dmeas st' r < dmeas st s)%nat) by (apply (np_step_item _ _ _ _ _ _ _ _ _ [] G E)).
    assert (Hf' : (dmeas st' r < f)%nat) by lia.
    pose proof (IH st' npi' r Hf' _ _ _ _ _ D') as H.
    destruct o'; try contradiction.
    + destruct H as (G1 & E1 & Hx). split; [exact G1|]. split; [exact E1|].
      intros x f' f'' Hf1 Hf2. destruct f'' as [|f'']; [lia|].
      destruct (np_step_item _ _ _ _ _ _ _ _ _ x G E) as (Ex & _ & Gx).
      cbn [drain andb]. rewrite Gx, Ex. cbn [negb].
      rewrite (Hx x f' f'' Hf1) by (rewrite dmeas_app in *; lia).
      rewrite rr_app_app. reflexivity.
    + intros x f'' Hf2. destruct f'' as [|f'']; [lia|].
      destruct (np_step_item _ _ _ _ _ _ _ _ _ x G E) as (Ex & _ & Gx).
      cbn [drain andb]. rewrite Gx, Ex. cbn [negb].
      rewrite (H x f'') by (rewrite dmeas_app in *; lia). reflexivity.
    + intros x f'' Hf2. destruct f'' as [|f'']; [lia|].
      destruct (np_step_item _ _ _ _ _ _ _ _ _ x G E) as (Ex & _ & Gx).
      cbn [drain andb]. rewrite Gx, Ex. cbn [negb].
      rewrite (H x f'') by (rewrite dmeas_app in *; lia). reflexivity.
  - (* blocked *)
    injection D as <- <- <- <- <-.
    destruct (np_step_blocked _ _ _ _ _ _ _ _ G E) as (-> & G1 & E1 & Hm & Hx).
    split; [exact G1|]. split; [exact E1|]. intros x f' f'' Hf1 Hf2.
    destruct f'' as [|f'']; [lia|]. rewrite rr_app_nil.
    rewrite <- (drain_fuel_irrel mi mc (S f'') f') by (rewrite ?dmeas_app in *; lia).
    destruct (Hx x) as (Ex & [(-> & ->)|(Gx & Gx')]); [reflexivity|].
    cbn [drain]. rewrite Ex, Gx, Gx'. reflexivity.
  - (* error *)
    injection D as <- <- <- <- <-. intros x f'' Hf2. destruct f'' as [|f'']; [lia|].
    destruct (np_step_err _ _ _ _ _ _ _ _ _ x G E) as (Ex & Gx).
    cbn [drain andb]. rewrite Gx, Ex. reflexivity.
  - exfalso. exact (np_step_nopanic _ _ _ _ _ _ _ _ _ G E).
Qed.

(* --- feeding chunk by chunk from a blocked position is draining the concatenation *)
Lemma feed_oneshot mi mc : forall cs st npi buf,
  nonpubb st buf = true -> decode_step mi mc npi st buf = (Ok None, st, npi, buf) ->
  feed true mi mc npi st buf cs =
  drain true (drain_fuel (buf ++ concat cs)) mi mc npi st (buf ++ concat cs).
Proof.
  induction cs as [|c cs IH]; intros st npi buf G E.
  - cbn [feed concat]. rewrite app_nil_r. unfold drain_fuel. cbn [drain andb]. rewrite G, E. reflexivity.
  - cbn [feed concat]. rewrite app_assoc. set (s := buf ++ c).
    destruct (drain true (drain_fuel s) mi mc npi st s) as [[[[its o] st1] npi1] r1] eqn:D.
    pose proof (drain_app mi mc _ st npi s (dmeas_fuel st s) _ _ _ _ _ D) as H.
    destruct o; try contradiction.
    + destruct H as (G1 & E1 & Hx). rewrite (IH _ _ _ G1 E1).
      symmetry. apply Hx; apply dmeas_fuel.
    + symmetry. apply H. apply dmeas_fuel.
    + symmetry. apply H. apply dmeas_fuel.
Qed.

(* C10 on the non-PUBLISH path: the items, the final status, state, flag and leftover bytes do not
   depend on how the byte stream was cut into chunks (any max_in, any min_chunk) *)
Theorem v5_frag_independent mi mc npi chunks :
  feed true mi mc npi FrameHeader [] chunks = feed true mi mc npi FrameHeader [] [concat chunks].
Proof.
  rewrite !feed_oneshot by reflexivity. cbn [concat]. rewrite app_nil_r. reflexivity.
Qed.

(* --- the guard is only a way of stating the hypothesis "no PUBLISH was met" *)
Lemma drain_guard_off mi mc f : forall st npi buf,
  rr_status (drain true f mi mc npi st buf) <> SawPublish ->
  drain false f mi mc npi st buf = drain true f mi mc npi st buf.
Proof.
  induction f as [|f IH]; intros st npi buf H; [reflexivity|]. cbn [drain andb] in *.
  destruct (nonpubb st buf); cbn [negb] in *; [|exfalso; apply H; reflexivity].
  destruct (decode_step mi mc npi st buf) as [[[[[it|]|e|p] st'] npi'] r]; try reflexivity.
  rewrite rr_status_app in H. rewrite (IH _ _ _ H). reflexivity.
Qed.

Lemma feed_guard_off mi mc : forall cs st npi buf,
  rr_status (feed true mi mc npi st buf cs) <> SawPublish ->
  feed false mi mc npi st buf cs = feed true mi mc npi st buf cs.
Proof.
  induction cs as [|c cs IH]; intros st npi buf H; [reflexivity|]. cbn [feed] in *.
  destruct (drain true (drain_fuel (buf ++ c)) mi mc npi st (buf ++ c)) as [[[[its o] st1] npi1] r1] eqn:D.
  assert (Ho : o <> SawPublish).
  { intros ->. apply H. reflexivity. }
  rewrite drain_guard_off by (rewrite D; exact Ho). rewrite D.
  destruct o; try reflexivity. rewrite rr_status_app in H. rewrite (IH _ _ _ H). reflexivity.
Qed.

Corollary v5_frag_independent_unguarded mi mc npi chunks :
  rr_status (feed true mi mc npi FrameHeader [] [concat chunks]) <> SawPublish ->
  feed false mi mc npi FrameHeader [] chunks = feed false mi mc npi FrameHeader [] [concat chunks].
Proof.
  intros H. rewrite (feed_guard_off _ _ [concat chunks]) by exact H.
  rewrite <- v5_frag_independent in *. now apply feed_guard_off.
Qed.

(* sanity: two PINGREQ and a DISCONNECT cut in the middle of a frame *)
Example frag_example :
  feed false 0 0 false FrameHeader [] [[192; 0; 192]; [0; 224]; [1; 0]] =
  ([DPacket PingRequest 0; DPacket PingRequest 0;
    DPacket (Disconnect (mkDisconnect 0 None None None [])) 1], Blocked, FrameHeader, false, []).
Proof. vm_compute. reflexivity. Qed.

(* ================================================================== assumptions *)
Print Assumptions v5_decode_total.
Print Assumptions v5_decode_total_refuted.
Print Assumptions v5_wf_preserved.
Print Assumptions v5_reachable_total.
Print Assumptions v5_step_prefix.
Print Assumptions v5_no_stall.
Print Assumptions v5_oversize_rejected_at_header.
Print Assumptions v5_header_within_frame.
Print Assumptions v5_unknown_property_props.
Print Assumptions v5_dup_once_only_pair.
Print Assumptions v5_unknown_reason_code_stream.
Print Assumptions v5_zero_packet_id_stream.
Print Assumptions v5_qos3_header.
Print Assumptions v5_bad_utf8_props.
Print Assumptions v5_inner_len_exceeds_rl_frame.
Print Assumptions v5_frag_independent.
Print Assumptions v5_frag_independent_unguarded.
