(* Proofs/ConstsProofs.v -- the tables translated from the Rust source (Gen/Consts.v, regenerated on
   every run by tools/rs2v.py) are the tables of the OASIS specifications (Spec/SpecConsts.v), and
   the constants the hand-written models use are those same values. A change made consistently to
   encoder and decoder in the Rust (they share these constants) breaks these obligations although
   the crate still round-trips with itself. *)
From Coq Require Import List NArith String.
From MV Require Import Gen.Consts Spec.SpecConsts.
Import ListNotations.
Local Open Scope N_scope.

Lemma packet_type_bytes_are_the_spec_bytes : gen_packet_types = spec_packet_types.
Proof. reflexivity. Qed.
Lemma property_ids_are_the_spec_ids : gen_property_types = spec_property_types.
Proof. reflexivity. Qed.
Lemma reason_codes_are_the_spec_codes :
  gen_enum_QoS = spec_enum_QoS /\
  gen_enum_v3_ConnectAckReason = spec_enum_v3_ConnectAckReason /\
  gen_enum_v5_AuthReasonCode = spec_enum_v5_AuthReasonCode /\
  gen_enum_v5_ConnectAckReason = spec_enum_v5_ConnectAckReason /\
  gen_enum_v5_DisconnectReasonCode = spec_enum_v5_DisconnectReasonCode /\
  gen_enum_v5_PublishAck2Reason = spec_enum_v5_PublishAck2Reason /\
  gen_enum_v5_PublishAckReason = spec_enum_v5_PublishAckReason /\
  gen_enum_v5_RetainHandling = spec_enum_v5_RetainHandling /\
  gen_enum_v5_SubscribeAckReason = spec_enum_v5_SubscribeAckReason /\
  gen_enum_v5_UnsubscribeAckReason = spec_enum_v5_UnsubscribeAckReason.
Proof. repeat split; reflexivity. Qed.
Lemma flag_bits_are_the_spec_bits :
  gen_flags_ConnectFlags = spec_flags_ConnectFlags /\ gen_flags_ConnectAckFlags = spec_flags_ConnectAckFlags.
Proof. split; reflexivity. Qed.
Lemma scalars_are_the_spec_scalars :
  gen_protocol_name = spec_protocol_name /\ gen_MAX_PACKET_SIZE = spec_MAX_PACKET_SIZE /\
  gen_MQTT_LEVEL_3 = spec_MQTT_LEVEL_3 /\ gen_MQTT_LEVEL_5 = spec_MQTT_LEVEL_5 /\
  gen_WILL_QOS_SHIFT = spec_WILL_QOS_SHIFT /\ gen_PUBACK_HEADER_LEN = spec_PUBACK_HEADER_LEN /\
  gen_OUT_SIZE_THRESHOLD = spec_OUT_SIZE_THRESHOLD /\ gen_OUT_SIZE_REDUCTION = spec_OUT_SIZE_REDUCTION /\
  gen_RECEIVE_MAX_DEFAULT = spec_RECEIVE_MAX_DEFAULT.
Proof. repeat split; reflexivity. Qed.
Lemma violation_reasons_are_the_spec_reasons :
  gen_spec_violation_reason = spec_spec_violation_reason /\ gen_proto_error_reason = spec_proto_error_reason.
Proof. split; reflexivity. Qed.

(* lookup helpers used by the model-constant ties *)
Fixpoint lookup (k : string) (l : list (string * N)) : option N :=
  match l with [] => None | (k', v) :: r => if String.eqb k k' then Some v else lookup k r end.
Fixpoint lookup_s (k : string) (l : list (string * string)) : option string :=
  match l with [] => None | (k', v) :: r => if String.eqb k k' then Some v else lookup_s k r end.

(* dedicated DISCONNECT codes of C15, read through the translated tables *)
Definition reason_code_of (cause : string) : option N :=
  match lookup_s cause gen_spec_violation_reason with
  | Some name => lookup name gen_enum_v5_DisconnectReasonCode
  | None => None
  end.
Definition proto_reason_code_of (cause : string) : option N :=
  match lookup_s cause gen_proto_error_reason with
  | Some name => lookup name gen_enum_v5_DisconnectReasonCode
  | None => None
  end.

Lemma dedicated_codes :
  proto_reason_code_of "KeepAliveTimeout" = Some 141 (* 0x8D *) /\
  proto_reason_code_of "Decode(MaxSizeExceeded)" = Some 149 (* 0x95 *) /\
  reason_code_of "Pub_3_3_4_7" = Some 147 (* 0x93 *) /\ reason_code_of "Pub_3_3_4_9" = Some 147 /\
  reason_code_of "Connack_3_2_2_11" = Some 155 (* 0x9B *) /\
  reason_code_of "Connack_3_2_2_14" = Some 154 (* 0x9A *) /\
  reason_code_of "Connack_3_2_2_3_12" = Some 161 (* 0xA1 *) /\
  lookup "TopicAliasInvalid" gen_enum_v5_DisconnectReasonCode = Some 148 (* 0x94 *) /\
  lookup "NormalDisconnection" gen_enum_v5_DisconnectReasonCode = Some 0.
Proof. repeat split; reflexivity. Qed.
