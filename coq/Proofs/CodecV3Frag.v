(* Proofs/CodecV3Frag.v -- C10, part 1: driving the decoder over a chunked byte stream ([run], [feed],
   [feeds]); fuel suffices; per-PUBLISH invariants of the delivered pieces. *)
From Coq Require Import ZArith ZifyN ZifyBool Lia.
From MV Require Import Base.Prelude Base.Res Base.VarInt Base.Utf8 Proofs.VarIntProofs Model.CodecV3
  Proofs.CodecV3Lib Proofs.CodecV3Dec Proofs.CodecV3Stable.
Ltac Zify.zify_post_hook ::= Z.div_mod_to_equations.
Set Warnings "-unused-intro-pattern".

Inductive outcome := NeedMore | Failed (e : N) | Crashed (s : N) | OutOfFuel.

(* call decode until it asks for more data or fails, collecting the items *)
Fixpoint run (ms mc : N) (fuel : nat) (st : dstate) (buf : bytes) : list item * dstate * bytes * outcome :=
  match fuel with
  | O => ([], st, buf, OutOfFuel)
  | S k =>
    match decode_step ms mc st buf with
    | (Ok None, st', buf') => ([], st', buf', NeedMore)
    | (Ok (Some it), st', buf') =>
      let '(its, st'', buf'', o) := run ms mc k st' buf' in (it :: its, st'', buf'', o)
    | (Err e, st', buf') => ([], st', buf', Failed e)
    | (Panic s, st', buf') => ([], st', buf', Crashed s)
    end
  end.

Definition feed_fuel (buf : bytes) : nat := 2 * length buf + 2.

(* one read from the transport: append the chunk, then decode as far as possible *)
Definition feed (ms mc : N) (st : dstate) (buf chunk : bytes) : list item * dstate * bytes * outcome :=
  run ms mc (feed_fuel (buf ++ chunk)) st (buf ++ chunk).

(* a sequence of reads; decoding stops for good at the first failure *)
Fixpoint feeds (ms mc : N) (st : dstate) (buf : bytes) (chunks : list bytes)
  : list item * dstate * bytes * outcome :=
  match chunks with
  | [] => ([], st, buf, NeedMore)
  | c :: cs =>
    match feed ms mc st buf c with
    | (its, st', buf', NeedMore) =>
      let '(its', st'', buf'', o) := feeds ms mc st' buf' cs in (its ++ its', st'', buf'', o)
    | r => r
    end
  end.

(* ------------------------------------------------------------------ progress of item-producing steps *)
Lemma item_step_progress ms mc st buf it st' buf' :
  decode_step ms mc st buf = (Ok (Some it), st', buf') ->
  (length buf' < length buf)%nat \/ (st <> FrameHeader /\ st' = FrameHeader /\ length buf' = length buf).
Proof.
  intros H.
  assert (Hnf : forall st0 src, st0 <> FrameHeader -> decode_step ms mc st0 src = (Ok (Some it), st', buf') ->
            (length buf' < length src)%nat \/ (st' = FrameHeader /\ length buf' = length src)).
  { clear. intros [|fb rl|fb rl|n] src Hst H; [congruence| | |]; cbn [decode_step] in H.
    - apply step_frame_item in H as (p & _ & Hl & _ & -> & ->). rewrite skipn_length.
      destruct (N.to_nat rl) eqn:E; [right; split; [reflexivity|lia]|left].
      rewrite <- len_length in *. lia.
    - apply step_publish_header_item in H as (a & b & tl & q & pub & x & pl & -> & _ & _ & Hls & _ & _ & _ & k & _ & ->).
      left. rewrite !skipn_length. cbn [length]. revert Hls. lens. intros Hls.
      assert (2 <= N.to_nat (a * 256 + b + 2 + (if is_qos12 q then 2 else 0)))%nat by lia.
      assert (N.to_nat (a * 256 + b + 2 + (if is_qos12 q then 2 else 0)) <= S (S (length tl)))%nat.
      { rewrite <- len_length. lia. }
      lia.
    - unfold step_publish_payload in H. destruct (_ || _) eqn:Ec; [|discriminate]. unfold split_at in H.
      set (k := N.min (len src) n) in *.
      destruct (sub_chk n _) as [rem| |] eqn:Es; try discriminate.
      unfold sub_chk in Es. destruct (_ <=? n) eqn:El; [|discriminate]. injection Es as <-.
      destruct (0 <? _) eqn:Ez; inversion H; subst st' buf'; rewrite skipn_length.
      + (* not final: k = len src must be positive *)
        destruct (N.eq_dec k 0) as [Hk|Hk]; [|left; rewrite <- len_length; lia].
        exfalso. assert (Hs : len src = 0) by (revert Ez; lens; unfold k in *; rewrite as_u32_small; lia).
        rewrite Hs in Ec. change (as_u32 0) with 0 in Ec. lia.
      + destruct (N.eq_dec k 0) as [Hk|Hk]; [right; split; [reflexivity|lia]|left].
        rewrite <- len_length. lia. }
  assert (Hnf' : forall st0, st0 <> FrameHeader -> decode_step ms mc st0 buf = (Ok (Some it), st', buf') ->
            (length buf' < length buf)%nat \/ (st0 <> FrameHeader /\ st' = FrameHeader /\ length buf' = length buf)).
  { intros st0 Hs H0. destruct (Hnf st0 buf Hs H0) as [L|[-> L]]; [left; exact L|right; auto]. }
  destruct st as [|fb rl|fb rl|n]; try (apply Hnf'; [discriminate|exact H]).
  cbn [decode_step] in H.
  destruct (step_frame_header_cases ms mc buf) as [E|[[e E]|(fb & p & r & rl & -> & _ & Hp & _ & E)]];
    rewrite E in H; try discriminate.
  left.
  assert (Hs : (if is_publish fb then PublishHeader fb rl else Frame fb rl) <> FrameHeader)
    by (destruct (is_publish fb); discriminate).
  destruct (Hnf _ r Hs H) as [L|[_ L]]; cbn [length]; rewrite app_length; lia.
Qed.

Definition mu (st : dstate) (buf : bytes) : nat :=
  (2 * length buf + match st with FrameHeader => 0 | _ => 1 end)%nat.

(* the fuel of [feed] is enough: the loop always ends by itself *)
Lemma run_fuel_enough ms mc : forall fuel st buf, (mu st buf < fuel)%nat ->
  snd (run ms mc fuel st buf) <> OutOfFuel.
Proof.
  induction fuel as [|k IH]; intros st buf Hm; [lia|]. cbn [run].
  destruct (decode_step ms mc st buf) as [[[[it|]|e|s] st'] buf'] eqn:E; try (cbn; discriminate).
  assert (Hm' : (mu st' buf' < k)%nat).
  { destruct (item_step_progress _ _ _ _ _ _ _ E) as [L|(Hs & -> & L)]; unfold mu in *.
    - destruct st, st'; lia.
    - destruct st; try congruence; lia. }
  specialize (IH st' buf' Hm'). destruct (run ms mc k st' buf') as [[[its st''] buf''] o]. exact IH.
Qed.

Lemma run_fuel_mono ms mc : forall fuel fuel' st buf, (fuel <= fuel')%nat ->
  snd (run ms mc fuel st buf) <> OutOfFuel -> run ms mc fuel' st buf = run ms mc fuel st buf.
Proof.
  induction fuel as [|k IH]; intros fuel' st buf Hle Hne; [cbn in Hne; congruence|].
  destruct fuel' as [|k']; [lia|]. cbn [run] in *.
  destruct (decode_step ms mc st buf) as [[[[it|]|e|s] st'] buf']; try reflexivity.
  specialize (IH k' st' buf' ltac:(lia)).
  destruct (run ms mc k st' buf') as [[[its st''] buf''] o] eqn:E1. rewrite IH; [reflexivity|exact Hne].
Qed.

Lemma v3_feed_fuel_suffices : forall ms mc st buf chunk,
  snd (feed ms mc st buf chunk) <> OutOfFuel /\
  forall fuel, (feed_fuel (buf ++ chunk) <= fuel)%nat ->
    run ms mc fuel st (buf ++ chunk) = feed ms mc st buf chunk.
Proof.
  intros ms mc st buf chunk.
  assert (H : snd (feed ms mc st buf chunk) <> OutOfFuel).
  { apply run_fuel_enough. unfold mu, feed_fuel. destruct st; lia. }
  split; [exact H|]. intros fuel Hf. now apply run_fuel_mono.
Qed.

Lemma v3_feed_never_panics : forall ms mc st buf chunk s, snd (feed ms mc st buf chunk) <> Crashed s.
Proof.
  intros ms mc st buf chunk s. unfold feed. generalize (feed_fuel (buf ++ chunk)) as fuel.
  generalize (buf ++ chunk) as b. revert st.
  intros st b fuel. revert st b. induction fuel as [|k IH]; intros st b; [cbn; discriminate|]. cbn [run].
  pose proof (v3_decode_total ms mc st b) as T.
  destruct (decode_step ms mc st b) as [[[[it|]|e|s'] st'] buf']; cbn in T; try contradiction; try (cbn; discriminate).
  specialize (IH st' buf'). destruct (run ms mc k st' buf') as [[[its st''] buf''] o]. exact IH.
Qed.

(* ------------------------------------------------------------------ pieces of a PUBLISH *)
(* payload bytes still owed by the decoder *)
Definition owed_of (st : dstate) : N := match st with PublishPayload n => n | _ => 0 end.

Lemma decode_publish_packet_size hd fb ps pub x :
  decode_publish_packet hd fb ps = Ok (pub, x) -> p_payload_size pub = ps.
Proof.
  unfold decode_publish_packet. intros H.
  apply bind_ok in H as ([t r] & _ & H). apply bind_ok in H as (q' & _ & H).
  apply bind_ok in H as ([pid r2] & _ & H). injection H as <- _. reflexivity.
Qed.

Lemma publish_header_piece mc fb rl src it st' src' : rl <= VI_MAX ->
  step_publish_header mc fb rl src = (Ok (Some it), st', src') ->
  exists pub pl, it = IPublish pub pl rl /\ p_payload_size pub <= rl /\
    len pl + owed_of st' = p_payload_size pub /\ dstate_ok st' = true.
Proof.
  intros Hrl. unfold step_publish_header. destruct (rl <? 2); [discriminate|].
  destruct (publish_size src fb) as [[hdr|]| |]; try discriminate.
  destruct (rl <? hdr) eqn:E1; [discriminate|].
  destruct (len src <? hdr) eqn:E2; [discriminate|].
  rewrite sub_chk_ok by lia. unfold split_at.
  destruct (decode_publish_packet _ fb (rl - hdr)) as [[pub x]| |] eqn:Ed; try discriminate.
  apply decode_publish_packet_size in Ed.
  set (rest := skipn (N.to_nat hdr) src).
  destruct (_ || _) eqn:Ec.
  - set (k := N.min (len rest) (rl - hdr)).
    assert (Hk : as_u32 (len (firstn (N.to_nat k) rest)) = k).
    { lens. rewrite as_u32_small; unfold U32MAX, VI_MAX in *; lia. }
    rewrite Hk, sub_chk_ok by lia. intros [= <- <- <-].
    exists pub, (firstn (N.to_nat k) rest). rewrite Ed. lens.
    destruct (0 <? rl - hdr - k) eqn:Ez; cbn [owed_of dstate_ok]; unfold VI_MAX in *; repeat split; lia.
  - intros [= <- <- <-]. exists pub, []. rewrite Ed. cbn [owed_of dstate_ok]. lens.
    assert (as_u32 (len rest) < rl - hdr) by lia. unfold VI_MAX in *. repeat split; lia.
Qed.

Lemma publish_payload_piece mc n src it st' src' : n <= VI_MAX ->
  step_publish_payload mc n src = (Ok (Some it), st', src') ->
  exists pl eof, it = IChunk pl eof /\ len pl + owed_of st' = n /\
    eof = (owed_of st' =? 0) /\ (eof = false -> mc <> 0 /\ mc <= len pl) /\
    (if eof then st' = FrameHeader else st' = PublishPayload (n - len pl)) /\
    pl = firstn (N.to_nat (N.min (len src) n)) src /\ src' = skipn (N.to_nat (N.min (len src) n)) src.
Proof.
  intros Hn. unfold step_publish_payload. destruct (_ || _) eqn:Ec; [|discriminate]. unfold split_at.
  set (k := N.min (len src) n).
  assert (Hk : as_u32 (len (firstn (N.to_nat k) src)) = k).
  { lens. rewrite as_u32_small; unfold U32MAX, VI_MAX in *; lia. }
  rewrite Hk, sub_chk_ok by lia.
  destruct (0 <? n - k) eqn:Ez; intros [= <- <- <-]; do 2 eexists; (split; [reflexivity|]);
    cbn [owed_of]; lens; repeat split; try lia; try discriminate.
  - pose proof (as_u32_le (len src)). lia.
  - pose proof (as_u32_le (len src)). lia.
  - f_equal. lia.
Qed.

Lemma header_item ms mc buf it st' buf' :
  decode_step ms mc FrameHeader buf = (Ok (Some it), st', buf') ->
  exists fb rl r, rl <= VI_MAX /\
    decode_step ms mc (if is_publish fb then PublishHeader fb rl else Frame fb rl) r = (Ok (Some it), st', buf').
Proof.
  intros H. cbn [decode_step] in H.
  destruct (step_frame_header_cases ms mc buf) as [E|[[e E]|(fb & p & r & rl & -> & Hd & _ & _ & E)]];
    rewrite E in H; try discriminate.
  exists fb, rl, r. split; [eapply dec_vi_bound; eauto|exact H].
Qed.

(* what one item tells about the payload still owed: [Some owed'] *)
Definition piece_ok (mc owed : N) (it : item) : option N :=
  match it with
  | IPacket _ _ => if owed =? 0 then Some 0 else None
  | IPublish p pl _ => if (owed =? 0) && (len pl <=? p_payload_size p) then Some (p_payload_size p - len pl) else None
  | IChunk pl eof =>
    if (0 <? owed) && (len pl <=? owed) && Bool.eqb eof (owed - len pl =? 0)
       && (eof || (negb (mc =? 0) && (mc <=? len pl)))
    then Some (owed - len pl) else None
  end.

Lemma step_piece_ok ms mc st buf it st' buf' :
  dstate_ok st = true -> decode_step ms mc st buf = (Ok (Some it), st', buf') ->
  piece_ok mc (owed_of st) it = Some (owed_of st') /\ dstate_ok st' = true.
Proof.
  intros Hok H.
  assert (Hnf : forall st0 src, st0 <> FrameHeader -> dstate_ok st0 = true ->
            decode_step ms mc st0 src = (Ok (Some it), st', buf') ->
            piece_ok mc (owed_of st0) it = Some (owed_of st') /\ dstate_ok st' = true).
  { clear. intros [|fb rl|fb rl|n] src Hst Hok H; [congruence| | |]; cbn [decode_step dstate_ok owed_of] in *.
    - apply step_frame_item in H as (p & -> & _ & _ & -> & _). split; reflexivity.
    - apply publish_header_piece in H as (pub & pl & -> & Hle & Hs & Hd); [|lia]. split; [|exact Hd].
      cbn [piece_ok]. replace ((0 =? 0) && (len pl <=? p_payload_size pub)) with true by lia. f_equal. lia.
    - apply publish_payload_piece in H as (pl & eof & -> & Hs & He & Hm & Hst' & _); [|lia].
      cbn [piece_ok]. split.
      + assert (C : (0 <? n) && (len pl <=? n) && Bool.eqb eof (n - len pl =? 0)
                    && (eof || (negb (mc =? 0) && (mc <=? len pl))) = true).
        { destruct eof.
          - replace (n - len pl =? 0) with true by lia. cbn. lia.
          - destruct (Hm eq_refl). replace (n - len pl =? 0) with false by lia. cbn. lia. }
        rewrite C. f_equal. lia.
      + destruct eof; subst st'; cbn [dstate_ok]; [reflexivity|]. cbn [owed_of] in *. lia. }
  destruct st as [|fb rl|fb rl|n]; try (apply (Hnf _ buf); [discriminate|exact Hok|exact H]).
  apply header_item in H as (fb & rl & r & Hrl & H).
  replace (owed_of FrameHeader) with (owed_of (if is_publish fb then PublishHeader fb rl else Frame fb rl))
    by (destruct (is_publish fb); reflexivity).
  apply (Hnf _ r); [destruct (is_publish fb); discriminate| |exact H].
  destruct (is_publish fb); cbn [dstate_ok]; lia.
Qed.

(* C10: delivered + remaining = declared payload size, at the PUBLISH itself and at every chunk *)
Lemma v3_pieces_sum : forall ms mc st buf it st' buf',
  dstate_ok st = true -> decode_step ms mc st buf = (Ok (Some it), st', buf') ->
  match it with
  | IPacket _ _ => owed_of st = 0 /\ owed_of st' = 0
  | IPublish p pl rl => owed_of st = 0 /\ len pl + owed_of st' = p_payload_size p
  | IChunk pl _ => 0 < owed_of st /\ len pl + owed_of st' = owed_of st
  end.
Proof.
  intros ms mc st buf it st' buf' Hok H.
  destruct (step_piece_ok _ _ _ _ _ _ _ Hok H) as [Hp _]. destruct it as [p rl|p pl rl|pl eof]; cbn [piece_ok] in Hp.
  - destruct (owed_of st =? 0) eqn:E; [|discriminate]. injection Hp as Hp. split; lia.
  - destruct ((owed_of st =? 0) && _) eqn:E; [|discriminate]. injection Hp as Hp. split; lia.
  - destruct (_ && _) eqn:E; [|discriminate]. injection Hp as Hp. split; lia.
Qed.

Lemma chunk_next_state ms mc st buf pl eof st' buf' :
  dstate_ok st = true -> decode_step ms mc st buf = (Ok (Some (IChunk pl eof)), st', buf') ->
  st' = FrameHeader \/ exists m, st' = PublishPayload m.
Proof.
  intros Hok H. destruct st as [|fb0 rl0|fb0 rl0|n]; cbn [decode_step dstate_ok] in *.
  - apply header_item in H as (fb1 & rl1 & r & _ & H). destruct (is_publish fb1); cbn [decode_step] in H.
    + apply step_publish_header_item in H as (? & ? & ? & ? & ? & ? & ? & _ & _ & _ & _ & _ & Hit & _). discriminate.
    + apply step_frame_item in H as (? & Hit & _). discriminate.
  - apply step_frame_item in H as (? & Hit & _). discriminate.
  - apply step_publish_header_item in H as (? & ? & ? & ? & ? & ? & ? & _ & _ & _ & _ & _ & Hit & _). discriminate.
  - apply publish_payload_piece in H as (pl' & eof' & _ & _ & _ & _ & Hst & _); [|lia].
    destruct eof'; [now left|right; eauto].
Qed.

(* C10: a chunk is marked final exactly when nothing is owed after it *)
Lemma v3_one_final : forall ms mc st buf pl eof st' buf',
  dstate_ok st = true -> decode_step ms mc st buf = (Ok (Some (IChunk pl eof)), st', buf') ->
  eof = (owed_of st' =? 0) /\ (eof = true <-> st' = FrameHeader).
Proof.
  intros ms mc st buf pl eof st' buf' Hok H.
  destruct (step_piece_ok _ _ _ _ _ _ _ Hok H) as [Hp Hd]. cbn [piece_ok] in Hp.
  destruct (_ && _) eqn:E; [|discriminate]. injection Hp as Hp.
  assert (He : eof = (owed_of st' =? 0)).
  { rewrite <- Hp. destruct eof, (owed_of st - len pl =? 0); cbn in E; try reflexivity; lia. }
  split; [exact He|]. rewrite He.
  destruct (chunk_next_state _ _ _ _ _ _ _ _ Hok H) as [->|[m ->]]; cbn [owed_of dstate_ok] in *.
  - split; auto.
  - split; intros X; [lia|discriminate].
Qed.

(* C10: a piece that is not the last one is at least min_chunk long (and only exists when min_chunk <> 0) *)
Lemma v3_min_chunk_respected : forall ms mc st buf pl st' buf',
  dstate_ok st = true -> decode_step ms mc st buf = (Ok (Some (IChunk pl false)), st', buf') ->
  mc <> 0 /\ mc <= len pl.
Proof.
  intros ms mc st buf pl st' buf' Hok H.
  destruct (step_piece_ok _ _ _ _ _ _ _ Hok H) as [Hp _]. cbn [piece_ok] in Hp.
  destruct (_ && _) eqn:E; [|discriminate]. cbn [orb] in E. lia.
Qed.

(* the same facts along a whole run, and across reads: [track] folds [piece_ok] *)
Fixpoint track (mc owed : N) (its : list item) : option N :=
  match its with
  | [] => Some owed
  | it :: r => match piece_ok mc owed it with Some o => track mc o r | None => None end
  end.

Lemma track_app mc its1 : forall owed its2,
  track mc owed (its1 ++ its2) = match track mc owed its1 with Some o => track mc o its2 | None => None end.
Proof.
  induction its1 as [|it r IH]; intros owed its2; cbn [app track]; [reflexivity|].
  destruct (piece_ok mc owed it); [apply IH|reflexivity].
Qed.

Lemma step_keeps_owed ms mc st buf : dstate_ok st = true ->
  (forall it, sres (decode_step ms mc st buf) <> Ok (Some it)) ->
  owed_of (sst (decode_step ms mc st buf)) = owed_of st.
Proof.
  intros Hok Hni.
  assert (Hnf : forall st0 src, st0 <> FrameHeader -> dstate_ok st0 = true ->
            (forall it, sres (decode_step ms mc st0 src) <> Ok (Some it)) ->
            sst (decode_step ms mc st0 src) = st0).
  { clear. intros st0 src Hs Hok Hni. destruct (step_budget ms mc st0 src Hs Hok) as (c & _ & _ & Hb).
    unfold budget_post in Hb. destruct (sres (decode_step ms mc st0 src)) as [[it|]| |]; try tauto.
    elim (Hni it). reflexivity. }
  destruct st as [|fb rl|fb rl|n]; try (rewrite Hnf; [reflexivity|discriminate|exact Hok|exact Hni]).
  destruct (step_budget_header ms mc buf) as [X|[[e X]|(fb & h & r & rl & st & c & _ & _ & _ & _ & Hrl & -> & X & _)]];
    cbn zeta in *; try (rewrite X; reflexivity).
  rewrite X in *. rewrite Hnf; auto.
  - destruct (is_publish fb); reflexivity.
  - destruct (is_publish fb); discriminate.
  - destruct (is_publish fb); cbn [dstate_ok]; lia.
Qed.

Lemma run_track ms mc : forall fuel st buf its st' buf' o,
  dstate_ok st = true -> run ms mc fuel st buf = (its, st', buf', o) ->
  track mc (owed_of st) its = Some (owed_of st') /\ dstate_ok st' = true.
Proof.
  induction fuel as [|k IH]; intros st buf its st' buf' o Hok H; cbn [run] in H.
  - injection H as <- <- <- <-. auto.
  - pose proof (v3_dstate_ok_preserved ms mc st buf Hok) as Hp.
    pose proof (step_keeps_owed ms mc st buf Hok) as Hk.
    destruct (decode_step ms mc st buf) as [[[[it|]|e|s] st1] buf1] eqn:E; cbn [sres sst fst snd] in Hp, Hk.
    + destruct (run ms mc k st1 buf1) as [[[its1 st2] buf2] o2] eqn:E2. injection H as <- <- <- <-.
      destruct (step_piece_ok _ _ _ _ _ _ _ Hok E) as [P1 D1].
      destruct (IH _ _ _ _ _ _ D1 E2) as [P2 D2]. cbn [track]. rewrite P1. auto.
    + injection H as <- <- <- <-. cbn [track]. split; [|exact Hp]. f_equal. symmetry. apply Hk. discriminate.
    + injection H as <- <- <- <-. cbn [track]. split; [|exact Hp]. f_equal. symmetry. apply Hk. discriminate.
    + exfalso. pose proof (v3_decode_total ms mc st buf) as T. rewrite E in T. exact T.
Qed.

(* C10 invariants over any sequence of reads, from any well-formed decoder state: every PUBLISH is
   announced once, its pieces add up to the declared size, exactly the piece that completes it is
   marked final, non-final pieces respect min_chunk, nothing else is delivered while bytes are owed *)
Lemma v3_pieces_invariant : forall ms mc chunks st buf its st' buf' o,
  dstate_ok st = true -> feeds ms mc st buf chunks = (its, st', buf', o) ->
  track mc (owed_of st) its = Some (owed_of st') /\ dstate_ok st' = true.
Proof.
  intros ms mc chunks. induction chunks as [|c cs IH]; intros st buf its st' buf' o Hok H; cbn [feeds] in H.
  - injection H as <- <- <- <-. auto.
  - destruct (feed ms mc st buf c) as [[[its1 st1] buf1] o1] eqn:E1.
    destruct (run_track _ _ _ _ _ _ _ _ _ Hok E1) as [P1 D1].
    destruct o1; try (injection H as <- <- <- <-; auto).
    destruct (feeds ms mc st1 buf1 cs) as [[[its2 st2] buf2] o2] eqn:E2. injection H as <- <- <- <-.
    destruct (IH _ _ _ _ _ _ D1 E2) as [P2 D2]. rewrite track_app, P1. auto.
Qed.
